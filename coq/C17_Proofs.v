(* C17 - proofs.  Part A: the (graph, blockers) representation of an abstract complex (faces = sub-lists of strictly
   increasing vertex lists; nothing below depends on the order, only on the sub-list relation).
   Part B: the transcription of C17_Model.v refines the abstract operations. *)
From Coq Require Import ZArith List Bool Lia Arith Sorted.
Require Import C17_Model.
Import ListNotations.
Open Scope Z_scope.

(* ================================================================== Part A *)
Inductive sub : list Z -> list Z -> Prop :=
| sub_nil : sub [] []
| sub_skip x l1 l2 : sub l1 l2 -> sub l1 (x :: l2)
| sub_take x l1 l2 : sub l1 l2 -> sub (x :: l1) (x :: l2).
#[local] Hint Constructors sub : core.

Lemma sub_refl l : sub l l.
Proof. induction l; auto. Qed.
Lemma sub_nil_l l : sub [] l.
Proof. induction l; auto. Qed.
Lemma sub_length s t : sub s t -> (length s <= length t)%nat.
Proof. induction 1; simpl; lia. Qed.
Lemma sub_length_eq s t : sub s t -> length s = length t -> s = t.
Proof.
  induction 1 as [|x l1 l2 H IH|x l1 l2 H IH]; simpl; intros E; auto.
  - apply sub_length in H. lia.
  - f_equal. apply IH. lia.
Qed.
Lemma sub_trans a b c : sub a b -> sub b c -> sub a c.
Proof.
  intros H1 H2. revert a H1. induction H2 as [|x l1 l2 H IH|x l1 l2 H IH]; intros a H1; auto.
  inversion H1; subst; auto.
Qed.
Lemma sub_antisym s t : sub s t -> sub t s -> s = t.
Proof. intros H1 H2. apply sub_length_eq; auto. apply sub_length in H1, H2. lia. Qed.
Lemma sub_nil_r s : sub s [] -> s = [].
Proof. inversion 1; auto. Qed.

Lemma sublists_sub t : forall s, In s (sublists t) <-> sub s t.
Proof.
  induction t as [|x t IH]; intros s; simpl.
  - split; [intros [<-|[]]; auto | intros H; left; symmetry; apply sub_nil_r; auto].
  - rewrite in_app_iff, in_map_iff. split.
    + intros [[s' [<- H]]|H]; [apply sub_take | apply sub_skip]; apply IH; auto.
    + intros H. inversion H; subst.
      * right. apply IH; auto.
      * left. eexists; split; eauto. apply IH; auto.
Qed.

Fixpoint subb (s t : list Z) : bool :=
  match s, t with
  | [], _ => true
  | _ :: _, [] => false
  | x :: s', y :: t' => if x =? y then subb s' t' || subb s t' else subb s t'
  end.
Lemma subb_sub s t : subb s t = true <-> sub s t.
Proof.
  revert s. induction t as [|y t IH]; intros s.
  - destruct s; simpl; split; auto using sub_nil_l; try discriminate. intros H; inversion H.
  - destruct s as [|x s]; simpl.
    + split; auto using sub_nil_l.
    + destruct (Z.eqb_spec x y) as [->|N].
      * rewrite orb_true_iff, !IH. split.
        -- intros [H|H]; auto.
        -- intros H; inversion H; subst; auto.
      * rewrite IH. split; auto. intros H; inversion H; subst; auto. congruence.
Qed.

Section Representation.
  Variable K : list Z -> bool.            (* membership in the complex *)

  Definition closed : Prop := K [] = false /\ forall s t, K t = true -> sub s t -> s <> [] -> K s = true.
  (* minimal non-face: not a simplex, every proper non-empty face is *)
  Definition mnf (s : list Z) : Prop :=
    s <> [] /\ K s = false /\ forall t, sub t s -> t <> s -> t <> [] -> K t = true.
  Definition mnfb (s : list Z) : bool :=
    nonempty s && negb (K s) &&
    forallb (fun t => K t || negb (nonempty t) || (length t =? length s)%nat) (sublists s).

  Lemma nonempty_true s : nonempty s = true <-> s <> [].
  Proof. destruct s; simpl; split; congruence. Qed.

  Lemma mnfb_mnf s : mnfb s = true <-> mnf s.
  Proof.
    unfold mnfb, mnf. rewrite !andb_true_iff, negb_true_iff, nonempty_true, forallb_forall. split.
    - intros [[H1 H2] H3]. repeat split; auto. intros t Ht Hne Hn.
      specialize (H3 t (proj2 (sublists_sub s t) Ht)).
      rewrite !orb_true_iff, negb_true_iff in H3. destruct H3 as [[H3|H3]|H3]; auto.
      + destruct t; [congruence | discriminate].
      + apply Nat.eqb_eq in H3. exfalso. apply Hne. apply sub_length_eq; auto.
    - intros [H1 [H2 H3]]. repeat split; auto. intros t Ht. apply sublists_sub in Ht.
      destruct (Nat.eqb_spec (length t) (length s)) as [E|E]; [rewrite orb_true_r; auto|].
      destruct t as [|z t]; [simpl; rewrite orb_true_r; auto|].
      rewrite H3; auto; congruence.
  Qed.

  (* every non-face contains a minimal non-face *)
  Lemma nonface_has_mnf : forall n t, (length t <= n)%nat -> t <> [] -> K t = false -> exists s, sub s t /\ mnf s.
  Proof.
    induction n as [|n IH]; intros t Hl Hne Hk.
    - destruct t; simpl in Hl; [congruence | lia].
    - destruct (mnfb t) eqn:E.
      + exists t. split; [apply sub_refl | apply mnfb_mnf; auto].
      + unfold mnfb in E. rewrite (proj2 (nonempty_true t) Hne), Hk in E. simpl in E.
        assert (Hex : exists u, In u (sublists t) /\ (K u || negb (nonempty u) || (length u =? length t)%nat) = false).
        { clear -E. induction (sublists t) as [|u l IHl]; simpl in E; [discriminate|].
          apply andb_false_iff in E. destruct E as [E|E]; [exists u; simpl; auto|].
          destruct (IHl E) as [u' [H1 H2]]. exists u'; simpl; auto. }
        destruct Hex as [u [Hu Hf]]. apply sublists_sub in Hu.
        rewrite !orb_false_iff, negb_false_iff in Hf. destruct Hf as [[Hf1 Hf2] Hf3].
        apply Nat.eqb_neq in Hf3. apply nonempty_true in Hf2.
        assert (Hlen : (length u <= n)%nat) by (pose proof (sub_length _ _ Hu); lia).
        destruct (IH u Hlen Hf2 Hf1) as [s [Hs Hm]]. exists s. split; auto. eapply sub_trans; eauto.
  Qed.

  (* A1: a closed complex is exactly gamma(its 1-skeleton, its minimal non-faces):
     a non-empty vertex list is a simplex iff it contains no minimal non-face *)
  Theorem gamma_of_minimal_nonfaces : closed -> forall t, t <> [] ->
    (K t = true <-> forall s, sub s t -> ~ mnf s).
  Proof.
    intros [Hc0 Hc] t Hne. split.
    - intros Ht s Hs [Hs1 [Hs2 _]]. rewrite (Hc s t Ht Hs Hs1) in Hs2. discriminate.
    - intros H. destruct (K t) eqn:E; auto. exfalso.
      destruct (nonface_has_mnf (length t) t (le_n _) Hne E) as [s [Hs Hm]]. exact (H s Hs Hm).
  Qed.

  (* the minimal non-faces of size 1 and 2 are the missing vertices and edges (the graph), the others are the blockers *)
  Definition is_blocker (s : list Z) : Prop := mnf s /\ (3 <= length s)%nat.

  (* "K = gamma(G, B)" for a finite blocker list B, in constructive form: a blocker blocks all its cofaces, and a
     non-simplex misses a vertex, misses an edge, or contains a blocker *)
  Definition is_gamma (B : list (list Z)) : Prop :=
    (forall b t, In b B -> sub b t -> K t = false) /\
    (forall t, t <> [] -> K t = false ->
       (exists s, sub s t /\ s <> [] /\ (length s <= 2)%nat /\ K s = false) \/ (exists b, In b B /\ sub b t)).

  Theorem gamma_blockers_minimal_nonfaces_if (B : list (list Z)) : closed ->
    (forall b, In b B <-> is_blocker b) -> is_gamma B.
  Proof.
    intros Hc HB. split.
    - intros b t Hb Hs. apply HB in Hb. destruct Hb as [[Hb1 [Hb2 _]] _].
      destruct (K t) eqn:E; auto. destruct Hc as [_ Hc]. rewrite (Hc b t E Hs Hb1) in Hb2. discriminate.
    - intros t Hne Hk. destruct (nonface_has_mnf (length t) t (le_n _) Hne Hk) as [s [Hs Hm]].
      destruct (le_lt_dec (length s) 2) as [Hl|Hl].
      + left. exists s. destruct Hm as [H1 [H2 _]]. auto.
      + right. exists s. split; auto. apply HB. split; auto.
  Qed.

  Theorem gamma_blockers_minimal_nonfaces_only_if (B : list (list Z)) : closed -> is_gamma B ->
    (forall b, In b B -> (3 <= length b)%nat /\ forall t, sub t b -> t <> b -> t <> [] -> K t = true) ->
    forall b, In b B <-> is_blocker b.
  Proof.
    intros Hc [G1 G2] Hmin b. split.
    - intros Hb. destruct (Hmin b Hb) as [Hl Hf]. split; auto. split; [destruct b; simpl in Hl; [lia|congruence]|].
      split; auto. apply (G1 b b Hb (sub_refl b)).
    - intros [[Hne [Hk Hf]] Hl]. destruct (G2 b Hne Hk) as [[s [Hs [Hs1 [Hs2 Hs3]]]]|[b' [Hb' Hs]]].
      + rewrite Hf in Hs3; auto; try discriminate. intros ->. lia.
      + destruct (list_eq_dec Z.eq_dec b' b) as [->|N]; auto.
        assert (Hb'ne : b' <> []) by (destruct (Hmin b' Hb') as [Hl' _]; destruct b'; simpl in Hl'; [lia|congruence]).
        specialize (Hf b' Hs N Hb'ne). rewrite (G1 b' b' Hb' (sub_refl b')) in Hf. discriminate.
  Qed.
End Representation.

(* ---- A3: star removal on the abstract complex and the blocker set it induces *)
Section RemoveStar.
  Variable K : list Z -> bool.
  Variable sigma : list Z.
  Definition K_rs (t : list Z) : bool := K t && negb (subb sigma t).

  Lemma K_rs_spec t : K_rs t = true <-> K t = true /\ ~ sub sigma t.
  Proof.
    unfold K_rs. rewrite andb_true_iff, negb_true_iff. split; intros [H1 H2]; split; auto.
    - intros H. apply subb_sub in H. congruence.
    - destruct (subb sigma t) eqn:E; auto. exfalso. apply H2. apply subb_sub; auto.
  Qed.

  Theorem remove_star_closed : closed K -> closed K_rs.
  Proof.
    intros [H0 Hc]. split; [unfold K_rs; rewrite H0; auto|].
    intros s t Ht Hs Hne. apply K_rs_spec in Ht. destruct Ht as [Ht1 Ht2]. apply K_rs_spec. split.
    - eapply Hc; eauto.
    - intros H. apply Ht2. eapply sub_trans; eauto.
  Qed.

  (* the minimal non-faces after the removal: sigma itself, and the old ones that do not contain sigma; nothing else *)
  Theorem remove_star_blockers : closed K -> K sigma = true -> forall b,
    mnf K_rs b <-> b = sigma \/ (mnf K b /\ ~ sub sigma b).
  Proof.
    intros [H0 Hc] Hs b. split.
    - intros [Hne [Hk Hf]].
      destruct (subb sigma b) eqn:E.
      + left. apply subb_sub in E.
        destruct (list_eq_dec Z.eq_dec sigma b) as [->|N]; auto. exfalso.
        assert (Hsn : sigma <> []) by (intros ->; rewrite H0 in Hs; discriminate).
        specialize (Hf sigma E N Hsn). apply K_rs_spec in Hf. destruct Hf as [_ Hf]. apply Hf, sub_refl.
      + right. assert (Hn : ~ sub sigma b) by (intros H; apply subb_sub in H; congruence). split; auto.
        split; auto. split.
        * unfold K_rs in Hk. rewrite E in Hk. simpl in Hk. rewrite andb_true_r in Hk. auto.
        * intros t Ht Hne' Hnn. specialize (Hf t Ht Hne' Hnn). apply K_rs_spec in Hf. tauto.
    - intros [->|[[Hne [Hk Hf]] Hn]].
      + assert (Hsn : sigma <> []) by (intros ->; rewrite H0 in Hs; discriminate).
        split; auto. split.
        * unfold K_rs. rewrite (proj2 (subb_sub sigma sigma) (sub_refl _)). rewrite andb_false_r. auto.
        * intros t Ht Hne Hnn. apply K_rs_spec. split; [eapply Hc; eauto|].
          intros H. apply Hne. apply sub_antisym; auto.
      + split; auto. split.
        * unfold K_rs. rewrite Hk. auto.
        * intros t Ht Hne' Hnn. apply K_rs_spec. split; auto. intros H. apply Hn. eapply sub_trans; eauto.
  Qed.
End RemoveStar.

(* ---- A4: insertion of a simplex with all its faces *)
Section AddSimplex.
  Variable K : list Z -> bool.
  Variable sigma : list Z.
  Definition K_as (t : list Z) : bool := K t || (nonempty t && subb t sigma).

  Lemma K_as_spec t : K_as t = true <-> K t = true \/ (t <> [] /\ sub t sigma).
  Proof. unfold K_as. rewrite orb_true_iff, andb_true_iff, nonempty_true, subb_sub. tauto. Qed.

  Theorem add_simplex_closed : closed K -> closed K_as.
  Proof.
    intros [H0 Hc]. split; [unfold K_as; rewrite H0; auto|].
    intros s t Ht Hs Hne. apply K_as_spec in Ht. apply K_as_spec. destruct Ht as [Ht|[Ht1 Ht2]].
    - left. eapply Hc; eauto.
    - right. split; auto. eapply sub_trans; eauto.
  Qed.

  (* what add_simplex has to do with the blockers: (1) the old blockers inside sigma disappear, (2) the other old
     blockers stay, (3) every new blocker has a facet-or-smaller face that was added, i.e. is not inside sigma but
     has a proper face that is a new simplex *)
  Theorem add_simplex_blockers : closed K -> forall b,
    (mnf K b -> sub b sigma -> K_as b = true) /\
    (mnf K b -> ~ sub b sigma -> mnf K_as b) /\
    (mnf K_as b -> ~ mnf K b -> ~ sub b sigma /\ exists t, sub t b /\ t <> b /\ t <> [] /\ K t = false /\ sub t sigma).
  Proof.
    intros [H0 Hc] b. split; [|split].
    - intros [Hne _] Hs. apply K_as_spec. auto.
    - intros [Hne [Hk Hf]] Hn. split; auto. split.
      + destruct (K_as b) eqn:E; auto. apply K_as_spec in E. destruct E as [E|[_ E]]; [congruence|tauto].
      + intros t Ht Hne' Hnn. apply K_as_spec. left. auto.
    - intros [Hne [Hk Hf]] Hnm.
      assert (Hns : ~ sub b sigma).
      { intros Hs. assert (K_as b = true) by (apply K_as_spec; right; split; auto). congruence. }
      split; auto.
      assert (Hkb : K b = false).
      { destruct (K b) eqn:E; auto. assert (K_as b = true) by (apply K_as_spec; auto). congruence. }
      destruct (forallb (fun t => K t || negb (nonempty t) || (length t =? length b)%nat) (sublists b)) eqn:E.
      + exfalso. apply Hnm. apply mnfb_mnf. unfold mnfb. rewrite (proj2 (nonempty_true b) Hne), Hkb, E. auto.
      + assert (Hex : exists u, In u (sublists b) /\ (K u || negb (nonempty u) || (length u =? length b)%nat) = false).
        { clear -E. induction (sublists b) as [|u l IHl]; simpl in E; [discriminate|].
          apply andb_false_iff in E. destruct E as [E|E]; [exists u; simpl; auto|].
          destruct (IHl E) as [u' [H1 H2]]. exists u'; simpl; auto. }
        destruct Hex as [u [Hu Hfu]]. apply sublists_sub in Hu.
        rewrite !orb_false_iff, negb_false_iff in Hfu. destruct Hfu as [[Hf1 Hf2] Hf3].
        apply Nat.eqb_neq in Hf3. apply nonempty_true in Hf2.
        assert (Hub : u <> b) by (intros ->; congruence).
        exists u. repeat split; auto.
        specialize (Hf u Hu Hub Hf2). apply K_as_spec in Hf. destruct Hf as [Hf|[_ Hf]]; [congruence|auto].
  Qed.
End AddSimplex.

(* ================================================================== Part B: the transcription *)
Lemma seqb_eq a b : seqb a b = true <-> a = b.
Proof.
  revert b. induction a as [|x a IH]; destruct b as [|y b]; simpl; split; try congruence; auto.
  - rewrite andb_true_iff, Z.eqb_eq, IH. intros [-> ->]; auto.
  - intros E; inversion E; subst. rewrite Z.eqb_refl. apply IH; auto.
Qed.
Lemma smem_In v s : smem v s = true <-> In v s.
Proof.
  unfold smem. rewrite existsb_exists. split.
  - intros [x [H1 H2]]. apply Z.eqb_eq in H2. subst; auto.
  - intros H. exists v. split; auto. apply Z.eqb_refl.
Qed.
Lemma ssub_incl a b : ssub a b = true <-> incl a b.
Proof.
  unfold ssub, incl. rewrite forallb_forall. split; intros H x Hx; apply smem_In; auto.
Qed.
Lemma ssub_refl a : ssub a a = true.
Proof. apply ssub_incl, incl_refl. Qed.
Lemma ssub_trans a b c : ssub a b = true -> ssub b c = true -> ssub a c = true.
Proof. rewrite !ssub_incl. apply incl_tran. Qed.
Lemma lmem_In s l : lmem s l = true <-> In s l.
Proof.
  unfold lmem. rewrite existsb_exists. split.
  - intros [x [H1 H2]]. apply seqb_eq in H2. subst; auto.
  - intros H. exists s. split; auto. apply seqb_eq; auto.
Qed.
Lemma ssub_length a b : NoDup a -> ssub a b = true -> (length a <= length b)%nat.
Proof. intros Hn H. apply NoDup_incl_length; auto. apply ssub_incl; auto. Qed.

(* B1: blocks = some non-empty blocker is included; contains = gamma(graph, blockers) *)
Lemma blocks_spec c s : blocks c s = true <-> exists b, In b (blk c) /\ b <> [] /\ ssub b s = true.
Proof.
  unfold blocks, blockers_at. rewrite existsb_exists. split.
  - intros [v [Hv H]]. apply existsb_exists in H. destruct H as [b [Hb Hs]]. apply filter_In in Hb.
    destruct Hb as [Hb Hm]. exists b. repeat split; auto. intros ->. discriminate.
  - intros [b [Hb [Hne Hs]]]. destruct b as [|v b]; [congruence|]. exists v. split.
    + apply (proj1 (ssub_incl _ _) Hs). left; auto.
    + apply existsb_exists. exists (v :: b). split; auto. apply filter_In. split; auto.
      apply smem_In. left; auto.
Qed.

Lemma contains_two c x y r : contains c (x :: y :: r) = contains_edges c (x :: y :: r) && negb (blocks c (x :: y :: r)).
Proof. reflexivity. Qed.

Theorem contains_is_gamma c s : contains c s = true <->
  s <> [] /\ (forall v, In v s -> contains_vertex c v = true) /\
  ((2 <= length s)%nat -> all_pairs (has_edge c) s = true /\ forall b, In b (blk c) -> b <> [] -> ssub b s = false).
Proof.
  destruct s as [|x [|y r]].
  - simpl. split; [discriminate | intros [H _]; congruence].
  - simpl. split.
    + intros H. split; [congruence|]. split; [intros v [<-|[]]; auto | intros; lia].
    + intros [_ [H _]]. apply H. auto.
  - rewrite contains_two. unfold contains_edges. split.
    + intros H. apply andb_true_iff in H. destruct H as [H H3]. apply andb_true_iff in H. destruct H as [H1 H2].
      apply negb_true_iff in H3. rewrite forallb_forall in H1.
      split; [congruence|]. split; [exact H1|]. intros _. split; [exact H2|].
      intros b Hb Hne. destruct (ssub b (x :: y :: r)) eqn:E; auto.
      assert (blocks c (x :: y :: r) = true) by (apply blocks_spec; exists b; auto). congruence.
    + intros [_ [H1 H2]]. destruct H2 as [H2 H3]; [simpl; lia|].
      apply andb_true_iff. split; [apply andb_true_iff; split; [apply forallb_forall; exact H1 | exact H2]|].
      apply negb_true_iff.
      destruct (blocks c (x :: y :: r)) eqn:E; auto. apply blocks_spec in E. destruct E as [b [Hb [Hne Hs]]].
      rewrite (H3 b Hb Hne) in Hs. discriminate.
Qed.

(* B2: add_blocker removes exactly the cofaces of the new blocker *)

Theorem add_blocker_spec (c : cplx) (sigma t : simplex) : (3 <= length sigma)%nat -> NoDup sigma ->
  contains (add_blocker c sigma) t = contains c t && negb (ssub sigma t).
Proof.
  intros Hl Hn. unfold add_blocker. destruct (contains_blocker c sigma) eqn:E.
  - destruct (ssub sigma t) eqn:Es; [|rewrite andb_true_r; auto]. rewrite andb_false_r.
    pose proof (ssub_length _ _ Hn Es) as Hlt.
    destruct t as [|x [|y r]]; simpl in Hlt; try lia. rewrite contains_two.
    assert (blocks c (x :: y :: r) = true).
    { apply blocks_spec. exists sigma. unfold contains_blocker in E. destruct (dim sigma <? 2); [discriminate|].
      apply lmem_In in E. unfold blockers_at in E. apply filter_In in E. destruct E as [E _].
      repeat split; auto. intros ->. simpl in Hl. lia. }
    rewrite H. rewrite andb_false_r. auto.
  - destruct t as [|x [|y r]].
    + reflexivity.
    + simpl contains. unfold contains_vertex. simpl.
      destruct (ssub sigma [x]) eqn:Es; [|rewrite andb_true_r; auto].
      pose proof (ssub_length _ _ Hn Es). simpl in H. lia.
    + rewrite !contains_two.
      assert (Hce : contains_edges (mkC (slots c) (act c) (edg c) (blk c ++ [sigma])) (x :: y :: r)
                    = contains_edges c (x :: y :: r)) by reflexivity.
      rewrite Hce. rewrite <- andb_assoc. f_equal. rewrite <- negb_orb. f_equal.
      apply eq_true_iff_eq. rewrite orb_true_iff, !blocks_spec. simpl blk. split.
      * intros [b [Hb [Hne Hs]]]. apply in_app_iff in Hb. destruct Hb as [Hb|[<-|[]]]; auto.
        left. exists b; auto.
      * intros [[b [Hb [Hne Hs]]]|Hs].
        -- exists b. repeat split; auto. apply in_app_iff; auto.
        -- exists sigma. repeat split; auto; [apply in_app_iff; right; left; auto|]. intros ->. simpl in Hl. lia.
Qed.

(* B3: remove_star of a simplex of dimension >= 2 deletes exactly the simplices containing it (no hypothesis on c) *)
Lemma In_remove_first_1 x s l : In x (remove_first s l) -> In x l.
Proof.
  induction l as [|y l IH]; simpl; auto. destruct (seqb s y); simpl; auto. intros [H|H]; auto.
Qed.
Lemma In_remove_first_2 x s l : In x l -> x = s \/ In x (remove_first s l).
Proof.
  induction l as [|y l IH]; simpl; auto. intros [<-|H].
  - destruct (seqb s y) eqn:E; [apply seqb_eq in E; auto | right; left; auto].
  - destruct (seqb s y); auto. destruct (IH H); auto. right; right; auto.
Qed.
Lemma fold_delete_blocker L : forall c,
  let c1 := fold_left delete_blocker L c in
  slots c1 = slots c /\ act c1 = act c /\ edg c1 = edg c /\
  (forall b, In b (blk c1) -> In b (blk c)) /\ (forall b, In b (blk c) -> In b (blk c1) \/ In b L).
Proof.
  induction L as [|s L IH]; intros c; simpl.
  - repeat split; auto.
  - destruct (IH (delete_blocker c s)) as [H1 [H2 [H3 [H4 H5]]]]. simpl in *.
    repeat split; auto.
    + intros b Hb. apply H4 in Hb. eapply In_remove_first_1; eauto.
    + intros b Hb. destruct (In_remove_first_2 b s _ Hb) as [->|Hb']; auto.
      destruct (H5 b Hb'); auto.
Qed.

Lemma contains_same_graph c c1 t :
  slots c1 = slots c -> act c1 = act c -> edg c1 = edg c ->
  (forall x y r, t = x :: y :: r -> blocks c1 t = blocks c t) -> contains c1 t = contains c t.
Proof.
  intros H1 H2 H3 H4. destruct t as [|x [|y r]]; auto.
  - simpl. unfold contains_vertex. rewrite H1, H2. auto.
  - rewrite !contains_two. rewrite (H4 x y r eq_refl). f_equal.
    unfold contains_edges, contains_vertex, has_edge. rewrite H1, H2, H3. auto.
Qed.

Theorem remove_star_simplex_spec thr (c : cplx) (sigma t : simplex) : (3 <= length sigma)%nat -> NoDup sigma ->
  contains (remove_star_simplex thr c sigma) t = contains c t && negb (ssub sigma t).
Proof.
  intros Hl Hn. unfold remove_star_simplex.
  assert (Hd0 : dim sigma =? 0 = false) by (apply Z.eqb_neq; unfold dim, zlen; lia).
  assert (Hd1 : dim sigma =? 1 = false) by (apply Z.eqb_neq; unfold dim, zlen; lia).
  rewrite Hd0, Hd1. rewrite add_blocker_spec; auto.
  destruct (ssub sigma t) eqn:Es; [rewrite !andb_false_r; auto|]. rewrite !andb_true_r.
  unfold remove_blocker_containing_simplex.
  set (L := filter (fun b => ssub sigma b) (blockers_at c (hdz sigma))).
  destruct (fold_delete_blocker L c) as [H1 [H2 [H3 [H4 H5]]]].
  apply contains_same_graph; auto. intros x y r Et.
  apply eq_true_iff_eq. rewrite !blocks_spec. split.
  - intros [b [Hb Hr]]. exists b. split; auto.
  - intros [b [Hb [Hne Hs]]]. destruct (H5 b Hb) as [Hb'|Hb'].
    + exists b; auto.
    + exfalso. unfold L in Hb'. apply filter_In in Hb'. destruct Hb' as [_ Hb'].
      rewrite (ssub_trans _ _ _ Hb' Hs) in Es. discriminate.
Qed.

(* B4: link_condition = no blocker through both vertices *)
Theorem link_condition_spec c a b : link_condition c a b = true <->
  forall s, In s (blk c) -> ~ (In a s /\ In b s).
Proof.
  unfold link_condition, blockers_at. rewrite negb_true_iff. split.
  - intros H s Hs [Ha Hb]. assert (existsb (smem b) (filter (smem a) (blk c)) = true); [|congruence].
    apply existsb_exists. exists s. split; [apply filter_In; split; auto|]; apply smem_In; auto.
  - intros H. destruct (existsb (smem b) (filter (smem a) (blk c))) eqn:E; auto.
    apply existsb_exists in E. destruct E as [s [Hs Hb]]. apply filter_In in Hs. destruct Hs as [Hs Ha].
    exfalso. apply (H s Hs). split; apply smem_In; auto.
Qed.

(* ================================================================== B5: remove_star(edge) when no blocker through the edge has >= 3 further vertices *)
Definition same_edge (a b u w : Z) : bool := (Z.min u w =? Z.min a b) && (Z.max u w =? Z.max a b).
Lemma same_edge_iff a b u w : same_edge a b u w = true <-> (u = a /\ w = b) \/ (u = b /\ w = a).
Proof. unfold same_edge. rewrite andb_true_iff, !Z.eqb_eq. lia. Qed.

Lemma has_edge_remove_edge c a b u w :
  has_edge (remove_edge c a b) u w = has_edge c u w && negb (same_edge a b u w).
Proof.
  unfold has_edge, remove_edge. simpl edg. induction (edg c) as [|e l IH]; simpl; auto.
  destruct (edge_is a b e) eqn:Eab; simpl.
  - rewrite IH. destruct (edge_is u w e) eqn:Euw; simpl; auto.
    assert (same_edge a b u w = true).
    { unfold edge_is in *. unfold same_edge. apply andb_true_iff in Eab, Euw. rewrite !Z.eqb_eq in *.
      apply andb_true_iff. rewrite !Z.eqb_eq. lia. }
    rewrite H. rewrite andb_false_r. auto.
  - rewrite IH. destruct (edge_is u w e) eqn:Euw; simpl; auto.
    assert (same_edge a b u w = false).
    { destruct (same_edge a b u w) eqn:E; auto. exfalso.
      unfold edge_is in *. unfold same_edge in E. apply andb_true_iff in E, Euw. rewrite !Z.eqb_eq in *.
      assert (edge_is a b e = true); [|unfold edge_is in *; congruence].
      unfold edge_is. apply andb_true_iff. rewrite !Z.eqb_eq. lia. }
    rewrite H. auto.
Qed.

Lemma forallb_and_neg {A} (f g : A -> bool) l :
  forallb (fun w => f w && negb (g w)) l = forallb f l && negb (existsb g l).
Proof. induction l as [|x l IH]; simpl; auto. rewrite IH. destruct (f x), (g x), (forallb f l), (existsb g l); auto. Qed.

Lemma existsb_same_edge a b x r : a <> b ->
  existsb (same_edge a b x) r = ((x =? a) && smem b r) || ((x =? b) && smem a r).
Proof.
  intros Hab. apply eq_true_iff_eq. rewrite existsb_exists, orb_true_iff, !andb_true_iff, !Z.eqb_eq, !smem_In. split.
  - intros [w [Hw Hs]]. apply same_edge_iff in Hs. destruct Hs as [[-> ->]|[-> ->]]; auto.
  - intros [[-> H]|[-> H]]; [exists b | exists a]; split; auto; apply same_edge_iff; auto.
Qed.

Lemma forallb_ext' {A} (f g : A -> bool) l : (forall x, f x = g x) -> forallb f l = forallb g l.
Proof. intros H. induction l as [|x l IH]; simpl; auto. rewrite H, IH. auto. Qed.

Lemma all_pairs_ext (f g : Z -> Z -> bool) t : (forall u w, f u w = g u w) -> all_pairs f t = all_pairs g t.
Proof.
  intros H. induction t as [|x r IH]; simpl; auto. rewrite IH. f_equal. apply forallb_ext'. intros w. apply H.
Qed.

Lemma all_pairs_remove_edge c a b t : a <> b ->
  all_pairs (has_edge (remove_edge c a b)) t = all_pairs (has_edge c) t && negb (smem a t && smem b t).
Proof.
  intros Hab. induction t as [|x r IH]; auto.
  change (all_pairs (has_edge (remove_edge c a b)) (x :: r))
    with (forallb (has_edge (remove_edge c a b) x) r && all_pairs (has_edge (remove_edge c a b)) r).
  change (all_pairs (has_edge c) (x :: r)) with (forallb (has_edge c x) r && all_pairs (has_edge c) r).
  rewrite IH.
  rewrite (forallb_ext' _ (fun w => has_edge c x w && negb (same_edge a b x w)) r (fun w => has_edge_remove_edge c a b x w)).
  rewrite forallb_and_neg, existsb_same_edge; auto.
  assert (Hc : forall v, smem v (x :: r) = (v =? x) || smem v r) by reflexivity.
  rewrite !Hc. rewrite (Z.eqb_sym a x), (Z.eqb_sym b x).
  destruct (Z.eqb_spec x a) as [Ea|Na]; destruct (Z.eqb_spec x b) as [Eb|Nb]; try (exfalso; congruence);
    destruct (forallb (has_edge c _) r), (all_pairs (has_edge c) r), (smem a r), (smem b r); auto.
Qed.

Lemma fold_left_ext_in {A B} (f g : A -> B -> A) l : forall c,
  (forall x c, In x l -> f c x = g c x) -> fold_left f l c = fold_left g l c.
Proof.
  induction l as [|x l IH]; intros c H; simpl; auto. rewrite H; [|left; auto]. apply IH. intros y c' Hy. apply H. right; auto.
Qed.

(* no blocker containing s has at least thr more in dimension: the branch that adds a sub-blocker is never taken *)
Definition no_big_blocker (thr : Z) (c : cplx) (s : simplex) : Prop :=
  forall b, In b (blk c) -> ssub s b = true -> (dim b - dim s >=? thr) = false.

Lemma update_blockers_no_big thr c v0 s' : no_big_blocker thr c (v0 :: s') ->
  update_blockers_after_remove_star thr c (v0 :: s')
  = fold_left delete_blocker (filter (fun b => ssub (v0 :: s') b) (blockers_at c v0)) c.
Proof.
  intros H. unfold update_blockers_after_remove_star. apply fold_left_ext_in.
  intros b c' Hb. apply filter_In in Hb. destruct Hb as [Hb Hs]. unfold blockers_at in Hb. apply filter_In in Hb.
  destruct Hb as [Hb _]. rewrite (H b Hb Hs). auto.
Qed.

Lemma blocks_after_delete c L s t :
  (forall b, In b L -> ssub s b = true) -> ssub s t = false ->
  blocks (fold_left delete_blocker L c) t = blocks c t.
Proof.
  intros HL Hs. destruct (fold_delete_blocker L c) as [_ [_ [_ [H4 H5]]]].
  apply eq_true_iff_eq. rewrite !blocks_spec. split.
  - intros [b [Hb Hr]]. exists b. split; auto.
  - intros [b [Hb [Hne Hb2]]]. destruct (H5 b Hb) as [Hb'|Hb'].
    + exists b; auto.
    + exfalso. rewrite (ssub_trans _ _ _ (HL b Hb') Hb2) in Hs. discriminate.
Qed.

Theorem remove_star_edge_spec thr (c : cplx) (a b : Z) (t : simplex) : a <> b ->
  no_big_blocker thr c [Z.min a b; Z.max a b] ->
  contains (remove_star_edge thr c a b) t = contains c t && negb (ssub [Z.min a b; Z.max a b] t).
Proof.
  intros Hab Hnb. unfold remove_star_edge. rewrite update_blockers_no_big; auto.
  set (s := [Z.min a b; Z.max a b]) in *.
  set (L := filter (fun b0 => ssub s b0) (blockers_at c (Z.min a b))).
  assert (HL : forall b0, In b0 L -> ssub s b0 = true) by (intros b0 Hb0; apply filter_In in Hb0; tauto).
  destruct (fold_delete_blocker L c) as [H1 [H2 [H3 _]]].
  set (c1 := fold_left delete_blocker L c) in *.
  assert (Hsm : ssub s t = smem a t && smem b t).
  { unfold s, ssub. simpl forallb. rewrite andb_true_r.
    destruct (Z.le_gt_cases a b).
    - rewrite Z.min_l, Z.max_r by lia. auto.
    - rewrite Z.min_r, Z.max_l by lia. apply andb_comm. }
  destruct t as [|x [|y r]].
  - reflexivity.
  - assert (Hf : ssub s [x] = false).
    { rewrite Hsm. unfold smem. simpl. rewrite !orb_false_r.
      destruct (Z.eqb_spec a x), (Z.eqb_spec b x); auto. congruence. }
    rewrite Hf, andb_true_r. simpl. unfold contains_vertex. simpl slots. simpl act. rewrite H1, H2. auto.
  - rewrite !contains_two.
    assert (Hce : contains_edges (remove_edge c1 a b) (x :: y :: r)
                  = contains_edges c (x :: y :: r) && negb (ssub s (x :: y :: r))).
    { unfold contains_edges. rewrite all_pairs_remove_edge; auto. rewrite <- Hsm.
      assert (Hcv : forallb (contains_vertex (remove_edge c1 a b)) (x :: y :: r) = forallb (contains_vertex c) (x :: y :: r)).
      { apply forallb_ext'. intros v. unfold contains_vertex. simpl slots. simpl act. rewrite H1, H2. auto. }
      rewrite Hcv. rewrite andb_assoc. f_equal. f_equal. apply all_pairs_ext. intros u w. unfold has_edge. rewrite H3. auto. }
    rewrite Hce.
    destruct (ssub s (x :: y :: r)) eqn:Es; [rewrite !andb_false_r; auto|]. rewrite !andb_true_r. f_equal. f_equal.
    assert (Hb : blocks (remove_edge c1 a b) (x :: y :: r) = blocks c1 (x :: y :: r)) by reflexivity.
    rewrite Hb. unfold c1. apply blocks_after_delete with (s := s); auto.
Qed.

(* ================================================================== B6: remove_star(vertex) when no blocker through the vertex has >= 3 further vertices *)
Definition ninc (v : Z) (e : Z * Z) : bool := negb ((fst e =? v) || (snd e =? v)).

Lemma filter_filter_absorb {A} (p q : A -> bool) l : (forall e, p e = true -> q e = true) ->
  filter p (filter q l) = filter p l.
Proof.
  intros H. induction l as [|e l IH]; simpl; auto. destruct (q e) eqn:Eq; simpl.
  - rewrite IH. auto.
  - destruct (p e) eqn:Ep; auto. rewrite (H e Ep) in Eq. discriminate.
Qed.

Lemma fold_remove_edges v ws : forall c,
  let c2 := fold_left (fun c w => remove_edge c v w) ws c in
  slots c2 = slots c /\ act c2 = act c /\ blk c2 = blk c /\ filter (ninc v) (edg c2) = filter (ninc v) (edg c).
Proof.
  induction ws as [|w ws IH]; intros c; simpl; auto.
  destruct (IH (remove_edge c v w)) as [H1 [H2 [H3 H4]]]. simpl in *. repeat split; auto.
  rewrite H4. apply filter_filter_absorb. intros e He. unfold ninc in He. unfold edge_is.
  apply negb_true_iff in He. apply orb_false_iff in He. destruct He as [He1 He2].
  apply Z.eqb_neq in He1, He2. apply negb_true_iff. apply andb_false_iff.
  destruct (Z.eqb_spec (fst e) (Z.min v w)); destruct (Z.eqb_spec (snd e) (Z.max v w)); auto. exfalso. lia.
Qed.

Lemma has_edge_filter_ninc c v u w l : edg c = l ->
  existsb (edge_is u w) (filter (ninc v) l) = existsb (edge_is u w) l && negb ((u =? v) || (w =? v)).
Proof.
  intros _. induction l as [|e l IH]; simpl; auto.
  destruct (ninc v e) eqn:En; simpl; rewrite IH; destruct (edge_is u w e) eqn:Eu; simpl; auto.
  - unfold ninc in En. unfold edge_is in Eu. apply andb_true_iff in Eu. rewrite !Z.eqb_eq in Eu.
    apply negb_true_iff, orb_false_iff in En. rewrite !Z.eqb_neq in En.
    destruct (Z.eqb_spec u v); destruct (Z.eqb_spec w v); simpl; auto; exfalso; lia.
  - unfold ninc in En. unfold edge_is in Eu. apply andb_true_iff in Eu. rewrite !Z.eqb_eq in Eu.
    apply negb_false_iff, orb_true_iff in En. rewrite !Z.eqb_eq in En.
    destruct (Z.eqb_spec u v); destruct (Z.eqb_spec w v); simpl; try rewrite andb_false_r; auto. exfalso. lia.
Qed.

Lemma all_pairs_ext_in (f g : Z -> Z -> bool) t : (forall u w, In u t -> In w t -> f u w = g u w) ->
  all_pairs f t = all_pairs g t.
Proof.
  induction t as [|x r IH]; intros H; simpl; auto. f_equal.
  - clear IH. assert (Hr : forall w, In w r -> f x w = g x w) by (intros w Hw; apply H; [left|right]; auto).
    clear H. induction r as [|w r IHr]; simpl; auto. rewrite Hr; [|left; auto]. f_equal. apply IHr. intros; apply Hr; right; auto.
  - apply IH. intros u w Hu Hw. apply H; right; auto.
Qed.

Lemma smem_sremove x v l : smem x (sremove v l) = smem x l && negb (x =? v).
Proof.
  unfold sremove. induction l as [|y l IH]; simpl; auto.
  destruct (Z.eqb_spec y v) as [->|N]; simpl.
  - rewrite IH. destruct (Z.eqb_spec x v) as [->|N']; simpl; [rewrite !andb_false_r; auto|]. auto.
  - rewrite IH. destruct (Z.eqb_spec x y) as [->|N']; simpl; auto.
    destruct (Z.eqb_spec y v); [congruence|]. auto.
Qed.

Theorem remove_star_vertex_spec thr (c : cplx) (v : Z) (t : simplex) :
  no_big_blocker thr c [v] ->
  contains (remove_star_vertex thr c v) t = contains c t && negb (smem v t).
Proof.
  intros Hnb. unfold remove_star_vertex. rewrite update_blockers_no_big; auto.
  set (L := filter (fun b0 => ssub [v] b0) (blockers_at c v)).
  assert (HL : forall b0, In b0 L -> ssub [v] b0 = true) by (intros b0 Hb0; apply filter_In in Hb0; tauto).
  destruct (fold_delete_blocker L c) as [H1 [H2 [H3 _]]].
  set (c1 := fold_left delete_blocker L c) in *.
  destruct (fold_remove_edges v (nbrs c1 v) c1) as [G1 [G2 [G3 G4]]].
  set (c2 := fold_left (fun c0 w => remove_edge c0 v w) (nbrs c1 v) c1) in *.
  assert (Hcv : forall u, contains_vertex (remove_vertex c2 v) u = contains_vertex c u && negb (u =? v)).
  { intros u. unfold contains_vertex. simpl slots. simpl act. rewrite G1, G2, H1, H2, smem_sremove.
    rewrite andb_assoc. auto. }
  assert (Hhe : forall u w, has_edge (remove_vertex c2 v) u w = has_edge c u w && negb ((u =? v) || (w =? v))).
  { intros u w. unfold has_edge. simpl edg. fold (ninc v). change (fun e => negb ((fst e =? v) || (snd e =? v))) with (ninc v).
    rewrite G4, H3. apply has_edge_filter_ninc with (c := c). auto. }
  assert (Hsv : ssub [v] t = smem v t) by (unfold ssub; simpl; apply andb_true_r).
  destruct t as [|x [|y r]].
  - reflexivity.
  - simpl contains. rewrite Hcv. f_equal. unfold smem. simpl. rewrite orb_false_r, Z.eqb_sym. auto.
  - rewrite !contains_two. destruct (smem v (x :: y :: r)) eqn:Es.
    + rewrite andb_false_r. apply andb_false_iff. left. unfold contains_edges. apply andb_false_iff. left.
      apply smem_In in Es. clear -Es Hcv. induction (x :: y :: r) as [|u l IH]; [destruct Es|].
      simpl. destruct Es as [->|Es].
      * rewrite Hcv, Z.eqb_refl. rewrite andb_false_r. auto.
      * rewrite (IH Es). apply andb_false_r.
    + rewrite andb_true_r.
      assert (Hne : forall u, In u (x :: y :: r) -> (u =? v) = false).
      { intros u Hu. destruct (Z.eqb_spec u v) as [->|N]; auto. apply smem_In in Hu. congruence. }
      f_equal.
      * unfold contains_edges. f_equal.
        -- clear -Hcv Hne. induction (x :: y :: r) as [|u l IH]; auto. simpl.
           rewrite Hcv, (Hne u (or_introl eq_refl)). simpl. rewrite andb_true_r. f_equal. apply IH. intros; apply Hne; right; auto.
        -- apply all_pairs_ext_in. intros u w Hu Hw. rewrite Hhe, (Hne u Hu), (Hne w Hw). simpl. apply andb_true_r.
      * f_equal.
        assert (Hb : blocks (remove_vertex c2 v) (x :: y :: r) = blocks c1 (x :: y :: r)).
        { unfold blocks, blockers_at. simpl blk. rewrite G3. auto. }
        rewrite Hb. unfold c1. apply blocks_after_delete with (s := [v]); auto.
Qed.

(* ================================================================== C: edge contraction on the abstract complex = image under the vertex map b |-> a.
   Here simplices are taken as sets (lists up to incl both ways), so that no order is involved. *)
Lemma sremove_In x v s : In x (sremove v s) <-> In x s /\ x <> v.
Proof. unfold sremove. rewrite filter_In, negb_true_iff, Z.eqb_neq. tauto. Qed.

Section Contraction.
  Variable K : list Z -> Prop.
  Variables a b : Z.
  Definition set_closed (K : list Z -> Prop) : Prop :=
    (forall u, K u -> u <> []) /\ forall s t, K t -> incl s t -> s <> [] -> K s.
  Definition vm (v : Z) : Z := if v =? b then a else v.
  Definition same_set (s t : list Z) : Prop := incl s t /\ incl t s.
  Definition image (K : list Z -> Prop) (t : list Z) : Prop := exists u, K u /\ same_set t (map vm u).

  Theorem contract_image_closed : set_closed K -> set_closed (image K).
  Proof.
    intros [Hne Hc]. split.
    - intros t [u [Hu [H1 H2]]] ->. specialize (Hne u Hu). destruct u as [|x u]; [congruence|].
      specialize (H2 (vm x)). simpl in H2. destruct H2. left; auto.
    - intros s t [u [Hu [H1 H2]]] Hst Hs.
      set (u' := filter (fun x => smem (vm x) s) u).
      assert (Hsub : incl u' u) by (intros x Hx; apply filter_In in Hx; tauto).
      assert (Hi1 : incl s (map vm u')).
      { intros y Hy. specialize (H1 y (Hst y Hy)). apply in_map_iff in H1. destruct H1 as [x [<- Hx]].
        apply in_map_iff. exists x. split; auto. apply filter_In. split; auto. apply smem_In; auto. }
      assert (Hi2 : incl (map vm u') s).
      { intros y Hy. apply in_map_iff in Hy. destruct Hy as [x [<- Hx]]. apply filter_In in Hx. apply smem_In; tauto. }
      exists u'. split; [|split; auto]. apply (Hc u' u Hu Hsub).
      intros E. destruct s as [|y s]; [congruence|]. specialize (Hi1 y (or_introl eq_refl)). rewrite E in Hi1. destruct Hi1.
  Qed.

  (* deleting the blockers through ab before contracting (what contract_edge does when the link condition fails) frees
     simplices that contain a and b and whose face without b is present: the image is the same *)
  Definition freed (t : list Z) : Prop := K t \/ (In a t /\ In b t /\ K (sremove b t)).
  Theorem contract_image_after_freeing : a <> b -> forall t, image freed t <-> image K t.
  Proof.
    intros Hab t. split.
    - intros [u [[Hu|[Ha [Hb Hu]]] [H1 H2]]]; [exists u; split; [|split]; auto|].
      exists (sremove b u). split; auto. split.
      + intros y Hy. specialize (H1 y Hy). apply in_map_iff in H1. destruct H1 as [x [<- Hx]].
        destruct (Z.eq_dec x b) as [->|N].
        * apply in_map_iff. exists a. split; [unfold vm; rewrite Z.eqb_refl; destruct (Z.eqb_spec a b); congruence|].
          apply sremove_In; auto.
        * apply in_map_iff. exists x. split; auto. apply sremove_In; auto.
      + intros y Hy. apply H2. apply in_map_iff in Hy. destruct Hy as [x [<- Hx]]. apply sremove_In in Hx.
        apply in_map_iff. exists x. tauto.
    - intros [u [Hu H]]. exists u. split; auto. left; auto.
  Qed.
End Contraction.

(* the executable specification spec_contract (C17_Model.v) lists exactly the images *)
Lemma sinsert_In x v s : In x (sinsert v s) <-> x = v \/ In x s.
Proof.
  induction s as [|y s IH]; simpl; [intuition|].
  destruct (Z.ltb_spec v y); simpl; [intuition|].
  destruct (Z.eqb_spec v y) as [->|N]; simpl; [intuition|]. rewrite IH. intuition.
Qed.
Lemma vmap_same_set a b t : same_set (vmap a b t) (map (vm a b) t).
Proof.
  unfold vmap. destruct (smem b t) eqn:E.
  - apply smem_In in E. split; intros y Hy.
    + apply sinsert_In in Hy. destruct Hy as [->|Hy].
      * apply in_map_iff. exists b. split; auto. unfold vm. rewrite Z.eqb_refl. auto.
      * apply sremove_In in Hy. destruct Hy as [Hy N]. apply in_map_iff. exists y. split; [|exact Hy].
        unfold vm. destruct (Z.eqb_spec y b) as [Eyb|Nyb]; [exfalso; exact (N Eyb) | reflexivity].
    + apply in_map_iff in Hy. destruct Hy as [x [<- Hx]]. apply sinsert_In. unfold vm.
      destruct (Z.eqb_spec x b) as [Exb|Nxb]; [left; reflexivity|]. right. apply sremove_In. split; assumption.
  - assert (Hn : ~ In b t) by (intros H; apply smem_In in H; congruence).
    assert (Hm : map (vm a b) t = t).
    { clear E. induction t as [|x t IH]; simpl; auto. rewrite IH; [|intros H; apply Hn; right; auto].
      unfold vm. destruct (Z.eqb_spec x b) as [->|N]; auto. exfalso. apply Hn. left; auto. }
    rewrite Hm. split; apply incl_refl.
Qed.
Lemma dedup_In x l : In x (dedup l) <-> In x l.
Proof.
  induction l as [|y l IH]; simpl; [tauto|]. destruct (lmem y l) eqn:E; simpl; rewrite IH.
  - apply lmem_In in E. split; auto. intros [<-|H]; auto.
  - tauto.
Qed.
Theorem spec_contract_is_image k a b t :
  In t (snd (spec_contract k a b)) -> image a b (fun u => In u (snd k)) t.
Proof.
  unfold spec_contract. simpl. rewrite dedup_In, in_map_iff. intros [u [<- Hu]]. exists u. split; auto. apply vmap_same_set.
Qed.
Theorem spec_contract_covers_image k a b u :
  In u (snd k) -> exists t, In t (snd (spec_contract k a b)) /\ same_set t (map (vm a b) u).
Proof.
  intros Hu. exists (vmap a b u). split; [|apply vmap_same_set].
  unfold spec_contract. simpl. apply dedup_In. apply in_map_iff. exists u; auto.
Qed.

(* ================================================================== D: on strictly increasing vertex lists (what the operations keep) the two face
   relations coincide: sub (part A) = inclusion of the vertex sets (ssub, part B) *)
Lemma sub_incl s t : sub s t -> incl s t.
Proof.
  induction 1 as [|x l1 l2 H IH|x l1 l2 H IH]; intros y Hy; auto.
  - right. apply IH; auto.
  - destruct Hy as [<-|Hy]; [left; auto | right; apply IH; auto].
Qed.
Theorem sorted_ssub_sub : forall t s, StronglySorted Z.lt s -> StronglySorted Z.lt t ->
  (ssub s t = true <-> sub s t).
Proof.
  intros t s Hs Ht. rewrite ssub_incl. split; [|apply sub_incl].
  revert s Hs. induction t as [|y t IH]; intros s Hs Hi.
  - destruct s as [|x s]; [constructor|]. destruct (Hi x (or_introl eq_refl)).
  - apply StronglySorted_inv in Ht. destruct Ht as [Ht Hy]. rewrite Forall_forall in Hy.
    destruct s as [|x s]; [apply sub_nil_l|].
    apply StronglySorted_inv in Hs. destruct Hs as [Hs Hx]. rewrite Forall_forall in Hx.
    destruct (Z.eq_dec x y) as [->|N].
    + apply sub_take. apply IH; auto. intros z Hz. destruct (Hi z (or_intror Hz)) as [E|H]; auto.
      specialize (Hx z Hz). lia.
    + apply sub_skip. apply IH; auto; [constructor; auto; apply Forall_forall; auto|].
      assert (Hxy : y < x).
      { destruct (Hi x (or_introl eq_refl)) as [E|H]; [congruence|]. apply Hy; auto. }
      intros z [<-|Hz].
      * destruct (Hi x (or_introl eq_refl)) as [E|H]; [congruence|auto].
      * destruct (Hi z (or_intror Hz)) as [E|H]; auto. specialize (Hx z Hz). lia.
Qed.

(* ================================================================== E: the blocker set after remove_star(simplex of dimension >= 2) *)
Lemma remove_first_NoDup s l : NoDup l -> NoDup (remove_first s l) /\ forall x, In x (remove_first s l) <-> In x l /\ x <> s.
Proof.
  induction l as [|y l IH]; intros Hn; simpl.
  - split; [constructor | intros x; tauto].
  - inversion Hn as [|y' l' Hy Hl]; subst. destruct (IH Hl) as [IH1 IH2].
    destruct (seqb s y) eqn:E.
    + apply seqb_eq in E. subst y. split; auto. intros x. split.
      * intros Hx. split; auto. intros ->. auto.
      * intros [[<-|Hx] N]; [congruence|auto].
    + assert (Hsy : s <> y) by (intros ->; rewrite (proj2 (seqb_eq y y) eq_refl) in E; discriminate).
      split.
      * constructor; auto. intros H. apply IH2 in H. tauto.
      * intros x. simpl. rewrite IH2. split.
        -- intros [<-|[Hx N]]; auto.
        -- intros [[<-|Hx] N]; auto.
Qed.
Lemma fold_delete_blocker_NoDup L : forall c, NoDup (blk c) ->
  let c1 := fold_left delete_blocker L c in
  NoDup (blk c1) /\ forall x, In x (blk c1) <-> In x (blk c) /\ ~ In x L.
Proof.
  induction L as [|s L IH]; intros c Hn; simpl.
  - split; auto. intros x; tauto.
  - destruct (remove_first_NoDup s (blk c) Hn) as [R1 R2].
    destruct (IH (delete_blocker c s) R1) as [I1 I2]. split; auto.
    intros x. rewrite I2. simpl. rewrite R2. split.
    + intros [[H1 H2] H3]. split; [assumption|]. intros [E|E]; [apply H2; symmetry; exact E | exact (H3 E)].
    + intros [H1 H2]. split; [split; [assumption|]|].
      * intros E. apply H2. left. symmetry. exact E.
      * intros E. apply H2. right. exact E.
Qed.

(* with blockers stored without repetition, remove_star(sigma), dim sigma >= 2, leaves exactly: sigma, and the old blockers
   that do not contain sigma - which by C17_remove_star_spec is the set of minimal non-faces of the new complex whenever
   the old blockers were the minimal non-faces of the old one *)
Theorem remove_star_simplex_blockers thr (c : cplx) (sigma : simplex) :
  (3 <= length sigma)%nat -> NoDup (blk c) ->
  forall b, In b (blk (remove_star_simplex thr c sigma)) <-> b = sigma \/ (In b (blk c) /\ ssub sigma b = false).
Proof.
  intros Hl Hn b. unfold remove_star_simplex.
  assert (Hd0 : dim sigma =? 0 = false) by (apply Z.eqb_neq; unfold dim, zlen; lia).
  assert (Hd1 : dim sigma =? 1 = false) by (apply Z.eqb_neq; unfold dim, zlen; lia).
  rewrite Hd0, Hd1. unfold remove_blocker_containing_simplex.
  set (L := filter (fun b0 => ssub sigma b0) (blockers_at c (hdz sigma))).
  destruct (fold_delete_blocker_NoDup L c Hn) as [N1 N2].
  set (c1 := fold_left delete_blocker L c) in *.
  assert (HL : forall x, In x L <-> In x (blk c) /\ ssub sigma x = true).
  { intros x. unfold L, blockers_at. rewrite !filter_In. split; [tauto|]. intros [H1 H2]. repeat split; auto.
    destruct sigma as [|v s]; [simpl in Hl; lia|]. simpl. apply smem_In.
    apply (proj1 (ssub_incl _ _) H2). left; auto. }
  assert (Hc1 : forall x, In x (blk c1) <-> In x (blk c) /\ ssub sigma x = false).
  { intros x. rewrite N2, HL. destruct (ssub sigma x); split; intros [H1 H2]; split; auto; try congruence.
    - exfalso. apply H2. auto.
    - intros [_ H]. discriminate. }
  unfold add_blocker. destruct (contains_blocker c1 sigma) eqn:E.
  - rewrite Hc1. split; auto. intros [->|H]; auto.
    unfold contains_blocker in E. destruct (dim sigma <? 2); [discriminate|]. apply lmem_In in E.
    unfold blockers_at in E. apply filter_In in E. destruct E as [E _]. apply Hc1 in E. auto.
  - simpl blk. rewrite in_app_iff, Hc1. simpl. split.
    + intros [H|[<-|[]]]; auto.
    + intros [->|H]; auto.
Qed.

Lemma NoDup_app_one {A} (l : list A) (x : A) : NoDup l -> ~ In x l -> NoDup (l ++ [x]).
Proof.
  induction l as [|y l IH]; intros Hn Hx; simpl.
  - constructor; [intros [] | constructor].
  - inversion Hn as [|y' l' Hy Hl]; subst. constructor.
    + rewrite in_app_iff. intros [H|[H|[]]]; [exact (Hy H)|]. apply Hx. left. symmetry. exact H.
    + apply IH; [exact Hl|]. intros H. apply Hx. right. exact H.
Qed.

(* ================================================================== F: the representation invariant is kept by the star removals.
   c represents K: contains agrees with K on strictly increasing lists, the stored blockers are exactly the minimal
   non-faces of K of dimension >= 2 (as strictly increasing lists), stored once *)
Definition inc (s : list Z) : Prop := StronglySorted Z.lt s.
Definition represents (c : cplx) (K : list Z -> bool) : Prop :=
  (forall t, inc t -> contains c t = K t) /\
  (forall b, In b (blk c) <-> inc b /\ mnf K b /\ (3 <= length b)%nat) /\
  NoDup (blk c).

Lemma inc_NoDup s : inc s -> NoDup s.
Proof.
  induction 1 as [|x l Hl IH Hx]; constructor; auto.
  intros Hin. rewrite Forall_forall in Hx. specialize (Hx x Hin). lia.
Qed.
Lemma inc_ssub_subb s t : inc s -> inc t -> ssub s t = subb s t.
Proof.
  intros Hs Ht. apply eq_true_iff_eq. rewrite subb_sub. apply sorted_ssub_sub; auto.
Qed.

Lemma delete_containing_blk (c : cplx) (s : simplex) (v0 : Z) : NoDup (blk c) -> In v0 s ->
  let c1 := fold_left delete_blocker (filter (fun b0 => ssub s b0) (blockers_at c v0)) c in
  NoDup (blk c1) /\ forall b, In b (blk c1) <-> In b (blk c) /\ ssub s b = false.
Proof.
  intros Hn Hv.
  set (L := filter (fun b0 => ssub s b0) (blockers_at c v0)).
  destruct (fold_delete_blocker_NoDup L c Hn) as [N1 N2]. split; auto.
  assert (HL : forall x, In x L <-> In x (blk c) /\ ssub s x = true).
  { intros x. unfold L, blockers_at. rewrite !filter_In. split; [tauto|]. intros [H1 H2]. repeat split; auto.
    apply smem_In. apply (proj1 (ssub_incl _ _) H2). auto. }
  intros b. rewrite N2, HL. destruct (ssub s b); split; intros [H1 H2]; split; auto; try congruence.
  - exfalso. apply H2. auto.
  - intros [_ H]. discriminate.
Qed.

Lemma hdz_In (s : simplex) : s <> [] -> In (hdz s) s.
Proof. destruct s; [congruence|]. intros _. left. reflexivity. Qed.

Theorem remove_star_simplex_keeps_representation thr (c : cplx) K (sigma : simplex) :
  closed K -> represents c K -> inc sigma -> (3 <= length sigma)%nat -> K sigma = true ->
  represents (remove_star_simplex thr c sigma) (K_rs K sigma).
Proof.
  intros Hc [R1 [R2 R3]] Hi Hl Hk. split; [|split].
  - intros t Ht. rewrite remove_star_simplex_spec; auto using inc_NoDup. rewrite (R1 t Ht). unfold K_rs.
    rewrite inc_ssub_subb; auto.
  - intros b. rewrite remove_star_simplex_blockers; auto. rewrite (remove_star_blockers K sigma Hc Hk b). split.
    + intros [->|[Hb Hs]].
      * split; auto.
      * apply R2 in Hb. destruct Hb as [Hb1 [Hb2 Hb3]]. split; auto. split; auto. right. split; auto.
        intros H. apply (sorted_ssub_sub b sigma Hi Hb1) in H. congruence.
    + intros [Hb1 [[->|[Hb2 Hb4]] Hb3]]; auto. right. split; [apply R2; auto|].
      destruct (ssub sigma b) eqn:E; auto. exfalso. apply Hb4. apply (sorted_ssub_sub b sigma Hi Hb1). auto.
  - unfold remove_star_simplex.
    assert (Hd0 : dim sigma =? 0 = false) by (apply Z.eqb_neq; unfold dim, zlen; lia).
    assert (Hd1 : dim sigma =? 1 = false) by (apply Z.eqb_neq; unfold dim, zlen; lia).
    rewrite Hd0, Hd1. unfold remove_blocker_containing_simplex.
    assert (Hne : sigma <> []) by (intros ->; simpl in Hl; lia).
    destruct (delete_containing_blk c sigma (hdz sigma) R3 (hdz_In sigma Hne)) as [N1 N2].
    set (c1 := fold_left delete_blocker (filter (fun b0 => ssub sigma b0) (blockers_at c (hdz sigma))) c) in *.
    unfold add_blocker. destruct (contains_blocker c1 sigma) eqn:E; auto.
    simpl blk. apply NoDup_app_one; auto.
    intros Hin. apply N2 in Hin. destruct Hin as [_ Hin]. rewrite ssub_refl in Hin. discriminate.
Qed.

Lemma inc_pair a b : a <> b -> inc [Z.min a b; Z.max a b].
Proof.
  intros H. repeat constructor. lia.
Qed.

Theorem remove_star_edge_keeps_representation thr (c : cplx) K (a b : Z) :
  closed K -> represents c K -> a <> b -> no_big_blocker thr c [Z.min a b; Z.max a b] ->
  K [Z.min a b; Z.max a b] = true ->
  represents (remove_star_edge thr c a b) (K_rs K [Z.min a b; Z.max a b]).
Proof.
  intros Hc [R1 [R2 R3]] Hab Hnb Hk.
  set (s := [Z.min a b; Z.max a b]) in *.
  assert (Hi : inc s) by (apply inc_pair; auto).
  assert (Hblk : blk (remove_star_edge thr c a b)
                 = blk (fold_left delete_blocker (filter (fun b0 => ssub s b0) (blockers_at c (Z.min a b))) c)).
  { unfold remove_star_edge. fold s. unfold s at 1. rewrite update_blockers_no_big; auto. }
  destruct (delete_containing_blk c s (Z.min a b) R3 (or_introl eq_refl)) as [N1 N2].
  split; [|split].
  - intros t Ht. rewrite remove_star_edge_spec; auto. rewrite (R1 t Ht). unfold K_rs. fold s. rewrite inc_ssub_subb; auto.
  - intros b0. rewrite Hblk, N2. rewrite (remove_star_blockers K s Hc Hk b0). split.
    + intros [Hb Hs]. apply R2 in Hb. destruct Hb as [Hb1 [Hb2 Hb3]]. split; auto. split; auto. right. split; auto.
      intros H. apply (sorted_ssub_sub b0 s Hi Hb1) in H. congruence.
    + intros [Hb1 [[->|[Hb2 Hb4]] Hb3]]; [simpl in Hb3; lia|]. split; [apply R2; auto|].
      destruct (ssub s b0) eqn:E; auto. exfalso. apply Hb4. apply (sorted_ssub_sub b0 s Hi Hb1). auto.
  - rewrite Hblk. auto.
Qed.

Theorem remove_star_vertex_keeps_representation thr (c : cplx) K (v : Z) :
  closed K -> represents c K -> no_big_blocker thr c [v] -> K [v] = true ->
  represents (remove_star_vertex thr c v) (K_rs K [v]).
Proof.
  intros Hc [R1 [R2 R3]] Hnb Hk.
  assert (Hi : inc [v]) by (repeat constructor).
  assert (Hblk : blk (remove_star_vertex thr c v)
                 = blk (fold_left delete_blocker (filter (fun b0 => ssub [v] b0) (blockers_at c v)) c)).
  { unfold remove_star_vertex. rewrite update_blockers_no_big; auto.
    set (c1 := fold_left delete_blocker (filter (fun b0 => ssub [v] b0) (blockers_at c v)) c).
    destruct (fold_remove_edges v (nbrs c1 v) c1) as [_ [_ [G3 _]]]. simpl blk. exact G3. }
  destruct (delete_containing_blk c [v] v R3 (or_introl eq_refl)) as [N1 N2].
  split; [|split].
  - intros t Ht. rewrite remove_star_vertex_spec; auto. rewrite (R1 t Ht). unfold K_rs.
    rewrite <- (inc_ssub_subb [v] t Hi Ht). unfold ssub. simpl. rewrite andb_true_r. auto.
  - intros b0. rewrite Hblk, N2. rewrite (remove_star_blockers K [v] Hc Hk b0). split.
    + intros [Hb Hs]. apply R2 in Hb. destruct Hb as [Hb1 [Hb2 Hb3]]. split; auto. split; auto. right. split; auto.
      intros H. apply (sorted_ssub_sub b0 [v] Hi Hb1) in H. congruence.
    + intros [Hb1 [[->|[Hb2 Hb4]] Hb3]]; [simpl in Hb3; lia|]. split; [apply R2; auto|].
      destruct (ssub [v] b0) eqn:E; auto. exfalso. apply Hb4. apply (sorted_ssub_sub b0 [v] Hi Hb1). auto.
  - rewrite Hblk. auto.
Qed.

(* ================================================================== G: non-vacuity of the representation invariant: the full triangle 012 built by the
   transcribed operations represents the complex of all non-empty faces of [0;1;2] *)
Definition full_triangle : cplx :=
  fold_left (fun c e => add_edge_without_blockers c (fst e) (snd e)) (pairs_of [0; 1; 2])
            (add_vertex (add_vertex (add_vertex empty_cplx))).
Definition K_triangle : list Z -> bool := K_as (fun _ => false) [0; 1; 2].

Lemma K_triangle_closed : closed K_triangle.
Proof. apply add_simplex_closed. split; [reflexivity|]. intros s t H. discriminate H. Qed.

Lemma K_triangle_spec t : K_triangle t = true <-> t <> [] /\ sub t [0; 1; 2].
Proof. unfold K_triangle. rewrite K_as_spec. split; [intros [H|H]; [discriminate H | exact H] | intros H; right; exact H]. Qed.

Lemma In_sub_single v b : In v b -> sub [v] b.
Proof.
  induction b as [|x b IH]; intros H; [destruct H|]. destruct H as [->|H].
  - apply sub_take. apply sub_nil_l.
  - apply sub_skip. auto.
Qed.

Lemma full_triangle_vertex v : contains_vertex full_triangle v = true <-> In v [0; 1; 2].
Proof.
  unfold contains_vertex. change (slots full_triangle) with 3. change (act full_triangle) with [0; 1; 2].
  rewrite !andb_true_iff, smem_In. split; [tauto|]. intros H. split; auto.
  simpl in H. destruct H as [<-|[<-|[<-|[]]]]; auto.
Qed.

Lemma contains_bad_vertex c t v : In v t -> contains_vertex c v = false -> contains c t = false.
Proof.
  intros Hv Hc. destruct t as [|x [|y r]].
  - destruct Hv.
  - destruct Hv as [->|[]]. exact Hc.
  - rewrite contains_two. unfold contains_edges. apply andb_false_iff. left. apply andb_false_iff. left.
    clear -Hv Hc. induction (x :: y :: r) as [|u l IH]; [destruct Hv|]. simpl. destruct Hv as [->|Hv].
    + rewrite Hc. auto.
    + rewrite (IH Hv). apply andb_false_r.
Qed.

Example full_triangle_represents : represents full_triangle K_triangle /\ closed K_triangle /\
  inc [0; 1; 2] /\ K_triangle [0; 1; 2] = true /\ no_big_blocker 3 full_triangle [0] /\ K_triangle [0] = true /\
  no_big_blocker 3 full_triangle [0; 1] /\ K_triangle [0; 1] = true.
Proof.
  assert (Hsorted : inc [0; 1; 2]) by (repeat constructor; lia).
  assert (Hfin : forallb (fun t => Bool.eqb (contains full_triangle t) (K_triangle t)) (sublists [0; 1; 2]) = true)
    by (vm_compute; auto).
  rewrite forallb_forall in Hfin.
  assert (Hblk : blk full_triangle = []) by (vm_compute; auto).
  assert (Hnb : forall s, no_big_blocker 3 full_triangle s) by (intros s b Hb; rewrite Hblk in Hb; destruct Hb).
  split; [|split; [apply K_triangle_closed|]; split; [exact Hsorted|]; split; [vm_compute; reflexivity|];
            split; [apply Hnb|]; split; [vm_compute; reflexivity|]; split; [apply Hnb | vm_compute; reflexivity]].
  split; [|split].
  - intros t Ht. destruct (forallb (contains_vertex full_triangle) t) eqn:E.
    + rewrite forallb_forall in E.
      assert (Hi : incl t [0; 1; 2]) by (intros v Hv; apply full_triangle_vertex; auto).
      assert (Hs : sub t [0; 1; 2]) by (apply (sorted_ssub_sub [0; 1; 2] t Ht Hsorted); apply ssub_incl; auto).
      apply sublists_sub in Hs. specialize (Hfin t Hs). apply eqb_prop in Hfin. exact Hfin.
    + assert (Hex : exists v, In v t /\ contains_vertex full_triangle v = false).
      { clear -E. induction t as [|x t IH]; simpl in E; [discriminate|]. apply andb_false_iff in E. destruct E as [E|E].
        - exists x. split; auto. left; auto.
        - destruct (IH E) as [v [H1 H2]]. exists v. split; auto. right; auto. }
      destruct Hex as [v [Hv Hc]]. rewrite (contains_bad_vertex _ t v Hv Hc).
      symmetry. destruct (K_triangle t) eqn:Ek; auto. exfalso.
      apply K_triangle_spec in Ek. destruct Ek as [_ Ek].
      apply sub_incl in Ek. specialize (Ek v Hv). apply full_triangle_vertex in Ek. congruence.
  - intros b. rewrite Hblk. split; [intros []|]. intros [Hb1 [[Hb2 [Hb3 Hb4]] Hb5]]. exfalso.
    assert (Hi : incl b [0; 1; 2]).
    { intros v Hv. assert (Hk : K_triangle [v] = true).
      { apply Hb4; [apply In_sub_single; auto | | discriminate]. intros E. rewrite <- E in Hb5. simpl in Hb5. lia. }
      apply K_triangle_spec in Hk. destruct Hk as [_ Hk]. apply sub_incl in Hk. apply Hk. left; auto. }
    assert (Hs : sub b [0; 1; 2]) by (apply (sorted_ssub_sub [0; 1; 2] b Hb1 Hsorted); apply ssub_incl; auto).
    assert (K_triangle b = true) by (apply K_triangle_spec; split; auto). congruence.
  - rewrite Hblk. constructor.
Qed.

Lemma forallb_ext_in {A} (f g : A -> bool) l : (forall x, In x l -> f x = g x) -> forallb f l = forallb g l.
Proof.
  induction l as [|x l IH]; intros H; simpl; auto. rewrite H; [|left; auto]. f_equal. apply IH. intros; apply H; right; auto.
Qed.

(* ================================================================== H: add_vertex *)
(* well-formedness of the vertex numbering: slots >= 0, no edge touches a slot not handed out yet *)
Definition wf_slots (c : cplx) : Prop :=
  0 <= slots c /\ forall e, In e (edg c) -> fst e < slots c /\ snd e < slots c.

Lemma all_pairs_isolated (f : Z -> Z -> bool) (x : Z) (t : list Z) :
  (forall w, f x w = false /\ f w x = false) -> In x t -> (2 <= length t)%nat -> all_pairs f t = false.
Proof.
  intros Hf. induction t as [|y t IH]; intros Hin Hl; [destruct Hin|].
  simpl. destruct Hin as [->|Hin].
  - destruct t as [|w t]; [simpl in Hl; lia|]. simpl. rewrite (proj1 (Hf w)). auto.
  - destruct t as [|w t]; [destruct Hin|].
    destruct (list_eq_dec Z.eq_dec t []) as [->|Hne].
    + destruct Hin as [->|[]]. simpl. rewrite (proj2 (Hf y)). auto.
    + rewrite IH; auto; [apply andb_false_r|]. destruct t; [congruence|simpl; lia].
Qed.

Theorem add_vertex_spec (c : cplx) (t : simplex) : wf_slots c ->
  contains (add_vertex c) t = contains c t || seqb t [slots c].
Proof.
  intros [H0 He].
  assert (Hcv : forall v, contains_vertex (add_vertex c) v = contains_vertex c v || (v =? slots c)).
  { intros v. unfold contains_vertex, add_vertex. simpl slots. simpl act.
    assert (Hm : smem v (act c ++ [slots c]) = smem v (act c) || (v =? slots c)).
    { unfold smem. rewrite existsb_app. simpl. rewrite orb_false_r. auto. }
    rewrite Hm. destruct (Z.eqb_spec v (slots c)) as [E|N].
    - subst v. rewrite orb_true_r, andb_true_r, orb_true_r.
      destruct (Z.leb_spec 0 (slots c)); destruct (Z.ltb_spec (slots c) (slots c + 1)); auto; lia.
    - rewrite !orb_false_r. f_equal. f_equal.
      destruct (Z.ltb_spec v (slots c + 1)); destruct (Z.ltb_spec v (slots c)); auto; lia. }
  assert (Hno : forall w, has_edge c (slots c) w = false /\ has_edge c w (slots c) = false).
  { intros w. unfold has_edge. split; apply not_true_is_false; intros H; apply existsb_exists in H;
      destruct H as [e [Hin Hedge]]; destruct (He e Hin) as [H1 H2]; unfold edge_is in Hedge;
      apply andb_true_iff in Hedge; rewrite !Z.eqb_eq in Hedge; lia. }
  destruct t as [|x [|y r]].
  - reflexivity.
  - simpl contains. rewrite Hcv. simpl. rewrite andb_true_r. auto.
  - assert (Hs : seqb (x :: y :: r) [slots c] = false) by (simpl; destruct (x =? slots c); auto).
    rewrite Hs, orb_false_r. rewrite !contains_two.
    assert (Hb : blocks (add_vertex c) (x :: y :: r) = blocks c (x :: y :: r)) by reflexivity.
    rewrite Hb. f_equal. unfold contains_edges.
    assert (Hhe : all_pairs (has_edge (add_vertex c)) (x :: y :: r) = all_pairs (has_edge c) (x :: y :: r)) by reflexivity.
    rewrite Hhe.
    destruct (smem (slots c) (x :: y :: r)) eqn:Es.
    + apply smem_In in Es. rewrite (all_pairs_isolated (has_edge c) (slots c) (x :: y :: r) Hno Es); [|simpl; lia].
      rewrite !andb_false_r. auto.
    + f_equal. apply forallb_ext_in. intros v Hv. rewrite Hcv.
      destruct (Z.eqb_spec v (slots c)) as [E|N]; [|apply orb_false_r].
      subst v. apply smem_In in Hv. congruence.
Qed.

(* ================================================================== I: add_edge (edge + blockers on the triangles it would close) *)
Definition wf_blk (c : cplx) : Prop := forall b, In b (blk c) -> NoDup b /\ (3 <= length b)%nat.
Definition wf_edg (c : cplx) : Prop := forall e, In e (edg c) -> fst e < snd e.

Lemma sort_set_In x l : In x (sort_set l) <-> In x l.
Proof.
  unfold sort_set. induction l as [|y l IH]; simpl; [tauto|]. rewrite sinsert_In, IH. intuition.
Qed.

Lemma nbrs_has_edge c x w : wf_edg c -> (In w (nbrs c x) <-> has_edge c x w = true).
Proof.
  intros Hw. unfold nbrs, has_edge. rewrite sort_set_In, in_flat_map, existsb_exists. split.
  - intros [e [He Hin]]. exists e. split; auto. specialize (Hw e He). unfold edge_is.
    destruct (Z.eqb_spec (fst e) x) as [E1|N1].
    + destruct Hin as [<-|[]]. apply andb_true_iff. rewrite !Z.eqb_eq. lia.
    + destruct (Z.eqb_spec (snd e) x) as [E2|N2]; [|destruct Hin].
      destruct Hin as [<-|[]]. apply andb_true_iff. rewrite !Z.eqb_eq. lia.
  - intros [e [He Hedge]]. exists e. split; auto. specialize (Hw e He). unfold edge_is in Hedge.
    apply andb_true_iff in Hedge. rewrite !Z.eqb_eq in Hedge.
    destruct (Z.eqb_spec (fst e) x) as [E1|N1].
    + left. lia.
    + destruct (Z.eqb_spec (snd e) x) as [E2|N2]; [left; lia | exfalso; lia].
Qed.

Lemma fold_add_blocker_In L : forall c,
  let c2 := fold_left add_blocker L c in
  slots c2 = slots c /\ act c2 = act c /\ edg c2 = edg c /\
  forall b, In b (blk c2) <-> In b (blk c) \/ In b L.
Proof.
  induction L as [|s L IH]; intros c; simpl.
  - repeat split; auto. intros [H|[]]; auto.
  - destruct (IH (add_blocker c s)) as [H1 [H2 [H3 H4]]].
    assert (Ha : slots (add_blocker c s) = slots c /\ act (add_blocker c s) = act c /\ edg (add_blocker c s) = edg c /\
                 forall b, In b (blk (add_blocker c s)) <-> In b (blk c) \/ b = s).
    { unfold add_blocker. destruct (contains_blocker c s) eqn:E; simpl; repeat split; auto.
      - intros [H| ->]; auto. unfold contains_blocker in E. destruct (dim s <? 2); [discriminate|].
        apply lmem_In in E. unfold blockers_at in E. apply filter_In in E. tauto.
      - intros H. apply in_app_iff in H. destruct H as [H|[<-|[]]]; auto.
      - intros [H| ->]; apply in_app_iff; [left; auto | right; left; auto]. }
    destruct Ha as [A1 [A2 [A3 A4]]]. repeat split; try congruence.
    + intros H. apply H4 in H. destruct H as [H|H]; auto. apply A4 in H. destruct H as [H|H]; [auto | subst b; auto].
    + intros [H|[<-|H]]; apply H4; auto; left; apply A4; auto.
Qed.

Lemma has_edge_sym c u w : has_edge c u w = has_edge c w u.
Proof. unfold has_edge, edge_is. rewrite (Z.min_comm u w), (Z.max_comm u w). reflexivity. Qed.

Lemma has_edge_add c a b u w : has_edge c a b = false ->
  has_edge (add_edge_without_blockers c a b) u w = has_edge c u w || same_edge a b u w.
Proof.
  intros H. unfold add_edge_without_blockers. rewrite H. unfold has_edge. simpl edg. rewrite existsb_app. f_equal.
  simpl. rewrite orb_false_r. unfold edge_is, same_edge. simpl. rewrite (Z.eqb_sym (Z.min a b)), (Z.eqb_sym (Z.max a b)). reflexivity.
Qed.

Lemma has_edge_irrefl c u : wf_edg c -> has_edge c u u = false.
Proof.
  intros Hw. apply not_true_is_false. intros H. unfold has_edge in H. apply existsb_exists in H. destruct H as [e [He H]].
  specialize (Hw e He). unfold edge_is in H. apply andb_true_iff in H. rewrite !Z.eqb_eq in H. lia.
Qed.

Lemma all_pairs_In (f : Z -> Z -> bool) t : (forall u w, f u w = f w u) -> all_pairs f t = true ->
  forall u w, In u t -> In w t -> u <> w -> f u w = true.
Proof.
  intros Hsym. induction t as [|x r IH]; intros H u w Hu Hw Huw; [destruct Hu|].
  simpl in H. apply andb_true_iff in H. destruct H as [H1 H2]. rewrite forallb_forall in H1.
  destruct Hu as [->|Hu]; destruct Hw as [->|Hw]; try congruence; auto.
  rewrite Hsym. auto.
Qed.

Lemma all_pairs_missing (f : Z -> Z -> bool) t a b : (forall u w, f u w = f w u) ->
  In a t -> In b t -> a <> b -> f a b = false -> all_pairs f t = false.
Proof.
  intros Hsym Ha Hb Hab Hf. destruct (all_pairs f t) eqn:E; auto.
  rewrite (all_pairs_In f t Hsym E a b Ha Hb Hab) in Hf. discriminate.
Qed.

Lemma link_vertices_pair c m M x : wf_edg c ->
  In x (link_vertices c [m; M]) <->
  has_edge c m x = true /\ has_edge c M x = true /\
  existsb (fun beta => ssub (sremove x beta) [m; M]) (blockers_at c x) = false.
Proof.
  intros Hw. unfold link_vertices. rewrite !filter_In. simpl hdz. simpl forallb. rewrite andb_true_r.
  rewrite andb_true_iff, !smem_In, !(nbrs_has_edge c _ _ Hw), negb_true_iff. tauto.
Qed.

Lemma inc_two_elements t m M : inc t -> m < M -> In m t -> In M t -> (forall x, In x t -> x = m \/ x = M) -> t = [m; M].
Proof.
  intros Hi HmM Hm HM Hall. destruct t as [|x1 r]; [destruct Hm|].
  apply StronglySorted_inv in Hi. destruct Hi as [Hr Hx1]. rewrite Forall_forall in Hx1.
  assert (E1 : x1 = m).
  { destruct (Hall x1 (or_introl eq_refl)) as [E|E]; auto. subst x1. destruct Hm as [E|Hm]; [lia|]. specialize (Hx1 m Hm). lia. }
  subst x1. destruct HM as [E|HM]; [lia|]. destruct r as [|x2 r']; [destruct HM|].
  apply StronglySorted_inv in Hr. destruct Hr as [Hr' Hx2]. rewrite Forall_forall in Hx2.
  assert (E2 : x2 = M).
  { destruct (Hall x2 (or_intror (or_introl eq_refl))) as [E|E]; auto. specialize (Hx1 x2 (or_introl eq_refl)). lia. }
  subst x2. destruct r' as [|x3 r'']; auto. exfalso.
  specialize (Hx2 x3 (or_introl eq_refl)). destruct (Hall x3 (or_intror (or_intror (or_introl eq_refl)))); lia.
Qed.

Theorem add_edge_spec (c : cplx) (a b : Z) (t : simplex) :
  a <> b -> has_edge c a b = false -> wf_blk c -> wf_edg c -> inc t ->
  contains (add_edge c a b) t
  = contains c t || (seqb t [Z.min a b; Z.max a b] && contains_vertex c a && contains_vertex c b).
Proof.
  intros Hab Hne Hwb Hwe Hit. unfold add_edge. rewrite Hne.
  set (m := Z.min a b). set (M := Z.max a b).
  assert (HmM : m < M) by (unfold m, M; lia).
  set (c1 := add_edge_without_blockers c a b).
  assert (Hc1 : slots c1 = slots c /\ act c1 = act c /\ blk c1 = blk c /\ edg c1 = edg c ++ [(m, M)]).
  { unfold c1, add_edge_without_blockers. rewrite Hne. simpl. auto. }
  destruct Hc1 as [S1 [A1 [B1 E1]]].
  assert (Hwe1 : wf_edg c1).
  { intros e He. rewrite E1 in He. apply in_app_iff in He. destruct He as [He|[<-|[]]]; auto. }
  unfold add_blockers_after_simplex_insertion.
  assert (Hd : dim [m; M] <? 1 = false) by reflexivity. rewrite Hd. clear Hd.
  set (L := coboundary c1 [m; M]).
  destruct (fold_add_blocker_In L c1) as [S2 [A2 [E2 B2]]].
  set (c2 := fold_left add_blocker L c1) in *.
  assert (Hcv : forall v, contains_vertex c2 v = contains_vertex c v).
  { intros v. unfold contains_vertex. rewrite S2, A2, S1, A1. auto. }
  assert (Hhe : forall u w, has_edge c2 u w = has_edge c u w || same_edge a b u w).
  { intros u w. rewrite <- (has_edge_add c a b u w Hne). fold c1. unfold has_edge. rewrite E2. auto. }
  assert (HL : forall beta, In beta L <-> exists v, beta = sinsert v [m; M] /\ In v (link_vertices c1 [m; M])).
  { intros beta. unfold L, coboundary. rewrite in_map_iff. split; intros [v [H1 H2]]; exists v; auto. }
  assert (Hab_mM : forall x, (x = a \/ x = b) <-> (x = m \/ x = M)) by (intros x; unfold m, M; lia).
  destruct t as [|x [|y r]].
  - reflexivity.
  - simpl contains. rewrite Hcv. simpl. rewrite andb_false_r. simpl. rewrite orb_false_r. auto.
  - remember (x :: y :: r) as T eqn:ET.
    assert (Hct : forall c0, contains c0 T = contains_edges c0 T && negb (blocks c0 T)) by (intros; rewrite ET; apply contains_two).
    destruct (smem a T && smem b T) eqn:Eab.
    + (* both end points in T *)
      apply andb_true_iff in Eab. destruct Eab as [Ea Eb]. apply smem_In in Ea, Eb.
      assert (Hc0 : contains c T = false).
      { rewrite Hct. unfold contains_edges.
        rewrite (all_pairs_missing (has_edge c) T a b (has_edge_sym c) Ea Eb Hab Hne). rewrite andb_false_r. auto. }
      rewrite Hc0. simpl orb.
      destruct (seqb T [m; M]) eqn:Es.
      * apply seqb_eq in Es. rewrite Es. rewrite contains_two. unfold contains_edges.
        simpl forallb. simpl all_pairs. rewrite !Hcv, Hhe. rewrite !andb_true_r.
        assert (Hse : same_edge a b m M = true) by (apply same_edge_iff; unfold m, M; lia).
        rewrite Hse, orb_true_r, andb_true_r.
        assert (Hbl : blocks c2 [m; M] = false).
        { apply not_true_is_false. intros Hb. apply blocks_spec in Hb. destruct Hb as [beta [Hin [Hn Hs]]].
          apply B2 in Hin. destruct Hin as [Hin|Hin].
          - rewrite B1 in Hin. destruct (Hwb beta Hin) as [Hnd Hlen]. pose proof (ssub_length _ _ Hnd Hs). simpl in H. lia.
          - apply HL in Hin. destruct Hin as [v [-> Hv]]. apply (link_vertices_pair c1 m M v Hwe1) in Hv.
            destruct Hv as [Hv1 [Hv2 _]].
            assert (v <> m) by (intros ->; rewrite (has_edge_irrefl c1 m Hwe1) in Hv1; discriminate).
            assert (v <> M) by (intros ->; rewrite (has_edge_irrefl c1 M Hwe1) in Hv2; discriminate).
            apply ssub_incl in Hs. specialize (Hs v (proj2 (sinsert_In v v [m; M]) (or_introl eq_refl))).
            simpl in Hs. intuition. }
        rewrite Hbl. simpl. rewrite andb_true_r.
        unfold m, M. destruct (Z.le_gt_cases a b).
        -- rewrite Z.min_l, Z.max_r by lia. auto.
        -- rewrite Z.min_r, Z.max_l by lia. apply andb_comm.
      * simpl. (* some third vertex x0 of T is adjacent to both: a blocker inside T *)
        assert (HmT : In m T) by (destruct (proj2 (Hab_mM m) (or_introl eq_refl)) as [E| E]; rewrite E; auto).
        assert (HMT : In M T) by (destruct (proj2 (Hab_mM M) (or_intror eq_refl)) as [E| E]; rewrite E; auto).
        assert (Hex : exists x0, In x0 T /\ x0 <> m /\ x0 <> M).
        { destruct (existsb (fun z => negb (z =? m) && negb (z =? M)) T) eqn:Ex.
          - apply existsb_exists in Ex. destruct Ex as [z [Hz Hzz]]. apply andb_true_iff in Hzz.
            rewrite !negb_true_iff, !Z.eqb_neq in Hzz. exists z. tauto.
          - exfalso. assert (T = [m; M]); [|rewrite (proj2 (seqb_eq _ _) H) in Es; discriminate].
            apply inc_two_elements; auto.
            intros z Hz. destruct (Z.eq_dec z m); auto. destruct (Z.eq_dec z M); auto. exfalso.
              assert (existsb (fun z => negb (z =? m) && negb (z =? M)) T = true); [|congruence].
              apply existsb_exists. exists z. split; auto. apply andb_true_iff. rewrite !negb_true_iff, !Z.eqb_neq. auto. }
        destruct Hex as [x0 [Hx0 [Hxm HxM]]].
        rewrite Hct.
        destruct (contains_edges c2 T) eqn:Ece; auto. simpl.
        apply negb_false_iff. apply blocks_spec.
        unfold contains_edges in Ece. apply andb_true_iff in Ece. destruct Ece as [_ Eap].
        assert (He1 : forall u w, In u T -> In w T -> u <> w -> has_edge c1 u w = true).
        { intros u w Hu Hw Huw. pose proof (all_pairs_In (has_edge c2) T (has_edge_sym c2) Eap u w Hu Hw Huw) as H.
          unfold has_edge in *. rewrite E2 in H. auto. }
        destruct (existsb (fun beta => ssub (sremove x0 beta) [m; M]) (blockers_at c1 x0)) eqn:ED.
        -- apply existsb_exists in ED. destruct ED as [beta [Hin Hs]]. unfold blockers_at in Hin. apply filter_In in Hin.
           destruct Hin as [Hin Hx]. exists beta. split; [apply B2; auto|]. split; [intros ->; discriminate|].
           apply ssub_incl. intros z Hz. destruct (Z.eq_dec z x0) as [->|Nz]; auto.
           apply ssub_incl in Hs. specialize (Hs z (proj2 (sremove_In z x0 beta) (conj Hz Nz))).
           destruct Hs as [<-|[<-|[]]]; auto.
        -- exists (sinsert x0 [m; M]). split; [|split].
           ++ apply B2. right. apply HL. exists x0. split; auto. apply (link_vertices_pair c1 m M x0 Hwe1). repeat split; auto.
           ++ intros H. assert (In x0 (sinsert x0 [m; M])) by (apply sinsert_In; auto). rewrite H in H0. destruct H0.
           ++ apply ssub_incl. intros z Hz. apply sinsert_In in Hz. destruct Hz as [->|[<-|[<-|[]]]]; auto.
    + (* not both end points in T: nothing changes *)
      assert (Hnot : ~ (In a T /\ In b T)).
      { intros [H1 H2]. apply smem_In in H1, H2. rewrite H1, H2 in Eab. discriminate. }
      assert (Hs : seqb T [m; M] = false).
      { destruct (seqb T [m; M]) eqn:Es; auto. apply seqb_eq in Es. exfalso. apply Hnot. rewrite Es.
        destruct (proj1 (Hab_mM a) (or_introl eq_refl)) as [Q1|Q1]; destruct (proj1 (Hab_mM b) (or_intror eq_refl)) as [Q2|Q2];
          rewrite Q1, Q2; simpl; auto. }
      rewrite Hs. simpl. rewrite orb_false_r. rewrite !Hct. f_equal.
      * unfold contains_edges. f_equal; [apply forallb_ext'; auto|].
        apply all_pairs_ext_in. intros u w Hu Hw. rewrite Hhe.
        destruct (same_edge a b u w) eqn:Ese; [|apply orb_false_r]. exfalso. apply Hnot.
        apply same_edge_iff in Ese. destruct Ese as [[-> ->]|[-> ->]]; auto.
      * f_equal. apply eq_true_iff_eq. rewrite !blocks_spec. split.
        -- intros [beta [Hin [Hn Hsb]]]. apply B2 in Hin. destruct Hin as [Hin|Hin].
           ++ exists beta. rewrite <- B1. auto.
           ++ exfalso. apply HL in Hin. destruct Hin as [v [-> _]]. apply ssub_incl in Hsb. apply Hnot.
              assert (Hm' : In m T) by (apply Hsb; apply sinsert_In; right; left; auto).
              assert (HM' : In M T) by (apply Hsb; apply sinsert_In; right; right; left; auto).
              destruct (proj1 (Hab_mM a) (or_introl eq_refl)) as [Q1|Q1];
                destruct (proj1 (Hab_mM b) (or_intror eq_refl)) as [Q2|Q2]; rewrite Q1, Q2; auto.
        -- intros [beta [Hin Hr]]. exists beta. split; auto. apply B2. left. rewrite B1. auto.
Qed.


(* ================================================================== K: add_edge_without_blockers = "add the edge and every simplex whose faces without a
   and without b are present" (spec_fill of C17_Model.v) *)
Lemma all_pairs_filter (f : Z -> Z -> bool) (p : Z -> bool) t : all_pairs f t = true -> all_pairs f (filter p t) = true.
Proof.
  induction t as [|x r IH]; intros H; auto. simpl in H. apply andb_true_iff in H. destruct H as [H1 H2].
  simpl. destruct (p x); [|auto]. simpl. rewrite (IH H2), andb_true_r.
  rewrite forallb_forall in *. intros w Hw. apply filter_In in Hw. apply H1. tauto.
Qed.

Lemma all_pairs_intro (f : Z -> Z -> bool) t : NoDup t ->
  (forall u w, In u t -> In w t -> u <> w -> f u w = true) -> all_pairs f t = true.
Proof.
  induction t as [|x r IH]; intros Hn H; auto. inversion Hn as [|x' r' Hx Hr]; subst.
  simpl. apply andb_true_iff. split.
  - apply forallb_forall. intros w Hw. apply H; [left; auto | right; auto |]. intros ->. auto.
  - apply IH; auto. intros u w Hu Hw. apply H; right; auto.
Qed.

Lemma two_members_length (t : list Z) u w : In u t -> In w t -> u <> w -> (2 <= length t)%nat.
Proof.
  destruct t as [|x [|y r]]; simpl; intros Hu Hw Huw;
    [destruct Hu | destruct Hu as [<-|[]]; destruct Hw as [<-|[]]; congruence | lia].
Qed.

Theorem add_edge_without_blockers_spec (c : cplx) (a b : Z) (t : simplex) :
  a <> b -> has_edge c a b = false -> wf_blk c -> (forall beta, In beta (blk c) -> ~ (In a beta /\ In b beta)) -> NoDup t ->
  contains (add_edge_without_blockers c a b) t
  = contains c t || (smem a t && smem b t && contains c (sremove a t) && contains c (sremove b t)).
Proof.
  intros Hab Hne Hwb Hnab Hnd.
  set (c1 := add_edge_without_blockers c a b).
  assert (Hc1 : slots c1 = slots c /\ act c1 = act c /\ blk c1 = blk c).
  { unfold c1, add_edge_without_blockers. rewrite Hne. simpl. auto. }
  destruct Hc1 as [S1 [A1 B1]].
  assert (Hcv : forall v, contains_vertex c1 v = contains_vertex c v) by (intros v; unfold contains_vertex; rewrite S1, A1; auto).
  assert (Hhe : forall u w, has_edge c1 u w = has_edge c u w || same_edge a b u w) by (intros; apply has_edge_add; auto).
  assert (Hbl : forall s, blocks c1 s = blocks c s) by (intros s; unfold blocks, blockers_at; rewrite B1; auto).
  destruct t as [|x [|y r]].
  - reflexivity.
  - simpl contains. rewrite Hcv. unfold smem. simpl. rewrite !orb_false_r.
    destruct (Z.eqb_spec a x); destruct (Z.eqb_spec b x); simpl; try rewrite orb_false_r; auto. congruence.
  - remember (x :: y :: r) as T eqn:ET.
    assert (Hct : forall c0, contains c0 T = contains_edges c0 T && negb (blocks c0 T)) by (intros; rewrite ET; apply contains_two).
    destruct (smem a T && smem b T) eqn:Eab.
    + apply andb_true_iff in Eab. destruct Eab as [Ea Eb]. apply smem_In in Ea, Eb.
      assert (Hc0 : contains c T = false).
      { rewrite Hct. unfold contains_edges.
        rewrite (all_pairs_missing (has_edge c) T a b (has_edge_sym c) Ea Eb Hab Hne). rewrite andb_false_r. auto. }
      rewrite Hc0. simpl.
      assert (HTa : forall v, In v (sremove a T) <-> In v T /\ v <> a) by (intros; apply sremove_In).
      assert (HTb : forall v, In v (sremove b T) <-> In v T /\ v <> b) by (intros; apply sremove_In).
      apply eq_true_iff_eq. rewrite (Hct c1). rewrite !andb_true_iff, !contains_is_gamma, negb_true_iff.
      unfold contains_edges. rewrite andb_true_iff, forallb_forall. split.
      * intros [[Hv Hp] Hb].
        assert (Hside : forall z z', In z' T -> z' <> z -> (z = a \/ z = b) ->
                  sremove z T <> [] /\ (forall v, In v (sremove z T) -> contains_vertex c v = true) /\
                  ((2 <= length (sremove z T))%nat -> all_pairs (has_edge c) (sremove z T) = true /\
                     forall b0, In b0 (blk c) -> b0 <> [] -> ssub b0 (sremove z T) = false)).
        { intros z z' Hz' Hzz Hzab. split; [|split].
          - intros E. assert (In z' (sremove z T)) by (apply sremove_In; auto). rewrite E in H. destruct H.
          - intros v Hv'. apply sremove_In in Hv'. rewrite <- Hcv. apply Hv. tauto.
          - intros _. split.
            + rewrite <- (all_pairs_ext_in (has_edge c1) (has_edge c) (sremove z T)).
              * apply all_pairs_filter. auto.
              * intros u w Hu Hw. rewrite Hhe. apply sremove_In in Hu, Hw.
                destruct (same_edge a b u w) eqn:Ese; [|apply orb_false_r]. exfalso.
                apply same_edge_iff in Ese. destruct Hzab as [-> | ->]; intuition congruence.
            + intros b0 Hb0 Hne0. destruct (ssub b0 (sremove z T)) eqn:Es; auto. exfalso.
              assert (blocks c T = true); [|rewrite <- Hbl in H; congruence].
              apply blocks_spec. exists b0. repeat split; auto. apply ssub_incl. intros v Hv'.
              apply ssub_incl in Es. specialize (Es v Hv'). apply sremove_In in Es. tauto. }
        split; [exact (Hside a b Eb (not_eq_sym Hab) (or_introl eq_refl)) | exact (Hside b a Ea Hab (or_intror eq_refl))].
      * intros [[Na [Va Ga]] [Nb [Vb Gb]]]. split; [split|].
        -- intros v Hv. rewrite Hcv. destruct (Z.eq_dec v a) as [->|N].
           ++ apply Vb. apply sremove_In. auto.
           ++ apply Va. apply sremove_In. auto.
        -- apply all_pairs_intro; auto. intros u w Hu Hw Huw. rewrite Hhe.
           destruct (same_edge a b u w) eqn:Ese; [apply orb_true_r|]. rewrite orb_false_r.
           assert (Hcase : (u <> a /\ w <> a) \/ (u <> b /\ w <> b)).
           { assert (Hns : ~ ((u = a /\ w = b) \/ (u = b /\ w = a))) by (intros H; apply same_edge_iff in H; congruence).
             destruct (Z.eq_dec u a); destruct (Z.eq_dec w a); destruct (Z.eq_dec u b); destruct (Z.eq_dec w b);
               try (left; split; assumption); try (right; split; assumption); exfalso; try congruence; apply Hns; auto. }
           destruct Hcase as [[H1 H2]|[H1 H2]].
           ++ assert (Hu' : In u (sremove a T)) by (apply sremove_In; auto).
              assert (Hw' : In w (sremove a T)) by (apply sremove_In; auto).
              destruct (Ga (two_members_length _ u w Hu' Hw' Huw)) as [Gp _].
              apply (all_pairs_In (has_edge c) _ (has_edge_sym c) Gp u w Hu' Hw' Huw).
           ++ assert (Hu' : In u (sremove b T)) by (apply sremove_In; auto).
              assert (Hw' : In w (sremove b T)) by (apply sremove_In; auto).
              destruct (Gb (two_members_length _ u w Hu' Hw' Huw)) as [Gp _].
              apply (all_pairs_In (has_edge c) _ (has_edge_sym c) Gp u w Hu' Hw' Huw).
        -- rewrite Hbl. apply not_true_is_false. intros Hb. apply blocks_spec in Hb. destruct Hb as [b0 [Hb0 [Hne0 Hs]]].
           destruct (Hwb b0 Hb0) as [Hnd0 Hlen0].
           assert (Hside : forall z, ~ In z b0 -> (2 <= length (sremove z T))%nat ->
                     (forall b1, In b1 (blk c) -> b1 <> [] -> ssub b1 (sremove z T) = false) -> False).
           { intros z Hz Hl Hg. assert (ssub b0 (sremove z T) = true); [|rewrite (Hg b0 Hb0 Hne0) in H; discriminate].
             apply ssub_incl. intros v Hv. apply sremove_In. split; [apply (proj1 (ssub_incl _ _) Hs); auto | intros ->; auto]. }
           assert (Hlen : forall z, ~ In z b0 -> (2 <= length (sremove z T))%nat).
           { intros z Hz. assert (ssub b0 (sremove z T) = true).
             { apply ssub_incl. intros v Hv. apply sremove_In. split; [apply (proj1 (ssub_incl _ _) Hs); auto | intros ->; auto]. }
             pose proof (ssub_length _ _ Hnd0 H). lia. }
           destruct (in_dec Z.eq_dec a b0) as [Ia|Ia].
           ++ destruct (in_dec Z.eq_dec b b0) as [Ib|Ib]; [exact (Hnab b0 Hb0 (conj Ia Ib))|].
              apply (Hside b Ib (Hlen b Ib)). apply Gb. apply Hlen; auto.
           ++ apply (Hside a Ia (Hlen a Ia)). apply Ga. apply Hlen; auto.
    + assert (Hnot : ~ (In a T /\ In b T)).
      { intros [H1 H2]. apply smem_In in H1, H2. rewrite H1, H2 in Eab. discriminate. }
      simpl. rewrite orb_false_r. rewrite !Hct. f_equal; [|rewrite Hbl; auto].
      unfold contains_edges. f_equal; [apply forallb_ext'; auto|].
      apply all_pairs_ext_in. intros u w Hu Hw. rewrite Hhe.
      destruct (same_edge a b u w) eqn:Ese; [|apply orb_false_r]. exfalso. apply Hnot.
      apply same_edge_iff in Ese. destruct Ese as [[-> ->]|[-> ->]]; auto.
Qed.


(* ================================================================== L: add_blocker keeps the representation (this is how "arbitrary 1-skeleta and blocker sets"
   are set up): sigma a simplex of K of dimension >= 2 that is not inside a stored blocker *)
Lemma add_blocker_In (c : cplx) (s b : simplex) : In b (blk (add_blocker c s)) <-> In b (blk c) \/ b = s.
Proof.
  unfold add_blocker. destruct (contains_blocker c s) eqn:E; simpl.
  - split; auto. intros [H| ->]; auto. unfold contains_blocker in E. destruct (dim s <? 2); [discriminate|].
    apply lmem_In in E. unfold blockers_at in E. apply filter_In in E. tauto.
  - rewrite in_app_iff. simpl. intuition.
Qed.

Theorem add_blocker_keeps_representation (c : cplx) K (sigma : simplex) :
  closed K -> represents c K -> inc sigma -> (3 <= length sigma)%nat -> K sigma = true ->
  (forall b, In b (blk c) -> ssub sigma b = false) ->
  represents (add_blocker c sigma) (K_rs K sigma).
Proof.
  intros Hc [R1 [R2 R3]] Hi Hl Hk Hno. split; [|split].
  - intros t Ht. rewrite add_blocker_spec; auto using inc_NoDup. rewrite (R1 t Ht). unfold K_rs. rewrite inc_ssub_subb; auto.
  - intros b. rewrite add_blocker_In. rewrite (remove_star_blockers K sigma Hc Hk b). split.
    + intros [Hb| ->].
      * pose proof (Hno b Hb) as Hs. apply R2 in Hb. destruct Hb as [Hb1 [Hb2 Hb3]]. split; auto. split; auto. right. split; auto.
        intros H. apply (sorted_ssub_sub b sigma Hi Hb1) in H. congruence.
      * split; auto.
    + intros [Hb1 [[->|[Hb2 Hb4]] Hb3]]; auto. left. apply R2. auto.
  - unfold add_blocker. destruct (contains_blocker c sigma) eqn:E; auto. simpl blk. apply NoDup_app_one; auto.
    intros Hin. pose proof (ssub_refl sigma) as H. rewrite (Hno sigma Hin) in H. discriminate.
Qed.


(* ================================================================== M: add_vertex keeps the representation *)
Definition K_av (K : list Z -> bool) (n : Z) (t : list Z) : bool := K t || seqb t [n].
Definition fresh (K : list Z -> bool) (n : Z) : Prop := forall t, In n t -> K t = false.

Lemma K_av_closed K n : closed K -> closed (K_av K n).
Proof.
  intros [H0 Hc]. split; [unfold K_av; rewrite H0; reflexivity|].
  intros s t Ht Hs Hne. unfold K_av in *. apply orb_true_iff in Ht. destruct Ht as [Ht|Ht].
  - rewrite (Hc s t Ht Hs Hne). reflexivity.
  - apply seqb_eq in Ht. subst t. inversion Hs as [|x l1 l2 H|x l1 l2 H]; subst.
    + apply sub_nil_r in H. congruence.
    + apply sub_nil_r in H. subst. rewrite (proj2 (seqb_eq [n] [n]) eq_refl). apply orb_true_r.
Qed.

Lemma sub_pair_with n b : In n b -> (2 <= length b)%nat -> exists t, sub t b /\ length t = 2%nat /\ In n t.
Proof.
  induction b as [|x b IH]; intros Hin Hl; [destruct Hin|].
  destruct b as [|y b']; [simpl in Hl; lia|].
  destruct Hin as [->|Hin].
  - exists [n; y]. split; [apply sub_take, sub_take, sub_nil_l | split; [reflexivity | left; reflexivity]].
  - destruct b' as [|z b''].
    + destruct Hin as [E|[]]. subst y. exists [x; n]. split; [apply sub_refl | split; [reflexivity | right; left; reflexivity]].
    + destruct (IH Hin) as [t [Ht [Hlen Hn]]]; [simpl; lia|]. exists t. split; [apply sub_skip; exact Ht | split; assumption].
Qed.

Theorem add_vertex_keeps_representation (c : cplx) K :
  closed K -> represents c K -> wf_slots c -> fresh K (slots c) ->
  represents (add_vertex c) (K_av K (slots c)) /\ closed (K_av K (slots c)).
Proof.
  intros Hc [R1 [R2 R3]] Hwf Hfr. split; [|apply K_av_closed; auto]. split; [|split].
  - intros t Ht. rewrite add_vertex_spec; auto. rewrite (R1 t Ht). reflexivity.
  - intros b. change (blk (add_vertex c)) with (blk c). rewrite R2.
    set (n := slots c) in *.
    assert (Hkey : (3 <= length b)%nat -> (mnf K b <-> mnf (K_av K n) b)).
    { intros Hl. assert (Hs3 : seqb b [n] = false).
      { destruct (seqb b [n]) eqn:E; auto. apply seqb_eq in E. subst b. simpl in Hl. lia. }
      split.
      - intros [Hne [Hk Hf]]. split; auto. split; [unfold K_av; rewrite Hk, Hs3; reflexivity|].
        intros t Ht Htb Htn. unfold K_av. rewrite (Hf t Ht Htb Htn). reflexivity.
      - intros [Hne [Hk Hf]]. unfold K_av in Hk. apply orb_false_iff in Hk. destruct Hk as [Hk _].
        split; auto. split; auto.
        assert (Hnb : ~ In n b).
        { intros Hin. destruct (sub_pair_with n b Hin) as [t [Ht [Hlen Hn]]]; [lia|].
          assert (Htb : t <> b) by (intros ->; lia).
          assert (Htn : t <> []) by (intros ->; simpl in Hlen; lia).
          specialize (Hf t Ht Htb Htn). unfold K_av in Hf. rewrite (Hfr t Hn) in Hf. simpl in Hf.
          apply seqb_eq in Hf. subst t. simpl in Hlen. lia. }
        intros t Ht Htb Htn. specialize (Hf t Ht Htb Htn). unfold K_av in Hf. apply orb_true_iff in Hf.
        destruct Hf as [Hf|Hf]; auto. apply seqb_eq in Hf. subst t. exfalso. apply Hnb.
        apply (sub_incl _ _ Ht). left; auto. }
    split; intros [H1 [H2 H3]]; (split; [auto|split; [apply Hkey; auto|auto]]).
  - exact R3.
Qed.


(* ================================================================== witnesses *)
(* boundary of the tetrahedron 0123 built through the transcribed operations *)
Definition complete4 : cplx :=
  fold_left (fun c e => add_edge_without_blockers c (fst e) (snd e)) (pairs_of [0; 1; 2; 3])
            (add_vertex (add_vertex (add_vertex (add_vertex empty_cplx)))).
Definition hollow_tetrahedron : cplx := add_blocker complete4 [0; 1; 2; 3].
Definition hollow_triangle : cplx :=
  add_edge (add_edge (add_edge (add_vertex (add_vertex (add_vertex empty_cplx))) 0 1) 0 2) 1 2.

(* the property "a star removal deletes precisely the simplices containing the given one" for remove_star(vertex) *)
Definition remove_star_vertex_exact (thr : Z) : Prop :=
  forall c v t, contains (remove_star_vertex thr c v) t = contains c t && negb (smem v t).
Definition remove_star_edge_exact (thr : Z) : Prop :=
  forall c a b t, a <> b -> contains (remove_star_edge thr c a b) t = contains c t && negb (ssub [Z.min a b; Z.max a b] t).

Lemma remove_star_vertex_witness :
  contains hollow_tetrahedron [1; 2; 3] = true /\ smem 0 [1; 2; 3] = false /\
  contains (remove_star_vertex 3 hollow_tetrahedron 0) [1; 2; 3] = false /\
  blk (remove_star_vertex 3 hollow_tetrahedron 0) = [[1; 2; 3]].
Proof. vm_compute. auto. Qed.

Theorem remove_star_vertex_refuted : ~ remove_star_vertex_exact 3.
Proof.
  intros H. specialize (H hollow_tetrahedron 0 [1; 2; 3]).
  destruct remove_star_vertex_witness as [H1 [H2 [H3 _]]]. rewrite H1, H2, H3 in H. discriminate.
Qed.

Definition complete5 : cplx :=
  fold_left (fun c e => add_edge_without_blockers c (fst e) (snd e)) (pairs_of [0; 1; 2; 3; 4])
            (add_vertex (add_vertex (add_vertex (add_vertex (add_vertex empty_cplx))))).
Definition hollow_4simplex : cplx := add_blocker complete5 [0; 1; 2; 3; 4].
Theorem remove_star_edge_refuted : ~ remove_star_edge_exact 3.
Proof.
  intros H. specialize (H hollow_4simplex 0 1 [2; 3; 4]).
  assert (H1 : contains hollow_4simplex [2; 3; 4] = true) by (vm_compute; auto).
  assert (H3 : contains (remove_star_edge 3 hollow_4simplex 0 1) [2; 3; 4] = false) by (vm_compute; auto).
  rewrite H1, H3 in H. simpl in H. assert (0 <> 1) by lia. specialize (H H0). discriminate.
Qed.

(* the unrepaired threshold (>= 2) registered an edge as a blocker: hollow triangle, remove_star(0) *)
Theorem remove_star_unrepaired_threshold_refuted : ~ remove_star_vertex_exact 2 /\
  contains (remove_star_vertex 2 hollow_triangle 0) [1; 2] = false /\
  contains (remove_star_vertex 3 hollow_triangle 0) [1; 2] = true.
Proof.
  split; [|split; vm_compute; auto].
  intros H. specialize (H hollow_triangle 0 [1; 2]).
  assert (H1 : contains hollow_triangle [1; 2] = true) by (vm_compute; auto).
  assert (H3 : contains (remove_star_vertex 2 hollow_triangle 0) [1; 2] = false) by (vm_compute; auto).
  rewrite H1, H3 in H. discriminate.
Qed.

(* non-vacuity of the hypotheses used above *)
Example fresh_instance : fresh K_triangle (slots full_triangle) /\ wf_slots full_triangle.
Proof.
  split.
  - intros t Hin. destruct (K_triangle t) eqn:E; auto. apply K_triangle_spec in E. destruct E as [_ E].
    apply sub_incl in E. specialize (E _ Hin). vm_compute in E. intuition discriminate.
  - split; [vm_compute; discriminate|]. intros e He. vm_compute in He.
    repeat (destruct He as [<-|He]; [vm_compute; auto|]). destruct He.
Qed.
Example add_edge_without_blockers_instance :
  let c := remove_star_edge 3 complete4 0 1 in
  has_edge c 0 1 = false /\ wf_blk c /\ (forall beta, In beta (blk c) -> ~ (In 0 beta /\ In 1 beta)) /\
  contains c [0; 1; 2; 3] = false /\ contains (add_edge_without_blockers c 0 1) [0; 1; 2; 3] = true.
Proof.
  split; [vm_compute; auto|]. split; [|split; [|split; vm_compute; auto]].
  - intros b Hb. vm_compute in Hb. destruct Hb.
  - intros b Hb. vm_compute in Hb. destruct Hb.
Qed.
Example add_edge_hypotheses_instance :
  let c := add_vertex hollow_tetrahedron in
  has_edge c 0 4 = false /\ wf_blk c /\ wf_edg c /\ inc [0; 4] /\ contains (add_edge c 0 4) [0; 4] = true /\
  contains (add_edge (add_edge c 0 4) 1 4) [0; 1; 4] = false.
Proof.
  split; [vm_compute; auto|]. split; [|split; [|split; [repeat constructor; lia | split; vm_compute; auto]]].
  - intros b Hb. vm_compute in Hb. destruct Hb as [<-|[]]. split; [|simpl; lia].
    repeat constructor; simpl; intuition lia.
  - intros e He. vm_compute in He. repeat (destruct He as [<-|He]; [vm_compute; auto|]). destruct He.
Qed.
Example wf_slots_instance : wf_slots hollow_tetrahedron.
Proof.
  split; [vm_compute; discriminate|]. intros e He. vm_compute in He.
  repeat (destruct He as [<-|He]; [vm_compute; auto|]). destruct He.
Qed.
Example no_big_blocker_instance : no_big_blocker 3 hollow_triangle [0] /\ blk hollow_triangle = [[0; 1; 2]].
Proof.
  split; [|vm_compute; auto]. intros b Hb _. vm_compute in Hb. destruct Hb as [<-|[]]. vm_compute. auto.
Qed.
Example hollow_tetrahedron_contains :
  contains hollow_tetrahedron [0; 1; 2] = true /\ contains hollow_tetrahedron [0; 1; 2; 3] = false /\
  link_condition hollow_tetrahedron 0 1 = false /\ link_condition complete4 0 1 = true.
Proof. vm_compute. auto. Qed.
Example remove_star_simplex_instance :
  contains (remove_star_simplex 3 complete4 [0; 1; 2]) [0; 1; 2; 3] = false /\
  contains (remove_star_simplex 3 complete4 [0; 1; 2]) [0; 1; 3] = true.
Proof. vm_compute. auto. Qed.
