(* C18 — persistence landscapes.  Specification model (tent functions, k-th largest value, PL functions sampled on
   common breakpoints with exact integrals) and algorithm models (statement-by-statement transcriptions of
   Persistence_landscape.h and Persistence_landscape_on_grid.h over Q).  No proofs here. *)
From Coq Require Import List ZArith QArith Qreduction Qabs Qround Bool.
Import ListNotations.
Local Open Scope Q_scope.

(* ================================================================ helpers *)
Definition Qlt_bool (a b : Q) : bool := negb (Qle_bool b a).
Definition qmax (a b : Q) : Q := if Qle_bool a b then b else a.
Definition qmin (a b : Q) : Q := if Qle_bool a b then a else b.
Definition qabs (a : Q) : Q := if Qle_bool 0 a then a else - a.
(* reduced arithmetic (same values; keeps the numerals small in the extracted oracle) *)
Definition radd (a b : Q) : Q := Qred (a + b).
Definition rsub (a b : Q) : Q := Qred (a - b).
Definition rmul (a b : Q) : Q := Qred (a * b).
Definition rdiv (a b : Q) : Q := Qred (a / b).
Definition pt := (Q * Q)%type.
Definition pt0 : pt := (0, 0).
Definition pt_eqb (p q : pt) : bool := Qeq_bool (fst p) (fst q) && Qeq_bool (snd p) (snd q).

(* ================================================================ SPECIFICATION *)
(* the tent function of an interval (b,d) *)
Definition tent (bd : Q * Q) (t : Q) : Q := qmax 0 (qmin (t - fst bd) (snd bd - t)).
Definition tentr (bd : Q * Q) (t : Q) : Q := Qred (tent bd t).
Fixpoint insert_desc (x : Q) (l : list Q) : list Q :=
  match l with
  | [] => [x]
  | y :: tl => if Qle_bool y x then x :: l else y :: insert_desc x tl
  end.
Definition sort_desc (l : list Q) : list Q := fold_right insert_desc [] l.
(* lambda_k(t): the k-th largest (k = 0,1,...) of the tent values, 0 when k >= number of intervals *)
Definition lambda (D : list (Q * Q)) (k : nat) (t : Q) : Q :=
  nth k (sort_desc (map (fun bd => tentr bd t) D)) 0.

(* piecewise-linear function given by breakpoints (x strictly increasing), constant outside *)
Definition line_val (p1 p2 : pt) (t : Q) : Q :=
  snd p1 + (snd p2 - snd p1) * ((t - fst p1) / (fst p2 - fst p1)).
Fixpoint interp_from (p : pt) (l : list pt) (t : Q) : Q :=
  match l with
  | [] => snd p
  | q :: tl => if Qle_bool t (fst q) then line_val p q t else interp_from q tl t
  end.
Definition interp (l : list pt) (t : Q) : Q :=
  match l with
  | [] => 0
  | p :: tl => if Qle_bool t (fst p) then snd p else interp_from p tl t
  end.

(* pointwise operations on PL functions over the same breakpoint abscissae *)
Definition pl_zip (op : Q -> Q -> Q) (f g : list pt) : list pt :=
  map (fun pq => (fst (fst pq), op (snd (fst pq)) (snd (snd pq)))) (combine f g).
Definition pl_add := pl_zip Qplus.
Definition pl_sub := pl_zip Qminus.
Definition pl_scale (c : Q) (f : list pt) : list pt := map (fun p => (fst p, c * snd p)) f.
(* multiply_lanscape_by_real_number_not_overwrite on one level (algorithm model, reduced arithmetic) *)
Definition scale_level (c : Q) (f : list pt) : list pt := map (fun P => (fst P, rmul c (snd P))) f.

(* functions sampled on a common strictly increasing breakpoint list xs: us = values at xs, linear in between,
   zero outside [first, last].  Exact integrals per segment [x, x'] with end values (u, v) resp. (u1,v1),(u2,v2). *)
Definition seg_abs (u v : Q) : Q :=                       (* int_0^1 |u + t (v-u)| dt *)
  if Qle_bool 0 (u * v) then (qabs u + qabs v) / 2
  else (u * u + v * v) / (2 * (qabs u + qabs v)).
Definition seg_sq (u v : Q) : Q := (u * u + u * v + v * v) / 3.            (* int_0^1 (u + t (v-u))^2 dt *)
Definition seg_prod (u1 v1 u2 v2 : Q) : Q :=                                (* int_0^1 f g dt *)
  (2 * (u1 * u2) + u1 * v2 + v1 * u2 + 2 * (v1 * v2)) / 6.
Fixpoint sum_segs (F : Q -> Q -> Q) (xs us : list Q) : Q :=
  match xs, us with
  | x :: ((x' :: _) as xs'), u :: ((v :: _) as us') => radd (rmul (x' - x) (F u v)) (sum_segs F xs' us')
  | _, _ => 0
  end.
Fixpoint sum_segs2 (F : Q -> Q -> Q -> Q -> Q) (xs us vs : list Q) : Q :=
  match xs, us, vs with
  | x :: ((x' :: _) as xs'), u :: ((u' :: _) as us'), v :: ((v' :: _) as vs') =>
      radd (rmul (x' - x) (F u u' v v')) (sum_segs2 F xs' us' vs')
  | _, _, _ => 0
  end.
Definition vsub (us vs : list Q) : list Q := map (fun p => fst p - snd p) (combine us vs).
Definition vadd (us vs : list Q) : list Q := map (fun p => fst p + snd p) (combine us vs).
Definition vscale (c : Q) (us : list Q) : list Q := map (fun u => c * u) us.
Definition norm1 (xs us : list Q) : Q := sum_segs seg_abs xs us.
Definition norm2sq (xs us : list Q) : Q := sum_segs seg_sq xs us.
Definition normsup (us : list Q) : Q := fold_right (fun u m => qmax (qabs u) m) 0 us.
Definition dist1 (xs us vs : list Q) : Q := norm1 xs (vsub us vs).
Definition dist2sq (xs us vs : list Q) : Q := norm2sq xs (vsub us vs).
Definition distsup (us vs : list Q) : Q := normsup (vsub us vs).
Definition inner (xs us vs : list Q) : Q := sum_segs2 seg_prod xs us vs.

(* candidate breakpoints of all lambda_k of a diagram: b, d, (b_i + d_j)/2 *)
Definition cands (D : list (Q * Q)) : list Q :=
  flat_map (fun p => flat_map (fun q => [Qred (fst p); Qred (snd p); Qred ((fst p + snd q) / 2)]) D) D.
Fixpoint insert_asc (x : Q) (l : list Q) : list Q :=
  match l with
  | [] => [x]
  | y :: tl => if Qeq_bool x y then l else if Qle_bool x y then x :: l else y :: insert_asc x tl
  end.
Definition sort_asc_dedup (l : list Q) : list Q := fold_right insert_asc [] l.
Definition max_levels (Ds : list (list (Q * Q))) : nat := fold_right (fun D m => Nat.max (length D) m) O Ds.
(* sum over the levels 0..n-1 of a per-level quantity *)
Fixpoint sum_levels (n : nat) (F : nat -> Q) : Q :=
  match n with O => 0 | S m => radd (sum_levels m F) (F m) end.
Fixpoint max_levels_q (n : nat) (F : nat -> Q) : Q :=
  match n with O => 0 | S m => qmax (max_levels_q m F) (F m) end.
Definition sample (D : list (Q * Q)) (k : nat) (xs : list Q) : list Q := map (lambda D k) xs.
Definition spec_xs (Ds : list (list (Q * Q))) : list Q := sort_asc_dedup (flat_map cands Ds).
Definition spec_dist1 (A B : list (Q * Q)) : Q :=
  let xs := spec_xs [A; B] in sum_levels (max_levels [A; B]) (fun k => dist1 xs (sample A k xs) (sample B k xs)).
Definition spec_dist2sq (A B : list (Q * Q)) : Q :=
  let xs := spec_xs [A; B] in sum_levels (max_levels [A; B]) (fun k => dist2sq xs (sample A k xs) (sample B k xs)).
Definition spec_distsup (A B : list (Q * Q)) : Q :=
  let xs := spec_xs [A; B] in max_levels_q (max_levels [A; B]) (fun k => distsup (sample A k xs) (sample B k xs)).
Definition spec_inner (A B : list (Q * Q)) : Q :=
  let xs := spec_xs [A; B] in sum_levels (max_levels [A; B]) (fun k => inner xs (sample A k xs) (sample B k xs)).
Definition spec_integral (A : list (Q * Q)) : Q :=
  let xs := spec_xs [A] in sum_levels (length A) (fun k => norm1 xs (sample A k xs)).
Definition spec_integral_level (A : list (Q * Q)) (k : nat) : Q :=
  let xs := spec_xs [A] in norm1 xs (sample A k xs).

(* ================================================================ ALGORITHM MODEL: Persistence_landscape.h *)
Definition INF : Q := 2147483647 # 1.                 (* std::numeric_limits<int>::max() as double *)
Definition EPSI : Q := 5 # 1000000.                   (* common_persistence_representations.h: epsi *)
Definition almost_equal (a b : Q) : bool := Qlt_bool (qabs (a - b)) EPSI.
Definition minus_length (a : pt) : Q := rsub (fst a) (snd a).
Definition birth_plus_deaths (a : pt) : Q := radd (fst a) (snd a).
(* function_value: a = dy/dx; b = y1 - a x1; a x + b *)
Definition function_value (p1 p2 : pt) (x : Q) : Q :=
  let a := rdiv (snd p2 - snd p1) (fst p2 - fst p1) in
  let b := rsub (snd p1) (rmul a (fst p1)) in
  radd (rmul a x) b.
Definition line_params (p1 p2 : pt) : Q * Q :=
  let a := rdiv (snd p2 - snd p1) (fst p2 - fst p1) in (a, rsub (snd p1) (rmul a (fst p1))).
(* compare_points_sorting: first coordinate ascending, second descending *)
Definition compare_points_sorting (f s : pt) : bool :=
  if Qlt_bool (fst f) (fst s) then true
  else if Qlt_bool (fst s) (fst f) then false
  else Qlt_bool (snd s) (snd f).
Fixpoint insert_bar (x : pt) (l : list pt) : list pt :=
  match l with
  | [] => [x]
  | y :: tl => if compare_points_sorting y x then y :: insert_bar x tl else x :: l
  end.
Definition sort_bars (l : list pt) : list pt := fold_right insert_bar [] l.
Fixpoint unique_pts (l : list pt) : list pt :=      (* std::unique *)
  match l with
  | [] => []
  | p :: tl => match tl with
               | [] => [p]
               | q :: _ => if pt_eqb p q then unique_pts tl else p :: unique_pts tl
               end
  end.
Definition lastpt (l : list pt) : pt := last l pt0.

(* the two inner while loops that move following characteristic points to newCharacteristicPoints *)
Fixpoint take_eq_birth (point : pt) (l : list pt) (acc : list pt) : list pt * list pt :=
  match l with
  | c :: tl => if almost_equal (minus_length point) (minus_length c) &&
                  Qle_bool (birth_plus_deaths point) (birth_plus_deaths c)
               then take_eq_birth point tl (acc ++ [c]) else (acc, l)
  | [] => (acc, [])
  end.
Fixpoint take_dominated (point : pt) (l : list pt) (acc : list pt) : list pt * list pt :=
  match l with
  | c :: tl => if Qle_bool (minus_length point) (minus_length c) &&
                  Qle_bool (birth_plus_deaths c) (birth_plus_deaths point)
               then take_dominated point tl (acc ++ [c]) else (acc, l)
  | [] => (acc, [])
  end.
(* body of "while (i < characteristicPoints.size())": rest = characteristicPoints[i..] *)
Fixpoint sweep_level (fuel : nat) (lam newc rest : list pt) : option (list pt * list pt) :=
  match fuel with
  | O => None
  | S f =>
    match rest with
    | [] => Some (lam, newc)
    | c :: tl =>
      let lastl := lastpt lam in
      if Qle_bool (minus_length lastl) (minus_length c) &&
         Qlt_bool (birth_plus_deaths lastl) (birth_plus_deaths c)
      then
        if Qlt_bool (minus_length c) (birth_plus_deaths lastl) then
          let point := (rdiv (minus_length c + birth_plus_deaths lastl) 2,
                        rdiv (birth_plus_deaths lastl - minus_length c) 2) in
          let '(new1, l1) := take_eq_birth point tl newc in
          let new2 := new1 ++ [point] in
          let '(new3, l2) := take_dominated point l1 new2 in
          sweep_level f (lam ++ [point; c]) new3 l2
        else
          sweep_level f (lam ++ [(birth_plus_deaths lastl, 0); (minus_length c, 0); c]) newc tl
      else sweep_level f lam (newc ++ [c]) tl
    end
  end.
Definition one_level (cps : list pt) : option (list pt * list pt) :=
  match cps with
  | [] => None
  | c0 :: tl =>
    match sweep_level (S (length cps)) [(- INF, 0); (minus_length c0, 0); c0] [] tl with
    | None => None
    | Some (lam, newc) =>
      let lam' := lam ++ [(birth_plus_deaths (lastpt lam), 0); (INF, 0)] in
      Some (unique_pts lam', newc)
    end
  end.
(* outer loop; nlev = 0 means "all levels" *)
Fixpoint sweep_all (fuel : nat) (nlev done : nat) (cps : list pt) (acc : list (list pt)) : option (list (list pt)) :=
  match fuel with
  | O => None
  | S f =>
    match cps with
    | [] => Some acc
    | _ => match one_level cps with
           | None => None
           | Some (lam, newc) =>
             let acc' := acc ++ [lam] in
             if Nat.eqb nlev (S done) then Some acc' else sweep_all f nlev (S done) newc acc'
           end
    end
  end.
Definition construct (D : list (Q * Q)) (nlev : nat) : option (list (list pt)) :=
  let bars := sort_bars D in
  let cps := map (fun b => (rdiv (fst b + snd b) 2, rdiv (snd b - fst b) 2)) bars in
  sweep_all (S (length D)) nlev O cps [].

(* compute_value_at_a_given_point: bisection *)
Definition nthp (l : list pt) (i : nat) : pt := nth i l pt0.
Fixpoint bisect (fuel : nat) (l : list pt) (cb ce : nat) (x : Q) : option Q :=
  match fuel with
  | O => None
  | S f =>
    if Nat.eqb (cb + 1) ce then Some (function_value (nthp l cb) (nthp l ce) x)
    else let nc := Nat.div2 (ce + cb) in
         if Qle_bool (fst (nthp l nc)) x then
           if Qeq_bool (fst (nthp l nc)) x then Some (snd (nthp l nc)) else bisect f l nc ce x
         else bisect f l cb nc x
  end.
Definition value_at (land : list (list pt)) (level : nat) (x : Q) : option Q :=
  if Nat.leb (length land) level then Some 0
  else let l := nth level land [] in
       let cb := 1%nat in let ce := (length l - 2)%nat in
       if Qle_bool x (fst (nthp l cb)) then Some 0
       else if Qle_bool (fst (nthp l ce)) x then Some 0
       else bisect (S (length l)) l cb ce x.

(* operation_on_pair_of_landscapes, one level *)
Fixpoint merge_main (fuel : nat) (oper : Q -> Q -> Q) (l1 l2 : list pt) (p q : nat) (acc : list pt)
  : option (nat * nat * list pt) :=
  match fuel with
  | O => None
  | S f =>
    if Nat.ltb (p + 1) (length l1) && Nat.ltb (q + 1) (length l2) then
      let P := nthp l1 p in let R := nthp l2 q in
      if Qlt_bool (fst P) (fst R) then
        merge_main f oper l1 l2 (S p) q
          (acc ++ [(fst P, oper (snd P) (function_value (nthp l2 (q - 1)) (nthp l2 q) (fst P)))])
      else if Qlt_bool (fst R) (fst P) then
        merge_main f oper l1 l2 p (S q)
          (acc ++ [(fst R, oper (function_value (nthp l1 p) (nthp l1 (p - 1)) (fst R)) (snd R))])
      else merge_main f oper l1 l2 (S p) (S q) (acc ++ [(fst R, oper (snd P) (snd R))])
    else Some (p, q, acc)
  end.
Definition merge_level (oper : Q -> Q -> Q) (l1 l2 : list pt) : option (list pt) :=
  match merge_main (S (length l1 + length l2)) oper l1 l2 O O [] with
  | None => None
  | Some (p, q, acc) =>
    (* while (p+1 < size1 && q+1 >= size2) *)
    let t1 := if Nat.leb (length l2) (q + 1)
              then map (fun P => (fst P, oper (snd P) 0)) (firstn (length l1 - 1 - p) (skipn p l1)) else [] in
    let p' := if Nat.leb (length l2) (q + 1) then Nat.max p (length l1 - 1) else p in
    let t2 := if Nat.leb (length l1) (p' + 1)
              then map (fun R => (fst R, oper 0 (snd R))) (firstn (length l2 - 1 - q) (skipn q l2)) else [] in
    Some (acc ++ t1 ++ t2 ++ [(INF, 0)])
  end.
Fixpoint op_levels (oper : Q -> Q -> Q) (a b : list (list pt)) {struct a} : option (list (list pt)) :=
  match a, b with
  | [], _ => Some (map (map (fun R => (fst R, oper 0 (snd R)))) b)
  | _ :: _, [] => Some (map (map (fun P => (fst P, oper (snd P) 0))) a)
  | l1 :: ta, l2 :: tb => match merge_level oper l1 l2, op_levels oper ta tb with
                          | Some l, Some r => Some (l :: r) | _, _ => None end
  end.
Definition land_add := op_levels radd.
Definition land_sub := op_levels rsub.
Definition land_scale (c : Q) (a : list (list pt)) : list (list pt) :=
  map (scale_level c) a.

(* abs() *)
Definition find_zero (p1 p2 : pt) : Q :=
  if Qeq_bool (fst p1) (fst p2) then fst p1
  else let a := rdiv (snd p2 - snd p1) (fst p2 - fst p1) in
       let b := rsub (snd p1) (rmul a (fst p1)) in rdiv (- b) a.
Fixpoint abs_level_from (prev : pt) (l : list pt) : list pt :=
  match l with
  | [] => []
  | c :: tl => (if Qlt_bool (snd prev * snd c) 0 then [(find_zero prev c, 0); (fst c, qabs (snd c))]
                else [(fst c, qabs (snd c))]) ++ abs_level_from c tl
  end.
Definition abs_level (l : list pt) : list pt :=
  match l with [] => [(- INF, 0)] | p :: tl => (- INF, 0) :: abs_level_from p tl end.
Definition land_abs (a : list (list pt)) : list (list pt) := map abs_level a.

(* compute_integral_of_landscape(): trapezoids over nr = 2 .. size-2 *)
Fixpoint trapezoids (prev : pt) (l : list pt) : Q :=
  match l with
  | [] => 0
  | c :: tl => match tl with
               | [] => 0                                   (* the last point (nr = size-1) is not used *)
               | _ => radd (rmul (rmul (1 # 2) (fst c - fst prev)) (snd c + snd prev)) (trapezoids c tl)
               end
  end.
Definition integral_level (l : list pt) : Q :=
  match l with _ :: p1 :: tl => trapezoids p1 tl | _ => 0 end.
Definition land_integral (a : list (list pt)) : Q := fold_left (fun s l => radd s (integral_level l)) a 0.
(* compute_integral_of_landscape(p) for a positive integer p *)
Fixpoint qpow (x : Q) (n : nat) : Q := match n with O => 1 | S m => rmul x (qpow x m) end.
Fixpoint pow_segments (p : nat) (prev : pt) (l : list pt) : Q :=
  match l with
  | [] => 0
  | c :: tl => match tl with
               | [] => 0
               | _ =>
                 let '(a, b) := line_params c prev in
                 let term :=
                   if Qeq_bool (fst c) (fst prev) then 0
                   else if negb (Qeq_bool a 0)
                        then rmul (rdiv 1 (a * (inject_Z (Z.of_nat p) + 1)))
                                  (qpow (radd (rmul a (fst c)) b) (S p) - qpow (radd (rmul a (fst prev)) b) (S p))
                        else rmul (fst c - fst prev) (qpow (snd c) p) in
                 radd term (pow_segments p c tl)
               end
  end.
Definition integral_pow_level (p : nat) (l : list pt) : Q :=
  match l with _ :: p1 :: tl => pow_segments p p1 tl | _ => 0 end.
Definition land_integral_pow (p : nat) (a : list (list pt)) : Q :=
  fold_left (fun s l => radd s (integral_pow_level p l)) a 0.
(* compute_distance_of_landscapes(first, second, p): the p-th power of the result for p = 1, 2 *)
Definition alg_dist_pow (p : nat) (a b : list (list pt)) : option Q :=
  match land_sub a b with
  | None => None
  | Some d => let d' := land_abs d in
              Some (if Nat.eqb p 1 then land_integral d' else land_integral_pow p d')
  end.

(* compute_maximal_distance_non_symmetric *)
Fixpoint advance (fuel : nat) (l2 : list pt) (x : Q) (c : nat) : nat :=
  match fuel with
  | O => c
  | S f => if Qle_bool (fst (nthp l2 c)) x && Qle_bool x (fst (nthp l2 (S c))) then c else advance f l2 x (S c)
  end.
Fixpoint nonsym_level (l1full l2 : list pt) (idx : list nat) (c : nat) (m : Q) : Q :=
  match idx with
  | [] => m
  | i :: tl =>
    let P := nthp l1full i in
    let c' := advance (length l2) l2 (fst P) c in
    let val := qabs (rsub (function_value (nthp l2 c') (nthp l2 (S c')) (fst P)) (snd P)) in
    nonsym_level l1full l2 tl c' (if Qle_bool m val then val else m)
  end.
Fixpoint nonsym (a b : list (list pt)) (m : Q) {struct a} : Q :=
  match a, b with
  | l1 :: ta, l2 :: tb => nonsym ta tb (nonsym_level l1 l2 (seq 1 (length l1 - 2)) O m)
  | l1 :: ta, [] => nonsym ta [] (fold_left (fun mm P => if Qlt_bool mm (snd P) then snd P else mm) l1 m)
  | [], _ => m
  end.
Definition alg_distsup (a b : list (list pt)) : Q := qmax (nonsym a b 0) (nonsym b a 0).

(* compute_inner_product *)
Definition antider (a b c d x : Q) : Q :=
  radd (radd (rdiv (rmul (rmul (rmul (rmul a c) x) x) x) 3) (rdiv (rmul (rmul (a * d + b * c) x) x) 2)) (rmul (rmul b d) x).
Fixpoint inner_loop (fuel : nat) (l1 l2 : list pt) (i1 i2 : nat) (x1 x2 : Q) (res : Q) : option Q :=
  match fuel with
  | O => None
  | S f =>
    if Nat.ltb i1 (length l1 - 1) && Nat.ltb i2 (length l2 - 1) then
      let P := nthp l1 i1 in let P' := nthp l1 (S i1) in
      let R := nthp l2 i2 in let R' := nthp l2 (S i2) in
      let a := if Qeq_bool (fst P') (fst P) then 0 else rdiv (snd P' - snd P) (fst P' - fst P) in
      let b := rsub (snd P) (rmul a (fst P)) in
      let c := if Qeq_bool (fst R') (fst R) then 0 else rdiv (snd R' - snd R) (fst R' - fst R) in
      let d := rsub (snd R) (rmul c (fst R)) in
      let res' := radd res (rsub (antider a b c d x2) (antider a b c d x1)) in
      let '(j1, j2) := if Qeq_bool x2 (fst P')
                       then (if Qeq_bool x2 (fst R') then (S i1, S i2) else (S i1, i2))
                       else (i1, S i2) in
      if Nat.leb (length l1) (j1 + 1) then Some res'
      else if Nat.leb (length l2) (j2 + 1) then Some res'
      else let nx := if Qlt_bool (fst (nthp l1 (S j1))) (fst (nthp l2 (S j2)))
                     then fst (nthp l1 (S j1)) else fst (nthp l2 (S j2)) in
           inner_loop f l1 l2 j1 j2 x2 nx res'
    else Some res
  end.
Definition inner_level (l1 l2 : list pt) : option Q :=
  if Nat.eqb (length l1 * length l2) 0 then Some 0
  else let x2 := if Qlt_bool (fst (nthp l1 1)) (fst (nthp l2 1)) then fst (nthp l1 1) else fst (nthp l2 1) in
       inner_loop (S (length l1 + length l2)) l1 l2 O O (- INF) x2 0.
Fixpoint alg_inner (a b : list (list pt)) : option Q :=
  match a, b with
  | l1 :: ta, l2 :: tb => match inner_level l1 l2, alg_inner ta tb with
                          | Some x, Some y => Some (radd x y) | _, _ => None end
  | _, _ => Some 0
  end.

(* compute_average: rounds of pairwise sums, then *= 1/n *)
Fixpoint pair_round (l : list (list (list pt))) : option (list (list (list pt))) :=
  match l with
  | a :: b :: tl => match land_add a b, pair_round tl with
                    | Some s, Some r => Some (s :: r) | _, _ => None end
  | [a] => Some [a]
  | [] => Some []
  end.
Fixpoint avg_rounds (fuel : nat) (l : list (list (list pt))) : option (list (list pt)) :=
  match fuel with
  | O => None
  | S f => match l with
           | [a] => Some a
           | [] => None
           | _ => match pair_round l with None => None | Some l' => avg_rounds f l' end
           end
  end.
Definition land_average (l : list (list (list pt))) : option (list (list pt)) :=
  match avg_rounds (S (length l)) l with
  | None => None
  | Some s => Some (land_scale (rdiv 1 (inject_Z (Z.of_nat (length l)))) s)
  end.

(* ================================================================ ALGORITHM MODEL: Persistence_landscape_on_grid.h *)
Fixpoint upd (i : nat) (v : Q) (vals : list (list Q)) : list (list Q) :=
  match vals, i with
  | [], _ => []
  | l :: tl, O => (l ++ [v]) :: tl
  | l :: tl, S j => l :: upd j v tl
  end.
Fixpoint loop_up (n i : nat) (v dx : Q) (vals : list (list Q)) : Q * list (list Q) :=
  match n with O => (v, vals) | S m => loop_up m (S i) (radd v dx) dx (upd i v vals) end.
Fixpoint loop_down (n i : nat) (v dx : Q) (vals : list (list Q)) : list (list Q) :=
  match n with
  | O => vals
  | S m => loop_down m (S i) (rsub v dx) dx (if Qlt_bool 0 v then upd i v vals else vals)
  end.
Definition grid_index (x gmin dx : Q) : nat := Z.to_nat (Qfloor ((x - gmin) / dx)).
Definition grid_add_interval (gmin dx : Q) (vals : list (list Q)) (bd : Q * Q) : list (list Q) :=
  let gb := grid_index (fst bd) gmin dx in
  let ge := grid_index (snd bd) gmin dx in
  let gm := Nat.div2 (gb + ge) in
  let '(v, vals1) := loop_up (gm - (gb + 1)) (gb + 1) dx dx vals in
  loop_down (ge + 1 - gm) gm v dx vals1.
(* set_up_values_of_landscapes; nlev = 0 means all levels.  With a level bound the code keeps a heap of the nlev
   largest values per grid point: modelled (after the repair) by its result, the nlev largest in descending order *)
Definition grid_setup (D : list (Q * Q)) (gmin gmax : Q) (npts nlev : nat) : list (list Q) :=
  let dx := rdiv (gmax - gmin) (inject_Z (Z.of_nat npts)) in
  let vals := fold_left (grid_add_interval gmin dx) D (repeat [] (S npts)) in
  map (fun l => let s := sort_desc l in match nlev with O => s | _ => firstn nlev s end) vals.
Definition gval (vals : list (list Q)) (pos level : nat) : option Q := nth_error (nth pos vals []) level.
Definition gval0 (vals : list (list Q)) (pos level : nat) : Q :=
  match gval vals pos level with Some v => v | None => 0 end.
(* compute_value_at_a_given_point (grid).  repaired = false transcribes the test as it stood
   (values[position].size() < level): the read past the end is modelled by None *)
Definition grid_value (repaired : bool) (vals : list (list Q)) (gmin gmax : Q) (level : nat) (x : Q) : option Q :=
  if Qlt_bool x gmin || Qlt_bool gmax x then Some 0
  else
    let dx := rdiv (gmax - gmin) (inject_Z (Z.of_nat (length vals - 1))) in
    let pos := grid_index x gmin dx in
    let xp := radd (rmul (inject_Z (Z.of_nat pos)) dx) gmin in
    let xp1 := radd (rmul (inject_Z (Z.of_nat (S pos))) dx) gmin in
    if almost_equal xp x then
      if repaired then Some (gval0 vals pos level)
      else if Nat.ltb (length (nth pos vals [])) level then gval vals pos level (* = None: out of bounds *)
           else Some 0
    else
      match gval vals pos level, gval vals (S pos) level with
      | None, None => Some 0
      | y0, y1 =>
        let y0' := match y0 with Some v => v | None => 0 end in
        let y1' := match y1 with Some v => v | None => 0 end in
        let '(a, b) := line_params (xp, y0') (xp1, y1') in
        Some (radd (rmul a x) b)
      end.
(* a diagram is aligned with the grid when every endpoint is an even multiple of dx from gmin and lies on the grid:
   then every breakpoint of every lambda_k is a grid point *)
Definition aligned (D : list (Q * Q)) (gmin gmax : Q) (npts : nat) : bool :=
  let dx := (gmax - gmin) / inject_Z (Z.of_nat npts) in
  forallb (fun bd =>
    let u := (fst bd - gmin) / (2 * dx) in let v := (snd bd - gmin) / (2 * dx) in
    Qeq_bool u (inject_Z (Qfloor u)) && Qeq_bool v (inject_Z (Qfloor v)) &&
    Qle_bool gmin (fst bd) && Qlt_bool (fst bd) (snd bd) && Qle_bool (snd bd) gmax) D.
