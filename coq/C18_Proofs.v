(* C18 — proofs about the specification model and the transcribed algorithms of C18_Model.v *)
From Coq Require Import List ZArith QArith Qreduction Qabs Qround Bool Lia Lqa Permutation Sorted Setoid Morphisms Arith.
Require Import C18_Model.
Import ListNotations.
Local Open Scope Q_scope.

(* ================================================================ basic facts *)
Lemma Qle_bool_false : forall a b, Qle_bool a b = false -> b < a.
Proof.
  intros a b H. apply Qnot_le_lt. intro Hle. apply Qle_bool_iff in Hle. congruence.
Qed.

Lemma radd_eq : forall a b, radd a b == a + b. Proof. intros; unfold radd; apply Qred_correct. Qed.
Lemma rsub_eq : forall a b, rsub a b == a - b. Proof. intros; unfold rsub; apply Qred_correct. Qed.
Lemma rmul_eq : forall a b, rmul a b == a * b. Proof. intros; unfold rmul; apply Qred_correct. Qed.
Lemma rdiv_eq : forall a b, rdiv a b == a / b. Proof. intros; unfold rdiv; apply Qred_correct. Qed.

Lemma qmax_le_l : forall a b, a <= qmax a b.
Proof. intros a b; unfold qmax; destruct (Qle_bool a b) eqn:E; [apply Qle_bool_iff in E; auto | apply Qle_refl]. Qed.
Lemma qmax_le_r : forall a b, b <= qmax a b.
Proof. intros a b; unfold qmax; destruct (Qle_bool a b) eqn:E; [apply Qle_refl | apply Qle_bool_false in E; apply Qlt_le_weak; auto]. Qed.
Lemma qmax_lub : forall a b c, a <= c -> b <= c -> qmax a b <= c.
Proof. intros a b c Ha Hb; unfold qmax; destruct (Qle_bool a b); auto. Qed.
Lemma qmax_case : forall a b, qmax a b = a \/ qmax a b = b.
Proof. intros a b; unfold qmax; destruct (Qle_bool a b); auto. Qed.
Lemma qmin_le_l : forall a b, qmin a b <= a.
Proof. intros a b; unfold qmin; destruct (Qle_bool a b) eqn:E; [apply Qle_refl | apply Qle_bool_false in E; apply Qlt_le_weak; auto]. Qed.
Lemma qmin_le_r : forall a b, qmin a b <= b.
Proof. intros a b; unfold qmin; destruct (Qle_bool a b) eqn:E; [apply Qle_bool_iff in E; auto | apply Qle_refl]. Qed.

Lemma qabs_Qabs : forall a, qabs a == Qabs a.
Proof.
  intros a; unfold qabs; destruct (Qle_bool 0 a) eqn:E.
  - apply Qle_bool_iff in E. symmetry; apply Qabs_pos; auto.
  - apply Qle_bool_false in E. symmetry; apply Qabs_neg; apply Qlt_le_weak; auto.
Qed.
Lemma qabs_nonneg : forall a, 0 <= qabs a.
Proof. intros; rewrite qabs_Qabs; apply Qabs_nonneg. Qed.
Global Instance qabs_comp : Proper (Qeq ==> Qeq) qabs.
Proof. intros a b H; rewrite !qabs_Qabs; rewrite H; reflexivity. Qed.

(* ================================================================ lambda_k *)
Lemma tent_nonneg : forall bd t, 0 <= tent bd t.
Proof. intros; unfold tent; apply qmax_le_l. Qed.
Lemma tentr_nonneg : forall bd t, 0 <= tentr bd t.
Proof. intros; unfold tentr; rewrite Qred_correct; apply tent_nonneg. Qed.

Definition geq (a b : Q) : Prop := b <= a.

Lemma insert_desc_perm : forall x l, Permutation (insert_desc x l) (x :: l).
Proof.
  intros x l; induction l as [|y tl IH]; simpl; auto.
  destruct (Qle_bool y x); auto.
  eapply perm_trans; [apply perm_skip; apply IH | apply perm_swap].
Qed.
Lemma sort_desc_perm : forall l, Permutation (sort_desc l) l.
Proof.
  induction l as [|x tl IH]; simpl; auto.
  eapply perm_trans; [apply insert_desc_perm | apply perm_skip; exact IH].
Qed.
Lemma insert_desc_sorted : forall x l, StronglySorted geq l -> StronglySorted geq (insert_desc x l).
Proof.
  intros x l H; induction H as [|y tl Hs IH Hall]; simpl.
  - constructor; constructor.
  - destruct (Qle_bool y x) eqn:E.
    + apply Qle_bool_iff in E. constructor; [constructor; auto|].
      constructor; [exact E|]. eapply Forall_impl; [|exact Hall]. intros z Hz; unfold geq in *; eapply Qle_trans; eauto.
    + apply Qle_bool_false in E. constructor; auto.
      eapply Permutation_Forall; [apply Permutation_sym; apply insert_desc_perm|].
      constructor; auto. unfold geq; apply Qlt_le_weak; auto.
Qed.
Lemma sort_desc_sorted : forall l, StronglySorted geq (sort_desc l).
Proof. induction l; simpl; [constructor | apply insert_desc_sorted; auto]. Qed.

Lemma sorted_nth_step : forall l, StronglySorted geq l -> (forall x, In x l -> 0 <= x) ->
  forall k, nth (S k) l 0 <= nth k l 0.
Proof.
  intros l H; induction H as [|a tl Hs IH Hall]; intros Hpos k.
  - destruct k; simpl; apply Qle_refl.
  - destruct k as [|k].
    + destruct tl as [|b tl']; simpl.
      * apply Hpos; left; auto.
      * inversion Hall; subst; auto.
    + change (nth (S k) tl 0 <= nth k tl 0). apply IH. intros x Hx; apply Hpos; right; auto.
Qed.

Lemma lambda_values_nonneg : forall D t x, In x (sort_desc (map (fun bd => tentr bd t) D)) -> 0 <= x.
Proof.
  intros D t x Hx. apply (Permutation_in _ (sort_desc_perm _)) in Hx.
  apply in_map_iff in Hx. destruct Hx as [bd [Hbd _]]. subst x. apply tentr_nonneg.
Qed.

Theorem lambda_nonneg : forall D k t, 0 <= lambda D k t.
Proof.
  intros D k t; unfold lambda.
  destruct (nth_in_or_default k (sort_desc (map (fun bd => tentr bd t) D)) 0) as [Hin|Hd].
  - eapply lambda_values_nonneg; eauto.
  - rewrite Hd; apply Qle_refl.
Qed.

Theorem lambda_antitone_step : forall D k t, lambda D (S k) t <= lambda D k t.
Proof.
  intros D k t; unfold lambda. apply sorted_nth_step; [apply sort_desc_sorted | apply lambda_values_nonneg].
Qed.

Theorem lambda_antitone_in_k : forall D j k t, (j <= k)%nat -> lambda D k t <= lambda D j t.
Proof.
  intros D j k t H; induction H.
  - apply Qle_refl.
  - eapply Qle_trans; [apply lambda_antitone_step | exact IHle].
Qed.

Theorem lambda_zero_beyond : forall D k t, (length D <= k)%nat -> lambda D k t = 0.
Proof.
  intros D k t H; unfold lambda; apply nth_overflow.
  rewrite (Permutation_length (sort_desc_perm _)), map_length; exact H.
Qed.

(* the largest value is the maximum of the tents: every tent is below lambda_0, and lambda_k is one of the tents *)
Theorem lambda_top_dominates : forall D bd t, In bd D -> tent bd t <= lambda D 0 t.
Proof.
  intros D bd t Hin; unfold lambda.
  assert (Hin' : In (tentr bd t) (sort_desc (map (fun bd => tentr bd t) D))).
  { apply (Permutation_in _ (Permutation_sym (sort_desc_perm _))). apply in_map_iff; exists bd; auto. }
  pose proof (sort_desc_sorted (map (fun bd => tentr bd t) D)) as Hs.
  destruct (sort_desc (map (fun bd0 => tentr bd0 t) D)) as [|a tl]; [inversion Hin'|].
  simpl. destruct Hin' as [Heq|Hin'].
  - subst a. unfold tentr; rewrite Qred_correct; apply Qle_refl.
  - inversion Hs; subst. rewrite Forall_forall in H2. specialize (H2 _ Hin'). unfold geq in H2.
    unfold tentr in H2 at 1. rewrite Qred_correct in H2. exact H2.
Qed.
Theorem lambda_is_a_tent : forall D k t, (k < length D)%nat -> exists bd, In bd D /\ lambda D k t == tent bd t.
Proof.
  intros D k t Hk; unfold lambda.
  assert (Hlen : (k < length (sort_desc (map (fun bd => tentr bd t) D)))%nat).
  { rewrite (Permutation_length (sort_desc_perm _)), map_length; exact Hk. }
  pose proof (nth_In _ 0 Hlen) as Hin.
  apply (Permutation_in _ (sort_desc_perm _)) in Hin. apply in_map_iff in Hin.
  destruct Hin as [bd [Hbd Hin]]. exists bd; split; auto. rewrite <- Hbd. unfold tentr; apply Qred_correct.
Qed.

(* permutation invariance (Leibniz equality: the tent values are stored reduced) *)
Definition reduced (x : Q) : Prop := exists y, x = Qred y.
Lemma reduced_antisym : forall x y, reduced x -> reduced y -> x <= y -> y <= x -> x = y.
Proof.
  intros x y [a Ha] [b Hb] H1 H2; subst. apply Qred_complete.
  rewrite <- (Qred_correct a), <- (Qred_correct b). apply Qle_antisym; auto.
Qed.
Lemma sorted_perm_unique : forall l l', StronglySorted geq l -> StronglySorted geq l' -> Permutation l l' ->
  (forall x, In x l -> reduced x) -> l = l'.
Proof.
  induction l as [|a l IH]; intros l' Hs Hs' Hp Hred.
  - apply Permutation_nil in Hp; auto.
  - destruct l' as [|b l']; [apply Permutation_sym in Hp; apply Permutation_nil in Hp; discriminate|].
    inversion Hs as [|? ? Hsl Hal]; subst. inversion Hs' as [|? ? Hsl' Hal']; subst.
    rewrite Forall_forall in Hal, Hal'.
    assert (Hab : a = b).
    { assert (Ha : In a (b :: l')) by (eapply Permutation_in; [exact Hp | left; auto]).
      assert (Hb : In b (a :: l)) by (eapply Permutation_in; [apply Permutation_sym; exact Hp | left; auto]).
      apply reduced_antisym; [apply Hred; left; auto | apply Hred; exact Hb | |].
      - destruct Ha as [Ha|Ha]; [subst; apply Qle_refl | apply Hal'; auto].
      - destruct Hb as [Hb|Hb]; [subst; apply Qle_refl | apply Hal; auto]. }
    subst b. f_equal. apply IH; auto.
    + eapply Permutation_cons_inv; exact Hp.
    + intros x Hx; apply Hred; right; auto.
Qed.

Theorem lambda_perm_invariant : forall D D' k t, Permutation D D' -> lambda D k t = lambda D' k t.
Proof.
  intros D D' k t Hp; unfold lambda. f_equal.
  apply sorted_perm_unique; try apply sort_desc_sorted.
  - eapply perm_trans; [apply sort_desc_perm|].
    eapply perm_trans; [apply Permutation_map; exact Hp | apply Permutation_sym; apply sort_desc_perm].
  - intros x Hx. apply (Permutation_in _ (sort_desc_perm _)) in Hx. apply in_map_iff in Hx.
    destruct Hx as [bd [Hbd _]]; exists (tent bd t); auto.
Qed.

(* ================================================================ PL functions *)
Lemma line_val_right : forall p q, ~ fst q - fst p == 0 -> line_val p q (fst q) == snd q.
Proof. intros p q H; unfold line_val; field; exact H. Qed.

Definition xsorted (l : list pt) : Prop := StronglySorted Qlt (map fst l).

Lemma interp_from_at_breakpoint : forall tl p0 p, xsorted (p0 :: tl) -> In p tl -> interp_from p0 tl (fst p) == snd p.
Proof.
  induction tl as [|q tl IH]; intros p0 p Hs Hin; [inversion Hin|].
  unfold xsorted in Hs; simpl in Hs. inversion Hs as [|? ? Hs' Hall]; subst.
  simpl. destruct Hin as [Heq|Hin].
  - subst q. assert (E : Qle_bool (fst p) (fst p) = true) by (apply Qle_bool_iff; apply Qle_refl).
    rewrite E. apply line_val_right. inversion Hall; subst.
    intro H0. lra.
  - assert (Hlt : fst q < fst p).
    { inversion Hs' as [|? ? _ Hall']; subst. rewrite Forall_forall in Hall'. apply Hall'. apply in_map; auto. }
    assert (E : Qle_bool (fst p) (fst q) = false).
    { destruct (Qle_bool (fst p) (fst q)) eqn:E; auto. apply Qle_bool_iff in E. exfalso. eapply Qlt_irrefl. eapply Qlt_le_trans; eauto. }
    rewrite E. apply IH; auto.
Qed.

Theorem interp_at_breakpoint : forall l p, xsorted l -> In p l -> interp l (fst p) == snd p.
Proof.
  intros l p Hs Hin. destruct l as [|p0 tl]; [inversion Hin|]. simpl.
  destruct Hin as [Heq|Hin].
  - subst p0. assert (E : Qle_bool (fst p) (fst p) = true) by (apply Qle_bool_iff; apply Qle_refl). rewrite E. reflexivity.
  - assert (Hlt : fst p0 < fst p).
    { unfold xsorted in Hs; simpl in Hs. inversion Hs as [|? ? _ Hall]; subst. rewrite Forall_forall in Hall. apply Hall. apply in_map; auto. }
    assert (E : Qle_bool (fst p) (fst p0) = false).
    { destruct (Qle_bool (fst p) (fst p0)) eqn:E; auto. apply Qle_bool_iff in E. exfalso. eapply Qlt_irrefl. eapply Qlt_le_trans; eauto. }
    rewrite E. apply interp_from_at_breakpoint; auto.
Qed.

Definition same_pts (p q : pt) : Prop := fst p = fst q /\ snd p == snd q.
Lemma line_val_ext : forall p p' q q' t, same_pts p p' -> same_pts q q' -> line_val p q t == line_val p' q' t.
Proof.
  intros p p' q q' t [Hx Hy] [Hx' Hy']; unfold line_val. rewrite Hx, Hx', Hy, Hy'. reflexivity.
Qed.
Lemma interp_from_ext : forall tl tl' p p' t, same_pts p p' -> Forall2 same_pts tl tl' ->
  interp_from p tl t == interp_from p' tl' t.
Proof.
  induction tl as [|q tl IH]; intros tl' p p' t Hp HF; inversion HF; subst; simpl.
  - apply Hp.
  - destruct H1 as [Hx Hy]. rewrite <- Hx. destruct (Qle_bool t (fst q)).
    + apply line_val_ext; auto. split; auto.
    + apply IH; auto. split; auto.
Qed.
Lemma interp_ext : forall l l' t, Forall2 same_pts l l' -> interp l t == interp l' t.
Proof.
  intros l l' t HF; inversion HF; subst; simpl; [reflexivity|].
  destruct H as [Hx Hy]. rewrite <- Hx. destruct (Qle_bool t (fst x)); auto. apply interp_from_ext; auto. split; auto.
Qed.

Lemma Forall2_nth_intro : forall (P : pt -> pt -> Prop) l l', length l = length l' ->
  (forall i, (i < length l)%nat -> P (nth i l pt0) (nth i l' pt0)) -> Forall2 P l l'.
Proof.
  induction l as [|a l IH]; intros [|b l'] Hlen H; try discriminate; constructor.
  - apply (H O); simpl; lia.
  - apply IH; [simpl in Hlen; lia|]. intros i Hi. apply (H (S i)); simpl; lia.
Qed.

(* two PL functions over the same breakpoint abscissae that agree on them agree everywhere *)
Theorem pl_determined_by_breakpoints : forall f g, map fst f = map fst g -> xsorted f ->
  (forall x, In x (map fst f) -> interp f x == interp g x) -> forall t, interp f t == interp g t.
Proof.
  intros f g Hx Hs Hag t. apply interp_ext.
  assert (Hlen : length f = length g) by (rewrite <- (map_length fst f), Hx, map_length; auto).
  assert (Hsg : xsorted g) by (unfold xsorted in *; rewrite <- Hx; auto).
  apply Forall2_nth_intro; auto. intros i Hi.
  assert (Hfx : fst (nth i f pt0) = fst (nth i g pt0)).
  { change (fst (nth i f pt0)) with (fst (nth i f pt0)).
    rewrite <- (map_nth fst f pt0 i), <- (map_nth fst g pt0 i), Hx. reflexivity. }
  split; auto.
  rewrite <- (interp_at_breakpoint f (nth i f pt0) Hs (nth_In _ _ Hi)).
  assert (Hi' : (i < length g)%nat) by (rewrite <- Hlen; exact Hi).
  rewrite <- (interp_at_breakpoint g (nth i g pt0) Hsg (nth_In _ _ Hi')).
  rewrite <- Hfx. apply Hag. apply in_map. apply nth_In; auto.
Qed.

(* pointwise operations over common breakpoints *)
Lemma line_val_zip : forall (op : Q -> Q -> Q) (a b : Q) p p' q q' t,
  (forall y1 y2 y1' y2' s, op (y1 + (y2 - y1) * s) (y1' + (y2' - y1') * s) == op y1 y1' + (op y2 y2' - op y1 y1') * s) ->
  fst p = fst p' -> fst q = fst q' ->
  line_val (fst p, op (snd p) (snd p')) (fst q, op (snd q) (snd q')) t == op (line_val p q t) (line_val p' q' t).
Proof.
  intros op a b p p' q q' t Hop Hx Hx'. unfold line_val; simpl. rewrite <- Hx, <- Hx'. rewrite Hop. reflexivity.
Qed.

Section Zip.
  Variable op : Q -> Q -> Q.
  Hypothesis op_comp : forall a a' b b', a == a' -> b == b' -> op a b == op a' b'.
  Hypothesis op_lin : forall y1 y2 y1' y2' s,
    op (y1 + (y2 - y1) * s) (y1' + (y2' - y1') * s) == op y1 y1' + (op y2 y2' - op y1 y1') * s.

  Lemma interp_from_zip : forall tl tl' p p' t, fst p = fst p' -> map fst tl = map fst tl' ->
    interp_from (fst p, op (snd p) (snd p')) (pl_zip op tl tl') t == op (interp_from p tl t) (interp_from p' tl' t).
  Proof.
    induction tl as [|q tl IH]; intros [|q' tl'] p p' t Hp Hx; try discriminate; simpl.
    - reflexivity.
    - simpl in Hx. injection Hx as Hq Hx. rewrite <- Hq. destruct (Qle_bool t (fst q)).
      + apply (line_val_zip op 0 0); auto.
      + apply IH; auto.
  Qed.
  Lemma interp_zip : forall f g t, map fst f = map fst g -> interp (pl_zip op f g) t == op (interp f t) (interp g t) \/ f = [].
  Proof.
    intros [|p f] [|p' g] t Hx; try discriminate; auto. left. simpl in *.
    injection Hx as Hp Hx. rewrite <- Hp. destruct (Qle_bool t (fst p)); [reflexivity|].
    apply interp_from_zip; auto.
  Qed.
End Zip.

Theorem pl_add_pointwise : forall f g t, map fst f = map fst g -> interp (pl_add f g) t == interp f t + interp g t.
Proof.
  intros f g t Hx. destruct (interp_zip Qplus (fun y1 y2 y1' y2' s => ltac:(ring)) f g t Hx) as [H|H]; auto.
  subst f. destruct g; [simpl; ring | discriminate].
Qed.
Theorem pl_sub_pointwise : forall f g t, map fst f = map fst g -> interp (pl_sub f g) t == interp f t - interp g t.
Proof.
  intros f g t Hx. destruct (interp_zip Qminus (fun y1 y2 y1' y2' s => ltac:(ring)) f g t Hx) as [H|H]; auto.
  subst f. destruct g; [simpl; ring | discriminate].
Qed.

Lemma interp_from_scale : forall c tl p t,
  interp_from (fst p, c * snd p) (pl_scale c tl) t == c * interp_from p tl t.
Proof.
  induction tl as [|q tl IH]; intros p t; simpl; [reflexivity|].
  destruct (Qle_bool t (fst q)); [unfold line_val; simpl; ring | apply IH].
Qed.
Theorem pl_scale_pointwise : forall c f t, interp (pl_scale c f) t == c * interp f t.
Proof.
  intros c [|p f] t; simpl; [ring|]. destruct (Qle_bool t (fst p)); [reflexivity | apply interp_from_scale].
Qed.
(* the scalar multiplication of the implementation (reduced arithmetic) is the pointwise one *)
Theorem scale_level_pointwise : forall c f t, interp (scale_level c f) t == c * interp f t.
Proof.
  intros c f t. rewrite <- pl_scale_pointwise. apply interp_ext.
  unfold scale_level, pl_scale. induction f as [|p f IH]; simpl; constructor; auto.
  split; simpl; auto. apply rmul_eq.
Qed.

(* ================================================================ functionals on sampled PL functions *)
Global Instance qmax_comp : Proper (Qeq ==> Qeq ==> Qeq) qmax.
Proof.
  intros a a' Ha b b' Hb. apply Qle_antisym; apply qmax_lub.
  - rewrite Ha; apply qmax_le_l. - rewrite Hb; apply qmax_le_r.
  - rewrite <- Ha; apply qmax_le_l. - rewrite <- Hb; apply qmax_le_r.
Qed.

Lemma vsub_cons : forall u us v vs, vsub (u :: us) (v :: vs) = (u - v) :: vsub us vs.
Proof. reflexivity. Qed.
Lemma vadd_cons : forall u us v vs, vadd (u :: us) (v :: vs) = (u + v) :: vadd us vs.
Proof. reflexivity. Qed.

(* ---------------- sup norm *)
Lemma normsup_nonneg : forall us, 0 <= normsup us.
Proof. induction us; simpl; [apply Qle_refl | eapply Qle_trans; [apply qabs_nonneg | apply qmax_le_l]]. Qed.

Theorem distsup_sym : forall us vs, distsup us vs == distsup vs us.
Proof.
  unfold distsup. induction us as [|u us IH]; intros [|v vs]; try reflexivity.
  rewrite !vsub_cons. simpl. rewrite IH. apply qmax_comp; [|reflexivity].
  rewrite !qabs_Qabs. setoid_replace (v - u) with (- (u - v)) by ring. rewrite Qabs_opp. reflexivity.
Qed.
Theorem distsup_refl : forall us, distsup us us == 0.
Proof.
  unfold distsup. induction us as [|u us IH]; [reflexivity|].
  rewrite vsub_cons. simpl. rewrite IH. setoid_replace (u - u) with 0 by ring. reflexivity.
Qed.
Theorem distsup_triangle : forall us vs ws, length us = length vs -> length vs = length ws ->
  distsup us ws <= distsup us vs + distsup vs ws.
Proof.
  unfold distsup. induction us as [|u us IH]; intros [|v vs] [|w ws] H1 H2; try discriminate.
  rewrite !vsub_cons. simpl. apply qmax_lub.
    + eapply Qle_trans; [|apply Qplus_le_compat; apply qmax_le_l].
      rewrite !qabs_Qabs. setoid_replace (u - w) with ((u - v) + (v - w)) by ring. apply Qabs_triangle.
    + eapply Qle_trans; [apply (IH vs ws); simpl in *; lia|]. apply Qplus_le_compat; apply qmax_le_r.
Qed.
(* the sup of |f| over a segment is attained at an end: every value of the linear interpolation is below the larger end *)
Theorem segment_below_ends : forall u v s, 0 <= s -> s <= 1 -> qabs (u + (v - u) * s) <= qmax (qabs u) (qabs v).
Proof.
  intros u v s H0 H1. rewrite !qabs_Qabs.
  setoid_replace (u + (v - u) * s) with ((1 - s) * u + s * v) by ring.
  eapply Qle_trans; [apply Qabs_triangle|]. rewrite !Qabs_Qmult.
  rewrite (Qabs_pos (1 - s)) by lra. rewrite (Qabs_pos s) by lra.
  pose proof (qmax_le_l (qabs u) (qabs v)) as Hl. pose proof (qmax_le_r (qabs u) (qabs v)) as Hr.
  rewrite !qabs_Qabs in Hl, Hr. set (m := qmax (Qabs u) (Qabs v)) in *.
  pose proof (Qabs_nonneg u). pose proof (Qabs_nonneg v). nra.
Qed.

(* ---------------- sums over segments *)
Lemma sum_segs_cons2 : forall F x x' xs u v us,
  sum_segs F (x :: x' :: xs) (u :: v :: us) = radd (rmul (x' - x) (F u v)) (sum_segs F (x' :: xs) (v :: us)).
Proof. reflexivity. Qed.
Lemma sum_segs2_cons2 : forall F x x' xs u u' us v v' vs,
  sum_segs2 F (x :: x' :: xs) (u :: u' :: us) (v :: v' :: vs) =
  radd (rmul (x' - x) (F u u' v v')) (sum_segs2 F (x' :: xs) (u' :: us) (v' :: vs)).
Proof. reflexivity. Qed.

Ltac segs_ind xs IH :=
  induction xs as [|?x xs IH]; [intros; try reflexivity | destruct xs as [|?x' xs]; [intros; try reflexivity|]].

Lemma sum_segs_ext : forall F, Proper (Qeq ==> Qeq ==> Qeq) F ->
  forall xs us us', Forall2 Qeq us us' -> sum_segs F xs us == sum_segs F xs us'.
Proof.
  intros F HF. segs_ind xs IH. intros us us' H.
  inversion H as [|u u' t t' Hu Ht]; subst; [reflexivity|].
  inversion Ht as [|v v' t2 t2' Hv Ht2]; subst; [reflexivity|].
  rewrite !sum_segs_cons2, !radd_eq, !rmul_eq. rewrite (IH (v :: t2) (v' :: t2')) by auto.
  rewrite (HF _ _ Hu _ _ Hv). reflexivity.
Qed.
Lemma sum_segs_nonneg : forall F, (forall u v, 0 <= F u v) -> forall xs us, StronglySorted Qle xs -> 0 <= sum_segs F xs us.
Proof.
  intros F HF. segs_ind xs IH; try apply Qle_refl. intros us Hs.
  destruct us as [|u [|v us]]; try apply Qle_refl.
  rewrite sum_segs_cons2, radd_eq, rmul_eq.
  inversion Hs as [|? ? Hs' Hall]; subst. inversion Hall; subst.
  specialize (IH (v :: us) Hs'). specialize (HF u v). nra.
Qed.
Lemma sum_segs_subadd : forall F, (forall a b a' b', F (a + a') (b + b') <= F a b + F a' b') ->
  forall xs us vs, StronglySorted Qle xs -> length us = length vs ->
  sum_segs F xs (vadd us vs) <= sum_segs F xs us + sum_segs F xs vs.
Proof.
  intros F HF. segs_ind xs IH; try (simpl; lra). intros us vs Hs Hlen.
  destruct us as [|u [|u' us]]; destruct vs as [|v [|v' vs]]; try discriminate; try (simpl; lra).
  rewrite !vadd_cons, !sum_segs_cons2, !radd_eq, !rmul_eq.
  inversion Hs as [|? ? Hs' Hall]; subst. inversion Hall; subst.
  assert (IH' := IH (u' :: us) (v' :: vs) Hs' ltac:(simpl in *; lia)). rewrite vadd_cons in IH'.
  specialize (HF u u' v v'). nra.
Qed.
Lemma sum_segs_scale : forall F c k, (forall u v, F (c * u) (c * v) == k * F u v) ->
  forall xs us, sum_segs F xs (vscale c us) == k * sum_segs F xs us.
Proof.
  intros F c k HF. segs_ind xs IH; try (simpl; ring). intros us.
  destruct us as [|u [|v us]]; try (simpl; ring).
  change (vscale c (u :: v :: us)) with (c * u :: c * v :: vscale c us).
  rewrite !sum_segs_cons2, !radd_eq, !rmul_eq.
  assert (IH' := IH (v :: us)). change (vscale c (v :: us)) with (c * v :: vscale c us) in IH'.
  rewrite IH', HF. ring.
Qed.

Lemma vsub_as_vadd : forall us vs ws, length us = length vs -> length vs = length ws ->
  Forall2 Qeq (vsub us ws) (vadd (vsub us vs) (vsub vs ws)).
Proof.
  induction us as [|u us IH]; intros [|v vs] [|w ws] H1 H2; try discriminate; [constructor|].
  rewrite !vsub_cons, vadd_cons. constructor; [ring | apply IH; simpl in *; lia].
Qed.
Lemma vsub_swap : forall us vs, Forall2 Qeq (vsub vs us) (vscale (-1) (vsub us vs)).
Proof.
  induction us as [|u us IH]; intros [|v vs]; try (constructor; fail).
  rewrite !vsub_cons. change (vscale (-1) (u - v :: vsub us vs)) with (-1 * (u - v) :: vscale (-1) (vsub us vs)).
  constructor; [ring | apply IH].
Qed.
Lemma vsub_self : forall us, Forall2 Qeq (vsub us us) (vscale 0 (vsub us us)).
Proof.
  induction us as [|u us IH]; [constructor|]. rewrite vsub_cons.
  change (vscale 0 (u - u :: vsub us us)) with (0 * (u - u) :: vscale 0 (vsub us us)). constructor; [ring | apply IH].
Qed.
Lemma vsub_length : forall us vs, length us = length vs -> length (vsub us vs) = length us.
Proof. intros; unfold vsub; rewrite map_length, combine_length; lia. Qed.

(* ---------------- L2 (squared) *)
Global Instance seg_sq_comp : Proper (Qeq ==> Qeq ==> Qeq) seg_sq.
Proof. intros u u' Hu v v' Hv; unfold seg_sq; rewrite Hu, Hv; reflexivity. Qed.
Lemma seg_sq_nonneg : forall u v, 0 <= seg_sq u v.
Proof. intros u v; unfold seg_sq. apply Qle_shift_div_l; [reflexivity|]. nra. Qed.
Lemma seg_sq_scale : forall c u v, seg_sq (c * u) (c * v) == (c * c) * seg_sq u v.
Proof. intros; unfold seg_sq; field. Qed.
Theorem dist2sq_sym : forall xs us vs, dist2sq xs us vs == dist2sq xs vs us.
Proof.
  intros; unfold dist2sq, norm2sq. rewrite (sum_segs_ext seg_sq _ xs _ _ (vsub_swap us vs)).
  rewrite (sum_segs_scale seg_sq (-1) ((-1) * (-1))) by (intros; apply seg_sq_scale). ring.
Qed.
Theorem dist2sq_refl : forall xs us, dist2sq xs us us == 0.
Proof.
  intros; unfold dist2sq, norm2sq. rewrite (sum_segs_ext seg_sq _ xs _ _ (vsub_self us)).
  rewrite (sum_segs_scale seg_sq 0 (0 * 0)) by (intros; apply seg_sq_scale). ring.
Qed.
Theorem dist2sq_nonneg : forall xs us vs, StronglySorted Qle xs -> 0 <= dist2sq xs us vs.
Proof. intros; unfold dist2sq, norm2sq; apply sum_segs_nonneg; auto; apply seg_sq_nonneg. Qed.

(* ---------------- inner product *)
Lemma seg_prod_sym : forall u1 v1 u2 v2, seg_prod u1 v1 u2 v2 == seg_prod u2 v2 u1 v1.
Proof. intros; unfold seg_prod; field. Qed.
Lemma seg_prod_add : forall a b a' b' c d, seg_prod (a + a') (b + b') c d == seg_prod a b c d + seg_prod a' b' c d.
Proof. intros; unfold seg_prod; field. Qed.
Lemma seg_prod_scale : forall k a b c d, seg_prod (k * a) (k * b) c d == k * seg_prod a b c d.
Proof. intros; unfold seg_prod; field. Qed.
Lemma seg_prod_sq : forall u v, seg_prod u v u v == seg_sq u v.
Proof. intros; unfold seg_prod, seg_sq; field. Qed.

Ltac segs2_start xs IH us vs :=
  induction xs as [|?x xs IH]; [intros; try reflexivity | destruct xs as [|?x' xs]; [intros; try reflexivity|]].

Theorem inner_sym : forall xs us vs, inner xs us vs == inner xs vs us.
Proof.
  unfold inner. induction xs as [|x xs IH]; [reflexivity|]. destruct xs as [|x' xs]; [reflexivity|].
  intros us vs. destruct us as [|u [|u' us]]; destruct vs as [|v [|v' vs]]; try reflexivity.
  rewrite !sum_segs2_cons2, !radd_eq, !rmul_eq. rewrite (IH (u' :: us) (v' :: vs)). rewrite seg_prod_sym. reflexivity.
Qed.
Theorem inner_add_l : forall xs us us' vs, length us = length us' ->
  inner xs (vadd us us') vs == inner xs us vs + inner xs us' vs.
Proof.
  unfold inner. induction xs as [|x xs IH]; [intros; simpl; ring|]. destruct xs as [|x' xs]; [intros; simpl; ring|].
  intros us us' vs Hlen.
  destruct us as [|u [|u2 us]]; destruct us' as [|w [|w2 us']]; try discriminate;
    destruct vs as [|v [|v2 vs]]; try (simpl; ring).
  rewrite !vadd_cons, !sum_segs2_cons2, !radd_eq, !rmul_eq.
  assert (IH' := IH (u2 :: us) (w2 :: us') (v2 :: vs) ltac:(simpl in *; lia)). rewrite vadd_cons in IH'.
  rewrite IH', seg_prod_add. ring.
Qed.
Theorem inner_scale_l : forall xs k us vs, inner xs (vscale k us) vs == k * inner xs us vs.
Proof.
  unfold inner. induction xs as [|x xs IH]; [intros; simpl; ring|]. destruct xs as [|x' xs]; [intros; simpl; ring|].
  intros k us vs. destruct us as [|u [|u2 us]]; destruct vs as [|v [|v2 vs]]; try (simpl; ring).
  change (vscale k (u :: u2 :: us)) with (k * u :: k * u2 :: vscale k us).
  rewrite !sum_segs2_cons2, !radd_eq, !rmul_eq.
  assert (IH' := IH k (u2 :: us) (v2 :: vs)). change (vscale k (u2 :: us)) with (k * u2 :: vscale k us) in IH'.
  rewrite IH', seg_prod_scale. ring.
Qed.
Theorem inner_add_r : forall xs us vs vs', length vs = length vs' ->
  inner xs us (vadd vs vs') == inner xs us vs + inner xs us vs'.
Proof. intros. rewrite inner_sym, inner_add_l by auto. rewrite (inner_sym xs vs), (inner_sym xs vs'). reflexivity. Qed.
Theorem inner_scale_r : forall xs k us vs, inner xs us (vscale k vs) == k * inner xs us vs.
Proof. intros. rewrite inner_sym, inner_scale_l, inner_sym. reflexivity. Qed.
Theorem inner_self_is_norm2sq : forall xs us, inner xs us us == norm2sq xs us.
Proof.
  unfold inner, norm2sq. induction xs as [|x xs IH]; [reflexivity|]. destruct xs as [|x' xs]; [reflexivity|].
  intros us. destruct us as [|u [|u' us]]; try reflexivity.
  rewrite sum_segs2_cons2, sum_segs_cons2, !radd_eq, !rmul_eq. rewrite (IH (u' :: us)), seg_prod_sq. reflexivity.
Qed.

(* ---------------- L1 *)
Global Instance seg_abs_comp : Proper (Qeq ==> Qeq ==> Qeq) seg_abs.
Proof.
  intros u u' Hu v v' Hv; unfold seg_abs. rewrite Hu, Hv. destruct (Qle_bool 0 (u' * v')); rewrite Hu, Hv; reflexivity.
Qed.
Lemma seg_abs_same : forall u v, 0 <= u * v -> seg_abs u v == (qabs u + qabs v) / 2.
Proof. intros u v H; unfold seg_abs. apply Qle_bool_iff in H. rewrite H. reflexivity. Qed.
Lemma seg_abs_mixed : forall u v, u * v < 0 -> seg_abs u v == (u * u + v * v) / (2 * (qabs u + qabs v)).
Proof.
  intros u v H; unfold seg_abs. destruct (Qle_bool 0 (u * v)) eqn:E; [|reflexivity].
  apply Qle_bool_iff in E. exfalso. lra.
Qed.
Lemma qabs_pos : forall u, 0 <= u -> qabs u == u.
Proof. intros; rewrite qabs_Qabs; apply Qabs_pos; auto. Qed.
Lemma qabs_neg : forall u, u <= 0 -> qabs u == - u.
Proof. intros; rewrite qabs_Qabs; apply Qabs_neg; auto. Qed.
Lemma qabs_opp : forall u, qabs (- u) == qabs u.
Proof. intros; rewrite !qabs_Qabs; apply Qabs_opp. Qed.
Lemma seg_abs_opp : forall u v, seg_abs (- u) (- v) == seg_abs u v.
Proof.
  intros u v; unfold seg_abs. setoid_replace (- u * - v) with (u * v) by ring.
  destruct (Qle_bool 0 (u * v)); rewrite !qabs_opp; [reflexivity|].
  setoid_replace (- u * - u) with (u * u) by ring. setoid_replace (- v * - v) with (v * v) by ring. reflexivity.
Qed.
Lemma sign_cases : forall u v, 0 <= u * v \/ (0 < u /\ v < 0) \/ (u < 0 /\ 0 < v).
Proof.
  intros u v. destruct (Qlt_le_dec (u * v) 0) as [H|H]; [right | left; auto].
  destruct (Qlt_le_dec 0 u) as [Hu|Hu].
  - left; split; auto. destruct (Qlt_le_dec v 0); auto. exfalso; nra.
  - right. destruct (Qlt_le_dec 0 v) as [Hv|Hv].
    + split; auto. destruct (Qlt_le_dec u 0); auto. exfalso; nra.
    + exfalso; nra.
Qed.
Lemma seg_abs_pos_neg : forall u v, 0 < u -> v < 0 -> seg_abs u v == (u * u + v * v) / (2 * (u - v)).
Proof.
  intros u v Hu Hv. rewrite seg_abs_mixed by nra.
  rewrite (qabs_pos u) by lra. rewrite (qabs_neg v) by lra. setoid_replace (u + - v) with (u - v) by ring. reflexivity.
Qed.
Lemma seg_abs_nonneg : forall u v, 0 <= seg_abs u v.
Proof.
  intros u v. pose proof (qabs_nonneg u) as Hu. pose proof (qabs_nonneg v) as Hv.
  destruct (Qlt_le_dec (u * v) 0) as [H|H].
  - rewrite seg_abs_mixed by auto.
    assert (Hpos : 0 < 2 * (qabs u + qabs v)).
    { destruct (Qlt_le_dec 0 u) as [H1|H1]; [rewrite (qabs_pos u) by lra; lra|].
      destruct (Qlt_le_dec u 0) as [H2|H2]; [rewrite (qabs_neg u) by lra; lra|]. exfalso. assert (E : u == 0) by lra. rewrite E in H. lra. }
    apply Qle_shift_div_l; auto. nra.
  - rewrite seg_abs_same by auto. apply Qle_shift_div_l; [reflexivity|]. lra.
Qed.

(* sigma * J_s, the integral of f over [0,s] minus the integral over [s,1], is a linear functional of the end values (u,v);
   the integral of |f| is the largest of them: this gives subadditivity without a case analysis on six signs *)
Definition Jf (s u v : Q) : Q := u * (2 * s - s * s - (1 # 2)) + v * (s * s - (1 # 2)).
Lemma Jf_add : forall s u v u' v', Jf s (u + u') (v + v') == Jf s u v + Jf s u' v'.
Proof. intros; unfold Jf; ring. Qed.
Lemma Jf_opp : forall s u v, Jf s (- u) (- v) == - Jf s u v.
Proof. intros; unfold Jf; ring. Qed.
Lemma coef_bound : forall al be u v, - (1 # 2) <= al -> al <= 1 # 2 -> - (1 # 2) <= be -> be <= 1 # 2 ->
  u * al + v * be <= (qabs u + qabs v) / 2.
Proof.
  intros al be u v H1 H2 H3 H4. apply Qle_shift_div_l; [reflexivity|].
  destruct (Qlt_le_dec u 0) as [Hu|Hu]; [rewrite (qabs_neg u) by lra | rewrite (qabs_pos u) by lra];
  (destruct (Qlt_le_dec v 0) as [Hv|Hv]; [rewrite (qabs_neg v) by lra | rewrite (qabs_pos v) by lra]); nra.
Qed.
Lemma Jf_bound_same : forall s u v, 0 <= s -> s <= 1 -> 0 <= u * v -> Jf s u v <= seg_abs u v /\ - Jf s u v <= seg_abs u v.
Proof.
  intros s u v H0 H1 H. rewrite seg_abs_same by auto. unfold Jf. split.
  - apply coef_bound; nra.
  - setoid_replace (- (u * (2 * s - s * s - (1 # 2)) + v * (s * s - (1 # 2))))
      with (u * (- (2 * s - s * s - (1 # 2))) + v * (- (s * s - (1 # 2)))) by ring.
    apply coef_bound; nra.
Qed.
Lemma Jf_bound_pos_neg : forall s u v, 0 <= s -> s <= 1 -> 0 < u -> v < 0 -> Jf s u v <= seg_abs u v /\ - Jf s u v <= seg_abs u v.
Proof.
  intros s u v H0 H1 Hu Hv. rewrite seg_abs_pos_neg by auto.
  assert (Hw : 0 < 2 * (u - v)) by lra.
  set (z := (u - v) * s - u).
  assert (Hz1 : - u <= z) by (unfold z; nra). assert (Hz2 : z <= - v) by (unfold z; nra).
  split; apply Qle_shift_div_l; auto.
  - apply Qle_minus_iff.
    setoid_replace (u * u + v * v + - (Jf s u v * (2 * (u - v)))) with (2 * (z * z)) by (unfold Jf, z; ring).
    nra.
  - apply Qle_minus_iff.
    setoid_replace (u * u + v * v + - (- Jf s u v * (2 * (u - v)))) with (2 * (u * u + v * v) - 2 * (z * z)) by (unfold Jf, z; ring).
    destruct (Qlt_le_dec z 0); nra.
Qed.
Lemma Jf_bound : forall s u v, 0 <= s -> s <= 1 -> Jf s u v <= seg_abs u v /\ - Jf s u v <= seg_abs u v.
Proof.
  intros s u v H0 H1. destruct (sign_cases u v) as [H|[[Hu Hv]|[Hu Hv]]].
  - apply Jf_bound_same; auto.
  - apply Jf_bound_pos_neg; auto.
  - destruct (Jf_bound_pos_neg s (- u) (- v) H0 H1 ltac:(lra) ltac:(lra)) as [A B].
    rewrite seg_abs_opp, Jf_opp in A, B. split; [lra | exact A].
Qed.
Lemma Jf_attain_pos_neg : forall u v, 0 < u -> v < 0 -> exists s, 0 <= s /\ s <= 1 /\ seg_abs u v == Jf s u v.
Proof.
  intros u v Hu Hv. exists (u / (u - v)). assert (Hw : 0 < u - v) by lra.
  split; [apply Qle_shift_div_l; auto; lra|]. split; [apply Qle_shift_div_r; auto; lra|].
  rewrite seg_abs_pos_neg by auto. unfold Jf. field. lra.
Qed.
Lemma Jf_attain : forall u v, exists s, 0 <= s /\ s <= 1 /\ (seg_abs u v == Jf s u v \/ seg_abs u v == - Jf s u v).
Proof.
  intros u v. destruct (sign_cases u v) as [H|[[Hu Hv]|[Hu Hv]]].
  - exists 1. split; [lra|]. split; [lra|]. rewrite seg_abs_same by auto. unfold Jf.
    destruct (Qlt_le_dec u 0) as [Hu|Hu]; destruct (Qlt_le_dec v 0) as [Hv|Hv].
    + right. rewrite (qabs_neg u), (qabs_neg v) by lra. field.
    + assert (v == 0) by nra. right. rewrite (qabs_neg u), (qabs_neg v) by lra. field.
    + assert (u == 0) by nra. right. rewrite (qabs_neg u), (qabs_neg v) by lra. field.
    + left. rewrite (qabs_pos u), (qabs_pos v) by lra. field.
  - destruct (Jf_attain_pos_neg u v Hu Hv) as [s [A [B C]]]. exists s; auto.
  - destruct (Jf_attain_pos_neg (- u) (- v) ltac:(lra) ltac:(lra)) as [s [A [B C]]]. exists s.
    rewrite seg_abs_opp, Jf_opp in C. auto.
Qed.
Theorem seg_abs_triangle : forall a b a' b', seg_abs (a + a') (b + b') <= seg_abs a b + seg_abs a' b'.
Proof.
  intros a b a' b'. destruct (Jf_attain (a + a') (b + b')) as [s [H0 [H1 [H|H]]]]; rewrite H, Jf_add;
  destruct (Jf_bound s a b H0 H1); destruct (Jf_bound s a' b' H0 H1); lra.
Qed.
Lemma seg_abs_scale_m1 : forall u v, seg_abs (-1 * u) (-1 * v) == 1 * seg_abs u v.
Proof. intros. setoid_replace (-1 * u) with (- u) by ring. setoid_replace (-1 * v) with (- v) by ring. rewrite seg_abs_opp; ring. Qed.
Lemma seg_abs_scale_0 : forall u v, seg_abs (0 * u) (0 * v) == 0 * seg_abs u v.
Proof. intros. setoid_replace (0 * u) with 0 by ring. setoid_replace (0 * v) with 0 by ring. unfold seg_abs; simpl. reflexivity. Qed.

Theorem dist1_sym : forall xs us vs, dist1 xs us vs == dist1 xs vs us.
Proof.
  intros; unfold dist1, norm1. rewrite (sum_segs_ext seg_abs _ xs _ _ (vsub_swap us vs)).
  rewrite (sum_segs_scale seg_abs (-1) 1) by (intros; apply seg_abs_scale_m1). ring.
Qed.
Theorem dist1_refl : forall xs us, dist1 xs us us == 0.
Proof.
  intros; unfold dist1, norm1. rewrite (sum_segs_ext seg_abs _ xs _ _ (vsub_self us)).
  rewrite (sum_segs_scale seg_abs 0 0) by (intros; apply seg_abs_scale_0). ring.
Qed.
Theorem dist1_nonneg : forall xs us vs, StronglySorted Qle xs -> 0 <= dist1 xs us vs.
Proof. intros; unfold dist1, norm1; apply sum_segs_nonneg; auto; apply seg_abs_nonneg. Qed.
Theorem dist1_triangle : forall xs us vs ws, StronglySorted Qle xs -> length us = length vs -> length vs = length ws ->
  dist1 xs us ws <= dist1 xs us vs + dist1 xs vs ws.
Proof.
  intros xs us vs ws Hs H1 H2; unfold dist1, norm1.
  rewrite (sum_segs_ext seg_abs _ xs _ _ (vsub_as_vadd us vs ws H1 H2)).
  apply sum_segs_subadd; auto; [apply seg_abs_triangle|]. rewrite !vsub_length; auto; lia.
Qed.

(* ---------------- Cauchy-Schwarz and the triangle inequality of the L2 norm (without square roots) *)
Lemma vadd_length : forall us vs, length us = length vs -> length (vadd us vs) = length us.
Proof. intros; unfold vadd; rewrite map_length, combine_length; lia. Qed.
Lemma vscale_length : forall c us, length (vscale c us) = length us.
Proof. intros; unfold vscale; apply map_length. Qed.
Lemma norm2sq_nonneg : forall xs us, StronglySorted Qle xs -> 0 <= norm2sq xs us.
Proof. intros; unfold norm2sq; apply sum_segs_nonneg; auto; apply seg_sq_nonneg. Qed.
Lemma norm2sq_expand : forall xs us vs c, length us = length vs ->
  norm2sq xs (vadd us (vscale c vs)) == norm2sq xs us + 2 * c * inner xs us vs + c * c * norm2sq xs vs.
Proof.
  intros xs us vs c Hlen. rewrite <- !inner_self_is_norm2sq.
  assert (H1 : length us = length (vscale c vs)) by (rewrite vscale_length; auto).
  rewrite inner_add_l by auto. rewrite !inner_add_r by auto. rewrite !inner_scale_l, !inner_scale_r.
  rewrite (inner_sym xs vs us). ring.
Qed.
Theorem cauchy_schwarz : forall xs us vs, StronglySorted Qle xs -> length us = length vs ->
  inner xs us vs * inner xs us vs <= norm2sq xs us * norm2sq xs vs.
Proof.
  intros xs us vs Hs Hlen.
  set (A := norm2sq xs us). set (B := norm2sq xs vs). set (I := inner xs us vs).
  assert (HA : 0 <= A) by (apply norm2sq_nonneg; auto). assert (HB : 0 <= B) by (apply norm2sq_nonneg; auto).
  assert (Hq : forall c, 0 <= A + 2 * c * I + c * c * B).
  { intros c. unfold A, B, I. rewrite <- norm2sq_expand by auto. apply norm2sq_nonneg; auto. }
  destruct (Qlt_le_dec 0 B) as [HB'|HB'].
  - specialize (Hq (- I / B)).
    assert (E : A + 2 * (- I / B) * I + - I / B * (- I / B) * B == (A * B - I * I) / B) by (field; lra).
    rewrite E in Hq. apply Qle_minus_iff.
    assert (H0 : 0 <= (A * B - I * I) / B * B) by (apply Qmult_le_0_compat; lra).
    assert (E2 : (A * B - I * I) / B * B == A * B - I * I) by (field; lra). rewrite E2 in H0. lra.
  - assert (EB : B == 0) by lra.
    destruct (Qeq_dec I 0) as [EI|NI]; [rewrite EI, EB; lra|].
    exfalso. specialize (Hq (- (A + 1) / (2 * I))).
    assert (E : A + 2 * (- (A + 1) / (2 * I)) * I + - (A + 1) / (2 * I) * (- (A + 1) / (2 * I)) * B
                == -1 + (- (A + 1) / (2 * I)) * (- (A + 1) / (2 * I)) * B) by (field; auto).
    rewrite E, EB in Hq. lra.
Qed.
Theorem norm2_triangle : forall xs us vs na nb, StronglySorted Qle xs -> length us = length vs ->
  0 <= na -> 0 <= nb -> norm2sq xs us <= na * na -> norm2sq xs vs <= nb * nb ->
  norm2sq xs (vadd us vs) <= (na + nb) * (na + nb).
Proof.
  intros xs us vs na nb Hs Hlen Ha Hb HA HB.
  assert (E : Forall2 Qeq (vadd us vs) (vadd us (vscale 1 vs))).
  { clear - Hlen. revert vs Hlen. induction us as [|u us IH]; intros [|v vs] Hlen; try discriminate; [constructor|].
    change (vscale 1 (v :: vs)) with (1 * v :: vscale 1 vs). rewrite !vadd_cons. constructor; [ring | apply IH; simpl in *; lia]. }
  unfold norm2sq at 1. rewrite (sum_segs_ext seg_sq _ xs _ _ E). fold (norm2sq xs (vadd us (vscale 1 vs))).
  rewrite norm2sq_expand by auto.
  pose proof (cauchy_schwarz xs us vs Hs Hlen) as CS.
  pose proof (norm2sq_nonneg xs us Hs) as PA. pose proof (norm2sq_nonneg xs vs Hs) as PB.
  set (A := norm2sq xs us) in *. set (B := norm2sq xs vs) in *. set (I := inner xs us vs) in *.
  assert (HI : I <= na * nb).
  { destruct (Qlt_le_dec I 0) as [Hn|Hp]; [nra|].
    destruct (Qlt_le_dec (na * nb) I) as [Hgt|]; auto. exfalso.
    assert (H1 : A * B <= (na * na) * B) by nra.
    assert (H2 : (na * na) * B <= (na * na) * (nb * nb)) by nra.
    assert (H3 : I * I <= (na * nb) * (na * nb)) by (setoid_replace ((na * nb) * (na * nb)) with ((na * na) * (nb * nb)) by ring; lra).
    assert (H4 : 0 <= na * nb) by nra.
    assert (H5 : 0 < (I - na * nb) * (I + na * nb)) by (apply Qmult_lt_0_compat; lra).
    lra. }
  lra.
Qed.

(* ================================================================ the grid evaluation as it stood *)
Lemma grid_value_unrepaired_refuted :
  exists D gmin gmax npts level x,
    aligned D gmin gmax npts = true /\
    grid_value false (grid_setup D gmin gmax npts 0) gmin gmax level x = Some 0 /\ 0 < lambda D level x.
Proof. exists [(0, 4 # 1)], 0, (8 # 1), 8%nat, 0%nat, (2 # 1). vm_compute. repeat split; reflexivity. Qed.
Lemma grid_value_unrepaired_reads_out_of_bounds :
  exists D gmin gmax npts level x,
    aligned D gmin gmax npts = true /\
    grid_value false (grid_setup D gmin gmax npts 0) gmin gmax level x = None.
Proof. exists [(2 # 1, 4 # 1)], 0, (4 # 1), 4%nat, 1%nat, 0. vm_compute. split; reflexivity. Qed.

(* ================================================================ the mathematics of one sweep step *)
Ltac qcases :=
  repeat match goal with
  | |- context [Qle_bool ?a ?b] =>
      let E := fresh "E" in destruct (Qle_bool a b) eqn:E; [apply Qle_bool_iff in E | apply Qle_bool_false in E]
  | H : context [if Qle_bool ?a ?b then _ else _] |- _ =>
      let E := fresh "E" in destruct (Qle_bool a b) eqn:E; [apply Qle_bool_iff in E | apply Qle_bool_false in E]
  end.
Ltac tent_auto := unfold tent, qmax, qmin; simpl fst; simpl snd; qcases; try lra; try reflexivity.

(* a nested interval has the smaller tent *)
Theorem tent_nested_le : forall b d b' d' t, b <= b' -> d' <= d -> tent (b', d') t <= tent (b, d) t.
Proof. intros b d b' d' t Hb Hd. tent_auto. Qed.
(* crossing intervals b <= b', d <= d': the pointwise minimum of the two tents is the tent of (b', d) — the "point" that the
   sweep hands to the next level *)
Theorem tent_cross_min : forall b d b' d' t, b <= b' -> d <= d' -> qmin (tent (b, d) t) (tent (b', d') t) == tent (b', d) t.
Proof. intros b d b' d' t Hb Hd. tent_auto. Qed.
(* disjoint (touching) intervals: the minimum vanishes, nothing is handed on *)
Theorem tent_disjoint_min : forall b d b' d' t, b <= d -> b' <= d' -> d <= b' -> qmin (tent (b, d) t) (tent (b', d') t) == 0.
Proof. intros b d b' d' t H0 H1 H. tent_auto. Qed.
(* the same for the running envelope env of the tents swept so far (all deaths <= dL, env at least the tent of the last
   peak (bL,dL)) against the next characteristic point (b',d') with bL <= b', dL <= d' *)
Theorem sweep_step_min : forall env bL dL b' d' t,
  tent (bL, dL) t <= env -> env <= qmax 0 (dL - t) -> bL <= b' -> dL <= d' ->
  qmin env (tent (b', d') t) == tent (b', dL) t.
Proof.
  intros env bL dL b' d' t H1 H2 Hb Hd. revert H1 H2. unfold tent, qmax, qmin; simpl fst; simpl snd.
  intros H1 H2. qcases; try lra.
Qed.
(* extracting the maximum: max and min of two values carry the same pair of values *)
Theorem max_min_pair : forall x y, (qmax x y == x /\ qmin x y == y) \/ (qmax x y == y /\ qmin x y == x).
Proof. intros x y. unfold qmax, qmin. destruct (Qle_bool x y); [right | left]; split; reflexivity. Qed.
(* ================================================================ evaluation by bisection = PL interpolation *)
Lemma function_value_line_val : forall p q x, ~ fst q - fst p == 0 -> function_value p q x == line_val p q x.
Proof.
  intros p q x H. unfold function_value, line_val, radd, rsub, rmul, rdiv. repeat rewrite Qred_correct. field. exact H.
Qed.

Lemma xsorted_nth_lt : forall l i j, xsorted l -> (i < j)%nat -> (j < length l)%nat -> fst (nthp l i) < fst (nthp l j).
Proof.
  unfold xsorted, nthp. induction l as [|p l IH]; intros i j Hs Hij Hj; [simpl in Hj; lia|].
  simpl in Hs. inversion Hs as [|? ? Hs' Hall]; subst.
  destruct j as [|j]; [lia|]. destruct i as [|i].
  - simpl. rewrite Forall_forall in Hall. apply Hall. apply in_map. apply nth_In. simpl in Hj; lia.
  - simpl. apply IH; auto; simpl in Hj; lia.
Qed.

Global Instance interp_from_comp : forall p l, Proper (Qeq ==> Qeq) (interp_from p l).
Proof.
  intros p l; revert p; induction l as [|q l IH]; intros p t t' Ht; simpl; [reflexivity|].
  rewrite Ht. destruct (Qle_bool t' (fst q)); [unfold line_val; rewrite Ht; reflexivity | apply IH; auto].
Qed.
Global Instance interp_comp : forall l, Proper (Qeq ==> Qeq) (interp l).
Proof.
  intros [|p l] t t' Ht; simpl; [reflexivity|]. rewrite Ht. destruct (Qle_bool t' (fst p)); [reflexivity | apply interp_from_comp; auto].
Qed.

(* on the i-th segment the PL function is the line through the two breakpoints *)
Lemma interp_from_segment : forall l p i x, xsorted (p :: l) -> (i + 1 < length (p :: l))%nat ->
  fst (nthp (p :: l) i) < x -> x <= fst (nthp (p :: l) (i + 1)) ->
  interp_from p l x == line_val (nthp (p :: l) i) (nthp (p :: l) (i + 1)) x.
Proof.
  induction l as [|q l IH]; intros p i x Hs Hi H1 H2; [simpl in Hi; lia|].
  simpl. destruct i as [|i].
  - unfold nthp in *; simpl in *. apply Qle_bool_iff in H2. rewrite H2. reflexivity.
  - assert (Hq : fst q < x).
    { eapply Qle_lt_trans; [|exact H1]. destruct i as [|i]; [unfold nthp; simpl; apply Qle_refl|].
      apply Qlt_le_weak. change (nthp (p :: q :: l) (S (S i))) with (nthp (q :: l) (S i)).
      change q with (nthp (q :: l) 0) at 1. apply xsorted_nth_lt; [|lia|simpl in *; lia].
      unfold xsorted in *; simpl in *; inversion Hs; auto. }
    assert (E : Qle_bool x (fst q) = false).
    { destruct (Qle_bool x (fst q)) eqn:E; auto. apply Qle_bool_iff in E. lra. }
    rewrite E. change (nthp (p :: q :: l) (S i)) with (nthp (q :: l) i).
    change (nthp (p :: q :: l) (S i + 1)) with (nthp (q :: l) (i + 1)).
    apply IH; auto.
    + unfold xsorted in *; simpl in *; inversion Hs; auto.
    + simpl in *; lia.
Qed.
Lemma interp_segment : forall l i x, xsorted l -> (i + 1 < length l)%nat ->
  fst (nthp l i) < x -> x <= fst (nthp l (i + 1)) -> interp l x == line_val (nthp l i) (nthp l (i + 1)) x.
Proof.
  intros [|p l] i x Hs Hi H1 H2; [simpl in Hi; lia|]. simpl.
  assert (Hp : fst p < x).
  { eapply Qle_lt_trans; [|exact H1]. destruct i as [|i]; [unfold nthp; simpl; apply Qle_refl|].
    apply Qlt_le_weak. change p with (nthp (p :: l) 0) at 1. apply xsorted_nth_lt; auto; lia. }
  assert (E : Qle_bool x (fst p) = false).
  { destruct (Qle_bool x (fst p)) eqn:E; auto. apply Qle_bool_iff in E. lra. }
  rewrite E. apply interp_from_segment; auto.
Qed.

Lemma div2_between : forall a b, (a + 1 < b)%nat -> (a < Nat.div2 (b + a) < b)%nat.
Proof.
  intros a b H. pose proof (Nat.div2_odd (b + a)) as E. destruct (Nat.odd (b + a)); simpl in E; lia.
Qed.

Lemma bisect_correct : forall fuel l cb ce x, xsorted l -> (cb < ce)%nat -> (ce < length l)%nat -> (ce - cb <= fuel)%nat ->
  fst (nthp l cb) < x -> x < fst (nthp l ce) ->
  exists v, bisect (S fuel) l cb ce x = Some v /\ v == interp l x.
Proof.
  induction fuel as [|fuel IH]; intros l cb ce x Hs Hlt Hce Hf H1 H2.
  - assert (ce = cb + 1)%nat by lia. subst ce. simpl. rewrite Nat.eqb_refl.
    eexists; split; [reflexivity|]. rewrite function_value_line_val.
    + symmetry; apply interp_segment; auto. lra.
    + pose proof (xsorted_nth_lt l cb (cb + 1) Hs ltac:(lia) Hce). lra.
  - cbn [bisect]. destruct (Nat.eqb (cb + 1) ce) eqn:E.
    + apply Nat.eqb_eq in E. subst ce. eexists; split; [reflexivity|]. rewrite function_value_line_val.
      * symmetry; apply interp_segment; auto. lra.
      * pose proof (xsorted_nth_lt l cb (cb + 1) Hs ltac:(lia) Hce). lra.
    + apply Nat.eqb_neq in E. assert (Hd := div2_between cb ce ltac:(lia)).
      set (nc := Nat.div2 (ce + cb)) in *.
      destruct (Qle_bool (fst (nthp l nc)) x) eqn:E1.
      * apply Qle_bool_iff in E1. destruct (Qeq_bool (fst (nthp l nc)) x) eqn:E2.
        -- apply Qeq_bool_iff in E2. eexists; split; [reflexivity|]. rewrite <- E2.
           symmetry. apply interp_at_breakpoint; auto. apply nth_In. lia.
        -- assert (Hne : ~ fst (nthp l nc) == x) by (intro Hq; apply Qeq_bool_iff in Hq; congruence).
           apply IH; auto; try lia. destruct (Qlt_le_dec (fst (nthp l nc)) x); auto. exfalso; apply Hne; lra.
      * apply Qle_bool_false in E1. apply IH; auto; lia.
Qed.

(* compute_value_at_a_given_point on one level whose two outer points on each side have ordinate 0 (the sentinels and the
   first/last finite breakpoint) returns the PL interpolation of the stored breakpoints, for every x *)
Theorem value_at_is_interp : forall l x, xsorted l -> (3 <= length l)%nat ->
  snd (nthp l 0) == 0 -> snd (nthp l 1) == 0 -> snd (nthp l (length l - 2)) == 0 -> snd (nthp l (length l - 1)) == 0 ->
  fst (nthp l 0) < x -> x < fst (nthp l (length l - 1)) ->
  exists v, value_at [l] 0 x = Some v /\ v == interp l x.
Proof.
  intros l x Hs Hlen Y0 Y1 Y2 Y3 X0 X1. unfold value_at. simpl length. simpl Nat.leb. cbn [nth].
  destruct (Qle_bool x (fst (nthp l 1))) eqn:E1.
  - apply Qle_bool_iff in E1. eexists; split; [reflexivity|].
    rewrite (interp_segment l 0 x Hs ltac:(simpl; lia) X0 E1). unfold line_val. simpl Nat.add. rewrite Y0, Y1. ring.
  - apply Qle_bool_false in E1. destruct (Qle_bool (fst (nthp l (length l - 2))) x) eqn:E2.
    + apply Qle_bool_iff in E2. eexists; split; [reflexivity|].
      destruct (Qlt_le_dec (fst (nthp l (length l - 2))) x) as [Hlt|Hle].
      * rewrite (interp_segment l (length l - 2) x Hs ltac:(lia) Hlt).
        -- unfold line_val. replace (length l - 2 + 1)%nat with (length l - 1)%nat by lia. rewrite Y2, Y3. ring.
        -- replace (length l - 2 + 1)%nat with (length l - 1)%nat by lia. lra.
      * assert (Ex : x == fst (nthp l (length l - 2))) by lra. rewrite Ex.
        rewrite interp_at_breakpoint; auto; [rewrite Y2; reflexivity | apply nth_In; lia].
    + apply Qle_bool_false in E2.
      assert (Hlt : (1 < length l - 2)%nat).
      { destruct (Nat.eq_dec (length l - 2) 1) as [e|]; [rewrite e in E2; lra|].
        destruct (Nat.eq_dec (length l - 2) 0) as [e|]; [|lia]. exfalso.
        assert (length l = 2 \/ length l = 1 \/ length l = 0)%nat by lia. lia. }
      apply bisect_correct; auto; lia.
Qed.
(* ================================================================ the repaired grid evaluation at a grid point *)
Lemma Qlt_bool_true : forall a b, a < b -> Qlt_bool a b = true.
Proof. intros a b H; unfold Qlt_bool. destruct (Qle_bool b a) eqn:E; auto. apply Qle_bool_iff in E. lra. Qed.
Lemma Qlt_bool_false : forall a b, b <= a -> Qlt_bool a b = false.
Proof. intros a b H; unfold Qlt_bool. apply Qle_bool_iff in H. rewrite H. reflexivity. Qed.
Lemma almost_equal_refl : forall a b, a == b -> almost_equal a b = true.
Proof.
  intros a b H; unfold almost_equal. apply Qlt_bool_true. rewrite qabs_Qabs.
  setoid_replace (a - b) with 0 by lra. reflexivity.
Qed.

Theorem grid_value_at_grid_point : forall vals gmin gmax level (i : nat),
  gmin < gmax -> (2 <= length vals)%nat -> (i <= length vals - 1)%nat ->
  grid_value true vals gmin gmax level (gmin + inject_Z (Z.of_nat i) * ((gmax - gmin) / inject_Z (Z.of_nat (length vals - 1))))
  = Some (gval0 vals i level).
Proof.
  intros vals gmin gmax level i Hg Hlen Hi. unfold grid_value.
  set (n := inject_Z (Z.of_nat (length vals - 1))).
  assert (Hn : 1 <= n).
  { unfold n. change 1 with (inject_Z 1). rewrite <- Zle_Qle. lia. }
  assert (Hi' : inject_Z (Z.of_nat i) <= n) by (unfold n; rewrite <- Zle_Qle; lia).
  assert (Hi0 : 0 <= inject_Z (Z.of_nat i)) by (change 0 with (inject_Z 0); rewrite <- Zle_Qle; lia).
  set (dx := (gmax - gmin) / n). set (x := gmin + inject_Z (Z.of_nat i) * dx).
  assert (Hdx : 0 < dx) by (unfold dx; apply Qlt_shift_div_l; lra).
  assert (Hx0 : gmin <= x) by (unfold x; nra).
  assert (Hx1 : x <= gmax).
  { unfold x. assert (E : gmax == gmin + n * dx) by (unfold dx; field; lra). rewrite E. nra. }
  rewrite (Qlt_bool_false x gmin Hx0), (Qlt_bool_false gmax x Hx1). simpl orb. cbv iota.
  assert (Hpos : grid_index x gmin (rdiv (gmax - gmin) n) = i).
  { unfold grid_index. rewrite rdiv_eq. fold dx.
    assert (E : (x - gmin) / dx == inject_Z (Z.of_nat i)) by (unfold x; field; lra).
    rewrite E. rewrite Qfloor_Z. apply Nat2Z.id. }
  fold n. rewrite Hpos.
  rewrite almost_equal_refl; [reflexivity|].
  rewrite radd_eq, rmul_eq, rdiv_eq. fold dx. unfold x. ring.
Qed.
(* ================================================================ abs() is the pointwise absolute value *)
Lemma Qlt_bool_iff' : forall a b, Qlt_bool a b = true <-> a < b.
Proof.
  intros a b; unfold Qlt_bool; split; intro H.
  - destruct (Qle_bool b a) eqn:E; [discriminate|]. apply Qle_bool_false in E; auto.
  - destruct (Qle_bool b a) eqn:E; auto. apply Qle_bool_iff in E. lra.
Qed.
Lemma qabs_case : forall a, (0 <= a /\ qabs a == a) \/ (a < 0 /\ qabs a == - a).
Proof.
  intros a. destruct (Qlt_le_dec a 0); [right | left]; split; auto; [apply qabs_neg; lra | apply qabs_pos; auto].
Qed.
(* same sign at both ends: |linear| is the linear interpolation of the absolute values *)
Lemma convex_nonneg : forall a b s, 0 <= a -> 0 <= b -> 0 <= s -> s <= 1 -> 0 <= a + (b - a) * s.
Proof.
  intros a b s Ha Hb H0 H1. assert (0 <= a * (1 - s)) by (apply Qmult_le_0_compat; lra).
  assert (0 <= b * s) by (apply Qmult_le_0_compat; lra). lra.
Qed.
Lemma abs_line_same : forall yp yc s, 0 <= yp * yc -> 0 <= s -> s <= 1 ->
  qabs yp + (qabs yc - qabs yp) * s == qabs (yp + (yc - yp) * s).
Proof.
  intros yp yc s H H0 H1.
  destruct (qabs_case yp) as [[Sp Ep]|[Sp Ep]]; destruct (qabs_case yc) as [[Sc Ec]|[Sc Ec]]; rewrite Ep, Ec.
  - rewrite qabs_pos by (apply convex_nonneg; auto). ring.
  - assert (E : yp == 0) by nra. rewrite E.
    assert (Hn : 0 + (yc - 0) * s <= 0) by (assert (0 <= (- yc) * s) by (apply Qmult_le_0_compat; lra); lra).
    rewrite (qabs_neg _ Hn). ring.
  - assert (E : yc == 0) by nra. rewrite E.
    assert (Hn : yp + (0 - yp) * s <= 0) by (assert (0 <= (- yp) * (1 - s)) by (apply Qmult_le_0_compat; lra); lra).
    rewrite (qabs_neg _ Hn). ring.
  - assert (Hn : yp + (yc - yp) * s <= 0).
    { pose proof (convex_nonneg (- yp) (- yc) s ltac:(lra) ltac:(lra) H0 H1). lra. }
    rewrite (qabs_neg _ Hn). ring.
Qed.
Lemma find_zero_eq : forall p c, ~ fst c - fst p == 0 -> ~ snd c - snd p == 0 ->
  find_zero p c == fst p - snd p * (fst c - fst p) / (snd c - snd p).
Proof.
  intros p c Hx Hy. unfold find_zero.
  destruct (Qeq_bool (fst p) (fst c)) eqn:E; [apply Qeq_bool_iff in E; exfalso; apply Hx; lra|].
  unfold rdiv, rsub, rmul. repeat rewrite Qred_correct. field. split; auto.
Qed.

Ltac side_cond y w :=
  match goal with
  | Esign : _ * _ < 0, h := _ |- _ =>
    let E0 := fresh "E0" in let Hm := fresh "Hm" in
    intro E0; unfold h in *; assert (Hm : y * w == 0) by lra;
    apply Qmult_integral in Hm; destruct Hm as [Hm|Hm]; [rewrite Hm in Esign; lra | lra]
  end.
Lemma abs_level_from_correct : forall tl prev t, xsorted (prev :: tl) -> fst prev <= t ->
  interp_from (fst prev, qabs (snd prev)) (abs_level_from prev tl) t == qabs (interp_from prev tl t).
Proof.
  induction tl as [|c tl IH]; intros prev t Hs Ht; [reflexivity|].
  assert (Hs' : xsorted (c :: tl)) by (unfold xsorted in *; simpl in *; inversion Hs; auto).
  assert (Hx : fst prev < fst c).
  { unfold xsorted in Hs; simpl in Hs. inversion Hs as [|? ? _ Hall]; subst. inversion Hall; auto. }
  cbn [abs_level_from interp_from].
  set (h := fst c - fst prev). assert (Hh : 0 < h) by (unfold h; lra).
  destruct (Qlt_bool (snd prev * snd c) 0) eqn:Esign.
  - (* sign change: the zero crossing is inserted *)
    apply Qlt_bool_iff' in Esign.
    assert (Hy : ~ snd c - snd prev == 0) by (intro E0; assert (snd c == snd prev) by lra; nra).
    pose proof (find_zero_eq prev c ltac:(fold h; lra) Hy) as Hz. fold h in Hz.
    set (z := find_zero prev c) in *.
    assert (Hz1 : fst prev < z /\ z < fst c).
    { rewrite Hz. assert (0 < - snd prev / (snd c - snd prev) /\ - snd prev / (snd c - snd prev) < 1).
      { destruct (Qlt_le_dec 0 (snd prev)) as [Sp|Sp].
        - assert (snd c < 0) by nra. split.
          + setoid_replace (- snd prev / (snd c - snd prev)) with (snd prev / (snd prev - snd c)) by (field; lra).
            apply Qlt_shift_div_l; lra.
          + setoid_replace (- snd prev / (snd c - snd prev)) with (snd prev / (snd prev - snd c)) by (field; lra).
            apply Qlt_shift_div_r; lra.
        - assert (snd prev < 0) by nra. assert (0 < snd c) by nra. split.
          + apply Qlt_shift_div_l; lra.
          + apply Qlt_shift_div_r; lra. }
      setoid_replace (fst prev - snd prev * h / (snd c - snd prev)) with (fst prev + h * (- snd prev / (snd c - snd prev))) by (field; lra).
      unfold h in *. nra. }
    simpl app. cbn [interp_from]. simpl fst. simpl snd.
    destruct (Qle_bool t (fst c)) eqn:Etc.
    + pose proof Etc as Etcb. apply Qle_bool_iff in Etc. destruct (Qle_bool t z) eqn:Etz.
      * (* left of the zero *)
        apply Qle_bool_iff in Etz. unfold line_val; simpl fst; simpl snd.
        assert (Hzz : ~ z - fst prev == 0) by lra.
        destruct (qabs_case (snd prev)) as [[Sp Ep]|[Sp Ep]]; rewrite Ep.
        -- assert (Sc : snd c < 0) by nra.
           assert (Hpos : 0 <= snd prev + (snd c - snd prev) * ((t - fst prev) / h)).
           { assert (E : snd prev + (snd c - snd prev) * ((t - fst prev) / h) == (snd prev - snd c) * ((z - t) / h)).
             { rewrite Hz. field. split; lra. }
             rewrite E. apply Qmult_le_0_compat; [lra|]. apply Qle_shift_div_l; lra. }
           fold h. rewrite (qabs_pos _ Hpos). rewrite Hz. field. repeat split; try lra. side_cond (snd prev) (fst c - fst prev).
        -- assert (Sc : 0 < snd c) by nra.
           assert (Hneg : snd prev + (snd c - snd prev) * ((t - fst prev) / h) <= 0).
           { assert (E : snd prev + (snd c - snd prev) * ((t - fst prev) / h) == - ((snd c - snd prev) * ((z - t) / h))).
             { rewrite Hz. field. split; lra. }
             rewrite E. assert (0 <= (snd c - snd prev) * ((z - t) / h)); [|lra].
             apply Qmult_le_0_compat; [lra|]. apply Qle_shift_div_l; lra. }
           fold h. rewrite (qabs_neg _ Hneg). rewrite Hz. field. repeat split; try lra. side_cond (snd prev) (fst c - fst prev).
      * (* between the zero and the right end *)
        apply Qle_bool_false in Etz. unfold line_val; simpl fst; simpl snd.
        assert (Hzz : ~ fst c - z == 0) by lra.
        destruct (qabs_case (snd c)) as [[Sc Ec]|[Sc Ec]]; rewrite Ec.
        -- assert (Sp : snd prev < 0) by nra.
           assert (Hpos : 0 <= snd prev + (snd c - snd prev) * ((t - fst prev) / h)).
           { assert (E : snd prev + (snd c - snd prev) * ((t - fst prev) / h) == (snd c - snd prev) * ((t - z) / h)).
             { rewrite Hz. field. split; lra. }
             rewrite E. apply Qmult_le_0_compat; [lra|]. apply Qle_shift_div_l; lra. }
           fold h. rewrite (qabs_pos _ Hpos). rewrite Hz. unfold h. field. repeat split; try lra. side_cond (snd c) (fst c - fst prev).
        -- assert (Sp : 0 < snd prev) by nra.
           assert (Hneg : snd prev + (snd c - snd prev) * ((t - fst prev) / h) <= 0).
           { assert (E : snd prev + (snd c - snd prev) * ((t - fst prev) / h) == - ((snd prev - snd c) * ((t - z) / h))).
             { rewrite Hz. field. split; lra. }
             rewrite E. assert (0 <= (snd prev - snd c) * ((t - z) / h)); [|lra].
             apply Qmult_le_0_compat; [lra|]. apply Qle_shift_div_l; lra. }
           fold h. rewrite (qabs_neg _ Hneg). rewrite Hz. unfold h. field. repeat split; try lra. side_cond (snd c) (fst c - fst prev).
    + apply Qle_bool_false in Etc.
      assert (Etz : Qle_bool t z = false).
      { destruct (Qle_bool t z) eqn:E; auto. apply Qle_bool_iff in E. lra. }
      rewrite Etz. apply (IH c t Hs'). lra.
  - (* no sign change *)
    assert (Hsame : 0 <= snd prev * snd c).
    { destruct (Qlt_le_dec (snd prev * snd c) 0) as [H|H]; auto. apply Qlt_bool_iff' in H. congruence. }
    simpl app. cbn [interp_from]. simpl fst.
    destruct (Qle_bool t (fst c)) eqn:Etc.
    + apply Qle_bool_iff in Etc. unfold line_val; simpl fst; simpl snd. fold h.
      apply abs_line_same; auto.
      * apply Qle_shift_div_l; lra.
      * apply Qle_shift_div_r; unfold h in *; lra.
    + apply Qle_bool_false in Etc. apply (IH c t Hs'). lra.
Qed.

(* abs() of one level whose first point has ordinate 0 is the pointwise absolute value, at every t *)
Theorem abs_level_pointwise : forall l t, xsorted l ->
  snd (nthp l 0) == 0 -> fst (nthp l 0) = - INF -> interp (abs_level l) t == qabs (interp l t).
Proof.
  intros [|p tl] t Hs Hy Hx; [exfalso; vm_compute in Hx; discriminate Hx|].
  unfold nthp in Hy, Hx; simpl in Hy, Hx. cbn [abs_level interp]. simpl fst. simpl snd. rewrite Hx.
  destruct (Qle_bool t (- INF)) eqn:E.
  - rewrite Hy. reflexivity.
  - apply Qle_bool_false in E.
    assert (Ep : Forall2 same_pts ((- INF, 0) :: abs_level_from p tl) ((fst p, qabs (snd p)) :: abs_level_from p tl)).
    { constructor; [split; simpl; [auto | rewrite Hy; reflexivity]|].
      clear. induction (abs_level_from p tl); constructor; auto. split; reflexivity. }
    inversion Ep as [|a b la lb Hab Hrest]; subst.
    rewrite (interp_from_ext _ _ _ _ t Hab Hrest).
    apply abs_level_from_correct; auto. rewrite Hx. lra.
Qed.
(* ================================================================ the characteristic-point sweep: residual lists *)
Definition Bq (c : pt) : Q := minus_length c.
Definition Dq (c : pt) : Q := birth_plus_deaths c.
Definition Tq (t : Q) (c : pt) : Q := tentr (Bq c, Dq c) t.
Definition Vq (t : Q) (l : list pt) : list Q := map (Tq t) l.
Definition envq (t : Q) (l : list pt) : Q := fold_right qmax 0 (Vq t l).
Definition lexle (a b : pt) : Prop := Bq a < Bq b \/ (Bq a == Bq b /\ Dq b <= Dq a).
Definition lexsorted (l : list pt) : Prop := StronglySorted lexle l.
Definition PermZ (l l' : list Q) : Prop := exists n n', Permutation (repeat 0 n ++ l) (repeat 0 n' ++ l').

Lemma lexle_trans : forall a b c, lexle a b -> lexle b c -> lexle a c.
Proof. unfold lexle; intros a b c [H|[H1 H2]] [H'|[H1' H2']]; [left; lra | left; lra | left; lra | right; split; lra]. Qed.
Lemma lexle_B : forall a b, lexle a b -> Bq a <= Bq b.
Proof. unfold lexle; intros a b [H|[H _]]; lra. Qed.

Lemma PermZ_refl : forall l, PermZ l l.
Proof. intros l; exists O, O; apply Permutation_refl. Qed.
Lemma PermZ_trans : forall a b c, PermZ a b -> PermZ b c -> PermZ a c.
Proof.
  intros a b c [n [n' H]] [m [m' H']]. exists (m + n)%nat, (n' + m')%nat.
  rewrite !repeat_app, <- !app_assoc.
  eapply perm_trans; [apply Permutation_app_head; exact H|].
  eapply perm_trans; [apply Permutation_app_swap_app|].
  apply Permutation_app_head; exact H'.
Qed.
Lemma PermZ_perm : forall a b, Permutation a b -> PermZ a b.
Proof. intros a b H; exists O, O; exact H. Qed.
Lemma PermZ_cons : forall x a b, PermZ a b -> PermZ (x :: a) (x :: b).
Proof.
  intros x a b [n [n' H]]; exists n, n'.
  eapply perm_trans; [apply Permutation_sym; apply Permutation_middle|].
  eapply perm_trans; [apply perm_skip; exact H|]. apply Permutation_middle.
Qed.
Lemma PermZ_app_tail : forall a b x, PermZ a b -> PermZ (a ++ x) (b ++ x).
Proof. intros a b x [n [n' H]]; exists n, n'. rewrite !app_assoc. apply Permutation_app_tail; exact H. Qed.
Lemma PermZ_zero : forall a, PermZ (0 :: a) a.
Proof. intros a; exists O, 1%nat; apply Permutation_refl. Qed.

Lemma Tq_reduced : forall t c, reduced (Tq t c).
Proof. intros; exists (tent (Bq c, Dq c) t); reflexivity. Qed.
Lemma Tq_nonneg : forall t c, 0 <= Tq t c.
Proof. intros; apply tentr_nonneg. Qed.
Lemma zero_reduced : reduced 0.
Proof. exists 0; reflexivity. Qed.

Lemma nth_app_zeros : forall (s : list Q) n k, nth k (s ++ repeat 0 n) 0 = nth k s 0.
Proof.
  intros s n k. destruct (Nat.lt_ge_cases k (length s)) as [H|H].
  - apply app_nth1; auto.
  - rewrite app_nth2 by auto. rewrite (nth_overflow s) by auto. apply nth_repeat.
Qed.

Lemma sorted_app_zeros : forall s n, StronglySorted geq s -> (forall x, In x s -> 0 <= x) -> StronglySorted geq (s ++ repeat 0 n).
Proof.
  intros s n H; induction H as [|a s Hs IH Hall]; intros Hpos; simpl.
  - induction n; simpl; constructor; auto. apply Forall_forall; intros x Hx; apply repeat_spec in Hx; subst; unfold geq; apply Qle_refl.
  - constructor; [apply IH; intros; apply Hpos; right; auto|].
    apply Forall_app; split; auto. apply Forall_forall; intros x Hx; apply repeat_spec in Hx; subst. unfold geq; apply Hpos; left; auto.
Qed.

(* a value list that is, up to zeros, a maximum e followed by l' : the sorted lists are shifted by one *)
Lemma PermZ_top : forall l e l', PermZ l (e :: l') ->
  (forall x, In x l -> reduced x /\ 0 <= x) -> (forall x, In x l' -> reduced x /\ 0 <= x /\ x <= e) -> reduced e -> 0 <= e ->
  nth 0 (sort_desc l) 0 = e /\ forall k, nth (S k) (sort_desc l) 0 = nth k (sort_desc l') 0.
Proof.
  intros l e l' [n [n' HP]] Hl Hl' He He0.
  assert (E : sort_desc l ++ repeat 0 n = (e :: sort_desc l') ++ repeat 0 n').
  { apply sorted_perm_unique.
    - apply sorted_app_zeros; [apply sort_desc_sorted|]. intros x Hx. apply (Permutation_in _ (sort_desc_perm _)) in Hx. apply Hl; auto.
    - apply sorted_app_zeros.
      + constructor; [apply sort_desc_sorted|]. apply Forall_forall; intros x Hx.
        apply (Permutation_in _ (sort_desc_perm _)) in Hx. unfold geq; apply Hl'; auto.
      + intros x [Hx|Hx]; [subst; auto|]. apply (Permutation_in _ (sort_desc_perm _)) in Hx. apply Hl'; auto.
    - eapply perm_trans; [apply Permutation_app_comm|].
      eapply perm_trans; [apply Permutation_app_head; apply sort_desc_perm|].
      eapply perm_trans; [exact HP|].
      eapply perm_trans; [apply Permutation_app_comm|]. simpl. apply perm_skip.
      apply Permutation_app_tail. apply Permutation_sym; apply sort_desc_perm.
    - intros x Hx. apply in_app_or in Hx. destruct Hx as [Hx|Hx].
      + apply (Permutation_in _ (sort_desc_perm _)) in Hx. apply Hl; auto.
      + apply repeat_spec in Hx; subst; apply zero_reduced. }
  split.
  - rewrite <- (nth_app_zeros (sort_desc l) n 0), E. reflexivity.
  - intros k. rewrite <- (nth_app_zeros (sort_desc l) n (S k)), E. simpl. apply nth_app_zeros.
Qed.

Lemma ml_eq : forall c, minus_length c == fst c - snd c. Proof. intros; unfold minus_length; apply rsub_eq. Qed.
Lemma bpd_eq : forall c, birth_plus_deaths c == fst c + snd c. Proof. intros; unfold birth_plus_deaths; apply radd_eq. Qed.
Lemma tent_ext : forall b d b' d' t, b == b' -> d == d' -> tent (b, d) t == tent (b', d') t.
Proof. intros b d b' d' t H H0; unfold tent, qmax, qmin; simpl. qcases; lra. Qed.
Lemma Tq_ext : forall t a b, Bq a == Bq b -> Dq a == Dq b -> Tq t a = Tq t b.
Proof. intros t a b H H0; unfold Tq, tentr. apply Qred_complete. apply tent_ext; auto. Qed.
Lemma Tq_tent : forall t c, Tq t c == tent (Bq c, Dq c) t.
Proof. intros; unfold Tq, tentr; apply Qred_correct. Qed.
Lemma reduced_eq : forall x y, reduced x -> reduced y -> x == y -> x = y.
Proof. intros x y Hx Hy H; apply reduced_antisym; auto; rewrite H; apply Qle_refl. Qed.
Lemma qmax_reduced : forall a b, reduced a -> reduced b -> reduced (qmax a b).
Proof. intros a b Ha Hb; destruct (qmax_case a b) as [E|E]; rewrite E; auto. Qed.
Lemma qmin_case : forall a b, qmin a b = a \/ qmin a b = b.
Proof. intros a b; unfold qmin; destruct (Qle_bool a b); auto. Qed.
Lemma Tq_le_death : forall t c, Tq t c <= qmax 0 (Dq c - t).
Proof. intros; rewrite Tq_tent. unfold tent, qmax, qmin; simpl. qcases; lra. Qed.
Lemma Tq_le_birth : forall t c, Tq t c <= qmax 0 (t - Bq c).
Proof. intros; rewrite Tq_tent. unfold tent, qmax, qmin; simpl. qcases; lra. Qed.
Lemma Tq_nested : forall t a b, Bq a <= Bq b -> Dq b <= Dq a -> Tq t b <= Tq t a.
Proof. intros; rewrite !Tq_tent. apply tent_nested_le; auto. Qed.
Lemma qmax_mono_r : forall a b, a <= b -> qmax 0 a <= qmax 0 b.
Proof. intros a b H; unfold qmax; qcases; lra. Qed.

Lemma qmin_glb : forall a b c, c <= a -> c <= b -> c <= qmin a b.
Proof. intros a b c Ha Hb; unfold qmin; destruct (Qle_bool a b); auto. Qed.
Global Instance qmin_comp : Proper (Qeq ==> Qeq ==> Qeq) qmin.
Proof.
  intros a a' Ha b b' Hb. apply Qle_antisym; apply qmin_glb.
  - rewrite <- Ha; apply qmin_le_l. - rewrite <- Hb; apply qmin_le_r.
  - rewrite Ha; apply qmin_le_l. - rewrite Hb; apply qmin_le_r.
Qed.
(* the characteristic point pushed to the next level when c crosses the last peak L *)
Definition cross_point (L c : pt) : pt :=
  (rdiv (minus_length c + birth_plus_deaths L) 2, rdiv (birth_plus_deaths L - minus_length c) 2).
Lemma cross_point_B : forall L c, Bq (cross_point L c) == Bq c.
Proof. intros; unfold Bq, cross_point. rewrite ml_eq; simpl. rewrite !rdiv_eq. field. Qed.
Lemma cross_point_D : forall L c, Dq (cross_point L c) == Dq L.
Proof. intros; unfold Dq, cross_point. rewrite bpd_eq; simpl. rewrite !rdiv_eq. field. Qed.

(* value invariant of the sweep at a fixed abscissa t: S = characteristic points consumed so far, L = last peak *)
Definition ValInv (t : Q) (S : list pt) (L : pt) (newc : list pt) : Prop :=
  exists e, reduced e /\ 0 <= e /\ (forall s, In s S -> Tq t s <= e) /\ e <= qmax 0 (Dq L - t) /\
            (forall n, In n newc -> Tq t n <= e) /\ PermZ (Vq t S) (e :: Vq t newc).

Lemma Vq_app : forall t a b, Vq t (a ++ b) = Vq t a ++ Vq t b.
Proof. intros; unfold Vq; apply map_app. Qed.

(* a nested point is skipped: it goes to the next level unchanged *)
Lemma ValInv_skip : forall t S L newc c, ValInv t S L newc -> In L S -> Bq L <= Bq c -> Dq c <= Dq L ->
  ValInv t (S ++ [c]) L (newc ++ [c]).
Proof.
  intros t S L newc c [e [He [He0 [HS [Hb [Hn HP]]]]]] HL HB HD. exists e.
  assert (Hc : Tq t c <= e) by (eapply Qle_trans; [apply Tq_nested; eauto | apply HS; auto]).
  repeat split; auto.
  - intros s Hs; apply in_app_or in Hs; destruct Hs as [Hs|[Hs|[]]]; [auto | subst; auto].
  - intros n Hn'; apply in_app_or in Hn'; destruct Hn' as [Hn'|[Hn'|[]]]; [auto | subst; auto].
  - rewrite !Vq_app. change (e :: Vq t newc ++ Vq t [c]) with ((e :: Vq t newc) ++ Vq t [c]). apply PermZ_app_tail; auto.
Qed.
(* points nested in the new peak c are appended to both lists *)
Lemma ValInv_nested_tail : forall t S c newc X, In c S ->
  (forall x, In x X -> Bq c <= Bq x /\ Dq x <= Dq c) -> forall Y Z, Y ++ Z = X ->
  forall mid, ValInv t S c (newc ++ mid) -> ValInv t (S ++ X) c (newc ++ Y ++ mid ++ Z).
Proof.
  intros t S c newc X Hc HX Y Z HYZ mid [e [He [He0 [HS [Hb [Hn HP]]]]]]. exists e.
  assert (HXe : forall x, In x X -> Tq t x <= e).
  { intros x Hx. destruct (HX x Hx). eapply Qle_trans; [apply Tq_nested; eauto | apply HS; auto]. }
  repeat split; auto.
  - intros s Hs; apply in_app_or in Hs; destruct Hs; auto.
  - intros n Hn'. apply in_app_or in Hn'. destruct Hn' as [Hn'|Hn']; [apply Hn; apply in_or_app; auto|].
    apply in_app_or in Hn'. destruct Hn' as [Hn'|Hn']; [apply HXe; subst X; apply in_or_app; auto|].
    apply in_app_or in Hn'. destruct Hn' as [Hn'|Hn']; [apply Hn; apply in_or_app; auto | apply HXe; subst X; apply in_or_app; auto].
  - subst X. rewrite !Vq_app in *.
    eapply PermZ_trans; [apply PermZ_app_tail; exact HP|].
    apply PermZ_perm. simpl. apply perm_skip. rewrite <- !app_assoc. apply Permutation_app_head.
    apply Permutation_app_swap_app.
Qed.

(* crossing: c becomes the new peak, the intersection point carries the minimum to the next level *)
Lemma ValInv_cross : forall t S L newc c, ValInv t S L newc -> In L S -> Bq L <= Bq c -> Dq L <= Dq c ->
  ValInv t (S ++ [c]) c (newc ++ [cross_point L c]).
Proof.
  intros t S L newc c [e [He [He0 [HS [Hb [Hn HP]]]]]] HL HB HD.
  set (Tc := Tq t c).
  assert (HTP : Tq t (cross_point L c) = qmin e Tc).
  { apply reduced_eq; [apply Tq_reduced | destruct (qmin_case e Tc) as [E|E]; rewrite E; [auto | apply Tq_reduced] |].
    rewrite Tq_tent. unfold Tc. rewrite (Tq_tent t c).
    rewrite (tent_ext _ _ (Bq c) (Dq L) t (cross_point_B L c) (cross_point_D L c)).
    symmetry. apply (sweep_step_min e (Bq L) (Dq L) (Bq c) (Dq c) t); auto.
    rewrite <- Tq_tent. apply HS; auto. }
  exists (qmax e Tc).
  split; [apply qmax_reduced; [auto | apply Tq_reduced]|].
  split; [eapply Qle_trans; [exact He0 | apply qmax_le_l]|].
  split.
  { intros s Hs; apply in_app_or in Hs; destruct Hs as [Hs|[Hs|[]]].
    - eapply Qle_trans; [apply HS; auto | apply qmax_le_l].
    - subst s. apply qmax_le_r. }
  split.
  { apply qmax_lub.
    - eapply Qle_trans; [exact Hb|]. apply qmax_mono_r. lra.
    - apply Tq_le_death. }
  split.
  { intros n Hn'; apply in_app_or in Hn'; destruct Hn' as [Hn'|[Hn'|[]]].
    - eapply Qle_trans; [apply Hn; auto | apply qmax_le_l].
    - subst n. rewrite HTP. eapply Qle_trans; [apply qmin_le_l | apply qmax_le_l]. }
  rewrite !Vq_app. simpl Vq. fold Tc. rewrite HTP.
  eapply PermZ_trans; [apply PermZ_app_tail; exact HP|].
  apply PermZ_perm. simpl.
  eapply perm_trans; [apply perm_skip; apply Permutation_sym; apply Permutation_cons_append|].
  eapply perm_trans; [|apply perm_skip; apply Permutation_cons_append].
  unfold qmax, qmin. destruct (Qle_bool e Tc); [apply perm_swap | apply Permutation_refl].
Qed.
(* disjoint (or touching): c becomes the new peak, nothing is handed on *)
Lemma ValInv_disjoint : forall t S L newc c, ValInv t S L newc -> In L S -> Dq L <= Bq c -> Bq c <= Dq c ->
  ValInv t (S ++ [c]) c newc.
Proof.
  intros t S L newc c [e [He [He0 [HS [Hb [Hn HP]]]]]] HL HD Hv.
  set (Tc := Tq t c).
  assert (Hmin : qmin e Tc = 0).
  { apply reduced_eq; [destruct (qmin_case e Tc) as [E|E]; rewrite E; [auto | apply Tq_reduced] | apply zero_reduced |].
    pose proof (Tq_le_birth t c) as H1. pose proof (Tq_nonneg t c) as H2. fold Tc in H1, H2.
    revert Hb H1. unfold qmin, qmax. qcases; intros; lra. }
  exists (qmax e Tc).
  split; [apply qmax_reduced; [auto | apply Tq_reduced]|].
  split; [eapply Qle_trans; [exact He0 | apply qmax_le_l]|].
  split.
  { intros s Hs; apply in_app_or in Hs; destruct Hs as [Hs|[Hs|[]]].
    - eapply Qle_trans; [apply HS; auto | apply qmax_le_l].
    - subst s. apply qmax_le_r. }
  split.
  { apply qmax_lub; [|apply Tq_le_death].
    eapply Qle_trans; [exact Hb|]. apply qmax_mono_r. lra. }
  split.
  { intros n Hn'. eapply Qle_trans; [apply Hn; auto | apply qmax_le_l]. }
  rewrite !Vq_app. simpl Vq. fold Tc.
  eapply PermZ_trans; [apply PermZ_app_tail; exact HP|].
  eapply PermZ_trans; [apply PermZ_perm; simpl; apply perm_skip; apply Permutation_sym; apply Permutation_cons_append|].
  eapply PermZ_trans; [|apply PermZ_cons; apply PermZ_zero].
  rewrite <- Hmin. apply PermZ_perm.
  unfold qmax, qmin. destruct (Qle_bool e Tc); [apply perm_swap | apply Permutation_refl].
Qed.

(* ---------------- sorted lists as sets of ordered pairs *)
Section SS.
  Variable A : Type.
  Variable R : A -> A -> Prop.
  Lemma SS_app_inv : forall a b, StronglySorted R (a ++ b) ->
    StronglySorted R a /\ StronglySorted R b /\ (forall x y, In x a -> In y b -> R x y).
  Proof.
    induction a as [|h a IH]; intros b H; simpl in *.
    - repeat split; auto. constructor. intros x y [].
    - inversion H as [|? ? Hs Hall]; subst. destruct (IH b Hs) as [Ha [Hb Hc]].
      rewrite Forall_forall in Hall. repeat split; auto.
      + constructor; auto. apply Forall_forall; intros x Hx; apply Hall; apply in_or_app; auto.
      + intros x y [Hx|Hx] Hy; [subst; apply Hall; apply in_or_app; auto | apply Hc; auto].
  Qed.
  Lemma SS_app_intro : forall a b, StronglySorted R a -> StronglySorted R b -> (forall x y, In x a -> In y b -> R x y) ->
    StronglySorted R (a ++ b).
  Proof.
    induction a as [|h a IH]; intros b Ha Hb Hc; simpl; auto.
    inversion Ha as [|? ? Hs Hall]; subst. constructor.
    - apply IH; auto. intros x y Hx Hy; apply Hc; [right|]; auto.
    - rewrite Forall_forall in *. intros x Hx. apply in_app_or in Hx. destruct Hx; [apply Hall; auto | apply Hc; [left|]; auto].
  Qed.
  Lemma SS_cons_inv : forall h l, StronglySorted R (h :: l) -> StronglySorted R l /\ forall y, In y l -> R h y.
  Proof. intros h l H; inversion H as [|? ? Hs Hall]; subst; split; auto. rewrite Forall_forall in Hall; auto. Qed.
End SS.
Arguments SS_app_inv {A R}. Arguments SS_app_intro {A R}. Arguments SS_cons_inv {A R}.

(* ---------------- the two inner loops *)
Definition eqb_cond (point c : pt) : bool :=
  almost_equal (minus_length point) (minus_length c) && Qle_bool (birth_plus_deaths point) (birth_plus_deaths c).
Definition dom_cond (point c : pt) : bool :=
  Qle_bool (minus_length point) (minus_length c) && Qle_bool (birth_plus_deaths c) (birth_plus_deaths point).
Lemma take_eq_birth_spec : forall point l acc acc' l', take_eq_birth point l acc = (acc', l') ->
  exists taken, acc' = acc ++ taken /\ l = taken ++ l' /\ (forall c, In c taken -> eqb_cond point c = true) /\
    match l' with [] => True | x :: _ => eqb_cond point x = false end.
Proof.
  induction l as [|c l IH]; intros acc acc' l' H; simpl in H.
  - inversion H; subst. exists []. rewrite app_nil_r. repeat split; auto; try (intros ? []).
  - fold (eqb_cond point c) in H. destruct (eqb_cond point c) eqn:E.
    + destruct (IH _ _ _ H) as [tk [H1 [H2 [H3 H4]]]]. exists (c :: tk). subst. rewrite <- app_assoc. simpl.
      repeat split; auto. intros x [Hx|Hx]; [subst; auto | auto].
    + inversion H; subst. exists []. rewrite app_nil_r. repeat split; auto; try (intros ? []).
Qed.
Lemma take_dominated_spec : forall point l acc acc' l', take_dominated point l acc = (acc', l') ->
  exists taken, acc' = acc ++ taken /\ l = taken ++ l' /\ (forall c, In c taken -> dom_cond point c = true) /\
    match l' with [] => True | x :: _ => dom_cond point x = false end.
Proof.
  induction l as [|c l IH]; intros acc acc' l' H; simpl in H.
  - inversion H; subst. exists []. rewrite app_nil_r. repeat split; auto; try (intros ? []).
  - fold (dom_cond point c) in H. destruct (dom_cond point c) eqn:E.
    + destruct (IH _ _ _ H) as [tk [H1 [H2 [H3 H4]]]]. exists (c :: tk). subst. rewrite <- app_assoc. simpl.
      repeat split; auto. intros x [Hx|Hx]; [subst; auto | auto].
    + inversion H; subst. exists []. rewrite app_nil_r. repeat split; auto; try (intros ? []).
Qed.

Lemma Qlt_bool_iff'' : forall a b, Qlt_bool a b = true <-> a < b.
Proof.
  intros a b; unfold Qlt_bool; split; intro H.
  - destruct (Qle_bool b a) eqn:E; [discriminate|]. apply Qle_bool_false in E; auto.
  - destruct (Qle_bool b a) eqn:E; auto. apply Qle_bool_iff in E. lra.
Qed.
Lemma almost_equal_comp : forall a a' b b', a == a' -> b == b' -> almost_equal a b = almost_equal a' b'.
Proof.
  intros a a' b b' Ha Hb. unfold almost_equal, Qlt_bool. f_equal.
  assert (E : qabs (a - b) == qabs (a' - b')) by (rewrite Ha, Hb; reflexivity). rewrite E. reflexivity.
Qed.
Definition epssep (l : list pt) : Prop := forall a b, In a l -> In b l -> almost_equal (Bq a) (Bq b) = true -> Bq a == Bq b.
Definition validl (l : list pt) : Prop := forall c, In c l -> Bq c <= Dq c.

Lemma lastpt_app1 : forall l a, lastpt (l ++ [a]) = a.
Proof. intros; unfold lastpt; apply last_last. Qed.
Lemma lastpt_app2 : forall l a b, lastpt (l ++ [a; b]) = b.
Proof. intros. change [a; b] with ([a] ++ [b]). rewrite app_assoc. apply lastpt_app1. Qed.
Lemma lastpt_app3 : forall l a b c, lastpt (l ++ [a; b; c]) = c.
Proof. intros. change [a; b; c] with ([a; b] ++ [c]). rewrite app_assoc. apply lastpt_app1. Qed.
Lemma lexle_of_bounds : forall p x, Bq p <= Bq x -> Dq x <= Dq p -> lexle p x.
Proof. intros p x H1 H2. unfold lexle. destruct (Qlt_le_dec (Bq p) (Bq x)); [left; auto | right; split; lra]. Qed.

Section Sweep.
  Variable cps : list pt.
  Hypothesis Heps : epssep cps.

  Definition LoopInv (lam newc rest S : list pt) : Prop :=
    S ++ rest = cps /\ In (lastpt lam) S /\ (forall r, In r rest -> lexle (lastpt lam) r) /\ lexsorted (newc ++ rest) /\
    validl rest /\ (forall n, In n newc -> Bq n <= Dq n /\ exists c, In c cps /\ Bq n == Bq c) /\
    forall t, ValInv t S (lastpt lam) newc.

  Lemma sweep_level_inv : forall fuel lam newc rest S lam' newc',
    sweep_level fuel lam newc rest = Some (lam', newc') -> LoopInv lam newc rest S -> LoopInv lam' newc' [] cps.
  Proof.
    induction fuel as [|fuel IH]; intros lam newc rest S lam' newc' H Inv; [discriminate|].
    cbn [sweep_level] in H. destruct rest as [|c tl].
    - inversion H; subst. destruct Inv as [I0 I]. rewrite app_nil_r in I0. subst S. split; [apply app_nil_r | exact I].
    - destruct Inv as [I0 [I1 [I2 [I3 [I4 [I5 I6]]]]]].
      set (L := lastpt lam) in *.
      assert (HLc : lexle L c) by (apply I2; left; auto).
      assert (HB : Bq L <= Bq c) by (apply lexle_B; auto).
      assert (Hc_in : In c cps) by (rewrite <- I0; apply in_or_app; right; left; auto).
      assert (Htl_in : forall x, In x tl -> In x cps) by (intros x Hx; rewrite <- I0; apply in_or_app; right; right; auto).
      destruct (SS_app_inv _ _ I3) as [Sn [Sctl Cross]].
      destruct (SS_cons_inv _ _ Sctl) as [Stl Hctl].
      assert (Hvc : Bq c <= Dq c) by (apply I4; left; auto).
      assert (E1 : Qle_bool (minus_length L) (minus_length c) = true) by (apply Qle_bool_iff; exact HB).
      rewrite E1 in H. simpl andb in H.
      destruct (Qlt_bool (birth_plus_deaths L) (birth_plus_deaths c)) eqn:E2.
      + apply Qlt_bool_iff'' in E2. fold (Dq L) (Dq c) in E2.
        destruct (Qlt_bool (minus_length c) (birth_plus_deaths L)) eqn:E3.
        * (* crossing *)
          apply Qlt_bool_iff'' in E3. fold (Bq c) (Dq L) in E3.
          fold (cross_point L c) in H. set (P := cross_point L c) in *.
          destruct (take_eq_birth P tl newc) as [new1 l1] eqn:T1. cbv beta iota zeta in H.
          match type of H with context [take_dominated ?a ?b ?c] => destruct (take_dominated a b c) as [new3 l2] eqn:T2 end.
          destruct (take_eq_birth_spec _ _ _ _ _ T1) as [tk1 [N1 [L1 [C1 Stop1]]]].
          destruct (take_dominated_spec _ _ _ _ _ T2) as [tk2 [N3 [L2 [C2 Stop2]]]].
          subst new1 new3 l1 tl.
          pose proof (cross_point_B L c) as PB. pose proof (cross_point_D L c) as PD. fold P in PB, PD.
          destruct (SS_app_inv _ _ Stl) as [Stk1 [Sl1 Cross1]].
          destruct (SS_app_inv _ _ Sl1) as [Stk2 [Sl2 Cross2]].
          (* facts about the taken points *)
          assert (F1 : forall x, In x tk1 -> Bq x == Bq c /\ Dq P <= Dq x /\ Dq x <= Dq c).
          { intros x Hx. specialize (C1 x Hx). unfold eqb_cond in C1. apply andb_prop in C1. destruct C1 as [A1 A2].
            apply Qle_bool_iff in A2. fold (Dq P) (Dq x) in A2. fold (Bq P) (Bq x) in A1.
            assert (Hx_in : In x cps) by (apply Htl_in; apply in_or_app; auto).
            assert (Hcx : lexle c x) by (apply Hctl; apply in_or_app; auto).
            assert (Ecx : Bq c == Bq x).
            { apply Heps; auto. rewrite <- (almost_equal_comp _ _ _ _ PB (Qeq_refl (Bq x))). exact A1. }
            repeat split; auto; [lra|]. destruct Hcx as [Hlt|[_ Hd]]; [lra | auto]. }
          assert (F2 : forall x, In x tk2 -> Bq P <= Bq x /\ Dq x <= Dq P).
          { intros x Hx. specialize (C2 x Hx). unfold dom_cond in C2. apply andb_prop in C2. destruct C2 as [A1 A2].
            apply Qle_bool_iff in A1. apply Qle_bool_iff in A2. split; auto. }
          assert (F3 : forall x, In x l2 -> lexle P x).
          { destruct l2 as [|x0 l2']; [intros x []|].
            assert (Hx0 : lexle P x0).
            { assert (Hcx0 : lexle c x0) by (apply Hctl; apply in_or_app; right; apply in_or_app; right; left; auto).
              assert (HBx0 : Bq P <= Bq x0) by (rewrite PB; apply lexle_B; auto).
              assert (HDx0 : Dq P < Dq x0).
              { unfold dom_cond in Stop2. apply Qle_bool_iff in HBx0. fold (Bq P) (Bq x0) in Stop2. rewrite HBx0 in Stop2.
                simpl in Stop2. apply Qle_bool_false in Stop2. exact Stop2. }
              left. destruct (Qlt_le_dec (Bq P) (Bq x0)) as [|Hle]; auto. exfalso.
              assert (EB : Bq P == Bq x0) by lra.
              destruct tk2 as [|y tk2'].
              - simpl in Stop1. unfold eqb_cond in Stop1. fold (Bq P) (Bq x0) (Dq P) (Dq x0) in Stop1.
                rewrite (almost_equal_refl _ _ EB) in Stop1. simpl in Stop1. apply Qle_bool_false in Stop1. lra.
              - destruct (F2 y ltac:(left; auto)) as [Gy1 Gy2].
                assert (Hyx0 : lexle y x0) by (apply Cross2; [left; auto | left; auto]).
                assert (Hcy : lexle c y) by (apply Hctl; apply in_or_app; right; left; auto).
                pose proof (lexle_B _ _ Hcy). destruct Hyx0 as [Hlt|[_ Hd]]; lra. }
            intros x [Hx|Hx]; [subst; auto|]. eapply lexle_trans; [exact Hx0|].
            destruct (SS_cons_inv _ _ Sl2) as [_ Hx0l]. apply Hx0l; auto. }
          apply (IH _ _ _ (S ++ c :: tk1 ++ tk2) _ _ H). unfold LoopInv. rewrite lastpt_app2.
          split; [rewrite <- I0; rewrite <- !app_assoc; simpl; rewrite <- !app_assoc; reflexivity|].
          split; [apply in_or_app; right; left; auto|].
          split; [intros r Hr; apply Hctl; apply in_or_app; right; apply in_or_app; right; auto|].
          split.
          { rewrite <- !app_assoc. cbn [app]. rewrite (app_assoc newc tk1).
            apply SS_app_intro.
            - apply SS_app_intro; [exact Sn | exact Stk1 |]. intros x y Hx Hy. apply Cross; auto. right. apply in_or_app; auto.
            - constructor; auto. apply Forall_forall. intros x Hx. apply in_app_or in Hx. destruct Hx as [Hx|Hx]; [|apply F3; auto].
              destruct (F2 x Hx). apply lexle_of_bounds; auto.
            - intros x y Hx Hy. apply in_app_or in Hx. destruct Hy as [Hy|Hy].
              + subst y. destruct Hx as [Hx|Hx].
                * assert (Hxc : lexle x c) by (apply Cross; [auto | left; auto]).
                  destruct Hxc as [Hlt|[He Hd]]; [left; lra | right; split; lra].
                * destruct (F1 x Hx) as [G1 [G2 G3]]. right; split; lra.
              + destruct Hx as [Hx|Hx].
                * apply Cross; auto. right. apply in_or_app; right; auto.
                * apply Cross1; auto. }
          split; [intros x Hx; apply I4; right; apply in_or_app; right; apply in_or_app; right; auto|].
          split.
          { intros n Hn. rewrite <- !app_assoc in Hn. apply in_app_or in Hn. destruct Hn as [Hn|Hn]; [apply I5; auto|].
            apply in_app_or in Hn. destruct Hn as [Hn|Hn].
            - split; [apply I4; right; apply in_or_app; auto | exists n; split; [apply Htl_in; apply in_or_app; auto | reflexivity]].
            - destruct Hn as [Hn|Hn].
              + subst n. split; [lra | exists c; split; auto].
              + split; [apply I4; right; apply in_or_app; right; apply in_or_app; auto |
                        exists n; split; [apply Htl_in; apply in_or_app; right; apply in_or_app; auto | reflexivity]]. }
          intros t.
          replace (S ++ c :: tk1 ++ tk2) with ((S ++ [c]) ++ (tk1 ++ tk2)) by (rewrite <- app_assoc; reflexivity).
          rewrite <- (app_assoc (newc ++ tk1) _ tk2), <- (app_assoc newc tk1 _).
          apply ValInv_nested_tail with (X := tk1 ++ tk2); auto.
          -- apply in_or_app; right; left; auto.
          -- intros x Hx. apply in_app_or in Hx. destruct Hx as [Hx|Hx].
             ++ destruct (F1 x Hx) as [G1 [G2 G3]]. split; lra.
             ++ destruct (F2 x Hx) as [G1 G2]. split; lra.
          -- apply ValInv_cross; auto. lra.
        * (* disjoint or touching *)
          assert (E3' : Dq L <= Bq c).
          { destruct (Qlt_le_dec (Bq c) (Dq L)) as [Hlt|]; auto. apply Qlt_bool_iff'' in Hlt. unfold Bq, Dq in Hlt. congruence. }
          apply (IH _ _ _ (S ++ [c]) _ _ H). unfold LoopInv. rewrite lastpt_app3.
          split; [rewrite <- I0; rewrite <- app_assoc; reflexivity|].
          split; [apply in_or_app; right; left; auto|].
          split; [intros r Hr; apply Hctl; auto|].
          split; [apply SS_app_intro; auto; intros x y Hx Hy; apply Cross; auto; right; auto|].
          split; [intros x Hx; apply I4; right; auto|].
          split; [exact I5|].
          intros t. apply ValInv_disjoint with (L := L); auto.
      + (* nested in the last peak: skipped *)
        assert (E2' : Dq c <= Dq L).
        { destruct (Qlt_le_dec (Dq L) (Dq c)) as [Hlt|]; auto. apply Qlt_bool_iff'' in Hlt. unfold Dq in Hlt. congruence. }
        apply (IH _ _ _ (S ++ [c]) _ _ H). unfold LoopInv. fold L.
        split; [rewrite <- I0; rewrite <- app_assoc; reflexivity|].
        split; [apply in_or_app; left; auto|].
        split; [intros r Hr; apply I2; right; auto|].
        split; [rewrite <- app_assoc; exact I3|].
        split; [intros x Hx; apply I4; right; auto|].
        split.
        { intros n Hn. apply in_app_or in Hn. destruct Hn as [Hn|[Hn|[]]]; [apply I5; auto|].
          subst n. split; auto. exists c; split; auto. reflexivity. }
        intros t. apply ValInv_skip; auto.
  Qed.
End Sweep.

Lemma Vq_in : forall t l x, In x (Vq t l) -> exists c, In c l /\ x = Tq t c.
Proof. intros t l x H; unfold Vq in H; apply in_map_iff in H. destruct H as [c [H1 H2]]; exists c; auto. Qed.

(* one level of the sweep: the list handed to the next level is again sorted, valid and epsilon-separated, and its tents
   carry, at every t, exactly the values of the swept list without the largest one *)
Theorem one_level_residual : forall cps lam newc, one_level cps = Some (lam, newc) ->
  lexsorted cps -> validl cps -> epssep cps ->
  lexsorted newc /\ validl newc /\ epssep newc /\
  (forall t k, nth (S k) (sort_desc (Vq t cps)) 0 = nth k (sort_desc (Vq t newc)) 0).
Proof.
  intros cps lam newc H Hs Hv He. unfold one_level in H. destruct cps as [|c0 tl]; [discriminate|].
  destruct (sweep_level (S (length (c0 :: tl))) [(- INF, 0); (minus_length c0, 0); c0] [] tl) as [[lam' newc']|] eqn:E; [|discriminate].
  inversion H; subst newc'. clear H.
  destruct (SS_cons_inv _ _ Hs) as [Stl Hc0].
  assert (Inv0 : LoopInv (c0 :: tl) [(- INF, 0); (minus_length c0, 0); c0] [] tl [c0]).
  { unfold LoopInv. change (lastpt [(- INF, 0); (minus_length c0, 0); c0]) with c0.
    repeat split; auto.
    - left; auto.
    - intros x Hx; apply Hv; right; auto.
    - destruct H.
    - destruct H.
    - intros t. exists (Tq t c0). repeat split.
      + apply Tq_reduced. + apply Tq_nonneg.
      + intros s [Hs'|[]]; subst; apply Qle_refl.
      + apply Tq_le_death.
      + intros n [].
      + apply PermZ_refl. }
  destruct (sweep_level_inv (c0 :: tl) He _ _ _ _ _ _ _ E Inv0) as [_ [_ [_ [I3 [_ [I5 I6]]]]]].
  rewrite app_nil_r in I3.
  split; [exact I3|]. split; [intros n Hn; apply I5; auto|].
  split.
  { intros a b Ha Hb Hab. destruct (I5 a Ha) as [_ [ca [Hca Ea]]]. destruct (I5 b Hb) as [_ [cb [Hcb Eb]]].
    rewrite Ea, Eb. apply He; auto. rewrite <- (almost_equal_comp _ _ _ _ Ea Eb). exact Hab. }
  intros t k. destruct (I6 t) as [e [He1 [He0 [HS [_ [Hn HP]]]]]].
  apply (PermZ_top _ e _ HP); auto.
  - intros x Hx. destruct (Vq_in _ _ _ Hx) as [c [_ Hc]]; subst. split; [apply Tq_reduced | apply Tq_nonneg].
  - intros x Hx. destruct (Vq_in _ _ _ Hx) as [c [Hc1 Hc]]; subst. repeat split; [apply Tq_reduced | apply Tq_nonneg | apply Hn; auto].
Qed.

(* the list of characteristic points that reaches level j *)
Fixpoint residual (j : nat) (cps : list pt) : option (list pt) :=
  match j with
  | O => Some cps
  | S j' => match one_level cps with Some (_, newc) => residual j' newc | None => None end
  end.
Theorem residual_values : forall j cps R, residual j cps = Some R -> lexsorted cps -> validl cps -> epssep cps ->
  (lexsorted R /\ validl R /\ epssep R) /\
  forall t k, nth (j + k) (sort_desc (Vq t cps)) 0 = nth k (sort_desc (Vq t R)) 0.
Proof.
  induction j as [|j IH]; intros cps R H Hs Hv He; simpl in H.
  - inversion H; subst. repeat split; auto.
  - destruct (one_level cps) as [[lam newc]|] eqn:E; [|discriminate].
    destruct (one_level_residual _ _ _ E Hs Hv He) as [Hs' [Hv' [He' Hval]]].
    destruct (IH _ _ H Hs' Hv' He') as [HR Hk]. split; auto.
    intros t k. simpl. rewrite Hval. apply Hk.
Qed.

(* ---------------- from the diagram to the first list of characteristic points *)
Definition to_cp (b : Q * Q) : pt := (rdiv (fst b + snd b) 2, rdiv (snd b - fst b) 2).
Lemma to_cp_B : forall b, Bq (to_cp b) == fst b.
Proof. intros; unfold Bq, to_cp. rewrite ml_eq; simpl. rewrite !rdiv_eq. field. Qed.
Lemma to_cp_D : forall b, Dq (to_cp b) == snd b.
Proof. intros; unfold Dq, to_cp. rewrite bpd_eq; simpl. rewrite !rdiv_eq. field. Qed.
Lemma Vq_to_cp : forall t l, Vq t (map to_cp l) = map (fun bd => tentr bd t) l.
Proof.
  intros t l; unfold Vq; rewrite map_map. apply map_ext. intros [b d]. unfold Tq, tentr. apply Qred_complete.
  apply tent_ext; [apply to_cp_B | apply to_cp_D].
Qed.
Definition blex (a b : Q * Q) : Prop := fst a < fst b \/ (fst a == fst b /\ snd b <= snd a).
Lemma cmp_true : forall y x, compare_points_sorting y x = true -> blex y x.
Proof.
  intros y x H; unfold compare_points_sorting in H. unfold blex.
  destruct (Qlt_bool (fst y) (fst x)) eqn:E1; [apply Qlt_bool_iff'' in E1; left; auto|].
  destruct (Qlt_bool (fst x) (fst y)) eqn:E2; [discriminate|].
  apply Qlt_bool_iff'' in H. right.
  assert (~ fst y < fst x) by (intro G; apply Qlt_bool_iff'' in G; congruence).
  assert (~ fst x < fst y) by (intro G; apply Qlt_bool_iff'' in G; congruence). split; lra.
Qed.
Lemma cmp_false : forall y x, compare_points_sorting y x = false -> blex x y.
Proof.
  intros y x H; unfold compare_points_sorting in H. unfold blex.
  destruct (Qlt_bool (fst y) (fst x)) eqn:E1; [discriminate|].
  destruct (Qlt_bool (fst x) (fst y)) eqn:E2; [apply Qlt_bool_iff'' in E2; left; auto|].
  assert (~ fst y < fst x) by (intro G; apply Qlt_bool_iff'' in G; congruence).
  assert (~ fst x < fst y) by (intro G; apply Qlt_bool_iff'' in G; congruence).
  assert (~ snd x < snd y) by (intro G; apply Qlt_bool_iff'' in G; congruence). right; split; lra.
Qed.
Lemma blex_trans : forall a b c, blex a b -> blex b c -> blex a c.
Proof. unfold blex; intros a b c [H|[H1 H2]] [H'|[H1' H2']]; [left; lra | left; lra | left; lra | right; split; lra]. Qed.
Lemma insert_bar_perm : forall x l, Permutation (insert_bar x l) (x :: l).
Proof.
  intros x l; induction l as [|y tl IH]; simpl; auto.
  destruct (compare_points_sorting y x); auto.
  eapply perm_trans; [apply perm_skip; apply IH | apply perm_swap].
Qed.
Lemma sort_bars_perm : forall l, Permutation (sort_bars l) l.
Proof.
  induction l as [|x tl IH]; simpl; auto.
  eapply perm_trans; [apply insert_bar_perm | apply perm_skip; exact IH].
Qed.
Lemma insert_bar_sorted : forall x l, StronglySorted blex l -> StronglySorted blex (insert_bar x l).
Proof.
  intros x l H; induction H as [|y tl Hs IH Hall]; simpl.
  - constructor; constructor.
  - destruct (compare_points_sorting y x) eqn:E.
    + apply cmp_true in E. constructor; auto.
      eapply Permutation_Forall; [apply Permutation_sym; apply insert_bar_perm|]. constructor; auto.
    + apply cmp_false in E. constructor; [constructor; auto|].
      constructor; auto. eapply Forall_impl; [|exact Hall]. intros z Hz; eapply blex_trans; eauto.
Qed.
Lemma sort_bars_sorted : forall l, StronglySorted blex (sort_bars l).
Proof. induction l; simpl; [constructor | apply insert_bar_sorted; auto]. Qed.
Lemma lexsorted_map_to_cp : forall l, StronglySorted blex l -> lexsorted (map to_cp l).
Proof.
  intros l H; induction H as [|a l Hs IH Hall]; simpl; constructor; auto.
  rewrite Forall_forall in *. intros x Hx. apply in_map_iff in Hx. destruct Hx as [b [Hb Hin]]; subst.
  specialize (Hall b Hin). unfold lexle. rewrite !to_cp_B, !to_cp_D. exact Hall.
Qed.

Definition valid_diagram (D : list (Q * Q)) : Prop := forall bd, In bd D -> fst bd <= snd bd.
(* births closer than the tolerance epsi of the implementation are equal (true on any lattice coarser than 5e-6) *)
Definition eps_separated (D : list (Q * Q)) : Prop :=
  forall a b, In a D -> In b D -> almost_equal (fst a) (fst b) = true -> fst a == fst b.
Definition first_cps (D : list (Q * Q)) : list pt := map to_cp (sort_bars D).

(* the characteristic points that the sweep hands to level j carry exactly lambda_j, lambda_{j+1}, ...:
   at every t the k-th largest of their tents is lambda_{j+k}(t) *)
Theorem sweep_residual_lambda : forall D j R, valid_diagram D -> eps_separated D -> residual j (first_cps D) = Some R ->
  forall t k, lambda D (j + k) t = nth k (sort_desc (Vq t R)) 0.
Proof.
  intros D j R Hv He H t k.
  assert (Hs : lexsorted (first_cps D)) by (apply lexsorted_map_to_cp; apply sort_bars_sorted).
  assert (Hin : forall c, In c (first_cps D) -> exists b, In b D /\ c = to_cp b).
  { intros c Hc. unfold first_cps in Hc. apply in_map_iff in Hc. destruct Hc as [b [Hb Hin]]. exists b; split; auto.
    eapply Permutation_in; [apply sort_bars_perm | exact Hin]. }
  assert (Hv' : validl (first_cps D)).
  { intros c Hc. destruct (Hin c Hc) as [b [Hb Ec]]; subst. rewrite to_cp_B, to_cp_D. apply Hv; auto. }
  assert (He' : epssep (first_cps D)).
  { intros a b Ha Hb Hab. destruct (Hin a Ha) as [a' [Ha' Ea]]. destruct (Hin b Hb) as [b' [Hb' Eb]]. subst.
    rewrite !to_cp_B. apply He; auto. rewrite <- (almost_equal_comp _ _ _ _ (to_cp_B a') (to_cp_B b')). exact Hab. }
  destruct (residual_values _ _ _ H Hs Hv' He') as [_ Hk]. rewrite <- Hk.
  unfold first_cps. rewrite Vq_to_cp.
  rewrite (lambda_perm_invariant D (sort_bars D) (j + k) t (Permutation_sym (sort_bars_perm D))). reflexivity.
Qed.
(* ================================================================ the characteristic-point sweep: the breakpoints are the upper envelope *)
Lemma line_val_on_line : forall a b p q t, snd p == a * fst p + b -> snd q == a * fst q + b -> fst p < fst q ->
  line_val p q t == a * t + b.
Proof. intros a b p q t Hp Hq Hlt. unfold line_val. rewrite Hp, Hq. field. lra. Qed.
Lemma Tq_expand : forall t c, Tq t c == qmax 0 (qmin (t - Bq c) (Dq c - t)).
Proof. intros; rewrite Tq_tent; reflexivity. Qed.
Lemma cp_fst : forall c, fst c == (Bq c + Dq c) / 2.
Proof. intros c. unfold Bq, Dq. rewrite ml_eq, bpd_eq. field. Qed.
Lemma cp_snd : forall c, snd c == (Dq c - Bq c) / 2.
Proof. intros c. unfold Bq, Dq. rewrite ml_eq, bpd_eq. field. Qed.
Lemma cross_point_fst : forall L c, fst (cross_point L c) == (Bq c + Dq L) / 2.
Proof. intros; unfold cross_point; simpl. rewrite rdiv_eq. reflexivity. Qed.
Lemma cross_point_snd : forall L c, snd (cross_point L c) == (Dq L - Bq c) / 2.
Proof. intros; unfold cross_point; simpl. rewrite rdiv_eq. reflexivity. Qed.

Ltac qc := unfold qmax, qmin; qcases; try lra.

(* crossing: the two new segments L -> P -> c carry max(tent L, tent c) *)
Lemma geo_cross : forall L c t, Bq L <= Dq L -> Bq c <= Dq c -> Bq L <= Bq c -> Dq L < Dq c -> Bq c < Dq L ->
  fst L < t -> t <= fst c -> interp_from L [cross_point L c; c] t == qmax (Tq t L) (Tq t c).
Proof.
  intros L c t VL Vc HB HD HX Ht1 Ht2.
  pose proof (cp_fst L) as FL. pose proof (cp_snd L) as SL. pose proof (cp_fst c) as Fc. pose proof (cp_snd c) as Sc.
  pose proof (cross_point_fst L c) as FP. pose proof (cross_point_snd L c) as SP.
  rewrite !Tq_expand. cbn [interp_from].
  set (P := cross_point L c) in *.
  assert (FL' : fst L * 2 == Bq L + Dq L) by (rewrite FL; field).
  assert (Fc' : fst c * 2 == Bq c + Dq c) by (rewrite Fc; field).
  assert (FP' : fst P * 2 == Bq c + Dq L) by (rewrite FP; field).
  assert (SL' : snd L * 2 == Dq L - Bq L) by (rewrite SL; field).
  assert (Sc' : snd c * 2 == Dq c - Bq c) by (rewrite Sc; field).
  assert (SP' : snd P * 2 == Dq L - Bq c) by (rewrite SP; field).
  destruct (Qle_bool t (fst P)) eqn:E1.
  - apply Qle_bool_iff in E1.
    rewrite (line_val_on_line (-1) (Dq L) L P t) by lra. qc.
  - apply Qle_bool_false in E1. apply Qle_bool_iff in Ht2. rewrite Ht2. apply Qle_bool_iff in Ht2.
    rewrite (line_val_on_line 1 (- Bq c) P c t) by lra. qc.
Qed.
(* disjoint or touching: L -> (D_L,0) -> (B_c,0) -> c *)
Lemma geo_disjoint : forall L c t, Bq L <= Dq L -> Bq c <= Dq c -> Dq L <= Bq c ->
  fst L < t -> t <= fst c -> interp_from L [(Dq L, 0); (Bq c, 0); c] t == qmax (Tq t L) (Tq t c).
Proof.
  intros L c t VL Vc HX Ht1 Ht2.
  pose proof (cp_fst L) as FL. pose proof (cp_snd L) as SL. pose proof (cp_fst c) as Fc. pose proof (cp_snd c) as Sc.
  assert (FL' : fst L * 2 == Bq L + Dq L) by (rewrite FL; field).
  assert (Fc' : fst c * 2 == Bq c + Dq c) by (rewrite Fc; field).
  assert (SL' : snd L * 2 == Dq L - Bq L) by (rewrite SL; field).
  assert (Sc' : snd c * 2 == Dq c - Bq c) by (rewrite Sc; field).
  rewrite !Tq_expand. cbn [interp_from]. simpl fst.
  destruct (Qle_bool t (Dq L)) eqn:E1.
  - apply Qle_bool_iff in E1.
    rewrite (line_val_on_line (-1) (Dq L) L (Dq L, 0) t) by (simpl; lra). qc.
  - apply Qle_bool_false in E1. destruct (Qle_bool t (Bq c)) eqn:E2.
    + apply Qle_bool_iff in E2.
      rewrite (line_val_on_line 0 0 (Dq L, 0) (Bq c, 0) t) by (simpl; lra). qc.
    + apply Qle_bool_false in E2. apply Qle_bool_iff in Ht2. rewrite Ht2. apply Qle_bool_iff in Ht2.
      rewrite (line_val_on_line 1 (- Bq c) (Bq c, 0) c t) by (simpl; lra). qc.
Qed.
(* the end of a level: L -> (D_L,0) -> (INF,0) *)
Lemma geo_final : forall L t, Bq L <= Dq L -> Dq L < INF -> fst L < t ->
  interp_from L [(Dq L, 0); (INF, 0)] t == Tq t L.
Proof.
  intros L t VL HI Ht1.
  pose proof (cp_fst L) as FL. pose proof (cp_snd L) as SL.
  assert (FL' : fst L * 2 == Bq L + Dq L) by (rewrite FL; field).
  assert (SL' : snd L * 2 == Dq L - Bq L) by (rewrite SL; field).
  rewrite Tq_expand. cbn [interp_from]. simpl fst. simpl snd.
  destruct (Qle_bool t (Dq L)) eqn:E1.
  - apply Qle_bool_iff in E1.
    rewrite (line_val_on_line (-1) (Dq L) L (Dq L, 0) t) by (simpl; lra). qc.
  - apply Qle_bool_false in E1. destruct (Qle_bool t INF) eqn:E2.
    + apply Qle_bool_iff in E2. rewrite (line_val_on_line 0 0 (Dq L, 0) (INF, 0) t) by (simpl; lra). qc.
    + qc.
Qed.
(* the start of a level: (-INF,0) -> (B_c,0) -> c *)
Lemma geo_init : forall c t, Bq c <= Dq c -> - INF < Bq c -> - INF < t -> t <= fst c ->
  interp_from (- INF, 0) [(Bq c, 0); c] t == Tq t c.
Proof.
  intros c t Vc HI Ht1 Ht2.
  pose proof (cp_fst c) as Fc. pose proof (cp_snd c) as Sc.
  assert (Fc' : fst c * 2 == Bq c + Dq c) by (rewrite Fc; field).
  assert (Sc' : snd c * 2 == Dq c - Bq c) by (rewrite Sc; field).
  rewrite Tq_expand. cbn [interp_from]. simpl fst.
  destruct (Qle_bool t (Bq c)) eqn:E1.
  - apply Qle_bool_iff in E1. rewrite (line_val_on_line 0 0 (- INF, 0) (Bq c, 0) t) by (simpl; lra). qc.
  - apply Qle_bool_false in E1. apply Qle_bool_iff in Ht2. rewrite Ht2. apply Qle_bool_iff in Ht2.
    rewrite (line_val_on_line 1 (- Bq c) (Bq c, 0) c t) by (simpl; lra). qc.
Qed.

(* ---------------- the maximum of the tents of a list *)
Definition mx (t : Q) (S : list pt) : Q := fold_right (fun c m => qmax (Tq t c) m) 0 S.
Lemma mx_nonneg : forall t S, 0 <= mx t S.
Proof. induction S; simpl; [apply Qle_refl | eapply Qle_trans; [apply IHS | apply qmax_le_r]]. Qed.
Lemma mx_ge : forall t S s, In s S -> Tq t s <= mx t S.
Proof.
  induction S as [|a S IH]; intros s H; [inversion H|]. destruct H as [H|H]; simpl.
  - subst; apply qmax_le_l. - eapply Qle_trans; [apply IH; auto | apply qmax_le_r].
Qed.
Lemma mx_lub : forall t S b, 0 <= b -> (forall s, In s S -> Tq t s <= b) -> mx t S <= b.
Proof.
  induction S as [|a S IH]; intros b Hb H; simpl; auto.
  apply qmax_lub; [apply H; left; auto | apply IH; auto; intros; apply H; right; auto].
Qed.
Lemma mx_app : forall t A B, mx t (A ++ B) == qmax (mx t A) (mx t B).
Proof.
  intros t A B. apply Qle_antisym.
  - apply mx_lub; [eapply Qle_trans; [apply mx_nonneg | apply qmax_le_l]|].
    intros s Hs; apply in_app_or in Hs; destruct Hs; [eapply Qle_trans; [apply mx_ge; eauto | apply qmax_le_l] | eapply Qle_trans; [apply mx_ge; eauto | apply qmax_le_r]].
  - apply qmax_lub; apply mx_lub; try apply mx_nonneg; intros s Hs; apply mx_ge; apply in_or_app; auto.
Qed.
(* appending a point c together with points whose tents are below the tent of c *)
Lemma mx_absorb : forall t S c X, (forall x, In x X -> Tq t x <= Tq t c) -> mx t (S ++ c :: X) == qmax (mx t S) (Tq t c).
Proof.
  intros t S c X HX. rewrite mx_app. apply Qle_antisym; apply qmax_lub.
  - apply qmax_le_l.
  - apply mx_lub; [eapply Qle_trans; [apply Tq_nonneg | apply qmax_le_r]|].
    intros s [Hs|Hs]; [subst; apply qmax_le_r | eapply Qle_trans; [apply HX; auto | apply qmax_le_r]].
  - apply qmax_le_l.
  - eapply Qle_trans; [|apply qmax_le_r]. apply mx_ge; left; auto.
Qed.
Lemma Tq_left : forall t c, Bq c <= Dq c -> t <= fst c -> Tq t c == qmax 0 (t - Bq c).
Proof. intros t c V H. rewrite Tq_expand. pose proof (cp_fst c) as F. assert (F' : fst c * 2 == Bq c + Dq c) by (rewrite F; field). qc. Qed.
Lemma Tq_right : forall t c, Bq c <= Dq c -> fst c <= t -> Tq t c == qmax 0 (Dq c - t).
Proof. intros t c V H. rewrite Tq_expand. pose proof (cp_fst c) as F. assert (F' : fst c * 2 == Bq c + Dq c) by (rewrite F; field). qc. Qed.

(* ---------------- evaluation on appended breakpoint lists *)
Lemma interp_from_app_in : forall l p m t, (exists q, In q l /\ t <= fst q) -> interp_from p (l ++ m) t = interp_from p l t.
Proof.
  induction l as [|a l IH]; intros p m t [q [Hq Ht]]; [inversion Hq|]. simpl.
  destruct (Qle_bool t (fst a)) eqn:E; auto.
  apply IH. destruct Hq as [Hq|Hq]; [subst; apply Qle_bool_iff in Ht; congruence | exists q; auto].
Qed.
Lemma last_cons : forall (l : list pt) a p, last (a :: l) p = last l a.
Proof.
  induction l as [|b l IH]; intros a p; [reflexivity|].
  change (last (a :: b :: l) p) with (last (b :: l) p). rewrite (IH b p), (IH b a). reflexivity.
Qed.
Lemma interp_from_app_out : forall l p m t, (forall q, In q l -> fst q < t) -> interp_from p (l ++ m) t = interp_from (last l p) m t.
Proof.
  induction l as [|a l IH]; intros p m t H; [reflexivity|]. simpl app. cbn [interp_from].
  assert (E : Qle_bool t (fst a) = false).
  { destruct (Qle_bool t (fst a)) eqn:E; auto. apply Qle_bool_iff in E. specialize (H a (or_introl eq_refl)). lra. }
  rewrite E. rewrite IH by (intros; apply H; right; auto). rewrite last_cons. reflexivity.
Qed.

(* ---------------- weakly increasing breakpoint lists (equal neighbours allowed, removed later by std::unique) *)
Definition wle (p q : pt) : Prop := fst p < fst q \/ (fst p == fst q /\ snd p == snd q).
Fixpoint wsorted_from (p : pt) (l : list pt) : Prop :=
  match l with [] => True | q :: tl => wle p q /\ wsorted_from q tl end.
Lemma wsorted_from_app : forall l p m, wsorted_from p l -> wsorted_from (last l p) m -> wsorted_from p (l ++ m).
Proof.
  induction l as [|a l IH]; intros p m H1 H2; [exact H2|].
  simpl in H1. destruct H1 as [H1 H1']. simpl app. split; auto. apply IH; auto. rewrite last_cons in H2. exact H2.
Qed.

Definition p0 : pt := (- INF, 0).

Section Geo.
  Variable cps : list pt.
  Hypothesis Heps : epssep cps.

  Definition GeoInv (TL rest S : list pt) (L : pt) : Prop :=
    S ++ rest = cps /\ In L S /\ lexsorted rest /\ (forall r, In r rest -> lexle L r) /\ validl rest /\ Bq L <= Dq L /\
    (exists pre, TL = pre ++ [L]) /\ (forall q, In q TL -> fst q <= fst L) /\ wsorted_from p0 TL /\
    (forall t, - INF < t -> t <= fst L -> interp_from p0 TL t == mx t S) /\
    (forall t, fst L <= t -> mx t S == Tq t L).

  Lemma mid_le : forall a b, Bq a <= Bq b -> Dq a <= Dq b -> fst a <= fst b.
  Proof.
    intros a b H1 H2. pose proof (cp_fst a) as Fa. pose proof (cp_fst b) as Fb.
    assert (fst a * 2 == Bq a + Dq a) by (rewrite Fa; field). assert (fst b * 2 == Bq b + Dq b) by (rewrite Fb; field). lra.
  Qed.
  Lemma mid_lt : forall a b, Bq a <= Bq b -> Dq a < Dq b -> fst a < fst b.
  Proof.
    intros a b H1 H2. pose proof (cp_fst a) as Fa. pose proof (cp_fst b) as Fb.
    assert (fst a * 2 == Bq a + Dq a) by (rewrite Fa; field). assert (fst b * 2 == Bq b + Dq b) by (rewrite Fb; field). lra.
  Qed.
  Lemma last_app1 : forall (l : list pt) a d, last (l ++ [a]) d = a.
  Proof. intros; apply last_last. Qed.

  (* one more peak c after the segments m: the geometric facts are re-established *)
  Lemma geo_step : forall pre L S c X m,
    In L S ->
    (forall q, In q (pre ++ [L]) -> fst q <= fst L) ->
    (forall t, - INF < t -> t <= fst L -> interp_from p0 (pre ++ [L]) t == mx t S) ->
    (forall t, fst L <= t -> mx t S == Tq t L) ->
    Bq L <= Dq L -> Bq c <= Dq c -> Bq L <= Bq c -> Dq L <= Dq c ->
    (forall x, In x X -> Bq c <= Bq x /\ Dq x <= Dq c) ->
    (forall q, In q m -> fst q <= fst c) ->
    (forall t, fst L < t -> t <= fst c -> interp_from L (m ++ [c]) t == qmax (Tq t L) (Tq t c)) ->
    (forall q, In q (((pre ++ [L]) ++ m) ++ [c]) -> fst q <= fst c) /\
    (forall t, - INF < t -> t <= fst c -> interp_from p0 (((pre ++ [L]) ++ m) ++ [c]) t == mx t (S ++ c :: X)) /\
    (forall t, fst c <= t -> mx t (S ++ c :: X) == Tq t c).
  Proof.
    intros pre L S c X m HLS G3 G4 G5 VL Vc HB HD HX Hm Hseg.
    assert (Hmid : fst L <= fst c) by (apply mid_le; auto).
    assert (Habs : forall t, mx t (S ++ c :: X) == qmax (mx t S) (Tq t c)).
    { intros t. apply mx_absorb. intros x Hx; destruct (HX x Hx); apply Tq_nested; auto. }
    split; [|split].
    - intros q Hq. apply in_app_or in Hq. destruct Hq as [Hq|[Hq|[]]]; [|subst; apply Qle_refl].
      apply in_app_or in Hq. destruct Hq as [Hq|Hq]; [specialize (G3 q Hq); lra | apply Hm; auto].
    - intros t Ht0 Ht. rewrite Habs. rewrite <- app_assoc.
      destruct (Qlt_le_dec (fst L) t) as [Hlt|Hle].
      + rewrite interp_from_app_out by (intros q Hq; specialize (G3 q Hq); lra).
        rewrite last_app1. rewrite Hseg by auto. rewrite G5 by lra. reflexivity.
      + rewrite interp_from_app_in by (exists L; split; [apply in_or_app; right; left; auto | auto]).
        rewrite G4 by auto.
        assert (Hc : Tq t c <= mx t S).
        { eapply Qle_trans; [|apply (mx_ge t S L HLS)].
          rewrite (Tq_left t L) by auto. eapply Qle_trans; [apply Tq_le_birth|]. qc. }
        apply Qle_antisym; [apply qmax_le_l | apply qmax_lub; [apply Qle_refl | exact Hc]].
    - intros t Ht. rewrite Habs. rewrite G5 by lra.
      rewrite (Tq_right t L) by (auto; lra). rewrite (Tq_right t c) by auto. qc.
  Qed.

  Lemma geo_level_inv : forall fuel TL newc rest S L lam' newc',
    sweep_level fuel (p0 :: TL) newc rest = Some (lam', newc') -> GeoInv TL rest S L ->
    exists TL' L', lam' = p0 :: TL' /\ GeoInv TL' [] cps L'.
  Proof.
    induction fuel as [|fuel IH]; intros TL newc rest S L lam' newc' H Inv; [discriminate|].
    cbn [sweep_level] in H. destruct rest as [|c tl].
    - inversion H; subst. exists TL, L. split; auto. destruct Inv as [I0 I]. rewrite app_nil_r in I0. subst S. split; [apply app_nil_r | exact I].
    - destruct Inv as [I0 [I1 [I2 [I3 [I4 [VL [[pre G1] [G3 [GW [G4 G5]]]]]]]]]]. subst TL.
      assert (EL : lastpt (p0 :: pre ++ [L]) = L).
      { unfold lastpt. change (p0 :: pre ++ [L]) with ((p0 :: pre) ++ [L]). apply last_last. }
      rewrite EL in H.
      assert (HLc : lexle L c) by (apply I3; left; auto).
      assert (HB : Bq L <= Bq c) by (apply lexle_B; auto).
      assert (Hc_in : In c cps) by (rewrite <- I0; apply in_or_app; right; left; auto).
      assert (Htl_in : forall x, In x tl -> In x cps) by (intros x Hx; rewrite <- I0; apply in_or_app; right; right; auto).
      destruct (SS_cons_inv _ _ I2) as [Stl Hctl].
      assert (Hvc : Bq c <= Dq c) by (apply I4; left; auto).
      assert (E1 : Qle_bool (minus_length L) (minus_length c) = true) by (apply Qle_bool_iff; exact HB).
      rewrite E1 in H. simpl andb in H.
      pose proof (cp_fst L) as FL. pose proof (cp_snd L) as SL. pose proof (cp_fst c) as Fc. pose proof (cp_snd c) as Sc.
      assert (FL' : fst L * 2 == Bq L + Dq L) by (rewrite FL; field).
      assert (Fc' : fst c * 2 == Bq c + Dq c) by (rewrite Fc; field).
      assert (SL' : snd L * 2 == Dq L - Bq L) by (rewrite SL; field).
      assert (Sc' : snd c * 2 == Dq c - Bq c) by (rewrite Sc; field).
      destruct (Qlt_bool (birth_plus_deaths L) (birth_plus_deaths c)) eqn:E2.
      + apply Qlt_bool_iff'' in E2. fold (Dq L) (Dq c) in E2.
        destruct (Qlt_bool (minus_length c) (birth_plus_deaths L)) eqn:E3.
        * (* crossing *)
          apply Qlt_bool_iff'' in E3. fold (Bq c) (Dq L) in E3.
          fold (cross_point L c) in H. set (P := cross_point L c) in *.
          destruct (take_eq_birth P tl newc) as [new1 l1] eqn:T1. cbv beta iota zeta in H.
          match type of H with context [take_dominated ?a ?b ?c] => destruct (take_dominated a b c) as [new3 l2] eqn:T2 end.
          destruct (take_eq_birth_spec _ _ _ _ _ T1) as [tk1 [N1 [L1 [C1 _]]]].
          destruct (take_dominated_spec _ _ _ _ _ T2) as [tk2 [N3 [L2 [C2 _]]]].
          subst l1 tl.
          pose proof (cross_point_B L c) as PB. pose proof (cross_point_D L c) as PD. fold P in PB, PD.
          pose proof (cross_point_fst L c) as FP. pose proof (cross_point_snd L c) as SP. fold P in FP, SP.
          assert (FP' : fst P * 2 == Bq c + Dq L) by (rewrite FP; field).
          assert (SP' : snd P * 2 == Dq L - Bq c) by (rewrite SP; field).
          assert (F1 : forall x, In x tk1 -> Bq c <= Bq x /\ Dq x <= Dq c).
          { intros x Hx. specialize (C1 x Hx). unfold eqb_cond in C1. apply andb_prop in C1. destruct C1 as [A1 A2].
            fold (Bq P) (Bq x) in A1.
            assert (Hx_in : In x cps) by (apply Htl_in; apply in_or_app; auto).
            assert (Hcx : lexle c x) by (apply Hctl; apply in_or_app; auto).
            assert (Ecx : Bq c == Bq x).
            { apply Heps; auto. rewrite <- (almost_equal_comp _ _ _ _ PB (Qeq_refl (Bq x))). exact A1. }
            split; [lra|]. destruct Hcx as [Hlt|[_ Hd]]; [lra | auto]. }
          assert (F2 : forall x, In x tk2 -> Bq c <= Bq x /\ Dq x <= Dq c).
          { intros x Hx. specialize (C2 x Hx). unfold dom_cond in C2. apply andb_prop in C2. destruct C2 as [A1 A2].
            apply Qle_bool_iff in A1. apply Qle_bool_iff in A2. fold (Bq P) (Bq x) in A1. fold (Dq P) (Dq x) in A2. split; lra. }
          destruct (geo_step pre L S c (tk1 ++ tk2) [P] I1 G3 G4 G5 VL Hvc HB ltac:(lra)) as [G3' [G4' G5']].
          { intros x Hx; apply in_app_or in Hx; destruct Hx; auto. }
          { intros q [Hq|[]]; subst q. lra. }
          { intros t Ht1 Ht2. apply geo_cross; auto. }
          change ((p0 :: pre ++ [L]) ++ [P; c]) with (p0 :: (pre ++ [L]) ++ [P; c]) in H.
          replace ((pre ++ [L]) ++ [P; c]) with (((pre ++ [L]) ++ [P]) ++ [c]) in H by (rewrite <- !app_assoc; reflexivity).
          apply (IH _ _ _ (S ++ c :: tk1 ++ tk2) c _ _ H). unfold GeoInv.
          split; [rewrite <- I0; rewrite <- !app_assoc; simpl; rewrite <- !app_assoc; reflexivity|].
          split; [apply in_or_app; right; left; auto|].
          destruct (SS_app_inv _ _ Stl) as [_ [Sl1 _]]. destruct (SS_app_inv _ _ Sl1) as [_ [Sl2 _]].
          split; [exact Sl2|].
          split; [intros r Hr; apply Hctl; apply in_or_app; right; apply in_or_app; right; auto|].
          split; [intros x Hx; apply I4; right; apply in_or_app; right; apply in_or_app; right; auto|].
          split; [exact Hvc|].
          split; [eexists; reflexivity|].
          split; [exact G3'|].
          split.
          { rewrite <- app_assoc. apply wsorted_from_app; auto. rewrite last_app1. simpl. split; [|split; auto].
            - unfold wle. destruct (Qlt_le_dec (Bq L) (Bq c)); [left; lra | right; split; lra].
            - left. lra. }
          split; [exact G4' | exact G5'].
        * (* disjoint or touching *)
          assert (E3' : Dq L <= Bq c).
          { destruct (Qlt_le_dec (Bq c) (Dq L)) as [Hlt|]; auto. apply Qlt_bool_iff'' in Hlt. unfold Bq, Dq in Hlt. congruence. }
          fold (Dq L) (Bq c) in H.
          destruct (geo_step pre L S c [] [(Dq L, 0); (Bq c, 0)] I1 G3 G4 G5 VL Hvc HB ltac:(lra)) as [G3' [G4' G5']].
          { intros x []. }
          { intros q [Hq|[Hq|[]]]; subst q; simpl; lra. }
          { intros t Ht1 Ht2. apply geo_disjoint; auto. }
          change ((p0 :: pre ++ [L]) ++ [(Dq L, 0); (Bq c, 0); c]) with (p0 :: (pre ++ [L]) ++ [(Dq L, 0); (Bq c, 0); c]) in H.
          replace ((pre ++ [L]) ++ [(Dq L, 0); (Bq c, 0); c]) with (((pre ++ [L]) ++ [(Dq L, 0); (Bq c, 0)]) ++ [c]) in H by (rewrite <- !app_assoc; reflexivity).
          apply (IH _ _ _ (S ++ [c]) c _ _ H). unfold GeoInv.
          split; [rewrite <- I0; rewrite <- app_assoc; reflexivity|].
          split; [apply in_or_app; right; left; auto|].
          split; [exact Stl|].
          split; [exact Hctl|].
          split; [intros x Hx; apply I4; right; auto|].
          split; [exact Hvc|].
          split; [eexists; reflexivity|].
          split; [exact G3'|].
          split.
          { rewrite <- app_assoc. apply wsorted_from_app; auto. rewrite last_app1. simpl. unfold wle; simpl. repeat split.
            - destruct (Qlt_le_dec (fst L) (Dq L)); [left; auto | right; split; lra].
            - destruct (Qlt_le_dec (Dq L) (Bq c)); [left; auto | right; split; [lra | reflexivity]].
            - destruct (Qlt_le_dec (Bq c) (fst c)); [left; auto | right; split; lra]. }
          split; [exact G4' | exact G5'].
      + (* nested in the last peak: skipped; the breakpoints do not change *)
        assert (E2' : Dq c <= Dq L).
        { destruct (Qlt_le_dec (Dq L) (Dq c)) as [Hlt|]; auto. apply Qlt_bool_iff'' in Hlt. unfold Dq in Hlt. congruence. }
        apply (IH _ _ _ (S ++ [c]) L _ _ H). unfold GeoInv.
        assert (Habs : forall t, mx t (S ++ [c]) == mx t S).
        { intros t. rewrite (mx_absorb t S c []) by (intros x []).
          apply Qle_antisym; [apply qmax_lub; [apply Qle_refl|] | apply qmax_le_l].
          eapply Qle_trans; [apply (Tq_nested t L c); auto | apply mx_ge; auto]. }
        split; [rewrite <- I0; rewrite <- app_assoc; reflexivity|].
        split; [apply in_or_app; left; auto|].
        split; [exact Stl|].
        split; [intros r Hr; apply I3; right; auto|].
        split; [intros x Hx; apply I4; right; auto|].
        split; [exact VL|].
        split; [eexists; reflexivity|].
        split; [exact G3|].
        split; [exact GW|].
        split; [intros t Ht0 Ht; rewrite Habs; apply G4; auto | intros t Ht; rewrite Habs; apply G5; auto].
  Qed.
End Geo.

(* ---------------- std::unique on a weakly increasing list *)
Definition ptQ (p q : pt) : Prop := fst p == fst q /\ snd p == snd q.
Lemma pt_eqb_true : forall p q, pt_eqb p q = true -> ptQ p q.
Proof. intros p q H; unfold pt_eqb in H; apply andb_prop in H; destruct H as [H1 H2]; apply Qeq_bool_iff in H1; apply Qeq_bool_iff in H2; split; auto. Qed.
Lemma pt_eqb_false : forall p q, pt_eqb p q = false -> ~ ptQ p q.
Proof.
  intros p q H [H1 H2]. unfold pt_eqb in H. apply Qeq_bool_iff in H1. apply Qeq_bool_iff in H2. rewrite H1, H2 in H. discriminate.
Qed.
Lemma unique_cons2 : forall p q tl, unique_pts (p :: q :: tl) = if pt_eqb p q then unique_pts (q :: tl) else p :: unique_pts (q :: tl).
Proof. reflexivity. Qed.

Lemma line_val_extQ : forall p p' q q' t, ptQ p p' -> ptQ q q' -> line_val p q t == line_val p' q' t.
Proof. intros p p' q q' t [Hx Hy] [Hx' Hy']; unfold line_val. rewrite Hx, Hx', Hy, Hy'. reflexivity. Qed.

(* the result is strictly increasing, starts with a copy of the first point, and is the same PL function to the right of it *)
Lemma unique_spec : forall l p, wsorted_from p l ->
  exists p' r, unique_pts (p :: l) = p' :: r /\ ptQ p p' /\ xsorted (p' :: r) /\
               forall t, fst p < t -> interp_from p' r t == interp_from p l t.
Proof.
  induction l as [|q tl IH]; intros p Hw.
  - exists p, []. repeat split; try reflexivity. unfold xsorted; simpl; repeat constructor.
  - simpl in Hw. destruct Hw as [Hpq Hw]. destruct (IH q Hw) as [q' [r [EU [Hqq' [Hs Hi]]]]].
    rewrite unique_cons2. destruct (pt_eqb p q) eqn:E.
    + apply pt_eqb_true in E. exists q', r. split; auto. split; [destruct E, Hqq'; split; lra|]. split; auto.
      intros t Ht. destruct E as [Ex Ey]. cbn [interp_from].
      assert (E' : Qle_bool t (fst q) = false).
      { destruct (Qle_bool t (fst q)) eqn:E'; auto. apply Qle_bool_iff in E'. lra. }
      rewrite E'. apply Hi. lra.
    + apply pt_eqb_false in E.
      assert (Hlt : fst p < fst q) by (destruct Hpq as [H|H]; [auto | exfalso; apply E; exact H]).
      rewrite EU. exists p, (q' :: r). split; auto. split; [split; reflexivity|]. destruct Hqq' as [Qx Qy].
      split.
      { unfold xsorted in *. simpl in *. constructor; auto. inversion Hs as [|? ? _ Hall]; subst.
        constructor; [lra|]. eapply Forall_impl; [|exact Hall]. intros a Ha; simpl in Ha. lra. }
      intros t Ht. cbn [interp_from]. rewrite <- Qx.
      destruct (Qle_bool t (fst q)) eqn:E'.
      * apply line_val_extQ; [split; reflexivity | split; [symmetry; auto | symmetry; auto]].
      * apply Qle_bool_false in E'. apply Hi. exact E'.
Qed.
Lemma unique_snoc : forall l y z, pt_eqb y z = false -> unique_pts (l ++ [y; z]) = unique_pts (l ++ [y]) ++ [z].
Proof.
  induction l as [|a l IH]; intros y z H.
  - simpl. rewrite H. reflexivity.
  - destruct l as [|b l'].
    + simpl app. rewrite !unique_cons2. destruct (pt_eqb a y); simpl; rewrite H; reflexivity.
    + change ((a :: b :: l') ++ [y; z]) with (a :: b :: (l' ++ [y; z])). change ((a :: b :: l') ++ [y]) with (a :: b :: (l' ++ [y])).
      rewrite !unique_cons2. change (b :: l' ++ [y; z]) with ((b :: l') ++ [y; z]). change (b :: l' ++ [y]) with ((b :: l') ++ [y]).
      rewrite (IH y z H). destruct (pt_eqb a b); reflexivity.
Qed.
Lemma unique_last : forall l y d, last (unique_pts (l ++ [y])) d = y.
Proof.
  induction l as [|a l IH]; intros y d; [reflexivity|].
  destruct l as [|b l'].
  - simpl app. rewrite unique_cons2. destruct (pt_eqb a y); reflexivity.
  - change ((a :: b :: l') ++ [y]) with (a :: b :: (l' ++ [y])). rewrite unique_cons2.
    change (b :: l' ++ [y]) with ((b :: l') ++ [y]). destruct (pt_eqb a b); [apply IH|].
    rewrite last_cons. apply IH.
Qed.

Lemma sweep_level_prefix : forall fuel lam newc rest lam' newc',
  sweep_level fuel lam newc rest = Some (lam', newc') -> exists ext, lam' = lam ++ ext.
Proof.
  induction fuel as [|fuel IH]; intros lam newc rest lam' newc' H; [discriminate|].
  cbn [sweep_level] in H. destruct rest as [|c tl].
  - inversion H; subst. exists []. rewrite app_nil_r; auto.
  - destruct (Qle_bool (minus_length (lastpt lam)) (minus_length c) && Qlt_bool (birth_plus_deaths (lastpt lam)) (birth_plus_deaths c)).
    + destruct (Qlt_bool (minus_length c) (birth_plus_deaths (lastpt lam))).
      * match type of H with context [take_eq_birth ?a ?b ?c] => destruct (take_eq_birth a b c) as [new1 l1] end.
        cbv beta iota zeta in H.
        match type of H with context [take_dominated ?a ?b ?c] => destruct (take_dominated a b c) as [new3 l2] end.
        destruct (IH _ _ _ _ _ H) as [ext E]. eexists. rewrite E, <- app_assoc. reflexivity.
      * destruct (IH _ _ _ _ _ H) as [ext E]. eexists. rewrite E, <- app_assoc. reflexivity.
    + apply (IH _ _ _ _ _ H).
Qed.
Lemma last_nth : forall (l : list pt) d, last l d = nth (length l - 1) l d.
Proof.
  induction l as [|a l IH]; intros d; [reflexivity|]. destruct l as [|b l']; [reflexivity|].
  change (last (a :: b :: l') d) with (last (b :: l') d). rewrite IH. simpl. rewrite Nat.sub_0_r. reflexivity.
Qed.
Lemma unique_nonempty : forall m, m <> [] -> unique_pts m <> [].
Proof.
  induction m as [|p m IH]; intros H; [congruence|]. destruct m as [|q m']; [discriminate|].
  rewrite unique_cons2. destruct (pt_eqb p q); [apply IH; discriminate | discriminate].
Qed.

Definition boundedl (l : list pt) : Prop := forall c, In c l -> - INF < Bq c /\ Dq c < INF.

(* one level: the breakpoint list that the sweep stores is strictly increasing, vanishes at its two outer points on either
   side, starts at -INF, ends at INF, and is the upper envelope of the tents of the swept characteristic points *)
Theorem one_level_envelope : forall cps F newc, one_level cps = Some (F, newc) ->
  lexsorted cps -> validl cps -> epssep cps -> boundedl cps ->
  xsorted F /\ (3 <= length F)%nat /\
  snd (nthp F 0) == 0 /\ snd (nthp F 1) == 0 /\ snd (nthp F (length F - 2)) == 0 /\ snd (nthp F (length F - 1)) == 0 /\
  fst (nthp F 0) == - INF /\ fst (nthp F (length F - 1)) == INF /\
  forall t, - INF < t -> interp F t == mx t cps.
Proof.
  intros cps F newc H Hs Hv He Hb. unfold one_level in H. destruct cps as [|c0 tl]; [discriminate|].
  destruct (sweep_level (S (length (c0 :: tl))) [(- INF, 0); (minus_length c0, 0); c0] [] tl) as [[lam newc']|] eqn:E; [|discriminate].
  injection H as EF EN. subst newc'.
  destruct (SS_cons_inv _ _ Hs) as [Stl Hc0].
  destruct (Hb c0 (or_introl eq_refl)) as [Hb0 Hd0].
  assert (Hv0 : Bq c0 <= Dq c0) by (apply Hv; left; auto).
  pose proof (cp_fst c0) as Fc. pose proof (cp_snd c0) as Sc.
  assert (Fc' : fst c0 * 2 == Bq c0 + Dq c0) by (rewrite Fc; field).
  assert (Sc' : snd c0 * 2 == Dq c0 - Bq c0) by (rewrite Sc; field).
  assert (Inv0 : GeoInv (c0 :: tl) [(Bq c0, 0); c0] tl [c0] c0).
  { unfold GeoInv. split; [reflexivity|]. split; [left; auto|]. split; [exact Stl|]. split; [exact Hc0|].
    split; [intros x Hx; apply Hv; right; auto|]. split; [exact Hv0|]. split; [exists [(Bq c0, 0)]; reflexivity|].
    split; [intros q [Hq|[Hq|[]]]; subst q; simpl; lra|].
    split.
    { simpl. unfold wle; simpl. repeat split; [left; exact Hb0|].
      destruct (Qlt_le_dec (Bq c0) (fst c0)); [left; auto | right; split; lra]. }
    assert (Hm : forall t, mx t [c0] == Tq t c0).
    { intros t. simpl. apply Qle_antisym; [apply qmax_lub; [apply Qle_refl | apply Tq_nonneg] | apply qmax_le_l]. }
    split; [intros t Ht0 Ht; rewrite Hm; apply geo_init; auto | intros t Ht; apply Hm]. }
  change [(- INF, 0); (minus_length c0, 0); c0] with (p0 :: [(Bq c0, 0); c0]) in E.
  destruct (sweep_level_prefix _ _ _ _ _ _ E) as [ext Eext].
  destruct (geo_level_inv (c0 :: tl) He _ _ _ _ _ _ _ _ E Inv0) as [TL [L [Elam [_ [IL [_ [_ [_ [VL [[pre G1] [G3 [GW [G4 G5]]]]]]]]]]]]].
  rewrite Elam in Eext. assert (ETL : TL = [(Bq c0, 0); c0] ++ ext) by (inversion Eext; auto). clear Eext.
  subst lam.
  assert (EL : lastpt (p0 :: TL) = L).
  { rewrite G1. unfold lastpt. change (p0 :: pre ++ [L]) with ((p0 :: pre) ++ [L]). apply last_last. }
  rewrite EL in EF. fold (Dq L) in EF.
  destruct (Hb L IL) as [HbL HdL].
  pose proof (cp_fst L) as FL. pose proof (cp_snd L) as SL.
  assert (FL' : fst L * 2 == Bq L + Dq L) by (rewrite FL; field).
  assert (SL' : snd L * 2 == Dq L - Bq L) by (rewrite SL; field).
  set (y := (Dq L, 0)) in *. set (z := (INF, 0)) in *.
  assert (Hyz : pt_eqb y z = false).
  { unfold pt_eqb, y, z; simpl. destruct (Qeq_bool (Dq L) INF) eqn:Eq; auto. apply Qeq_bool_iff in Eq. lra. }
  change ((p0 :: TL) ++ [y; z]) with (p0 :: (TL ++ [y; z])) in EF.
  assert (GW' : wsorted_from p0 (TL ++ [y; z])).
  { apply wsorted_from_app; auto. rewrite G1, last_app1. simpl. unfold wle, y, z; simpl. repeat split.
    - destruct (Qlt_le_dec (fst L) (Dq L)); [left; auto | right; split; lra].
    - left; exact HdL. }
  destruct (unique_spec _ _ GW') as [p' [r [EU [Hp' [Hxs Hint]]]]].
  assert (EW : unique_pts (p0 :: TL ++ [y; z]) = unique_pts ((p0 :: TL) ++ [y]) ++ [z]).
  { change (p0 :: TL ++ [y; z]) with ((p0 :: TL) ++ [y; z]). apply unique_snoc; auto. }
  pose proof EF as EF0. rewrite EF in EU, EW. clear EF.
  (* the function *)
  assert (Hfun : forall t, - INF < t -> interp F t == mx t (c0 :: tl)).
  { intros t Ht. rewrite EU. destruct Hp' as [Px Py]. simpl in Px. cbn [interp].
    assert (E' : Qle_bool t (fst p') = false).
    { destruct (Qle_bool t (fst p')) eqn:E'; auto. apply Qle_bool_iff in E'. lra. }
    rewrite E'. rewrite Hint by (simpl; exact Ht).
    destruct (Qlt_le_dec (fst L) t) as [Hlt|Hle].
    - rewrite interp_from_app_out by (intros q Hq; specialize (G3 q Hq); lra).
      rewrite G1, last_app1. unfold y, z. rewrite geo_final by auto. symmetry. apply G5. lra.
    - rewrite interp_from_app_in by (exists L; split; [rewrite G1; apply in_or_app; right; left; auto | auto]).
      apply G4; auto. }
  (* the two ends *)
  set (U := unique_pts ((p0 :: TL) ++ [y])) in *.
  assert (HlastU : forall d, last U d = y) by (intros d; apply unique_last).
  assert (HU2 : (2 <= length U)%nat).
  { destruct U as [|u0 U'] eqn:EUU; [exfalso; apply (unique_nonempty ((p0 :: TL) ++ [y])); [discriminate | exact EUU]|].
    destruct U' as [|u1 U'']; [|simpl; lia]. exfalso.
    specialize (HlastU pt0). simpl in HlastU. rewrite EU in EW. simpl in EW. inversion EW; subst p'.
    destruct Hp' as [Px _]. rewrite HlastU in Px. simpl in Px. lra. }
  assert (Hlen : length F = S (length U)) by (rewrite EW, app_length; simpl; lia).
  split; [rewrite EU; exact Hxs|]. split; [lia|].
  assert (F0 : nthp F 0 = p') by (rewrite EU; reflexivity).
  assert (Flast : nthp F (length F - 1) = z).
  { unfold nthp. rewrite Hlen, EW. replace (S (length U) - 1)%nat with (length U) by lia. rewrite app_nth2 by lia. rewrite Nat.sub_diag. reflexivity. }
  assert (Flast2 : nthp F (length F - 2) = y).
  { unfold nthp. rewrite Hlen, EW. replace (S (length U) - 2)%nat with (length U - 1)%nat by lia. rewrite app_nth1 by lia.
    rewrite <- last_nth. apply HlastU. }
  assert (F1 : snd (nthp F 1) == 0).
  { rewrite <- EF0. rewrite ETL. simpl app. rewrite unique_cons2.
    assert (E01 : pt_eqb p0 (Bq c0, 0) = false).
    { unfold pt_eqb, p0; simpl. destruct (Qeq_bool (- INF) (Bq c0)) eqn:Eq; auto. apply Qeq_bool_iff in Eq. lra. }
    rewrite E01. rewrite ETL in GW'. simpl in GW'. destruct GW' as [_ GW''].
    destruct (unique_spec (c0 :: ext ++ [y; z]) (Bq c0, 0) GW'') as [q' [r' [EU' [[_ Qy] _]]]]. rewrite EU'. unfold nthp; simpl. rewrite <- Qy. reflexivity. }
  destruct Hp' as [Px Py]. rewrite F0, Flast, Flast2. simpl in Px, Py.
  repeat split; try (unfold y, z; simpl; lra); auto. 
Qed.

(* ---------------- bounds are inherited by the list handed to the next level *)
Lemma sweep_level_bounded : forall fuel lam newc rest lam' newc',
  sweep_level fuel lam newc rest = Some (lam', newc') ->
  Dq (lastpt lam) < INF -> boundedl rest -> boundedl newc -> boundedl newc'.
Proof.
  induction fuel as [|fuel IH]; intros lam newc rest lam' newc' H HL Hr Hn; [discriminate|].
  cbn [sweep_level] in H. destruct rest as [|c tl].
  - inversion H; subst; auto.
  - assert (Hc : - INF < Bq c /\ Dq c < INF) by (apply Hr; left; auto).
    assert (Htl : boundedl tl) by (intros x Hx; apply Hr; right; auto).
    destruct (Qle_bool (minus_length (lastpt lam)) (minus_length c) && Qlt_bool (birth_plus_deaths (lastpt lam)) (birth_plus_deaths c)).
    + destruct (Qlt_bool (minus_length c) (birth_plus_deaths (lastpt lam))).
      * fold (cross_point (lastpt lam) c) in H. set (P := cross_point (lastpt lam) c) in *.
        destruct (take_eq_birth P tl newc) as [new1 l1] eqn:T1. cbv beta iota zeta in H.
        match type of H with context [take_dominated ?a ?b ?c] => destruct (take_dominated a b c) as [new3 l2] eqn:T2 end.
        destruct (take_eq_birth_spec _ _ _ _ _ T1) as [tk1 [N1 [L1 _]]].
        destruct (take_dominated_spec _ _ _ _ _ T2) as [tk2 [N3 [L2 _]]]. subst.
        apply (IH _ _ _ _ _ H).
        -- rewrite lastpt_app2. apply Hc.
        -- intros x Hx. apply Htl. apply in_or_app; right; apply in_or_app; right; auto.
        -- intros x Hx. apply in_app_or in Hx. destruct Hx as [Hx|Hx]; [|apply Htl; apply in_or_app; right; apply in_or_app; left; auto].
           apply in_app_or in Hx. destruct Hx as [Hx|[Hx|[]]].
           ++ apply in_app_or in Hx. destruct Hx as [Hx|Hx]; [apply Hn; auto | apply Htl; apply in_or_app; left; auto].
           ++ subst x. pose proof (cross_point_B (lastpt lam) c) as PB. pose proof (cross_point_D (lastpt lam) c) as PD. fold P in PB, PD. destruct Hc. split; lra.
      * apply (IH _ _ _ _ _ H); auto. rewrite lastpt_app3. apply Hc.
    + apply (IH _ _ _ _ _ H); auto. intros x Hx. apply in_app_or in Hx. destruct Hx as [Hx|[Hx|[]]]; [apply Hn; auto | subst; auto].
Qed.
Lemma one_level_bounded : forall cps F newc, one_level cps = Some (F, newc) -> boundedl cps -> boundedl newc.
Proof.
  intros cps F newc H Hb. unfold one_level in H. destruct cps as [|c0 tl]; [discriminate|].
  destruct (sweep_level (S (length (c0 :: tl))) [(- INF, 0); (minus_length c0, 0); c0] [] tl) as [[lam newc']|] eqn:E; [|discriminate].
  injection H as _ EN. subst newc'.
  apply (sweep_level_bounded _ _ _ _ _ _ E).
  - change (lastpt [(- INF, 0); (minus_length c0, 0); c0]) with c0. apply Hb; left; auto.
  - intros x Hx; apply Hb; right; auto.
  - intros x [].
Qed.
Lemma residual_bounded : forall j cps R, residual j cps = Some R -> boundedl cps -> boundedl R.
Proof.
  induction j as [|j IH]; intros cps R H Hb; simpl in H; [inversion H; subst; auto|].
  destruct (one_level cps) as [[F newc]|] eqn:E; [|discriminate].
  apply (IH _ _ H). eapply one_level_bounded; eauto.
Qed.

Lemma mx_is_top : forall t S, mx t S == nth 0 (sort_desc (Vq t S)) 0.
Proof.
  intros t S. pose proof (sort_desc_perm (Vq t S)) as HP. pose proof (sort_desc_sorted (Vq t S)) as HS.
  destruct (sort_desc (Vq t S)) as [|a l] eqn:E.
  - apply Permutation_nil in HP. destruct S; [reflexivity | discriminate].
  - simpl. apply Qle_antisym.
    + assert (Ha : In a (Vq t S)) by (eapply Permutation_in; [exact HP | left; auto]).
      destruct (Vq_in _ _ _ Ha) as [c [Hc Ea]]. 
      apply mx_lub; [subst a; apply Tq_nonneg|].
      intros s Hs. assert (Hin : In (Tq t s) (a :: l)).
      { eapply Permutation_in; [apply Permutation_sym; exact HP|]. unfold Vq; apply in_map; auto. }
      destruct Hin as [Hin|Hin]; [rewrite Hin; apply Qle_refl|].
      inversion HS as [|? ? _ Hall]; subst. rewrite Forall_forall in Hall. apply Hall; auto.
    + assert (Ha : In a (Vq t S)) by (eapply Permutation_in; [exact HP | left; auto]).
      destruct (Vq_in _ _ _ Ha) as [c [Hc Ea]]. subst a. apply mx_ge; auto.
Qed.

Lemma value_at_nth : forall land k x, (k < length land)%nat -> value_at land k x = value_at [nth k land []] 0 x.
Proof.
  intros land k x H. unfold value_at. simpl length. 
  assert (E : Nat.leb (length land) k = false) by (apply Nat.leb_gt; auto). rewrite E. reflexivity.
Qed.

Lemma sweep_all_levels : forall fuel d cps acc land, sweep_all fuel 0 d cps acc = Some land ->
  exists n, length land = (length acc + n)%nat /\ (forall i, (i < length acc)%nat -> nth i land [] = nth i acc []) /\
    residual n cps = Some [] /\
    forall j, (j < n)%nat -> exists R F newc, residual j cps = Some R /\ one_level R = Some (F, newc) /\ nth (length acc + j) land [] = F.
Proof.
  induction fuel as [|fuel IH]; intros d cps acc land H; [discriminate|].
  cbn [sweep_all] in H. destruct cps as [|c0 tl].
  - inversion H; subst. exists O. rewrite Nat.add_0_r. repeat split; auto. intros j Hj; lia.
  - destruct (one_level (c0 :: tl)) as [[lam newc]|] eqn:E; [|discriminate].
    change (Nat.eqb 0 (S d)) with false in H. cbv iota in H.
    destruct (IH _ _ _ _ H) as [n [Hlen [Hpre [Hres Hlev]]]]. rewrite app_length in Hlen, Hpre, Hlev. simpl in Hlen, Hpre, Hlev.
    exists (S n). split; [lia|]. split.
    { intros i Hi. rewrite Hpre by lia. apply app_nth1; auto. }
    split; [cbn [residual]; rewrite E; exact Hres|].
    intros j Hj. destruct j as [|j].
    + exists (c0 :: tl), lam, newc. repeat split; auto. rewrite Nat.add_0_r. rewrite Hpre by lia.
      rewrite app_nth2 by lia. rewrite Nat.sub_diag. reflexivity.
    + destruct (Hlev j ltac:(lia)) as [R [F [nc [H1 [H2 H3]]]]]. exists R, F, nc. repeat split; auto.
      * cbn [residual]. rewrite E. exact H1.
      * rewrite <- H3. f_equal. lia.
Qed.

Definition bounded_diagram (D : list (Q * Q)) : Prop := forall bd, In bd D -> - INF < fst bd /\ snd bd < INF.

(* the construction of construct_persistence_landscape_from_barcode followed by compute_value_at_a_given_point computes
   lambda_k(t) for every diagram, every level and every abscissa between the sentinels *)
Theorem sweep_eq_lambda : forall D land, valid_diagram D -> eps_separated D -> bounded_diagram D ->
  construct D 0 = Some land ->
  forall k t, - INF < t -> t < INF -> exists v, value_at land k t = Some v /\ v == lambda D k t.
Proof.
  intros D land Hv He Hb Hc k t Ht0 Ht1.
  change (construct D 0) with (sweep_all (S (length D)) 0 0 (first_cps D) []) in Hc.
  destruct (sweep_all_levels _ _ _ _ _ Hc) as [n [Hlen [_ [Hres Hlev]]]]. simpl in Hlen, Hlev.
  assert (Hs : lexsorted (first_cps D)) by (apply lexsorted_map_to_cp; apply sort_bars_sorted).
  assert (Hin : forall c, In c (first_cps D) -> exists b, In b D /\ c = to_cp b).
  { intros c Hc'. unfold first_cps in Hc'. apply in_map_iff in Hc'. destruct Hc' as [b [Hb' Hin]]. exists b; split; auto.
    eapply Permutation_in; [apply sort_bars_perm | exact Hin]. }
  assert (Hv' : validl (first_cps D)).
  { intros c Hc'. destruct (Hin c Hc') as [b [Hb' Ec]]; subst. rewrite to_cp_B, to_cp_D. apply Hv; auto. }
  assert (He' : epssep (first_cps D)).
  { intros a b Ha Hb' Hab. destruct (Hin a Ha) as [a' [Ha' Ea]]. destruct (Hin b Hb') as [b' [Hb'' Eb]]. subst.
    rewrite !to_cp_B. apply He; auto. rewrite <- (almost_equal_comp _ _ _ _ (to_cp_B a') (to_cp_B b')). exact Hab. }
  assert (Hb' : boundedl (first_cps D)).
  { intros c Hc'. destruct (Hin c Hc') as [b [Hb'' Ec]]; subst. rewrite to_cp_B, to_cp_D. apply Hb; auto. }
  destruct (Nat.lt_ge_cases k n) as [Hk|Hk].
  - destruct (Hlev k Hk) as [R [F [newc [HR [HF HnF]]]]].
    destruct (residual_values _ _ _ HR Hs Hv' He') as [[HsR [HvR HeR]] _].
    pose proof (residual_bounded _ _ _ HR Hb') as HbR.
    destruct (one_level_envelope _ _ _ HF HsR HvR HeR HbR) as [Hxs [Hl3 [Y0 [Y1 [Y2 [Y3 [X0 [X1 Hfun]]]]]]]].
    rewrite value_at_nth by lia. rewrite HnF.
    destruct (value_at_is_interp F t Hxs Hl3 Y0 Y1 Y2 Y3 ltac:(lra) ltac:(lra)) as [v [Hv1 Hv2]].
    exists v. split; auto. rewrite Hv2, Hfun by auto. rewrite mx_is_top.
    rewrite <- (sweep_residual_lambda D k R Hv He HR t 0). rewrite Nat.add_0_r. reflexivity.
  - exists 0. split.
    + unfold value_at. assert (E : Nat.leb (length land) k = true) by (apply Nat.leb_le; lia). rewrite E. reflexivity.
    + replace k with (n + (k - n))%nat by lia. rewrite (sweep_residual_lambda D n [] Hv He Hres t (k - n)).
      simpl. destruct (k - n)%nat; reflexivity.
Qed.
(* ================================================================ the fuel of the transcription never runs out *)
Lemma sweep_level_total : forall fuel lam newc rest, (length rest < fuel)%nat ->
  exists lam' newc', sweep_level fuel lam newc rest = Some (lam', newc') /\ (length newc' <= length newc + length rest)%nat.
Proof.
  induction fuel as [|fuel IH]; intros lam newc rest Hf; [lia|].
  cbn [sweep_level]. destruct rest as [|c tl].
  - exists lam, newc. split; auto. lia.
  - simpl in Hf.
    destruct (Qle_bool (minus_length (lastpt lam)) (minus_length c) && Qlt_bool (birth_plus_deaths (lastpt lam)) (birth_plus_deaths c)).
    + destruct (Qlt_bool (minus_length c) (birth_plus_deaths (lastpt lam))).
      * fold (cross_point (lastpt lam) c). set (P := cross_point (lastpt lam) c).
        destruct (take_eq_birth P tl newc) as [new1 l1] eqn:T1. cbv beta iota zeta.
        match goal with |- context [take_dominated ?a ?b ?c] => destruct (take_dominated a b c) as [new3 l2] eqn:T2 end.
        destruct (take_eq_birth_spec _ _ _ _ _ T1) as [tk1 [N1 [L1 _]]].
        destruct (take_dominated_spec _ _ _ _ _ T2) as [tk2 [N3 [L2 _]]]. subst.
        rewrite !app_length in Hf.
        assert (Hf' : (length l2 < fuel)%nat) by (clear - Hf; lia).
        destruct (IH (lam ++ [P; c]) (((newc ++ tk1) ++ [P]) ++ tk2) l2 Hf') as [lam' [newc' [E Hl]]].
        exists lam', newc'. split; auto. unfold pt in *. rewrite !app_length in *. simpl in *. rewrite !app_length. clear - Hl. lia.
      * destruct (IH (lam ++ [(birth_plus_deaths (lastpt lam), 0); (minus_length c, 0); c]) newc tl ltac:(lia)) as [lam' [newc' [E Hl]]].
        exists lam', newc'. split; auto. simpl. lia.
    + destruct (IH lam (newc ++ [c]) tl ltac:(lia)) as [lam' [newc' [E Hl]]].
      exists lam', newc'. split; auto. rewrite app_length in Hl. simpl in *. lia.
Qed.
Lemma one_level_total : forall cps, cps <> [] -> exists F newc, one_level cps = Some (F, newc) /\ (length newc < length cps)%nat.
Proof.
  intros [|c0 tl] H; [congruence|]. unfold one_level.
  destruct (sweep_level_total (S (length (c0 :: tl))) [(- INF, 0); (minus_length c0, 0); c0] [] tl ltac:(simpl; lia)) as [lam' [newc' [E Hl]]].
  rewrite E. eexists; eexists; split; [reflexivity|]. simpl in *. lia.
Qed.
Lemma sweep_all_total : forall fuel d cps acc, (length cps < fuel)%nat -> exists land, sweep_all fuel 0 d cps acc = Some land.
Proof.
  induction fuel as [|fuel IH]; intros d cps acc Hf; [lia|].
  cbn [sweep_all]. destruct cps as [|c0 tl]; [eexists; reflexivity|].
  destruct (one_level_total (c0 :: tl) ltac:(discriminate)) as [F [newc [E Hl]]]. rewrite E.
  change (Nat.eqb 0 (S d)) with false. cbv iota. apply IH. simpl in *. lia.
Qed.
Theorem construct_total : forall D, exists land, construct D 0 = Some land.
Proof.
  intros D. change (construct D 0) with (sweep_all (S (length D)) 0 0 (first_cps D) []).
  apply sweep_all_total. unfold first_cps. rewrite map_length. pose proof (Permutation_length (sort_bars_perm D)) as E. unfold pt in *. rewrite E. lia.
Qed.

Theorem landscape_equals_definition : forall D, valid_diagram D -> eps_separated D -> bounded_diagram D ->
  exists land, construct D 0 = Some land /\
    forall k t, - INF < t -> t < INF -> exists v, value_at land k t = Some v /\ v == lambda D k t.
Proof.
  intros D Hv He Hb. destruct (construct_total D) as [land Hc]. exists land. split; auto.
  intros k t H0 H1. eapply sweep_eq_lambda; eauto.
Qed.
(* ================================================================ a PL function is linear where it has no breakpoint *)
Lemma line_val_left : forall p q, line_val p q (fst p) == snd p.
Proof. intros p q; unfold line_val. setoid_replace (fst p - fst p) with 0 by ring. unfold Qdiv. ring. Qed.
Lemma interp_segment_closed : forall l i x, xsorted l -> (i + 1 < length l)%nat ->
  fst (nthp l i) <= x -> x <= fst (nthp l (i + 1)) -> interp l x == line_val (nthp l i) (nthp l (i + 1)) x.
Proof.
  intros l i x Hs Hi H1 H2. destruct (Qlt_le_dec (fst (nthp l i)) x) as [Hlt|Hle].
  - apply interp_segment; auto.
  - assert (E : x == fst (nthp l i)) by lra. rewrite (interp_comp l _ _ E).
    rewrite interp_at_breakpoint; auto; [|apply nth_In; lia].
    unfold line_val. rewrite E. setoid_replace (fst (nthp l i) - fst (nthp l i)) with 0 by ring. unfold Qdiv. ring.
Qed.
Lemma interp_left : forall l x, l <> [] -> x <= fst (nthp l 0) -> interp l x == snd (nthp l 0).
Proof.
  intros [|p l] x H Hx; [congruence|]. unfold nthp in *; simpl in *. apply Qle_bool_iff in Hx. rewrite Hx. reflexivity.
Qed.
Lemma interp_from_right : forall l p x, (forall q, In q l -> fst q < x) -> interp_from p l x = snd (last l p).
Proof.
  induction l as [|a l IH]; intros p x H; [reflexivity|]. cbn [interp_from].
  assert (E : Qle_bool x (fst a) = false).
  { destruct (Qle_bool x (fst a)) eqn:E; auto. apply Qle_bool_iff in E. specialize (H a (or_introl eq_refl)). lra. }
  rewrite E. rewrite IH by (intros; apply H; right; auto). rewrite last_cons. reflexivity.
Qed.
Lemma interp_right : forall l x, xsorted l -> l <> [] -> fst (nthp l (length l - 1)) <= x -> interp l x == snd (nthp l (length l - 1)).
Proof.
  intros l x Hs Hne Hx. destruct (Qlt_le_dec (fst (nthp l (length l - 1))) x) as [Hlt|Hle].
  - destruct l as [|p l]; [congruence|]. cbn [interp].
    assert (Hall : forall q, In q (p :: l) -> fst q < x).
    { intros q Hq. destruct (In_nth _ _ pt0 Hq) as [i [Hi Ei]]. 
      destruct (Nat.eq_dec i (length (p :: l) - 1)) as [e|ne].
      - rewrite <- Ei, e. exact Hlt.
      - eapply Qlt_trans; [|exact Hlt]. rewrite <- Ei. apply (xsorted_nth_lt (p :: l)); auto; lia. }
    assert (E : Qle_bool x (fst p) = false).
    { destruct (Qle_bool x (fst p)) eqn:E; auto. apply Qle_bool_iff in E. specialize (Hall p (or_introl eq_refl)). lra. }
    rewrite E. rewrite interp_from_right by (intros; apply Hall; right; auto).
    unfold nthp. rewrite <- (last_nth (p :: l) pt0), last_cons. reflexivity.
  - assert (E : x == fst (nthp l (length l - 1))) by lra. rewrite (interp_comp l _ _ E).
    apply interp_at_breakpoint; auto. apply nth_In. destruct l; [congruence | simpl; lia].
Qed.

Lemma find_segment : forall l a, xsorted l -> fst (nthp l 0) <= a -> a < fst (nthp l (length l - 1)) ->
  exists i, (i + 1 < length l)%nat /\ fst (nthp l i) <= a /\ a < fst (nthp l (i + 1)).
Proof.
  induction l as [|p l IH]; intros a Hs H0 H1; [unfold nthp in *; simpl in *; lra|].
  destruct l as [|q tl]; [unfold nthp in *; simpl in *; lra|].
  destruct (Qlt_le_dec a (fst q)) as [Hlt|Hle].
  - exists O. unfold nthp; simpl. repeat split; auto; lia.
  - assert (Hs' : xsorted (q :: tl)) by (unfold xsorted in *; simpl in *; inversion Hs; auto).
    destruct (IH a Hs' Hle) as [i [Hi [Ha Hb]]].
    { replace (length (q :: tl) - 1)%nat with (length (p :: q :: tl) - 1 - 1)%nat by (simpl; lia).
      change (nthp (q :: tl) (length (p :: q :: tl) - 1 - 1)) with (nthp (p :: q :: tl) (S (length (p :: q :: tl) - 1 - 1))).
      replace (S (length (p :: q :: tl) - 1 - 1)) with (length (p :: q :: tl) - 1)%nat by (simpl; lia). exact H1. }
    exists (S i). repeat split; auto. simpl in *; lia.
Qed.
Lemma line_val_linear : forall p q a b t, ~ fst q - fst p == 0 -> ~ b - a == 0 ->
  line_val p q t == line_val p q a + (line_val p q b - line_val p q a) * ((t - a) / (b - a)).
Proof. intros p q a b t H1 H2; unfold line_val; field; split; auto. Qed.

Theorem interp_linear_between : forall l a b t, xsorted l -> a < b ->
  (forall p, In p l -> ~ (a < fst p /\ fst p < b)) -> a <= t -> t <= b ->
  interp l t == interp l a + (interp l b - interp l a) * ((t - a) / (b - a)).
Proof.
  intros l a b t Hs Hab Hno Hat Htb.
  destruct l as [|p0 l0] eqn:El; [simpl; unfold Qdiv; ring|]. rewrite <- El in *.
  assert (Hne : l <> []) by (rewrite El; discriminate).
  assert (Hlen : (1 <= length l)%nat) by (rewrite El; simpl; lia).
  destruct (Qlt_le_dec (fst (nthp l 0)) b) as [H1|H1].
  2:{ rewrite !(interp_left l) by (auto; lra). unfold Qdiv; ring. }
  destruct (Qlt_le_dec a (fst (nthp l (length l - 1)))) as [H2|H2].
  2:{ rewrite !(interp_right l) by (auto; lra). unfold Qdiv; ring. }
  assert (H0 : fst (nthp l 0) <= a).
  { destruct (Qlt_le_dec a (fst (nthp l 0))) as [Hc|]; auto. exfalso. apply (Hno (nthp l 0)); [apply nth_In; lia | split; auto]. }
  destruct (find_segment l a Hs H0 H2) as [i [Hi [Ha Hb]]].
  assert (Hb' : b <= fst (nthp l (i + 1))).
  { destruct (Qlt_le_dec (fst (nthp l (i + 1))) b) as [Hc|]; auto. exfalso. apply (Hno (nthp l (i + 1))); [apply nth_In; lia | split; auto]. }
  rewrite (interp_segment_closed l i t), (interp_segment_closed l i a), (interp_segment_closed l i b) by (auto; lra).
  apply line_val_linear; [|lra].
  pose proof (xsorted_nth_lt l i (i + 1) Hs ltac:(lia) Hi). lra.
Qed.

(* any strictly increasing breakpoint list that contains the abscissae of two PL functions and carries oper(f,g) at its own
   breakpoints is the pointwise combination everywhere: a finite check decides the correctness of a sum or difference *)
Section Comb.
  Variable oper : Q -> Q -> Q.
  Hypothesis oper_comp : forall a a' b b', a == a' -> b == b' -> oper a b == oper a' b'.
  Hypothesis oper_lin : forall y1 y2 y1' y2' s,
    oper (y1 + (y2 - y1) * s) (y1' + (y2' - y1') * s) == oper y1 y1' + (oper y2 y2' - oper y1 y1') * s.

  Lemma no_point_between : forall (r l : list pt) i (p : pt), xsorted r -> (i + 1 < length r)%nat ->
    (forall p, In p l -> exists q, In q r /\ fst q == fst p) -> In p l ->
    ~ (fst (nthp r i) < fst p /\ fst p < fst (nthp r (i + 1))).
  Proof.
    intros r l i p Hs Hi Hsub Hp [H1 H2]. destruct (Hsub p Hp) as [q [Hq Eq]].
    destruct (In_nth _ _ pt0 Hq) as [j [Hj Ej]]. fold (nthp r j) in Ej. rewrite <- Eq, <- Ej in H1, H2.
    destruct (Nat.lt_trichotomy j i) as [Hlt|[Heq|Hgt]].
    - pose proof (xsorted_nth_lt r j i Hs Hlt ltac:(lia)). lra.
    - subst j. lra.
    - destruct (Nat.eq_dec j (i + 1)) as [e|ne]; [subst j; lra|].
      pose proof (xsorted_nth_lt r (i + 1) j Hs ltac:(lia) Hj). lra.
  Qed.

  Theorem pl_combination_determined : forall l1 l2 r, xsorted l1 -> xsorted l2 -> xsorted r -> r <> [] ->
    (forall p, In p l1 -> exists q, In q r /\ fst q == fst p) ->
    (forall p, In p l2 -> exists q, In q r /\ fst q == fst p) ->
    (forall q, In q r -> snd q == oper (interp l1 (fst q)) (interp l2 (fst q))) ->
    forall t, fst (nthp r 0) <= t -> t <= fst (nthp r (length r - 1)) -> interp r t == oper (interp l1 t) (interp l2 t).
  Proof.
    intros l1 l2 r H1 H2 Hr Hne S1 S2 Hy t Ht0 Ht1.
    assert (Hlen : (1 <= length r)%nat) by (destruct r; [congruence | simpl; lia]).
    assert (Hbp : forall j, (j < length r)%nat -> t == fst (nthp r j) -> interp r t == oper (interp l1 t) (interp l2 t)).
    { intros j Hj E.
      rewrite (interp_comp r _ _ E), (oper_comp _ _ _ _ (interp_comp l1 _ _ E) (interp_comp l2 _ _ E)).
      rewrite interp_at_breakpoint by (auto; apply nth_In; lia). apply Hy. apply nth_In; lia. }
    destruct (Qlt_le_dec t (fst (nthp r (length r - 1)))) as [Hlt|Hge].
    2:{ apply (Hbp (length r - 1)%nat); [lia | lra]. }
    destruct (find_segment r t Hr Ht0 Hlt) as [i [Hi [Ha Hb]]].
    set (a := fst (nthp r i)) in *. set (b := fst (nthp r (i + 1))) in *.
    assert (Hab : a < b) by lra.
    rewrite (interp_segment_closed r i t Hr Hi) by (fold a b; lra).
    assert (E1 := interp_linear_between l1 a b t H1 Hab (fun p Hp => no_point_between r l1 i p Hr Hi S1 Hp) ltac:(lra) ltac:(lra)).
    assert (E2 := interp_linear_between l2 a b t H2 Hab (fun p Hp => no_point_between r l2 i p Hr Hi S2 Hp) ltac:(lra) ltac:(lra)).
    rewrite (oper_comp _ _ _ _ E1 E2). rewrite oper_lin. unfold line_val. fold a b.
    rewrite (Hy (nthp r i)) by (apply nth_In; lia). rewrite (Hy (nthp r (i + 1))) by (apply nth_In; lia).
    fold a b. reflexivity.
  Qed.
End Comb.

Theorem pl_sum_determined : forall l1 l2 r, xsorted l1 -> xsorted l2 -> xsorted r -> r <> [] ->
  (forall p, In p l1 -> exists q, In q r /\ fst q == fst p) ->
  (forall p, In p l2 -> exists q, In q r /\ fst q == fst p) ->
  (forall q, In q r -> snd q == interp l1 (fst q) + interp l2 (fst q)) ->
  forall t, fst (nthp r 0) <= t -> t <= fst (nthp r (length r - 1)) -> interp r t == interp l1 t + interp l2 t.
Proof.
  apply (pl_combination_determined Qplus).
  - intros a a' b b' H H0; rewrite H, H0; reflexivity.
  - intros; ring.
Qed.
Theorem pl_difference_determined : forall l1 l2 r, xsorted l1 -> xsorted l2 -> xsorted r -> r <> [] ->
  (forall p, In p l1 -> exists q, In q r /\ fst q == fst p) ->
  (forall p, In p l2 -> exists q, In q r /\ fst q == fst p) ->
  (forall q, In q r -> snd q == interp l1 (fst q) - interp l2 (fst q)) ->
  forall t, fst (nthp r 0) <= t -> t <= fst (nthp r (length r - 1)) -> interp r t == interp l1 t - interp l2 t.
Proof.
  apply (pl_combination_determined Qminus).
  - intros a a' b b' H H0; rewrite H, H0; reflexivity.
  - intros; ring.
Qed.
(* ================================================================ operation_on_pair_of_landscapes (one level) is pointwise *)
Lemma function_value_swap : forall p q x, ~ fst q - fst p == 0 -> function_value q p x == line_val p q x.
Proof.
  intros p q x H. unfold function_value, line_val, radd, rsub, rmul, rdiv. repeat rewrite Qred_correct. field.
  repeat split; intro E; apply H; lra.
Qed.
Lemma xsorted_snoc : forall l p, xsorted l -> (forall q, In q l -> fst q < fst p) -> xsorted (l ++ [p]).
Proof.
  intros l p Hs Hlt. unfold xsorted in *. rewrite map_app. apply SS_app_intro; auto.
  - simpl. repeat constructor.
  - intros x y Hx Hy. simpl in Hy. destruct Hy as [Hy|[]]. subst y. apply in_map_iff in Hx. destruct Hx as [q [Eq Hq]]. subst x. apply Hlt; auto.
Qed.
Lemma xsorted_app : forall a b, xsorted a -> xsorted b -> (forall p q, In p a -> In q b -> fst p < fst q) -> xsorted (a ++ b).
Proof.
  intros a b Ha Hb Hc. unfold xsorted in *. rewrite map_app. apply SS_app_intro; auto.
  intros x y Hx Hy. apply in_map_iff in Hx. apply in_map_iff in Hy. destruct Hx as [p [Ep Hp]]. destruct Hy as [q [Eq Hq]]. subst. apply Hc; auto.
Qed.
Lemma xsorted_of_nth : forall l, (forall i j, (i < j)%nat -> (j < length l)%nat -> fst (nthp l i) < fst (nthp l j)) -> xsorted l.
Proof.
  induction l as [|p l IH]; intros H; [constructor|]. unfold xsorted; simpl. constructor.
  - apply IH. intros i j Hij Hj. apply (H (S i) (S j)); simpl; lia.
  - apply Forall_forall. intros x Hx. apply in_map_iff in Hx. destruct Hx as [q [Eq Hq]]. subst x.
    destruct (In_nth _ _ pt0 Hq) as [j [Hj Ej]]. rewrite <- Ej. apply (H O (S j)); simpl; lia.
Qed.
(* the elements l[p], ..., l[p+n-1] *)
Definition slice (l : list pt) (p n : nat) : list pt := firstn n (skipn p l).
Lemma nth_firstn_lt : forall (l : list pt) n i d, (i < n)%nat -> nth i (firstn n l) d = nth i l d.
Proof.
  induction l as [|a l IH]; intros n i d H; [rewrite firstn_nil; reflexivity|].
  destruct n; [lia|]. destruct i; [reflexivity|]. simpl. apply IH. lia.
Qed.
Lemma nth_skipn_add : forall (l : list pt) p i d, nth i (skipn p l) d = nth (p + i) l d.
Proof.
  induction l as [|a l IH]; intros p i d; [rewrite skipn_nil; destruct i, p; reflexivity|].
  destruct p; [reflexivity|]. simpl. apply IH.
Qed.
Lemma slice_nth : forall l p n i, (i < n)%nat -> (p + i < length l)%nat -> nthp (slice l p n) i = nthp l (p + i).
Proof. intros l p n i Hi Hl. unfold slice, nthp. rewrite nth_firstn_lt by auto. apply nth_skipn_add. Qed.
Lemma slice_length : forall l p n, (p + n <= length l)%nat -> length (slice l p n) = n.
Proof. intros; unfold slice. rewrite firstn_length, skipn_length. lia. Qed.
Lemma slice_in : forall l p n x, (p + n <= length l)%nat -> In x (slice l p n) -> exists i, (p <= i < p + n)%nat /\ x = nthp l i.
Proof.
  intros l p n x Hl Hx. destruct (In_nth _ _ pt0 Hx) as [i [Hi Ei]]. rewrite slice_length in Hi by auto.
  exists (p + i)%nat. split; [lia|]. rewrite <- Ei. fold (nthp (slice l p n) i). apply slice_nth; lia.
Qed.
Lemma in_slice : forall l p n i, (p + n <= length l)%nat -> (p <= i < p + n)%nat -> In (nthp l i) (slice l p n).
Proof.
  intros l p n i Hl Hi. replace i with (p + (i - p))%nat by lia. rewrite <- (slice_nth l p n (i - p)) by lia.
  apply nth_In. rewrite slice_length by auto. lia.
Qed.

Section Merge.
  Variable oper : Q -> Q -> Q.
  Hypothesis oper_comp : forall a a' b b', a == a' -> b == b' -> oper a b == oper a' b'.
  Variables l1 l2 : list pt.
  Hypothesis S1 : xsorted l1.
  Hypothesis S2 : xsorted l2.
  Hypothesis Hfirst : fst (nthp l1 0) == fst (nthp l2 0).

  Definition MI (p q : nat) (acc : list pt) : Prop :=
    (p <= length l1 - 1)%nat /\ (q <= length l2 - 1)%nat /\
    ((p = 0 /\ q = 0)%nat \/ (1 <= p /\ 1 <= q)%nat) /\
    xsorted acc /\
    (forall a, In a acc -> fst a < fst (nthp l1 p) /\ fst a < fst (nthp l2 q)) /\
    (forall a, In a acc -> snd a == oper (interp l1 (fst a)) (interp l2 (fst a))) /\
    (forall i, (i < p)%nat -> exists a, In a acc /\ fst a == fst (nthp l1 i)) /\
    (forall j, (j < q)%nat -> exists a, In a acc /\ fst a == fst (nthp l2 j)).

  Lemma nth_is_value : forall l i, xsorted l -> (i < length l)%nat -> snd (nthp l i) == interp l (fst (nthp l i)).
  Proof. intros l i Hs Hi. symmetry. apply interp_at_breakpoint; auto. apply nth_In; auto. Qed.

  Lemma merge_main_inv : forall fuel p q acc p' q' acc',
    merge_main fuel oper l1 l2 p q acc = Some (p', q', acc') -> MI p q acc ->
    MI p' q' acc' /\ ~ ((p' + 1 < length l1)%nat /\ (q' + 1 < length l2)%nat).
  Proof.
    induction fuel as [|fuel IH]; intros p q acc p' q' acc' H Inv; [discriminate|].
    cbn [merge_main] in H.
    destruct (Nat.ltb (p + 1) (length l1) && Nat.ltb (q + 1) (length l2)) eqn:Econd.
    2:{ inversion H; subst. split; auto. intros [A B]. apply Nat.ltb_lt in A. apply Nat.ltb_lt in B. rewrite A, B in Econd. discriminate. }
    apply andb_prop in Econd. destruct Econd as [Ep Eq]. apply Nat.ltb_lt in Ep. apply Nat.ltb_lt in Eq.
    destruct Inv as [Ia [Ib [Ic [Ie [Ilt [If [Ig1 Ig2]]]]]]].
    set (P := nthp l1 p) in *. set (R := nthp l2 q) in *.
    assert (HP1 : fst P < fst (nthp l1 (p + 1))) by (apply xsorted_nth_lt; auto; lia).
    assert (HR1 : fst R < fst (nthp l2 (q + 1))) by (apply xsorted_nth_lt; auto; lia).
    destruct (Qlt_bool (fst P) (fst R)) eqn:E1.
    - (* the next abscissa comes from the first operand *)
      apply Qlt_bool_iff'' in E1.
      assert (Hq1 : (1 <= q)%nat).
      { destruct Ic as [[A B]|[A B]]; auto. exfalso. subst p q. unfold P, R in E1. lra. }
      apply (IH _ _ _ _ _ _ H). unfold MI. replace (S p) with (p + 1)%nat by lia. fold P R.
      split; [lia|]. split; [lia|]. split; [right; lia|].
      split; [apply xsorted_snoc; auto; intros a Ha; simpl; apply Ilt; auto|].
      split.
      { intros a Ha. apply in_app_or in Ha. destruct Ha as [Ha|[Ha|[]]].
        - destruct (Ilt a Ha). fold P in H0. split; lra.
        - subst a; simpl. split; lra. }
      split.
      { intros a Ha. apply in_app_or in Ha. destruct Ha as [Ha|[Ha|[]]]; [apply If; auto|]. subst a; simpl.
        apply oper_comp; [apply nth_is_value; auto; lia|].
        destruct (Ig2 (q - 1)%nat ltac:(lia)) as [a [Ha Ea]]. destruct (Ilt a Ha) as [La _]. fold P in La.
        assert (Hlt2 : fst (nthp l2 (q - 1)) < fst (nthp l2 q)) by (apply xsorted_nth_lt; auto; lia).
        rewrite function_value_line_val by (fold R; lra).
        symmetry. unfold R. replace (nthp l2 q) with (nthp l2 (q - 1 + 1)) by (f_equal; lia). apply (interp_segment_closed l2 (q - 1)); auto; try lia.
        - rewrite <- Ea. lra.
        - replace (q - 1 + 1)%nat with q by lia. fold R. lra. }
      split.
      { intros i Hi. destruct (Nat.eq_dec i p) as [e|ne].
        - subst i. exists (fst P, oper (snd P) (function_value (nthp l2 (q - 1)) (nthp l2 q) (fst P))). split; [apply in_or_app; right; left; auto | reflexivity].
        - destruct (Ig1 i ltac:(lia)) as [a [Ha Ea]]. exists a; split; auto. apply in_or_app; auto. }
      intros j Hj. destruct (Ig2 j Hj) as [a [Ha Ea]]. exists a; split; auto. apply in_or_app; auto.
    - destruct (Qlt_bool (fst R) (fst P)) eqn:E2.
      + (* from the second operand *)
        apply Qlt_bool_iff'' in E2.
        assert (Hp1 : (1 <= p)%nat).
        { destruct Ic as [[A B]|[A B]]; auto. exfalso. subst p q. unfold P, R in E2. lra. }
        apply (IH _ _ _ _ _ _ H). unfold MI. replace (S q) with (q + 1)%nat by lia. fold P R.
        split; [lia|]. split; [lia|]. split; [right; lia|].
        split; [apply xsorted_snoc; auto; intros a Ha; simpl; apply Ilt; auto|].
        split.
        { intros a Ha. apply in_app_or in Ha. destruct Ha as [Ha|[Ha|[]]].
          - destruct (Ilt a Ha). fold R in H1. split; lra.
          - subst a; simpl. split; lra. }
        split.
        { intros a Ha. apply in_app_or in Ha. destruct Ha as [Ha|[Ha|[]]]; [apply If; auto|]. subst a; simpl.
          apply oper_comp; [|apply nth_is_value; auto; lia].
          destruct (Ig1 (p - 1)%nat ltac:(lia)) as [a [Ha Ea]]. destruct (Ilt a Ha) as [_ La]. fold R in La.
          assert (Hlt2 : fst (nthp l1 (p - 1)) < fst (nthp l1 p)) by (apply xsorted_nth_lt; auto; lia).
          rewrite function_value_swap by (fold P; lra).
          symmetry. unfold P. replace (nthp l1 p) with (nthp l1 (p - 1 + 1)) by (f_equal; lia). apply (interp_segment_closed l1 (p - 1)); auto; try lia.
          - rewrite <- Ea. lra.
          - replace (p - 1 + 1)%nat with p by lia. fold P. lra. }
        split.
        { intros i Hi. destruct (Ig1 i Hi) as [a [Ha Ea]]. exists a; split; auto. apply in_or_app; auto. }
        intros j Hj. destruct (Nat.eq_dec j q) as [e|ne].
        * subst j. exists (fst R, oper (function_value (nthp l1 p) (nthp l1 (p - 1)) (fst R)) (snd R)). split; [apply in_or_app; right; left; auto | reflexivity].
        * destruct (Ig2 j ltac:(lia)) as [a [Ha Ea]]. exists a; split; auto. apply in_or_app; auto.
      + (* a common abscissa *)
        assert (EPR : fst P == fst R).
        { destruct (Qlt_le_dec (fst P) (fst R)) as [A|A]; [apply Qlt_bool_iff'' in A; congruence|].
          destruct (Qlt_le_dec (fst R) (fst P)) as [B|B]; [apply Qlt_bool_iff'' in B; congruence | lra]. }
        apply (IH _ _ _ _ _ _ H). unfold MI. replace (S p) with (p + 1)%nat by lia. replace (S q) with (q + 1)%nat by lia. fold P R.
        split; [lia|]. split; [lia|]. split; [right; lia|].
        split; [apply xsorted_snoc; auto; intros a Ha; simpl; apply Ilt; auto|].
        split.
        { intros a Ha. apply in_app_or in Ha. destruct Ha as [Ha|[Ha|[]]].
          - destruct (Ilt a Ha). fold P in H0. fold R in H1. split; lra.
          - subst a; simpl. split; lra. }
        split.
        { intros a Ha. apply in_app_or in Ha. destruct Ha as [Ha|[Ha|[]]]; [apply If; auto|]. subst a; simpl.
          apply oper_comp; [|apply nth_is_value; auto; lia].
          rewrite <- (interp_comp l1 _ _ EPR). apply nth_is_value; auto; lia. }
        split.
        { intros i Hi. destruct (Nat.eq_dec i p) as [e|ne].
          - subst i. exists (fst R, oper (snd P) (snd R)). split; [apply in_or_app; right; left; auto | simpl; symmetry; exact EPR].
          - destruct (Ig1 i ltac:(lia)) as [a [Ha Ea]]. exists a; split; auto. apply in_or_app; auto. }
        intros j Hj. destruct (Nat.eq_dec j q) as [e|ne].
        * subst j. exists (fst R, oper (snd P) (snd R)). split; [apply in_or_app; right; left; auto | reflexivity].
        * destruct (Ig2 j ltac:(lia)) as [a [Ha Ea]]. exists a; split; auto. apply in_or_app; auto.
  Qed.
End Merge.

Lemma zero_tail : forall l x, xsorted l -> (2 <= length l)%nat ->
  snd (nthp l (length l - 2)) == 0 -> snd (nthp l (length l - 1)) == 0 -> fst (nthp l (length l - 2)) <= x -> interp l x == 0.
Proof.
  intros l x Hs Hlen Y2 Y1 Hx. destruct (Qlt_le_dec (fst (nthp l (length l - 1))) x) as [Hgt|Hle].
  - assert (Hne : l <> []) by (destruct l; [simpl in Hlen; lia | discriminate]).
    rewrite (interp_right l x Hs Hne) by lra. exact Y1.
  - rewrite (interp_segment_closed l (length l - 2) x Hs) by (try lia; auto; replace (length l - 2 + 1)%nat with (length l - 1)%nat by lia; auto).
    unfold line_val. replace (length l - 2 + 1)%nat with (length l - 1)%nat by lia. rewrite Y2, Y1. ring.
Qed.
Lemma xsorted_slice : forall l p n, xsorted l -> (p + n <= length l)%nat -> xsorted (slice l p n).
Proof.
  intros l p n Hs Hl. apply xsorted_of_nth. intros i j Hij Hj. rewrite slice_length in Hj by auto.
  rewrite !slice_nth by lia. apply xsorted_nth_lt; auto; lia.
Qed.
Lemma xsorted_map_same_fst : forall (g : pt -> pt) l, (forall p, fst (g p) = fst p) -> xsorted l -> xsorted (map g l).
Proof. intros g l Hg Hs. unfold xsorted in *. rewrite map_map. erewrite map_ext; [exact Hs|]. intros; apply Hg. Qed.
Lemma xsorted_first_le : forall r q, xsorted r -> In q r -> fst (nthp r 0) <= fst q.
Proof.
  intros r q Hs Hq. destruct (In_nth _ _ pt0 Hq) as [j [Hj Ej]]. rewrite <- Ej. fold (nthp r j).
  destruct j; [apply Qle_refl|]. apply Qlt_le_weak. apply xsorted_nth_lt; auto; lia.
Qed.

Section MergeLevel.
  Variable oper : Q -> Q -> Q.
  Hypothesis oper_comp : forall a a' b b', a == a' -> b == b' -> oper a b == oper a' b'.
  Hypothesis oper_lin : forall y1 y2 y1' y2' s,
    oper (y1 + (y2 - y1) * s) (y1' + (y2' - y1') * s) == oper y1 y1' + (oper y2 y2' - oper y1 y1') * s.
  Hypothesis oper_00 : oper 0 0 == 0.

  (* the common end of both cases: acc followed by the rest of one operand (the other being 0 there) and the sentinel *)
  Lemma assemble : forall l1 l2 acc tail,
    xsorted l1 -> xsorted l2 -> (2 <= length l1)%nat -> (2 <= length l2)%nat ->
    fst (nthp l1 (length l1 - 1)) == INF -> fst (nthp l2 (length l2 - 1)) == INF ->
    snd (nthp l1 (length l1 - 1)) == 0 -> snd (nthp l2 (length l2 - 1)) == 0 ->
    xsorted acc -> xsorted tail ->
    (forall a b, In a acc -> In b tail -> fst a < fst b) ->
    (forall a, In a acc -> fst a < INF) -> (forall b, In b tail -> fst b < INF) ->
    (forall a, In a (acc ++ tail) -> snd a == oper (interp l1 (fst a)) (interp l2 (fst a))) ->
    (forall i, (i < length l1 - 1)%nat -> exists a, In a (acc ++ tail) /\ fst a == fst (nthp l1 i)) ->
    (forall j, (j < length l2 - 1)%nat -> exists a, In a (acc ++ tail) /\ fst a == fst (nthp l2 j)) ->
    forall t, fst (nthp l1 0) <= t -> t <= INF ->
    interp (acc ++ tail ++ [(INF, 0)]) t == oper (interp l1 t) (interp l2 t).
  Proof.
    intros l1 l2 acc tail S1 S2 L1 L2 X1 X2 Y1 Y2 Sa St Hat Ha Ht Hval C1 C2 t Ht0 Ht1.
    set (z := (INF, 0)). set (r := acc ++ tail ++ [z]).
    assert (Er : r = (acc ++ tail) ++ [z]) by (unfold r; rewrite app_assoc; reflexivity).
    assert (Sr : xsorted r).
    { rewrite Er. apply xsorted_snoc; [apply xsorted_app; auto|].
      intros q Hq. apply in_app_or in Hq. simpl. destruct Hq; auto. }
    assert (Hz1 : interp l1 INF == 0).
    { rewrite <- (interp_comp l1 _ _ X1). rewrite interp_at_breakpoint; auto. apply nth_In; lia. }
    assert (Hz2 : interp l2 INF == 0).
    { rewrite <- (interp_comp l2 _ _ X2). rewrite interp_at_breakpoint; auto. apply nth_In; lia. }
    assert (Cov1 : forall p, In p l1 -> exists q, In q r /\ fst q == fst p).
    { intros p Hp. destruct (In_nth _ _ pt0 Hp) as [i [Hi Ei]]. fold (nthp l1 i) in Ei.
      destruct (Nat.eq_dec i (length l1 - 1)) as [e|ne].
      - exists z. split; [rewrite Er; apply in_or_app; right; left; auto|]. rewrite <- Ei, e. simpl. symmetry; exact X1.
      - destruct (C1 i ltac:(lia)) as [a [Ha' Ea]]. exists a. split; [rewrite Er; apply in_or_app; auto | rewrite <- Ei; exact Ea]. }
    assert (Cov2 : forall p, In p l2 -> exists q, In q r /\ fst q == fst p).
    { intros p Hp. destruct (In_nth _ _ pt0 Hp) as [i [Hi Ei]]. fold (nthp l2 i) in Ei.
      destruct (Nat.eq_dec i (length l2 - 1)) as [e|ne].
      - exists z. split; [rewrite Er; apply in_or_app; right; left; auto|]. rewrite <- Ei, e. simpl. symmetry; exact X2.
      - destruct (C2 i ltac:(lia)) as [a [Ha' Ea]]. exists a. split; [rewrite Er; apply in_or_app; auto | rewrite <- Ei; exact Ea]. }
    assert (Hv : forall q, In q r -> snd q == oper (interp l1 (fst q)) (interp l2 (fst q))).
    { intros q Hq. rewrite Er in Hq. apply in_app_or in Hq. destruct Hq as [Hq|[Hq|[]]]; [apply Hval; auto|].
      subst q; simpl. rewrite (oper_comp _ _ _ _ Hz1 Hz2). symmetry; exact oper_00. }
    assert (Hne : r <> []) by (rewrite Er; destruct (acc ++ tail); discriminate).
    assert (Hlast : nthp r (length r - 1) = z).
    { unfold nthp. rewrite Er, app_length. simpl. replace (length (acc ++ tail) + 1 - 1)%nat with (length (acc ++ tail)) by lia.
      rewrite app_nth2 by lia. rewrite Nat.sub_diag. reflexivity. }
    apply (pl_combination_determined oper oper_comp oper_lin l1 l2 r); auto.
    - destruct (Cov1 (nthp l1 0) ltac:(apply nth_In; lia)) as [q [Hq Eq]].
      eapply Qle_trans; [apply (xsorted_first_le r q Sr Hq)|]. lra.
    - rewrite Hlast. simpl. exact Ht1.
  Qed.

  Theorem merge_level_pointwise : forall l1 l2 r,
    xsorted l1 -> xsorted l2 -> (2 <= length l1)%nat -> (2 <= length l2)%nat ->
    fst (nthp l1 0) == fst (nthp l2 0) ->
    fst (nthp l1 (length l1 - 1)) == INF -> fst (nthp l2 (length l2 - 1)) == INF ->
    snd (nthp l1 (length l1 - 2)) == 0 -> snd (nthp l1 (length l1 - 1)) == 0 ->
    snd (nthp l2 (length l2 - 2)) == 0 -> snd (nthp l2 (length l2 - 1)) == 0 ->
    merge_level oper l1 l2 = Some r ->
    forall t, fst (nthp l1 0) <= t -> t <= INF -> interp r t == oper (interp l1 t) (interp l2 t).
  Proof.
    intros l1 l2 r S1 S2 L1 L2 Hfirst X1 X2 Y12 Y11 Y22 Y21 H t Ht0 Ht1.
    unfold merge_level in H.
    destruct (merge_main (S (length l1 + length l2)) oper l1 l2 0 0 []) as [[[p q] acc]|] eqn:E; [|discriminate].
    assert (MI0 : MI oper l1 l2 0 0 []).
    { unfold MI. split; [lia|]. split; [lia|]. split; [left; auto|]. split; [constructor|].
      split; [intros a []|]. split; [intros a []|]. split; intros i Hi; lia. }
    destruct (merge_main_inv oper oper_comp l1 l2 S1 S2 Hfirst _ _ _ _ _ _ _ E MI0) as [[Ia [Ib [Ic [Ie [Ilt [If [Ig1 Ig2]]]]]]] Hexit].
    assert (Hpq : (1 <= p /\ 1 <= q)%nat).
    { destruct Ic as [[A B]|]; auto. exfalso. apply Hexit. subst; lia. }
    destruct Hpq as [Hp1 Hq1].
    fold (slice l1 p (length l1 - 1 - p)) in H. fold (slice l2 q (length l2 - 1 - q)) in H.
    destruct (Nat.leb (length l2) (q + 1)) eqn:Eq.
    - (* the second operand is exhausted: the rest of the first one is copied with oper(y,0) *)
      apply Nat.leb_le in Eq. assert (Eq' : q = (length l2 - 1)%nat) by lia.
      assert (Emax : Nat.max p (length l1 - 1) = (length l1 - 1)%nat) by lia. rewrite Emax in H.
      assert (El : Nat.leb (length l1) (length l1 - 1 + 1) = true) by (apply Nat.leb_le; lia). rewrite El in H.
      replace (length l2 - 1 - q)%nat with O in H by lia. unfold slice at 2 in H. simpl firstn in H. simpl map in H.
      injection H as Hr. subst r. simpl app.
      set (g := fun P : pt => (fst P, oper (snd P) 0)).
      assert (Hsl : (p + (length l1 - 1 - p) <= length l1)%nat) by lia.
      assert (Hin : forall b, In b (map g (slice l1 p (length l1 - 1 - p))) -> exists i, (p <= i <= length l1 - 2)%nat /\ b = g (nthp l1 i)).
      { intros b Hb. apply in_map_iff in Hb. destruct Hb as [c [Ec Hc]]. destruct (slice_in _ _ _ _ Hsl Hc) as [i [Hi Ei]].
        exists i. split; [lia|]. subst; auto. }
      apply (assemble l1 l2 acc (map g (slice l1 p (length l1 - 1 - p)))); auto.
      + apply xsorted_map_same_fst; [reflexivity | apply xsorted_slice; auto].
      + intros a b Ha Hb. destruct (Hin b Hb) as [i [Hi Eb]]. subst b. simpl. destruct (Ilt a Ha) as [A _].
        destruct (Nat.eq_dec i p) as [e|ne]; [subst; auto|]. eapply Qlt_trans; [exact A|]. apply xsorted_nth_lt; auto; lia.
      + intros a Ha. destruct (Ilt a Ha) as [A _]. rewrite <- X1.
        destruct (Nat.eq_dec p (length l1 - 1)) as [e|ne]; [rewrite <- e; auto|]. eapply Qlt_trans; [exact A|]. apply xsorted_nth_lt; auto; lia.
      + intros b Hb. destruct (Hin b Hb) as [i [Hi Eb]]. subst b. simpl. rewrite <- X1. apply xsorted_nth_lt; auto; lia.
      + intros a Ha. apply in_app_or in Ha. destruct Ha as [Ha|Hb]; [apply If; auto|].
        destruct (Hin a Hb) as [i [Hi Eb]]. subst a. simpl. apply oper_comp; [apply nth_is_value; auto; lia|].
        symmetry. apply zero_tail; auto.
        destruct (Ig2 (q - 1)%nat ltac:(lia)) as [a [Ha Ea]]. destruct (Ilt a Ha) as [A _].
        replace (length l2 - 2)%nat with (q - 1)%nat by lia. rewrite <- Ea.
        destruct (Nat.eq_dec i p) as [e|ne]; [subst; lra|]. pose proof (xsorted_nth_lt l1 p i S1 ltac:(lia) ltac:(lia)). lra.
      + intros i Hi. destruct (Nat.lt_ge_cases i p) as [Hlt|Hge].
        * destruct (Ig1 i Hlt) as [a [Ha Ea]]. exists a; split; auto. apply in_or_app; auto.
        * exists (g (nthp l1 i)). split; [|reflexivity]. apply in_or_app; right. apply in_map. apply in_slice; auto; lia.
      + intros j Hj. destruct (Ig2 j ltac:(lia)) as [a [Ha Ea]]. exists a; split; auto. apply in_or_app; auto.
    - (* the first operand is exhausted *)
      apply Nat.leb_gt in Eq. assert (Ep' : p = (length l1 - 1)%nat) by lia.
      assert (El : Nat.leb (length l1) (p + 1) = true) by (apply Nat.leb_le; lia). rewrite El in H.
      injection H as Hr. subst r. simpl app.
      set (g := fun R : pt => (fst R, oper 0 (snd R))).
      assert (Hsl : (q + (length l2 - 1 - q) <= length l2)%nat) by lia.
      assert (Hin : forall b, In b (map g (slice l2 q (length l2 - 1 - q))) -> exists i, (q <= i <= length l2 - 2)%nat /\ b = g (nthp l2 i)).
      { intros b Hb. apply in_map_iff in Hb. destruct Hb as [c [Ec Hc]]. destruct (slice_in _ _ _ _ Hsl Hc) as [i [Hi Ei]].
        exists i. split; [lia|]. subst; auto. }
      apply (assemble l1 l2 acc (map g (slice l2 q (length l2 - 1 - q)))); auto.
      + apply xsorted_map_same_fst; [reflexivity | apply xsorted_slice; auto].
      + intros a b Ha Hb. destruct (Hin b Hb) as [i [Hi Eb]]. subst b. simpl. destruct (Ilt a Ha) as [_ A].
        destruct (Nat.eq_dec i q) as [e|ne]; [subst; auto|]. eapply Qlt_trans; [exact A|]. apply xsorted_nth_lt; auto; lia.
      + intros a Ha. destruct (Ilt a Ha) as [A _]. rewrite <- X1. rewrite <- Ep'. exact A.
      + intros b Hb. destruct (Hin b Hb) as [i [Hi Eb]]. subst b. simpl. rewrite <- X2. apply xsorted_nth_lt; auto; lia.
      + intros a Ha. apply in_app_or in Ha. destruct Ha as [Ha|Hb]; [apply If; auto|].
        destruct (Hin a Hb) as [i [Hi Eb]]. subst a. simpl. apply oper_comp; [|apply nth_is_value; auto; lia].
        symmetry. apply zero_tail; auto.
        destruct (Ig1 (p - 1)%nat ltac:(lia)) as [a [Ha Ea]]. destruct (Ilt a Ha) as [_ A].
        replace (length l1 - 2)%nat with (p - 1)%nat by lia. rewrite <- Ea.
        destruct (Nat.eq_dec i q) as [e|ne]; [subst; lra|]. pose proof (xsorted_nth_lt l2 q i S2 ltac:(lia) ltac:(lia)). lra.
      + intros i Hi. destruct (Ig1 i ltac:(lia)) as [a [Ha Ea]]. exists a; split; auto. apply in_or_app; auto.
      + intros j Hj. destruct (Nat.lt_ge_cases j q) as [Hlt|Hge].
        * destruct (Ig2 j Hlt) as [a [Ha Ea]]. exists a; split; auto. apply in_or_app; auto.
        * exists (g (nthp l2 j)). split; [|reflexivity]. apply in_or_app; right. apply in_map. apply in_slice; auto; lia.
  Qed.
End MergeLevel.

(* the two instances used by operator+ and operator- *)
Definition level_ok (l : list pt) : Prop :=
  xsorted l /\ (2 <= length l)%nat /\ fst (nthp l 0) == - INF /\ fst (nthp l (length l - 1)) == INF /\
  snd (nthp l (length l - 2)) == 0 /\ snd (nthp l (length l - 1)) == 0.
Theorem merge_add_pointwise : forall l1 l2 r, level_ok l1 -> level_ok l2 -> merge_level radd l1 l2 = Some r ->
  forall t, - INF <= t -> t <= INF -> interp r t == interp l1 t + interp l2 t.
Proof.
  intros l1 l2 r [S1 [L1 [F1 [X1 [Y12 Y11]]]]] [S2 [L2 [F2 [X2 [Y22 Y21]]]]] H t Ht0 Ht1.
  rewrite <- radd_eq. apply (merge_level_pointwise radd) with (l1 := l1) (l2 := l2); auto.
  - intros a a' b b' Ha Hb. rewrite !radd_eq, Ha, Hb. reflexivity.
  - intros. rewrite !radd_eq. ring.
  - rewrite radd_eq. ring.
  - rewrite F1, F2. reflexivity.
  - rewrite F1. exact Ht0.
Qed.
Theorem merge_sub_pointwise : forall l1 l2 r, level_ok l1 -> level_ok l2 -> merge_level rsub l1 l2 = Some r ->
  forall t, - INF <= t -> t <= INF -> interp r t == interp l1 t - interp l2 t.
Proof.
  intros l1 l2 r [S1 [L1 [F1 [X1 [Y12 Y11]]]]] [S2 [L2 [F2 [X2 [Y22 Y21]]]]] H t Ht0 Ht1.
  rewrite <- rsub_eq. apply (merge_level_pointwise rsub) with (l1 := l1) (l2 := l2); auto.
  - intros a a' b b' Ha Hb. rewrite !rsub_eq, Ha, Hb. reflexivity.
  - intros. rewrite !rsub_eq. ring.
  - rewrite rsub_eq. ring.
  - rewrite F1, F2. reflexivity.
  - rewrite F1. exact Ht0.
Qed.
(* ================================================================ the merge always returns, and its result is again a level *)
Lemma merge_main_total : forall oper l1 l2 fuel p q acc, ((length l1 - p) + (length l2 - q) < fuel)%nat ->
  exists res, merge_main fuel oper l1 l2 p q acc = Some res.
Proof.
  intros oper l1 l2. induction fuel as [|fuel IH]; intros p q acc Hf; [lia|].
  cbn [merge_main]. destruct (Nat.ltb (p + 1) (length l1) && Nat.ltb (q + 1) (length l2)) eqn:E; [|eexists; reflexivity].
  apply andb_prop in E. destruct E as [E1 E2]. apply Nat.ltb_lt in E1. apply Nat.ltb_lt in E2.
  destruct (Qlt_bool (fst (nthp l1 p)) (fst (nthp l2 q))); [apply IH; lia|].
  destruct (Qlt_bool (fst (nthp l2 q)) (fst (nthp l1 p))); apply IH; lia.
Qed.
Lemma merge_level_total : forall oper l1 l2, exists r, merge_level oper l1 l2 = Some r.
Proof.
  intros oper l1 l2. unfold merge_level.
  destruct (merge_main_total oper l1 l2 (S (length l1 + length l2)) 0 0 [] ltac:(lia)) as [[[p q] acc] E]. rewrite E.
  eexists; reflexivity.
Qed.

(* a level as the constructor and the operations produce it *)
Definition level3 (l : list pt) : Prop :=
  xsorted l /\ (3 <= length l)%nat /\ fst (nthp l 0) == - INF /\ fst (nthp l (length l - 1)) == INF /\
  snd (nthp l 0) == 0 /\ snd (nthp l 1) == 0 /\ snd (nthp l (length l - 2)) == 0 /\ snd (nthp l (length l - 1)) == 0.
Lemma level3_ok : forall l, level3 l -> level_ok l.
Proof. intros l [A [B [C [D [E [F [G H]]]]]]]. unfold level_ok. split; [exact A|]. split; [lia|]. split; [exact C|]. split; [exact D|]. split; [exact G | exact H]. Qed.
Lemma zero_head : forall l x, xsorted l -> (2 <= length l)%nat -> snd (nthp l 0) == 0 -> snd (nthp l 1) == 0 ->
  x <= fst (nthp l 1) -> interp l x == 0.
Proof.
  intros l x Hs Hlen Y0 Y1 Hx. destruct (Qlt_le_dec x (fst (nthp l 0))) as [Hlt|Hle].
  - assert (Hne : l <> []) by (destruct l; [simpl in Hlen; lia | discriminate]).
    rewrite (interp_left l x Hne) by lra. exact Y0.
  - rewrite (interp_segment_closed l 0 x Hs) by (simpl; auto; lia). unfold line_val. simpl Nat.add. rewrite Y0, Y1. ring.
Qed.

Section MergeLevelFull.
  Variable oper : Q -> Q -> Q.
  Hypothesis oper_comp : forall a a' b b', a == a' -> b == b' -> oper a b == oper a' b'.
  Hypothesis oper_lin : forall y1 y2 y1' y2' s,
    oper (y1 + (y2 - y1) * s) (y1' + (y2' - y1') * s) == oper y1 y1' + (oper y2 y2' - oper y1 y1') * s.
  Hypothesis oper_00 : oper 0 0 == 0.

  (* the common end of both cases: acc followed by the rest of one operand (the other being 0 there) and the sentinel *)
  Lemma assemble_full : forall l1 l2 acc tail,
    xsorted l1 -> xsorted l2 -> (2 <= length l1)%nat -> (2 <= length l2)%nat ->
    fst (nthp l1 (length l1 - 1)) == INF -> fst (nthp l2 (length l2 - 1)) == INF ->
    snd (nthp l1 (length l1 - 1)) == 0 -> snd (nthp l2 (length l2 - 1)) == 0 ->
    xsorted acc -> xsorted tail ->
    (forall a b, In a acc -> In b tail -> fst a < fst b) ->
    (forall a, In a acc -> fst a < INF) -> (forall b, In b tail -> fst b < INF) ->
    (forall a, In a (acc ++ tail) -> snd a == oper (interp l1 (fst a)) (interp l2 (fst a))) ->
    (forall i, (i < length l1 - 1)%nat -> exists a, In a (acc ++ tail) /\ fst a == fst (nthp l1 i)) ->
    (forall j, (j < length l2 - 1)%nat -> exists a, In a (acc ++ tail) /\ fst a == fst (nthp l2 j)) ->
    let r := acc ++ tail ++ [(INF, 0)] in
    xsorted r /\ (forall p, In p l1 -> exists q, In q r /\ fst q == fst p) /\ (forall p, In p l2 -> exists q, In q r /\ fst q == fst p) /\
    nthp r (length r - 1) = (INF, 0) /\
    (forall q, In q r -> snd q == oper (interp l1 (fst q)) (interp l2 (fst q))) /\
    forall t, fst (nthp l1 0) <= t -> t <= INF -> interp r t == oper (interp l1 t) (interp l2 t).
  Proof.
    intros l1 l2 acc tail S1 S2 L1 L2 X1 X2 Y1 Y2 Sa St Hat Ha Ht Hval C1 C2.
    intros r0. set (z := (INF, 0)). set (r := acc ++ tail ++ [z]). change r0 with r. clear r0.
    assert (Er : r = (acc ++ tail) ++ [z]) by (unfold r; rewrite app_assoc; reflexivity).
    assert (Sr : xsorted r).
    { rewrite Er. apply xsorted_snoc; [apply xsorted_app; auto|].
      intros q Hq. apply in_app_or in Hq. simpl. destruct Hq; auto. }
    assert (Hz1 : interp l1 INF == 0).
    { rewrite <- (interp_comp l1 _ _ X1). rewrite interp_at_breakpoint; auto. apply nth_In; lia. }
    assert (Hz2 : interp l2 INF == 0).
    { rewrite <- (interp_comp l2 _ _ X2). rewrite interp_at_breakpoint; auto. apply nth_In; lia. }
    assert (Cov1 : forall p, In p l1 -> exists q, In q r /\ fst q == fst p).
    { intros p Hp. destruct (In_nth _ _ pt0 Hp) as [i [Hi Ei]]. fold (nthp l1 i) in Ei.
      destruct (Nat.eq_dec i (length l1 - 1)) as [e|ne].
      - exists z. split; [rewrite Er; apply in_or_app; right; left; auto|]. rewrite <- Ei, e. simpl. symmetry; exact X1.
      - destruct (C1 i ltac:(lia)) as [a [Ha' Ea]]. exists a. split; [rewrite Er; apply in_or_app; auto | rewrite <- Ei; exact Ea]. }
    assert (Cov2 : forall p, In p l2 -> exists q, In q r /\ fst q == fst p).
    { intros p Hp. destruct (In_nth _ _ pt0 Hp) as [i [Hi Ei]]. fold (nthp l2 i) in Ei.
      destruct (Nat.eq_dec i (length l2 - 1)) as [e|ne].
      - exists z. split; [rewrite Er; apply in_or_app; right; left; auto|]. rewrite <- Ei, e. simpl. symmetry; exact X2.
      - destruct (C2 i ltac:(lia)) as [a [Ha' Ea]]. exists a. split; [rewrite Er; apply in_or_app; auto | rewrite <- Ei; exact Ea]. }
    assert (Hv : forall q, In q r -> snd q == oper (interp l1 (fst q)) (interp l2 (fst q))).
    { intros q Hq. rewrite Er in Hq. apply in_app_or in Hq. destruct Hq as [Hq|[Hq|[]]]; [apply Hval; auto|].
      subst q; simpl. rewrite (oper_comp _ _ _ _ Hz1 Hz2). symmetry; exact oper_00. }
    assert (Hne : r <> []) by (rewrite Er; destruct (acc ++ tail); discriminate).
    assert (Hlast : nthp r (length r - 1) = z).
    { unfold nthp. rewrite Er, app_length. simpl. replace (length (acc ++ tail) + 1 - 1)%nat with (length (acc ++ tail)) by lia.
      rewrite app_nth2 by lia. rewrite Nat.sub_diag. reflexivity. }
    split; [exact Sr|]. split; [exact Cov1|]. split; [exact Cov2|]. split; [exact Hlast|]. split; [exact Hv|].
    intros t Ht0 Ht1.
    apply (pl_combination_determined oper oper_comp oper_lin l1 l2 r); auto.
    - destruct (Cov1 (nthp l1 0) ltac:(apply nth_In; lia)) as [q [Hq Eq]].
      eapply Qle_trans; [apply (xsorted_first_le r q Sr Hq)|]. lra.
    - rewrite Hlast. simpl. exact Ht1.
  Qed.

  Theorem merge_level_full : forall l1 l2 r,
    xsorted l1 -> xsorted l2 -> (2 <= length l1)%nat -> (2 <= length l2)%nat ->
    fst (nthp l1 0) == fst (nthp l2 0) ->
    fst (nthp l1 (length l1 - 1)) == INF -> fst (nthp l2 (length l2 - 1)) == INF ->
    snd (nthp l1 (length l1 - 2)) == 0 -> snd (nthp l1 (length l1 - 1)) == 0 ->
    snd (nthp l2 (length l2 - 2)) == 0 -> snd (nthp l2 (length l2 - 1)) == 0 ->
    merge_level oper l1 l2 = Some r ->
    xsorted r /\ (forall p, In p l1 -> exists q, In q r /\ fst q == fst p) /\ (forall p, In p l2 -> exists q, In q r /\ fst q == fst p) /\
    nthp r (length r - 1) = (INF, 0) /\
    (forall q, In q r -> snd q == oper (interp l1 (fst q)) (interp l2 (fst q))) /\
    forall t, fst (nthp l1 0) <= t -> t <= INF -> interp r t == oper (interp l1 t) (interp l2 t).
  Proof.
    intros l1 l2 r S1 S2 L1 L2 Hfirst X1 X2 Y12 Y11 Y22 Y21 H.
    unfold merge_level in H.
    destruct (merge_main (S (length l1 + length l2)) oper l1 l2 0 0 []) as [[[p q] acc]|] eqn:E; [|discriminate].
    assert (MI0 : MI oper l1 l2 0 0 []).
    { unfold MI. split; [lia|]. split; [lia|]. split; [left; auto|]. split; [constructor|].
      split; [intros a []|]. split; [intros a []|]. split; intros i Hi; lia. }
    destruct (merge_main_inv oper oper_comp l1 l2 S1 S2 Hfirst _ _ _ _ _ _ _ E MI0) as [[Ia [Ib [Ic [Ie [Ilt [If [Ig1 Ig2]]]]]]] Hexit].
    assert (Hpq : (1 <= p /\ 1 <= q)%nat).
    { destruct Ic as [[A B]|]; auto. exfalso. apply Hexit. subst; lia. }
    destruct Hpq as [Hp1 Hq1].
    fold (slice l1 p (length l1 - 1 - p)) in H. fold (slice l2 q (length l2 - 1 - q)) in H.
    destruct (Nat.leb (length l2) (q + 1)) eqn:Eq.
    - (* the second operand is exhausted: the rest of the first one is copied with oper(y,0) *)
      apply Nat.leb_le in Eq. assert (Eq' : q = (length l2 - 1)%nat) by lia.
      assert (Emax : Nat.max p (length l1 - 1) = (length l1 - 1)%nat) by lia. rewrite Emax in H.
      assert (El : Nat.leb (length l1) (length l1 - 1 + 1) = true) by (apply Nat.leb_le; lia). rewrite El in H.
      replace (length l2 - 1 - q)%nat with O in H by lia. unfold slice at 2 in H. simpl firstn in H. simpl map in H.
      injection H as Hr. subst r. simpl app.
      set (g := fun P : pt => (fst P, oper (snd P) 0)).
      assert (Hsl : (p + (length l1 - 1 - p) <= length l1)%nat) by lia.
      assert (Hin : forall b, In b (map g (slice l1 p (length l1 - 1 - p))) -> exists i, (p <= i <= length l1 - 2)%nat /\ b = g (nthp l1 i)).
      { intros b Hb. apply in_map_iff in Hb. destruct Hb as [c [Ec Hc]]. destruct (slice_in _ _ _ _ Hsl Hc) as [i [Hi Ei]].
        exists i. split; [lia|]. subst; auto. }
      apply (assemble_full l1 l2 acc (map g (slice l1 p (length l1 - 1 - p)))); auto.
      + apply xsorted_map_same_fst; [reflexivity | apply xsorted_slice; auto].
      + intros a b Ha Hb. destruct (Hin b Hb) as [i [Hi Eb]]. subst b. simpl. destruct (Ilt a Ha) as [A _].
        destruct (Nat.eq_dec i p) as [e|ne]; [subst; auto|]. eapply Qlt_trans; [exact A|]. apply xsorted_nth_lt; auto; lia.
      + intros a Ha. destruct (Ilt a Ha) as [A _]. rewrite <- X1.
        destruct (Nat.eq_dec p (length l1 - 1)) as [e|ne]; [rewrite <- e; auto|]. eapply Qlt_trans; [exact A|]. apply xsorted_nth_lt; auto; lia.
      + intros b Hb. destruct (Hin b Hb) as [i [Hi Eb]]. subst b. simpl. rewrite <- X1. apply xsorted_nth_lt; auto; lia.
      + intros a Ha. apply in_app_or in Ha. destruct Ha as [Ha|Hb]; [apply If; auto|].
        destruct (Hin a Hb) as [i [Hi Eb]]. subst a. simpl. apply oper_comp; [apply nth_is_value; auto; lia|].
        symmetry. apply zero_tail; auto.
        destruct (Ig2 (q - 1)%nat ltac:(lia)) as [a [Ha Ea]]. destruct (Ilt a Ha) as [A _].
        replace (length l2 - 2)%nat with (q - 1)%nat by lia. rewrite <- Ea.
        destruct (Nat.eq_dec i p) as [e|ne]; [subst; lra|]. pose proof (xsorted_nth_lt l1 p i S1 ltac:(lia) ltac:(lia)). lra.
      + intros i Hi. destruct (Nat.lt_ge_cases i p) as [Hlt|Hge].
        * destruct (Ig1 i Hlt) as [a [Ha Ea]]. exists a; split; auto. apply in_or_app; auto.
        * exists (g (nthp l1 i)). split; [|reflexivity]. apply in_or_app; right. apply in_map. apply in_slice; auto; lia.
      + intros j Hj. destruct (Ig2 j ltac:(lia)) as [a [Ha Ea]]. exists a; split; auto. apply in_or_app; auto.
    - (* the first operand is exhausted *)
      apply Nat.leb_gt in Eq. assert (Ep' : p = (length l1 - 1)%nat) by lia.
      assert (El : Nat.leb (length l1) (p + 1) = true) by (apply Nat.leb_le; lia). rewrite El in H.
      injection H as Hr. subst r. simpl app.
      set (g := fun R : pt => (fst R, oper 0 (snd R))).
      assert (Hsl : (q + (length l2 - 1 - q) <= length l2)%nat) by lia.
      assert (Hin : forall b, In b (map g (slice l2 q (length l2 - 1 - q))) -> exists i, (q <= i <= length l2 - 2)%nat /\ b = g (nthp l2 i)).
      { intros b Hb. apply in_map_iff in Hb. destruct Hb as [c [Ec Hc]]. destruct (slice_in _ _ _ _ Hsl Hc) as [i [Hi Ei]].
        exists i. split; [lia|]. subst; auto. }
      apply (assemble_full l1 l2 acc (map g (slice l2 q (length l2 - 1 - q)))); auto.
      + apply xsorted_map_same_fst; [reflexivity | apply xsorted_slice; auto].
      + intros a b Ha Hb. destruct (Hin b Hb) as [i [Hi Eb]]. subst b. simpl. destruct (Ilt a Ha) as [_ A].
        destruct (Nat.eq_dec i q) as [e|ne]; [subst; auto|]. eapply Qlt_trans; [exact A|]. apply xsorted_nth_lt; auto; lia.
      + intros a Ha. destruct (Ilt a Ha) as [A _]. rewrite <- X1. rewrite <- Ep'. exact A.
      + intros b Hb. destruct (Hin b Hb) as [i [Hi Eb]]. subst b. simpl. rewrite <- X2. apply xsorted_nth_lt; auto; lia.
      + intros a Ha. apply in_app_or in Ha. destruct Ha as [Ha|Hb]; [apply If; auto|].
        destruct (Hin a Hb) as [i [Hi Eb]]. subst a. simpl. apply oper_comp; [|apply nth_is_value; auto; lia].
        symmetry. apply zero_tail; auto.
        destruct (Ig1 (p - 1)%nat ltac:(lia)) as [a [Ha Ea]]. destruct (Ilt a Ha) as [_ A].
        replace (length l1 - 2)%nat with (p - 1)%nat by lia. rewrite <- Ea.
        destruct (Nat.eq_dec i q) as [e|ne]; [subst; lra|]. pose proof (xsorted_nth_lt l2 q i S2 ltac:(lia) ltac:(lia)). lra.
      + intros i Hi. destruct (Ig1 i ltac:(lia)) as [a [Ha Ea]]. exists a; split; auto. apply in_or_app; auto.
      + intros j Hj. destruct (Nat.lt_ge_cases j q) as [Hlt|Hge].
        * destruct (Ig2 j Hlt) as [a [Ha Ea]]. exists a; split; auto. apply in_or_app; auto.
        * exists (g (nthp l2 j)). split; [|reflexivity]. apply in_or_app; right. apply in_map. apply in_slice; auto; lia.
  Qed.
End MergeLevelFull.

Lemma merge_main_prefix : forall oper l1 l2 fuel p q acc p' q' acc',
  merge_main fuel oper l1 l2 p q acc = Some (p', q', acc') -> exists ext, acc' = acc ++ ext.
Proof.
  intros oper l1 l2. induction fuel as [|fuel IH]; intros p q acc p' q' acc' H; [discriminate|].
  cbn [merge_main] in H. destruct (Nat.ltb (p + 1) (length l1) && Nat.ltb (q + 1) (length l2)).
  2:{ inversion H; subst. exists []. rewrite app_nil_r; auto. }
  destruct (Qlt_bool (fst (nthp l1 p)) (fst (nthp l2 q))).
  - destruct (IH _ _ _ _ _ _ H) as [ext E]. eexists. rewrite E, <- app_assoc. reflexivity.
  - destruct (Qlt_bool (fst (nthp l2 q)) (fst (nthp l1 p))); destruct (IH _ _ _ _ _ _ H) as [ext E]; eexists; rewrite E, <- app_assoc; reflexivity.
Qed.
Lemma merge_level_head : forall oper l1 l2 r, (2 <= length l1)%nat -> (2 <= length l2)%nat ->
  fst (nthp l1 0) == fst (nthp l2 0) -> merge_level oper l1 l2 = Some r ->
  nthp r 0 = (fst (nthp l2 0), oper (snd (nthp l1 0)) (snd (nthp l2 0))).
Proof.
  intros oper l1 l2 r L1 L2 Hf H. unfold merge_level in H.
  destruct (merge_main (S (length l1 + length l2)) oper l1 l2 0 0 []) as [[[p q] acc]|] eqn:E; [|discriminate].
  cbn [merge_main] in E.
  assert (E1 : Nat.ltb (0 + 1) (length l1) && Nat.ltb (0 + 1) (length l2) = true).
  { apply andb_true_intro; split; apply Nat.ltb_lt; lia. }
  rewrite E1 in E.
  assert (E2 : Qlt_bool (fst (nthp l1 0)) (fst (nthp l2 0)) = false).
  { destruct (Qlt_bool (fst (nthp l1 0)) (fst (nthp l2 0))) eqn:EE; auto. apply Qlt_bool_iff'' in EE. lra. }
  assert (E3 : Qlt_bool (fst (nthp l2 0)) (fst (nthp l1 0)) = false).
  { destruct (Qlt_bool (fst (nthp l2 0)) (fst (nthp l1 0))) eqn:EE; auto. apply Qlt_bool_iff'' in EE. lra. }
  rewrite E2, E3 in E. destruct (merge_main_prefix _ _ _ _ _ _ _ _ _ _ E) as [ext Eacc].
  injection H as Hr. subst r acc. reflexivity.
Qed.

Section Closure.
  Variable oper : Q -> Q -> Q.
  Hypothesis oper_comp : forall a a' b b', a == a' -> b == b' -> oper a b == oper a' b'.
  Hypothesis oper_lin : forall y1 y2 y1' y2' s,
    oper (y1 + (y2 - y1) * s) (y1' + (y2' - y1') * s) == oper y1 y1' + (oper y2 y2' - oper y1 y1') * s.
  Hypothesis oper_00 : oper 0 0 == 0.

  (* levels are closed under the operation, which is pointwise, also when read back by compute_value_at_a_given_point *)
  Theorem merge_level_closed : forall l1 l2, level3 l1 -> level3 l2 ->
    exists r, merge_level oper l1 l2 = Some r /\ level3 r /\
      (forall t, - INF <= t -> t <= INF -> interp r t == oper (interp l1 t) (interp l2 t)) /\
      (forall t, - INF < t -> t < INF -> exists v, value_at [r] 0 t = Some v /\ v == oper (interp l1 t) (interp l2 t)).
  Proof.
    intros l1 l2 [S1 [L1 [F1 [X1 [Y10 [Y11 [Y12 Y13]]]]]]] [S2 [L2 [F2 [X2 [Y20 [Y21 [Y22 Y23]]]]]]].
    destruct (merge_level_total oper l1 l2) as [r Hr]. exists r. split; auto.
    assert (Hf : fst (nthp l1 0) == fst (nthp l2 0)) by (rewrite F1, F2; reflexivity).
    destruct (merge_level_full oper oper_comp oper_lin oper_00 l1 l2 r S1 S2 ltac:(lia) ltac:(lia) Hf X1 X2 Y12 Y13 Y22 Y23 Hr)
      as [Sr [Cov1 [Cov2 [Hlast [Hv Hpt]]]]].
    pose proof (merge_level_head oper l1 l2 r ltac:(lia) ltac:(lia) Hf Hr) as Hhead.
    assert (Hr0 : fst (nthp r 0) == - INF) by (rewrite Hhead; simpl; exact F2).
    (* positions of the second and the second-to-last abscissae of the operands inside r *)
    assert (Hpos : forall (l : list pt), xsorted l -> (3 <= length l)%nat -> fst (nthp l 0) == - INF -> fst (nthp l (length l - 1)) == INF ->
              (forall p, In p l -> exists q, In q r /\ fst q == fst p) ->
              (3 <= length r)%nat /\ fst (nthp r 1) <= fst (nthp l 1) /\ fst (nthp l (length l - 2)) <= fst (nthp r (length r - 2))).
    { intros l Sl Ll Fl Xl Cov.
      assert (A1 : fst (nthp l 0) < fst (nthp l 1)) by (apply xsorted_nth_lt; auto; lia).
      assert (A2 : fst (nthp l (length l - 2)) < fst (nthp l (length l - 1))) by (apply xsorted_nth_lt; auto; lia).
      assert (A3 : fst (nthp l 1) <= fst (nthp l (length l - 2))).
      { destruct (Nat.eq_dec 1 (length l - 2)) as [e|ne]; [rewrite <- e; apply Qle_refl | apply Qlt_le_weak; apply xsorted_nth_lt; auto; lia]. }
      destruct (Cov (nthp l 1) ltac:(apply nth_In; lia)) as [q1 [Hq1 Eq1]].
      destruct (Cov (nthp l (length l - 2)) ltac:(apply nth_In; lia)) as [q2 [Hq2 Eq2]].
      destruct (In_nth _ _ pt0 Hq1) as [j1 [Hj1 Ej1]]. fold (nthp r j1) in Ej1.
      destruct (In_nth _ _ pt0 Hq2) as [j2 [Hj2 Ej2]]. fold (nthp r j2) in Ej2.
      assert (Hlastx : fst (nthp r (length r - 1)) == INF) by (rewrite Hlast; reflexivity).
      assert (J1 : (1 <= j1)%nat).
      { destruct j1; [|lia]. exfalso. rewrite <- Ej1 in Eq1. lra. }
      assert (J2 : (j2 <= length r - 2)%nat).
      { destruct (Nat.eq_dec j2 (length r - 1)) as [e|ne]; [|lia]. exfalso. rewrite <- Ej2, e in Eq2. lra. }
      assert (J12 : (j1 <= j2)%nat).
      { destruct (Nat.le_gt_cases j1 j2) as [|Hgt]; auto. exfalso.
        pose proof (xsorted_nth_lt r j2 j1 Sr Hgt Hj1). rewrite Ej1, Ej2, Eq1, Eq2 in H. lra. }
      split; [lia|]. split.
      - rewrite <- Eq1, <- Ej1. destruct (Nat.eq_dec j1 1) as [e|ne]; [rewrite e; apply Qle_refl | apply Qlt_le_weak; apply xsorted_nth_lt; auto; lia].
      - rewrite <- Eq2, <- Ej2. destruct (Nat.eq_dec j2 (length r - 2)) as [e|ne]; [rewrite e; apply Qle_refl | apply Qlt_le_weak; apply xsorted_nth_lt; auto; lia]. }
    destruct (Hpos l1 S1 L1 F1 X1 Cov1) as [Lr [P11 P12]]. destruct (Hpos l2 S2 L2 F2 X2 Cov2) as [_ [P21 P22]].
    assert (Hzero : forall i, (i < length r)%nat -> (fst (nthp r i) <= fst (nthp r 1) \/ fst (nthp r (length r - 2)) <= fst (nthp r i)) -> snd (nthp r i) == 0).
    { intros i Hi Hc. rewrite (Hv (nthp r i)) by (apply nth_In; auto). rewrite <- oper_00. apply oper_comp.
      - destruct Hc as [Hc|Hc]; [apply zero_head; auto; [lia | lra] | apply zero_tail; auto; [lia | lra]].
      - destruct Hc as [Hc|Hc]; [apply zero_head; auto; [lia | lra] | apply zero_tail; auto; [lia | lra]]. }
    assert (Hl3 : level3 r).
    { unfold level3. split; [exact Sr|]. split; [exact Lr|]. split; [exact Hr0|]. split; [rewrite Hlast; reflexivity|].
      split; [apply Hzero; [lia | left; apply Qlt_le_weak; apply xsorted_nth_lt; auto; lia]|].
      split; [apply Hzero; [lia | left; apply Qle_refl]|].
      split; [apply Hzero; [lia | right; apply Qle_refl]|].
      apply Hzero; [lia | right; apply Qlt_le_weak; apply xsorted_nth_lt; auto; lia]. }
    split; [exact Hl3|]. split.
    - intros t Ht0 Ht1. apply Hpt; [rewrite F1; exact Ht0 | exact Ht1].
    - intros t Ht0 Ht1. destruct Hl3 as [_ [_ [_ [Xr [Yr0 [Yr1 [Yr2 Yr3]]]]]]].
      destruct (value_at_is_interp r t Sr Lr Yr0 Yr1 Yr2 Yr3 ltac:(lra) ltac:(lra)) as [v [Hv1 Hv2]].
      exists v. split; auto. rewrite Hv2. apply Hpt; [rewrite F1; lra | lra].
  Qed.
End Closure.

(* ---------------- whole landscapes *)
Lemma nth_map_lt : forall (f : pt -> pt) l i d d', (i < length l)%nat -> nth i (map f l) d = f (nth i l d').
Proof.
  induction l as [|a l IH]; intros i d d' H; [simpl in H; lia|]. destruct i; [reflexivity|]. simpl. apply IH. simpl in H; lia.
Qed.
Lemma value_at_cons : forall l rest k t, value_at (l :: rest) (S k) t = value_at rest k t.
Proof. intros; unfold value_at. reflexivity. Qed.
Lemma value_at_nil : forall k t, value_at [] k t = Some 0.
Proof. intros; reflexivity. Qed.
Definition lev (a : list (list pt)) (k : nat) (t : Q) : Q := if Nat.ltb k (length a) then interp (nth k a []) t else 0.
Lemma lev_cons0 : forall l rest t, lev (l :: rest) 0 t = interp l t.
Proof. reflexivity. Qed.
Lemma lev_consS : forall l rest k t, lev (l :: rest) (S k) t = lev rest k t.
Proof. intros; unfold lev. simpl. reflexivity. Qed.
Lemma lev_nil : forall k t, lev [] k t = 0.
Proof. intros; unfold lev; simpl. reflexivity. Qed.

Section Lands.
  Variable oper : Q -> Q -> Q.
  Hypothesis oper_comp : forall a a' b b', a == a' -> b == b' -> oper a b == oper a' b'.
  Hypothesis oper_lin : forall y1 y2 y1' y2' s,
    oper (y1 + (y2 - y1) * s) (y1' + (y2' - y1') * s) == oper y1 y1' + (oper y2 y2' - oper y1 y1') * s.
  Hypothesis oper_00 : oper 0 0 == 0.

  (* a level of one operand alone: the other operand is the zero function *)
  Section OneSided.
    Variable g : Q -> Q.           (* y |-> oper y 0  or  y |-> oper 0 y *)
    Hypothesis g_comp : forall a a', a == a' -> g a == g a'.
    Hypothesis g_lin : forall y1 y2 s, g (y1 + (y2 - y1) * s) == g y1 + (g y2 - g y1) * s.
    Hypothesis g_0 : g 0 == 0.
    Lemma interp_from_map1 : forall tl p t,
      interp_from (fst p, g (snd p)) (map (fun P => (fst P, g (snd P))) tl) t == g (interp_from p tl t).
    Proof.
      induction tl as [|q tl IH]; intros p t; simpl; [reflexivity|].
      destruct (Qle_bool t (fst q)); [unfold line_val; simpl; rewrite g_lin; reflexivity | apply IH].
    Qed.
    Lemma interp_map1 : forall l t, l <> [] -> interp (map (fun P => (fst P, g (snd P))) l) t == g (interp l t).
    Proof.
      intros [|p l] t H; [congruence|]. simpl. destruct (Qle_bool t (fst p)); [reflexivity | apply interp_from_map1].
    Qed.
    Lemma level3_intro : forall m l, length m = length l ->
      (forall i, (i < length l)%nat -> fst (nthp m i) = fst (nthp l i) /\ snd (nthp m i) == g (snd (nthp l i))) ->
      xsorted m -> level3 l -> level3 m.
    Proof.
      intros m l Hlen Hn Sm [S [L [F [X [Y0 [Y1 [Y2 Y3]]]]]]]. unfold level3. rewrite Hlen.
      destruct (Hn O ltac:(lia)) as [A0 B0]. destruct (Hn 1%nat ltac:(lia)) as [A1 B1].
      destruct (Hn (length l - 2)%nat ltac:(lia)) as [A2 B2]. destruct (Hn (length l - 1)%nat ltac:(lia)) as [A3 B3].
      split; [exact Sm|]. split; [exact L|]. split; [rewrite A0; exact F|]. split; [rewrite A3; exact X|].
      split; [rewrite B0, <- g_0; apply g_comp; exact Y0|]. split; [rewrite B1, <- g_0; apply g_comp; exact Y1|].
      split; [rewrite B2, <- g_0; apply g_comp; exact Y2 | rewrite B3, <- g_0; apply g_comp; exact Y3].
    Qed.
    Lemma level3_map1 : forall l, level3 l -> level3 (map (fun P => (fst P, g (snd P))) l).
    Proof.
      intros l Hl. apply (level3_intro _ l); auto.
      - apply map_length.
      - intros i Hi. unfold nthp. rewrite (nth_map_lt _ l i pt0 pt0) by auto. simpl. split; reflexivity.
      - apply xsorted_map_same_fst; [reflexivity | apply Hl].
    Qed.
    Lemma value_at_map1 : forall a k t, Forall level3 a -> - INF < t -> t < INF ->
      exists v, value_at (map (map (fun P => (fst P, g (snd P)))) a) k t = Some v /\ v == g (lev a k t).
    Proof.
      induction a as [|l a IH]; intros k t Ha Ht0 Ht1.
      - exists 0. split; [reflexivity|]. rewrite lev_nil. symmetry; exact g_0.
      - inversion Ha as [|? ? Hl Ha']; subst. destruct k as [|k].
        + simpl map. rewrite (value_at_nth _ 0) by (simpl; lia). simpl nth.
          destruct (level3_map1 l Hl) as [S [L [F [X [Y0 [Y1 [Y2 Y3]]]]]]].
          destruct (value_at_is_interp _ t S L Y0 Y1 Y2 Y3 ltac:(lra) ltac:(lra)) as [v [Hv1 Hv2]].
          exists v. split; auto. rewrite Hv2, lev_cons0. apply interp_map1.
          destruct Hl as [_ [Ll _]]. destruct l; [simpl in Ll; lia | discriminate].
        + simpl map. rewrite value_at_cons, lev_consS. apply IH; auto.
    Qed.
  End OneSided.

  Theorem op_levels_pointwise : forall a b, Forall level3 a -> Forall level3 b ->
    exists s, op_levels oper a b = Some s /\
      forall k t, - INF < t -> t < INF -> exists v, value_at s k t = Some v /\ v == oper (lev a k t) (lev b k t).
  Proof.
    assert (G1c : forall a a', a == a' -> oper a 0 == oper a' 0) by (intros; apply oper_comp; [auto | reflexivity]).
    assert (G2c : forall a a', a == a' -> oper 0 a == oper 0 a') by (intros; apply oper_comp; [reflexivity | auto]).
    assert (G1l : forall y1 y2 s, oper (y1 + (y2 - y1) * s) 0 == oper y1 0 + (oper y2 0 - oper y1 0) * s).
    { intros. rewrite <- oper_lin. apply oper_comp; [reflexivity | ring]. }
    assert (G2l : forall y1 y2 s, oper 0 (y1 + (y2 - y1) * s) == oper 0 y1 + (oper 0 y2 - oper 0 y1) * s).
    { intros. rewrite <- oper_lin. apply oper_comp; [ring | reflexivity]. }
    induction a as [|l1 a IH]; intros b Ha Hb.
    - exists (map (map (fun R => (fst R, oper 0 (snd R)))) b). split; [reflexivity|].
      intros k t Ht0 Ht1. destruct (value_at_map1 (fun y => oper 0 y) G2c G2l oper_00 b k t Hb Ht0 Ht1) as [v [H1 H2]].
      exists v. split; [exact H1|]. rewrite H2. reflexivity.
    - destruct b as [|l2 b].
      + exists (map (map (fun P => (fst P, oper (snd P) 0))) (l1 :: a)). split; [reflexivity|].
        intros k t Ht0 Ht1. destruct (value_at_map1 (fun y => oper y 0) G1c G1l oper_00 (l1 :: a) k t Ha Ht0 Ht1) as [v [H1 H2]].
        exists v. split; [exact H1|]. rewrite H2. reflexivity.
      + inversion Ha as [|? ? Hl1 Ha']; subst. inversion Hb as [|? ? Hl2 Hb']; subst.
        destruct (merge_level_closed oper oper_comp oper_lin oper_00 l1 l2 Hl1 Hl2) as [r [Hr [_ [_ Hval]]]].
        destruct (IH b Ha' Hb') as [s [Hs Hrec]].
        exists (r :: s). split; [cbn [op_levels]; rewrite Hr, Hs; reflexivity|].
        intros k t Ht0 Ht1. destruct k as [|k].
        * rewrite (value_at_nth _ 0) by (simpl; lia). simpl nth. rewrite !lev_cons0. apply Hval; auto.
        * rewrite value_at_cons, !lev_consS. apply Hrec; auto.
  Qed.
End Lands.

Definition admissible (D : list (Q * Q)) : Prop := valid_diagram D /\ eps_separated D /\ bounded_diagram D.

Lemma construct_levels3 : forall D land, admissible D -> construct D 0 = Some land ->
  Forall level3 land /\ forall k t, - INF < t -> t < INF -> lev land k t == lambda D k t.
Proof.
  intros D land [Hv [He Hb]] Hc.
  change (construct D 0) with (sweep_all (S (length D)) 0 0 (first_cps D) []) in Hc.
  destruct (sweep_all_levels _ _ _ _ _ Hc) as [n [Hlen [_ [Hres Hlev]]]]. simpl in Hlen, Hlev.
  assert (Hs : lexsorted (first_cps D)) by (apply lexsorted_map_to_cp; apply sort_bars_sorted).
  assert (Hin : forall c, In c (first_cps D) -> exists b, In b D /\ c = to_cp b).
  { intros c Hc'. unfold first_cps in Hc'. apply in_map_iff in Hc'. destruct Hc' as [b [Hb' Hin]]. exists b; split; auto.
    eapply Permutation_in; [apply sort_bars_perm | exact Hin]. }
  assert (Hv' : validl (first_cps D)).
  { intros c Hc'. destruct (Hin c Hc') as [b [Hb' Ec]]; subst. rewrite to_cp_B, to_cp_D. apply Hv; auto. }
  assert (He' : epssep (first_cps D)).
  { intros a b Ha Hb' Hab. destruct (Hin a Ha) as [a' [Ha' Ea]]. destruct (Hin b Hb') as [b' [Hb'' Eb]]. subst.
    rewrite !to_cp_B. apply He; auto. rewrite <- (almost_equal_comp _ _ _ _ (to_cp_B a') (to_cp_B b')). exact Hab. }
  assert (Hb' : boundedl (first_cps D)).
  { intros c Hc'. destruct (Hin c Hc') as [b [Hb'' Ec]]; subst. rewrite to_cp_B, to_cp_D. apply Hb; auto. }
  assert (Hlevel : forall k, (k < n)%nat -> exists R, residual k (first_cps D) = Some R /\ level3 (nth k land []) /\
                     forall t, - INF < t -> interp (nth k land []) t == mx t R).
  { intros k Hk. destruct (Hlev k Hk) as [R [F [newc [HR [HF HnF]]]]].
    destruct (residual_values _ _ _ HR Hs Hv' He') as [[HsR [HvR HeR]] _].
    pose proof (residual_bounded _ _ _ HR Hb') as HbR.
    destruct (one_level_envelope _ _ _ HF HsR HvR HeR HbR) as [Hxs [Hl3 [Y0 [Y1 [Y2 [Y3 [X0 [X1 Hfun]]]]]]]].
    exists R. rewrite HnF. split; auto. split; auto. unfold level3. repeat split; auto. }
  split.
  - apply Forall_forall. intros l Hl. destruct (In_nth _ _ [] Hl) as [k [Hk Ek]]. rewrite <- Ek.
    destruct (Hlevel k ltac:(lia)) as [R [_ [H3 _]]]. exact H3.
  - intros k t Ht0 Ht1. unfold lev. destruct (Nat.ltb k (length land)) eqn:E.
    + apply Nat.ltb_lt in E. destruct (Hlevel k ltac:(lia)) as [R [HR [_ Hfun]]].
      rewrite Hfun by auto. rewrite mx_is_top.
      rewrite <- (sweep_residual_lambda D k R Hv He HR t 0). rewrite Nat.add_0_r. reflexivity.
    + apply Nat.ltb_ge in E. replace k with (n + (k - n))%nat by lia.
      rewrite (sweep_residual_lambda D n [] Hv He Hres t (k - n)). simpl. destruct (k - n)%nat; reflexivity.
Qed.

Section LandscapeOps.
  Variable oper : Q -> Q -> Q.
  Hypothesis oper_comp : forall a a' b b', a == a' -> b == b' -> oper a b == oper a' b'.
  Hypothesis oper_lin : forall y1 y2 y1' y2' s,
    oper (y1 + (y2 - y1) * s) (y1' + (y2' - y1') * s) == oper y1 y1' + (oper y2 y2' - oper y1 y1') * s.
  Hypothesis oper_00 : oper 0 0 == 0.
  Theorem landscapes_op_pointwise : forall A B, admissible A -> admissible B ->
    exists la lb s, construct A 0 = Some la /\ construct B 0 = Some lb /\ op_levels oper la lb = Some s /\
      forall k t, - INF < t -> t < INF -> exists v, value_at s k t = Some v /\ v == oper (lambda A k t) (lambda B k t).
  Proof.
    intros A B HA HB. destruct (construct_total A) as [la Ha]. destruct (construct_total B) as [lb Hb].
    destruct (construct_levels3 A la HA Ha) as [La Fa]. destruct (construct_levels3 B lb HB Hb) as [Lb Fb].
    destruct (op_levels_pointwise oper oper_comp oper_lin oper_00 la lb La Lb) as [s [Hs Hval]].
    exists la, lb, s. repeat split; auto. intros k t Ht0 Ht1.
    destruct (Hval k t Ht0 Ht1) as [v [H1 H2]]. exists v. split; auto. rewrite H2. apply oper_comp; [apply Fa | apply Fb]; auto.
  Qed.
End LandscapeOps.

Theorem landscape_sum : forall A B, admissible A -> admissible B ->
  exists la lb s, construct A 0 = Some la /\ construct B 0 = Some lb /\ land_add la lb = Some s /\
    forall k t, - INF < t -> t < INF -> exists v, value_at s k t = Some v /\ v == lambda A k t + lambda B k t.
Proof.
  intros A B HA HB.
  destruct (landscapes_op_pointwise radd) with (A := A) (B := B) as [la [lb [s [H1 [H2 [H3 H4]]]]]]; auto.
  - intros a a' b b' Ha Hb. rewrite !radd_eq, Ha, Hb. reflexivity.
  - intros. rewrite !radd_eq. ring.
  - rewrite radd_eq. ring.
  - exists la, lb, s. repeat split; auto. intros k t Ht0 Ht1. destruct (H4 k t Ht0 Ht1) as [v [G1 G2]].
    exists v. split; auto. rewrite G2. apply radd_eq.
Qed.
Theorem landscape_difference : forall A B, admissible A -> admissible B ->
  exists la lb s, construct A 0 = Some la /\ construct B 0 = Some lb /\ land_sub la lb = Some s /\
    forall k t, - INF < t -> t < INF -> exists v, value_at s k t = Some v /\ v == lambda A k t - lambda B k t.
Proof.
  intros A B HA HB.
  destruct (landscapes_op_pointwise rsub) with (A := A) (B := B) as [la [lb [s [H1 [H2 [H3 H4]]]]]]; auto.
  - intros a a' b b' Ha Hb. rewrite !rsub_eq, Ha, Hb. reflexivity.
  - intros. rewrite !rsub_eq. ring.
  - rewrite rsub_eq. ring.
  - exists la, lb, s. repeat split; auto. intros k t Ht0 Ht1. destruct (H4 k t Ht0 Ht1) as [v [G1 G2]].
    exists v. split; auto. rewrite G2. apply rsub_eq.
Qed.

Theorem landscape_scale : forall A c, admissible A ->
  exists la, construct A 0 = Some la /\
    forall k t, - INF < t -> t < INF -> exists v, value_at (land_scale c la) k t = Some v /\ v == c * lambda A k t.
Proof.
  intros A c HA. destruct (construct_total A) as [la Ha]. exists la. split; auto.
  destruct (construct_levels3 A la HA Ha) as [La Fa]. intros k t Ht0 Ht1.
  destruct (value_at_map1 (fun y => rmul c y)) with (a := la) (k := k) (t := t) as [v [H1 H2]]; auto.
  - intros a a' H. rewrite !rmul_eq, H. reflexivity.
  - intros. rewrite !rmul_eq. ring.
  - rewrite rmul_eq. ring.
  - exists v. split; [exact H1|]. rewrite H2, rmul_eq, Fa by auto. reflexivity.
Qed.

Theorem merge_level_closed_add : forall l1 l2, level3 l1 -> level3 l2 ->
  exists r, merge_level radd l1 l2 = Some r /\ level3 r /\
    (forall t, - INF <= t -> t <= INF -> interp r t == radd (interp l1 t) (interp l2 t)) /\
    (forall t, - INF < t -> t < INF -> exists v, value_at [r] 0 t = Some v /\ v == radd (interp l1 t) (interp l2 t)).
Proof.
  apply (merge_level_closed radd).
  - intros a a' b b' Ha Hb. rewrite !radd_eq, Ha, Hb. reflexivity.
  - intros. rewrite !radd_eq. ring.
  - rewrite radd_eq. ring.
Qed.
(* ================================================================ abs() on whole landscapes: closure and pointwise value *)
Lemma find_zero_between : forall p c, fst p < fst c -> snd p * snd c < 0 -> fst p < find_zero p c /\ find_zero p c < fst c.
Proof.
  intros p c Hx Hs. set (h := fst c - fst p). assert (Hh : 0 < h) by (unfold h; lra).
  assert (Hy : ~ snd c - snd p == 0) by (intro E0; assert (snd c == snd p) by lra; nra).
  pose proof (find_zero_eq p c ltac:(fold h; lra) Hy) as Hz. fold h in Hz. rewrite Hz.
  assert (0 < - snd p / (snd c - snd p) /\ - snd p / (snd c - snd p) < 1).
  { destruct (Qlt_le_dec 0 (snd p)) as [Sp|Sp].
    - assert (snd c < 0) by nra. split.
      + setoid_replace (- snd p / (snd c - snd p)) with (snd p / (snd p - snd c)) by (field; lra).
        apply Qlt_shift_div_l; lra.
      + setoid_replace (- snd p / (snd c - snd p)) with (snd p / (snd p - snd c)) by (field; lra).
        apply Qlt_shift_div_r; lra.
    - assert (snd p < 0) by nra. assert (0 < snd c) by nra. split.
      + apply Qlt_shift_div_l; lra.
      + apply Qlt_shift_div_r; lra. }
  setoid_replace (fst p - snd p * h / (snd c - snd p)) with (fst p + h * (- snd p / (snd c - snd p))) by (field; lra).
  unfold h in *. nra.
Qed.
Lemma xsorted_cons2 : forall p q l, xsorted (q :: l) -> fst p < fst q -> xsorted (p :: q :: l).
Proof.
  intros p q l Hs Hlt. unfold xsorted in *. simpl in *. constructor; auto. inversion Hs as [|? ? _ Hall]; subst.
  constructor; auto. eapply Forall_impl; [|exact Hall]. intros a Ha; simpl in Ha. lra.
Qed.
Lemma abs_from_sorted : forall tl prev y0, xsorted (prev :: tl) -> xsorted ((fst prev, y0) :: abs_level_from prev tl).
Proof.
  induction tl as [|c tl IH]; intros prev y0 Hs; [unfold xsorted; simpl; repeat constructor|].
  assert (Hs' : xsorted (c :: tl)) by (unfold xsorted in *; simpl in *; inversion Hs; auto).
  assert (Hx : fst prev < fst c).
  { unfold xsorted in Hs; simpl in Hs. inversion Hs as [|? ? _ Hall]; subst. inversion Hall; auto. }
  cbn [abs_level_from]. specialize (IH c (qabs (snd c)) Hs').
  destruct (Qlt_bool (snd prev * snd c) 0) eqn:E.
  - apply Qlt_bool_iff' in E. destruct (find_zero_between prev c Hx E) as [Z1 Z2]. simpl app.
    apply xsorted_cons2; [apply xsorted_cons2; [exact IH | simpl; exact Z2] | simpl; exact Z1].
  - simpl app. apply xsorted_cons2; [exact IH | simpl; exact Hx].
Qed.
Lemma abs_from_app : forall l prev m, abs_level_from prev (l ++ m) = abs_level_from prev l ++ abs_level_from (last l prev) m.
Proof.
  induction l as [|c l IH]; intros prev m; [reflexivity|].
  assert (EL : last (c :: l) prev = last l c) by apply last_cons. rewrite EL.
  change ((c :: l) ++ m) with (c :: (l ++ m)). cbn [abs_level_from]. rewrite IH, <- app_assoc. reflexivity.
Qed.
Lemma abs_from_length : forall tl prev, (length tl <= length (abs_level_from prev tl))%nat.
Proof.
  induction tl as [|c tl IH]; intros prev; [simpl; lia|]. cbn [abs_level_from]. rewrite app_length. specialize (IH c).
  destruct (Qlt_bool (snd prev * snd c) 0); simpl; unfold pt in *; lia.
Qed.
Lemma interp_from_headQ : forall X p p' t, fst p == fst p' -> snd p == snd p' -> interp_from p X t == interp_from p' X t.
Proof.
  intros [|q X] p p' t Hx Hy; simpl; auto. destruct (Qle_bool t (fst q)); [|reflexivity].
  unfold line_val. rewrite Hx, Hy. reflexivity.
Qed.
Theorem abs_level_pointwiseQ : forall l t, xsorted l -> snd (nthp l 0) == 0 -> fst (nthp l 0) == - INF ->
  interp (abs_level l) t == qabs (interp l t).
Proof.
  intros [|p tl] t Hs Hy Hx; [unfold nthp in Hx; simpl in Hx; exfalso; vm_compute in Hx; discriminate Hx|].
  unfold nthp in Hy, Hx; simpl in Hy, Hx. cbn [abs_level interp]. simpl fst. simpl snd.
  assert (Eb : Qle_bool t (fst p) = Qle_bool t (- INF)) by (rewrite Hx; reflexivity). rewrite Eb.
  destruct (Qle_bool t (- INF)) eqn:E.
  - rewrite Hy. reflexivity.
  - apply Qle_bool_false in E.
    transitivity (interp_from (fst p, qabs (snd p)) (abs_level_from p tl) t).
    + apply interp_from_headQ; simpl; [symmetry; exact Hx | rewrite Hy; reflexivity].
    + apply abs_level_from_correct; auto. rewrite Hx. lra.
Qed.

Lemma zero_prod_no_sign : forall a b, a == 0 \/ b == 0 -> Qlt_bool (a * b) 0 = false.
Proof.
  intros a b H. destruct (Qlt_bool (a * b) 0) eqn:E; auto. apply Qlt_bool_iff' in E. destruct H as [H|H]; rewrite H in E; lra.
Qed.
Lemma qabs_zero : forall a, a == 0 -> qabs a == 0.
Proof. intros a H; rewrite H. reflexivity. Qed.

Lemma split_last2 : forall (l : list pt), (2 <= length l)%nat -> exists mid c1 c2, l = mid ++ [c1; c2].
Proof.
  intros l H. destruct l as [|x l] using rev_ind; [simpl in H; lia|]. clear IHl.
  destruct l as [|x0 l] using rev_ind; [simpl in H; lia|]. clear IHl.
  exists l, x0, x. rewrite <- app_assoc. reflexivity.
Qed.
Theorem abs_level3 : forall l, level3 l -> level3 (abs_level l).
Proof.
  intros l [Sx [L [F [X [Y0 [Y1 [Y2 Y3]]]]]]].
  (* l = p :: q :: mid ++ [c1; c2] *)
  destruct l as [|p l']; [simpl in L; lia|]. destruct l' as [|q l'']; [simpl in L; lia|].
  assert (Hend : exists mid c1 c2, q :: l'' = mid ++ [c1; c2]) by (apply split_last2; simpl in *; lia).
  destruct Hend as [mid [c1 [c2 Eend]]].
  assert (Hlen : length (p :: q :: l'') = (length mid + 3)%nat) by (change (length (p :: q :: l'')) with (S (length (q :: l''))); rewrite Eend, app_length; simpl; lia).
  assert (Hc2 : nthp (p :: q :: l'') (length (p :: q :: l'') - 1) = c2).
  { unfold nthp. rewrite Hlen. change (p :: q :: l'') with (p :: (q :: l'')). rewrite Eend.
    replace (length mid + 3 - 1)%nat with (S (length mid + 1)) by lia. simpl. rewrite app_nth2 by lia.
    replace (length mid + 1 - length mid)%nat with 1%nat by lia. reflexivity. }
  assert (Hc1 : nthp (p :: q :: l'') (length (p :: q :: l'') - 2) = c1).
  { unfold nthp. rewrite Hlen. change (p :: q :: l'') with (p :: (q :: l'')). rewrite Eend.
    replace (length mid + 3 - 2)%nat with (S (length mid)) by lia. simpl. rewrite app_nth2 by lia.
    rewrite Nat.sub_diag. reflexivity. }
  rewrite Hc2 in X, Y3. rewrite Hc1 in Y2. unfold nthp in F, Y0, Y1; simpl in F, Y0, Y1.
  (* the shape of the result *)
  assert (Eabs : abs_level (p :: q :: l'') = (- INF, 0) :: (abs_level_from p (mid ++ [c1])) ++ [(fst c2, qabs (snd c2))]).
  { cbn [abs_level]. rewrite Eend. change (mid ++ [c1; c2]) with (mid ++ [c1] ++ [c2]). rewrite app_assoc, abs_from_app.
    f_equal. f_equal. rewrite last_last. cbn [abs_level_from]. rewrite (zero_prod_no_sign _ _ (or_introl Y2)). reflexivity. }
  assert (Emid : exists U, abs_level_from p (mid ++ [c1]) = U ++ [(fst c1, qabs (snd c1))]).
  { rewrite abs_from_app. cbn [abs_level_from]. rewrite (zero_prod_no_sign _ _ (or_intror Y2)). simpl app.
    exists (abs_level_from p mid). reflexivity. }
  destruct Emid as [U EU].
  assert (Ehead : exists V, abs_level_from p (mid ++ [c1]) = (fst q, qabs (snd q)) :: V).
  { destruct mid as [|a mid'].
    - simpl in Eend. inversion Eend; subst. cbn [abs_level_from app]. rewrite (zero_prod_no_sign _ _ (or_introl Y0)). eexists; reflexivity.
    - simpl in Eend. inversion Eend; subst. simpl app. cbn [abs_level_from]. rewrite (zero_prod_no_sign _ _ (or_introl Y0)). eexists; reflexivity. }
  destruct Ehead as [V EV].
  assert (Hsorted : xsorted (abs_level (p :: q :: l''))).
  { cbn [abs_level]. pose proof (abs_from_sorted (q :: l'') p 0 Sx) as Hs0.
    unfold xsorted in *. simpl in *. inversion Hs0 as [|? ? Hs1 Hall]; subst. constructor; auto.
    eapply Forall_impl; [|exact Hall]. intros a Ha. simpl in Ha. lra. }
  set (R := abs_level (p :: q :: l'')) in *.
  assert (HlenR : length R = (length U + 3)%nat).
  { rewrite Eabs, EU. simpl. rewrite !app_length. simpl. lia. }
  unfold level3. split; [exact Hsorted|]. split; [lia|].
  assert (R0 : nthp R 0 = (- INF, 0)) by (rewrite Eabs; reflexivity).
  assert (R1 : nthp R 1 = (fst q, qabs (snd q))) by (rewrite Eabs, EV; reflexivity).
  assert (Rl : nthp R (length R - 1) = (fst c2, qabs (snd c2))).
  { unfold nthp. rewrite HlenR, Eabs, EU. replace (length U + 3 - 1)%nat with (S (length U + 1)) by lia. simpl.
    rewrite <- app_assoc. rewrite app_nth2 by lia. replace (length U + 1 - length U)%nat with 1%nat by lia. reflexivity. }
  assert (Rl2 : nthp R (length R - 2) = (fst c1, qabs (snd c1))).
  { unfold nthp. rewrite HlenR, Eabs, EU. replace (length U + 3 - 2)%nat with (S (length U)) by lia. simpl.
    rewrite <- app_assoc. rewrite app_nth2 by lia. rewrite Nat.sub_diag. reflexivity. }
  rewrite R0, R1, Rl, Rl2. simpl.
  repeat split; try reflexivity; auto; apply qabs_zero; auto.
Qed.

Lemma value_at_abs : forall a k t, Forall level3 a -> - INF < t -> t < INF ->
  exists v, value_at (land_abs a) k t = Some v /\ v == qabs (lev a k t).
Proof.
  induction a as [|l a IH]; intros k t Ha Ht0 Ht1.
  - exists 0. split; [reflexivity|]. rewrite lev_nil. reflexivity.
  - inversion Ha as [|? ? Hl Ha']; subst. destruct k as [|k].
    + unfold land_abs. simpl map. rewrite (value_at_nth _ 0) by (simpl; lia). simpl nth.
      destruct (abs_level3 l Hl) as [Sx [L [F [X [Y0 [Y1 [Y2 Y3]]]]]]].
      destruct (value_at_is_interp _ t Sx L Y0 Y1 Y2 Y3 ltac:(lra) ltac:(lra)) as [v [Hv1 Hv2]].
      exists v. split; auto. rewrite Hv2, lev_cons0. destruct Hl as [Sl [_ [Fl [_ [Yl0 _]]]]].
      apply abs_level_pointwiseQ; auto.
    + unfold land_abs. simpl map. rewrite value_at_cons, lev_consS. apply IH; auto.
Qed.

Section OpLevel3.
  Variable oper : Q -> Q -> Q.
  Hypothesis oper_comp : forall a a' b b', a == a' -> b == b' -> oper a b == oper a' b'.
  Hypothesis oper_lin : forall y1 y2 y1' y2' s,
    oper (y1 + (y2 - y1) * s) (y1' + (y2' - y1') * s) == oper y1 y1' + (oper y2 y2' - oper y1 y1') * s.
  Hypothesis oper_00 : oper 0 0 == 0.
  Lemma op_levels_level3 : forall a b s, Forall level3 a -> Forall level3 b -> op_levels oper a b = Some s -> Forall level3 s.
  Proof.
    assert (G1c : forall a a', a == a' -> oper a 0 == oper a' 0) by (intros; apply oper_comp; [auto | reflexivity]).
    assert (G2c : forall a a', a == a' -> oper 0 a == oper 0 a') by (intros; apply oper_comp; [reflexivity | auto]).
    induction a as [|l1 a IH]; intros b s Ha Hb H.
    - cbn [op_levels] in H. inversion H; subst. clear H.
      apply Forall_forall. intros x Hx. apply in_map_iff in Hx. destruct Hx as [l [El Hl]]. subst x.
      apply (level3_map1 (fun y => oper 0 y) G2c oper_00). rewrite Forall_forall in Hb. apply Hb; auto.
    - destruct b as [|l2 b].
      + cbn [op_levels] in H. inversion H; subst. clear H IH.
        rewrite Forall_forall in Ha. apply Forall_forall. intros x Hx. simpl in Hx. destruct Hx as [Hx|Hx].
        * subst x. apply (level3_map1 (fun y => oper y 0) G1c oper_00). apply Ha; left; auto.
        * apply in_map_iff in Hx. destruct Hx as [l [El Hl]]. subst x.
          apply (level3_map1 (fun y => oper y 0) G1c oper_00). apply Ha; right; auto.
      + inversion Ha as [|? ? Hl1 Ha']; subst. inversion Hb as [|? ? Hl2 Hb']; subst.
        cbn [op_levels] in H. destruct (merge_level oper l1 l2) as [r|] eqn:Er; [|discriminate].
        destruct (op_levels oper a b) as [s'|] eqn:Es; [|discriminate]. inversion H; subst.
        constructor; [|apply (IH b); auto].
        destruct (merge_level_closed oper oper_comp oper_lin oper_00 l1 l2 Hl1 Hl2) as [r' [Hr' [H3 _]]].
        rewrite Er in Hr'. inversion Hr'; subst. exact H3.
  Qed.
End OpLevel3.

(* |lambda_k(A) - lambda_k(B)|: the function whose integral / maximum is the distance *)
Theorem landscape_abs_difference : forall A B, admissible A -> admissible B ->
  exists la lb s, construct A 0 = Some la /\ construct B 0 = Some lb /\ land_sub la lb = Some s /\
    forall k t, - INF < t -> t < INF ->
      exists v, value_at (land_abs s) k t = Some v /\ v == qabs (lambda A k t - lambda B k t).
Proof.
  intros A B HA HB. destruct (construct_total A) as [la Ha]. destruct (construct_total B) as [lb Hb].
  destruct (construct_levels3 A la HA Ha) as [La Fa]. destruct (construct_levels3 B lb HB Hb) as [Lb Fb].
  assert (C1 : forall a a' b b', a == a' -> b == b' -> rsub a b == rsub a' b') by (intros a a' b b' H H0; rewrite !rsub_eq, H, H0; reflexivity).
  assert (C2 : forall y1 y2 y1' y2' s, rsub (y1 + (y2 - y1) * s) (y1' + (y2' - y1') * s) == rsub y1 y1' + (rsub y2 y2' - rsub y1 y1') * s)
    by (intros; rewrite !rsub_eq; ring).
  assert (C3 : rsub 0 0 == 0) by (rewrite rsub_eq; ring).
  destruct (op_levels_pointwise rsub C1 C2 C3 la lb La Lb) as [s [Hs Hval]].
  pose proof (op_levels_level3 rsub C1 C2 C3 la lb s La Lb Hs) as Ls.
  exists la, lb, s. repeat split; auto. intros k t Ht0 Ht1.
  destruct (value_at_abs s k t Ls Ht0 Ht1) as [v [H1 H2]]. exists v. split; auto. rewrite H2.
  (* lev s k t == lambda A - lambda B: read the level back through value_at *)
  destruct (Hval k t Ht0 Ht1) as [w [W1 W2]].
  assert (Hlev : lev s k t == w).
  { unfold lev. destruct (Nat.ltb k (length s)) eqn:E.
    - apply Nat.ltb_lt in E. rewrite (value_at_nth s k t E) in W1.
      assert (H3 : level3 (nth k s [])) by (rewrite Forall_forall in Ls; apply Ls; apply nth_In; auto).
      destruct H3 as [Sx [L [F [X [Y0 [Y1 [Y2 Y3]]]]]]].
      destruct (value_at_is_interp _ t Sx L Y0 Y1 Y2 Y3 ltac:(lra) ltac:(lra)) as [w' [W3 W4]].
      rewrite W1 in W3. inversion W3; subst. symmetry; exact W4.
    - apply Nat.ltb_ge in E. unfold value_at in W1. assert (E' : Nat.leb (length s) k = true) by (apply Nat.leb_le; auto).
      rewrite E' in W1. inversion W1; subst. reflexivity. }
  rewrite Hlev, W2, rsub_eq, Fa, Fb by auto. reflexivity.
Qed.
(* ================================================================ compute_average *)
Definition land3 (a : list (list pt)) : Prop := Forall level3 a.
Lemma lev_value : forall s k t, land3 s -> - INF < t -> t < INF -> exists w, value_at s k t = Some w /\ w == lev s k t.
Proof.
  intros s k t Ls Ht0 Ht1. unfold lev. destruct (Nat.ltb k (length s)) eqn:E.
  - apply Nat.ltb_lt in E. rewrite (value_at_nth s k t E).
    assert (H3 : level3 (nth k s [])) by (unfold land3 in Ls; rewrite Forall_forall in Ls; apply Ls; apply nth_In; auto).
    destruct H3 as [Sx [L [F [X [Y0 [Y1 [Y2 Y3]]]]]]].
    apply (value_at_is_interp _ t Sx L Y0 Y1 Y2 Y3); lra.
  - apply Nat.ltb_ge in E. exists 0. split; [|reflexivity]. unfold value_at.
    assert (E' : Nat.leb (length s) k = true) by (apply Nat.leb_le; auto). rewrite E'. reflexivity.
Qed.
Lemma radd_hyps : (forall a a' b b', a == a' -> b == b' -> radd a b == radd a' b') /\
  (forall y1 y2 y1' y2' s, radd (y1 + (y2 - y1) * s) (y1' + (y2' - y1') * s) == radd y1 y1' + (radd y2 y2' - radd y1 y1') * s) /\
  radd 0 0 == 0.
Proof.
  split; [|split].
  - intros a a' b b' H H0; rewrite !radd_eq, H, H0; reflexivity.
  - intros; rewrite !radd_eq; ring.
  - rewrite radd_eq; ring.
Qed.
(* the sum of two landscapes in terms of their interpolations *)
Lemma land_add_lev : forall a b, land3 a -> land3 b ->
  exists s, land_add a b = Some s /\ land3 s /\ forall k t, - INF < t -> t < INF -> lev s k t == lev a k t + lev b k t.
Proof.
  intros a b La Lb. destruct radd_hyps as [C1 [C2 C3]].
  destruct (op_levels_pointwise radd C1 C2 C3 a b La Lb) as [s [Hs Hval]].
  pose proof (op_levels_level3 radd C1 C2 C3 a b s La Lb Hs) as Ls.
  exists s. split; [exact Hs|]. split; [exact Ls|]. intros k t Ht0 Ht1.
  destruct (Hval k t Ht0 Ht1) as [v [V1 V2]]. destruct (lev_value s k t Ls Ht0 Ht1) as [w [W1 W2]].
  rewrite V1 in W1. inversion W1; subst. rewrite <- W2, V2. try apply radd_eq.
Qed.

Definition sumlev (ls : list (list (list pt))) (k : nat) (t : Q) : Q := fold_right (fun a acc => lev a k t + acc) 0 ls.
Lemma list_ind2 : forall (A : Type) (P : list A -> Prop), P [] -> (forall a, P [a]) -> (forall a b tl, P tl -> P (a :: b :: tl)) -> forall l, P l.
Proof.
  intros A P H0 H1 H2. exact (fix IH (l : list A) : P l := match l with [] => H0 | [a] => H1 a | a :: b :: tl => H2 a b tl (IH tl) end).
Qed.
Lemma pair_round_spec : forall ls, Forall land3 ls ->
  exists ls', pair_round ls = Some ls' /\ Forall land3 ls' /\
    (forall k t, - INF < t -> t < INF -> sumlev ls' k t == sumlev ls k t) /\
    (length ls' <= length ls)%nat /\ ((2 <= length ls)%nat -> (length ls' < length ls)%nat) /\ (ls <> [] -> ls' <> []).
Proof.
  intros ls. induction ls as [| a | a b tl IH] using list_ind2; intros H.
  - exists []. repeat split; auto; try (simpl; lia); try (intros; reflexivity).
  - exists [a]. repeat split; auto; try (simpl; lia); try discriminate; try (intros; reflexivity).
  - inversion H as [|? ? Ha H']; subst. inversion H' as [|? ? Hb H'']; subst.
    destruct (land_add_lev a b Ha Hb) as [s [Hs [Ls Hlev]]]. destruct (IH H'') as [tl' [Ht [Lt [Hsum [Hl1 [Hl2 _]]]]]].
    exists (s :: tl'). cbn [pair_round]. rewrite Hs, Ht. repeat split; auto; try (simpl; lia); try discriminate.
    intros k t Ht0 Ht1. simpl. rewrite Hlev, Hsum by auto. ring.
Qed.
Lemma avg_rounds_spec : forall fuel ls, Forall land3 ls -> ls <> [] -> (length ls <= fuel)%nat ->
  exists s, avg_rounds fuel ls = Some s /\ land3 s /\ forall k t, - INF < t -> t < INF -> lev s k t == sumlev ls k t.
Proof.
  induction fuel as [|fuel IH]; intros ls H Hne Hf; [destruct ls; [congruence | simpl in Hf; lia]|].
  cbn [avg_rounds]. destruct ls as [|a [|b tl]]; [congruence | |].
  - exists a. inversion H; subst. repeat split; auto. intros; simpl; ring.
  - destruct (pair_round_spec (a :: b :: tl) H) as [ls' [Hp [Ll [Hsum [Hl1 [Hl2 Hne']]]]]]. rewrite Hp.
    destruct (IH ls' Ll (Hne' ltac:(discriminate)) ltac:(specialize (Hl2 ltac:(simpl; lia)); simpl in *; lia)) as [s [Hs [Ls Hlev]]].
    exists s. repeat split; auto. intros k t Ht0 Ht1. rewrite Hlev, Hsum by auto. reflexivity.
Qed.

Theorem land_average_pointwise : forall ls, Forall land3 ls -> ls <> [] ->
  exists s, land_average ls = Some s /\
    forall k t, - INF < t -> t < INF ->
      exists v, value_at s k t = Some v /\ v == sumlev ls k t / inject_Z (Z.of_nat (length ls)).
Proof.
  intros ls H Hne. destruct (avg_rounds_spec (S (length ls)) ls H Hne ltac:(lia)) as [s [Hs [Ls Hlev]]].
  unfold land_average. rewrite Hs. eexists; split; [reflexivity|]. intros k t Ht0 Ht1.
  set (c := rdiv 1 (inject_Z (Z.of_nat (length ls)))).
  destruct (value_at_map1 (fun y => rmul c y)) with (a := s) (k := k) (t := t) as [v [H1 H2]]; auto.
  - intros a a' E. rewrite !rmul_eq, E. reflexivity.
  - intros. rewrite !rmul_eq. ring.
  - rewrite rmul_eq. ring.
  - exists v. split; [exact H1|]. rewrite H2, rmul_eq, Hlev by auto. unfold c. rewrite rdiv_eq.
    assert (Hn : ~ inject_Z (Z.of_nat (length ls)) == 0).
    { destruct ls; [congruence|]. simpl length. intro E. assert (0 < inject_Z (Z.of_nat (S (length ls)))); [|lra].
      change 0 with (inject_Z 0). rewrite <- Zlt_Qlt. lia. }
    field. exact Hn.
Qed.

Fixpoint sumlambda (Ds : list (list (Q * Q))) (k : nat) (t : Q) : Q :=
  match Ds with [] => 0 | D :: tl => lambda D k t + sumlambda tl k t end.
(* the average of the landscapes of n >= 1 diagrams is the pointwise mean of their landscape functions *)
Theorem landscape_average : forall Ds, Ds <> [] -> Forall admissible Ds ->
  exists lands s, Forall2 (fun D la => construct D 0 = Some la) Ds lands /\ land_average lands = Some s /\
    forall k t, - INF < t -> t < INF ->
      exists v, value_at s k t = Some v /\ v == sumlambda Ds k t / inject_Z (Z.of_nat (length Ds)).
Proof.
  intros Ds Hne Hadm.
  assert (Hl : exists lands, Forall2 (fun D la => construct D 0 = Some la) Ds lands /\ Forall land3 lands /\
                 forall k t, - INF < t -> t < INF -> sumlev lands k t == sumlambda Ds k t).
  { clear Hne. induction Hadm as [|D tl HD Htl IH].
    - exists []. repeat split; auto; try (intros; reflexivity).
    - destruct IH as [lands [F2 [L3 Hsum]]]. destruct (construct_total D) as [la Ha].
      destruct (construct_levels3 D la HD Ha) as [La Fa].
      exists (la :: lands). repeat split; auto. intros k t Ht0 Ht1. simpl. rewrite Fa, Hsum by auto. reflexivity. }
  destruct Hl as [lands [F2 [L3 Hsum]]].
  assert (Hlen : length lands = length Ds) by (clear - F2; induction F2; simpl; auto).
  assert (Hne' : lands <> []) by (destruct lands; [destruct Ds; [congruence | simpl in Hlen; lia] | discriminate]).
  destruct (land_average_pointwise lands L3 Hne') as [s [Hs Hval]].
  exists lands, s. repeat split; auto. intros k t Ht0 Ht1. destruct (Hval k t Ht0 Ht1) as [v [V1 V2]].
  exists v. split; auto. rewrite V2, Hsum, Hlen by auto. reflexivity.
Qed.
