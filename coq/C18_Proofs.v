(* C18 — proofs about the specification model and the transcribed algorithms of C18_Model.v *)
From Coq Require Import List ZArith QArith Qreduction Qabs Qround Bool Lia Lqa Permutation Sorted Setoid Morphisms Arith.
Require Import C18_Model.
Import ListNotations.
Local Open Scope Q_scope.

(* ================================================================ basic facts *)
Lemma Qle_bool_false : forall a b, Qle_bool a b = false -> b < a.
Proof.
  intros a b H. apply Qnot_le_lt. intro Hle. apply Qle_bool_iff in Hle. congruence.
Qed.

Lemma radd_eq : forall a b, radd a b == a + b. Proof. intros; unfold radd; apply Qred_correct. Qed.
Lemma rsub_eq : forall a b, rsub a b == a - b. Proof. intros; unfold rsub; apply Qred_correct. Qed.
Lemma rmul_eq : forall a b, rmul a b == a * b. Proof. intros; unfold rmul; apply Qred_correct. Qed.
Lemma rdiv_eq : forall a b, rdiv a b == a / b. Proof. intros; unfold rdiv; apply Qred_correct. Qed.

Lemma qmax_le_l : forall a b, a <= qmax a b.
Proof. intros a b; unfold qmax; destruct (Qle_bool a b) eqn:E; [apply Qle_bool_iff in E; auto | apply Qle_refl]. Qed.
Lemma qmax_le_r : forall a b, b <= qmax a b.
Proof. intros a b; unfold qmax; destruct (Qle_bool a b) eqn:E; [apply Qle_refl | apply Qle_bool_false in E; apply Qlt_le_weak; auto]. Qed.
Lemma qmax_lub : forall a b c, a <= c -> b <= c -> qmax a b <= c.
Proof. intros a b c Ha Hb; unfold qmax; destruct (Qle_bool a b); auto. Qed.
Lemma qmax_case : forall a b, qmax a b = a \/ qmax a b = b.
Proof. intros a b; unfold qmax; destruct (Qle_bool a b); auto. Qed.
Lemma qmin_le_l : forall a b, qmin a b <= a.
Proof. intros a b; unfold qmin; destruct (Qle_bool a b) eqn:E; [apply Qle_refl | apply Qle_bool_false in E; apply Qlt_le_weak; auto]. Qed.
Lemma qmin_le_r : forall a b, qmin a b <= b.
Proof. intros a b; unfold qmin; destruct (Qle_bool a b) eqn:E; [apply Qle_bool_iff in E; auto | apply Qle_refl]. Qed.

Lemma qabs_Qabs : forall a, qabs a == Qabs a.
Proof.
  intros a; unfold qabs; destruct (Qle_bool 0 a) eqn:E.
  - apply Qle_bool_iff in E. symmetry; apply Qabs_pos; auto.
  - apply Qle_bool_false in E. symmetry; apply Qabs_neg; apply Qlt_le_weak; auto.
Qed.
Lemma qabs_nonneg : forall a, 0 <= qabs a.
Proof. intros; rewrite qabs_Qabs; apply Qabs_nonneg. Qed.
Global Instance qabs_comp : Proper (Qeq ==> Qeq) qabs.
Proof. intros a b H; rewrite !qabs_Qabs; rewrite H; reflexivity. Qed.

(* ================================================================ lambda_k *)
Lemma tent_nonneg : forall bd t, 0 <= tent bd t.
Proof. intros; unfold tent; apply qmax_le_l. Qed.
Lemma tentr_nonneg : forall bd t, 0 <= tentr bd t.
Proof. intros; unfold tentr; rewrite Qred_correct; apply tent_nonneg. Qed.

Definition geq (a b : Q) : Prop := b <= a.

Lemma insert_desc_perm : forall x l, Permutation (insert_desc x l) (x :: l).
Proof.
  intros x l; induction l as [|y tl IH]; simpl; auto.
  destruct (Qle_bool y x); auto.
  eapply perm_trans; [apply perm_skip; apply IH | apply perm_swap].
Qed.
Lemma sort_desc_perm : forall l, Permutation (sort_desc l) l.
Proof.
  induction l as [|x tl IH]; simpl; auto.
  eapply perm_trans; [apply insert_desc_perm | apply perm_skip; exact IH].
Qed.
Lemma insert_desc_sorted : forall x l, StronglySorted geq l -> StronglySorted geq (insert_desc x l).
Proof.
  intros x l H; induction H as [|y tl Hs IH Hall]; simpl.
  - constructor; constructor.
  - destruct (Qle_bool y x) eqn:E.
    + apply Qle_bool_iff in E. constructor; [constructor; auto|].
      constructor; [exact E|]. eapply Forall_impl; [|exact Hall]. intros z Hz; unfold geq in *; eapply Qle_trans; eauto.
    + apply Qle_bool_false in E. constructor; auto.
      eapply Permutation_Forall; [apply Permutation_sym; apply insert_desc_perm|].
      constructor; auto. unfold geq; apply Qlt_le_weak; auto.
Qed.
Lemma sort_desc_sorted : forall l, StronglySorted geq (sort_desc l).
Proof. induction l; simpl; [constructor | apply insert_desc_sorted; auto]. Qed.

Lemma sorted_nth_step : forall l, StronglySorted geq l -> (forall x, In x l -> 0 <= x) ->
  forall k, nth (S k) l 0 <= nth k l 0.
Proof.
  intros l H; induction H as [|a tl Hs IH Hall]; intros Hpos k.
  - destruct k; simpl; apply Qle_refl.
  - destruct k as [|k].
    + destruct tl as [|b tl']; simpl.
      * apply Hpos; left; auto.
      * inversion Hall; subst; auto.
    + change (nth (S k) tl 0 <= nth k tl 0). apply IH. intros x Hx; apply Hpos; right; auto.
Qed.

Lemma lambda_values_nonneg : forall D t x, In x (sort_desc (map (fun bd => tentr bd t) D)) -> 0 <= x.
Proof.
  intros D t x Hx. apply (Permutation_in _ (sort_desc_perm _)) in Hx.
  apply in_map_iff in Hx. destruct Hx as [bd [Hbd _]]. subst x. apply tentr_nonneg.
Qed.

Theorem lambda_nonneg : forall D k t, 0 <= lambda D k t.
Proof.
  intros D k t; unfold lambda.
  destruct (nth_in_or_default k (sort_desc (map (fun bd => tentr bd t) D)) 0) as [Hin|Hd].
  - eapply lambda_values_nonneg; eauto.
  - rewrite Hd; apply Qle_refl.
Qed.

Theorem lambda_antitone_step : forall D k t, lambda D (S k) t <= lambda D k t.
Proof.
  intros D k t; unfold lambda. apply sorted_nth_step; [apply sort_desc_sorted | apply lambda_values_nonneg].
Qed.

Theorem lambda_antitone_in_k : forall D j k t, (j <= k)%nat -> lambda D k t <= lambda D j t.
Proof.
  intros D j k t H; induction H.
  - apply Qle_refl.
  - eapply Qle_trans; [apply lambda_antitone_step | exact IHle].
Qed.

Theorem lambda_zero_beyond : forall D k t, (length D <= k)%nat -> lambda D k t = 0.
Proof.
  intros D k t H; unfold lambda; apply nth_overflow.
  rewrite (Permutation_length (sort_desc_perm _)), map_length; exact H.
Qed.

(* the largest value is the maximum of the tents: every tent is below lambda_0, and lambda_k is one of the tents *)
Theorem lambda_top_dominates : forall D bd t, In bd D -> tent bd t <= lambda D 0 t.
Proof.
  intros D bd t Hin; unfold lambda.
  assert (Hin' : In (tentr bd t) (sort_desc (map (fun bd => tentr bd t) D))).
  { apply (Permutation_in _ (Permutation_sym (sort_desc_perm _))). apply in_map_iff; exists bd; auto. }
  pose proof (sort_desc_sorted (map (fun bd => tentr bd t) D)) as Hs.
  destruct (sort_desc (map (fun bd0 => tentr bd0 t) D)) as [|a tl]; [inversion Hin'|].
  simpl. destruct Hin' as [Heq|Hin'].
  - subst a. unfold tentr; rewrite Qred_correct; apply Qle_refl.
  - inversion Hs; subst. rewrite Forall_forall in H2. specialize (H2 _ Hin'). unfold geq in H2.
    unfold tentr in H2 at 1. rewrite Qred_correct in H2. exact H2.
Qed.
Theorem lambda_is_a_tent : forall D k t, (k < length D)%nat -> exists bd, In bd D /\ lambda D k t == tent bd t.
Proof.
  intros D k t Hk; unfold lambda.
  assert (Hlen : (k < length (sort_desc (map (fun bd => tentr bd t) D)))%nat).
  { rewrite (Permutation_length (sort_desc_perm _)), map_length; exact Hk. }
  pose proof (nth_In _ 0 Hlen) as Hin.
  apply (Permutation_in _ (sort_desc_perm _)) in Hin. apply in_map_iff in Hin.
  destruct Hin as [bd [Hbd Hin]]. exists bd; split; auto. rewrite <- Hbd. unfold tentr; apply Qred_correct.
Qed.

(* permutation invariance (Leibniz equality: the tent values are stored reduced) *)
Definition reduced (x : Q) : Prop := exists y, x = Qred y.
Lemma reduced_antisym : forall x y, reduced x -> reduced y -> x <= y -> y <= x -> x = y.
Proof.
  intros x y [a Ha] [b Hb] H1 H2; subst. apply Qred_complete.
  rewrite <- (Qred_correct a), <- (Qred_correct b). apply Qle_antisym; auto.
Qed.
Lemma sorted_perm_unique : forall l l', StronglySorted geq l -> StronglySorted geq l' -> Permutation l l' ->
  (forall x, In x l -> reduced x) -> l = l'.
Proof.
  induction l as [|a l IH]; intros l' Hs Hs' Hp Hred.
  - apply Permutation_nil in Hp; auto.
  - destruct l' as [|b l']; [apply Permutation_sym in Hp; apply Permutation_nil in Hp; discriminate|].
    inversion Hs as [|? ? Hsl Hal]; subst. inversion Hs' as [|? ? Hsl' Hal']; subst.
    rewrite Forall_forall in Hal, Hal'.
    assert (Hab : a = b).
    { assert (Ha : In a (b :: l')) by (eapply Permutation_in; [exact Hp | left; auto]).
      assert (Hb : In b (a :: l)) by (eapply Permutation_in; [apply Permutation_sym; exact Hp | left; auto]).
      apply reduced_antisym; [apply Hred; left; auto | apply Hred; exact Hb | |].
      - destruct Ha as [Ha|Ha]; [subst; apply Qle_refl | apply Hal'; auto].
      - destruct Hb as [Hb|Hb]; [subst; apply Qle_refl | apply Hal; auto]. }
    subst b. f_equal. apply IH; auto.
    + eapply Permutation_cons_inv; exact Hp.
    + intros x Hx; apply Hred; right; auto.
Qed.

Theorem lambda_perm_invariant : forall D D' k t, Permutation D D' -> lambda D k t = lambda D' k t.
Proof.
  intros D D' k t Hp; unfold lambda. f_equal.
  apply sorted_perm_unique; try apply sort_desc_sorted.
  - eapply perm_trans; [apply sort_desc_perm|].
    eapply perm_trans; [apply Permutation_map; exact Hp | apply Permutation_sym; apply sort_desc_perm].
  - intros x Hx. apply (Permutation_in _ (sort_desc_perm _)) in Hx. apply in_map_iff in Hx.
    destruct Hx as [bd [Hbd _]]; exists (tent bd t); auto.
Qed.

(* ================================================================ PL functions *)
Lemma line_val_right : forall p q, ~ fst q - fst p == 0 -> line_val p q (fst q) == snd q.
Proof. intros p q H; unfold line_val; field; exact H. Qed.

Definition xsorted (l : list pt) : Prop := StronglySorted Qlt (map fst l).

Lemma interp_from_at_breakpoint : forall tl p0 p, xsorted (p0 :: tl) -> In p tl -> interp_from p0 tl (fst p) == snd p.
Proof.
  induction tl as [|q tl IH]; intros p0 p Hs Hin; [inversion Hin|].
  unfold xsorted in Hs; simpl in Hs. inversion Hs as [|? ? Hs' Hall]; subst.
  simpl. destruct Hin as [Heq|Hin].
  - subst q. assert (E : Qle_bool (fst p) (fst p) = true) by (apply Qle_bool_iff; apply Qle_refl).
    rewrite E. apply line_val_right. inversion Hall; subst.
    intro H0. lra.
  - assert (Hlt : fst q < fst p).
    { inversion Hs' as [|? ? _ Hall']; subst. rewrite Forall_forall in Hall'. apply Hall'. apply in_map; auto. }
    assert (E : Qle_bool (fst p) (fst q) = false).
    { destruct (Qle_bool (fst p) (fst q)) eqn:E; auto. apply Qle_bool_iff in E. exfalso. eapply Qlt_irrefl. eapply Qlt_le_trans; eauto. }
    rewrite E. apply IH; auto.
Qed.

Theorem interp_at_breakpoint : forall l p, xsorted l -> In p l -> interp l (fst p) == snd p.
Proof.
  intros l p Hs Hin. destruct l as [|p0 tl]; [inversion Hin|]. simpl.
  destruct Hin as [Heq|Hin].
  - subst p0. assert (E : Qle_bool (fst p) (fst p) = true) by (apply Qle_bool_iff; apply Qle_refl). rewrite E. reflexivity.
  - assert (Hlt : fst p0 < fst p).
    { unfold xsorted in Hs; simpl in Hs. inversion Hs as [|? ? _ Hall]; subst. rewrite Forall_forall in Hall. apply Hall. apply in_map; auto. }
    assert (E : Qle_bool (fst p) (fst p0) = false).
    { destruct (Qle_bool (fst p) (fst p0)) eqn:E; auto. apply Qle_bool_iff in E. exfalso. eapply Qlt_irrefl. eapply Qlt_le_trans; eauto. }
    rewrite E. apply interp_from_at_breakpoint; auto.
Qed.

Definition same_pts (p q : pt) : Prop := fst p = fst q /\ snd p == snd q.
Lemma line_val_ext : forall p p' q q' t, same_pts p p' -> same_pts q q' -> line_val p q t == line_val p' q' t.
Proof.
  intros p p' q q' t [Hx Hy] [Hx' Hy']; unfold line_val. rewrite Hx, Hx', Hy, Hy'. reflexivity.
Qed.
Lemma interp_from_ext : forall tl tl' p p' t, same_pts p p' -> Forall2 same_pts tl tl' ->
  interp_from p tl t == interp_from p' tl' t.
Proof.
  induction tl as [|q tl IH]; intros tl' p p' t Hp HF; inversion HF; subst; simpl.
  - apply Hp.
  - destruct H1 as [Hx Hy]. rewrite <- Hx. destruct (Qle_bool t (fst q)).
    + apply line_val_ext; auto. split; auto.
    + apply IH; auto. split; auto.
Qed.
Lemma interp_ext : forall l l' t, Forall2 same_pts l l' -> interp l t == interp l' t.
Proof.
  intros l l' t HF; inversion HF; subst; simpl; [reflexivity|].
  destruct H as [Hx Hy]. rewrite <- Hx. destruct (Qle_bool t (fst x)); auto. apply interp_from_ext; auto. split; auto.
Qed.

Lemma Forall2_nth_intro : forall (P : pt -> pt -> Prop) l l', length l = length l' ->
  (forall i, (i < length l)%nat -> P (nth i l pt0) (nth i l' pt0)) -> Forall2 P l l'.
Proof.
  induction l as [|a l IH]; intros [|b l'] Hlen H; try discriminate; constructor.
  - apply (H O); simpl; lia.
  - apply IH; [simpl in Hlen; lia|]. intros i Hi. apply (H (S i)); simpl; lia.
Qed.

(* two PL functions over the same breakpoint abscissae that agree on them agree everywhere *)
Theorem pl_determined_by_breakpoints : forall f g, map fst f = map fst g -> xsorted f ->
  (forall x, In x (map fst f) -> interp f x == interp g x) -> forall t, interp f t == interp g t.
Proof.
  intros f g Hx Hs Hag t. apply interp_ext.
  assert (Hlen : length f = length g) by (rewrite <- (map_length fst f), Hx, map_length; auto).
  assert (Hsg : xsorted g) by (unfold xsorted in *; rewrite <- Hx; auto).
  apply Forall2_nth_intro; auto. intros i Hi.
  assert (Hfx : fst (nth i f pt0) = fst (nth i g pt0)).
  { change (fst (nth i f pt0)) with (fst (nth i f pt0)).
    rewrite <- (map_nth fst f pt0 i), <- (map_nth fst g pt0 i), Hx. reflexivity. }
  split; auto.
  rewrite <- (interp_at_breakpoint f (nth i f pt0) Hs (nth_In _ _ Hi)).
  assert (Hi' : (i < length g)%nat) by (rewrite <- Hlen; exact Hi).
  rewrite <- (interp_at_breakpoint g (nth i g pt0) Hsg (nth_In _ _ Hi')).
  rewrite <- Hfx. apply Hag. apply in_map. apply nth_In; auto.
Qed.

(* pointwise operations over common breakpoints *)
Lemma line_val_zip : forall (op : Q -> Q -> Q) (a b : Q) p p' q q' t,
  (forall y1 y2 y1' y2' s, op (y1 + (y2 - y1) * s) (y1' + (y2' - y1') * s) == op y1 y1' + (op y2 y2' - op y1 y1') * s) ->
  fst p = fst p' -> fst q = fst q' ->
  line_val (fst p, op (snd p) (snd p')) (fst q, op (snd q) (snd q')) t == op (line_val p q t) (line_val p' q' t).
Proof.
  intros op a b p p' q q' t Hop Hx Hx'. unfold line_val; simpl. rewrite <- Hx, <- Hx'. rewrite Hop. reflexivity.
Qed.

Section Zip.
  Variable op : Q -> Q -> Q.
  Hypothesis op_comp : forall a a' b b', a == a' -> b == b' -> op a b == op a' b'.
  Hypothesis op_lin : forall y1 y2 y1' y2' s,
    op (y1 + (y2 - y1) * s) (y1' + (y2' - y1') * s) == op y1 y1' + (op y2 y2' - op y1 y1') * s.

  Lemma interp_from_zip : forall tl tl' p p' t, fst p = fst p' -> map fst tl = map fst tl' ->
    interp_from (fst p, op (snd p) (snd p')) (pl_zip op tl tl') t == op (interp_from p tl t) (interp_from p' tl' t).
  Proof.
    induction tl as [|q tl IH]; intros [|q' tl'] p p' t Hp Hx; try discriminate; simpl.
    - reflexivity.
    - simpl in Hx. injection Hx as Hq Hx. rewrite <- Hq. destruct (Qle_bool t (fst q)).
      + apply (line_val_zip op 0 0); auto.
      + apply IH; auto.
  Qed.
  Lemma interp_zip : forall f g t, map fst f = map fst g -> interp (pl_zip op f g) t == op (interp f t) (interp g t) \/ f = [].
  Proof.
    intros [|p f] [|p' g] t Hx; try discriminate; auto. left. simpl in *.
    injection Hx as Hp Hx. rewrite <- Hp. destruct (Qle_bool t (fst p)); [reflexivity|].
    apply interp_from_zip; auto.
  Qed.
End Zip.

Theorem pl_add_pointwise : forall f g t, map fst f = map fst g -> interp (pl_add f g) t == interp f t + interp g t.
Proof.
  intros f g t Hx. destruct (interp_zip Qplus (fun y1 y2 y1' y2' s => ltac:(ring)) f g t Hx) as [H|H]; auto.
  subst f. destruct g; [simpl; ring | discriminate].
Qed.
Theorem pl_sub_pointwise : forall f g t, map fst f = map fst g -> interp (pl_sub f g) t == interp f t - interp g t.
Proof.
  intros f g t Hx. destruct (interp_zip Qminus (fun y1 y2 y1' y2' s => ltac:(ring)) f g t Hx) as [H|H]; auto.
  subst f. destruct g; [simpl; ring | discriminate].
Qed.

Lemma interp_from_scale : forall c tl p t,
  interp_from (fst p, c * snd p) (pl_scale c tl) t == c * interp_from p tl t.
Proof.
  induction tl as [|q tl IH]; intros p t; simpl; [reflexivity|].
  destruct (Qle_bool t (fst q)); [unfold line_val; simpl; ring | apply IH].
Qed.
Theorem pl_scale_pointwise : forall c f t, interp (pl_scale c f) t == c * interp f t.
Proof.
  intros c [|p f] t; simpl; [ring|]. destruct (Qle_bool t (fst p)); [reflexivity | apply interp_from_scale].
Qed.
(* the scalar multiplication of the implementation (reduced arithmetic) is the pointwise one *)
Theorem scale_level_pointwise : forall c f t, interp (scale_level c f) t == c * interp f t.
Proof.
  intros c f t. rewrite <- pl_scale_pointwise. apply interp_ext.
  unfold scale_level, pl_scale. induction f as [|p f IH]; simpl; constructor; auto.
  split; simpl; auto. apply rmul_eq.
Qed.

(* ================================================================ functionals on sampled PL functions *)
Global Instance qmax_comp : Proper (Qeq ==> Qeq ==> Qeq) qmax.
Proof.
  intros a a' Ha b b' Hb. apply Qle_antisym; apply qmax_lub.
  - rewrite Ha; apply qmax_le_l. - rewrite Hb; apply qmax_le_r.
  - rewrite <- Ha; apply qmax_le_l. - rewrite <- Hb; apply qmax_le_r.
Qed.

Lemma vsub_cons : forall u us v vs, vsub (u :: us) (v :: vs) = (u - v) :: vsub us vs.
Proof. reflexivity. Qed.
Lemma vadd_cons : forall u us v vs, vadd (u :: us) (v :: vs) = (u + v) :: vadd us vs.
Proof. reflexivity. Qed.

(* ---------------- sup norm *)
Lemma normsup_nonneg : forall us, 0 <= normsup us.
Proof. induction us; simpl; [apply Qle_refl | eapply Qle_trans; [apply qabs_nonneg | apply qmax_le_l]]. Qed.

Theorem distsup_sym : forall us vs, distsup us vs == distsup vs us.
Proof.
  unfold distsup. induction us as [|u us IH]; intros [|v vs]; try reflexivity.
  rewrite !vsub_cons. simpl. rewrite IH. apply qmax_comp; [|reflexivity].
  rewrite !qabs_Qabs. setoid_replace (v - u) with (- (u - v)) by ring. rewrite Qabs_opp. reflexivity.
Qed.
Theorem distsup_refl : forall us, distsup us us == 0.
Proof.
  unfold distsup. induction us as [|u us IH]; [reflexivity|].
  rewrite vsub_cons. simpl. rewrite IH. setoid_replace (u - u) with 0 by ring. reflexivity.
Qed.
Theorem distsup_triangle : forall us vs ws, length us = length vs -> length vs = length ws ->
  distsup us ws <= distsup us vs + distsup vs ws.
Proof.
  unfold distsup. induction us as [|u us IH]; intros [|v vs] [|w ws] H1 H2; try discriminate.
  rewrite !vsub_cons. simpl. apply qmax_lub.
    + eapply Qle_trans; [|apply Qplus_le_compat; apply qmax_le_l].
      rewrite !qabs_Qabs. setoid_replace (u - w) with ((u - v) + (v - w)) by ring. apply Qabs_triangle.
    + eapply Qle_trans; [apply (IH vs ws); simpl in *; lia|]. apply Qplus_le_compat; apply qmax_le_r.
Qed.
(* the sup of |f| over a segment is attained at an end: every value of the linear interpolation is below the larger end *)
Theorem segment_below_ends : forall u v s, 0 <= s -> s <= 1 -> qabs (u + (v - u) * s) <= qmax (qabs u) (qabs v).
Proof.
  intros u v s H0 H1. rewrite !qabs_Qabs.
  setoid_replace (u + (v - u) * s) with ((1 - s) * u + s * v) by ring.
  eapply Qle_trans; [apply Qabs_triangle|]. rewrite !Qabs_Qmult.
  rewrite (Qabs_pos (1 - s)) by lra. rewrite (Qabs_pos s) by lra.
  pose proof (qmax_le_l (qabs u) (qabs v)) as Hl. pose proof (qmax_le_r (qabs u) (qabs v)) as Hr.
  rewrite !qabs_Qabs in Hl, Hr. set (m := qmax (Qabs u) (Qabs v)) in *.
  pose proof (Qabs_nonneg u). pose proof (Qabs_nonneg v). nra.
Qed.

(* ---------------- sums over segments *)
Lemma sum_segs_cons2 : forall F x x' xs u v us,
  sum_segs F (x :: x' :: xs) (u :: v :: us) = radd (rmul (x' - x) (F u v)) (sum_segs F (x' :: xs) (v :: us)).
Proof. reflexivity. Qed.
Lemma sum_segs2_cons2 : forall F x x' xs u u' us v v' vs,
  sum_segs2 F (x :: x' :: xs) (u :: u' :: us) (v :: v' :: vs) =
  radd (rmul (x' - x) (F u u' v v')) (sum_segs2 F (x' :: xs) (u' :: us) (v' :: vs)).
Proof. reflexivity. Qed.

Ltac segs_ind xs IH :=
  induction xs as [|?x xs IH]; [intros; try reflexivity | destruct xs as [|?x' xs]; [intros; try reflexivity|]].

Lemma sum_segs_ext : forall F, Proper (Qeq ==> Qeq ==> Qeq) F ->
  forall xs us us', Forall2 Qeq us us' -> sum_segs F xs us == sum_segs F xs us'.
Proof.
  intros F HF. segs_ind xs IH. intros us us' H.
  inversion H as [|u u' t t' Hu Ht]; subst; [reflexivity|].
  inversion Ht as [|v v' t2 t2' Hv Ht2]; subst; [reflexivity|].
  rewrite !sum_segs_cons2, !radd_eq, !rmul_eq. rewrite (IH (v :: t2) (v' :: t2')) by auto.
  rewrite (HF _ _ Hu _ _ Hv). reflexivity.
Qed.
Lemma sum_segs_nonneg : forall F, (forall u v, 0 <= F u v) -> forall xs us, StronglySorted Qle xs -> 0 <= sum_segs F xs us.
Proof.
  intros F HF. segs_ind xs IH; try apply Qle_refl. intros us Hs.
  destruct us as [|u [|v us]]; try apply Qle_refl.
  rewrite sum_segs_cons2, radd_eq, rmul_eq.
  inversion Hs as [|? ? Hs' Hall]; subst. inversion Hall; subst.
  specialize (IH (v :: us) Hs'). specialize (HF u v). nra.
Qed.
Lemma sum_segs_subadd : forall F, (forall a b a' b', F (a + a') (b + b') <= F a b + F a' b') ->
  forall xs us vs, StronglySorted Qle xs -> length us = length vs ->
  sum_segs F xs (vadd us vs) <= sum_segs F xs us + sum_segs F xs vs.
Proof.
  intros F HF. segs_ind xs IH; try (simpl; lra). intros us vs Hs Hlen.
  destruct us as [|u [|u' us]]; destruct vs as [|v [|v' vs]]; try discriminate; try (simpl; lra).
  rewrite !vadd_cons, !sum_segs_cons2, !radd_eq, !rmul_eq.
  inversion Hs as [|? ? Hs' Hall]; subst. inversion Hall; subst.
  assert (IH' := IH (u' :: us) (v' :: vs) Hs' ltac:(simpl in *; lia)). rewrite vadd_cons in IH'.
  specialize (HF u u' v v'). nra.
Qed.
Lemma sum_segs_scale : forall F c k, (forall u v, F (c * u) (c * v) == k * F u v) ->
  forall xs us, sum_segs F xs (vscale c us) == k * sum_segs F xs us.
Proof.
  intros F c k HF. segs_ind xs IH; try (simpl; ring). intros us.
  destruct us as [|u [|v us]]; try (simpl; ring).
  change (vscale c (u :: v :: us)) with (c * u :: c * v :: vscale c us).
  rewrite !sum_segs_cons2, !radd_eq, !rmul_eq.
  assert (IH' := IH (v :: us)). change (vscale c (v :: us)) with (c * v :: vscale c us) in IH'.
  rewrite IH', HF. ring.
Qed.

Lemma vsub_as_vadd : forall us vs ws, length us = length vs -> length vs = length ws ->
  Forall2 Qeq (vsub us ws) (vadd (vsub us vs) (vsub vs ws)).
Proof.
  induction us as [|u us IH]; intros [|v vs] [|w ws] H1 H2; try discriminate; [constructor|].
  rewrite !vsub_cons, vadd_cons. constructor; [ring | apply IH; simpl in *; lia].
Qed.
Lemma vsub_swap : forall us vs, Forall2 Qeq (vsub vs us) (vscale (-1) (vsub us vs)).
Proof.
  induction us as [|u us IH]; intros [|v vs]; try (constructor; fail).
  rewrite !vsub_cons. change (vscale (-1) (u - v :: vsub us vs)) with (-1 * (u - v) :: vscale (-1) (vsub us vs)).
  constructor; [ring | apply IH].
Qed.
Lemma vsub_self : forall us, Forall2 Qeq (vsub us us) (vscale 0 (vsub us us)).
Proof.
  induction us as [|u us IH]; [constructor|]. rewrite vsub_cons.
  change (vscale 0 (u - u :: vsub us us)) with (0 * (u - u) :: vscale 0 (vsub us us)). constructor; [ring | apply IH].
Qed.
Lemma vsub_length : forall us vs, length us = length vs -> length (vsub us vs) = length us.
Proof. intros; unfold vsub; rewrite map_length, combine_length; lia. Qed.

(* ---------------- L2 (squared) *)
Global Instance seg_sq_comp : Proper (Qeq ==> Qeq ==> Qeq) seg_sq.
Proof. intros u u' Hu v v' Hv; unfold seg_sq; rewrite Hu, Hv; reflexivity. Qed.
Lemma seg_sq_nonneg : forall u v, 0 <= seg_sq u v.
Proof. intros u v; unfold seg_sq. apply Qle_shift_div_l; [reflexivity|]. nra. Qed.
Lemma seg_sq_scale : forall c u v, seg_sq (c * u) (c * v) == (c * c) * seg_sq u v.
Proof. intros; unfold seg_sq; field. Qed.
Theorem dist2sq_sym : forall xs us vs, dist2sq xs us vs == dist2sq xs vs us.
Proof.
  intros; unfold dist2sq, norm2sq. rewrite (sum_segs_ext seg_sq _ xs _ _ (vsub_swap us vs)).
  rewrite (sum_segs_scale seg_sq (-1) ((-1) * (-1))) by (intros; apply seg_sq_scale). ring.
Qed.
Theorem dist2sq_refl : forall xs us, dist2sq xs us us == 0.
Proof.
  intros; unfold dist2sq, norm2sq. rewrite (sum_segs_ext seg_sq _ xs _ _ (vsub_self us)).
  rewrite (sum_segs_scale seg_sq 0 (0 * 0)) by (intros; apply seg_sq_scale). ring.
Qed.
Theorem dist2sq_nonneg : forall xs us vs, StronglySorted Qle xs -> 0 <= dist2sq xs us vs.
Proof. intros; unfold dist2sq, norm2sq; apply sum_segs_nonneg; auto; apply seg_sq_nonneg. Qed.

(* ---------------- inner product *)
Lemma seg_prod_sym : forall u1 v1 u2 v2, seg_prod u1 v1 u2 v2 == seg_prod u2 v2 u1 v1.
Proof. intros; unfold seg_prod; field. Qed.
Lemma seg_prod_add : forall a b a' b' c d, seg_prod (a + a') (b + b') c d == seg_prod a b c d + seg_prod a' b' c d.
Proof. intros; unfold seg_prod; field. Qed.
Lemma seg_prod_scale : forall k a b c d, seg_prod (k * a) (k * b) c d == k * seg_prod a b c d.
Proof. intros; unfold seg_prod; field. Qed.
Lemma seg_prod_sq : forall u v, seg_prod u v u v == seg_sq u v.
Proof. intros; unfold seg_prod, seg_sq; field. Qed.

Ltac segs2_start xs IH us vs :=
  induction xs as [|?x xs IH]; [intros; try reflexivity | destruct xs as [|?x' xs]; [intros; try reflexivity|]].

Theorem inner_sym : forall xs us vs, inner xs us vs == inner xs vs us.
Proof.
  unfold inner. induction xs as [|x xs IH]; [reflexivity|]. destruct xs as [|x' xs]; [reflexivity|].
  intros us vs. destruct us as [|u [|u' us]]; destruct vs as [|v [|v' vs]]; try reflexivity.
  rewrite !sum_segs2_cons2, !radd_eq, !rmul_eq. rewrite (IH (u' :: us) (v' :: vs)). rewrite seg_prod_sym. reflexivity.
Qed.
Theorem inner_add_l : forall xs us us' vs, length us = length us' ->
  inner xs (vadd us us') vs == inner xs us vs + inner xs us' vs.
Proof.
  unfold inner. induction xs as [|x xs IH]; [intros; simpl; ring|]. destruct xs as [|x' xs]; [intros; simpl; ring|].
  intros us us' vs Hlen.
  destruct us as [|u [|u2 us]]; destruct us' as [|w [|w2 us']]; try discriminate;
    destruct vs as [|v [|v2 vs]]; try (simpl; ring).
  rewrite !vadd_cons, !sum_segs2_cons2, !radd_eq, !rmul_eq.
  assert (IH' := IH (u2 :: us) (w2 :: us') (v2 :: vs) ltac:(simpl in *; lia)). rewrite vadd_cons in IH'.
  rewrite IH', seg_prod_add. ring.
Qed.
Theorem inner_scale_l : forall xs k us vs, inner xs (vscale k us) vs == k * inner xs us vs.
Proof.
  unfold inner. induction xs as [|x xs IH]; [intros; simpl; ring|]. destruct xs as [|x' xs]; [intros; simpl; ring|].
  intros k us vs. destruct us as [|u [|u2 us]]; destruct vs as [|v [|v2 vs]]; try (simpl; ring).
  change (vscale k (u :: u2 :: us)) with (k * u :: k * u2 :: vscale k us).
  rewrite !sum_segs2_cons2, !radd_eq, !rmul_eq.
  assert (IH' := IH k (u2 :: us) (v2 :: vs)). change (vscale k (u2 :: us)) with (k * u2 :: vscale k us) in IH'.
  rewrite IH', seg_prod_scale. ring.
Qed.
Theorem inner_add_r : forall xs us vs vs', length vs = length vs' ->
  inner xs us (vadd vs vs') == inner xs us vs + inner xs us vs'.
Proof. intros. rewrite inner_sym, inner_add_l by auto. rewrite (inner_sym xs vs), (inner_sym xs vs'). reflexivity. Qed.
Theorem inner_scale_r : forall xs k us vs, inner xs us (vscale k vs) == k * inner xs us vs.
Proof. intros. rewrite inner_sym, inner_scale_l, inner_sym. reflexivity. Qed.
Theorem inner_self_is_norm2sq : forall xs us, inner xs us us == norm2sq xs us.
Proof.
  unfold inner, norm2sq. induction xs as [|x xs IH]; [reflexivity|]. destruct xs as [|x' xs]; [reflexivity|].
  intros us. destruct us as [|u [|u' us]]; try reflexivity.
  rewrite sum_segs2_cons2, sum_segs_cons2, !radd_eq, !rmul_eq. rewrite (IH (u' :: us)), seg_prod_sq. reflexivity.
Qed.

(* ---------------- L1 *)
Global Instance seg_abs_comp : Proper (Qeq ==> Qeq ==> Qeq) seg_abs.
Proof.
  intros u u' Hu v v' Hv; unfold seg_abs. rewrite Hu, Hv. destruct (Qle_bool 0 (u' * v')); rewrite Hu, Hv; reflexivity.
Qed.
Lemma seg_abs_same : forall u v, 0 <= u * v -> seg_abs u v == (qabs u + qabs v) / 2.
Proof. intros u v H; unfold seg_abs. apply Qle_bool_iff in H. rewrite H. reflexivity. Qed.
Lemma seg_abs_mixed : forall u v, u * v < 0 -> seg_abs u v == (u * u + v * v) / (2 * (qabs u + qabs v)).
Proof.
  intros u v H; unfold seg_abs. destruct (Qle_bool 0 (u * v)) eqn:E; [|reflexivity].
  apply Qle_bool_iff in E. exfalso. lra.
Qed.
Lemma qabs_pos : forall u, 0 <= u -> qabs u == u.
Proof. intros; rewrite qabs_Qabs; apply Qabs_pos; auto. Qed.
Lemma qabs_neg : forall u, u <= 0 -> qabs u == - u.
Proof. intros; rewrite qabs_Qabs; apply Qabs_neg; auto. Qed.
Lemma qabs_opp : forall u, qabs (- u) == qabs u.
Proof. intros; rewrite !qabs_Qabs; apply Qabs_opp. Qed.
Lemma seg_abs_opp : forall u v, seg_abs (- u) (- v) == seg_abs u v.
Proof.
  intros u v; unfold seg_abs. setoid_replace (- u * - v) with (u * v) by ring.
  destruct (Qle_bool 0 (u * v)); rewrite !qabs_opp; [reflexivity|].
  setoid_replace (- u * - u) with (u * u) by ring. setoid_replace (- v * - v) with (v * v) by ring. reflexivity.
Qed.
Lemma sign_cases : forall u v, 0 <= u * v \/ (0 < u /\ v < 0) \/ (u < 0 /\ 0 < v).
Proof.
  intros u v. destruct (Qlt_le_dec (u * v) 0) as [H|H]; [right | left; auto].
  destruct (Qlt_le_dec 0 u) as [Hu|Hu].
  - left; split; auto. destruct (Qlt_le_dec v 0); auto. exfalso; nra.
  - right. destruct (Qlt_le_dec 0 v) as [Hv|Hv].
    + split; auto. destruct (Qlt_le_dec u 0); auto. exfalso; nra.
    + exfalso; nra.
Qed.
Lemma seg_abs_pos_neg : forall u v, 0 < u -> v < 0 -> seg_abs u v == (u * u + v * v) / (2 * (u - v)).
Proof.
  intros u v Hu Hv. rewrite seg_abs_mixed by nra.
  rewrite (qabs_pos u) by lra. rewrite (qabs_neg v) by lra. setoid_replace (u + - v) with (u - v) by ring. reflexivity.
Qed.
Lemma seg_abs_nonneg : forall u v, 0 <= seg_abs u v.
Proof.
  intros u v. pose proof (qabs_nonneg u) as Hu. pose proof (qabs_nonneg v) as Hv.
  destruct (Qlt_le_dec (u * v) 0) as [H|H].
  - rewrite seg_abs_mixed by auto.
    assert (Hpos : 0 < 2 * (qabs u + qabs v)).
    { destruct (Qlt_le_dec 0 u) as [H1|H1]; [rewrite (qabs_pos u) by lra; lra|].
      destruct (Qlt_le_dec u 0) as [H2|H2]; [rewrite (qabs_neg u) by lra; lra|]. exfalso. assert (E : u == 0) by lra. rewrite E in H. lra. }
    apply Qle_shift_div_l; auto. nra.
  - rewrite seg_abs_same by auto. apply Qle_shift_div_l; [reflexivity|]. lra.
Qed.

(* sigma * J_s, the integral of f over [0,s] minus the integral over [s,1], is a linear functional of the end values (u,v);
   the integral of |f| is the largest of them: this gives subadditivity without a case analysis on six signs *)
Definition Jf (s u v : Q) : Q := u * (2 * s - s * s - (1 # 2)) + v * (s * s - (1 # 2)).
Lemma Jf_add : forall s u v u' v', Jf s (u + u') (v + v') == Jf s u v + Jf s u' v'.
Proof. intros; unfold Jf; ring. Qed.
Lemma Jf_opp : forall s u v, Jf s (- u) (- v) == - Jf s u v.
Proof. intros; unfold Jf; ring. Qed.
Lemma coef_bound : forall al be u v, - (1 # 2) <= al -> al <= 1 # 2 -> - (1 # 2) <= be -> be <= 1 # 2 ->
  u * al + v * be <= (qabs u + qabs v) / 2.
Proof.
  intros al be u v H1 H2 H3 H4. apply Qle_shift_div_l; [reflexivity|].
  destruct (Qlt_le_dec u 0) as [Hu|Hu]; [rewrite (qabs_neg u) by lra | rewrite (qabs_pos u) by lra];
  (destruct (Qlt_le_dec v 0) as [Hv|Hv]; [rewrite (qabs_neg v) by lra | rewrite (qabs_pos v) by lra]); nra.
Qed.
Lemma Jf_bound_same : forall s u v, 0 <= s -> s <= 1 -> 0 <= u * v -> Jf s u v <= seg_abs u v /\ - Jf s u v <= seg_abs u v.
Proof.
  intros s u v H0 H1 H. rewrite seg_abs_same by auto. unfold Jf. split.
  - apply coef_bound; nra.
  - setoid_replace (- (u * (2 * s - s * s - (1 # 2)) + v * (s * s - (1 # 2))))
      with (u * (- (2 * s - s * s - (1 # 2))) + v * (- (s * s - (1 # 2)))) by ring.
    apply coef_bound; nra.
Qed.
Lemma Jf_bound_pos_neg : forall s u v, 0 <= s -> s <= 1 -> 0 < u -> v < 0 -> Jf s u v <= seg_abs u v /\ - Jf s u v <= seg_abs u v.
Proof.
  intros s u v H0 H1 Hu Hv. rewrite seg_abs_pos_neg by auto.
  assert (Hw : 0 < 2 * (u - v)) by lra.
  set (z := (u - v) * s - u).
  assert (Hz1 : - u <= z) by (unfold z; nra). assert (Hz2 : z <= - v) by (unfold z; nra).
  split; apply Qle_shift_div_l; auto.
  - apply Qle_minus_iff.
    setoid_replace (u * u + v * v + - (Jf s u v * (2 * (u - v)))) with (2 * (z * z)) by (unfold Jf, z; ring).
    nra.
  - apply Qle_minus_iff.
    setoid_replace (u * u + v * v + - (- Jf s u v * (2 * (u - v)))) with (2 * (u * u + v * v) - 2 * (z * z)) by (unfold Jf, z; ring).
    destruct (Qlt_le_dec z 0); nra.
Qed.
Lemma Jf_bound : forall s u v, 0 <= s -> s <= 1 -> Jf s u v <= seg_abs u v /\ - Jf s u v <= seg_abs u v.
Proof.
  intros s u v H0 H1. destruct (sign_cases u v) as [H|[[Hu Hv]|[Hu Hv]]].
  - apply Jf_bound_same; auto.
  - apply Jf_bound_pos_neg; auto.
  - destruct (Jf_bound_pos_neg s (- u) (- v) H0 H1 ltac:(lra) ltac:(lra)) as [A B].
    rewrite seg_abs_opp, Jf_opp in A, B. split; [lra | exact A].
Qed.
Lemma Jf_attain_pos_neg : forall u v, 0 < u -> v < 0 -> exists s, 0 <= s /\ s <= 1 /\ seg_abs u v == Jf s u v.
Proof.
  intros u v Hu Hv. exists (u / (u - v)). assert (Hw : 0 < u - v) by lra.
  split; [apply Qle_shift_div_l; auto; lra|]. split; [apply Qle_shift_div_r; auto; lra|].
  rewrite seg_abs_pos_neg by auto. unfold Jf. field. lra.
Qed.
Lemma Jf_attain : forall u v, exists s, 0 <= s /\ s <= 1 /\ (seg_abs u v == Jf s u v \/ seg_abs u v == - Jf s u v).
Proof.
  intros u v. destruct (sign_cases u v) as [H|[[Hu Hv]|[Hu Hv]]].
  - exists 1. split; [lra|]. split; [lra|]. rewrite seg_abs_same by auto. unfold Jf.
    destruct (Qlt_le_dec u 0) as [Hu|Hu]; destruct (Qlt_le_dec v 0) as [Hv|Hv].
    + right. rewrite (qabs_neg u), (qabs_neg v) by lra. field.
    + assert (v == 0) by nra. right. rewrite (qabs_neg u), (qabs_neg v) by lra. field.
    + assert (u == 0) by nra. right. rewrite (qabs_neg u), (qabs_neg v) by lra. field.
    + left. rewrite (qabs_pos u), (qabs_pos v) by lra. field.
  - destruct (Jf_attain_pos_neg u v Hu Hv) as [s [A [B C]]]. exists s; auto.
  - destruct (Jf_attain_pos_neg (- u) (- v) ltac:(lra) ltac:(lra)) as [s [A [B C]]]. exists s.
    rewrite seg_abs_opp, Jf_opp in C. auto.
Qed.
Theorem seg_abs_triangle : forall a b a' b', seg_abs (a + a') (b + b') <= seg_abs a b + seg_abs a' b'.
Proof.
  intros a b a' b'. destruct (Jf_attain (a + a') (b + b')) as [s [H0 [H1 [H|H]]]]; rewrite H, Jf_add;
  destruct (Jf_bound s a b H0 H1); destruct (Jf_bound s a' b' H0 H1); lra.
Qed.
Lemma seg_abs_scale_m1 : forall u v, seg_abs (-1 * u) (-1 * v) == 1 * seg_abs u v.
Proof. intros. setoid_replace (-1 * u) with (- u) by ring. setoid_replace (-1 * v) with (- v) by ring. rewrite seg_abs_opp; ring. Qed.
Lemma seg_abs_scale_0 : forall u v, seg_abs (0 * u) (0 * v) == 0 * seg_abs u v.
Proof. intros. setoid_replace (0 * u) with 0 by ring. setoid_replace (0 * v) with 0 by ring. unfold seg_abs; simpl. reflexivity. Qed.

Theorem dist1_sym : forall xs us vs, dist1 xs us vs == dist1 xs vs us.
Proof.
  intros; unfold dist1, norm1. rewrite (sum_segs_ext seg_abs _ xs _ _ (vsub_swap us vs)).
  rewrite (sum_segs_scale seg_abs (-1) 1) by (intros; apply seg_abs_scale_m1). ring.
Qed.
Theorem dist1_refl : forall xs us, dist1 xs us us == 0.
Proof.
  intros; unfold dist1, norm1. rewrite (sum_segs_ext seg_abs _ xs _ _ (vsub_self us)).
  rewrite (sum_segs_scale seg_abs 0 0) by (intros; apply seg_abs_scale_0). ring.
Qed.
Theorem dist1_nonneg : forall xs us vs, StronglySorted Qle xs -> 0 <= dist1 xs us vs.
Proof. intros; unfold dist1, norm1; apply sum_segs_nonneg; auto; apply seg_abs_nonneg. Qed.
Theorem dist1_triangle : forall xs us vs ws, StronglySorted Qle xs -> length us = length vs -> length vs = length ws ->
  dist1 xs us ws <= dist1 xs us vs + dist1 xs vs ws.
Proof.
  intros xs us vs ws Hs H1 H2; unfold dist1, norm1.
  rewrite (sum_segs_ext seg_abs _ xs _ _ (vsub_as_vadd us vs ws H1 H2)).
  apply sum_segs_subadd; auto; [apply seg_abs_triangle|]. rewrite !vsub_length; auto; lia.
Qed.

(* ---------------- Cauchy-Schwarz and the triangle inequality of the L2 norm (without square roots) *)
Lemma vadd_length : forall us vs, length us = length vs -> length (vadd us vs) = length us.
Proof. intros; unfold vadd; rewrite map_length, combine_length; lia. Qed.
Lemma vscale_length : forall c us, length (vscale c us) = length us.
Proof. intros; unfold vscale; apply map_length. Qed.
Lemma norm2sq_nonneg : forall xs us, StronglySorted Qle xs -> 0 <= norm2sq xs us.
Proof. intros; unfold norm2sq; apply sum_segs_nonneg; auto; apply seg_sq_nonneg. Qed.
Lemma norm2sq_expand : forall xs us vs c, length us = length vs ->
  norm2sq xs (vadd us (vscale c vs)) == norm2sq xs us + 2 * c * inner xs us vs + c * c * norm2sq xs vs.
Proof.
  intros xs us vs c Hlen. rewrite <- !inner_self_is_norm2sq.
  assert (H1 : length us = length (vscale c vs)) by (rewrite vscale_length; auto).
  rewrite inner_add_l by auto. rewrite !inner_add_r by auto. rewrite !inner_scale_l, !inner_scale_r.
  rewrite (inner_sym xs vs us). ring.
Qed.
Theorem cauchy_schwarz : forall xs us vs, StronglySorted Qle xs -> length us = length vs ->
  inner xs us vs * inner xs us vs <= norm2sq xs us * norm2sq xs vs.
Proof.
  intros xs us vs Hs Hlen.
  set (A := norm2sq xs us). set (B := norm2sq xs vs). set (I := inner xs us vs).
  assert (HA : 0 <= A) by (apply norm2sq_nonneg; auto). assert (HB : 0 <= B) by (apply norm2sq_nonneg; auto).
  assert (Hq : forall c, 0 <= A + 2 * c * I + c * c * B).
  { intros c. unfold A, B, I. rewrite <- norm2sq_expand by auto. apply norm2sq_nonneg; auto. }
  destruct (Qlt_le_dec 0 B) as [HB'|HB'].
  - specialize (Hq (- I / B)).
    assert (E : A + 2 * (- I / B) * I + - I / B * (- I / B) * B == (A * B - I * I) / B) by (field; lra).
    rewrite E in Hq. apply Qle_minus_iff.
    assert (H0 : 0 <= (A * B - I * I) / B * B) by (apply Qmult_le_0_compat; lra).
    assert (E2 : (A * B - I * I) / B * B == A * B - I * I) by (field; lra). rewrite E2 in H0. lra.
  - assert (EB : B == 0) by lra.
    destruct (Qeq_dec I 0) as [EI|NI]; [rewrite EI, EB; lra|].
    exfalso. specialize (Hq (- (A + 1) / (2 * I))).
    assert (E : A + 2 * (- (A + 1) / (2 * I)) * I + - (A + 1) / (2 * I) * (- (A + 1) / (2 * I)) * B
                == -1 + (- (A + 1) / (2 * I)) * (- (A + 1) / (2 * I)) * B) by (field; auto).
    rewrite E, EB in Hq. lra.
Qed.
Theorem norm2_triangle : forall xs us vs na nb, StronglySorted Qle xs -> length us = length vs ->
  0 <= na -> 0 <= nb -> norm2sq xs us <= na * na -> norm2sq xs vs <= nb * nb ->
  norm2sq xs (vadd us vs) <= (na + nb) * (na + nb).
Proof.
  intros xs us vs na nb Hs Hlen Ha Hb HA HB.
  assert (E : Forall2 Qeq (vadd us vs) (vadd us (vscale 1 vs))).
  { clear - Hlen. revert vs Hlen. induction us as [|u us IH]; intros [|v vs] Hlen; try discriminate; [constructor|].
    change (vscale 1 (v :: vs)) with (1 * v :: vscale 1 vs). rewrite !vadd_cons. constructor; [ring | apply IH; simpl in *; lia]. }
  unfold norm2sq at 1. rewrite (sum_segs_ext seg_sq _ xs _ _ E). fold (norm2sq xs (vadd us (vscale 1 vs))).
  rewrite norm2sq_expand by auto.
  pose proof (cauchy_schwarz xs us vs Hs Hlen) as CS.
  pose proof (norm2sq_nonneg xs us Hs) as PA. pose proof (norm2sq_nonneg xs vs Hs) as PB.
  set (A := norm2sq xs us) in *. set (B := norm2sq xs vs) in *. set (I := inner xs us vs) in *.
  assert (HI : I <= na * nb).
  { destruct (Qlt_le_dec I 0) as [Hn|Hp]; [nra|].
    destruct (Qlt_le_dec (na * nb) I) as [Hgt|]; auto. exfalso.
    assert (H1 : A * B <= (na * na) * B) by nra.
    assert (H2 : (na * na) * B <= (na * na) * (nb * nb)) by nra.
    assert (H3 : I * I <= (na * nb) * (na * nb)) by (setoid_replace ((na * nb) * (na * nb)) with ((na * na) * (nb * nb)) by ring; lra).
    assert (H4 : 0 <= na * nb) by nra.
    assert (H5 : 0 < (I - na * nb) * (I + na * nb)) by (apply Qmult_lt_0_compat; lra).
    lra. }
  lra.
Qed.

(* ================================================================ the grid evaluation as it stood *)
Lemma grid_value_unrepaired_refuted :
  exists D gmin gmax npts level x,
    aligned D gmin gmax npts = true /\
    grid_value false (grid_setup D gmin gmax npts 0) gmin gmax level x = Some 0 /\ 0 < lambda D level x.
Proof. exists [(0, 4 # 1)], 0, (8 # 1), 8%nat, 0%nat, (2 # 1). vm_compute. repeat split; reflexivity. Qed.
Lemma grid_value_unrepaired_reads_out_of_bounds :
  exists D gmin gmax npts level x,
    aligned D gmin gmax npts = true /\
    grid_value false (grid_setup D gmin gmax npts 0) gmin gmax level x = None.
Proof. exists [(2 # 1, 4 # 1)], 0, (4 # 1), 4%nat, 1%nat, 0. vm_compute. split; reflexivity. Qed.

(* ================================================================ the mathematics of one sweep step *)
Ltac qcases :=
  repeat match goal with
  | |- context [Qle_bool ?a ?b] =>
      let E := fresh "E" in destruct (Qle_bool a b) eqn:E; [apply Qle_bool_iff in E | apply Qle_bool_false in E]
  | H : context [if Qle_bool ?a ?b then _ else _] |- _ =>
      let E := fresh "E" in destruct (Qle_bool a b) eqn:E; [apply Qle_bool_iff in E | apply Qle_bool_false in E]
  end.
Ltac tent_auto := unfold tent, qmax, qmin; simpl fst; simpl snd; qcases; try lra; try reflexivity.

(* a nested interval has the smaller tent *)
Theorem tent_nested_le : forall b d b' d' t, b <= b' -> d' <= d -> tent (b', d') t <= tent (b, d) t.
Proof. intros b d b' d' t Hb Hd. tent_auto. Qed.
(* crossing intervals b <= b', d <= d': the pointwise minimum of the two tents is the tent of (b', d) — the "point" that the
   sweep hands to the next level *)
Theorem tent_cross_min : forall b d b' d' t, b <= b' -> d <= d' -> qmin (tent (b, d) t) (tent (b', d') t) == tent (b', d) t.
Proof. intros b d b' d' t Hb Hd. tent_auto. Qed.
(* disjoint (touching) intervals: the minimum vanishes, nothing is handed on *)
Theorem tent_disjoint_min : forall b d b' d' t, b <= d -> b' <= d' -> d <= b' -> qmin (tent (b, d) t) (tent (b', d') t) == 0.
Proof. intros b d b' d' t H0 H1 H. tent_auto. Qed.
(* the same for the running envelope env of the tents swept so far (all deaths <= dL, env at least the tent of the last
   peak (bL,dL)) against the next characteristic point (b',d') with bL <= b', dL <= d' *)
Theorem sweep_step_min : forall env bL dL b' d' t,
  tent (bL, dL) t <= env -> env <= qmax 0 (dL - t) -> bL <= b' -> dL <= d' ->
  qmin env (tent (b', d') t) == tent (b', dL) t.
Proof.
  intros env bL dL b' d' t H1 H2 Hb Hd. revert H1 H2. unfold tent, qmax, qmin; simpl fst; simpl snd.
  intros H1 H2. qcases; try lra.
Qed.
(* extracting the maximum: max and min of two values carry the same pair of values *)
Theorem max_min_pair : forall x y, (qmax x y == x /\ qmin x y == y) \/ (qmax x y == y /\ qmin x y == x).
Proof. intros x y. unfold qmax, qmin. destruct (Qle_bool x y); [right | left]; split; reflexivity. Qed.
(* ================================================================ evaluation by bisection = PL interpolation *)
Lemma function_value_line_val : forall p q x, ~ fst q - fst p == 0 -> function_value p q x == line_val p q x.
Proof.
  intros p q x H. unfold function_value, line_val, radd, rsub, rmul, rdiv. repeat rewrite Qred_correct. field. exact H.
Qed.

Lemma xsorted_nth_lt : forall l i j, xsorted l -> (i < j)%nat -> (j < length l)%nat -> fst (nthp l i) < fst (nthp l j).
Proof.
  unfold xsorted, nthp. induction l as [|p l IH]; intros i j Hs Hij Hj; [simpl in Hj; lia|].
  simpl in Hs. inversion Hs as [|? ? Hs' Hall]; subst.
  destruct j as [|j]; [lia|]. destruct i as [|i].
  - simpl. rewrite Forall_forall in Hall. apply Hall. apply in_map. apply nth_In. simpl in Hj; lia.
  - simpl. apply IH; auto; simpl in Hj; lia.
Qed.

Global Instance interp_from_comp : forall p l, Proper (Qeq ==> Qeq) (interp_from p l).
Proof.
  intros p l; revert p; induction l as [|q l IH]; intros p t t' Ht; simpl; [reflexivity|].
  rewrite Ht. destruct (Qle_bool t' (fst q)); [unfold line_val; rewrite Ht; reflexivity | apply IH; auto].
Qed.
Global Instance interp_comp : forall l, Proper (Qeq ==> Qeq) (interp l).
Proof.
  intros [|p l] t t' Ht; simpl; [reflexivity|]. rewrite Ht. destruct (Qle_bool t' (fst p)); [reflexivity | apply interp_from_comp; auto].
Qed.

(* on the i-th segment the PL function is the line through the two breakpoints *)
Lemma interp_from_segment : forall l p i x, xsorted (p :: l) -> (i + 1 < length (p :: l))%nat ->
  fst (nthp (p :: l) i) < x -> x <= fst (nthp (p :: l) (i + 1)) ->
  interp_from p l x == line_val (nthp (p :: l) i) (nthp (p :: l) (i + 1)) x.
Proof.
  induction l as [|q l IH]; intros p i x Hs Hi H1 H2; [simpl in Hi; lia|].
  simpl. destruct i as [|i].
  - unfold nthp in *; simpl in *. apply Qle_bool_iff in H2. rewrite H2. reflexivity.
  - assert (Hq : fst q < x).
    { eapply Qle_lt_trans; [|exact H1]. destruct i as [|i]; [unfold nthp; simpl; apply Qle_refl|].
      apply Qlt_le_weak. change (nthp (p :: q :: l) (S (S i))) with (nthp (q :: l) (S i)).
      change q with (nthp (q :: l) 0) at 1. apply xsorted_nth_lt; [|lia|simpl in *; lia].
      unfold xsorted in *; simpl in *; inversion Hs; auto. }
    assert (E : Qle_bool x (fst q) = false).
    { destruct (Qle_bool x (fst q)) eqn:E; auto. apply Qle_bool_iff in E. lra. }
    rewrite E. change (nthp (p :: q :: l) (S i)) with (nthp (q :: l) i).
    change (nthp (p :: q :: l) (S i + 1)) with (nthp (q :: l) (i + 1)).
    apply IH; auto.
    + unfold xsorted in *; simpl in *; inversion Hs; auto.
    + simpl in *; lia.
Qed.
Lemma interp_segment : forall l i x, xsorted l -> (i + 1 < length l)%nat ->
  fst (nthp l i) < x -> x <= fst (nthp l (i + 1)) -> interp l x == line_val (nthp l i) (nthp l (i + 1)) x.
Proof.
  intros [|p l] i x Hs Hi H1 H2; [simpl in Hi; lia|]. simpl.
  assert (Hp : fst p < x).
  { eapply Qle_lt_trans; [|exact H1]. destruct i as [|i]; [unfold nthp; simpl; apply Qle_refl|].
    apply Qlt_le_weak. change p with (nthp (p :: l) 0) at 1. apply xsorted_nth_lt; auto; lia. }
  assert (E : Qle_bool x (fst p) = false).
  { destruct (Qle_bool x (fst p)) eqn:E; auto. apply Qle_bool_iff in E. lra. }
  rewrite E. apply interp_from_segment; auto.
Qed.

Lemma div2_between : forall a b, (a + 1 < b)%nat -> (a < Nat.div2 (b + a) < b)%nat.
Proof.
  intros a b H. pose proof (Nat.div2_odd (b + a)) as E. destruct (Nat.odd (b + a)); simpl in E; lia.
Qed.

Lemma bisect_correct : forall fuel l cb ce x, xsorted l -> (cb < ce)%nat -> (ce < length l)%nat -> (ce - cb <= fuel)%nat ->
  fst (nthp l cb) < x -> x < fst (nthp l ce) ->
  exists v, bisect (S fuel) l cb ce x = Some v /\ v == interp l x.
Proof.
  induction fuel as [|fuel IH]; intros l cb ce x Hs Hlt Hce Hf H1 H2.
  - assert (ce = cb + 1)%nat by lia. subst ce. simpl. rewrite Nat.eqb_refl.
    eexists; split; [reflexivity|]. rewrite function_value_line_val.
    + symmetry; apply interp_segment; auto. lra.
    + pose proof (xsorted_nth_lt l cb (cb + 1) Hs ltac:(lia) Hce). lra.
  - cbn [bisect]. destruct (Nat.eqb (cb + 1) ce) eqn:E.
    + apply Nat.eqb_eq in E. subst ce. eexists; split; [reflexivity|]. rewrite function_value_line_val.
      * symmetry; apply interp_segment; auto. lra.
      * pose proof (xsorted_nth_lt l cb (cb + 1) Hs ltac:(lia) Hce). lra.
    + apply Nat.eqb_neq in E. assert (Hd := div2_between cb ce ltac:(lia)).
      set (nc := Nat.div2 (ce + cb)) in *.
      destruct (Qle_bool (fst (nthp l nc)) x) eqn:E1.
      * apply Qle_bool_iff in E1. destruct (Qeq_bool (fst (nthp l nc)) x) eqn:E2.
        -- apply Qeq_bool_iff in E2. eexists; split; [reflexivity|]. rewrite <- E2.
           symmetry. apply interp_at_breakpoint; auto. apply nth_In. lia.
        -- assert (Hne : ~ fst (nthp l nc) == x) by (intro Hq; apply Qeq_bool_iff in Hq; congruence).
           apply IH; auto; try lia. destruct (Qlt_le_dec (fst (nthp l nc)) x); auto. exfalso; apply Hne; lra.
      * apply Qle_bool_false in E1. apply IH; auto; lia.
Qed.

(* compute_value_at_a_given_point on one level whose two outer points on each side have ordinate 0 (the sentinels and the
   first/last finite breakpoint) returns the PL interpolation of the stored breakpoints, for every x *)
Theorem value_at_is_interp : forall l x, xsorted l -> (3 <= length l)%nat ->
  snd (nthp l 0) == 0 -> snd (nthp l 1) == 0 -> snd (nthp l (length l - 2)) == 0 -> snd (nthp l (length l - 1)) == 0 ->
  fst (nthp l 0) < x -> x < fst (nthp l (length l - 1)) ->
  exists v, value_at [l] 0 x = Some v /\ v == interp l x.
Proof.
  intros l x Hs Hlen Y0 Y1 Y2 Y3 X0 X1. unfold value_at. simpl length. simpl Nat.leb. cbn [nth].
  destruct (Qle_bool x (fst (nthp l 1))) eqn:E1.
  - apply Qle_bool_iff in E1. eexists; split; [reflexivity|].
    rewrite (interp_segment l 0 x Hs ltac:(simpl; lia) X0 E1). unfold line_val. simpl Nat.add. rewrite Y0, Y1. ring.
  - apply Qle_bool_false in E1. destruct (Qle_bool (fst (nthp l (length l - 2))) x) eqn:E2.
    + apply Qle_bool_iff in E2. eexists; split; [reflexivity|].
      destruct (Qlt_le_dec (fst (nthp l (length l - 2))) x) as [Hlt|Hle].
      * rewrite (interp_segment l (length l - 2) x Hs ltac:(lia) Hlt).
        -- unfold line_val. replace (length l - 2 + 1)%nat with (length l - 1)%nat by lia. rewrite Y2, Y3. ring.
        -- replace (length l - 2 + 1)%nat with (length l - 1)%nat by lia. lra.
      * assert (Ex : x == fst (nthp l (length l - 2))) by lra. rewrite Ex.
        rewrite interp_at_breakpoint; auto; [rewrite Y2; reflexivity | apply nth_In; lia].
    + apply Qle_bool_false in E2.
      assert (Hlt : (1 < length l - 2)%nat).
      { destruct (Nat.eq_dec (length l - 2) 1) as [e|]; [rewrite e in E2; lra|].
        destruct (Nat.eq_dec (length l - 2) 0) as [e|]; [|lia]. exfalso.
        assert (length l = 2 \/ length l = 1 \/ length l = 0)%nat by lia. lia. }
      apply bisect_correct; auto; lia.
Qed.
(* ================================================================ the repaired grid evaluation at a grid point *)
Lemma Qlt_bool_true : forall a b, a < b -> Qlt_bool a b = true.
Proof. intros a b H; unfold Qlt_bool. destruct (Qle_bool b a) eqn:E; auto. apply Qle_bool_iff in E. lra. Qed.
Lemma Qlt_bool_false : forall a b, b <= a -> Qlt_bool a b = false.
Proof. intros a b H; unfold Qlt_bool. apply Qle_bool_iff in H. rewrite H. reflexivity. Qed.
Lemma almost_equal_refl : forall a b, a == b -> almost_equal a b = true.
Proof.
  intros a b H; unfold almost_equal. apply Qlt_bool_true. rewrite qabs_Qabs.
  setoid_replace (a - b) with 0 by lra. reflexivity.
Qed.

Theorem grid_value_at_grid_point : forall vals gmin gmax level (i : nat),
  gmin < gmax -> (2 <= length vals)%nat -> (i <= length vals - 1)%nat ->
  grid_value true vals gmin gmax level (gmin + inject_Z (Z.of_nat i) * ((gmax - gmin) / inject_Z (Z.of_nat (length vals - 1))))
  = Some (gval0 vals i level).
Proof.
  intros vals gmin gmax level i Hg Hlen Hi. unfold grid_value.
  set (n := inject_Z (Z.of_nat (length vals - 1))).
  assert (Hn : 1 <= n).
  { unfold n. change 1 with (inject_Z 1). rewrite <- Zle_Qle. lia. }
  assert (Hi' : inject_Z (Z.of_nat i) <= n) by (unfold n; rewrite <- Zle_Qle; lia).
  assert (Hi0 : 0 <= inject_Z (Z.of_nat i)) by (change 0 with (inject_Z 0); rewrite <- Zle_Qle; lia).
  set (dx := (gmax - gmin) / n). set (x := gmin + inject_Z (Z.of_nat i) * dx).
  assert (Hdx : 0 < dx) by (unfold dx; apply Qlt_shift_div_l; lra).
  assert (Hx0 : gmin <= x) by (unfold x; nra).
  assert (Hx1 : x <= gmax).
  { unfold x. assert (E : gmax == gmin + n * dx) by (unfold dx; field; lra). rewrite E. nra. }
  rewrite (Qlt_bool_false x gmin Hx0), (Qlt_bool_false gmax x Hx1). simpl orb. cbv iota.
  assert (Hpos : grid_index x gmin (rdiv (gmax - gmin) n) = i).
  { unfold grid_index. rewrite rdiv_eq. fold dx.
    assert (E : (x - gmin) / dx == inject_Z (Z.of_nat i)) by (unfold x; field; lra).
    rewrite E. rewrite Qfloor_Z. apply Nat2Z.id. }
  fold n. rewrite Hpos.
  rewrite almost_equal_refl; [reflexivity|].
  rewrite radd_eq, rmul_eq, rdiv_eq. fold dx. unfold x. ring.
Qed.
(* ================================================================ abs() is the pointwise absolute value *)
Lemma Qlt_bool_iff' : forall a b, Qlt_bool a b = true <-> a < b.
Proof.
  intros a b; unfold Qlt_bool; split; intro H.
  - destruct (Qle_bool b a) eqn:E; [discriminate|]. apply Qle_bool_false in E; auto.
  - destruct (Qle_bool b a) eqn:E; auto. apply Qle_bool_iff in E. lra.
Qed.
Lemma qabs_case : forall a, (0 <= a /\ qabs a == a) \/ (a < 0 /\ qabs a == - a).
Proof.
  intros a. destruct (Qlt_le_dec a 0); [right | left]; split; auto; [apply qabs_neg; lra | apply qabs_pos; auto].
Qed.
(* same sign at both ends: |linear| is the linear interpolation of the absolute values *)
Lemma convex_nonneg : forall a b s, 0 <= a -> 0 <= b -> 0 <= s -> s <= 1 -> 0 <= a + (b - a) * s.
Proof.
  intros a b s Ha Hb H0 H1. assert (0 <= a * (1 - s)) by (apply Qmult_le_0_compat; lra).
  assert (0 <= b * s) by (apply Qmult_le_0_compat; lra). lra.
Qed.
Lemma abs_line_same : forall yp yc s, 0 <= yp * yc -> 0 <= s -> s <= 1 ->
  qabs yp + (qabs yc - qabs yp) * s == qabs (yp + (yc - yp) * s).
Proof.
  intros yp yc s H H0 H1.
  destruct (qabs_case yp) as [[Sp Ep]|[Sp Ep]]; destruct (qabs_case yc) as [[Sc Ec]|[Sc Ec]]; rewrite Ep, Ec.
  - rewrite qabs_pos by (apply convex_nonneg; auto). ring.
  - assert (E : yp == 0) by nra. rewrite E.
    assert (Hn : 0 + (yc - 0) * s <= 0) by (assert (0 <= (- yc) * s) by (apply Qmult_le_0_compat; lra); lra).
    rewrite (qabs_neg _ Hn). ring.
  - assert (E : yc == 0) by nra. rewrite E.
    assert (Hn : yp + (0 - yp) * s <= 0) by (assert (0 <= (- yp) * (1 - s)) by (apply Qmult_le_0_compat; lra); lra).
    rewrite (qabs_neg _ Hn). ring.
  - assert (Hn : yp + (yc - yp) * s <= 0).
    { pose proof (convex_nonneg (- yp) (- yc) s ltac:(lra) ltac:(lra) H0 H1). lra. }
    rewrite (qabs_neg _ Hn). ring.
Qed.
Lemma find_zero_eq : forall p c, ~ fst c - fst p == 0 -> ~ snd c - snd p == 0 ->
  find_zero p c == fst p - snd p * (fst c - fst p) / (snd c - snd p).
Proof.
  intros p c Hx Hy. unfold find_zero.
  destruct (Qeq_bool (fst p) (fst c)) eqn:E; [apply Qeq_bool_iff in E; exfalso; apply Hx; lra|].
  unfold rdiv, rsub, rmul. repeat rewrite Qred_correct. field. split; auto.
Qed.

Ltac side_cond y w :=
  match goal with
  | Esign : _ * _ < 0, h := _ |- _ =>
    let E0 := fresh "E0" in let Hm := fresh "Hm" in
    intro E0; unfold h in *; assert (Hm : y * w == 0) by lra;
    apply Qmult_integral in Hm; destruct Hm as [Hm|Hm]; [rewrite Hm in Esign; lra | lra]
  end.
Lemma abs_level_from_correct : forall tl prev t, xsorted (prev :: tl) -> fst prev <= t ->
  interp_from (fst prev, qabs (snd prev)) (abs_level_from prev tl) t == qabs (interp_from prev tl t).
Proof.
  induction tl as [|c tl IH]; intros prev t Hs Ht; [reflexivity|].
  assert (Hs' : xsorted (c :: tl)) by (unfold xsorted in *; simpl in *; inversion Hs; auto).
  assert (Hx : fst prev < fst c).
  { unfold xsorted in Hs; simpl in Hs. inversion Hs as [|? ? _ Hall]; subst. inversion Hall; auto. }
  cbn [abs_level_from interp_from].
  set (h := fst c - fst prev). assert (Hh : 0 < h) by (unfold h; lra).
  destruct (Qlt_bool (snd prev * snd c) 0) eqn:Esign.
  - (* sign change: the zero crossing is inserted *)
    apply Qlt_bool_iff' in Esign.
    assert (Hy : ~ snd c - snd prev == 0) by (intro E0; assert (snd c == snd prev) by lra; nra).
    pose proof (find_zero_eq prev c ltac:(fold h; lra) Hy) as Hz. fold h in Hz.
    set (z := find_zero prev c) in *.
    assert (Hz1 : fst prev < z /\ z < fst c).
    { rewrite Hz. assert (0 < - snd prev / (snd c - snd prev) /\ - snd prev / (snd c - snd prev) < 1).
      { destruct (Qlt_le_dec 0 (snd prev)) as [Sp|Sp].
        - assert (snd c < 0) by nra. split.
          + setoid_replace (- snd prev / (snd c - snd prev)) with (snd prev / (snd prev - snd c)) by (field; lra).
            apply Qlt_shift_div_l; lra.
          + setoid_replace (- snd prev / (snd c - snd prev)) with (snd prev / (snd prev - snd c)) by (field; lra).
            apply Qlt_shift_div_r; lra.
        - assert (snd prev < 0) by nra. assert (0 < snd c) by nra. split.
          + apply Qlt_shift_div_l; lra.
          + apply Qlt_shift_div_r; lra. }
      setoid_replace (fst prev - snd prev * h / (snd c - snd prev)) with (fst prev + h * (- snd prev / (snd c - snd prev))) by (field; lra).
      unfold h in *. nra. }
    simpl app. cbn [interp_from]. simpl fst. simpl snd.
    destruct (Qle_bool t (fst c)) eqn:Etc.
    + pose proof Etc as Etcb. apply Qle_bool_iff in Etc. destruct (Qle_bool t z) eqn:Etz.
      * (* left of the zero *)
        apply Qle_bool_iff in Etz. unfold line_val; simpl fst; simpl snd.
        assert (Hzz : ~ z - fst prev == 0) by lra.
        destruct (qabs_case (snd prev)) as [[Sp Ep]|[Sp Ep]]; rewrite Ep.
        -- assert (Sc : snd c < 0) by nra.
           assert (Hpos : 0 <= snd prev + (snd c - snd prev) * ((t - fst prev) / h)).
           { assert (E : snd prev + (snd c - snd prev) * ((t - fst prev) / h) == (snd prev - snd c) * ((z - t) / h)).
             { rewrite Hz. field. split; lra. }
             rewrite E. apply Qmult_le_0_compat; [lra|]. apply Qle_shift_div_l; lra. }
           fold h. rewrite (qabs_pos _ Hpos). rewrite Hz. field. repeat split; try lra. side_cond (snd prev) (fst c - fst prev).
        -- assert (Sc : 0 < snd c) by nra.
           assert (Hneg : snd prev + (snd c - snd prev) * ((t - fst prev) / h) <= 0).
           { assert (E : snd prev + (snd c - snd prev) * ((t - fst prev) / h) == - ((snd c - snd prev) * ((z - t) / h))).
             { rewrite Hz. field. split; lra. }
             rewrite E. assert (0 <= (snd c - snd prev) * ((z - t) / h)); [|lra].
             apply Qmult_le_0_compat; [lra|]. apply Qle_shift_div_l; lra. }
           fold h. rewrite (qabs_neg _ Hneg). rewrite Hz. field. repeat split; try lra. side_cond (snd prev) (fst c - fst prev).
      * (* between the zero and the right end *)
        apply Qle_bool_false in Etz. unfold line_val; simpl fst; simpl snd.
        assert (Hzz : ~ fst c - z == 0) by lra.
        destruct (qabs_case (snd c)) as [[Sc Ec]|[Sc Ec]]; rewrite Ec.
        -- assert (Sp : snd prev < 0) by nra.
           assert (Hpos : 0 <= snd prev + (snd c - snd prev) * ((t - fst prev) / h)).
           { assert (E : snd prev + (snd c - snd prev) * ((t - fst prev) / h) == (snd c - snd prev) * ((t - z) / h)).
             { rewrite Hz. field. split; lra. }
             rewrite E. apply Qmult_le_0_compat; [lra|]. apply Qle_shift_div_l; lra. }
           fold h. rewrite (qabs_pos _ Hpos). rewrite Hz. unfold h. field. repeat split; try lra. side_cond (snd c) (fst c - fst prev).
        -- assert (Sp : 0 < snd prev) by nra.
           assert (Hneg : snd prev + (snd c - snd prev) * ((t - fst prev) / h) <= 0).
           { assert (E : snd prev + (snd c - snd prev) * ((t - fst prev) / h) == - ((snd prev - snd c) * ((t - z) / h))).
             { rewrite Hz. field. split; lra. }
             rewrite E. assert (0 <= (snd prev - snd c) * ((t - z) / h)); [|lra].
             apply Qmult_le_0_compat; [lra|]. apply Qle_shift_div_l; lra. }
           fold h. rewrite (qabs_neg _ Hneg). rewrite Hz. unfold h. field. repeat split; try lra. side_cond (snd c) (fst c - fst prev).
    + apply Qle_bool_false in Etc.
      assert (Etz : Qle_bool t z = false).
      { destruct (Qle_bool t z) eqn:E; auto. apply Qle_bool_iff in E. lra. }
      rewrite Etz. apply (IH c t Hs'). lra.
  - (* no sign change *)
    assert (Hsame : 0 <= snd prev * snd c).
    { destruct (Qlt_le_dec (snd prev * snd c) 0) as [H|H]; auto. apply Qlt_bool_iff' in H. congruence. }
    simpl app. cbn [interp_from]. simpl fst.
    destruct (Qle_bool t (fst c)) eqn:Etc.
    + apply Qle_bool_iff in Etc. unfold line_val; simpl fst; simpl snd. fold h.
      apply abs_line_same; auto.
      * apply Qle_shift_div_l; lra.
      * apply Qle_shift_div_r; unfold h in *; lra.
    + apply Qle_bool_false in Etc. apply (IH c t Hs'). lra.
Qed.

(* abs() of one level whose first point has ordinate 0 is the pointwise absolute value, at every t *)
Theorem abs_level_pointwise : forall l t, xsorted l ->
  snd (nthp l 0) == 0 -> fst (nthp l 0) = - INF -> interp (abs_level l) t == qabs (interp l t).
Proof.
  intros [|p tl] t Hs Hy Hx; [exfalso; vm_compute in Hx; discriminate Hx|].
  unfold nthp in Hy, Hx; simpl in Hy, Hx. cbn [abs_level interp]. simpl fst. simpl snd. rewrite Hx.
  destruct (Qle_bool t (- INF)) eqn:E.
  - rewrite Hy. reflexivity.
  - apply Qle_bool_false in E.
    assert (Ep : Forall2 same_pts ((- INF, 0) :: abs_level_from p tl) ((fst p, qabs (snd p)) :: abs_level_from p tl)).
    { constructor; [split; simpl; [auto | rewrite Hy; reflexivity]|].
      clear. induction (abs_level_from p tl); constructor; auto. split; reflexivity. }
    inversion Ep as [|a b la lb Hab Hrest]; subst.
    rewrite (interp_from_ext _ _ _ _ t Hab Hrest).
    apply abs_level_from_correct; auto. rewrite Hx. lra.
Qed.
