(* C19 - sparse Rips complex (src/Rips_complex/include/gudhi/Sparse_rips_complex.h) over Q.
   ALGORITHM MODEL (what the code does):
     lambdas / greedyb        insertion radii params[] of a farthest-point order (choose_n_farthest_points*: the C++ starts
                              at a RANDOM point and breaks ties by heap position, so the order is an INPUT of the model,
                              checked to be a farthest-point order by greedyb; greedy_from is one deterministic instance)
     nkeep                    first loop of compute_sparse_graph (the mini / lambda<=0 cut of the vertex list)
     edge_val                 the edge rule of compute_sparse_graph, all branches, with the maxi cut-off
     blocked                  the blocker lambda of create_complex
     expand                   Simplex_tree::expansion_with_blockers / expansion, level by level: a simplex of dimension k+1
                              is a candidate iff all its facets are present; its value is the max of the facets' values; it is
                              dropped iff the blocker says so; extra_levels transcribes the max_dim handling of both routines
     sparse_complex           constructor + create_complex
     sib_blk / sib_plain      the same expansion following the traversal of the simplex tree (siblings_expansion_with_blockers:
                              reverse sibling loops, borders looked up in the tree built so far; siblings_expansion /
                              create_expansion / intersection: later sibling + edge to it); sparse_complex_trie uses them
   SPECIFICATION MODEL: in_rips (membership in the Rips complex at a scale), rips_complex, valid filtration (closed under
   facets, monotone), persistence bars through Reduce/ReduceExec.certified_lows, matching within a multiplicative bound.
   No proofs in this file. *)
From Coq Require Import List ZArith QArith Bool Arith Lia.
Require Import Reduce ReduceExec.
Import ListNotations.
Open Scope Q_scope.

Definition qle (a b : Q) : bool := Qle_bool a b.
Definition qlt (a b : Q) : bool := negb (Qle_bool b a).
Definition qmax (a b : Q) : Q := if Qle_bool a b then b else a.
(* extended values: None = +infinity *)
Definition ole (a b : option Q) : bool :=
  match a, b with _, None => true | None, Some _ => false | Some x, Some y => qle x y end.

Definition memb (x : nat) (l : list nat) : bool := existsb (Nat.eqb x) l.
Fixpoint list_eqb (a b : list nat) : bool :=
  match a, b with
  | [], [] => true
  | x :: a', y :: b' => (x =? y)%nat && list_eqb a' b'
  | _, _ => false
  end.
Definition cplx := list (list nat * Q).
Definition lookup (K : cplx) (s : list nat) : option Q :=
  match find (fun p => list_eqb (fst p) s) K with Some p => Some (snd p) | None => None end.
(* facets of a simplex given as a list: remove one vertex (the first listed is the one without the head) *)
Fixpoint facets (s : list nat) : list (list nat) :=
  match s with [] => [] | x :: r => r :: map (cons x) (facets r) end.

Section Model.
Variable d : nat -> nat -> Q.

(* ------------------------------------------------------------------ farthest-point order, insertion radii *)
Fixpoint dist_to (P : list nat) (q : nat) : option Q :=
  match P with
  | [] => None
  | p :: P' => match dist_to P' q with None => Some (d q p) | Some m => Some (if qlt (d q p) m then d q p else m) end
  end.
Fixpoint lams (prev rest : list nat) : list (option Q) :=
  match rest with [] => [] | q :: r => dist_to prev q :: lams (q :: prev) r end.
Definition lambdas (pi : list nat) : list (option Q) := lams [] pi.

(* pi is (a prefix of) a farthest-point order of the points 0..N-1: distinct points, and each one is at maximal distance
   from the ones before it among all points not yet taken *)
Fixpoint greedyb (N : nat) (prev rest : list nat) : bool :=
  match rest with
  | [] => true
  | q :: r => (q <? N)%nat && negb (memb q prev)
              && forallb (fun x => memb x prev || ole (dist_to prev x) (dist_to prev q)) (seq 0 N)
              && greedyb N (q :: prev) r
  end.

(* one deterministic farthest-point order (first maximum in index order), as choose_n_farthest_points would give on
   distinct distances; fuel = number of points still to take *)
Definition argfar (N : nat) (prev : list nat) : option nat :=
  fold_left (fun best x => if memb x prev then best else
                            match best with None => Some x
                            | Some b => if ole (dist_to prev x) (dist_to prev b) then best else Some x end)
            (seq 0 N) None.
Fixpoint greedy_more (N fuel : nat) (prev : list nat) : list nat :=
  match fuel with O => [] | S f => match argfar N prev with None => [] | Some q => q :: greedy_more N f (q :: prev) end end.
Definition greedy_from (N s : nat) : list nat := s :: greedy_more N (N - 1) [s].

(* ------------------------------------------------------------------ compute_sparse_graph *)
Variable eps : Q.
Definition cst : Q := eps * (1 - eps) / 2.

(* (params[i] < mini || params[i] <= 0) ; mini = None is -infinity *)
Definition brk (mini : option Q) (l : option Q) : bool :=
  match l with
  | None => false
  | Some x => (match mini with Some m => qlt x m | None => false end) || qle x 0
  end.
Fixpoint count_keep (mini : option Q) (ls : list (option Q)) : nat :=
  match ls with [] => O | l :: r => if brk mini l then O else S (count_keep mini r) end.
Definition nkeep (mini : option Q) (ls : list (option Q)) : nat :=
  match ls with [] => O | _ :: r => S (count_keep mini r) end.

(* the edge rule; li lj = params[i], params[j] (i < j), dd = dist(points[i], points[j]); None = no edge *)
Definition edge_val (maxi : option Q) (li lj : option Q) (dd : Q) : option Q :=
  let ret a := match maxi with None => Some a | Some M => if qle a M then Some a else None end in
  match lj with
  | None => ret dd
  | Some l =>
    if qle (dd * eps) (2 * l) then ret dd
    else if (match li with None => false | Some l' => qlt (l' + l) (dd * eps) end) then None
    else let alpha := (dd - l / eps) * 2 in
         if qlt eps 1 && qlt l (alpha * cst) then None else ret alpha
  end.

Definition sort2 (a b : nat) : list nat := if (a <? b)%nat then [a; b] else [b; a].
Fixpoint edges_from (maxi : option Q) (pi : nat) (li : option Q) (rest : list (nat * option Q)) : cplx :=
  match rest with
  | [] => []
  | (pj, lj) :: r =>
    match edge_val maxi li lj (d pi pj) with
    | Some a => (sort2 pi pj, a) :: edges_from maxi pi li r
    | None => edges_from maxi pi li r
    end
  end.
Fixpoint all_edges (maxi : option Q) (vs : list (nat * option Q)) : cplx :=
  match vs with [] => [] | (pi, li) :: r => edges_from maxi pi li r ++ all_edges maxi r end.

(* ------------------------------------------------------------------ create_complex *)
Definition lam_of (vs : list (nat * option Q)) (v : nat) : option Q :=
  match find (fun p => (fst p =? v)%nat) vs with Some p => snd p | None => Some 0 end.
Definition blocked (vs : list (nat * option Q)) (s : list nat) (f : Q) : bool :=
  existsb (fun v => match lam_of vs v with None => false | Some l => qlt l (f * cst) end) s.

Fixpoint max_facets (K : cplx) (fs : list (list nat)) (acc : Q) : option Q :=
  match fs with
  | [] => Some acc
  | t :: r => match lookup K t with None => None | Some g => max_facets K r (qmax acc g) end
  end.
Definition cand (K : cplx) (blk : list nat -> Q -> bool) (v : nat) (t : list nat * Q) : cplx :=
  match fst t with
  | [] => []
  | h :: _ =>
    if (v <? h)%nat then
      match max_facets K (facets (v :: fst t)) (snd t) with
      | Some f => if blk (v :: fst t) f then [] else [(v :: fst t, f)]
      | None => []
      end
    else []
  end.
Definition expand_level (blk : list nat -> Q -> bool) (verts : list nat) (K : cplx) : cplx :=
  flat_map (fun t => flat_map (fun v => cand K blk v t) verts) K.
Fixpoint expand (blk : list nat -> Q -> bool) (verts : list nat) (levels : nat) (K : cplx) : cplx :=
  match levels with O => [] | S l => let K' := expand_level blk verts K in K' ++ expand blk verts l K' end.

(* (as repaired in /repo by 'fix: expansion_with_blockers(max_dim <= 0) expanded the graph without any bound': both routines now
   return at once for max_dim <= 1; before that repair the blocker route built N levels for max_dim <= 0)
   number of levels built above the edges.  expansion(max_dim): "if (max_dim <= 1) return", otherwise down to k = 0 from
   max_dim - 1.  expansion_with_blockers(max_dim): recursion from k = max_dim - 1, stops at k == 0 only: for max_dim <= 0 the
   counter never meets 0 and the expansion is not limited (N levels exhaust any complex on N points). *)
Definition extra_levels (blockers : bool) (N : nat) (dim_max : Z) : nat :=
  if (dim_max <=? 0)%Z then O else Z.to_nat (dim_max - 1).

Definition kept (mini : option Q) (pi : list nat) : list (nat * option Q) :=
  let ls := lambdas pi in
  let m := nkeep mini ls in
  combine (firstn m pi) (firstn m ls).

Definition sparse_complex (N : nat) (pi : list nat) (mini maxi : option Q) (dim_max : Z) : cplx :=
  let vs := kept mini pi in
  let V := map (fun p => ([fst p], 0)) vs in
  let E := all_edges maxi vs in
  let blockers := qlt eps 1 in
  let blk := if blockers then blocked vs else (fun _ _ => false) in
  V ++ E ++ expand blk (map fst vs) (extra_levels blockers N dim_max) E.

(* ------------------------------------------------------------------ the same, following the traversal of Simplex_tree.h
   Simplices are increasing lists; the children of the node P are the nodes P ++ [x].  K is the set of simplices of
   dimension >= 1 inserted so far (the tree), threaded through the traversal as in the C++. *)
Fixpoint ins_nat (x : nat) (l : list nat) : list nat :=
  match l with [] => [x] | y :: r => if (x <=? y)%nat then x :: l else y :: ins_nat x r end.
Definition sort_nat (l : list nat) : list nat := fold_right ins_nat [] l.
Definition isnil {A} (l : list A) : bool := match l with [] => true | _ => false end.

(* siblings_expansion_with_blockers(siblings = children S of P, max_dim, k = fuel, block).
   blk_new: for 'simplex' = P ++ [s] (value fs), the members 'next' > s of S such that every border of 'simplex' has the child
   'next' in the tree K, with value = max over them and 'simplex', minus the blocked ones. *)
Definition blk_new (blk : list nat -> Q -> bool) (K : cplx) (P S : list nat) (s : nat) (fs : Q) : list (nat * Q) :=
  filter (fun p => negb (blk (P ++ [s; fst p]) (snd p)))
    (flat_map (fun nx => match max_facets K (map (fun b => b ++ [nx]) (facets (P ++ [s]))) fs with
                         | Some g => [(nx, g)] | None => [] end)
              (filter (fun x => (s <? x)%nat) S)).
Definition sib_blk_step (blk : list nat -> Q -> bool) (rec : list nat -> list nat -> cplx -> cplx)
           (P S : list nat) (K : cplx) (s : nat) : cplx :=
  match lookup K (P ++ [s]) with
  | None => K
  | Some fs =>
    let keep := blk_new blk K P S s fs in
    let K1 := K ++ map (fun p => (P ++ [s; fst p], snd p)) keep in
    if isnil keep then K1 else rec (P ++ [s]) (map fst keep) K1
  end.
Fixpoint sib_blk (blk : list nat -> Q -> bool) (fuel : nat) (P : list nat) (S : list nat) (K : cplx) : cplx :=
  match fuel with
  | O => K
  | Datatypes.S f => fold_left (sib_blk_step blk (sib_blk blk f) P S) (rev S) K
  end.
(* expansion_with_blockers: roots in reverse order, each with its children in the graph *)
Definition expand_trie_blk (blk : list nat -> Q -> bool) (levels : nat) (verts : list nat) (E : cplx) : cplx :=
  let vs := sort_nat verts in
  fold_left (fun K v =>
               let S := filter (fun w => match lookup E [v; w] with Some _ => true | None => false end) vs in
               if isnil S then K else sib_blk blk levels [v] S K) (rev vs) E.

(* siblings_expansion(siblings = children S of P with their values, k = fuel) / create_expansion / intersection:
   P ++ [s; next] is created iff next is a later sibling and [s; next] is an edge; value = max of the three *)
Fixpoint tails {A} (l : list A) : list (A * list A) :=
  match l with [] => [] | x :: r => (x, r) :: tails r end.
Definition plain_inter (E : cplx) (s : nat) (fs : Q) (rest : list (nat * Q)) : list (nat * Q) :=
  flat_map (fun p => match lookup E [s; fst p] with
                     | Some fe => [(fst p, qmax (qmax (snd p) fe) fs)] | None => [] end) rest.
Fixpoint sib_plain (E : cplx) (fuel : nat) (P : list nat) (S : list (nat * Q)) : cplx :=
  match fuel with
  | O => []
  | Datatypes.S f =>
    flat_map (fun sr =>
                let inter := plain_inter E (fst (fst sr)) (snd (fst sr)) (snd sr) in
                map (fun p => (P ++ [fst (fst sr); fst p], snd p)) inter
                ++ (if isnil inter then [] else sib_plain E f (P ++ [fst (fst sr)]) inter)) (tails S)
  end.
Definition expand_trie_plain (levels : nat) (verts : list nat) (E : cplx) : cplx :=
  let vs := sort_nat verts in
  E ++ flat_map (fun v =>
         let S := flat_map (fun w => match lookup E [v; w] with Some g => [(w, g)] | None => [] end) vs in
         sib_plain E levels [v] S) vs.

Definition sparse_complex_trie (N : nat) (pi : list nat) (mini maxi : option Q) (dim_max : Z) : cplx :=
  let vs := kept mini pi in
  let V := map (fun p => ([fst p], 0)) vs in
  let E := all_edges maxi vs in
  let blockers := qlt eps 1 in
  let levels := extra_levels blockers N dim_max in
  V ++ (if blockers then expand_trie_blk (blocked vs) levels (map fst vs) E
        else expand_trie_plain levels (map fst vs) E).

(* the order handed over by the implementation is acceptable: a farthest-point prefix, nothing kept that the cut drops,
   and if points were dropped the next insertion radius really triggers the cut *)
Definition next_radius (N : nat) (pi : list nat) : option Q :=
  match fold_left (fun best x => if memb x pi then best else
                            match best with None => Some (dist_to pi x)
                            | Some b => if ole (dist_to pi x) b then best else Some (dist_to pi x) end)
            (seq 0 N) None with
  | Some (Some r) => Some r
  | _ => None
  end.
Definition order_ok (N : nat) (pi : list nat) (mini : option Q) : bool :=
  greedyb N [] pi && (nkeep mini (lambdas pi) =? length pi)%nat
  && ((length pi =? N)%nat || match next_radius N pi with Some r => brk mini (Some r) | None => false end).

(* ------------------------------------------------------------------ specification *)
Definition in_rips (s : list nat) (f : Q) : Prop :=
  forall u v, In u s -> In v s -> u <> v -> d u v <= f.
Definition in_ripsb (s : list nat) (f : Q) : bool :=
  forallb (fun u => forallb (fun v => (u =? v)%nat || qle (d u v) f) s) s.
Definition sub_neverb (K : cplx) : bool := forallb (fun p => in_ripsb (fst p) (snd p)) K.

Fixpoint rips_val (s : list nat) : Q :=
  match s with [] => 0 | x :: r => fold_left (fun a y => qmax a (d x y)) r (rips_val r) end.
(* all sublists of l with at most k elements *)
Fixpoint subsets_upto (k : nat) (l : list nat) : list (list nat) :=
  match l with
  | [] => [[]]
  | x :: r => let S := subsets_upto k r in S ++ map (cons x) (filter (fun s => (length s <? k)%nat) S)
  end.
Definition rips_complex (N : nat) (dim : nat) : cplx :=
  map (fun s => (s, rips_val s)) (filter (fun s => negb (length s =? 0)%nat) (subsets_upto (S dim) (seq 0 N))).

End Model.

(* a filtered complex: simplices strictly increasing non-empty, no repeats, every facet present and not later *)
Fixpoint increasingb (s : list nat) : bool :=
  match s with x :: ((y :: _) as r) => (x <? y)%nat && increasingb r | _ => true end.
Fixpoint nodupb (l : list (list nat)) : bool :=
  match l with [] => true | s :: r => negb (existsb (list_eqb s) r) && nodupb r end.
Definition facets_okb (K : cplx) (p : list nat * Q) : bool :=
  forallb (fun t => match t with [] => true | _ => match lookup K t with Some g => qle g (snd p) | None => false end end)
          (facets (fst p)).
Definition validb (K : cplx) : bool :=
  forallb (fun p => negb (length (fst p) =? 0)%nat && increasingb (fst p) && facets_okb K p) K && nodupb (map fst K).
Definition valid (K : cplx) : Prop :=
  forall s f, In (s, f) K -> s <> [] /\
    forall t, In t (facets s) -> t <> [] -> exists g, In (t, g) K /\ g <= f.

(* ------------------------------------------------------------------ persistence bars of a filtered complex *)
Fixpoint lexleb (a b : list nat) : bool :=
  match a, b with
  | [], _ => true
  | _ :: _, [] => false
  | x :: a', y :: b' => (x <? y)%nat || ((x =? y)%nat && lexleb a' b')
  end.
(* filtration order: value, then dimension, then lexicographic *)
Definition sleb (a b : list nat * Q) : bool :=
  qlt (snd a) (snd b) ||
  (qle (snd a) (snd b) && ((length (fst a) <? length (fst b))%nat ||
                           ((length (fst a) =? length (fst b))%nat && lexleb (fst a) (fst b)))).
Fixpoint ins_sorted (x : list nat * Q) (l : cplx) : cplx :=
  match l with [] => [x] | y :: r => if sleb x y then x :: l else y :: ins_sorted x r end.
Definition sort_cplx (K : cplx) : cplx := fold_right ins_sorted [] K.
Fixpoint index_of (s : list nat) (l : cplx) (i : nat) : option nat :=
  match l with [] => None | y :: r => if list_eqb (fst y) s then Some i else index_of s r (S i) end.
Fixpoint signed_facets (s : list nat) (sg : Z) : list (Z * list nat) :=
  match s with [] => [] | x :: r => (sg, r) :: map (fun p => (fst p, x :: snd p)) (signed_facets r (- sg)%Z) end.
Definition bd_col (S : cplx) (s : list nat) : list (nat * Z) :=
  flat_map (fun p => match snd p with [] => [] | _ => match index_of (snd p) S O with Some i => [(i, fst p)] | None => [] end end)
           (signed_facets s 1%Z).
Definition boundary_matrix (S : cplx) : dmat := dense_of_sparse (length S) (map (fun p => bd_col S (fst p)) S).
(* bar = (dimension, birth value, death value | None) ; bars of length zero dropped *)
Definition bar := (nat * Q * option Q)%type.
Definition bars (p : Z) (K : cplx) : option (list bar) :=
  let S := sort_cplx K in
  match certified_lows p (boundary_matrix S) with
  | None => None
  | Some l =>
    Some (flat_map (fun bd =>
            match nth_error S (fst bd) with
            | None => []
            | Some sb =>
              let dim := (length (fst sb) - 1)%nat in
              match snd bd with
              | None => [(dim, snd sb, None)]
              | Some j => match nth_error S j with
                          | Some sd => if qle (snd sd) (snd sb) then [] else [(dim, snd sb, Some (snd sd))]
                          | None => []
                          end
              end
            end) (pairs_of_lows l))
  end.
Definition bars_below (k : nat) (l : list bar) : list bar := filter (fun b => (fst (fst b) <? k)%nat) l.

(* ------------------------------------------------------------------ matching within a multiplicative bound c *)
Definition near (c x y : Q) : bool := qle x (c * y) && qle y (c * x).
Definition bar_match (c : Q) (a b : bar) : bool :=
  (fst (fst a) =? fst (fst b))%nat && near c (snd (fst a)) (snd (fst b)) &&
  match snd a, snd b with
  | None, None => true
  | Some x, Some y => near c x y
  | _, _ => false
  end.
(* a bar that may stay unmatched: at multiplicative distance <= c from the diagonal *)
Definition bar_small (c : Q) (a : bar) : bool :=
  match snd a with None => false | Some x => qle x (c * c * snd (fst a)) end.
Fixpoint nodup_nat (l : list nat) : bool :=
  match l with [] => true | x :: r => negb (memb x r) && nodup_nat r end.
(* M = list of (index in A, index in B) *)
Definition check_matching (c : Q) (A B : list bar) (M : list (nat * nat)) : bool :=
  nodup_nat (map fst M) && nodup_nat (map snd M) &&
  forallb (fun ij => match nth_error A (fst ij), nth_error B (snd ij) with
                     | Some a, Some b => bar_match c a b | _, _ => false end) M &&
  forallb (fun i => memb i (map fst M) || match nth_error A i with Some a => bar_small c a | None => false end) (seq 0 (length A)) &&
  forallb (fun j => memb j (map snd M) || match nth_error B j with Some b => bar_small c b | None => false end) (seq 0 (length B)).
Definition within (c : Q) (A B : list bar) : Prop := exists M, check_matching c A B M = true.
