(* C19 - theorems about the model of the sparse Rips construction (coq/C19_Model.v). *)
From Coq Require Import List ZArith QArith Bool Arith Lia Lqa.
Require Import Reduce ReduceExec C19_Model.
Import ListNotations.
Open Scope Q_scope.

(* ------------------------------------------------------------------ comparisons *)
Lemma qle_iff a b : qle a b = true <-> a <= b.
Proof. unfold qle. apply Qle_bool_iff. Qed.
Lemma qle_false a b : qle a b = false -> b < a.
Proof.
  intro H. apply Qnot_le_lt. intro L. apply qle_iff in L. congruence.
Qed.
Lemma qlt_iff a b : qlt a b = true <-> a < b.
Proof.
  unfold qlt. rewrite negb_true_iff. split.
  - intro H. apply qle_false. exact H.
  - intro H. destruct (Qle_bool b a) eqn:E; [|reflexivity].
    apply Qle_bool_iff in E. exfalso. apply (Qlt_not_le _ _ H E).
Qed.
Lemma qlt_false a b : qlt a b = false -> b <= a.
Proof. unfold qlt. rewrite negb_false_iff. apply Qle_bool_iff. Qed.
Lemma qmax_l a b : a <= qmax a b.
Proof. unfold qmax. destruct (Qle_bool a b) eqn:E. - apply Qle_bool_iff; exact E. - apply Qle_refl. Qed.
Lemma qmax_r a b : b <= qmax a b.
Proof.
  unfold qmax. destruct (Qle_bool a b) eqn:E. - apply Qle_refl.
  - apply Qlt_le_weak. apply qle_false. exact E.
Qed.

Lemma ole_refl a : ole a a = true.
Proof. destruct a; simpl; [apply qle_iff; apply Qle_refl|reflexivity]. Qed.
Lemma ole_trans a b c : ole a b = true -> ole b c = true -> ole a c = true.
Proof.
  destruct a, b, c; simpl; try congruence; try reflexivity.
  rewrite !qle_iff. apply Qle_trans.
Qed.

Lemma list_eqb_eq a : forall b, list_eqb a b = true -> a = b.
Proof.
  induction a as [|x a IH]; intros [|y b] H; simpl in H; try discriminate; [reflexivity|].
  apply andb_true_iff in H. destruct H as [H1 H2]. apply Nat.eqb_eq in H1. subst. f_equal. apply IH. exact H2.
Qed.
Lemma lookup_In K s g : lookup K s = Some g -> In (s, g) K.
Proof.
  unfold lookup. destruct (find (fun p => list_eqb (fst p) s) K) as [[t h]|] eqn:E; [|discriminate].
  intro H. inversion H; subst. apply find_some in E. destruct E as [E1 E2]. simpl in E2.
  apply list_eqb_eq in E2. subst. exact E1.
Qed.
Lemma memb_In x l : memb x l = true <-> In x l.
Proof.
  unfold memb. rewrite existsb_exists. split.
  - intros [y [H1 H2]]. apply Nat.eqb_eq in H2. subst. exact H1.
  - intro H. exists x. split; [exact H|apply Nat.eqb_refl].
Qed.

(* ------------------------------------------------------------------ 1. every kept edge is not earlier than in Rips *)
Lemma edge_val_ge eps maxi li lj dd a : 0 < eps -> edge_val eps maxi li lj dd = Some a -> dd <= a.
Proof.
  intros He. unfold edge_val.
  assert (R : forall x, match maxi with None => Some x | Some M => if qle x M then Some x else None end = Some a -> x <= a).
  { intros x H. destruct maxi as [M|]; [destruct (qle x M)|]; inversion H; subst; apply Qle_refl. }
  destruct lj as [l|]; [|apply R].
  destruct (qle (dd * eps) (2 * l)) eqn:E1; [apply R|].
  destruct (match li with None => false | Some l' => qlt (l' + l) (dd * eps) end); [discriminate|].
  destruct (qlt eps 1 && qlt l ((dd - l / eps) * 2 * cst eps)); [discriminate|].
  intro H. apply R in H. apply qle_false in E1.
  eapply Qle_trans; [|exact H].
  set (x := l / eps) in *.
  assert (Hx : l == x * eps). { unfold x. rewrite Qmult_comm. rewrite Qmult_div_r; [reflexivity|]. intro Z. rewrite Z in He. apply (Qlt_irrefl _ He). }
  rewrite Hx in E1.
  assert (H2 : 2 * x < dd).
  { apply Qmult_lt_r with (z := eps); [exact He|]. rewrite <- Qmult_assoc. exact E1. }
  lra.
Qed.

Section Metric.
Variable d : nat -> nat -> Q.
Hypothesis d_sym : forall u v, d u v == d v u.
Hypothesis d_nonneg : forall u v, 0 <= d u v.
Variable eps : Q.
Hypothesis eps_pos : 0 < eps.

Lemma in_rips_mono s f g : in_rips d s f -> f <= g -> in_rips d s g.
Proof. intros H L u v Hu Hv N. eapply Qle_trans; [apply H; assumption|exact L]. Qed.

(* edges *)
Lemma edges_from_spec maxi pi li rest s a : In (s, a) (edges_from d eps maxi pi li rest) ->
  exists pj lj, In (pj, lj) rest /\ s = sort2 pi pj /\ edge_val eps maxi li lj (d pi pj) = Some a.
Proof.
  induction rest as [|[pj lj] r IH]; simpl; [tauto|].
  destruct (edge_val eps maxi li lj (d pi pj)) as [a'|] eqn:E.
  - intros [H|H].
    + inversion H; subst. exists pj, lj. split; [left; reflexivity|split; [reflexivity|exact E]].
    + destruct (IH H) as [pj' [lj' [H1 H2]]]. exists pj', lj'. split; [right; exact H1|exact H2].
  - intro H. destruct (IH H) as [pj' [lj' [H1 H2]]]. exists pj', lj'. split; [right; exact H1|exact H2].
Qed.
Lemma all_edges_spec maxi vs s a : In (s, a) (all_edges d eps maxi vs) ->
  exists pi li pj lj, In (pi, li) vs /\ In (pj, lj) vs /\ s = sort2 pi pj /\ edge_val eps maxi li lj (d pi pj) = Some a.
Proof.
  induction vs as [|[pi li] r IH]; simpl; [tauto|].
  rewrite in_app_iff. intros [H|H].
  - apply edges_from_spec in H. destruct H as [pj [lj [H1 [H2 H3]]]].
    exists pi, li, pj, lj. split; [left; reflexivity|]. split; [right; exact H1|]. split; assumption.
  - destruct (IH H) as [pi' [li' [pj [lj [H1 [H2 H3]]]]]]. exists pi', li', pj, lj.
    split; [right; exact H1|]. split; [right; exact H2|exact H3].
Qed.
Lemma sort2_in a b u : In u (sort2 a b) -> u = a \/ u = b.
Proof. unfold sort2. destruct (a <? b)%nat; simpl; intuition. Qed.
Lemma sort2_len a b : length (sort2 a b) = 2%nat.
Proof. unfold sort2. destruct (a <? b)%nat; reflexivity. Qed.

Lemma edge_in_rips maxi vs s a : In (s, a) (all_edges d eps maxi vs) -> in_rips d s a /\ (2 <= length s)%nat.
Proof.
  intro H. apply all_edges_spec in H. destruct H as [pi [li [pj [lj [_ [_ [Hs He]]]]]]].
  apply edge_val_ge in He; [|exact eps_pos]. subst s. split; [|rewrite sort2_len; lia].
  intros u v Hu Hv N. apply sort2_in in Hu. apply sort2_in in Hv.
  destruct Hu as [Hu|Hu], Hv as [Hv|Hv]; subst u v.
  - exfalso. apply N. reflexivity.
  - exact He.
  - rewrite d_sym. exact He.
  - exfalso. apply N. reflexivity.
Qed.

(* expansion *)
Lemma max_facets_spec K fs : forall acc f, max_facets K fs acc = Some f ->
  acc <= f /\ forall t, In t fs -> exists g, lookup K t = Some g /\ g <= f.
Proof.
  induction fs as [|t r IH]; simpl; intros acc f H.
  - inversion H; subst. split; [apply Qle_refl|tauto].
  - destruct (lookup K t) as [g|] eqn:E; [|discriminate].
    apply IH in H. destruct H as [H1 H2]. split.
    + eapply Qle_trans; [apply qmax_l|exact H1].
    + intros t' [Ht|Ht]; [subst; exists g; split; [exact E|eapply Qle_trans; [apply qmax_r|exact H1]]|apply H2; exact Ht].
Qed.

Lemma cand_spec K blk v t s f : In (s, f) (cand K blk v t) ->
  s = v :: fst t /\ fst t <> [] /\ max_facets K (facets (v :: fst t)) (snd t) = Some f /\ blk (v :: fst t) f = false.
Proof.
  unfold cand. destruct (fst t) as [|h r] eqn:Et; [simpl; tauto|].
  destruct (v <? h)%nat; [|simpl; tauto].
  destruct (max_facets K (facets (v :: h :: r)) (snd t)) as [f'|] eqn:E; [|simpl; tauto].
  destruct (blk (v :: h :: r) f') eqn:B; [simpl; tauto|].
  intros [H|[]]. inversion H; subst. repeat split; try assumption. discriminate.
Qed.
Lemma expand_level_spec blk verts K s f : In (s, f) (expand_level blk verts K) ->
  exists v t, In t K /\ s = v :: fst t /\ fst t <> [] /\ max_facets K (facets s) (snd t) = Some f /\ blk s f = false.
Proof.
  unfold expand_level. rewrite in_flat_map. intros [t [Ht H]]. rewrite in_flat_map in H. destruct H as [v [_ H]].
  apply cand_spec in H. destruct H as [H1 [H2 [H3 H4]]]. subst s. exists v, t. repeat split; assumption.
Qed.

(* in a simplex with at least three vertices any two of them lie in a common facet *)
Lemma facet_with r w : (2 <= length r)%nat -> In w r -> exists r', In r' (facets r) /\ In w r'.
Proof.
  destruct r as [|y [|z rest]]; simpl; try lia. intros _ [H|H].
  - subst w. exists (y :: rest). split; [right; left; reflexivity|left; reflexivity].
  - exists (z :: rest). split; [left; reflexivity|exact H].
Qed.
Lemma pair_in_facet s u w : (3 <= length s)%nat -> In u s -> In w s -> u <> w ->
  exists t, In t (facets s) /\ In u t /\ In w t.
Proof.
  destruct s as [|x r]; simpl; [lia|]. intros L Hu Hw N.
  assert (Lr : (2 <= length r)%nat) by lia.
  destruct Hu as [Hu|Hu], Hw as [Hw|Hw].
  - congruence.
  - subst u. destruct (facet_with r w Lr Hw) as [r' [H1 H2]]. exists (x :: r'). split; [right; apply in_map; exact H1|].
    split; [left; reflexivity|right; exact H2].
  - subst w. destruct (facet_with r u Lr Hu) as [r' [H1 H2]]. exists (x :: r'). split; [right; apply in_map; exact H1|].
    split; [right; exact H2|left; reflexivity].
  - exists r. split; [left; reflexivity|split; assumption].
Qed.

Definition good (K : cplx) : Prop := forall s f, In (s, f) K -> in_rips d s f /\ (2 <= length s)%nat.

Lemma expand_level_good blk verts K : good K -> good (expand_level blk verts K).
Proof.
  intros G s f H. apply expand_level_spec in H. destruct H as [v [t [Ht [Hs [Hne [Hm _]]]]]].
  destruct t as [t0 g0]. simpl in *. destruct (G _ _ Ht) as [_ L2].
  assert (L3 : (3 <= length s)%nat) by (subst s; simpl; lia).
  split; [|lia].
  apply max_facets_spec in Hm. destruct Hm as [_ Hm].
  intros u w Hu Hw N. destruct (pair_in_facet s u w L3 Hu Hw N) as [t' [Ht' [Hu' Hw']]].
  destruct (Hm _ Ht') as [g [Hl Hg]]. apply lookup_In in Hl. destruct (G _ _ Hl) as [R _].
  eapply Qle_trans; [apply R; assumption|exact Hg].
Qed.
Lemma expand_good blk verts l : forall K, good K -> good (expand blk verts l K).
Proof.
  induction l as [|l IH]; intros K G; simpl; [intros s f []|].
  intros s f H. apply in_app_iff in H. destruct H as [H|H].
  - exact (expand_level_good blk verts K G s f H).
  - exact (IH _ (expand_level_good blk verts K G) s f H).
Qed.

(* ------------------------------------------------------------------ 2. sparse is a subcomplex of Rips and never earlier *)
Theorem sparse_in_rips N pi mini maxi dim_max s f :
  In (s, f) (sparse_complex d eps N pi mini maxi dim_max) -> in_rips d s f.
Proof.
  unfold sparse_complex. rewrite !in_app_iff. intros [H|[H|H]].
  - apply in_map_iff in H. destruct H as [[v l] [H _]]. inversion H; subst. intros u w [Hu|[]] [Hw|[]] N0. congruence.
  - apply (edge_in_rips _ _ _ _ H).
  - refine (proj1 (expand_good _ _ _ _ _ s f H)). intros s' f' H'. apply (edge_in_rips _ _ _ _ H').
Qed.

(* ------------------------------------------------------------------ 3. the output is a filtered simplicial complex *)
Lemma expand_facets blk verts l : forall K s f, In (s, f) (expand blk verts l K) ->
  s <> [] /\ forall t, In t (facets s) -> exists g, In (t, g) (K ++ expand blk verts l K) /\ g <= f.
Proof.
  induction l as [|l IH]; intros K s f H; simpl in H; [destruct H|].
  apply in_app_iff in H. destruct H as [H|H].
  - apply expand_level_spec in H. destruct H as [v [t [Ht [Hs [Hne [Hm _]]]]]].
    split; [subst s; discriminate|]. apply max_facets_spec in Hm. destruct Hm as [_ Hm].
    intros t' Ht'. destruct (Hm _ Ht') as [g [Hl Hg]]. exists g. split; [|exact Hg].
    apply in_app_iff. left. apply lookup_In. exact Hl.
  - destruct (IH _ _ _ H) as [H1 H2]. split; [exact H1|]. intros t' Ht'. destruct (H2 _ Ht') as [g [Hg1 Hg2]].
    exists g. split; [|exact Hg2]. simpl. apply in_app_iff. right. exact Hg1.
Qed.

Theorem sparse_valid N pi mini maxi dim_max : valid (sparse_complex d eps N pi mini maxi dim_max).
Proof.
  unfold valid, sparse_complex. intros s f H.
  set (vs := kept d mini pi) in *.
  set (V := map (fun p : nat * option Q => ([fst p], 0)) vs) in *.
  set (E := all_edges d eps maxi vs) in *.
  apply in_app_iff in H. destruct H as [H|H]; [|apply in_app_iff in H; destruct H as [H|H]].
  - apply in_map_iff in H. destruct H as [[v l] [H _]]. inversion H; subst. split; [discriminate|].
    simpl. intros t [Ht|[]] Hn. congruence.
  - pose proof H as H0. apply all_edges_spec in H. destruct H as [pi0 [li [pj [lj [Hi [Hj [Hs He]]]]]]].
    apply edge_val_ge in He; [|exact eps_pos].
    assert (Ha : 0 <= f) by (eapply Qle_trans; [apply d_nonneg|exact He]).
    split; [subst s; unfold sort2; destruct (pi0 <? pj)%nat; discriminate|].
    assert (Vi : In ([pi0], 0) V) by (unfold V; apply in_map_iff; exists (pi0, li); split; [reflexivity|exact Hi]).
    assert (Vj : In ([pj], 0) V) by (unfold V; apply in_map_iff; exists (pj, lj); split; [reflexivity|exact Hj]).
    intros t Ht _. exists 0. split; [|exact Ha]. apply in_app_iff. left.
    subst s. unfold sort2 in Ht. destruct (pi0 <? pj)%nat; simpl in Ht; destruct Ht as [Ht|[Ht|[]]]; subst t; assumption.
  - apply expand_facets in H. destruct H as [H1 H2]. split; [exact H1|]. intros t Ht _.
    destruct (H2 _ Ht) as [g [Hg1 Hg2]]. exists g. split; [|exact Hg2]. apply in_app_iff. right. exact Hg1.
Qed.

(* ------------------------------------------------------------------ 3b. values are >= the Rips value (max pairwise distance) *)
Lemma expand_nonneg blk verts l : forall K, (forall s f, In (s, f) K -> 0 <= f) ->
  forall s f, In (s, f) (expand blk verts l K) -> 0 <= f.
Proof.
  induction l as [|l IH]; intros K G s f H; simpl in H; [destruct H|].
  assert (G' : forall s f, In (s, f) (expand_level blk verts K) -> 0 <= f).
  { intros s' f' H'. apply expand_level_spec in H'. destruct H' as [v [t [Ht [_ [_ [Hm _]]]]]].
    apply max_facets_spec in Hm. destruct Hm as [Hm _]. destruct t as [t0 g0]. simpl in Hm.
    eapply Qle_trans; [exact (G _ _ Ht)|exact Hm]. }
  apply in_app_iff in H. destruct H as [H|H]; [exact (G' _ _ H)|exact (IH _ G' _ _ H)].
Qed.
Lemma sparse_nonneg N pi mini maxi dim_max s f :
  In (s, f) (sparse_complex d eps N pi mini maxi dim_max) -> 0 <= f.
Proof.
  unfold sparse_complex. rewrite !in_app_iff.
  assert (GE : forall s f, In (s, f) (all_edges d eps maxi (kept d mini pi)) -> 0 <= f).
  { intros s' f' H'. apply all_edges_spec in H'. destruct H' as [pi0 [li [pj [lj [_ [_ [_ He]]]]]]].
    apply edge_val_ge in He; [|exact eps_pos]. eapply Qle_trans; [apply d_nonneg|exact He]. }
  intros [H|[H|H]].
  - apply in_map_iff in H. destruct H as [[v l] [H _]]. inversion H; subst. apply Qle_refl.
  - exact (GE _ _ H).
  - exact (expand_nonneg _ _ _ _ GE _ _ H).
Qed.

Hypothesis d_diag : forall u, d u u == 0.
Lemma fold_max_le x r f : forall init, init <= f -> (forall y, In y r -> d x y <= f) ->
  fold_left (fun a y => qmax a (d x y)) r init <= f.
Proof.
  induction r as [|y r IH]; intros init Hi Hr; simpl; [exact Hi|].
  apply IH; [|intros z Hz; apply Hr; right; exact Hz].
  unfold qmax. destruct (Qle_bool init (d x y)); [apply Hr; left; reflexivity|exact Hi].
Qed.
Lemma rips_val_le s f : 0 <= f -> in_rips d s f -> rips_val d s <= f.
Proof.
  intros Hf. induction s as [|x r IH]; intro H; simpl; [exact Hf|].
  apply fold_max_le.
  - apply IH. intros u v Hu Hv N. apply H; [right; exact Hu|right; exact Hv|exact N].
  - intros y Hy. destruct (Nat.eq_dec x y) as [E|E]; [subst; rewrite d_diag; exact Hf|].
    apply H; [left; reflexivity|right; exact Hy|exact E].
Qed.
Theorem sparse_value_ge_rips_value N pi mini maxi dim_max s f :
  In (s, f) (sparse_complex d eps N pi mini maxi dim_max) -> rips_val d s <= f.
Proof.
  intro H. apply rips_val_le; [exact (sparse_nonneg _ _ _ _ _ _ _ H)|exact (sparse_in_rips _ _ _ _ _ _ _ H)].
Qed.

(* ------------------------------------------------------------------ 3c. simplices are strictly increasing lists of kept points *)
Lemma In_firstn {A} (x : A) n : forall l, In x (firstn n l) -> In x l.
Proof. induction n as [|n IH]; intros [|y l]; simpl; try tauto. intros [H|H]; [left; exact H|right; apply IH; exact H]. Qed.
Lemma NoDup_firstn {A} n : forall l : list A, NoDup l -> NoDup (firstn n l).
Proof.
  induction n as [|n IH]; intros [|y l] H; simpl; try constructor.
  - inversion H; subst. intro Hin. apply In_firstn in Hin. contradiction.
  - inversion H; subst. apply IH. assumption.
Qed.
Lemma NoDup_fst_combine {A B} (a : list A) : forall b : list B, NoDup a -> NoDup (map fst (combine a b)).
Proof.
  induction a as [|x a IH]; intros [|y b] H; simpl; try constructor.
  - inversion H; subst. intro Hin. apply in_map_iff in Hin. destruct Hin as [[x' y'] [E Hin]]. simpl in E. subst x'.
    apply in_combine_l in Hin. contradiction.
  - inversion H; subst. apply IH. assumption.
Qed.
Lemma kept_NoDup mini pi : NoDup pi -> NoDup (map fst (kept d mini pi)).
Proof. intro H. unfold kept. apply NoDup_fst_combine. apply NoDup_firstn. exact H. Qed.
Lemma kept_In mini pi v : In v (map fst (kept d mini pi)) -> In v pi.
Proof.
  unfold kept. intro H. apply in_map_iff in H. destruct H as [[x y] [E H]]. simpl in E. subst x.
  apply in_combine_l in H. apply In_firstn in H. exact H.
Qed.

Lemma all_edges_neq maxi vs s a : NoDup (map fst vs) -> In (s, a) (all_edges d eps maxi vs) ->
  exists pi pj, In pi (map fst vs) /\ In pj (map fst vs) /\ pi <> pj /\ s = sort2 pi pj.
Proof.
  induction vs as [|[pi li] r IH]; simpl; [tauto|]. intros ND H. apply NoDup_cons_iff in ND. destruct ND as [ND1 ND2].
  apply in_app_iff in H. destruct H as [H|H].
  - apply edges_from_spec in H. destruct H as [pj [lj [E1 [E2 _]]]].
    assert (Hj : In pj (map fst r)) by (apply in_map_iff; exists (pj, lj); split; [reflexivity|exact E1]).
    exists pi, pj. split; [left; reflexivity|]. split; [right; exact Hj|]. split; [|exact E2].
    intro E. subst pj. contradiction.
  - destruct (IH ND2 H) as [pi' [pj [A1 [A2 [A3 A4]]]]]. exists pi', pj. split; [right; exact A1|]. split; [right; exact A2|]. split; assumption.
Qed.
Lemma sort2_increasing a b : a <> b -> increasingb (sort2 a b) = true.
Proof.
  intro N. unfold sort2. destruct (a <? b)%nat eqn:E; simpl; rewrite andb_true_r.
  - exact E.
  - apply Nat.ltb_lt. apply Nat.ltb_ge in E. lia.
Qed.

Definition wfs (verts : list nat) (K : cplx) : Prop :=
  forall s f, In (s, f) K -> increasingb s = true /\ s <> [] /\ forall v, In v s -> In v verts.

Lemma expand_level_wfs blk verts K : wfs verts K -> wfs verts (expand_level blk verts K).
Proof.
  intros G s f H. unfold expand_level in H. rewrite in_flat_map in H. destruct H as [t [Ht H]].
  rewrite in_flat_map in H. destruct H as [v [Hv H]]. unfold cand in H.
  destruct t as [t0 g0]. cbn [fst snd] in H. destruct t0 as [|h r]; [destruct H|].
  destruct (v <? h)%nat eqn:E; [|destruct H].
  destruct (max_facets K (facets (v :: h :: r)) g0) as [f'|]; [|destruct H].
  destruct (blk (v :: h :: r) f'); [destruct H|]. destruct H as [H|[]]. inversion H; subst.
  destruct (G _ _ Ht) as [G1 [_ G3]]. split; [|split; [discriminate|]].
  - change (((v <? h)%nat && increasingb (h :: r)) = true). rewrite E. exact G1.
  - intros x [Hx|Hx]; [subst; exact Hv|apply G3; exact Hx].
Qed.
Lemma expand_wfs blk verts l : forall K, wfs verts K -> wfs verts (expand blk verts l K).
Proof.
  induction l as [|l IH]; intros K G; simpl; [intros s f []|].
  intros s f H. apply in_app_iff in H. destruct H as [H|H].
  - exact (expand_level_wfs blk verts K G s f H).
  - exact (IH _ (expand_level_wfs blk verts K G) s f H).
Qed.

Theorem sparse_simplices_wf N pi mini maxi dim_max s f : NoDup pi ->
  In (s, f) (sparse_complex d eps N pi mini maxi dim_max) ->
  increasingb s = true /\ s <> [] /\ forall v, In v s -> In v pi.
Proof.
  intros ND. unfold sparse_complex. rewrite !in_app_iff.
  assert (GE : wfs (map fst (kept d mini pi)) (all_edges d eps maxi (kept d mini pi))).
  { intros s' f' H'. apply all_edges_neq in H'; [|apply kept_NoDup; exact ND].
    destruct H' as [a [b [Ha [Hb [Hn Hs]]]]]. subst s'. split; [apply sort2_increasing; exact Hn|]. split.
    - unfold sort2. destruct (a <? b)%nat; discriminate.
    - intros v Hv. apply sort2_in in Hv. destruct Hv; subst; assumption. }
  intros [H|[H|H]].
  - apply in_map_iff in H. destruct H as [[v l] [H Hin]]. inversion H; subst. split; [reflexivity|]. split; [discriminate|].
    intros x [Hx|[]]. subst x. apply (kept_In mini). apply in_map_iff. exists (v, l). split; [reflexivity|exact Hin].
  - destruct (GE _ _ H) as [A1 [A2 A3]]. split; [exact A1|]. split; [exact A2|]. intros v Hv. apply (kept_In mini). apply A3. exact Hv.
  - destruct (expand_wfs _ _ _ _ GE _ _ H) as [A1 [A2 A3]]. split; [exact A1|]. split; [exact A2|].
    intros v Hv. apply (kept_In mini). apply A3. exact Hv.
Qed.

(* ------------------------------------------------------------------ 4. insertion radii of a farthest-point order *)
Fixpoint noninc (l : list (option Q)) : Prop :=
  match l with a :: ((b :: _) as r) => ole b a = true /\ noninc r | _ => True end.

Lemma dist_to_cons q prev x : ole (dist_to d (q :: prev) x) (dist_to d prev x) = true.
Proof.
  simpl. destruct (dist_to d prev x) as [m|]; simpl; [|reflexivity].
  destruct (qlt (d x q) m) eqn:E; apply qle_iff; [apply Qlt_le_weak; apply qlt_iff; exact E|apply Qle_refl].
Qed.

Lemma greedy_noninc N : forall rest prev, greedyb d N prev rest = true -> noninc (lams d prev rest).
Proof.
  induction rest as [|q r IH]; intros prev H; simpl; [exact I|].
  simpl in H. rewrite !andb_true_iff in H. destruct H as [[[Hq Hn] Hf] Hr].
  destruct r as [|q' r']; [exact I|].
  split; [|apply IH; exact Hr].
  simpl in Hr. rewrite !andb_true_iff in Hr. destruct Hr as [[[Hq' Hn'] _] _].
  apply Nat.ltb_lt in Hq'. rewrite forallb_forall in Hf.
  assert (Hin : In q' (seq 0 N)) by (apply in_seq; lia).
  specialize (Hf _ Hin). apply orb_true_iff in Hf. destruct Hf as [Hf|Hf].
  - exfalso. apply negb_true_iff in Hn'. unfold memb in Hn'. simpl in Hn'. apply orb_false_iff in Hn'. destruct Hn' as [_ Hn'].
    unfold memb in Hf. congruence.
  - simpl lams. eapply ole_trans; [apply dist_to_cons|exact Hf].
Qed.

Theorem radii_nonincreasing N pi : greedyb d N [] pi = true -> noninc (lambdas d pi).
Proof. apply greedy_noninc. Qed.

(* a farthest-point order exists from every starting point: greedy_from is one *)
Lemma ole_total a b : ole a b = false -> ole b a = true.
Proof.
  destruct a as [x|], b as [y|]; simpl; try congruence; try reflexivity.
  intro H. apply qle_iff. apply Qlt_le_weak. apply qle_false. exact H.
Qed.
Definition arg_inv (prev S : list nat) (best : option nat) : Prop :=
  match best with
  | None => forall x, In x S -> memb x prev = true
  | Some b => memb b prev = false /\ In b S /\
              forall x, In x S -> memb x prev = true \/ ole (dist_to d prev x) (dist_to d prev b) = true
  end.
Lemma argfar_fold prev : forall l S best, arg_inv prev S best ->
  arg_inv prev (S ++ l)
    (fold_left (fun best x => if memb x prev then best else
                                match best with None => Some x
                                | Some b => if ole (dist_to d prev x) (dist_to d prev b) then best else Some x end) l best).
Proof.
  induction l as [|x l IH]; intros S best H; simpl; [rewrite app_nil_r; exact H|].
  replace (S ++ x :: l) with ((S ++ [x]) ++ l) by (rewrite <- app_assoc; reflexivity).
  apply IH. destruct (memb x prev) eqn:Ex.
  - destruct best as [b|]; simpl in *.
    + destruct H as [H1 [H2 H3]]. split; [exact H1|]. split; [apply in_app_iff; left; exact H2|].
      intros y Hy. apply in_app_iff in Hy. destruct Hy as [Hy|[Hy|[]]]; [apply H3; exact Hy|subst; left; exact Ex].
    + intros y Hy. apply in_app_iff in Hy. destruct Hy as [Hy|[Hy|[]]]; [apply H; exact Hy|subst; exact Ex].
  - destruct best as [b|]; simpl in *.
    + destruct H as [H1 [H2 H3]]. destruct (ole (dist_to d prev x) (dist_to d prev b)) eqn:Eo; simpl.
      * split; [exact H1|]. split; [apply in_app_iff; left; exact H2|].
        intros y Hy. apply in_app_iff in Hy. destruct Hy as [Hy|[Hy|[]]]; [apply H3; exact Hy|subst; right; exact Eo].
      * split; [exact Ex|]. split; [apply in_app_iff; right; left; reflexivity|].
        intros y Hy. apply in_app_iff in Hy. destruct Hy as [Hy|[Hy|[]]].
        -- destruct (H3 _ Hy) as [A|A]; [left; exact A|right]. eapply ole_trans; [exact A|apply ole_total; exact Eo].
        -- subst. right. apply ole_refl.
    + split; [exact Ex|]. split; [apply in_app_iff; right; left; reflexivity|].
      intros y Hy. apply in_app_iff in Hy. destruct Hy as [Hy|[Hy|[]]]; [left; apply H; exact Hy|subst; right; apply ole_refl].
Qed.
Lemma argfar_spec N prev q : argfar d N prev = Some q ->
  (q < N)%nat /\ memb q prev = false /\
  forall x, In x (seq 0 N) -> memb x prev = true \/ ole (dist_to d prev x) (dist_to d prev q) = true.
Proof.
  unfold argfar. intro H.
  assert (I0 : arg_inv prev [] None) by (intros x []).
  pose proof (argfar_fold prev (seq 0 N) [] None I0) as I. simpl in I. rewrite H in I. simpl in I.
  destruct I as [I1 [I2 I3]]. split; [apply in_seq in I2; lia|]. split; assumption.
Qed.
Lemma greedy_more_greedy N : forall fuel prev, greedyb d N prev (greedy_more d N fuel prev) = true.
Proof.
  induction fuel as [|f IH]; intro prev; simpl; [reflexivity|].
  destruct (argfar d N prev) as [q|] eqn:E; [|reflexivity].
  apply argfar_spec in E. destruct E as [E1 [E2 E3]]. simpl.
  rewrite !andb_true_iff. split; [split; [split|]|apply IH].
  - apply Nat.ltb_lt. exact E1.
  - rewrite E2. reflexivity.
  - apply forallb_forall. intros x Hx. apply orb_true_iff. exact (E3 x Hx).
Qed.
Theorem greedy_from_greedy N s : (s < N)%nat -> greedyb d N [] (greedy_from d N s) = true.
Proof.
  intro H. unfold greedy_from. simpl. rewrite !andb_true_iff. split; [split; [split|]|apply greedy_more_greedy].
  - apply Nat.ltb_lt. exact H.
  - reflexivity.
  - apply forallb_forall. intros x _. reflexivity.
Qed.

(* ------------------------------------------------------------------ 5. the boolean specification checks mean what they say *)
Theorem sub_neverb_sound K : sub_neverb d K = true -> forall s f, In (s, f) K -> in_rips d s f.
Proof.
  unfold sub_neverb. rewrite forallb_forall. intros H s f Hin u v Hu Hv N.
  specialize (H _ Hin). unfold in_ripsb in H. simpl in H. rewrite forallb_forall in H.
  specialize (H _ Hu). rewrite forallb_forall in H. specialize (H _ Hv).
  apply orb_true_iff in H. destruct H as [H|H]; [apply Nat.eqb_eq in H; congruence|apply qle_iff; exact H].
Qed.

End Metric.

Theorem validb_sound K : validb K = true -> valid K.
Proof.
  unfold validb, valid. rewrite andb_true_iff. intros [H _] s f Hin. rewrite forallb_forall in H.
  specialize (H _ Hin). simpl in H. rewrite !andb_true_iff in H. destruct H as [[H1 _] H3].
  split. { intro Z. subst s. discriminate. }
  unfold facets_okb in H3. simpl in H3. rewrite forallb_forall in H3. intros t Ht Hn.
  specialize (H3 _ Ht). destruct t as [|x t']; [congruence|].
  destruct (lookup K (x :: t')) as [g|] eqn:E; [|discriminate]. exists g. split; [apply lookup_In; exact E|apply qle_iff; exact H3].
Qed.

(* the certificate checker for "bottleneck distance <= c" *)
Lemma nodup_nat_NoDup l : nodup_nat l = true -> NoDup l.
Proof.
  induction l as [|x r IH]; simpl; [constructor|]. rewrite andb_true_iff, negb_true_iff. intros [H1 H2].
  constructor; [|apply IH; exact H2]. intro Hin. apply memb_In in Hin. congruence.
Qed.
Theorem check_matching_sound c A B M : check_matching c A B M = true ->
  NoDup (map fst M) /\ NoDup (map snd M) /\
  (forall i j, In (i, j) M -> exists a b, nth_error A i = Some a /\ nth_error B j = Some b /\ bar_match c a b = true) /\
  (forall i a, nth_error A i = Some a -> In i (map fst M) \/ bar_small c a = true) /\
  (forall j b, nth_error B j = Some b -> In j (map snd M) \/ bar_small c b = true).
Proof.
  unfold check_matching. rewrite !andb_true_iff. intros [[[[H1 H2] H3] H4] H5].
  split; [apply nodup_nat_NoDup; exact H1|]. split; [apply nodup_nat_NoDup; exact H2|].
  rewrite forallb_forall in H3, H4, H5. split; [|split].
  - intros i j Hin. specialize (H3 _ Hin). simpl in H3.
    destruct (nth_error A i) as [a|]; [|discriminate]. destruct (nth_error B j) as [b|]; [|discriminate].
    exists a, b. repeat split; assumption.
  - intros i a Hi. assert (Hl : In i (seq 0 (length A))).
    { apply in_seq. split; [lia|]. simpl. apply nth_error_Some. congruence. }
    specialize (H4 _ Hl). rewrite Hi in H4. apply orb_true_iff in H4. destruct H4 as [H4|H4]; [left; apply memb_In; exact H4|right; exact H4].
  - intros j b Hj. assert (Hl : In j (seq 0 (length B))).
    { apply in_seq. split; [lia|]. simpl. apply nth_error_Some. congruence. }
    specialize (H5 _ Hl). rewrite Hj in H5. apply orb_true_iff in H5. destruct H5 as [H5|H5]; [left; apply memb_In; exact H5|right; exact H5].
Qed.

(* ------------------------------------------------------------------ non-vacuity: a concrete metric *)
(* points 0,1,2,4,8,16 on a line *)
Definition ex_pos (i : nat) : Z := nth i [0; 1; 2; 4; 8; 16]%Z 0%Z.
Definition ex_d (i j : nat) : Q := inject_Z (Z.abs (ex_pos i - ex_pos j)).
Definition ex_pi : list nat := [3; 5; 0; 4; 2; 1]%nat.
Example ex_greedy : greedyb ex_d 6 [] ex_pi = true.
Proof. vm_compute. reflexivity. Qed.
Example ex_greedy_from : greedyb ex_d 6 [] (greedy_from ex_d 6 3) = true.
Proof. vm_compute. reflexivity. Qed.
Example ex_order_ok : order_ok ex_d 6 ex_pi None = true.
Proof. vm_compute. reflexivity. Qed.
Example ex_sparse_size :
  length (sparse_complex ex_d (1 # 2) 6 ex_pi None None 2) = 28%nat /\
  length (rips_complex ex_d 6 2) = 41%nat /\
  validb (sparse_complex ex_d (1 # 2) 6 ex_pi None None 2) = true /\
  sub_neverb ex_d (sparse_complex ex_d (1 # 2) 6 ex_pi None None 2) = true.
Proof. vm_compute. repeat split. Qed.
