(* C19 - theorems about the traversal-following model of the expansion (sib_blk / sib_plain, sparse_complex_trie). *)
From Coq Require Import List ZArith QArith Bool Arith Lia Lqa.
Require Import Reduce ReduceExec C19_Model C19_Proofs.
Import ListNotations.
Open Scope Q_scope.

Lemma facets_snoc l x : facets (l ++ [x]) = map (fun b => b ++ [x]) (facets l) ++ [l].
Proof.
  induction l as [|y r IH]; simpl; [reflexivity|].
  rewrite IH. rewrite map_app. rewrite !map_map. simpl. reflexivity.
Qed.
Lemma snoc2 (P : list nat) s x : P ++ [s; x] = (P ++ [s]) ++ [x].
Proof. rewrite <- app_assoc. reflexivity. Qed.
Lemma tails_In {A} (l : list A) x r : In (x, r) (tails l) -> In x l /\ incl r l.
Proof.
  induction l as [|y l IH]; simpl; [tauto|]. intros [H|H].
  - inversion H; subst. split; [left; reflexivity|]. intros z Hz. right. exact Hz.
  - destruct (IH H) as [H1 H2]. split; [right; exact H1|]. intros z Hz. right. apply H2. exact Hz.
Qed.

Section Trie.
Variable d : nat -> nat -> Q.
Hypothesis d_sym : forall u v, d u v == d v u.
Hypothesis d_nonneg : forall u v, 0 <= d u v.
Variable eps : Q.
Hypothesis eps_pos : 0 < eps.

(* ------------------------------------------------------------------ expansion with blockers, following the tree *)
(* every simplex of the tree is a Rips simplex at its value, has dimension >= 1, and is an edge of the graph or has all its
   facets in the tree, none later *)
Definition inv (E K : cplx) : Prop :=
  forall s f, In (s, f) K ->
    in_rips d s f /\ (2 <= length s)%nat /\
    (In (s, f) E \/ forall t, In t (facets s) -> exists g, In (t, g) K /\ g <= f).

Lemma in_rips_from_facets (K : cplx) s f :
  (forall t g, In (t, g) K -> in_rips d t g) -> (3 <= length s)%nat ->
  (forall t, In t (facets s) -> exists g, In (t, g) K /\ g <= f) -> in_rips d s f.
Proof.
  intros G L H u w Hu Hw N. destruct (pair_in_facet s u w L Hu Hw N) as [t [Ht [Hu' Hw']]].
  destruct (H _ Ht) as [g [Hg1 Hg2]]. eapply Qle_trans; [apply (G _ _ Hg1); assumption|exact Hg2].
Qed.

Lemma inv_app E K new : inv E K ->
  (forall s f, In (s, f) new -> (3 <= length s)%nat /\ forall t, In t (facets s) -> exists g, In (t, g) K /\ g <= f) ->
  inv E (K ++ new).
Proof.
  intros HK Hn s f H. apply in_app_iff in H. destruct H as [H|H].
  - destruct (HK _ _ H) as [A1 [A2 A3]]. split; [exact A1|]. split; [exact A2|].
    destruct A3 as [A3|A3]; [left; exact A3|right]. intros t Ht. destruct (A3 _ Ht) as [g [G1 G2]].
    exists g. split; [apply in_app_iff; left; exact G1|exact G2].
  - destruct (Hn _ _ H) as [L F]. split; [|split; [lia|right]].
    + apply (in_rips_from_facets K); [intros t g Hg; exact (proj1 (HK _ _ Hg))|exact L|exact F].
    + intros t Ht. destruct (F _ Ht) as [g [G1 G2]]. exists g. split; [apply in_app_iff; left; exact G1|exact G2].
Qed.

Lemma sib_blk_step_inv E blk rec P S K s : P <> [] ->
  (forall P' S' K', P' <> [] -> inv E K' -> inv E (rec P' S' K')) ->
  inv E K -> inv E (sib_blk_step blk rec P S K s).
Proof.
  intros HP Hrec HK. unfold sib_blk_step.
  destruct (lookup K (P ++ [s])) as [fs|] eqn:El; [|exact HK].
  assert (H1 : inv E (K ++ map (fun p => (P ++ [s; fst p], snd p)) (blk_new blk K P S s fs))).
  { apply inv_app; [exact HK|]. intros s' f' Hin. apply in_map_iff in Hin. destruct Hin as [[nx g] [Heq Hin]].
    simpl in Heq. inversion Heq; subst s' f'. clear Heq.
    unfold blk_new in Hin. apply filter_In in Hin. destruct Hin as [Hin _].
    apply in_flat_map in Hin. destruct Hin as [nx' [_ Hin]].
    destruct (max_facets K (map (fun b => b ++ [nx']) (facets (P ++ [s]))) fs) as [g'|] eqn:Em; [|destruct Hin].
    destruct Hin as [Hin|[]]. inversion Hin; subst nx' g'. clear Hin.
    apply max_facets_spec in Em. destruct Em as [Em1 Em2]. split.
    - rewrite app_length. simpl. destruct P; [congruence|simpl; lia].
    - intros t Ht. rewrite snoc2 in Ht. rewrite facets_snoc in Ht. apply in_app_iff in Ht. destruct Ht as [Ht|[Ht|[]]].
      + destruct (Em2 _ Ht) as [g' [G1 G2]]. exists g'. split; [apply lookup_In; exact G1|exact G2].
      + subst t. exists fs. split; [apply lookup_In; exact El|exact Em1]. }
  cbv zeta. destruct (isnil (blk_new blk K P S s fs)); [exact H1|].
  apply Hrec; [|exact H1]. destruct P; discriminate.
Qed.

Lemma sib_blk_inv E blk : forall fuel P S K, P <> [] -> inv E K -> inv E (sib_blk blk fuel P S K).
Proof.
  induction fuel as [|f IH]; intros P S K HP HK; simpl; [exact HK|].
  generalize (rev S). intro l. revert K HK. induction l as [|s l IHl]; intros K HK; simpl; [exact HK|].
  apply IHl. apply sib_blk_step_inv; [exact HP| |exact HK].
  intros P' S' K' HP' HK'. apply IH; assumption.
Qed.

Lemma expand_trie_blk_gen E blk levels vs l : forall K, inv E K ->
  inv E (fold_left (fun K v =>
                      let S := filter (fun w => match lookup E [v; w] with Some _ => true | None => false end) vs in
                      if isnil S then K else sib_blk blk levels [v] S K) l K).
Proof.
  induction l as [|v l IHl]; intros K HK; simpl; [exact HK|].
  apply IHl.
  destruct (isnil (filter (fun w => match lookup E [v; w] with Some _ => true | None => false end) vs)); [exact HK|].
  apply sib_blk_inv; [discriminate|exact HK].
Qed.
Lemma expand_trie_blk_inv E blk levels verts : inv E E -> inv E (expand_trie_blk blk levels verts E).
Proof. intro H. unfold expand_trie_blk. apply expand_trie_blk_gen. exact H. Qed.

Lemma edges_inv maxi vs : inv (all_edges d eps maxi vs) (all_edges d eps maxi vs).
Proof.
  intros s f H. destruct (edge_in_rips d d_sym eps eps_pos _ _ _ _ H) as [A1 A2].
  split; [exact A1|]. split; [exact A2|left; exact H].
Qed.

(* ------------------------------------------------------------------ plain expansion, following the tree *)
Lemma in_rips_snoc2 P s x a b c v :
  in_rips d (P ++ [s]) a -> in_rips d (P ++ [x]) b -> (s <> x -> d s x <= c) -> a <= v -> b <= v -> c <= v ->
  in_rips d (P ++ [s; x]) v.
Proof.
  intros Ha Hb Hc La Lb Lc u w Hu Hw N.
  assert (Hc' : x <> s -> d x s <= c) by (intro Nx; rewrite d_sym; apply Hc; congruence).
  apply in_app_iff in Hu. apply in_app_iff in Hw. simpl in Hu, Hw.
  assert (A : forall u w, In u (P ++ [s]) -> In w (P ++ [s]) -> u <> w -> d u w <= v)
    by (intros u' w' H1 H2 H3; eapply Qle_trans; [apply Ha; assumption|exact La]).
  assert (B : forall u w, In u (P ++ [x]) -> In w (P ++ [x]) -> u <> w -> d u w <= v)
    by (intros u' w' H1 H2 H3; eapply Qle_trans; [apply Hb; assumption|exact Lb]).
  assert (IP : forall z y, In z P -> In z (P ++ [y])) by (intros; apply in_app_iff; left; assumption).
  assert (IL : forall y, In y (P ++ [y])) by (intros; apply in_app_iff; right; left; reflexivity).
  destruct Hu as [Hu|[Hu|[Hu|[]]]], Hw as [Hw|[Hw|[Hw|[]]]]; subst.
  - apply A; auto.
  - apply A; auto.
  - apply B; auto.
  - apply A; auto.
  - congruence.
  - eapply Qle_trans; [exact (Hc N)|exact Lc].
  - apply B; auto.
  - eapply Qle_trans; [exact (Hc' N)|exact Lc].
  - congruence.
Qed.

Lemma plain_inter_spec E s fs rest x v : In (x, v) (plain_inter E s fs rest) ->
  exists fn fe, In (x, fn) rest /\ lookup E [s; x] = Some fe /\ v = qmax (qmax fn fe) fs.
Proof.
  unfold plain_inter. intro H. apply in_flat_map in H. destruct H as [[x' fn] [H1 H2]]. simpl in H2.
  destruct (lookup E [s; x']) as [fe|] eqn:El; [|destruct H2]. destruct H2 as [H2|[]]. inversion H2; subst.
  exists fn, fe. repeat split; assumption.
Qed.

Lemma sib_plain_good E : (forall s f, In (s, f) E -> in_rips d s f) ->
  forall fuel P S, (forall x fx, In (x, fx) S -> in_rips d (P ++ [x]) fx) ->
  forall s f, In (s, f) (sib_plain E fuel P S) -> in_rips d s f.
Proof.
  intros GE. induction fuel as [|fu IH]; intros P S HS s f H; simpl in H; [destruct H|].
  apply in_flat_map in H. destruct H as [[[s0 fs] rest] [Ht H]]. simpl in H.
  apply tails_In in Ht. destruct Ht as [Hs0 Hrest].
  assert (New : forall x v, In (x, v) (plain_inter E s0 fs rest) -> in_rips d (P ++ [s0; x]) v).
  { intros x v Hx. apply plain_inter_spec in Hx. destruct Hx as [fn [fe [X1 [X2 X3]]]]. subst v.
    apply lookup_In in X2. pose proof (GE _ _ X2) as Ge.
    apply in_rips_snoc2 with (a := fs) (b := fn) (c := fe).
    - apply HS. exact Hs0.
    - apply HS. apply Hrest. exact X1.
    - intro E0. apply Ge; [left; reflexivity|right; left; reflexivity|exact E0].
    - apply qmax_r.
    - eapply Qle_trans; [apply qmax_l|apply qmax_l].
    - eapply Qle_trans; [apply qmax_r|apply qmax_l]. }
  apply in_app_iff in H. destruct H as [H|H].
  - apply in_map_iff in H. destruct H as [[x v] [Heq Hx]]. simpl in Heq. inversion Heq; subst. apply New. exact Hx.
  - destruct (isnil (plain_inter E s0 fs rest)); [destruct H|].
    apply (IH (P ++ [s0]) (plain_inter E s0 fs rest)); [|exact H].
    intros x v Hx. rewrite <- snoc2. apply New. exact Hx.
Qed.

(* ------------------------------------------------------------------ the theorems for the traversal-following model *)
Theorem sparse_trie_in_rips N pi mini maxi dim_max s f :
  In (s, f) (sparse_complex_trie d eps N pi mini maxi dim_max) -> in_rips d s f.
Proof.
  unfold sparse_complex_trie. set (vs := kept d mini pi). set (E := all_edges d eps maxi vs).
  assert (GE : forall s f, In (s, f) E -> in_rips d s f)
    by (intros s' f' H'; exact (proj1 (edge_in_rips d d_sym eps eps_pos _ _ _ _ H'))).
  intro H. apply in_app_iff in H. destruct H as [H|H].
  - apply in_map_iff in H. destruct H as [[v l] [H _]]. inversion H; subst. intros u w [Hu|[]] [Hw|[]] N0. congruence.
  - destruct (qlt eps 1).
    + exact (proj1 (expand_trie_blk_inv E _ _ _ (edges_inv maxi vs) _ _ H)).
    + unfold expand_trie_plain in H. apply in_app_iff in H. destruct H as [H|H]; [exact (GE _ _ H)|].
      apply in_flat_map in H. destruct H as [v [_ H]].
      refine (sib_plain_good E GE _ [v] _ _ s f H).
      intros x fx Hx. apply in_flat_map in Hx. destruct Hx as [w [_ Hx]].
      destruct (lookup E [v; w]) as [g|] eqn:El; [|destruct Hx]. destruct Hx as [Hx|[]]. inversion Hx; subst.
      apply GE. apply lookup_In. exact El.
Qed.

Theorem sparse_trie_valid_blk N pi mini maxi dim_max : eps < 1 ->
  valid (sparse_complex_trie d eps N pi mini maxi dim_max).
Proof.
  intro He. unfold valid, sparse_complex_trie. set (vs := kept d mini pi). set (E := all_edges d eps maxi vs).
  set (V := map (fun p : nat * option Q => ([fst p], 0)) vs).
  assert (Hq : qlt eps 1 = true) by (apply qlt_iff; exact He). rewrite Hq.
  intros s f H. apply in_app_iff in H. destruct H as [H|H].
  - apply in_map_iff in H. destruct H as [[v l] [H _]]. inversion H; subst. split; [discriminate|].
    simpl. intros t [Ht|[]] Hn. congruence.
  - destruct (expand_trie_blk_inv E _ _ _ (edges_inv maxi vs) _ _ H) as [_ [L A]].
    split; [destruct s; [simpl in L; lia|discriminate]|].
    destruct A as [A|A].
    + apply all_edges_spec in A. destruct A as [pi0 [li [pj [lj [Hi [Hj [Hs Hv]]]]]]].
      apply edge_val_ge in Hv; [|exact eps_pos].
      assert (Ha : 0 <= f) by (eapply Qle_trans; [apply d_nonneg|exact Hv]).
      assert (Vi : In ([pi0], 0) V) by (unfold V; apply in_map_iff; exists (pi0, li); split; [reflexivity|exact Hi]).
      assert (Vj : In ([pj], 0) V) by (unfold V; apply in_map_iff; exists (pj, lj); split; [reflexivity|exact Hj]).
      intros t Ht _. exists 0. split; [|exact Ha]. apply in_app_iff. left.
      subst s. unfold sort2 in Ht. destruct (pi0 <? pj)%nat; simpl in Ht; destruct Ht as [Ht|[Ht|[]]]; subst t; assumption.
    + intros t Ht _. destruct (A _ Ht) as [g [G1 G2]]. exists g. split; [apply in_app_iff; right; exact G1|exact G2].
Qed.

End Trie.
