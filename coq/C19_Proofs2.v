(* C19 - theorems about the traversal-following model of the expansion (sib_blk / sib_plain, sparse_complex_trie). *)
From Coq Require Import List ZArith QArith Bool Arith Lia Lqa.
Require Import Reduce ReduceExec C19_Model C19_Proofs.
Import ListNotations.
Open Scope Q_scope.

Lemma facets_snoc l x : facets (l ++ [x]) = map (fun b => b ++ [x]) (facets l) ++ [l].
Proof.
  induction l as [|y r IH]; simpl; [reflexivity|].
  rewrite IH. rewrite map_app. rewrite !map_map. simpl. reflexivity.
Qed.
Lemma snoc2 (P : list nat) s x : P ++ [s; x] = (P ++ [s]) ++ [x].
Proof. rewrite <- app_assoc. reflexivity. Qed.
Lemma tails_In {A} (l : list A) x r : In (x, r) (tails l) -> In x l /\ incl r l.
Proof.
  induction l as [|y l IH]; simpl; [tauto|]. intros [H|H].
  - inversion H; subst. split; [left; reflexivity|]. intros z Hz. right. exact Hz.
  - destruct (IH H) as [H1 H2]. split; [right; exact H1|]. intros z Hz. right. apply H2. exact Hz.
Qed.

Section Trie.
Variable d : nat -> nat -> Q.
Hypothesis d_sym : forall u v, d u v == d v u.
Hypothesis d_nonneg : forall u v, 0 <= d u v.
Variable eps : Q.
Hypothesis eps_pos : 0 < eps.

(* ------------------------------------------------------------------ expansion with blockers, following the tree *)
(* every simplex of the tree is a Rips simplex at its value, has dimension >= 1, and is an edge of the graph or has all its
   facets in the tree, none later *)
Definition inv (E K : cplx) : Prop :=
  forall s f, In (s, f) K ->
    in_rips d s f /\ (2 <= length s)%nat /\
    (In (s, f) E \/ forall t, In t (facets s) -> exists g, In (t, g) K /\ g <= f).

Lemma in_rips_from_facets (K : cplx) s f :
  (forall t g, In (t, g) K -> in_rips d t g) -> (3 <= length s)%nat ->
  (forall t, In t (facets s) -> exists g, In (t, g) K /\ g <= f) -> in_rips d s f.
Proof.
  intros G L H u w Hu Hw N. destruct (pair_in_facet s u w L Hu Hw N) as [t [Ht [Hu' Hw']]].
  destruct (H _ Ht) as [g [Hg1 Hg2]]. eapply Qle_trans; [apply (G _ _ Hg1); assumption|exact Hg2].
Qed.

Lemma inv_app E K new : inv E K ->
  (forall s f, In (s, f) new -> (3 <= length s)%nat /\ forall t, In t (facets s) -> exists g, In (t, g) K /\ g <= f) ->
  inv E (K ++ new).
Proof.
  intros HK Hn s f H. apply in_app_iff in H. destruct H as [H|H].
  - destruct (HK _ _ H) as [A1 [A2 A3]]. split; [exact A1|]. split; [exact A2|].
    destruct A3 as [A3|A3]; [left; exact A3|right]. intros t Ht. destruct (A3 _ Ht) as [g [G1 G2]].
    exists g. split; [apply in_app_iff; left; exact G1|exact G2].
  - destruct (Hn _ _ H) as [L F]. split; [|split; [lia|right]].
    + apply (in_rips_from_facets K); [intros t g Hg; exact (proj1 (HK _ _ Hg))|exact L|exact F].
    + intros t Ht. destruct (F _ Ht) as [g [G1 G2]]. exists g. split; [apply in_app_iff; left; exact G1|exact G2].
Qed.

Lemma sib_blk_step_inv E blk rec P S K s : P <> [] ->
  (forall P' S' K', P' <> [] -> inv E K' -> inv E (rec P' S' K')) ->
  inv E K -> inv E (sib_blk_step blk rec P S K s).
Proof.
  intros HP Hrec HK. unfold sib_blk_step.
  destruct (lookup K (P ++ [s])) as [fs|] eqn:El; [|exact HK].
  assert (H1 : inv E (K ++ map (fun p => (P ++ [s; fst p], snd p)) (blk_new blk K P S s fs))).
  { apply inv_app; [exact HK|]. intros s' f' Hin. apply in_map_iff in Hin. destruct Hin as [[nx g] [Heq Hin]].
    simpl in Heq. inversion Heq; subst s' f'. clear Heq.
    unfold blk_new in Hin. apply filter_In in Hin. destruct Hin as [Hin _].
    apply in_flat_map in Hin. destruct Hin as [nx' [_ Hin]].
    destruct (max_facets K (map (fun b => b ++ [nx']) (facets (P ++ [s]))) fs) as [g'|] eqn:Em; [|destruct Hin].
    destruct Hin as [Hin|[]]. inversion Hin; subst nx' g'. clear Hin.
    apply max_facets_spec in Em. destruct Em as [Em1 Em2]. split.
    - rewrite app_length. simpl. destruct P; [congruence|simpl; lia].
    - intros t Ht. rewrite snoc2 in Ht. rewrite facets_snoc in Ht. apply in_app_iff in Ht. destruct Ht as [Ht|[Ht|[]]].
      + destruct (Em2 _ Ht) as [g' [G1 G2]]. exists g'. split; [apply lookup_In; exact G1|exact G2].
      + subst t. exists fs. split; [apply lookup_In; exact El|exact Em1]. }
  cbv zeta. destruct (isnil (blk_new blk K P S s fs)); [exact H1|].
  apply Hrec; [|exact H1]. destruct P; discriminate.
Qed.

Lemma sib_blk_inv E blk : forall fuel P S K, P <> [] -> inv E K -> inv E (sib_blk blk fuel P S K).
Proof.
  induction fuel as [|f IH]; intros P S K HP HK; simpl; [exact HK|].
  generalize (rev S). intro l. revert K HK. induction l as [|s l IHl]; intros K HK; simpl; [exact HK|].
  apply IHl. apply sib_blk_step_inv; [exact HP| |exact HK].
  intros P' S' K' HP' HK'. apply IH; assumption.
Qed.

Lemma expand_trie_blk_gen E blk levels vs l : forall K, inv E K ->
  inv E (fold_left (fun K v =>
                      let S := filter (fun w => match lookup E [v; w] with Some _ => true | None => false end) vs in
                      if isnil S then K else sib_blk blk levels [v] S K) l K).
Proof.
  induction l as [|v l IHl]; intros K HK; simpl; [exact HK|].
  apply IHl.
  destruct (isnil (filter (fun w => match lookup E [v; w] with Some _ => true | None => false end) vs)); [exact HK|].
  apply sib_blk_inv; [discriminate|exact HK].
Qed.
Lemma expand_trie_blk_inv E blk levels verts : inv E E -> inv E (expand_trie_blk blk levels verts E).
Proof. intro H. unfold expand_trie_blk. apply expand_trie_blk_gen. exact H. Qed.

Lemma edges_inv maxi vs : inv (all_edges d eps maxi vs) (all_edges d eps maxi vs).
Proof.
  intros s f H. destruct (edge_in_rips d d_sym eps eps_pos _ _ _ _ H) as [A1 A2].
  split; [exact A1|]. split; [exact A2|left; exact H].
Qed.

(* ------------------------------------------------------------------ plain expansion, following the tree *)
Lemma in_rips_snoc2 P s x a b c v :
  in_rips d (P ++ [s]) a -> in_rips d (P ++ [x]) b -> (s <> x -> d s x <= c) -> a <= v -> b <= v -> c <= v ->
  in_rips d (P ++ [s; x]) v.
Proof.
  intros Ha Hb Hc La Lb Lc u w Hu Hw N.
  assert (Hc' : x <> s -> d x s <= c) by (intro Nx; rewrite d_sym; apply Hc; congruence).
  apply in_app_iff in Hu. apply in_app_iff in Hw. simpl in Hu, Hw.
  assert (A : forall u w, In u (P ++ [s]) -> In w (P ++ [s]) -> u <> w -> d u w <= v)
    by (intros u' w' H1 H2 H3; eapply Qle_trans; [apply Ha; assumption|exact La]).
  assert (B : forall u w, In u (P ++ [x]) -> In w (P ++ [x]) -> u <> w -> d u w <= v)
    by (intros u' w' H1 H2 H3; eapply Qle_trans; [apply Hb; assumption|exact Lb]).
  assert (IP : forall z y, In z P -> In z (P ++ [y])) by (intros; apply in_app_iff; left; assumption).
  assert (IL : forall y, In y (P ++ [y])) by (intros; apply in_app_iff; right; left; reflexivity).
  destruct Hu as [Hu|[Hu|[Hu|[]]]], Hw as [Hw|[Hw|[Hw|[]]]]; subst.
  - apply A; auto.
  - apply A; auto.
  - apply B; auto.
  - apply A; auto.
  - congruence.
  - eapply Qle_trans; [exact (Hc N)|exact Lc].
  - apply B; auto.
  - eapply Qle_trans; [exact (Hc' N)|exact Lc].
  - congruence.
Qed.

Lemma plain_inter_spec E s fs rest x v : In (x, v) (plain_inter E s fs rest) ->
  exists fn fe, In (x, fn) rest /\ lookup E [s; x] = Some fe /\ v = qmax (qmax fn fe) fs.
Proof.
  unfold plain_inter. intro H. apply in_flat_map in H. destruct H as [[x' fn] [H1 H2]]. simpl in H2.
  destruct (lookup E [s; x']) as [fe|] eqn:El; [|destruct H2]. destruct H2 as [H2|[]]. inversion H2; subst.
  exists fn, fe. repeat split; assumption.
Qed.

Lemma sib_plain_good E : (forall s f, In (s, f) E -> in_rips d s f) ->
  forall fuel P S, (forall x fx, In (x, fx) S -> in_rips d (P ++ [x]) fx) ->
  forall s f, In (s, f) (sib_plain E fuel P S) -> in_rips d s f.
Proof.
  intros GE. induction fuel as [|fu IH]; intros P S HS s f H; simpl in H; [destruct H|].
  apply in_flat_map in H. destruct H as [[[s0 fs] rest] [Ht H]]. simpl in H.
  apply tails_In in Ht. destruct Ht as [Hs0 Hrest].
  assert (New : forall x v, In (x, v) (plain_inter E s0 fs rest) -> in_rips d (P ++ [s0; x]) v).
  { intros x v Hx. apply plain_inter_spec in Hx. destruct Hx as [fn [fe [X1 [X2 X3]]]]. subst v.
    apply lookup_In in X2. pose proof (GE _ _ X2) as Ge.
    apply in_rips_snoc2 with (a := fs) (b := fn) (c := fe).
    - apply HS. exact Hs0.
    - apply HS. apply Hrest. exact X1.
    - intro E0. apply Ge; [left; reflexivity|right; left; reflexivity|exact E0].
    - apply qmax_r.
    - eapply Qle_trans; [apply qmax_l|apply qmax_l].
    - eapply Qle_trans; [apply qmax_r|apply qmax_l]. }
  apply in_app_iff in H. destruct H as [H|H].
  - apply in_map_iff in H. destruct H as [[x v] [Heq Hx]]. simpl in Heq. inversion Heq; subst. apply New. exact Hx.
  - destruct (isnil (plain_inter E s0 fs rest)); [destruct H|].
    apply (IH (P ++ [s0]) (plain_inter E s0 fs rest)); [|exact H].
    intros x v Hx. rewrite <- snoc2. apply New. exact Hx.
Qed.

(* ------------------------------------------------------------------ the theorems for the traversal-following model *)
Theorem sparse_trie_in_rips N pi mini maxi dim_max s f :
  In (s, f) (sparse_complex_trie d eps N pi mini maxi dim_max) -> in_rips d s f.
Proof.
  unfold sparse_complex_trie. set (vs := kept d mini pi). set (E := all_edges d eps maxi vs).
  assert (GE : forall s f, In (s, f) E -> in_rips d s f)
    by (intros s' f' H'; exact (proj1 (edge_in_rips d d_sym eps eps_pos _ _ _ _ H'))).
  intro H. apply in_app_iff in H. destruct H as [H|H].
  - apply in_map_iff in H. destruct H as [[v l] [H _]]. inversion H; subst. intros u w [Hu|[]] [Hw|[]] N0. congruence.
  - destruct (qlt eps 1).
    + exact (proj1 (expand_trie_blk_inv E _ _ _ (edges_inv maxi vs) _ _ H)).
    + unfold expand_trie_plain in H. apply in_app_iff in H. destruct H as [H|H]; [exact (GE _ _ H)|].
      apply in_flat_map in H. destruct H as [v [_ H]].
      refine (sib_plain_good E GE _ [v] _ _ s f H).
      intros x fx Hx. apply in_flat_map in Hx. destruct Hx as [w [_ Hx]].
      destruct (lookup E [v; w]) as [g|] eqn:El; [|destruct Hx]. destruct Hx as [Hx|[]]. inversion Hx; subst.
      apply GE. apply lookup_In. exact El.
Qed.

Theorem sparse_trie_valid_blk N pi mini maxi dim_max : eps < 1 ->
  valid (sparse_complex_trie d eps N pi mini maxi dim_max).
Proof.
  intro He. unfold valid, sparse_complex_trie. set (vs := kept d mini pi). set (E := all_edges d eps maxi vs).
  set (V := map (fun p : nat * option Q => ([fst p], 0)) vs).
  assert (Hq : qlt eps 1 = true) by (apply qlt_iff; exact He). rewrite Hq.
  intros s f H. apply in_app_iff in H. destruct H as [H|H].
  - apply in_map_iff in H. destruct H as [[v l] [H _]]. inversion H; subst. split; [discriminate|].
    simpl. intros t [Ht|[]] Hn. congruence.
  - destruct (expand_trie_blk_inv E _ _ _ (edges_inv maxi vs) _ _ H) as [_ [L A]].
    split; [destruct s; [simpl in L; lia|discriminate]|].
    destruct A as [A|A].
    + apply all_edges_spec in A. destruct A as [pi0 [li [pj [lj [Hi [Hj [Hs Hv]]]]]]].
      apply edge_val_ge in Hv; [|exact eps_pos].
      assert (Ha : 0 <= f) by (eapply Qle_trans; [apply d_nonneg|exact Hv]).
      assert (Vi : In ([pi0], 0) V) by (unfold V; apply in_map_iff; exists (pi0, li); split; [reflexivity|exact Hi]).
      assert (Vj : In ([pj], 0) V) by (unfold V; apply in_map_iff; exists (pj, lj); split; [reflexivity|exact Hj]).
      intros t Ht _. exists 0. split; [|exact Ha]. apply in_app_iff. left.
      subst s. unfold sort2 in Ht. destruct (pi0 <? pj)%nat; simpl in Ht; destruct Ht as [Ht|[Ht|[]]]; subst t; assumption.
    + intros t Ht _. destruct (A _ Ht) as [g [G1 G2]]. exists g. split; [apply in_app_iff; right; exact G1|exact G2].
Qed.

End Trie.

(* ------------------------------------------------------------------ completeness of the plain expansion following the tree:
   every increasing clique is produced, with a value that is attained by one of its edges and bounds all of them; hence the
   output of siblings_expansion is closed under faces with monotone values (epsilon >= 1) *)
From Coq Require Import Sorting.Sorted.

Lemma sorted_snoc_lt (l : list nat) x : StronglySorted lt (l ++ [x]) -> forall a, In a l -> (a < x)%nat.
Proof.
  induction l as [|y l IH]; simpl; intros H a Ha; [destruct Ha|].
  apply StronglySorted_inv in H. destruct H as [H1 H2]. destruct Ha as [Ha|Ha].
  - subst. rewrite Forall_forall in H2. apply H2. apply in_app_iff. right. left. reflexivity.
  - apply IH; assumption.
Qed.
Lemma sorted_snoc (l : list nat) x : StronglySorted lt l -> (forall a, In a l -> (a < x)%nat) -> StronglySorted lt (l ++ [x]).
Proof.
  induction l as [|y l IH]; simpl; intros H Hx; [constructor; constructor|].
  apply StronglySorted_inv in H. destruct H as [H1 H2]. constructor.
  - apply IH; [exact H1|intros a Ha; apply Hx; right; exact Ha].
  - rewrite Forall_forall in *. intros z Hz. apply in_app_iff in Hz. destruct Hz as [Hz|[Hz|[]]]; [apply H2; exact Hz|subst; apply Hx; left; reflexivity].
Qed.
Lemma facets_sub s : forall t, In t (facets s) -> forall a, In a t -> In a s.
Proof.
  induction s as [|x r IH]; simpl; intros t Ht a Ha; [destruct Ht|]. destruct Ht as [Ht|Ht].
  - subst. right. exact Ha.
  - apply in_map_iff in Ht. destruct Ht as [t' [E1 Ht']]. subst t. destruct Ha as [Ha|Ha]; [left; exact Ha|right; exact (IH _ Ht' _ Ha)].
Qed.
Lemma facets_sorted s : StronglySorted lt s -> forall t, In t (facets s) -> StronglySorted lt t.
Proof.
  induction s as [|x r IH]; simpl; intros H t Ht; [destruct Ht|].
  apply StronglySorted_inv in H. destruct H as [H1 H2]. destruct Ht as [Ht|Ht]; [subst; exact H1|].
  apply in_map_iff in Ht. destruct Ht as [t' [E1 Ht']]. subst t. constructor; [exact (IH H1 _ Ht')|].
  rewrite Forall_forall in *. intros z Hz. apply H2. exact (facets_sub _ _ Ht' _ Hz).
Qed.
Lemma facets_length s : forall t, In t (facets s) -> S (length t) = length s.
Proof.
  induction s as [|x r IH]; simpl; intros t Ht; [destruct Ht|]. destruct Ht as [Ht|Ht]; [subst; reflexivity|].
  apply in_map_iff in Ht. destruct Ht as [t' [E1 Ht']]. subst t. simpl. f_equal. exact (IH _ Ht').
Qed.
Lemma ins_nat_In x l a : In a (ins_nat x l) <-> a = x \/ In a l.
Proof.
  induction l as [|y r IH]; simpl; [intuition|]. destruct (x <=? y)%nat; simpl; [intuition|]. rewrite IH. intuition.
Qed.
Lemma sort_nat_In l a : In a (sort_nat l) <-> In a l.
Proof. induction l as [|y r IH]; simpl; [tauto|]. rewrite ins_nat_In, IH. intuition. Qed.
Lemma ins_nat_sorted x l : StronglySorted lt l -> ~ In x l -> StronglySorted lt (ins_nat x l).
Proof.
  induction l as [|y r IH]; simpl; intros H Hn; [constructor; constructor|].
  apply StronglySorted_inv in H. destruct H as [H1 H2]. destruct (x <=? y)%nat eqn:E.
  - apply Nat.leb_le in E. assert (x < y)%nat by (assert (x <> y) by (intro; subst; apply Hn; left; reflexivity); lia).
    constructor; [constructor; assumption|]. constructor; [assumption|]. rewrite Forall_forall in *. intros z Hz. specialize (H2 _ Hz). lia.
  - apply Nat.leb_gt in E. constructor; [apply IH; [exact H1|intro Hx; apply Hn; right; exact Hx]|].
    rewrite Forall_forall in *. intros z Hz. apply ins_nat_In in Hz. destruct Hz as [Hz|Hz]; [subst; exact E|apply H2; exact Hz].
Qed.
Lemma sort_nat_sorted l : NoDup l -> StronglySorted lt (sort_nat l).
Proof.
  induction l as [|y r IH]; simpl; intro H; [constructor|]. apply NoDup_cons_iff in H. destruct H as [H1 H2].
  apply ins_nat_sorted; [apply IH; exact H2|]. intro Hx. apply H1. apply (proj1 (sort_nat_In r y)). exact Hx.
Qed.

Section Plain.
Variable E : cplx.
Hypothesis E_keys : forall t g, In (t, g) E -> exists a b, t = [a; b] /\ (a < b)%nat.

Definition edge (a b : nat) (g : Q) : Prop := lookup E [a; b] = Some g.
Lemma edge_lt a b g : edge a b g -> (a < b)%nat.
Proof. intro H. apply lookup_In in H. destruct (E_keys _ _ H) as [a' [b' [H1 H2]]]. inversion H1; subst. exact H2. Qed.
Definition ub (s : list nat) (f : Q) : Prop := forall a b g, In a s -> In b s -> edge a b g -> g <= f.
Definition att (s : list nat) (f : Q) : Prop := exists a b, In a s /\ In b s /\ edge a b f.
Definition clique (s : list nat) : Prop := forall a b, In a s -> In b s -> (a < b)%nat -> exists g, edge a b g.
Definition ltS (p q : nat * Q) : Prop := (fst p < fst q)%nat.
Variable vs : list nat.
Definition okx (s : list nat) (f : Q) : Prop :=
  ub s f /\ att s f /\ StronglySorted lt s /\ clique s /\ (forall a, In a s -> In a vs).
Definition Sok (P : list nat) (S : list (nat * Q)) : Prop :=
  StronglySorted ltS S /\ forall y fy, In (y, fy) S -> okx (P ++ [y]) fy.

Lemma In_snoc2 (P : list nat) s x a : In a (P ++ [s; x]) <-> In a (P ++ [s]) \/ a = x.
Proof. rewrite !in_app_iff. simpl. intuition. Qed.
Lemma In_snoc2' (P : list nat) s x a : In a (P ++ [s; x]) <-> In a (P ++ [x]) \/ a = s.
Proof. rewrite !in_app_iff. simpl. intuition. Qed.
Lemma In_snoc1 (P : list nat) s a : In a (P ++ [s]) <-> In a P \/ a = s.
Proof. rewrite in_app_iff. simpl. intuition. Qed.

Lemma tails_sorted (S : list (nat * Q)) : StronglySorted ltS S -> forall p r, In (p, r) (tails S) ->
  StronglySorted ltS r /\ forall q, In q r -> ltS p q.
Proof.
  induction S as [|p0 S IH]; simpl; intros H p r Hin; [destruct Hin|].
  apply StronglySorted_inv in H. destruct H as [H1 H2]. destruct Hin as [Hin|Hin].
  - inversion Hin; subst. split; [exact H1|]. rewrite Forall_forall in H2. exact H2.
  - exact (IH H1 _ _ Hin).
Qed.
Lemma tails_complete (S : list (nat * Q)) : StronglySorted ltS S -> forall p, In p S ->
  exists r, In (p, r) (tails S) /\ forall q, In q S -> ltS p q -> In q r.
Proof.
  induction S as [|p0 S IH]; simpl; intros H p Hp; [destruct Hp|].
  apply StronglySorted_inv in H. destruct H as [H1 H2]. rewrite Forall_forall in H2. destruct Hp as [Hp|Hp].
  - subst p0. exists S. split; [left; reflexivity|]. intros q [Hq|Hq] L; [subst; unfold ltS in L; lia|exact Hq].
  - destruct (IH H1 _ Hp) as [r [R1 R2]]. exists r. split; [right; exact R1|].
    intros q [Hq|Hq] L; [|exact (R2 _ Hq L)]. subst q. specialize (H2 _ Hp). unfold ltS in *. lia.
Qed.
Lemma plain_inter_sorted s fs rest : StronglySorted ltS rest -> StronglySorted ltS (plain_inter E s fs rest).
Proof.
  induction rest as [|p r IH]; simpl; intro H; [constructor|].
  apply StronglySorted_inv in H. destruct H as [H1 H2]. rewrite Forall_forall in H2.
  fold (plain_inter E s fs r). destruct (lookup E [s; fst p]) as [fe0|]; simpl; [|exact (IH H1)].
  constructor; [exact (IH H1)|]. rewrite Forall_forall. intros q0 Hq. destruct q0 as [x v].
  apply plain_inter_spec in Hq. destruct Hq as [fn [fe [X1 _]]]. specialize (H2 _ X1). exact H2.
Qed.
Lemma plain_inter_complete s fs rest x fx fe : In (x, fx) rest -> edge s x fe ->
  In (x, qmax (qmax fx fe) fs) (plain_inter E s fs rest).
Proof.
  intros H1 H2. unfold plain_inter. apply in_flat_map. exists (x, fx). split; [exact H1|]. simpl.
  unfold edge in H2. rewrite H2. left. reflexivity.
Qed.

(* a new node P ++ [s; x] made of the siblings s < x of P and the edge [s; x] *)
Lemma new_okx P s fs x fn fe : okx (P ++ [s]) fs -> okx (P ++ [x]) fn -> (s < x)%nat -> edge s x fe ->
  okx (P ++ [s; x]) (qmax (qmax fn fe) fs).
Proof.
  intros [U1 [A1 [S1 [C1 V1]]]] [U2 [A2 [S2 [C2 V2]]]] L He.
  set (v := qmax (qmax fn fe) fs).
  assert (Ls : fs <= v) by apply qmax_r.
  assert (Ln : fn <= v) by (eapply Qle_trans; [apply qmax_l|apply qmax_l]).
  assert (Le : fe <= v) by (eapply Qle_trans; [apply qmax_r|apply qmax_l]).
  split; [|split; [|split; [|split]]].
  - intros a b g Ha Hb Hg. apply In_snoc2 in Ha. apply In_snoc2 in Hb. destruct Ha as [Ha|Ha], Hb as [Hb|Hb].
    + eapply Qle_trans; [exact (U1 _ _ _ Ha Hb Hg)|exact Ls].
    + subst b. apply In_snoc1 in Ha. destruct Ha as [Ha|Ha].
      * eapply Qle_trans; [refine (U2 _ _ _ _ _ Hg)|exact Ln]; apply In_snoc1; [left; exact Ha|right; reflexivity].
      * subst a. unfold edge in *. rewrite He in Hg. inversion Hg; subst. exact Le.
    + subst a. apply In_snoc1 in Hb. destruct Hb as [Hb|Hb].
      * eapply Qle_trans; [refine (U2 _ _ _ _ _ Hg)|exact Ln]; apply In_snoc1; [right; reflexivity|left; exact Hb].
      * subst b. apply edge_lt in Hg. lia.
    + subst. apply edge_lt in Hg. lia.
  - unfold v, qmax. destruct (Qle_bool fn fe) eqn:E1.
    + destruct (Qle_bool fe fs) eqn:E2.
      * destruct A1 as [a [b [Ha [Hb Hg]]]]. exists a, b. split; [apply In_snoc2; left; exact Ha|]. split; [apply In_snoc2; left; exact Hb|exact Hg].
      * exists s, x. split; [apply In_snoc2; left; apply In_snoc1; right; reflexivity|]. split; [apply In_snoc2; right; reflexivity|exact He].
    + destruct (Qle_bool fn fs) eqn:E2.
      * destruct A1 as [a [b [Ha [Hb Hg]]]]. exists a, b. split; [apply In_snoc2; left; exact Ha|]. split; [apply In_snoc2; left; exact Hb|exact Hg].
      * destruct A2 as [a [b [Ha [Hb Hg]]]]. exists a, b. split; [apply In_snoc2'; left; exact Ha|]. split; [apply In_snoc2'; left; exact Hb|exact Hg].
  - rewrite snoc2. apply sorted_snoc; [exact S1|]. intros a Ha. apply In_snoc1 in Ha. destruct Ha as [Ha|Ha]; [exact (sorted_snoc_lt _ _ S2 _ Ha)|subst; exact L].
  - intros a b Ha Hb Lab. apply In_snoc2 in Ha. apply In_snoc2 in Hb. destruct Ha as [Ha|Ha], Hb as [Hb|Hb].
    + exact (C1 _ _ Ha Hb Lab).
    + subst b. apply In_snoc1 in Ha. destruct Ha as [Ha|Ha].
      * apply C2; [apply In_snoc1; left; exact Ha|apply In_snoc1; right; reflexivity|exact Lab].
      * subst a. exists fe. exact He.
    + subst a. apply In_snoc1 in Hb. destruct Hb as [Hb|Hb].
      * apply C2; [apply In_snoc1; right; reflexivity|apply In_snoc1; left; exact Hb|exact Lab].
      * subst b. lia.
    + subst. lia.
  - intros a Ha. apply In_snoc2 in Ha. destruct Ha as [Ha|Ha]; [exact (V1 _ Ha)|subst; apply V2; apply In_snoc1; right; reflexivity].
Qed.

Lemma inter_Sok P S s fs rest : Sok P S -> In ((s, fs), rest) (tails S) -> Sok (P ++ [s]) (plain_inter E s fs rest).
Proof.
  intros [H1 H2] Ht. destruct (tails_sorted S H1 _ _ Ht) as [T1 T2]. destruct (tails_In _ _ _ Ht) as [T3 T4].
  split; [apply plain_inter_sorted; exact T1|].
  intros x v Hx. apply plain_inter_spec in Hx. destruct Hx as [fn [fe [X1 [X2 X3]]]]. subst v.
  rewrite <- snoc2. apply new_okx; [apply H2; exact T3|apply H2; apply T4; exact X1|exact (T2 _ X1)|exact X2].
Qed.

Lemma sib_plain_sound : forall fuel P S, P <> [] -> Sok P S -> forall s f, In (s, f) (sib_plain E fuel P S) ->
  okx s f /\ (3 <= length s <= length P + 1 + fuel)%nat.
Proof.
  induction fuel as [|fu IH]; intros P S HP HS s f H; simpl in H; [destruct H|].
  apply in_flat_map in H. destruct H as [[[s0 fs] rest] [Ht H]]. simpl in H.
  pose proof (inter_Sok P S s0 fs rest HS Ht) as HI.
  apply in_app_iff in H. destruct H as [H|H].
  - apply in_map_iff in H. destruct H as [[x v] [Heq Hx]]. simpl in Heq. inversion Heq; subst.
    split; [rewrite snoc2; exact (proj2 HI _ _ Hx)|]. rewrite app_length. simpl. destruct P; [congruence|simpl; lia].
  - destruct (isnil (plain_inter E s0 fs rest)); [destruct H|].
    destruct (IH (P ++ [s0]) _ (fun Z => match app_eq_nil _ _ Z with conj _ Z2 => ltac:(discriminate) end) HI _ _ H) as [A B].
    split; [exact A|]. rewrite app_length in B. simpl in B. lia.
Qed.

Lemma sib_plain_complete : forall fuel P S, StronglySorted ltS S ->
  forall s x rho, StronglySorted lt (s :: x :: rho) ->
  (forall y, In y (s :: x :: rho) -> exists fy, In (y, fy) S) ->
  clique (s :: x :: rho) -> (length (x :: rho) <= fuel)%nat ->
  exists f, In (P ++ s :: x :: rho, f) (sib_plain E fuel P S).
Proof.
  induction fuel as [|fu IH]; intros P S HS s x rho Hsort Hin Hc Hl; [simpl in Hl; lia|].
  destruct (Hin s (or_introl eq_refl)) as [fs Hs].
  destruct (tails_complete S HS _ Hs) as [rest [T1 T2]].
  pose proof (StronglySorted_inv Hsort) as [Hsort' Hall]. rewrite Forall_forall in Hall.
  assert (Hrest : forall y, In y (x :: rho) -> exists fy fe, In (y, fy) rest /\ edge s y fe).
  { intros y Hy. destruct (Hin y (or_intror Hy)) as [fy Hy']. specialize (Hall _ Hy).
    destruct (Hc s y (or_introl eq_refl) (or_intror Hy) Hall) as [fe He].
    exists fy, fe. split; [apply T2; [exact Hy'|exact Hall]|exact He]. }
  assert (Hinter : forall y, In y (x :: rho) -> exists v, In (y, v) (plain_inter E s fs rest)).
  { intros y Hy. destruct (Hrest y Hy) as [fy [fe [R1 R2]]]. eexists. exact (plain_inter_complete s fs rest y fy fe R1 R2). }
  simpl. destruct (Hinter x (or_introl eq_refl)) as [vx Hvx].
  destruct rho as [|x' rho'].
  - exists vx. apply in_flat_map. exists ((s, fs), rest). split; [exact T1|]. simpl. apply in_app_iff. left.
    apply in_map_iff. exists (x, vx). split; [reflexivity|exact Hvx].
  - assert (HS' : StronglySorted ltS (plain_inter E s fs rest)).
    { apply plain_inter_sorted. exact (proj1 (tails_sorted S HS _ _ T1)). }
    destruct (IH (P ++ [s]) (plain_inter E s fs rest) HS' x x' rho' Hsort') as [f Hf].
    + exact Hinter.
    + intros a b Ha Hb. apply Hc; right; assumption.
    + simpl in Hl. simpl. lia.
    + exists f. apply in_flat_map. exists ((s, fs), rest). split; [exact T1|]. simpl. apply in_app_iff. right.
      destruct (plain_inter E s fs rest) eqn:Ei; [destruct Hvx|]. simpl.
      rewrite <- app_assoc in Hf. exact Hf.
Qed.

(* the children of a root v in the graph *)
Definition root_children (v : nat) : list (nat * Q) :=
  flat_map (fun w => match lookup E [v; w] with Some g => [(w, g)] | None => [] end) vs.
Lemma root_children_spec v w g : In (w, g) (root_children v) <-> In w vs /\ edge v w g.
Proof.
  unfold root_children. rewrite in_flat_map. split.
  - intros [w' [H1 H2]]. destruct (lookup E [v; w']) as [g'|] eqn:El; [|destruct H2]. destruct H2 as [H2|[]]. inversion H2; subst. split; assumption.
  - intros [H1 H2]. exists w. split; [exact H1|]. unfold edge in H2. rewrite H2. left. reflexivity.
Qed.
Lemma flat_map_sorted (f : nat -> list (nat * Q)) l :
  (forall w q, In q (f w) -> fst q = w) -> (forall w, length (f w) <= 1)%nat ->
  StronglySorted lt l -> StronglySorted ltS (flat_map f l).
Proof.
  intros F1 F2. induction l as [|w r IH]; simpl; intro H; [constructor|].
  apply StronglySorted_inv in H. destruct H as [H1 H2]. rewrite Forall_forall in H2.
  specialize (F2 w). pose proof (F1 w) as F1w. destruct (f w) as [|q [|q' t]]; simpl in *; [exact (IH H1)| |lia].
  constructor; [exact (IH H1)|]. rewrite Forall_forall. intros p Hp. apply in_flat_map in Hp. destruct Hp as [w' [W1 W2]].
  unfold ltS. rewrite (F1w q (or_introl eq_refl)). rewrite (F1 _ _ W2). exact (H2 _ W1).
Qed.
Hypothesis vs_sorted : StronglySorted lt vs.
Lemma root_children_Sok v : In v vs -> Sok [v] (root_children v).
Proof.
  intro Hv. split.
  - unfold root_children. apply flat_map_sorted; [| |exact vs_sorted].
    + intros w q Hq. destruct (lookup E [v; w]); [|destruct Hq]. destruct Hq as [Hq|[]]. subst. reflexivity.
    + intro w. destruct (lookup E [v; w]); simpl; lia.
  - intros w g Hw. apply root_children_spec in Hw. destruct Hw as [W1 W2]. pose proof (edge_lt _ _ _ W2) as L. simpl.
    split; [|split; [|split; [|split]]].
    + intros a b g' [Ha|[Ha|[]]] [Hb|[Hb|[]]] Hg; subst; try (apply edge_lt in Hg; lia).
      unfold edge in *. rewrite W2 in Hg. inversion Hg; subst. apply Qle_refl.
    + exists v, w. split; [left; reflexivity|]. split; [right; left; reflexivity|exact W2].
    + constructor; [constructor; [constructor|constructor]|]. constructor; [exact L|constructor].
    + intros a b [Ha|[Ha|[]]] [Hb|[Hb|[]]] Lab; subst; try lia. exists g. exact W2.
    + intros a [Ha|[Ha|[]]]; subst; assumption.
Qed.

Definition plain_out (levels : nat) : cplx := E ++ flat_map (fun v => sib_plain E levels [v] (root_children v)) vs.

Theorem plain_closed levels s f : In (s, f) (flat_map (fun v => sib_plain E levels [v] (root_children v)) vs) ->
  s <> [] /\ forall t, In t (facets s) -> exists g, In (t, g) (plain_out levels) /\ g <= f.
Proof.
  intro H. apply in_flat_map in H. destruct H as [v [Hv H]].
  destruct (sib_plain_sound levels [v] _ (fun Z => ltac:(discriminate)) (root_children_Sok v Hv) _ _ H) as [[U [A [So [C V]]]] L].
  simpl in L. split; [destruct s; [simpl in L; lia|discriminate]|].
  intros t Ht. pose proof (facets_sub _ _ Ht) as Tsub. pose proof (facets_sorted _ So _ Ht) as Tso. pose proof (facets_length _ _ Ht) as Tl.
  destruct t as [|a [|b [|c rho]]]; simpl in Tl; try lia.
  - (* an edge *)
    pose proof (StronglySorted_inv Tso) as [_ Fa]. rewrite Forall_forall in Fa. specialize (Fa b (or_introl eq_refl)).
    destruct (C a b (Tsub _ (or_introl eq_refl)) (Tsub _ (or_intror (or_introl eq_refl))) Fa) as [g Hg].
    exists g. split; [apply in_app_iff; left; apply lookup_In; exact Hg|].
    exact (U a b g (Tsub _ (or_introl eq_refl)) (Tsub _ (or_intror (or_introl eq_refl))) Hg).
  - (* a simplex of dimension >= 2: it is produced from its first vertex *)
    pose proof (StronglySorted_inv Tso) as [Tso' Fa]. rewrite Forall_forall in Fa.
    assert (Ha : In a vs) by (apply V; apply Tsub; left; reflexivity).
    destruct (sib_plain_complete levels [a] (root_children a) (proj1 (root_children_Sok a Ha)) b c rho Tso') as [f' Hf'].
    + intros y Hy. destruct (C a y (Tsub _ (or_introl eq_refl)) (Tsub _ (or_intror Hy)) (Fa _ Hy)) as [g Hg].
      exists g. apply root_children_spec. split; [apply V; apply Tsub; right; exact Hy|exact Hg].
    + intros x y Hx Hy Lxy. apply C; [apply Tsub; right; exact Hx|apply Tsub; right; exact Hy|exact Lxy].
    + simpl. simpl in Tl. lia.
    + exists f'. split.
      * apply in_app_iff. right. apply in_flat_map. exists a. split; [exact Ha|exact Hf'].
      * destruct (sib_plain_sound levels [a] _ (fun Z => ltac:(discriminate)) (root_children_Sok a Ha) _ _ Hf') as [[_ [[x [y [Hx [Hy Hg]]]] _]] _].
        exact (U x y f' (Tsub _ Hx) (Tsub _ Hy) Hg).
Qed.

End Plain.

Section Final.
Variable d : nat -> nat -> Q.
Hypothesis d_nonneg : forall u v, 0 <= d u v.
Variable eps : Q.
Hypothesis eps_pos : 0 < eps.

Lemma all_edges_keys maxi vs : NoDup (map fst vs) ->
  forall t g, In (t, g) (all_edges d eps maxi vs) -> exists a b, t = [a; b] /\ (a < b)%nat.
Proof.
  intros ND t g H. apply (all_edges_neq d eps maxi vs t g ND) in H. destruct H as [a [b [_ [_ [Hn Hs]]]]].
  subst t. unfold sort2. destruct (a <? b)%nat eqn:E0.
  - exists a, b. split; [reflexivity|apply Nat.ltb_lt; exact E0].
  - exists b, a. split; [reflexivity|]. apply Nat.ltb_ge in E0. lia.
Qed.

(* epsilon >= 1: the plain expansion, following the tree, gives a filtered simplicial complex *)
Theorem sparse_trie_valid_plain N pi mini maxi dim_max : NoDup pi -> 1 <= eps ->
  valid (sparse_complex_trie d eps N pi mini maxi dim_max).
Proof.
  intros ND He. unfold valid, sparse_complex_trie.
  set (vs := kept d mini pi). set (E := all_edges d eps maxi vs).
  set (V := map (fun p : nat * option Q => ([fst p], 0)) vs).
  assert (Hq : qlt eps 1 = false).
  { destruct (qlt eps 1) eqn:E0; [|reflexivity]. apply qlt_iff in E0. exfalso. exact (Qlt_not_le _ _ E0 He). }
  rewrite Hq. cbv iota.
  assert (NDv : NoDup (map fst vs)) by (apply kept_NoDup; exact ND).
  pose proof (all_edges_keys maxi vs NDv) as EK. fold E in EK.
  pose proof (sort_nat_sorted _ NDv) as SS.
  intros s f H. apply in_app_iff in H. destruct H as [H|H].
  - apply in_map_iff in H. destruct H as [[v l] [H _]]. inversion H; subst. split; [discriminate|].
    simpl. intros t [Ht|[]] Hn. congruence.
  - unfold expand_trie_plain in H. apply in_app_iff in H. destruct H as [H|H].
    + apply all_edges_spec in H. destruct H as [pi0 [li [pj [lj [Hi [Hj [Hs Hv]]]]]]].
      apply edge_val_ge in Hv; [|exact eps_pos].
      assert (Ha : 0 <= f) by (eapply Qle_trans; [apply d_nonneg|exact Hv]).
      assert (Vi : In ([pi0], 0) V) by (unfold V; apply in_map_iff; exists (pi0, li); split; [reflexivity|exact Hi]).
      assert (Vj : In ([pj], 0) V) by (unfold V; apply in_map_iff; exists (pj, lj); split; [reflexivity|exact Hj]).
      split; [subst s; unfold sort2; destruct (pi0 <? pj)%nat; discriminate|].
      intros t Ht _. exists 0. split; [|exact Ha]. apply in_app_iff. left.
      subst s. unfold sort2 in Ht. destruct (pi0 <? pj)%nat; simpl in Ht; destruct Ht as [Ht|[Ht|[]]]; subst t; assumption.
    + destruct (plain_closed E EK (sort_nat (map fst vs)) SS _ s f H) as [A B]. split; [exact A|].
      intros t Ht _. destruct (B _ Ht) as [g [G1 G2]]. exists g. split; [|exact G2]. apply in_app_iff. right. exact G1.
Qed.

End Final.
