(* C20 — the affine map of a triangulation (cartesian_coordinates: x |-> M (x / scale) + off) carries the
   convex combination of the lattice vertices of a simplex to the same convex combination of their
   cartesian coordinates.
   (1) affine_barycentric        : for any weights / vertices that give the point coordinatewise;
   (2) locate_affine_barycentric : for the simplex and weights returned by locate_z / locate_weights.
   scale may be any rational (also 0: Coq's x / 0 == 0, both sides use the same division).
   Only the Coq standard library is used; every proof is closed. *)
From Coq Require Import ZArith QArith Qfield List Bool Arith Lia.
Import ListNotations.
Require Import C20_Model C20_Locate.
Local Open Scope Q_scope.

(* the affine map on rational lattice coordinates *)
Definition cart_q (M : list (list Q)) (off : list Q) (scale : Q) (x : list Q) : list Q :=
  qadd (map (fun r => qdot r (map (fun xi => xi / scale) x)) M) off.
(* sum_j (w_j / D) * (p_j)_r *)
Definition qcomb (ws : list Z) (D : Z) (ps : list (list Q)) (r : nat) : Q :=
  fold_right Qplus 0 (map (fun p => (inject_Z (fst p) / inject_Z D) * nth r (snd p) 0) (combine ws ps)).

Lemma cart_is_cart_q : forall M off scale v, cart M off scale v = cart_q M off scale (map inject_Z v).
Proof.
  intros M off scale v. unfold cart, cart_q. rewrite map_map. reflexivity.
Qed.

(* ------------------------------------------------------------------ one row *)
Definition qsum (l : list Q) : Q := fold_right Qplus 0 l.

(* sum_j (w_j / D) * (row . (v_j / scale)) *)
Definition rowsum (D : Z) (scale : Q) (row : list Q) (ws : list Z) (vs : list vertex) : Q :=
  qsum (map (fun p => (inject_Z (fst p) / inject_Z D) * qdot row (map (fun z => inject_Z z / scale) (snd p)))
            (combine ws vs)).
(* sum_j (w_j / D) * (hd v_j / scale) *)
Definition headsum (D : Z) (scale : Q) (ws : list Z) (vs : list vertex) : Q :=
  qsum (map (fun p => (inject_Z (fst p) / inject_Z D) * (inject_Z (hd 0%Z (snd p)) / scale)) (combine ws vs)).

Lemma qdot_nil_r : forall row, qdot row [] = 0.
Proof. destruct row; reflexivity. Qed.

Lemma rowsum_nil_row : forall D scale ws vs, rowsum D scale [] ws vs == 0.
Proof.
  intros D scale ws vs. unfold rowsum. generalize (combine ws vs) as l.
  induction l as [|p l IH]; cbn [map qsum fold_right qdot]; [reflexivity|].
  fold (qsum (map (fun p0 : Z * list Z => inject_Z (fst p0) / inject_Z D * 0) l)).
  rewrite IH. ring.
Qed.

Lemma rowsum_nil_vs : forall D scale row vs, Forall (fun v => length v = 0%nat) vs ->
  forall ws, rowsum D scale row ws vs == 0.
Proof.
  intros D scale row vs Hvs. induction Hvs as [|v vs Hv _ IH]; intros ws.
  - destruct ws; reflexivity.
  - destruct ws as [|w ws]; [reflexivity|].
    destruct v; [|discriminate Hv].
    unfold rowsum in *. cbn [combine map qsum fold_right fst snd].
    rewrite qdot_nil_r. fold (qsum (map (fun p : Z * list Z => inject_Z (fst p) / inject_Z D * qdot row (map (fun z => inject_Z z / scale) (snd p))) (combine ws vs))).
    rewrite IH. ring.
Qed.

Lemma rowsum_cons_row : forall D scale a row vs ws,
  rowsum D scale (a :: row) ws vs == a * headsum D scale ws vs + rowsum D scale row ws (map (@tl Z) vs).
Proof.
  intros D scale a row. induction vs as [|v vs IH]; intros ws.
  - destruct ws; unfold rowsum, headsum; cbn; ring.
  - destruct ws as [|w ws]; [unfold rowsum, headsum; cbn; ring|].
    specialize (IH ws). unfold rowsum, headsum, qsum in *.
    cbn [combine map fold_right fst snd].
    rewrite IH. destruct v as [|z v]; cbn [map qdot hd tl].
    + rewrite qdot_nil_r. unfold Qdiv. ring.
    + unfold Qdiv. ring.
Qed.

Lemma comb_coord_S : forall i vs ws, comb_coord ws vs (S i) = comb_coord ws (map (@tl Z) vs) i.
Proof.
  intros i. induction vs as [|v vs IH]; intros ws.
  - destruct ws; reflexivity.
  - destruct ws as [|w ws]; [reflexivity|].
    cbn [map]. rewrite !comb_coord_cons, IH. f_equal. f_equal.
    unfold nthz. destruct v; [destruct i; reflexivity | reflexivity].
Qed.

Lemma headsum_comb : forall D scale vs ws,
  headsum D scale ws vs == inject_Z (comb_coord ws vs 0) / inject_Z D / scale.
Proof.
  intros D scale. induction vs as [|v vs IH]; intros ws.
  - destruct ws; unfold headsum, comb_coord; cbn; unfold Qdiv; ring.
  - destruct ws as [|w ws]; [unfold headsum, comb_coord; cbn; unfold Qdiv; ring|].
    rewrite comb_coord_cons. specialize (IH ws). unfold headsum, qsum in *.
    cbn [combine map fold_right fst snd]. rewrite IH.
    rewrite inject_Z_plus, inject_Z_mult.
    unfold nthz. replace (nth 0 v 0%Z) with (hd 0%Z v) by (destruct v; reflexivity).
    unfold Qdiv. ring.
Qed.

(* linearity of a row: sum_j (w_j/D) (row . v_j/scale) == row . (x/scale) with x_i = n_i / D *)
Lemma rowsum_linear : forall D scale ns row vs ws,
  Forall (fun v => length v = length ns) vs ->
  (forall i, (i < length ns)%nat -> nthz ns i = comb_coord ws vs i) ->
  rowsum D scale row ws vs ==
  qdot row (map (fun xi => xi / scale) (map (fun n => inject_Z n / inject_Z D) ns)).
Proof.
  intros D scale. induction ns as [|n ns IH]; intros row vs ws Hvs Hc.
  - cbn [map]. rewrite qdot_nil_r. apply rowsum_nil_vs. exact Hvs.
  - destruct row as [|a row]; [apply rowsum_nil_row|].
    rewrite rowsum_cons_row. cbn [map qdot].
    rewrite (IH row (map (@tl Z) vs) ws).
    + rewrite headsum_comb. rewrite <- (Hc 0%nat) by (cbn [length]; lia).
      unfold nthz. cbn [nth]. reflexivity.
    + clear - Hvs. induction Hvs as [|v vs Hv _ IHv]; cbn [map]; constructor; [|exact IHv].
      destruct v; cbn [length] in *; [discriminate | cbn [tl]; lia].
    + intros i Hi. rewrite <- comb_coord_S. rewrite <- Hc by (cbn [length]; lia). reflexivity.
Qed.

(* ------------------------------------------------------------------ the offset part *)
Lemma qsum_split : forall D (o : Q) (f : vertex -> Q) ws vs, length ws = length vs ->
  qsum (map (fun p => (inject_Z (fst p) / inject_Z D) * (f (snd p) + o)) (combine ws vs)) ==
  qsum (map (fun p => (inject_Z (fst p) / inject_Z D) * f (snd p)) (combine ws vs)) +
  inject_Z (zsum ws) / inject_Z D * o.
Proof.
  intros D o f. induction ws as [|w ws IH]; intros vs Hl.
  - cbn. unfold Qdiv. ring.
  - destruct vs as [|v vs]; [discriminate Hl|]. cbn [length] in Hl.
    specialize (IH vs ltac:(lia)). unfold qsum, zsum in *.
    cbn [combine map fold_right fst snd]. rewrite IH. rewrite inject_Z_plus. unfold Qdiv. ring.
Qed.

(* ------------------------------------------------------------------ coordinates of the image *)
Lemma nth_qadd : forall r a b, (r < length a)%nat -> length a = length b ->
  nth r (qadd a b) 0 = nth r a 0 + nth r b 0.
Proof.
  induction r as [|r IH]; intros a b Hr Hl; destruct a as [|x a]; cbn [length] in *; try lia;
    (destruct b as [|y b]; cbn [length] in *; [lia|]); cbn [qadd nth]; [reflexivity|].
  apply IH; lia.
Qed.

Lemma nth_cart_q : forall M off scale x r, (r < length M)%nat -> length off = length M ->
  nth r (cart_q M off scale x) 0 = qdot (nth r M []) (map (fun xi => xi / scale) x) + nth r off 0.
Proof.
  intros M off scale x r Hr Hl. unfold cart_q.
  rewrite nth_qadd by (rewrite map_length; lia).
  f_equal.
  rewrite (nth_indep _ 0 ((fun row => qdot row (map (fun xi => xi / scale) x)) [])) by (rewrite map_length; lia).
  apply (map_nth (fun row => qdot row (map (fun xi => xi / scale) x))).
Qed.

Lemma qcomb_cart : forall M off scale D r, (r < length M)%nat -> length off = length M ->
  forall ws vs,
  qcomb ws D (map (cart M off scale) vs) r =
  qsum (map (fun p => (inject_Z (fst p) / inject_Z D) *
                      (qdot (nth r M []) (map (fun z => inject_Z z / scale) (snd p)) + nth r off 0))
            (combine ws vs)).
Proof.
  intros M off scale D r Hr Hl. unfold qcomb, qsum.
  induction ws as [|w ws IH]; intros vs; [reflexivity|].
  destruct vs as [|v vs]; [reflexivity|].
  cbn [map combine fold_right fst snd]. rewrite IH. f_equal.
  rewrite cart_is_cart_q, nth_cart_q by assumption. rewrite map_map. reflexivity.
Qed.

(* ------------------------------------------------------------------ main theorems *)
Theorem affine_barycentric : forall M off scale (ws : list Z) (vs : list vertex) (ns : list Z) (D : Z) (d : nat),
  (0 < D)%Z -> zsum ws = D -> length ws = length vs ->
  Forall (fun v => length v = d) vs -> length ns = d ->
  Forall (fun row => length row = d) M -> length off = length M ->
  (forall i, (i < d)%nat -> nthz ns i = comb_coord ws vs i) ->
  forall r, (r < length M)%nat ->
    qcomb ws D (map (cart M off scale) vs) r ==
    nth r (cart_q M off scale (map (fun n => inject_Z n / inject_Z D) ns)) 0.
Proof.
  intros M off scale ws vs ns D d HD Hsum Hlen Hvs Hns _ Hoff Hc r Hr.
  subst d.
  rewrite qcomb_cart by assumption.
  rewrite nth_cart_q by assumption.
  rewrite (qsum_split D (nth r off 0)
             (fun v => qdot (nth r M []) (map (fun z => inject_Z z / scale) v)) ws vs Hlen).
  fold (rowsum D scale (nth r M []) ws vs).
  rewrite (rowsum_linear D scale ns (nth r M []) vs ws Hvs Hc).
  rewrite Hsum.
  assert (HD0 : ~ inject_Z D == 0).
  { unfold Qeq. cbn. lia. }
  field. exact HD0.
Qed.

Print Assumptions affine_barycentric.

Lemma length_vertices_from_all : forall d ps v,
  Forall (fun u => length u = length v) (vertices_from d v ps).
Proof.
  intros d. induction ps as [|p ps IH]; intros v; cbn [vertices_from]; constructor; [reflexivity|].
  specialize (IH (upd_part d v p)). rewrite length_upd_part in IH. exact IH.
Qed.

Lemma locate_vertices_length : forall ns D,
  Forall (fun v => length v = length ns) (vertex_range (locate_z ns D)).
Proof.
  intros ns D. unfold vertex_range.
  pose proof (length_vertices_from_all (length (fst (locate_z ns D))) (snd (locate_z ns D)) (fst (locate_z ns D))) as H.
  refine (Forall_impl _ _ H). intros u Hu. rewrite Hu.
  unfold locate_z. cbn [fst]. apply map_length.
Qed.

Theorem locate_affine_barycentric : forall M off scale (ns : list Z) (D : Z),
  (0 < D)%Z -> Forall (fun row => length row = length ns) M -> length off = length M ->
  let s := locate_z ns D in let ws := locate_weights ns D in
  Forall (fun w => (0 < w)%Z) ws /\ zsum ws = D /\ length ws = length (vertex_range s) /\
  forall r, (r < length M)%nat ->
    qcomb ws D (map (cart M off scale) (vertex_range s)) r ==
    nth r (cart_q M off scale (map (fun n => inject_Z n / inject_Z D) ns)) 0.
Proof.
  intros M off scale ns D HD HM Hoff s ws.
  destruct (locate_barycentric ns D HD) as (Hlen & Hpos & Hsum & Hc).
  fold s in Hlen, Hc. fold ws in Hlen, Hpos, Hsum, Hc.
  split; [exact Hpos|]. split; [exact Hsum|]. split; [exact Hlen|].
  intros r Hr.
  apply (affine_barycentric M off scale ws (vertex_range s) ns D (length ns)); try assumption.
  - apply locate_vertices_length.
  - reflexivity.
Qed.

Print Assumptions locate_affine_barycentric.
