(* C20 — combinatorial theorems about the permutahedral representation (model: C20_Model.v).
   A. vertices_distinct_count (every dimension): a k-simplex has k+1 pairwise distinct vertices;
      valid_simplex_canonical / canonical_valid_simplex: canonical s <-> valid_simplex s = true.
   B. translation invariance of every function of the model used below (every dimension).
   C. bounded theorems (ambient dimension d <= 4, the bound is part of each statement): faces_ok, cofaces_ok,
      faces_cofaces_ok for every simplex, is_face_of = spec_is_face on the family "base vertices differ by -1,0,1";
      by vm_compute at the base vertex 0 and lifting with B.  canon_oparts_complete (every dimension) turns the
      enumerated set canon_oparts d into "every valid simplex with sorted parts" ( *_valid_le4 ).
   D. unbounded theorems (every dimension, no computation), which subsume C:
      is_face_of_iff_spec   is_face_of s t = spec_is_face s t for canonical s, t
      faces_sound, combinations_all (Combination_iterator = all k-subsets, lexicographically), length_faces,
      nodup_vsets_faces, faces_ok_every_dim                                             (= faces_ok_full)
      osp_sound / osp_complete / NoDup_osp, int_combinations_sound_holds / NoDup_int_combinations /
      int_combinations_complete (Integer_combination_iterator = all bounded compositions, once each),
      cofaces_sound, cofaces_members_ok, same_vset_eq (the representation is unique), coface_value_inj,
      NoDup_cofaces, cofaces_ok_every_dim                                               (= cofaces_ok_full)
      coface_of_face, faces_cofaces_ok_every_dim                                        (= faces_cofaces_ok_full)
   The unbounded versions of C are stated as definitions ( *_full ) at the end of the file and all four are
   proved there ( *_full_holds ). *)
From Coq Require Import ZArith List Bool Arith Lia Permutation.
Import ListNotations.
Require Import C20_Model.
Local Open Scope Z_scope.

(* ================================================================== generic list lemmas *)
Lemma forallb_map' {A B} (f : B -> bool) (g : A -> B) (l : list A) :
  forallb f (map g l) = forallb (fun x => f (g x)) l.
Proof. induction l as [|x l IH]; cbn [map forallb]; [reflexivity | rewrite IH; reflexivity]. Qed.

Lemma existsb_map' {A B} (f : B -> bool) (g : A -> B) (l : list A) :
  existsb f (map g l) = existsb (fun x => f (g x)) l.
Proof. induction l as [|x l IH]; cbn [map existsb]; [reflexivity | rewrite IH; reflexivity]. Qed.

Lemma forallb_ext' {A} (f g : A -> bool) (l : list A) :
  (forall x, f x = g x) -> forallb f l = forallb g l.
Proof. intros H; induction l as [|x l IH]; cbn [forallb]; [reflexivity | rewrite H, IH; reflexivity]. Qed.

Lemma existsb_ext' {A} (f g : A -> bool) (l : list A) :
  (forall x, f x = g x) -> existsb f l = existsb g l.
Proof. intros H; induction l as [|x l IH]; cbn [existsb]; [reflexivity | rewrite H, IH; reflexivity]. Qed.

Lemma map_flat_map' {A B C} (g : B -> C) (f : A -> list B) (l : list A) :
  map g (flat_map f l) = flat_map (fun x => map g (f x)) l.
Proof. induction l as [|x l IH]; cbn [flat_map map]; [reflexivity | rewrite map_app, IH; reflexivity]. Qed.

Lemma in_removelast' {A} (l : list A) (x : A) : In x (removelast l) -> In x l.
Proof.
  induction l as [|a l IH]; intros H; [exact H|].
  destruct l as [|b l']; [destruct H|].
  change (removelast (a :: b :: l')) with (a :: removelast (b :: l')) in H.
  destruct H as [H | H]; [left; exact H | right; apply IH; exact H].
Qed.

Lemma NoDup_app_disjoint' {A} (l1 l2 : list A) (x : A) :
  NoDup (l1 ++ l2) -> In x l1 -> In x l2 -> False.
Proof.
  induction l1 as [|a l1 IH]; intros Hnd H1 H2; [destruct H1|].
  cbn [app] in Hnd. inversion Hnd as [|a' l' Hnotin Hnd' E]; subst.
  destruct H1 as [-> | H1].
  - apply Hnotin. apply in_or_app. right. exact H2.
  - exact (IH Hnd' H1 H2).
Qed.

(* ================================================================== A. distinct vertices *)
Definition canonical (s : simplex) : Prop :=
  let d := length (fst s) in
  snd s <> [] /\ Forall (fun p => p <> []) (snd s) /\ NoDup (concat (snd s)) /\
  (forall i, In i (concat (snd s)) <-> (i <= d)%nat) /\ In d (last (snd s) []).

Lemma zsum_cons : forall x r, zsum (x :: r) = x + zsum r.
Proof. reflexivity. Qed.

Lemma length_incr_at : forall v i, length (incr_at v i) = length v.
Proof. induction v as [|x r IH]; intros [|j]; cbn [incr_at length]; auto. Qed.

Lemma zsum_incr_at : forall v i, (i < length v)%nat -> zsum (incr_at v i) = zsum v + 1.
Proof.
  induction v as [|x r IH]; intros i Hi; cbn [length] in Hi; [lia|].
  destruct i as [|j]; cbn [incr_at]; rewrite !zsum_cons; [lia|].
  rewrite IH by lia. lia.
Qed.

Lemma upd_part_lt : forall d p v, length v = d -> (forall i, In i p -> (i < d)%nat) ->
  length (upd_part d v p) = d /\ zsum (upd_part d v p) = zsum v + Z.of_nat (length p).
Proof.
  intros d p; unfold upd_part. induction p as [|i p IH]; intros v Hv Hp; cbn [fold_left length].
  - split; [assumption | lia].
  - assert (Hi : (i < d)%nat) by (apply Hp; left; reflexivity).
    assert (Hu : upd_index d v i = incr_at v i).
    { unfold upd_index. destruct (Nat.eqb_spec i d); [lia | reflexivity]. }
    rewrite Hu.
    destruct (IH (incr_at v i)) as [H1 H2].
    + rewrite length_incr_at; assumption.
    + intros j Hj; apply Hp; right; assumption.
    + split; [assumption|]. rewrite H2, zsum_incr_at by lia. lia.
Qed.

Lemma length_vertices_from : forall d ps v, length (vertices_from d v ps) = length ps.
Proof. intros d; induction ps as [|p r IH]; intros v; cbn [vertices_from length]; [reflexivity | rewrite IH; reflexivity]. Qed.

(* the coordinate sums strictly increase along the listed vertices *)
Lemma vertices_from_sums : forall d ps v, length v = d ->
  (forall p, In p (removelast ps) -> p <> [] /\ forall i, In i p -> (i < d)%nat) ->
  NoDup (vertices_from d v ps) /\ forall w, In w (vertices_from d v ps) -> zsum v <= zsum w.
Proof.
  intros d; induction ps as [|p r IH]; intros v Hv Hps; cbn [vertices_from].
  - split; [constructor | intros w []].
  - destruct r as [|q r'].
    + cbn [vertices_from]. split.
      * constructor; [intros [] | constructor].
      * intros w [<- | []]; lia.
    + change (removelast (p :: q :: r')) with (p :: removelast (q :: r')) in Hps.
      assert (Hp : p <> [] /\ forall i, In i p -> (i < d)%nat) by (apply Hps; left; reflexivity).
      destruct Hp as [Hne Hlt].
      destruct (upd_part_lt d p v Hv Hlt) as [HL HS].
      destruct (IH (upd_part d v p) HL) as [HN HW].
      { intros p' Hp'. apply Hps. right. exact Hp'. }
      assert (Hlen : (0 < length p)%nat) by (destruct p; [congruence | cbn [length]; lia]).
      split.
      * constructor; [|exact HN]. intros Hin. apply HW in Hin. lia.
      * intros w [<- | Hin]; [lia|]. apply HW in Hin. lia.
Qed.

Theorem vertices_distinct_count : forall s, canonical s ->
  length (vertex_range s) = S (dimension s) /\ NoDup (vertex_range s).
Proof.
  intros [v ps] Hc. unfold canonical in Hc. cbv zeta in Hc. cbn [fst snd] in Hc.
  destruct Hc as (Hne & Hparts & Hnd & Hall & Hlast).
  unfold vertex_range, dimension; cbn [fst snd]. split.
  - rewrite length_vertices_from. destruct ps; [congruence | reflexivity].
  - apply vertices_from_sums; [reflexivity|]. intros p Hp.
    assert (Hin : In p ps) by (apply in_removelast'; exact Hp).
    split.
    + rewrite Forall_forall in Hparts. apply Hparts. exact Hin.
    + intros i Hi.
      assert (Hic : In i (concat ps)) by (apply in_concat; exists p; split; assumption).
      assert (Hle : (i <= length v)%nat) by (apply Hall; exact Hic).
      assert (Hned : i <> length v).
      { intros ->.
        pose proof (app_removelast_last [] Hne) as E. rewrite E in Hnd.
        rewrite concat_app in Hnd. cbn [concat] in Hnd. rewrite app_nil_r in Hnd.
        apply (NoDup_app_disjoint' _ _ (length v) Hnd); [|exact Hlast].
        apply in_concat. exists p. split; assumption. }
      lia.
Qed.
Print Assumptions vertices_distinct_count.

(* ================================================================== B. translation invariance *)
Lemma length_vadd : forall v a, length (vadd a v) = length v.
Proof. induction v as [|x r IH]; intros a; cbn [vadd length]; [reflexivity | rewrite IH; reflexivity]. Qed.

Lemma vadd_zero : forall v, vadd v (repeat 0 (length v)) = v.
Proof.
  induction v as [|x r IH]; cbn [length repeat vadd hd tl]; [reflexivity|].
  rewrite IH. f_equal.
Qed.

Lemma incr_at_vadd : forall v a i, incr_at (vadd a v) i = vadd a (incr_at v i).
Proof.
  induction v as [|x r IH]; intros a [|j]; cbn [vadd incr_at]; try reflexivity.
  - f_equal. lia.
  - f_equal. apply IH.
Qed.

Lemma decr_at_vadd : forall v a i, decr_at (vadd a v) i = vadd a (decr_at v i).
Proof.
  induction v as [|x r IH]; intros a [|j]; cbn [vadd decr_at]; try reflexivity.
  - f_equal. lia.
  - f_equal. apply IH.
Qed.

Lemma decr_all_vadd : forall v a, decr_all (vadd a v) = vadd a (decr_all v).
Proof.
  unfold decr_all. induction v as [|x r IH]; intros a; cbn [vadd map]; [reflexivity|].
  rewrite IH. f_equal. lia.
Qed.

Lemma upd_index_vadd : forall d a v i, upd_index d (vadd a v) i = vadd a (upd_index d v i).
Proof.
  intros d a v i. unfold upd_index. destruct (Nat.eqb i d); [apply decr_all_vadd | apply incr_at_vadd].
Qed.

Lemma fold_upd_index_vadd : forall d a p v,
  fold_left (upd_index d) p (vadd a v) = vadd a (fold_left (upd_index d) p v).
Proof.
  intros d a; induction p as [|i p IH]; intros v; cbn [fold_left]; [reflexivity|].
  rewrite upd_index_vadd. apply IH.
Qed.

Lemma upd_part_vadd : forall d a p v, upd_part d (vadd a v) p = vadd a (upd_part d v p).
Proof. intros; apply fold_upd_index_vadd. Qed.

Lemma fold_decr_at_vadd : forall a p v, fold_left decr_at p (vadd a v) = vadd a (fold_left decr_at p v).
Proof.
  intros a; induction p as [|i p IH]; intros v; cbn [fold_left]; [reflexivity|].
  rewrite decr_at_vadd. apply IH.
Qed.

Lemma incr_part_vadd : forall a p v, incr_part (vadd a v) p = vadd a (incr_part v p).
Proof.
  intros a; unfold incr_part; induction p as [|i p IH]; intros v; cbn [fold_left]; [reflexivity|].
  rewrite incr_at_vadd. apply IH.
Qed.

Lemma vertices_from_vadd : forall d a ps v,
  vertices_from d (vadd a v) ps = map (vadd a) (vertices_from d v ps).
Proof.
  intros d a; induction ps as [|p r IH]; intros v; cbn [vertices_from map]; [reflexivity|].
  rewrite upd_part_vadd, IH. reflexivity.
Qed.

Lemma dimension_shift : forall a s, dimension (shift a s) = dimension s.
Proof. reflexivity. Qed.

Lemma length_fst_shift : forall a s, length (fst (shift a s)) = length (fst s).
Proof. intros a s. unfold shift. cbn [fst]. apply length_vadd. Qed.

Theorem vertex_range_shift : forall a s, vertex_range (shift a s) = map (vadd a) (vertex_range s).
Proof.
  intros a s. unfold vertex_range. rewrite length_fst_shift. unfold shift. cbn [fst snd].
  apply vertices_from_vadd.
Qed.

Lemma valid_simplex_shift : forall a s, valid_simplex (shift a s) = valid_simplex s.
Proof. intros a s. unfold valid_simplex. rewrite length_fst_shift. reflexivity. Qed.

Lemma face_from_indices_shift : forall a s idx,
  face_from_indices (shift a s) idx = shift a (face_from_indices s idx).
Proof.
  intros a [v ps] idx. unfold shift, face_from_indices. cbn [fst snd].
  rewrite length_vadd, fold_upd_index_vadd. reflexivity.
Qed.

Theorem faces_shift : forall a k s, faces k (shift a s) = map (shift a) (faces k s).
Proof.
  intros a k s. unfold faces. rewrite dimension_shift. cbv zeta.
  destruct (dimension s <? k)%nat; [reflexivity|].
  rewrite map_map. apply map_ext. intros idx. apply face_from_indices_shift.
Qed.

Lemma coface_value_shift : forall a s t c os,
  coface_value (shift a s) t c os = shift a (coface_value s t c os).
Proof.
  intros a [v ps] t c os. unfold shift, coface_value. cbn [fst snd].
  rewrite fold_decr_at_vadd. reflexivity.
Qed.

Theorem cofaces_shift : forall a l s, cofaces l (shift a s) = map (shift a) (cofaces l s).
Proof.
  intros a l [v ps].
  change (shift a (v, ps)) with (vadd a v, ps).
  unfold cofaces. rewrite length_vadd.
  destruct (l <? pred (length ps))%nat; [reflexivity|].
  destruct (find_pos (length v) (nth (pred (length ps)) ps [])) as [t|]; [|reflexivity].
  rewrite map_flat_map'. apply flat_map_ext. intros c.
  rewrite map_map. apply map_ext. intros os.
  apply (coface_value_shift a (v, ps)).
Qed.

Lemma veqb_vadd : forall a v w, veqb (vadd a v) (vadd a w) = veqb v w.
Proof.
  intros a v; revert a; induction v as [|x r IH]; intros a [|y q]; cbn [vadd veqb]; try reflexivity.
  rewrite IH. f_equal.
  destruct (Z.eqb_spec x y), (Z.eqb_spec (x + hd 0 a) (y + hd 0 a)); try reflexivity; lia.
Qed.

Lemma ifo_inner_vadd : forall a op vs vo,
  ifo_inner (vadd a vs) (vadd a vo) op =
  match ifo_inner vs vo op with None => None | Some (v, o) => Some (vadd a v, o) end.
Proof.
  intros a; induction op as [|p rest IH]; intros vs vo; cbn [ifo_inner]; [reflexivity|].
  rewrite veqb_vadd. destruct (veqb vs vo); [reflexivity|].
  destruct rest as [|q rest']; [reflexivity|].
  rewrite incr_part_vadd. apply IH.
Qed.

Lemma ifo_outer_vadd : forall a sp vs vo op,
  ifo_outer sp (vadd a vs) (vadd a vo) op = ifo_outer sp vs vo op.
Proof.
  intros a; induction sp as [|p srest IH]; intros vs vo op; cbn [ifo_outer]; [reflexivity|].
  rewrite ifo_inner_vadd. destruct (ifo_inner vs vo op) as [[v' op']|]; [|reflexivity].
  destruct op' as [|p' op'']; [reflexivity|].
  destruct srest as [|q srest']; [reflexivity|].
  rewrite incr_part_vadd. apply IH.
Qed.

Theorem is_face_of_shift : forall a s t, is_face_of (shift a s) (shift a t) = is_face_of s t.
Proof.
  intros a s t. unfold is_face_of. rewrite !dimension_shift.
  destruct (dimension t <? dimension s)%nat; [reflexivity|].
  unfold shift. cbn [fst snd]. apply ifo_outer_vadd.
Qed.

Lemma subset_v_vadd : forall a l1 l2, subset_v (map (vadd a) l1) (map (vadd a) l2) = subset_v l1 l2.
Proof.
  intros a l1 l2. unfold subset_v. rewrite forallb_map'. apply forallb_ext'. intros v.
  rewrite existsb_map'. apply existsb_ext'. intros w. apply veqb_vadd.
Qed.

Theorem spec_is_face_shift : forall a s t, spec_is_face (shift a s) (shift a t) = spec_is_face s t.
Proof. intros a s t. unfold spec_is_face. rewrite !vertex_range_shift. apply subset_v_vadd. Qed.

Lemma same_vset_shift : forall a s t, same_vset (shift a s) (shift a t) = same_vset s t.
Proof. intros a s t. unfold same_vset. rewrite !spec_is_face_shift. reflexivity. Qed.

Lemma nodup_v_vadd : forall a l, nodup_v (map (vadd a) l) = nodup_v l.
Proof.
  intros a; induction l as [|v r IH]; cbn [map nodup_v]; [reflexivity|].
  rewrite IH, existsb_map'. f_equal. f_equal. apply existsb_ext'. intros w. apply veqb_vadd.
Qed.

Lemma nodup_vsets_shift : forall a l, nodup_vsets (map (shift a) l) = nodup_vsets l.
Proof.
  intros a; induction l as [|s r IH]; cbn [map nodup_vsets]; [reflexivity|].
  rewrite IH, existsb_map'. f_equal. f_equal. apply existsb_ext'. intros t. apply same_vset_shift.
Qed.

Lemma simplex_eqb_shift : forall a s t, simplex_eqb (shift a s) (shift a t) = simplex_eqb s t.
Proof. intros a s t. unfold simplex_eqb, shift. cbn [fst snd]. rewrite veqb_vadd. reflexivity. Qed.

Lemma mem_simplex_shift : forall a s l, mem_simplex (shift a s) (map (shift a) l) = mem_simplex s l.
Proof.
  intros a s l. unfold mem_simplex. rewrite existsb_map'. apply existsb_ext'. intros t.
  apply simplex_eqb_shift.
Qed.

Theorem faces_ok_shift : forall a k s, faces_ok k (shift a s) = faces_ok k s.
Proof.
  intros a k s. unfold faces_ok. cbv zeta.
  rewrite faces_shift, map_length, forallb_map', nodup_vsets_shift, dimension_shift.
  f_equal. f_equal. apply forallb_ext'. intros f.
  rewrite valid_simplex_shift, vertex_range_shift, nodup_v_vadd, spec_is_face_shift, is_face_of_shift,
    dimension_shift, !length_fst_shift.
  reflexivity.
Qed.

Theorem cofaces_ok_shift : forall a l s, cofaces_ok l (shift a s) = cofaces_ok l s.
Proof.
  intros a l s. unfold cofaces_ok. cbv zeta.
  rewrite cofaces_shift, forallb_map', nodup_vsets_shift.
  f_equal. apply forallb_ext'. intros c.
  rewrite valid_simplex_shift, spec_is_face_shift, is_face_of_shift, !dimension_shift, !length_fst_shift,
    faces_shift, mem_simplex_shift.
  reflexivity.
Qed.

Theorem faces_cofaces_ok_shift : forall a k s, faces_cofaces_ok k (shift a s) = faces_cofaces_ok k s.
Proof.
  intros a k s. unfold faces_cofaces_ok.
  rewrite faces_shift, forallb_map'. apply forallb_ext'. intros f.
  rewrite dimension_shift, cofaces_shift, mem_simplex_shift. reflexivity.
Qed.
Print Assumptions faces_ok_shift.
Print Assumptions cofaces_ok_shift.
Print Assumptions faces_cofaces_ok_shift.

(* ================================================================== C. bounded theorems (d <= 4) *)
(* the checks at the base vertex 0 *)
Definition chk_faces (d : nat) : bool :=
  forallb (fun ps => forallb (fun k => faces_ok k (repeat 0 d, ps))
                             (seq 0 (S (dimension (repeat 0 d, ps))))) (canon_oparts d).
Definition chk_cofaces (d : nat) : bool :=
  forallb (fun ps => forallb (fun l => cofaces_ok l (repeat 0 d, ps))
                             (seq (dimension (repeat 0 d, ps)) (S d - dimension (repeat 0 d, ps)))) (canon_oparts d).
Definition chk_faces_cofaces (d : nat) : bool :=
  forallb (fun ps => forallb (fun k => faces_cofaces_ok k (repeat 0 d, ps))
                             (seq 0 (S (dimension (repeat 0 d, ps))))) (canon_oparts d).
(* base vertices of s relative to that of t: {-1,0,1}^d *)
Definition cube3 (d : nat) : list vertex := product (repeat [-1; 0; 1] d).
Definition chk_is_face_of (d : nat) : bool :=
  forallb (fun pt => forallb (fun ps => forallb (fun w =>
     Bool.eqb (is_face_of (w, ps) (repeat 0 d, pt)) (spec_is_face (w, ps) (repeat 0 d, pt)))
     (cube3 d)) (canon_oparts d)) (canon_oparts d).

Lemma simplex_as_shift : forall d v ps, length v = d -> (v, ps) = shift v (repeat 0 d, ps).
Proof. intros d v ps <-. unfold shift. cbn [fst snd]. rewrite vadd_zero. reflexivity. Qed.

Lemma faces_ok_lift : forall d, chk_faces d = true -> forall ps v k,
  In ps (canon_oparts d) -> length v = d -> (k <= dimension (v, ps))%nat -> faces_ok k (v, ps) = true.
Proof.
  intros d H ps v k Hps Hv Hk. unfold chk_faces in H. rewrite forallb_forall in H.
  specialize (H ps Hps). rewrite forallb_forall in H.
  rewrite (simplex_as_shift d v ps Hv), faces_ok_shift. apply H. apply in_seq.
  change (dimension (repeat 0 d, ps)) with (dimension (v, ps)). lia.
Qed.

Lemma cofaces_ok_lift : forall d, chk_cofaces d = true -> forall ps v l,
  In ps (canon_oparts d) -> length v = d -> (dimension (v, ps) <= l <= d)%nat -> cofaces_ok l (v, ps) = true.
Proof.
  intros d H ps v l Hps Hv Hl. unfold chk_cofaces in H. rewrite forallb_forall in H.
  specialize (H ps Hps). rewrite forallb_forall in H.
  rewrite (simplex_as_shift d v ps Hv), cofaces_ok_shift. apply H. apply in_seq.
  change (dimension (repeat 0 d, ps)) with (dimension (v, ps)). lia.
Qed.

Lemma faces_cofaces_ok_lift : forall d, chk_faces_cofaces d = true -> forall ps v k,
  In ps (canon_oparts d) -> length v = d -> (k <= dimension (v, ps))%nat -> faces_cofaces_ok k (v, ps) = true.
Proof.
  intros d H ps v k Hps Hv Hk. unfold chk_faces_cofaces in H. rewrite forallb_forall in H.
  specialize (H ps Hps). rewrite forallb_forall in H.
  rewrite (simplex_as_shift d v ps Hv), faces_cofaces_ok_shift. apply H. apply in_seq.
  change (dimension (repeat 0 d, ps)) with (dimension (v, ps)). lia.
Qed.

(* vs - vt in {-1,0,1}^d  =>  vs = vt + w, w in cube3 d *)
Lemma cube3_diff : forall d vs vt, length vs = d -> length vt = d ->
  (forall i, (i < d)%nat -> -1 <= nthz vs i - nthz vt i <= 1) ->
  exists w, In w (cube3 d) /\ vs = vadd vt w.
Proof.
  unfold cube3. induction d as [|d IH]; intros vs vt Hs Ht Hb.
  - destruct vs; [|discriminate]. exists []. split; [left; reflexivity | reflexivity].
  - destruct vs as [|x vs]; [discriminate|]. destruct vt as [|y vt]; [discriminate|].
    cbn [length] in Hs, Ht.
    destruct (IH vs vt) as (w & Hw & E); [lia | lia | |].
    { intros i Hi. apply (Hb (S i)). lia. }
    exists ((x - y) :: w). split.
    + cbn [repeat product]. apply in_flat_map. exists (x - y). split.
      * pose proof (Hb O ltac:(lia)) as H0. unfold nthz in H0. cbn [nth] in H0.
        assert (Hc : x - y = -1 \/ x - y = 0 \/ x - y = 1) by lia.
        destruct Hc as [-> | [-> | ->]]; cbn [In]; auto.
      * apply in_map. exact Hw.
    + cbn [vadd hd tl]. rewrite <- E. f_equal. lia.
Qed.

Lemma is_face_of_lift : forall d, chk_is_face_of d = true -> forall ps pt vs vt,
  In ps (canon_oparts d) -> In pt (canon_oparts d) -> length vs = d -> length vt = d ->
  (forall i, (i < d)%nat -> -1 <= nthz vs i - nthz vt i <= 1) ->
  is_face_of (vs, ps) (vt, pt) = spec_is_face (vs, ps) (vt, pt).
Proof.
  intros d H ps pt vs vt Hps Hpt Hs Ht Hb. unfold chk_is_face_of in H. rewrite forallb_forall in H.
  specialize (H pt Hpt). rewrite forallb_forall in H.
  specialize (H ps Hps). rewrite forallb_forall in H.
  destruct (cube3_diff d vs vt Hs Ht Hb) as (w & Hw & E).
  specialize (H w Hw). apply Bool.eqb_prop in H.
  rewrite (simplex_as_shift d vt pt Ht).
  assert (E2 : (vs, ps) = shift vt (w, ps)) by (unfold shift; cbn [fst snd]; rewrite E; reflexivity).
  rewrite E2, is_face_of_shift, spec_is_face_shift. exact H.
Qed.

(* vm_cast_no_check: the vm_compute conversion is done once, by the kernel, at Qed (not also by the tactic) *)
Lemma chk_faces_1 : chk_faces 1 = true. Proof. vm_compute. reflexivity. Qed.
Lemma chk_faces_2 : chk_faces 2 = true. Proof. vm_compute. reflexivity. Qed.
Lemma chk_faces_3 : chk_faces 3 = true. Proof. vm_compute. reflexivity. Qed.
Time Lemma chk_faces_4 : chk_faces 4 = true. Proof. vm_cast_no_check (eq_refl true). Time Qed.
Lemma chk_cofaces_1 : chk_cofaces 1 = true. Proof. vm_compute. reflexivity. Qed.
Lemma chk_cofaces_2 : chk_cofaces 2 = true. Proof. vm_compute. reflexivity. Qed.
Lemma chk_cofaces_3 : chk_cofaces 3 = true. Proof. vm_compute. reflexivity. Qed.
Time Lemma chk_cofaces_4 : chk_cofaces 4 = true. Proof. vm_cast_no_check (eq_refl true). Time Qed.
Lemma chk_faces_cofaces_1 : chk_faces_cofaces 1 = true. Proof. vm_compute. reflexivity. Qed.
Lemma chk_faces_cofaces_2 : chk_faces_cofaces 2 = true. Proof. vm_compute. reflexivity. Qed.
Lemma chk_faces_cofaces_3 : chk_faces_cofaces 3 = true. Proof. vm_compute. reflexivity. Qed.
Time Lemma chk_faces_cofaces_4 : chk_faces_cofaces 4 = true. Proof. vm_cast_no_check (eq_refl true). Time Qed.
Lemma chk_is_face_of_1 : chk_is_face_of 1 = true. Proof. vm_compute. reflexivity. Qed.
Lemma chk_is_face_of_2 : chk_is_face_of 2 = true. Proof. vm_compute. reflexivity. Qed.
Lemma chk_is_face_of_3 : chk_is_face_of 3 = true. Proof. vm_compute. reflexivity. Qed.
Time Lemma chk_is_face_of_4 : chk_is_face_of 4 = true. Proof. vm_cast_no_check (eq_refl true). Time Qed.

Ltac le4_cases d Hd :=
  let H := fresh "Hcase" in
  assert (H : d = 1%nat \/ d = 2%nat \/ d = 3%nat \/ d = 4%nat) by lia;
  destruct H as [-> | [-> | [-> | ->]]].

Theorem faces_ok_le4 : forall d ps v k, (1 <= d <= 4)%nat -> In ps (canon_oparts d) -> length v = d ->
  (k <= dimension (v, ps))%nat -> faces_ok k (v, ps) = true.
Proof.
  intros d ps v k Hd. le4_cases d Hd.
  - apply (faces_ok_lift 1 chk_faces_1).
  - apply (faces_ok_lift 2 chk_faces_2).
  - apply (faces_ok_lift 3 chk_faces_3).
  - apply (faces_ok_lift 4 chk_faces_4).
Qed.
Print Assumptions faces_ok_le4.

Theorem cofaces_ok_le4 : forall d ps v l, (1 <= d <= 4)%nat -> In ps (canon_oparts d) -> length v = d ->
  (dimension (v, ps) <= l <= d)%nat -> cofaces_ok l (v, ps) = true.
Proof.
  intros d ps v l Hd. le4_cases d Hd.
  - apply (cofaces_ok_lift 1 chk_cofaces_1).
  - apply (cofaces_ok_lift 2 chk_cofaces_2).
  - apply (cofaces_ok_lift 3 chk_cofaces_3).
  - apply (cofaces_ok_lift 4 chk_cofaces_4).
Qed.
Print Assumptions cofaces_ok_le4.

Theorem faces_cofaces_ok_le4 : forall d ps v k, (1 <= d <= 4)%nat -> In ps (canon_oparts d) -> length v = d ->
  (k <= dimension (v, ps))%nat -> faces_cofaces_ok k (v, ps) = true.
Proof.
  intros d ps v k Hd. le4_cases d Hd.
  - apply (faces_cofaces_ok_lift 1 chk_faces_cofaces_1).
  - apply (faces_cofaces_ok_lift 2 chk_faces_cofaces_2).
  - apply (faces_cofaces_ok_lift 3 chk_faces_cofaces_3).
  - apply (faces_cofaces_ok_lift 4 chk_faces_cofaces_4).
Qed.
Print Assumptions faces_cofaces_ok_le4.

(* covers: both partitions canonical (last part contains d), the base vertices differ by -1, 0 or 1 in every
   coordinate (every face s of t has fst s - fst t in {0,1}^d, so all true faces are inside this family) *)
Theorem is_face_of_iff_spec_le4 : forall d ps pt vs vt, (1 <= d <= 4)%nat ->
  In ps (canon_oparts d) -> In pt (canon_oparts d) -> length vs = d -> length vt = d ->
  (forall i, (i < d)%nat -> -1 <= nthz vs i - nthz vt i <= 1) ->
  is_face_of (vs, ps) (vt, pt) = spec_is_face (vs, ps) (vt, pt).
Proof.
  intros d ps pt vs vt Hd. le4_cases d Hd.
  - apply (is_face_of_lift 1 chk_is_face_of_1).
  - apply (is_face_of_lift 2 chk_is_face_of_2).
  - apply (is_face_of_lift 3 chk_is_face_of_3).
  - apply (is_face_of_lift 4 chk_is_face_of_4).
Qed.
Print Assumptions is_face_of_iff_spec_le4.

(* ------------------------------------------------------------------ the enumerated partitions *)
Example canon_oparts_2 : length (canon_oparts 2) = 6%nat /\ forallb (valid_opart 2) (canon_oparts 2) = true.
Proof. vm_compute. split; reflexivity. Qed.
Example canon_oparts_lengths : map (fun d => length (canon_oparts d)) [1; 2; 3; 4]%nat = [2; 6; 26; 150]%nat.
Proof. vm_compute. reflexivity. Qed.
Lemma canon_oparts_valid_le4 : forall d ps, (1 <= d <= 4)%nat -> In ps (canon_oparts d) -> valid_opart d ps = true.
Proof.
  intros d ps Hd. le4_cases d Hd; revert ps; apply forallb_forall; vm_compute; reflexivity.
Qed.

(* ================================================================== valid_simplex => canonical *)
Lemma ins_nat_perm : forall x l, Permutation (ins_nat x l) (x :: l).
Proof.
  intros x; induction l as [|a l IH]; cbn [ins_nat]; [reflexivity|].
  destruct (Nat.leb x a); [reflexivity|].
  transitivity (a :: x :: l); [constructor; exact IH | apply perm_swap].
Qed.

Lemma sort_nat_perm : forall l, Permutation (sort_nat l) l.
Proof.
  unfold sort_nat; induction l as [|a l IH]; cbn [fold_right]; [constructor|].
  etransitivity; [apply ins_nat_perm | constructor; exact IH].
Qed.

Theorem valid_simplex_canonical : forall s, valid_simplex s = true -> canonical s.
Proof.
  intros [v ps] H. unfold valid_simplex, valid_opart in H. cbn [fst snd] in H.
  apply andb_prop in H. destruct H as [H Hsort].
  apply andb_prop in H. destruct H as [H Hlast].
  apply andb_prop in H. destruct H as [Hparts Hne].
  destruct (list_eq_dec Nat.eq_dec (sort_nat (concat ps)) (seq 0 (S (length v)))) as [E|]; [|discriminate].
  assert (P : Permutation (concat ps) (seq 0 (S (length v)))) by (rewrite <- E; symmetry; apply sort_nat_perm).
  unfold canonical; cbv zeta; cbn [fst snd].
  split; [|split; [|split; [|split]]].
  - destruct ps; [discriminate | congruence].
  - rewrite Forall_forall. rewrite forallb_forall in Hparts. intros p Hp.
    specialize (Hparts p Hp). destruct p; [discriminate | congruence].
  - apply (Permutation_NoDup (Permutation_sym P)). apply seq_NoDup.
  - intros i. split; intros Hi.
    + apply (Permutation_in _ P) in Hi. apply in_seq in Hi. lia.
    + apply (Permutation_in _ (Permutation_sym P)). apply in_seq. lia.
  - unfold memn in Hlast. apply existsb_exists in Hlast. destruct Hlast as (x & Hx & Hex).
    apply Nat.eqb_eq in Hex. subst x. exact Hx.
Qed.
Print Assumptions valid_simplex_canonical.

Corollary vertices_distinct_count_valid : forall s, valid_simplex s = true ->
  length (vertex_range s) = S (dimension s) /\ NoDup (vertex_range s).
Proof. intros s H. apply vertices_distinct_count, valid_simplex_canonical, H. Qed.

(* ================================================================== canon_oparts d is complete *)
Lemma ins_nat_comm : forall x y l, ins_nat x (ins_nat y l) = ins_nat y (ins_nat x l).
Proof.
  intros x y; induction l as [|a l IH]; cbn [ins_nat].
  - destruct (Nat.leb_spec x y), (Nat.leb_spec y x); try reflexivity; try lia.
    assert (x = y) by lia. subst; reflexivity.
  - destruct (Nat.leb_spec y a), (Nat.leb_spec x a); cbn [ins_nat];
      repeat match goal with |- context [Nat.leb ?u ?v] => destruct (Nat.leb_spec u v) end;
      try reflexivity; try lia.
    + assert (x = y) by lia. subst; reflexivity.
    + rewrite IH; reflexivity.
Qed.

Lemma sort_nat_perm_eq : forall l l', Permutation l l' -> sort_nat l = sort_nat l'.
Proof.
  unfold sort_nat. induction 1 as [| x l l' _ IH | x y l | l l' l'' _ IH1 _ IH2]; cbn [fold_right].
  - reflexivity.
  - rewrite IH; reflexivity.
  - apply ins_nat_comm.
  - rewrite IH1; exact IH2.
Qed.

Lemma ins_nat_least : forall a l, (forall y, In y l -> (a <= y)%nat) -> ins_nat a l = a :: l.
Proof.
  intros a [|b l] H; cbn [ins_nat]; [reflexivity|].
  destruct (Nat.leb_spec a b); [reflexivity|]. specialize (H b (or_introl eq_refl)). lia.
Qed.

Lemma sort_nat_filter_seq : forall f n a, sort_nat (filter f (seq a n)) = filter f (seq a n).
Proof.
  intros f; induction n as [|n IH]; intros a; cbn [seq filter]; [reflexivity|].
  destruct (f a); [|apply IH].
  unfold sort_nat. cbn [fold_right]. fold (sort_nat (filter f (seq (S a) n))). rewrite IH.
  apply ins_nat_least. intros y Hy. apply filter_In in Hy. destruct Hy as [Hy _]. apply in_seq in Hy. lia.
Qed.

Lemma NoDup_app_l' {A} (l1 l2 : list A) : NoDup (l1 ++ l2) -> NoDup l2.
Proof. induction l1 as [|a l1 IH]; cbn [app]; intros H; [exact H|]. inversion H; subst. apply IH; assumption. Qed.
Lemma NoDup_app_r' {A} (l1 l2 : list A) : NoDup (l1 ++ l2) -> NoDup l1.
Proof.
  induction l1 as [|a l1 IH]; cbn [app]; intros H; [constructor|]. inversion H as [|a' l' Hn Hd]; subst.
  constructor; [|apply IH; exact Hd]. intros Hin. apply Hn. apply in_or_app. left. exact Hin.
Qed.

Fixpoint part_index (ps : list part) (i : nat) : nat :=
  match ps with [] => O | p :: r => if memn i p then O else S (part_index r i) end.

Lemma memn_In : forall x l, memn x l = true <-> In x l.
Proof.
  intros x l. unfold memn. rewrite existsb_exists. split.
  - intros (y & Hy & E). apply Nat.eqb_eq in E. subst; exact Hy.
  - intros H. exists x. split; [exact H | apply Nat.eqb_refl].
Qed.

Lemma part_index_lt : forall ps i, In i (concat ps) -> (part_index ps i < length ps)%nat.
Proof.
  induction ps as [|p r IH]; intros i Hi; [destruct Hi|].
  cbn [part_index length]. destruct (memn i p) eqn:Em; [lia|].
  cbn [concat] in Hi. apply in_app_or in Hi. destruct Hi as [Hi | Hi].
  - apply memn_In in Hi. congruence.
  - specialize (IH i Hi). lia.
Qed.

Lemma part_index_of_nth : forall ps i j, NoDup (concat ps) -> (j < length ps)%nat ->
  In i (nth j ps []) -> part_index ps i = j.
Proof.
  induction ps as [|p r IH]; intros i j Hnd Hj Hi; cbn [length] in Hj; [lia|].
  cbn [part_index]. cbn [concat] in Hnd. destruct j as [|j]; cbn [nth] in Hi.
  - apply memn_In in Hi. rewrite Hi. reflexivity.
  - destruct (memn i p) eqn:Em.
    + exfalso. apply memn_In in Em. apply (NoDup_app_disjoint' _ _ i Hnd Em).
      apply in_concat. exists (nth j r []). split; [apply nth_In; lia | exact Hi].
    + f_equal. apply IH; [exact (NoDup_app_l' _ _ Hnd) | lia | exact Hi].
Qed.

Lemma nth_of_part_index : forall ps i, In i (concat ps) -> In i (nth (part_index ps i) ps []).
Proof.
  induction ps as [|p r IH]; intros i Hi; [destruct Hi|].
  cbn [part_index]. destruct (memn i p) eqn:Em; cbn [nth].
  - apply memn_In; exact Em.
  - cbn [concat] in Hi. apply in_app_or in Hi. destruct Hi as [Hi | Hi].
    + apply memn_In in Hi. congruence.
    + apply IH; exact Hi.
Qed.

Lemma NoDup_concat_part : forall (ps : list part) p, NoDup (concat ps) -> In p ps -> NoDup p.
Proof.
  induction ps as [|q r IH]; intros p Hnd Hp; [destruct Hp|].
  cbn [concat] in Hnd. destruct Hp as [-> | Hp].
  - exact (NoDup_app_r' _ _ Hnd).
  - apply IH; [exact (NoDup_app_l' _ _ Hnd) | exact Hp].
Qed.

Lemma block_of_map : forall (g : nat -> nat) j n,
  block_of (map g (seq 0 n)) j = filter (fun i => (g i =? j)%nat) (seq 0 n).
Proof.
  intros g j n. unfold block_of. rewrite map_length, seq_length.
  generalize (seq 0 n) as l. induction l as [|a l IH]; cbn [map combine filter snd fst]; [reflexivity|].
  destruct (g a =? j)%nat; cbn [map fst]; rewrite IH; reflexivity.
Qed.

Lemma in_labelings : forall k n l, length l = n -> (forall x, In x l -> (x < k)%nat) -> In l (labelings n k).
Proof.
  intros k; induction n as [|n IH]; intros l Hl Hb.
  - destruct l; [left; reflexivity | discriminate].
  - destruct l as [|x l]; [discriminate|]. cbn [labelings]. apply in_flat_map. exists l. split.
    + apply IH; [cbn [length] in Hl; lia | intros y Hy; apply Hb; right; exact Hy].
    + apply in_map_iff. exists x. split; [reflexivity|]. apply in_seq.
      specialize (Hb x (or_introl eq_refl)). lia.
Qed.

Lemma map_seq_nth : forall (f : nat -> part) ps, (forall j, (j < length ps)%nat -> f j = nth j ps []) ->
  map f (seq 0 (length ps)) = ps.
Proof.
  intros f ps H. apply (nth_ext _ _ (f O) []).
  - rewrite map_length, seq_length. reflexivity.
  - intros j Hj. rewrite map_length, seq_length in Hj. rewrite map_nth, seq_nth by exact Hj.
    apply H. exact Hj.
Qed.

Lemma length_concat_nonempty : forall ps : list part, forallb nonempty ps = true ->
  (length ps <= length (concat ps))%nat.
Proof.
  induction ps as [|p r IH]; intros H; cbn [length concat]; [lia|].
  cbn [forallb] in H. apply andb_prop in H. destruct H as [Hp Hr]. specialize (IH Hr).
  rewrite app_length. destruct p; [discriminate | cbn [length]; lia].
Qed.

(* every ordered partition of {0..n-1} into non-empty sorted blocks is enumerated by osp *)
Lemma osp_complete : forall n ps, forallb nonempty ps = true -> Permutation (concat ps) (seq 0 n) ->
  Forall (fun p => sort_nat p = p) ps -> In ps (osp n (length ps)).
Proof.
  intros n ps Hne P Hsorted.
  assert (Hnd : NoDup (concat ps)) by (apply (Permutation_NoDup (Permutation_sym P)), seq_NoDup).
  assert (Hin : forall i, In i (concat ps) <-> (i < n)%nat).
  { intros i; split; intros Hi.
    - apply (Permutation_in _ P) in Hi. apply in_seq in Hi. lia.
    - apply (Permutation_in _ (Permutation_sym P)). apply in_seq. lia. }
  unfold osp. apply filter_In. split; [|exact Hne].
  apply in_map_iff. exists (map (part_index ps) (seq 0 n)). split.
  - apply map_seq_nth. intros j Hj. rewrite block_of_map.
    set (fl := filter (fun i => (part_index ps i =? j)%nat) (seq 0 n)).
    assert (Hpj : In (nth j ps []) ps) by (apply nth_In; exact Hj).
    rewrite Forall_forall in Hsorted. rewrite <- (Hsorted _ Hpj).
    unfold fl. rewrite <- sort_nat_filter_seq. fold fl.
    apply sort_nat_perm_eq. apply NoDup_Permutation.
    + apply NoDup_filter, seq_NoDup.
    + exact (NoDup_concat_part ps _ Hnd Hpj).
    + intros i. unfold fl. rewrite filter_In, in_seq, Nat.eqb_eq. split.
      * intros [Hi E]. rewrite <- E. apply nth_of_part_index. apply Hin. lia.
      * intros Hi. assert (Hic : In i (concat ps)) by (apply in_concat; exists (nth j ps []); split; assumption).
        split; [apply Hin in Hic; lia | apply part_index_of_nth; assumption].
  - apply in_labelings; [rewrite map_length, seq_length; reflexivity|].
    intros x Hx. apply in_map_iff in Hx. destruct Hx as (i & <- & Hi). apply in_seq in Hi.
    apply part_index_lt. apply Hin. lia.
Qed.

Theorem canon_oparts_complete : forall d ps, valid_opart d ps = true ->
  Forall (fun p => sort_nat p = p) ps -> In ps (canon_oparts d).
Proof.
  intros d ps H Hsorted. unfold valid_opart in H.
  apply andb_prop in H. destruct H as [H Hsort].
  apply andb_prop in H. destruct H as [H Hlast].
  apply andb_prop in H. destruct H as [Hparts Hne].
  destruct (list_eq_dec Nat.eq_dec (sort_nat (concat ps)) (seq 0 (S d))) as [E|]; [|discriminate].
  assert (P : Permutation (concat ps) (seq 0 (S d))) by (rewrite <- E; symmetry; apply sort_nat_perm).
  unfold canon_oparts. apply in_flat_map. exists (length ps). split.
  - apply in_seq. pose proof (length_concat_nonempty ps Hparts) as Hle.
    rewrite (Permutation_length P), seq_length in Hle.
    destruct ps; [discriminate | cbn [length] in *; lia].
  - apply filter_In. split; [|exact Hlast]. apply osp_complete; assumption.
Qed.
Print Assumptions canon_oparts_complete.

(* ------------------------------------------------------------------ C for every valid simplex with sorted parts *)
Definition sorted_parts (s : simplex) : Prop := Forall (fun p => sort_nat p = p) (snd s).

Theorem faces_ok_valid_le4 : forall s k, (1 <= length (fst s) <= 4)%nat -> valid_simplex s = true ->
  sorted_parts s -> (k <= dimension s)%nat -> faces_ok k s = true.
Proof.
  intros [v ps] k Hd Hv Hs Hk. apply (faces_ok_le4 (length v)); auto using canon_oparts_complete.
Qed.
Print Assumptions faces_ok_valid_le4.

Theorem cofaces_ok_valid_le4 : forall s l, (1 <= length (fst s) <= 4)%nat -> valid_simplex s = true ->
  sorted_parts s -> (dimension s <= l <= length (fst s))%nat -> cofaces_ok l s = true.
Proof.
  intros [v ps] l Hd Hv Hs Hl. apply (cofaces_ok_le4 (length v)); auto using canon_oparts_complete.
Qed.
Print Assumptions cofaces_ok_valid_le4.

Theorem faces_cofaces_ok_valid_le4 : forall s k, (1 <= length (fst s) <= 4)%nat -> valid_simplex s = true ->
  sorted_parts s -> (k <= dimension s)%nat -> faces_cofaces_ok k s = true.
Proof.
  intros [v ps] k Hd Hv Hs Hk. apply (faces_cofaces_ok_le4 (length v)); auto using canon_oparts_complete.
Qed.
Print Assumptions faces_cofaces_ok_valid_le4.

(* ================================================================== is_face_of = spec_is_face, every dimension *)
(* the vertices visited by is_face_of: like vertices_from, but with incr_part (no special case for the index d) *)
Fixpoint incr_vertices (v : vertex) (op : opart) : list vertex :=
  match op with [] => [] | p :: r => v :: incr_vertices (incr_part v p) r end.

Lemma upd_part_incr_part : forall d p v, (forall i, In i p -> i <> d) -> upd_part d v p = incr_part v p.
Proof.
  intros d; unfold upd_part, incr_part. induction p as [|i p IH]; intros v H; cbn [fold_left]; [reflexivity|].
  assert (Hi : upd_index d v i = incr_at v i).
  { unfold upd_index. destruct (Nat.eqb_spec i d) as [E|]; [|reflexivity].
    exfalso. apply (H i); [left; reflexivity | exact E]. }
  rewrite Hi. apply IH. intros j Hj. apply H. right. exact Hj.
Qed.

Lemma vertices_from_incr_vertices : forall d ps v,
  (forall p, In p (removelast ps) -> forall i, In i p -> i <> d) ->
  vertices_from d v ps = incr_vertices v ps.
Proof.
  intros d; induction ps as [|p r IH]; intros v H; cbn [vertices_from incr_vertices]; [reflexivity|].
  destruct r as [|q r']; [reflexivity|].
  change (removelast (p :: q :: r')) with (p :: removelast (q :: r')) in H.
  rewrite upd_part_incr_part by (apply H; left; reflexivity).
  f_equal. apply IH. intros p' Hp'. apply H. right. exact Hp'.
Qed.

(* strictly increasing coordinate sums *)
Fixpoint ssorted (l : list vertex) : Prop :=
  match l with [] => True | x :: r => (forall y, In y r -> zsum x < zsum y) /\ ssorted r end.

Lemma vertices_from_ssorted : forall d ps v, length v = d ->
  (forall p, In p (removelast ps) -> p <> [] /\ forall i, In i p -> (i < d)%nat) ->
  ssorted (vertices_from d v ps) /\ forall w, In w (vertices_from d v ps) -> zsum v <= zsum w.
Proof.
  intros d; induction ps as [|p r IH]; intros v Hv Hps; cbn [vertices_from].
  - split; [exact I | intros w []].
  - destruct r as [|q r'].
    + cbn [vertices_from ssorted]. split.
      * split; [intros y [] | exact I].
      * intros w [<- | []]; lia.
    + change (removelast (p :: q :: r')) with (p :: removelast (q :: r')) in Hps.
      assert (Hp : p <> [] /\ forall i, In i p -> (i < d)%nat) by (apply Hps; left; reflexivity).
      destruct Hp as [Hne Hlt].
      destruct (upd_part_lt d p v Hv Hlt) as [HL HS].
      destruct (IH (upd_part d v p) HL) as [HN HW].
      { intros p' Hp'. apply Hps. right. exact Hp'. }
      assert (Hlen : (0 < length p)%nat) by (destruct p; [congruence | cbn [length]; lia]).
      split.
      * cbn [ssorted]. split; [|exact HN]. intros y Hin. apply HW in Hin. lia.
      * intros w [<- | Hin]; [lia|]. apply HW in Hin. lia.
Qed.

Lemma canonical_removelast : forall v ps, canonical (v, ps) ->
  forall p, In p (removelast ps) -> p <> [] /\ forall i, In i p -> (i < length v)%nat.
Proof.
  intros v ps Hc. unfold canonical in Hc. cbv zeta in Hc. cbn [fst snd] in Hc.
  destruct Hc as (Hne & Hparts & Hnd & Hall & Hlast). intros p Hp.
  assert (Hin : In p ps) by (apply in_removelast'; exact Hp).
  split.
  - rewrite Forall_forall in Hparts. apply Hparts. exact Hin.
  - intros i Hi.
    assert (Hic : In i (concat ps)) by (apply in_concat; exists p; split; assumption).
    assert (Hle : (i <= length v)%nat) by (apply Hall; exact Hic).
    assert (Hned : i <> length v).
    { intros ->.
      pose proof (app_removelast_last [] Hne) as E. rewrite E in Hnd.
      rewrite concat_app in Hnd. cbn [concat] in Hnd. rewrite app_nil_r in Hnd.
      apply (NoDup_app_disjoint' _ _ (length v) Hnd); [|exact Hlast].
      apply in_concat. exists p. split; assumption. }
    lia.
Qed.

Lemma ssorted_app : forall pre l, ssorted (pre ++ l) ->
  ssorted l /\ forall y x, In y pre -> In x l -> zsum y < zsum x.
Proof.
  induction pre as [|a pre IH]; intros l H; cbn [app ssorted] in H.
  - split; [exact H | intros y x []].
  - destruct H as [Ha Hs]. destruct (IH l Hs) as [H1 H2]. split; [exact H1|].
    intros y x [<- | Hy] Hx; [apply Ha, in_or_app; right; exact Hx | apply H2; assumption].
Qed.

Lemma veqb_eq : forall a b, veqb a b = true -> a = b.
Proof.
  induction a as [|x r IH]; intros [|y q] H; cbn [veqb] in H; try discriminate; [reflexivity|].
  apply andb_prop in H. destruct H as [H1 H2]. apply Z.eqb_eq in H1. rewrite H1, (IH q H2). reflexivity.
Qed.

Lemma veqb_refl : forall a, veqb a a = true.
Proof. induction a as [|x r IH]; cbn [veqb]; [reflexivity | rewrite Z.eqb_refl, IH; reflexivity]. Qed.

Lemma existsb_veqb_false : forall v l, (forall x, In x l -> veqb v x = false) -> existsb (veqb v) l = false.
Proof.
  intros v; induction l as [|a l IH]; intros H; cbn [existsb]; [reflexivity|].
  rewrite (H a (or_introl eq_refl)), IH; [reflexivity|]. intros x Hx. apply H. right. exact Hx.
Qed.

Lemma forallb_ext_in' {A} (f g : A -> bool) (l : list A) :
  (forall x, In x l -> f x = g x) -> forallb f l = forallb g l.
Proof.
  induction l as [|a l IH]; intros H; cbn [forallb]; [reflexivity|].
  rewrite (H a (or_introl eq_refl)), IH; [reflexivity|]. intros x Hx. apply H. right. exact Hx.
Qed.

Lemma ifo_inner_cons : forall vs vo p rest, ifo_inner vs vo (p :: rest) =
  if veqb vs vo then Some (vo, p :: rest)
  else match rest with [] => None | _ => ifo_inner vs (incr_part vo p) rest end.
Proof. reflexivity. Qed.

Lemma ifo_outer_cons : forall p srest vs vo op, ifo_outer (p :: srest) vs vo op =
  match ifo_inner vs vo op with
  | None => false
  | Some (v', op') => match op' with
                      | [] => false
                      | _ => match srest with [] => true | _ => ifo_outer srest (incr_part vs p) v' op' end
                      end
  end.
Proof. reflexivity. Qed.

(* ifo_inner skips the vertices of t different from v_self and stops at the first equal one *)
Lemma ifo_inner_spec : forall vs op vo,
  match ifo_inner vs vo op with
  | None => forall x, In x (incr_vertices vo op) -> veqb vs x = false
  | Some (v', op') => exists pre, incr_vertices vo op = pre ++ incr_vertices v' op' /\
                                  (forall x, In x pre -> veqb vs x = false) /\
                                  match op' with [] => True | _ => veqb vs v' = true end
  end.
Proof.
  intros vs; induction op as [|p rest IH]; intros vo.
  - cbn [ifo_inner]. exists []. split; [reflexivity | split; [intros x [] | exact I]].
  - rewrite ifo_inner_cons. destruct (veqb vs vo) eqn:E.
    + exists []. split; [reflexivity | split; [intros x [] | exact E]].
    + specialize (IH (incr_part vo p)). destruct rest as [|q rest'].
      * cbn [incr_vertices]. intros x [<- | []]. exact E.
      * destruct (ifo_inner vs (incr_part vo p) (q :: rest')) as [[v' op']|].
        -- destruct IH as (pre & E1 & E2 & E3). exists (vo :: pre). split; [|split].
           ++ change (incr_vertices vo (p :: q :: rest')) with (vo :: incr_vertices (incr_part vo p) (q :: rest')).
              rewrite E1. reflexivity.
           ++ intros x [<- | Hx]; [exact E | apply E2; exact Hx].
           ++ exact E3.
        -- change (incr_vertices vo (p :: q :: rest')) with (vo :: incr_vertices (incr_part vo p) (q :: rest')).
           intros x [<- | Hx]; [exact E | apply IH; exact Hx].
Qed.

(* on lists with strictly increasing coordinate sums the greedy scan of is_face_of decides inclusion *)
Lemma ifo_outer_spec : forall sp vs vo op,
  ssorted (incr_vertices vs sp) -> ssorted (incr_vertices vo op) ->
  ifo_outer sp vs vo op = subset_v (incr_vertices vs sp) (incr_vertices vo op).
Proof.
  induction sp as [|p srest IH]; intros vs vo op HS HT; [reflexivity|].
  rewrite ifo_outer_cons. cbn [incr_vertices]. unfold subset_v. cbn [forallb].
  pose proof (ifo_inner_spec vs op vo) as Hi.
  destruct (ifo_inner vs vo op) as [[v' op']|].
  - destruct Hi as (pre & E1 & E2 & E3). destruct op' as [|p' op''].
    + cbn [incr_vertices] in E1. rewrite app_nil_r in E1. rewrite E1.
      rewrite (existsb_veqb_false vs pre E2). reflexivity.
    + assert (Ev : vs = v') by (apply veqb_eq; exact E3).
      assert (Hex : existsb (veqb vs) (incr_vertices vo op) = true).
      { apply existsb_exists. exists v'. split; [|exact E3]. rewrite E1. apply in_or_app. right. left. reflexivity. }
      rewrite Hex. cbn [andb].
      destruct srest as [|q srest']; [reflexivity|].
      rewrite E1 in HT. destruct (ssorted_app _ _ HT) as [HT' Hlt].
      cbn [incr_vertices ssorted] in HS. destruct HS as [HS1 HS2].
      rewrite IH; [| exact HS2 | exact HT'].
      unfold subset_v. apply forallb_ext_in'. intros x Hx.
      cbv beta. rewrite E1, existsb_app.
      match goal with |- _ = ?a || _ => destruct a eqn:Epre end; [exfalso | reflexivity].
      apply existsb_exists in Epre. destruct Epre as (y & Hy & Exy).
      apply veqb_eq in Exy. subst y.
      specialize (HS1 x Hx). specialize (Hlt x v' Hy (or_introl eq_refl)). subst v'. lia.
  - rewrite (existsb_veqb_false vs _ Hi). reflexivity.
Qed.

Lemma subset_v_incl : forall a b, subset_v a b = true -> incl a b.
Proof.
  intros a b H x Hx. unfold subset_v in H. rewrite forallb_forall in H. specialize (H x Hx).
  apply existsb_exists in H. destruct H as (y & Hy & E). apply veqb_eq in E. subst; exact Hy.
Qed.

Theorem is_face_of_iff_spec : forall s t, canonical s -> canonical t -> is_face_of s t = spec_is_face s t.
Proof.
  intros s t Hs Ht.
  destruct (vertices_distinct_count s Hs) as [HlS HndS].
  destruct (vertices_distinct_count t Ht) as [HlT _].
  destruct s as [vs sp], t as [vt tp].
  pose proof (canonical_removelast vs sp Hs) as Hrs.
  pose proof (canonical_removelast vt tp Ht) as Hrt.
  assert (ES : vertex_range (vs, sp) = incr_vertices vs sp).
  { apply vertices_from_incr_vertices. intros p Hp i Hi. destruct (Hrs p Hp) as [_ H]. specialize (H i Hi).
    cbn [fst]. lia. }
  assert (ET : vertex_range (vt, tp) = incr_vertices vt tp).
  { apply vertices_from_incr_vertices. intros p Hp i Hi. destruct (Hrt p Hp) as [_ H]. specialize (H i Hi).
    cbn [fst]. lia. }
  assert (SS : ssorted (incr_vertices vs sp)).
  { rewrite <- ES. apply (vertices_from_ssorted (length vs) sp vs eq_refl Hrs). }
  assert (ST : ssorted (incr_vertices vt tp)).
  { rewrite <- ET. apply (vertices_from_ssorted (length vt) tp vt eq_refl Hrt). }
  unfold is_face_of. destruct (Nat.ltb_spec (dimension (vt, tp)) (dimension (vs, sp))) as [Hlt | Hge].
  - destruct (spec_is_face (vs, sp) (vt, tp)) eqn:E; [|reflexivity]. exfalso.
    unfold spec_is_face in E. apply subset_v_incl in E.
    pose proof (NoDup_incl_length HndS E) as Hlen. lia.
  - cbn [fst snd]. unfold spec_is_face. rewrite ES, ET. apply ifo_outer_spec; assumption.
Qed.
Print Assumptions is_face_of_iff_spec.

(* ================================================================== faces: soundness in every dimension *)
(* ---- the update of a vertex does not depend on the order of the indices *)
Lemma incr_at_comm : forall v i j, incr_at (incr_at v i) j = incr_at (incr_at v j) i.
Proof.
  induction v as [|x r IH]; intros [|i] [|j]; cbn [incr_at]; try reflexivity.
  f_equal. apply IH.
Qed.

Lemma decr_all_incr_at : forall v i, decr_all (incr_at v i) = incr_at (decr_all v) i.
Proof.
  unfold decr_all. induction v as [|x r IH]; intros [|i]; cbn [incr_at map]; try reflexivity.
  - f_equal. lia.
  - f_equal. apply IH.
Qed.

Lemma upd_index_comm : forall d v i j, upd_index d (upd_index d v i) j = upd_index d (upd_index d v j) i.
Proof.
  intros d v i j. unfold upd_index. destruct (Nat.eqb i d), (Nat.eqb j d); try reflexivity.
  - symmetry. apply decr_all_incr_at.
  - apply decr_all_incr_at.
  - apply incr_at_comm.
Qed.

Lemma fold_upd_index_perm : forall d p q, Permutation p q ->
  forall v, fold_left (upd_index d) p v = fold_left (upd_index d) q v.
Proof.
  intros d p q H. induction H as [| x l l' _ IH | x y l | l l' l'' _ IH1 _ IH2]; intros v; cbn [fold_left].
  - reflexivity.
  - apply IH.
  - rewrite upd_index_comm. reflexivity.
  - rewrite IH1. apply IH2.
Qed.

Lemma upd_part_sort_nat : forall d v p, upd_part d v (sort_nat p) = upd_part d v p.
Proof. intros d v p. unfold upd_part. apply fold_upd_index_perm, sort_nat_perm. Qed.

(* ---- the j-th vertex: all indices of the first j parts applied to the base vertex *)
Definition vertex_at (d : nat) (v : vertex) (ps : opart) (j : nat) : vertex :=
  fold_left (upd_index d) (concat (firstn j ps)) v.

Lemma vertices_from_vertex_at : forall d ps v,
  vertices_from d v ps = map (vertex_at d v ps) (seq 0 (length ps)).
Proof.
  intros d; induction ps as [|p r IH]; intros v; [reflexivity|].
  cbn [vertices_from length seq map]. f_equal.
  rewrite IH, <- seq_shift, map_map. apply map_ext. intros j.
  unfold vertex_at. cbn [firstn concat]. rewrite fold_left_app. reflexivity.
Qed.

(* ---- Combination_iterator: every enumerated value is strictly increasing, below n, of length k *)
Definition good_comb (n k : nat) (idx : list nat) : Prop :=
  length idx = k /\ (forall a b, (a < b < k)%nat -> (nthn idx a < nthn idx b)%nat) /\
  (forall a, (a < k)%nat -> (nthn idx a < n)%nat).

Lemma length_setn : forall l i x, length (setn l i x) = length l.
Proof. induction l as [|y r IH]; intros [|i] x; cbn [setn length]; auto. Qed.

Lemma nthn_setn : forall l i x a, (i < length l)%nat ->
  nthn (setn l i x) a = if (a =? i)%nat then x else nthn l a.
Proof.
  unfold nthn. induction l as [|y r IH]; intros i x a Hi; cbn [length] in Hi; [lia|].
  destruct i as [|i]; destruct a as [|a]; cbn [setn nth Nat.eqb]; try reflexivity.
  apply IH. lia.
Qed.

Lemma nth_firstn' {A} : forall (l : list A) n a d, (a < n)%nat -> nth a (firstn n l) d = nth a l d.
Proof.
  induction l as [|x l IH]; intros n a d Ha.
  - rewrite firstn_nil. reflexivity.
  - destruct n as [|n]; [lia|]. destruct a as [|a]; cbn [firstn nth]; [reflexivity|]. apply IH. lia.
Qed.

Lemma comb_carry_good : forall n k value, (k <= n)%nat -> good_comb n k value ->
  forall j, (j <= k)%nat -> good_comb n k (comb_carry n k value j).
Proof.
  intros n k value Hkn (HL & HI & HB). induction j as [|j IH]; intros Hj; cbn [comb_carry].
  - repeat split; assumption.
  - destruct (Nat.ltb_spec (nthn value j) (n - k + j)) as [Hlt | Hge]; [|apply IH; lia].
    set (x := nthn value j) in *.
    assert (HN : forall a, (a < k)%nat ->
              nthn (firstn j value ++ map (fun t => (S x + t)%nat) (seq 0 (k - j))) a =
              if (a <? j)%nat then nthn value a else (S x + (a - j))%nat).
    { intros a Ha. unfold nthn. destruct (Nat.ltb_spec a j) as [Haj | Haj].
      - rewrite app_nth1 by (rewrite firstn_length; lia). apply nth_firstn'. exact Haj.
      - rewrite app_nth2 by (rewrite firstn_length; lia). rewrite firstn_length, Nat.min_l by lia.
        rewrite (nth_indep _ 0%nat (S x + 0)%nat) by (rewrite map_length, seq_length; lia).
        rewrite (map_nth (fun t => (S x + t)%nat)). rewrite seq_nth by lia. reflexivity. }
    split; [|split].
    + rewrite app_length, firstn_length, map_length, seq_length. lia.
    + intros a b Hab. rewrite !HN by lia.
      destruct (Nat.ltb_spec a j), (Nat.ltb_spec b j); try lia.
      * apply HI. lia.
      * assert (nthn value a < x)%nat by (apply HI; lia). lia.
    + intros a Ha. rewrite HN by lia. destruct (Nat.ltb_spec a j); [apply HB; lia | lia].
Qed.

Lemma comb_next_good : forall n k value v', (0 < k <= n)%nat -> good_comb n k value ->
  comb_next n k value = Some v' -> good_comb n k v'.
Proof.
  intros n k value v' Hk Hg H. unfold comb_next in H.
  destruct (nthn value 0 =? n - k)%nat; [discriminate|].
  destruct (Nat.ltb_spec (nthn value (k - 1)) (n - 1)) as [Hlt | Hge]; inversion H; subst v'; clear H.
  - destruct Hg as (HL & HI & HB). split; [|split].
    + rewrite length_setn. exact HL.
    + intros a b Hab. rewrite !nthn_setn by lia.
      destruct (Nat.eqb_spec a (k - 1)), (Nat.eqb_spec b (k - 1)); try lia.
      * assert (nthn value a < nthn value b)%nat by (apply HI; lia). subst b. lia.
      * apply HI. lia.
    + intros a Ha. rewrite nthn_setn by lia. destruct (Nat.eqb_spec a (k - 1)); [lia | apply HB; lia].
  - apply comb_carry_good; [lia | exact Hg | lia].
Qed.

Lemma comb_iter_good : forall n k, (0 < k <= n)%nat -> forall fuel value, good_comb n k value ->
  forall idx, In idx (comb_iter fuel n k value) -> good_comb n k idx.
Proof.
  intros n k Hk; induction fuel as [|f IH]; intros value Hg idx Hin; cbn [comb_iter] in Hin; [destruct Hin|].
  destruct Hin as [<- | Hin]; [exact Hg|].
  destruct (comb_next n k value) as [v'|] eqn:E; [|destruct Hin].
  apply (IH v'); [|exact Hin]. apply (comb_next_good n k value v' Hk Hg E).
Qed.

Lemma combinations_good : forall n k idx, (0 < k <= n)%nat -> In idx (combinations n k) -> good_comb n k idx.
Proof.
  intros n k idx Hk Hin. unfold combinations in Hin. destruct (n =? 0)%nat; [destruct Hin|].
  eapply (comb_iter_good n k Hk); [|exact Hin].
  split; [apply seq_length|]. split.
  - intros a b Hab. unfold nthn. rewrite !seq_nth by lia. lia.
  - intros a Ha. unfold nthn. rewrite seq_nth by lia. lia.
Qed.

(* ---- face_from_indices in structural form *)
Fixpoint pairsG {B} (G : nat -> nat -> B) (a : nat) (l : list nat) : list B :=
  match l with [] => [] | b :: r => G a b :: pairsG G b r end.
(* a < l_0 < l_1 < ... < bound *)
Fixpoint chain (a : nat) (l : list nat) (bound : nat) : Prop :=
  match l with [] => (a < bound)%nat | b :: r => (a < b)%nat /\ chain b r bound end.

Lemma length_pairsG {B} (G : nat -> nat -> B) : forall l a, length (pairsG G a l) = length l.
Proof. induction l as [|b r IH]; intros a; cbn [pairsG length]; [reflexivity | rewrite IH; reflexivity]. Qed.

Lemma map_seq_pairsG {B} (G : nat -> nat -> B) : forall l a,
  map (fun h => G (nthn (a :: l) (h - 1)) (nthn (a :: l) h)) (seq 1 (length l)) = pairsG G a l.
Proof.
  induction l as [|b r IH]; intros a; [reflexivity|].
  cbn [length seq map pairsG]. f_equal.
  rewrite <- (IH b), <- seq_shift, map_map. apply map_ext_in. intros h Hh. apply in_seq in Hh.
  destruct h as [|h]; [lia|].
  replace (S (S h) - 1)%nat with (S h) by lia. replace (S h - 1)%nat with h by lia. reflexivity.
Qed.

Lemma last_cons' {A} : forall (r : list A) a b, last (b :: r) a = last r b.
Proof. induction r as [|c r IH]; intros a b; [reflexivity|]. change (last (b :: c :: r) a) with (last (c :: r) a). rewrite (IH a c), (IH b c). reflexivity. Qed.

Lemma nthn_last : forall l a, nthn (a :: l) (length l) = last l a.
Proof.
  induction l as [|b r IH]; intros a; [reflexivity|].
  cbn [length]. change (nthn (a :: b :: r) (S (length r))) with (nthn (b :: r) (length r)).
  rewrite IH. symmetry. apply last_cons'.
Qed.

Lemma good_comb_chain : forall n l a, good_comb n (S (length l)) (a :: l) -> chain a l n.
Proof.
  intros n; induction l as [|b r IH]; intros a (HL & HI & HB); cbn [chain].
  - apply (HB O). cbn [length]. lia.
  - split.
    + apply (HI 0%nat 1%nat). cbn [length]. lia.
    + apply IH. split; [reflexivity|]. split.
      * intros x y Hxy. apply (HI (S x) (S y)). cbn [length] in *. lia.
      * intros x Hx. apply (HB (S x)). cbn [length] in *. lia.
Qed.

Lemma chain_last : forall l a n, chain a l n -> (a <= last l a < n)%nat.
Proof.
  induction l as [|b r IH]; intros a n H; cbn [chain] in H; [cbn [last]; lia|].
  destruct H as [Hab Hc]. rewrite last_cons'. specialize (IH b n Hc). lia.
Qed.

Lemma chain_bound : forall l a n, chain a l n -> forall j, In j (a :: l) -> (j < n)%nat.
Proof.
  induction l as [|b r IH]; intros a n H j Hj; cbn [chain] in H.
  - destruct Hj as [<- | []]. exact H.
  - destruct H as [Hab Hc]. destruct Hj as [<- | Hj]; [|apply (IH b n Hc j Hj)].
    pose proof (IH b n Hc b (or_introl eq_refl)). lia.
Qed.

Definition pairsC (ps : opart) : nat -> list nat -> list part := pairsG (fun x y => concat (slice ps x y)).

Lemma face_from_indices_eq : forall v ps a l,
  face_from_indices (v, ps) (a :: l) =
  (vertex_at (length v) v ps a,
   map sort_nat (pairsC ps a l ++ [concat (slice ps (last l a) (length ps)) ++ concat (firstn a ps)])).
Proof.
  intros v ps a l. unfold face_from_indices. cbn [length pred].
  rewrite (map_seq_pairsG (fun x y => concat (slice ps x y))), nthn_last. reflexivity.
Qed.

(* ---- slices *)
Lemma firstn_add' {A} : forall x y (m : list A), firstn x m ++ firstn y (skipn x m) = firstn (x + y) m.
Proof.
  induction x as [|x IH]; intros y m; [reflexivity|].
  destruct m as [|c m]; [cbn [skipn firstn Nat.add app]; rewrite firstn_nil; reflexivity|].
  cbn [firstn skipn Nat.add app]. rewrite IH. reflexivity.
Qed.

Lemma skipn_add' {A} : forall y x (l : list A), skipn x (skipn y l) = skipn (y + x) l.
Proof.
  induction y as [|y IH]; intros x l; [reflexivity|].
  destruct l as [|c l]; [cbn [skipn Nat.add]; rewrite skipn_nil; reflexivity|].
  cbn [skipn Nat.add]. apply IH.
Qed.

Lemma firstn_slice {A} : forall (l : list A) a b, (a <= b)%nat -> firstn a l ++ slice l a b = firstn b l.
Proof. intros l a b H. unfold slice. rewrite firstn_add'. f_equal. lia. Qed.

Lemma slice_slice {A} : forall (l : list A) a b c, (a <= b <= c)%nat -> slice l a b ++ slice l b c = slice l a c.
Proof.
  intros l a b c H. unfold slice.
  replace (skipn b l) with (skipn (b - a) (skipn a l)) by (rewrite skipn_add'; f_equal; lia).
  rewrite firstn_add'. f_equal. lia.
Qed.

Lemma slice_to_end {A} : forall (l : list A) a, slice l a (length l) = skipn a l.
Proof. intros l a. unfold slice. apply firstn_all2. rewrite skipn_length. lia. Qed.

Lemma slice_nil {A} : forall (l : list A) a, slice l a a = [].
Proof. intros l a. unfold slice. rewrite Nat.sub_diag. reflexivity. Qed.

Lemma concat_pairsC : forall ps l a n, chain a l n -> concat (pairsC ps a l) = concat (slice ps a (last l a)).
Proof.
  intros ps; unfold pairsC; induction l as [|b r IH]; intros a n H; cbn [chain] in H.
  - cbn [pairsG last concat]. rewrite slice_nil. reflexivity.
  - destruct H as [Hab Hc]. cbn [pairsG concat]. rewrite (IH b n Hc), last_cons', <- concat_app.
    rewrite slice_slice; [reflexivity|]. pose proof (chain_last r b n Hc). lia.
Qed.

(* ---- the vertices of the face are the vertices of s at the chosen positions *)
Lemma vertices_from_pairsC : forall d v ps l a z, chain a l (length ps) ->
  vertices_from d (vertex_at d v ps a) (map sort_nat (pairsC ps a l ++ [z])) = map (vertex_at d v ps) (a :: l).
Proof.
  intros d v ps; unfold pairsC; induction l as [|b r IH]; intros a z H; cbn [chain] in H.
  - reflexivity.
  - destruct H as [Hab Hc]. cbn [pairsG app map vertices_from]. f_equal.
    assert (E : upd_part d (vertex_at d v ps a) (sort_nat (concat (slice ps a b))) = vertex_at d v ps b).
    { rewrite upd_part_sort_nat. unfold upd_part, vertex_at.
      rewrite <- fold_left_app, <- concat_app, firstn_slice by lia. reflexivity. }
    rewrite E. apply (IH b z Hc).
Qed.

Lemma length_upd_index : forall d v i, length (upd_index d v i) = length v.
Proof.
  intros d v i. unfold upd_index. destruct (Nat.eqb i d); [unfold decr_all; apply map_length | apply length_incr_at].
Qed.

Lemma length_vertex_at : forall d v ps j, length (vertex_at d v ps j) = length v.
Proof.
  intros d v ps j. unfold vertex_at. generalize (concat (firstn j ps)) as p. intros p; revert v.
  induction p as [|i p IH]; intros v; cbn [fold_left]; [reflexivity|].
  rewrite IH. apply length_upd_index.
Qed.

(* ---- the partition of the face is valid *)
Lemma nonempty_sort_nat : forall p, nonempty (sort_nat p) = nonempty p.
Proof.
  intros [|x r]; [reflexivity|]. unfold sort_nat. cbn [fold_right nonempty].
  destruct (fold_right ins_nat [] r) as [|y q]; cbn [ins_nat]; [reflexivity|].
  destruct (Nat.leb x y); reflexivity.
Qed.

Lemma skipn_cons_in {A} : forall (l : list A) x, (x < length l)%nat -> exists p r, skipn x l = p :: r /\ In p l.
Proof.
  induction l as [|c l IH]; intros x Hx; cbn [length] in Hx; [lia|].
  destruct x as [|x].
  - exists c, l. split; [reflexivity | left; reflexivity].
  - destruct (IH x) as (p & r & E & Hin); [lia|]. exists p, r. split; [exact E | right; exact Hin].
Qed.

Lemma nonempty_concat_slice : forall (ps : opart) x y, forallb nonempty ps = true ->
  (x < y)%nat -> (x < length ps)%nat -> nonempty (concat (slice ps x y)) = true.
Proof.
  intros ps x y Hne Hxy Hx. unfold slice.
  destruct (skipn_cons_in ps x Hx) as (p & r & E & Hin). rewrite E.
  destruct (y - x)%nat as [|m] eqn:Em; [lia|]. cbn [firstn concat].
  rewrite forallb_forall in Hne. specialize (Hne p Hin). destruct p; [discriminate | reflexivity].
Qed.

Lemma last_in_skipn {A} : forall (l : list A) m dflt, (m < length l)%nat -> In (last l dflt) (skipn m l).
Proof.
  induction l as [|c l IH]; intros m dflt Hm; cbn [length] in Hm; [lia|].
  destruct m as [|m].
  - cbn [skipn]. destruct l as [|c' l']; [left; reflexivity|].
    right. rewrite last_cons'. apply (IH 0%nat c). cbn [length]. lia.
  - cbn [skipn]. destruct l as [|c' l']; [cbn [length] in Hm; lia|].
    rewrite last_cons'. apply IH. cbn [length] in *. lia.
Qed.

Lemma perm_concat_map_sort : forall Q : list part, Permutation (concat (map sort_nat Q)) (concat Q).
Proof.
  induction Q as [|p Q IH]; cbn [map concat]; [constructor|].
  apply Permutation_app; [apply sort_nat_perm | exact IH].
Qed.

Lemma face_opart_valid : forall d ps l a, valid_opart d ps = true -> chain a l (length ps) ->
  valid_opart d (map sort_nat (pairsC ps a l ++ [concat (slice ps (last l a) (length ps)) ++ concat (firstn a ps)])) = true.
Proof.
  intros d ps l a H Hc. unfold valid_opart in H.
  apply andb_prop in H. destruct H as [H Hsort].
  apply andb_prop in H. destruct H as [H Hlast].
  apply andb_prop in H. destruct H as [Hparts Hne].
  destruct (list_eq_dec Nat.eq_dec (sort_nat (concat ps)) (seq 0 (S d))) as [E|]; [|discriminate].
  pose proof (chain_last l a _ Hc) as Hla.
  set (tail := concat (slice ps (last l a) (length ps))).
  set (lead := concat (firstn a ps)).
  assert (Htail : nonempty tail = true) by (apply nonempty_concat_slice; [exact Hparts | lia | lia]).
  unfold valid_opart. rewrite !andb_true_iff. split; [split; [split|]|].
  - rewrite forallb_forall. intros q Hq. apply in_map_iff in Hq. destruct Hq as (q0 & <- & Hq0).
    rewrite nonempty_sort_nat. apply in_app_or in Hq0. destruct Hq0 as [Hq0 | [<- | []]].
    + (* an inner part *)
      clear - Hq0 Hc Hparts. revert a Hc Hq0. unfold pairsC. induction l as [|b r IH]; intros a Hc Hq0; [destruct Hq0|].
      cbn [chain] in Hc. destruct Hc as [Hab Hc]. cbn [pairsG] in Hq0. destruct Hq0 as [<- | Hq0].
      * apply nonempty_concat_slice; [exact Hparts | exact Hab |].
        pose proof (chain_last r b _ Hc). lia.
      * apply (IH b Hc Hq0).
    + destruct tail; [discriminate | reflexivity].
  - destruct (pairsC ps a l); reflexivity.
  - rewrite map_app. cbn [map]. rewrite last_last. apply memn_In.
    apply (Permutation_in _ (Permutation_sym (sort_nat_perm _))). apply in_or_app. left.
    unfold tail. rewrite slice_to_end. apply in_concat. exists (last ps []). split.
    + apply last_in_skipn. apply Hla.
    + apply memn_In. exact Hlast.
  - assert (P : Permutation (concat (map sort_nat (pairsC ps a l ++ [tail ++ lead]))) (concat ps)).
    { etransitivity; [apply perm_concat_map_sort|].
      rewrite concat_app. cbn [concat]. rewrite app_nil_r, (concat_pairsC ps l a _ Hc).
      unfold tail. rewrite app_assoc, <- concat_app, slice_slice by lia.
      rewrite slice_to_end. unfold lead.
      etransitivity; [apply Permutation_app_comm|]. rewrite <- concat_app, firstn_skipn. reflexivity. }
    rewrite (sort_nat_perm_eq _ _ P), E.
    destruct (list_eq_dec Nat.eq_dec (seq 0 (S d)) (seq 0 (S d))) as [|Hn]; [reflexivity | exfalso; apply Hn; reflexivity].
Qed.

(* ---- canonical <-> valid_simplex *)
Lemma filter_true {A} : forall l : list A, filter (fun _ => true) l = l.
Proof. induction l as [|x l IH]; cbn [filter]; [reflexivity | rewrite IH; reflexivity]. Qed.

Lemma sort_nat_seq : forall a n, sort_nat (seq a n) = seq a n.
Proof. intros a n. rewrite <- (filter_true (seq a n)). apply sort_nat_filter_seq. Qed.

Theorem canonical_valid_simplex : forall s, canonical s -> valid_simplex s = true.
Proof.
  intros [v ps] Hc. unfold canonical in Hc. cbv zeta in Hc. cbn [fst snd] in Hc.
  destruct Hc as (Hne & Hparts & Hnd & Hall & Hlast).
  unfold valid_simplex, valid_opart. cbn [fst snd]. rewrite !andb_true_iff. split; [split; [split|]|].
  - rewrite forallb_forall. rewrite Forall_forall in Hparts. intros p Hp. specialize (Hparts p Hp).
    destruct p; [congruence | reflexivity].
  - destruct ps; [congruence | reflexivity].
  - apply memn_In. exact Hlast.
  - assert (P : Permutation (concat ps) (seq 0 (S (length v)))).
    { apply NoDup_Permutation; [exact Hnd | apply seq_NoDup|]. intros i. rewrite Hall, in_seq. lia. }
    rewrite (sort_nat_perm_eq _ _ P), sort_nat_seq.
    destruct (list_eq_dec Nat.eq_dec (seq 0 (S (length v))) (seq 0 (S (length v)))) as [|Hn];
      [reflexivity | exfalso; apply Hn; reflexivity].
Qed.

(* ---- the theorem *)
Theorem faces_sound : forall s k f, canonical s -> In f (faces k s) ->
  valid_simplex f = true /\ dimension f = k /\ length (fst f) = length (fst s) /\
  incl (vertex_range f) (vertex_range s) /\ NoDup (vertex_range f) /\
  spec_is_face f s = true /\ is_face_of f s = true.
Proof.
  intros [v ps] k f Hc Hin.
  pose proof (canonical_valid_simplex _ Hc) as Hv. unfold valid_simplex in Hv. cbn [fst snd] in Hv.
  assert (Hne : ps <> []) by (destruct Hc as (H & _); exact H).
  assert (Hl : S (dimension (v, ps)) = length ps) by (unfold dimension; cbn [snd]; destruct ps; [congruence | reflexivity]).
  unfold faces in Hin. cbv zeta in Hin.
  destruct (Nat.ltb_spec (dimension (v, ps)) k) as [|Hk]; [destruct Hin|].
  apply in_map_iff in Hin. destruct Hin as (idx & <- & Hidx).
  apply combinations_good in Hidx; [|lia].
  destruct idx as [|a l]; [destruct Hidx as (HL & _); discriminate|].
  assert (HL : length l = k) by (destruct Hidx as (HL & _); cbn [length] in HL; lia).
  rewrite <- HL in Hidx. apply good_comb_chain in Hidx. rewrite Hl in Hidx.
  rewrite face_from_indices_eq.
  set (z := concat (slice ps (last l a) (length ps)) ++ concat (firstn a ps)).
  set (f := (vertex_at (length v) v ps a, map sort_nat (pairsC ps a l ++ [z]))).
  assert (Hvf : valid_simplex f = true).
  { unfold valid_simplex, f. cbn [fst snd]. rewrite length_vertex_at. apply face_opart_valid; assumption. }
  assert (Hrange : vertex_range f = map (vertex_at (length v) v ps) (a :: l)).
  { unfold vertex_range, f. cbn [fst snd]. rewrite length_vertex_at. apply vertices_from_pairsC. exact Hidx. }
  assert (Hincl : incl (vertex_range f) (vertex_range (v, ps))).
  { rewrite Hrange. unfold vertex_range. cbn [fst snd]. rewrite vertices_from_vertex_at.
    intros w Hw. apply in_map_iff in Hw. destruct Hw as (j & <- & Hj).
    apply in_map. apply in_seq. pose proof (chain_bound l a _ Hidx j Hj). lia. }
  assert (Hspec : spec_is_face f (v, ps) = true).
  { unfold spec_is_face, subset_v. rewrite forallb_forall. intros w Hw. apply existsb_exists.
    exists w. split; [apply Hincl; exact Hw | apply veqb_refl]. }
  pose proof (valid_simplex_canonical f Hvf) as Hcf.
  split; [exact Hvf|]. split.
  { unfold dimension, f. cbn [snd]. rewrite map_length, app_length. unfold pairsC. rewrite length_pairsG.
    cbn [length]. lia. }
  split; [unfold f; cbn [fst]; apply length_vertex_at|].
  split; [exact Hincl|].
  split; [apply (vertices_distinct_count f Hcf)|].
  split; [exact Hspec|].
  rewrite (is_face_of_iff_spec f (v, ps) Hcf Hc). exact Hspec.
Qed.
Print Assumptions faces_sound.

(* ================================================================== Combination_iterator enumerates all combinations *)
(* ---- the carry loop with an explicit "not found" *)
Fixpoint carry_opt (n k : nat) (value : list nat) (j : nat) : option (list nat) :=
  match j with
  | O => None
  | S j' => if (nthn value j' <? n - k + j')%nat
            then Some (firstn j' value ++ map (fun t => (S (nthn value j') + t)%nat) (seq 0 (k - j')))
            else carry_opt n k value j'
  end.

Lemma carry_opt_S : forall n k value j', carry_opt n k value (S j') =
  if (nthn value j' <? n - k + j')%nat
  then Some (firstn j' value ++ map (fun t => (S (nthn value j') + t)%nat) (seq 0 (k - j')))
  else carry_opt n k value j'.
Proof. reflexivity. Qed.

Lemma comb_carry_opt : forall n k value j,
  comb_carry n k value j = match carry_opt n k value j with Some r => r | None => value end.
Proof.
  intros n k value; induction j as [|j IH]; cbn [comb_carry carry_opt]; [reflexivity|].
  destruct (nthn value j <? n - k + j)%nat; [reflexivity | exact IH].
Qed.

Lemma map_add_seq : forall m c, map (fun t => (c + t)%nat) (seq 0 m) = seq c m.
Proof.
  induction m as [|m IH]; intros c; cbn [seq map]; [reflexivity|].
  rewrite Nat.add_0_r. f_equal. rewrite <- seq_shift, map_map, <- (IH (S c)).
  apply map_ext. intros t. lia.
Qed.

(* the successor, structurally: k = length value *)
Fixpoint next_ref (n : nat) (value : list nat) : option (list nat) :=
  match value with
  | [] => None
  | a :: rest => match next_ref n rest with
                 | Some rest' => Some (a :: rest')
                 | None => if (a <? n - length value)%nat then Some (seq (S a) (length value)) else None
                 end
  end.

Lemma carry_opt_cons : forall n k a rest j, (S k <= n)%nat -> (j <= k)%nat ->
  carry_opt n (S k) (a :: rest) (S j) =
  match carry_opt n k rest j with
  | Some r => Some (a :: r)
  | None => if (a <? n - S k)%nat then Some (seq (S a) (S k)) else None
  end.
Proof.
  intros n k a rest j Hk. induction j as [|j IH]; intros Hj.
  - rewrite carry_opt_S. cbn [carry_opt]. unfold nthn. cbn [nth firstn app].
    rewrite Nat.add_0_r, Nat.sub_0_r, map_add_seq. reflexivity.
  - rewrite (carry_opt_S n (S k) (a :: rest) (S j)), (carry_opt_S n k rest j).
    change (nthn (a :: rest) (S j)) with (nthn rest j).
    replace (n - S k + S j)%nat with (n - k + j)%nat by lia.
    replace (S k - S j)%nat with (k - j)%nat by lia.
    destruct (nthn rest j <? n - k + j)%nat; [reflexivity|]. apply IH. lia.
Qed.

Lemma next_ref_carry : forall n value, (length value <= n)%nat ->
  next_ref n value = carry_opt n (length value) value (length value).
Proof.
  intros n; induction value as [|a rest IH]; intros H; [reflexivity|].
  cbn [length] in H. cbn [next_ref length]. rewrite carry_opt_cons by lia. rewrite <- IH by lia. reflexivity.
Qed.

Lemma chain_len : forall l a n, chain a l n -> (a + length l < n)%nat.
Proof.
  induction l as [|b r IH]; intros a n H; cbn [chain] in H; cbn [length]; [lia|].
  destruct H as [Hab Hc]. specialize (IH b n Hc). lia.
Qed.

Lemma next_ref_none : forall n l a, chain a l n -> (n - S (length l) <= a)%nat -> next_ref n (a :: l) = None.
Proof.
  intros n; induction l as [|b r IH]; intros a Hc Ha.
  - cbn [next_ref length] in *. destruct (Nat.ltb_spec a (n - 1)); [lia | reflexivity].
  - cbn [chain] in Hc. destruct Hc as [Hab Hc].
    change (next_ref n (a :: b :: r)) with
      (match next_ref n (b :: r) with Some rest' => Some (a :: rest')
       | None => if (a <? n - length (a :: b :: r))%nat then Some (seq (S a) (length (a :: b :: r))) else None end).
    pose proof (chain_len r b n Hc). cbn [length] in *.
    rewrite (IH b Hc) by lia. destruct (Nat.ltb_spec a (n - S (S (length r)))); [lia | reflexivity].
Qed.

Lemma carry_opt_found : forall n k value, (nthn value 0 < n - k)%nat ->
  forall j, carry_opt n k value (S j) <> None.
Proof.
  intros n k value H; induction j as [|j IH]; rewrite carry_opt_S.
  - rewrite Nat.add_0_r. destruct (Nat.ltb_spec (nthn value 0) (n - k)); [discriminate | lia].
  - destruct (nthn value (S j) <? n - k + S j)%nat; [discriminate | exact IH].
Qed.

Lemma setn_last : forall value m y, length value = S m -> setn value m y = firstn m value ++ [y].
Proof.
  induction value as [|x r IH]; intros m y H; [discriminate|].
  destruct m as [|m]; cbn [setn firstn app].
  - destruct r; [reflexivity | discriminate].
  - rewrite IH by (cbn [length] in H; lia). reflexivity.
Qed.

Lemma comb_next_ref : forall n l a, chain a l n -> comb_next n (S (length l)) (a :: l) = next_ref n (a :: l).
Proof.
  intros n l a Hc. pose proof (chain_len l a n Hc) as Hlen.
  unfold comb_next. change (nthn (a :: l) 0) with a.
  destruct (Nat.eqb_spec a (n - S (length l))) as [E | NE].
  - symmetry. apply next_ref_none; [exact Hc | lia].
  - rewrite next_ref_carry by (cbn [length]; lia). cbn [length].
    replace (S (length l) - 1)%nat with (length l) by lia.
    assert (Hsome : carry_opt n (S (length l)) (a :: l) (S (length l)) <> None).
    { apply carry_opt_found. change (nthn (a :: l) 0) with a. lia. }
    rewrite carry_opt_S in *.
    replace (n - S (length l) + length l)%nat with (n - 1)%nat in * by lia.
    destruct (nthn (a :: l) (length l) <? n - 1)%nat.
    + replace (S (length l) - length l)%nat with 1%nat by lia. cbn [seq map].
      rewrite Nat.add_0_r. rewrite setn_last by reflexivity. reflexivity.
    + rewrite comb_carry_opt. destruct (carry_opt n (S (length l)) (a :: l) (length l)); [reflexivity | congruence].
Qed.

(* ---- the reference enumeration: all k-subsets of {lo..n-1}, lexicographically *)
Fixpoint all_combs (n k lo : nat) : list (list nat) :=
  match k with
  | O => [[]]
  | S k' => flat_map (fun a => map (cons a) (all_combs n k' (S a))) (seq lo (n - k' - lo))
  end.

Inductive path (next : list nat -> option (list nat)) : list nat -> list (list nat) -> list nat -> Prop :=
| path_one : forall x, path next x [x] x
| path_step : forall x y L z, next x = Some y -> path next y L z -> path next x (x :: L) z.

Lemma path_app : forall next x L y x' L' z, path next x L y -> next y = Some x' -> path next x' L' z ->
  path next x (L ++ L') z.
Proof.
  intros next x L y x' L' z H. induction H as [x | x y0 L y Hn Hp IH]; intros Hy Hp'; cbn [app].
  - apply (path_step next x x' L' z Hy Hp').
  - apply (path_step next x y0 (L ++ L') z Hn). apply IH; assumption.
Qed.

Lemma path_cons : forall n a x L z, path (next_ref n) x L z -> path (next_ref n) (a :: x) (map (cons a) L) (a :: z).
Proof.
  intros n a x L z H. induction H as [x | x y L z Hn Hp IH]; cbn [map].
  - apply path_one.
  - apply (path_step _ (a :: x) (a :: y)); [|exact IH]. cbn [next_ref]. rewrite Hn. reflexivity.
Qed.

Lemma all_combs_path : forall n k lo, (lo + k <= n)%nat ->
  exists z, path (next_ref n) (seq lo k) (all_combs n k lo) z /\ next_ref n z = None /\ length z = k.
Proof.
  intros n; induction k as [|k IHk]; intros lo Hlo.
  - exists []. split; [apply path_one | split; reflexivity].
  - cbn [all_combs].
    assert (Hm : forall m lo, (1 <= m)%nat -> (lo + m = n - k)%nat ->
              exists z, path (next_ref n) (seq lo (S k))
                             (flat_map (fun a => map (cons a) (all_combs n k (S a))) (seq lo m)) z /\
                        next_ref n z = None /\ length z = S k).
    { induction m as [|m IHm]; intros lo' Hm1 Hlo'; [lia|].
      destruct (IHk (S lo')) as (z' & Hp & Hn & Hl); [lia|].
      pose proof (path_cons n lo' _ _ _ Hp) as Hp'.
      cbn [seq flat_map].
      destruct m as [|m].
      - exists (lo' :: z'). cbn [flat_map]. rewrite app_nil_r. split; [exact Hp'|]. split.
        + cbn [next_ref length]. rewrite Hn, Hl. destruct (Nat.ltb_spec lo' (n - S k)); [lia | reflexivity].
        + cbn [length]. rewrite Hl. reflexivity.
      - destruct (IHm (S lo')) as (z & Hq & Hzn & Hzl); [lia | lia|].
        exists z. split; [|split; assumption].
        apply (path_app _ _ _ (lo' :: z') (seq (S lo') (S k)) _ _ Hp'); [|exact Hq].
        cbn [next_ref length]. rewrite Hn, Hl. destruct (Nat.ltb_spec lo' (n - S k)); [reflexivity | lia]. }
    apply Hm; lia.
Qed.

Lemma all_combs_chain : forall n k lo x, In x (all_combs n k lo) ->
  match x with [] => k = O | a :: l => S (length l) = k /\ (lo <= a)%nat /\ chain a l n end.
Proof.
  intros n; induction k as [|k IH]; intros lo x Hx; cbn [all_combs] in Hx.
  - destruct Hx as [<- | []]. reflexivity.
  - apply in_flat_map in Hx. destruct Hx as (a & Ha & Hx). apply in_seq in Ha.
    apply in_map_iff in Hx. destruct Hx as (l & <- & Hl). specialize (IH (S a) l Hl).
    destruct l as [|b r].
    + subst k. split; [reflexivity|]. split; [lia|]. cbn [chain]. lia.
    + destruct IH as (H1 & H2 & H3). split; [cbn [length] in *; lia|]. split; [lia|].
      cbn [chain]. split; [lia | exact H3].
Qed.

Lemma comb_iter_path : forall n k x L z, path (next_ref n) x L z -> next_ref n z = None ->
  (forall y, In y L -> comb_next n k y = next_ref n y) ->
  forall fuel, (length L <= fuel)%nat -> comb_iter fuel n k x = L.
Proof.
  intros n k x L z H. induction H as [x | x y L z Hn Hp IH]; intros Hz Hall fuel Hf.
  - destruct fuel as [|f]; [cbn [length] in Hf; lia|]. cbn [comb_iter].
    rewrite (Hall x (or_introl eq_refl)), Hz. reflexivity.
  - destruct fuel as [|f]; [cbn [length] in Hf; lia|]. cbn [comb_iter].
    rewrite (Hall x (or_introl eq_refl)), Hn. f_equal.
    apply IH; [exact Hz | intros y' Hy'; apply Hall; right; exact Hy' | cbn [length] in Hf; lia].
Qed.

Lemma binom_lt : forall n k, (n < k)%nat -> binom n k = 0%nat.
Proof.
  induction n as [|n IH]; intros k H; destruct k as [|k]; try lia; [reflexivity|].
  cbn [binom]. rewrite !IH by lia. reflexivity.
Qed.

Lemma length_all_combs : forall n k lo, (lo + k <= n)%nat -> length (all_combs n k lo) = binom (n - lo) k.
Proof.
  intros n; induction k as [|k IHk]; intros lo Hlo.
  - cbn [all_combs length]. destruct (n - lo)%nat; reflexivity.
  - cbn [all_combs].
    assert (Hm : forall m lo, (lo + m = n - k)%nat -> (k <= n)%nat ->
              length (flat_map (fun a => map (cons a) (all_combs n k (S a))) (seq lo m)) = binom (n - lo) (S k)).
    { induction m as [|m IHm]; intros lo' Hlo' Hkn.
      - cbn [seq flat_map length]. symmetry. apply binom_lt. lia.
      - cbn [seq flat_map]. rewrite app_length, map_length, IHk by lia. rewrite IHm by lia.
        replace (n - lo')%nat with (S (n - S lo')) by lia. reflexivity. }
    apply Hm; lia.
Qed.

Lemma binom_le_pow2 : forall n k, (binom n k <= 2 ^ n)%nat.
Proof.
  induction n as [|n IH]; intros k; destruct k as [|k]; cbn [binom]; try (cbn; lia).
  - pose proof (Nat.pow_nonzero 2 (S n)). lia.
  - pose proof (IH k). pose proof (IH (S k)). cbn [Nat.pow]. lia.
Qed.

Theorem combinations_all : forall n k, (1 <= k <= n)%nat -> combinations n k = all_combs n k 0.
Proof.
  intros n k Hk. unfold combinations. destruct (Nat.eqb_spec n 0); [lia|].
  destruct (all_combs_path n k 0) as (z & Hp & Hz & _); [lia|].
  apply (comb_iter_path n k _ _ z Hp Hz).
  - intros y Hy. pose proof (all_combs_chain n k 0 y Hy) as Hc. destruct y as [|a l]; [lia|].
    destruct Hc as (<- & _ & Hc). apply comb_next_ref. exact Hc.
  - rewrite length_all_combs by lia. pose proof (binom_le_pow2 (n - 0) k). rewrite Nat.sub_0_r in *. lia.
Qed.
Print Assumptions combinations_all.

Theorem length_combinations : forall n k, (1 <= k <= n)%nat -> length (combinations n k) = binom n k.
Proof. intros n k Hk. rewrite combinations_all, length_all_combs by lia. rewrite Nat.sub_0_r. reflexivity. Qed.

(* the number of k-faces of an l-simplex *)
Theorem length_faces : forall s k, (k <= dimension s)%nat ->
  length (faces k s) = binom (S (dimension s)) (S k).
Proof.
  intros s k Hk. unfold faces. cbv zeta. destruct (Nat.ltb_spec (dimension s) k); [lia|].
  rewrite map_length. apply length_combinations. lia.
Qed.
Print Assumptions length_faces.

(* ---- different index sets give different vertex sets *)
Lemma chain_lt : forall l a n, chain a l n -> forall j, In j l -> (a < j)%nat.
Proof.
  induction l as [|b r IH]; intros a n H j Hj; [destruct Hj|].
  cbn [chain] in H. destruct H as [Hab Hc]. destruct Hj as [<- | Hj]; [exact Hab|].
  specialize (IH b n Hc j Hj). lia.
Qed.

Lemma chain_NoDup : forall l a n, chain a l n -> NoDup (a :: l).
Proof.
  induction l as [|b r IH]; intros a n H.
  - constructor; [intros [] | constructor].
  - constructor.
    + intros Hin. pose proof (chain_lt _ _ _ H a Hin). lia.
    + cbn [chain] in H. apply (IH b n), H.
Qed.

Lemma chain_sorted : forall l a n, chain a l n -> sort_nat (a :: l) = a :: l.
Proof.
  induction l as [|b r IH]; intros a n H; [reflexivity|].
  change (sort_nat (a :: b :: r)) with (ins_nat a (sort_nat (b :: r))).
  pose proof (chain_lt _ _ _ H) as Hlt. cbn [chain] in H. rewrite (IH b n) by apply H.
  apply ins_nat_least. intros y Hy. specialize (Hlt y Hy). lia.
Qed.

Lemma chain_ext : forall n a l a' l', chain a l n -> chain a' l' n ->
  (forall i, In i (a :: l) <-> In i (a' :: l')) -> a :: l = a' :: l'.
Proof.
  intros n a l a' l' H H' Hiff.
  rewrite <- (chain_sorted l a n H), <- (chain_sorted l' a' n H').
  apply sort_nat_perm_eq. apply NoDup_Permutation; [apply (chain_NoDup _ _ n H) | apply (chain_NoDup _ _ n H') | exact Hiff].
Qed.

Lemma NoDup_map_inj {A B} (f : A -> B) : forall l x y, NoDup (map f l) -> In x l -> In y l -> f x = f y -> x = y.
Proof.
  induction l as [|c l IH]; intros x y Hnd Hx Hy E; [destruct Hx|].
  cbn [map] in Hnd. inversion Hnd as [|c' l' Hnotin Hnd']; subst.
  destruct Hx as [-> | Hx], Hy as [-> | Hy].
  - reflexivity.
  - exfalso. apply Hnotin. rewrite E. apply in_map. exact Hy.
  - exfalso. apply Hnotin. rewrite <- E. apply in_map. exact Hx.
  - apply IH; assumption.
Qed.

Lemma nodup_vsets_map {A} (F : A -> simplex) : forall L, NoDup L ->
  (forall x y, In x L -> In y L -> same_vset (F x) (F y) = true -> x = y) ->
  nodup_vsets (map F L) = true.
Proof.
  induction L as [|c L IH]; intros Hnd Hinj; [reflexivity|].
  cbn [map nodup_vsets]. inversion Hnd as [|c' l' Hnotin Hnd']; subst.
  rewrite IH; [|exact Hnd' | intros x y Hx Hy; apply Hinj; right; assumption].
  rewrite andb_true_r. apply negb_true_iff.
  destruct (existsb (same_vset (F c)) (map F L)) eqn:E; [|reflexivity]. exfalso.
  apply existsb_exists in E. destruct E as (t & Ht & Hs). apply in_map_iff in Ht.
  destruct Ht as (y & <- & Hy). apply Hnotin.
  rewrite (Hinj c y (or_introl eq_refl) (or_intror Hy) Hs). exact Hy.
Qed.

Lemma NoDup_app' {A} : forall l1 l2 : list A, NoDup l1 -> NoDup l2 ->
  (forall x, In x l1 -> In x l2 -> False) -> NoDup (l1 ++ l2).
Proof.
  induction l1 as [|a l1 IH]; intros l2 H1 H2 Hd; [exact H2|].
  cbn [app]. inversion H1 as [|a' l' Hn H1']; subst. constructor.
  - intros Hin. apply in_app_or in Hin. destruct Hin as [Hin | Hin]; [exact (Hn Hin)|].
    apply (Hd a); [left; reflexivity | exact Hin].
  - apply IH; [exact H1' | exact H2 | intros x Hx1 Hx2; apply (Hd x); [right; exact Hx1 | exact Hx2]].
Qed.

Lemma NoDup_all_combs : forall n k lo, NoDup (all_combs n k lo).
Proof.
  intros n; induction k as [|k IHk]; intros lo; cbn [all_combs].
  - constructor; [intros [] | constructor].
  - generalize (n - k - lo)%nat as m. intros m; revert lo. induction m as [|m IHm]; intros lo; cbn [seq flat_map].
    + constructor.
    + apply NoDup_app'.
      * apply FinFun.Injective_map_NoDup; [intros x y E; inversion E; reflexivity | apply IHk].
      * apply IHm.
      * intros x Hx1 Hx2. apply in_map_iff in Hx1. destruct Hx1 as (l & <- & _).
        apply in_flat_map in Hx2. destruct Hx2 as (a & Ha & Hx2). apply in_seq in Ha.
        apply in_map_iff in Hx2. destruct Hx2 as (l' & E & _). inversion E. lia.
Qed.

Lemma nodup_v_true : forall l, NoDup l -> nodup_v l = true.
Proof.
  induction l as [|v r IH]; intros H; [reflexivity|].
  inversion H as [|v' r' Hn H']; subst. cbn [nodup_v]. rewrite (IH H'), andb_true_r.
  apply negb_true_iff. apply existsb_veqb_false. intros x Hx.
  destruct (veqb v x) eqn:E; [|reflexivity]. apply veqb_eq in E. subst x. contradiction.
Qed.

Theorem nodup_vsets_faces : forall s k, canonical s -> (k <= dimension s)%nat -> nodup_vsets (faces k s) = true.
Proof.
  intros [v ps] k Hc Hk.
  assert (Hne : ps <> []) by (destruct Hc as (H & _); exact H).
  assert (Hl : S (dimension (v, ps)) = length ps) by (unfold dimension; cbn [snd]; destruct ps; [congruence | reflexivity]).
  destruct (vertices_distinct_count _ Hc) as [_ HndS].
  unfold vertex_range in HndS. cbn [fst snd] in HndS. rewrite vertices_from_vertex_at in HndS.
  unfold faces. cbv zeta. destruct (Nat.ltb_spec (dimension (v, ps)) k); [lia|].
  rewrite combinations_all by lia.
  apply nodup_vsets_map; [apply NoDup_all_combs|].
  intros x y Hx Hy Hsame.
  pose proof (all_combs_chain _ _ _ x Hx) as Cx. pose proof (all_combs_chain _ _ _ y Hy) as Cy.
  destruct x as [|a l]; [discriminate|]. destruct y as [|a' l']; [discriminate|].
  destruct Cx as (_ & _ & Cx). destruct Cy as (_ & _ & Cy). rewrite Hl in Cx, Cy.
  assert (HR : forall a l, chain a l (length ps) ->
            vertex_range (face_from_indices (v, ps) (a :: l)) = map (vertex_at (length v) v ps) (a :: l)).
  { intros a0 l0 C0. rewrite face_from_indices_eq. unfold vertex_range. cbn [fst snd].
    rewrite length_vertex_at. apply vertices_from_pairsC. exact C0. }
  unfold same_vset in Hsame. apply andb_prop in Hsame. destruct Hsame as [H1 H2].
  unfold spec_is_face in H1, H2. rewrite (HR a l Cx), (HR a' l' Cy) in *.
  apply subset_v_incl in H1. apply subset_v_incl in H2.
  apply (chain_ext (length ps)); [exact Cx | exact Cy|].
  assert (Hside : forall p q, chain (hd O p) (tl p) (length ps) -> chain (hd O q) (tl q) (length ps) ->
            p <> [] -> q <> [] ->
            incl (map (vertex_at (length v) v ps) p) (map (vertex_at (length v) v ps) q) -> forall i, In i p -> In i q).
  { intros p q Cp Cq Hp Hq Hincl i Hi.
    destruct p as [|p0 p']; [congruence|]. destruct q as [|q0 q']; [congruence|]. cbn [hd tl] in Cp, Cq.
    assert (Hw : In (vertex_at (length v) v ps i) (map (vertex_at (length v) v ps) (q0 :: q'))) by (apply Hincl, in_map, Hi).
    apply in_map_iff in Hw. destruct Hw as (j & E & Hj).
    assert (j = i); [|subst j; exact Hj].
    apply (NoDup_map_inj _ _ j i HndS); [| |exact E]; apply in_seq.
    - pose proof (chain_bound _ _ _ Cq j Hj). lia.
    - pose proof (chain_bound _ _ _ Cp i Hi). lia. }
  intros i. split; apply Hside; cbn [hd tl]; try assumption; discriminate.
Qed.
Print Assumptions nodup_vsets_faces.

(* ---- faces_ok in every dimension *)
Theorem faces_ok_every_dim : forall s k, canonical s -> (k <= dimension s)%nat -> faces_ok k s = true.
Proof.
  intros s k Hc Hk. unfold faces_ok. cbv zeta.
  rewrite length_faces by exact Hk. rewrite Nat.eqb_refl, (nodup_vsets_faces s k Hc Hk), andb_true_r. cbn [andb].
  apply forallb_forall. intros f Hf.
  destruct (faces_sound s k f Hc Hf) as (H1 & H2 & H3 & _ & H5 & H6 & H7).
  rewrite H1, H2, H3, !Nat.eqb_refl, (nodup_v_true _ H5), H6, H7. reflexivity.
Qed.
Print Assumptions faces_ok_every_dim.

(* ================================================================== osp enumerates ordered set partitions (soundness) *)
Lemma in_labelings_inv : forall k n l, In l (labelings n k) -> length l = n /\ forall x, In x l -> (x < k)%nat.
Proof.
  intros k; induction n as [|n IH]; intros l H; cbn [labelings] in H.
  - destruct H as [<- | []]. split; [reflexivity | intros x []].
  - apply in_flat_map in H. destruct H as (l' & Hl' & H). apply in_map_iff in H. destruct H as (x & <- & Hx).
    apply in_seq in Hx. destruct (IH l' Hl') as [H1 H2]. split; [cbn [length]; lia|].
    intros y [<- | Hy]; [lia | apply H2; exact Hy].
Qed.

Lemma block_of_filter : forall lab j,
  block_of lab j = filter (fun i => (nthn lab i =? j)%nat) (seq 0 (length lab)).
Proof.
  intros lab j. rewrite <- (block_of_map (nthn lab) j (length lab)). f_equal.
  apply (nth_ext _ _ O O); [rewrite map_length, seq_length; reflexivity|].
  intros i Hi. rewrite (nth_indep (map (nthn lab) (seq 0 (length lab))) O (nthn lab O)) by (rewrite map_length, seq_length; exact Hi).
  rewrite (map_nth (nthn lab)), seq_nth by exact Hi. reflexivity.
Qed.

Lemma filter_split_perm {A} (p q : A -> bool) : forall l, (forall x, p x && q x = false) ->
  Permutation (filter p l ++ filter q l) (filter (fun x => p x || q x) l).
Proof.
  intros l H; induction l as [|a l IH]; cbn [filter app]; [constructor|].
  specialize (H a). destruct (p a), (q a); cbn [orb app]; try discriminate.
  - constructor. exact IH.
  - etransitivity; [apply Permutation_sym, Permutation_middle|]. constructor. exact IH.
  - exact IH.
Qed.

Lemma concat_blocks_perm : forall (f : nat -> nat) l m,
  Permutation (concat (map (fun j => filter (fun i => (f i =? j)%nat) l) (seq 0 m)))
              (filter (fun i => (f i <? m)%nat) l).
Proof.
  intros f l; induction m as [|m IH].
  - cbn [seq map concat]. induction l as [|a l IHl]; cbn [filter]; [constructor | exact IHl].
  - rewrite seq_S, map_app, concat_app. cbn [Nat.add map concat]. rewrite app_nil_r.
    etransitivity; [apply Permutation_app_tail; exact IH|].
    etransitivity; [apply filter_split_perm|].
    + intros x. destruct (Nat.ltb_spec (f x) m), (Nat.eqb_spec (f x) m); try reflexivity; lia.
    + erewrite filter_ext; [reflexivity|]. intros x. cbv beta.
      destruct (Nat.ltb_spec (f x) m), (Nat.eqb_spec (f x) m), (Nat.ltb_spec (f x) (S m)); try reflexivity; lia.
Qed.

Lemma filter_all_true {A} (p : A -> bool) : forall l, (forall x, In x l -> p x = true) -> filter p l = l.
Proof.
  induction l as [|a l IH]; intros H; cbn [filter]; [reflexivity|].
  rewrite (H a (or_introl eq_refl)), IH; [reflexivity|]. intros x Hx. apply H. right. exact Hx.
Qed.

Theorem osp_sound : forall n m bl, In bl (osp n m) ->
  length bl = m /\ forallb nonempty bl = true /\ Permutation (concat bl) (seq 0 n) /\
  Forall (fun b => sort_nat b = b) bl.
Proof.
  intros n m bl H. unfold osp in H. apply filter_In in H. destruct H as [H Hne].
  apply in_map_iff in H. destruct H as (lab & <- & Hlab). apply in_labelings_inv in Hlab.
  destruct Hlab as [Hlen Hlt]. split; [rewrite map_length, seq_length; reflexivity|]. split; [exact Hne|]. split.
  - erewrite map_ext; [|intros j; apply block_of_filter]. rewrite Hlen.
    etransitivity; [apply concat_blocks_perm|]. rewrite filter_all_true; [reflexivity|].
    intros i Hi. apply in_seq in Hi. apply Nat.ltb_lt. apply Hlt. apply nth_In. lia.
  - apply Forall_forall. intros b Hb. apply in_map_iff in Hb. destruct Hb as (j & <- & _).
    rewrite block_of_filter. apply sort_nat_filter_seq.
Qed.
Print Assumptions osp_sound.

(* ---- product *)
Lemma in_product {A} : forall (ls : list (list A)) xs, In xs (product ls) <-> Forall2 (@In A) xs ls.
Proof.
  induction ls as [|l ls IH]; intros xs; cbn [product].
  - split.
    + intros [<- | []]. constructor.
    + intros H. inversion H. left. reflexivity.
  - split.
    + intros H. apply in_flat_map in H. destruct H as (x & Hx & H). apply in_map_iff in H.
      destruct H as (r & <- & Hr). constructor; [exact Hx | apply IH; exact Hr].
    + intros H. inversion H as [|x l' r ls' Hx Hr]; subst. apply in_flat_map. exists x. split; [exact Hx|].
      apply in_map. apply IH. exact Hr.
Qed.

(* ================================================================== cofaces: soundness of coface_value *)
Lemma map_nthn_seq : forall p : list nat, map (nthn p) (seq 0 (length p)) = p.
Proof.
  intros p. apply (nth_ext _ _ O O); [rewrite map_length, seq_length; reflexivity|].
  intros i Hi. rewrite map_length, seq_length in Hi.
  rewrite (nth_indep (map (nthn p) (seq 0 (length p))) O (nthn p O)) by (rewrite map_length, seq_length; exact Hi).
  rewrite (map_nth (nthn p)), seq_nth by exact Hi. reflexivity.
Qed.

Definition refine_part (p : part) (bl : list (list nat)) : list part := map (thru p) bl.

Lemma refine_part_props : forall p m bl, In bl (osp (length p) m) ->
  length (refine_part p bl) = m /\ forallb nonempty (refine_part p bl) = true /\
  Permutation (concat (refine_part p bl)) p.
Proof.
  intros p m bl H. destruct (osp_sound _ _ _ H) as (H1 & H2 & H3 & _). unfold refine_part. split; [|split].
  - rewrite map_length. exact H1.
  - rewrite forallb_map'. erewrite forallb_ext'; [exact H2|]. intros b. unfold thru. destruct b; reflexivity.
  - unfold thru. rewrite <- concat_map. rewrite <- (map_nthn_seq p) at 2. apply Permutation_map. exact H3.
Qed.

Lemma Forall2_map_seq {A B} (R : A -> B -> Prop) (f : nat -> B) (dflt : A) : forall m a xs,
  Forall2 R xs (map f (seq a m)) -> length xs = m /\ forall h, (h < m)%nat -> R (nth h xs dflt) (f (a + h)%nat).
Proof.
  induction m as [|m IH]; intros a xs H; cbn [seq map] in H.
  - inversion H. split; [reflexivity | intros h Hh; lia].
  - inversion H as [|x y xs' ys Hx Hr]; subst. destruct (IH (S a) xs' Hr) as [H1 H2]. split; [cbn [length]; lia|].
    intros h Hh. destruct h as [|h]; cbn [nth]; [rewrite Nat.add_0_r; exact Hx|].
    replace (a + S h)%nat with (S a + h)%nat by lia. apply H2. lia.
Qed.

(* find_u returns the index of the block containing t *)
Lemma find_u_spec : forall t ok ck fuel u u0, (u <= u0 <= ck)%nat -> memn t (nth u0 ok []) = true ->
  (ck - u < fuel)%nat ->
  let r := find_u fuel u ck t ok in (u <= r <= ck)%nat /\ memn t (nth r ok []) = true.
Proof.
  intros t ok ck; induction fuel as [|f IH]; intros u u0 Hu Hm Hf; [lia|].
  cbn [find_u]. destruct (Nat.leb_spec u ck); [|lia].
  destruct (memn t (nth u ok [])) eqn:E; [cbv zeta; split; [lia | exact E]|].
  assert (u <> u0) by (intros ->; congruence).
  destruct (IH (S u) u0) as [H1 H2]; [lia | exact Hm | lia|]. cbv zeta. split; [lia | exact H2].
Qed.

Lemma incr_decr_at : forall v i, incr_at (decr_at v i) i = v.
Proof.
  induction v as [|x r IH]; intros [|i]; cbn [decr_at incr_at]; try reflexivity.
  - f_equal. lia.
  - f_equal. apply IH.
Qed.

Lemma incr_decr_comm : forall v i j, incr_at (decr_at v j) i = decr_at (incr_at v i) j.
Proof.
  induction v as [|x r IH]; intros [|i] [|j]; cbn [decr_at incr_at]; try reflexivity.
  - f_equal. lia.
  - f_equal. apply IH.
Qed.

Lemma incr_fold_decr : forall q v i, incr_at (fold_left decr_at q v) i = fold_left decr_at q (incr_at v i).
Proof.
  induction q as [|j q IH]; intros v i; cbn [fold_left]; [reflexivity|].
  rewrite IH, incr_decr_comm. reflexivity.
Qed.

Lemma fold_incr_decr_cancel : forall q v, fold_left incr_at q (fold_left decr_at q v) = v.
Proof.
  induction q as [|i q IH]; intros v; cbn [fold_left]; [reflexivity|].
  rewrite incr_fold_decr, incr_decr_at. apply IH.
Qed.

Lemma fold_upd_decr_cancel : forall d q v, (forall i, In i q -> i <> d) ->
  fold_left (upd_index d) q (fold_left decr_at q v) = v.
Proof.
  intros d q v H. change (fold_left (upd_index d) q (fold_left decr_at q v)) with (upd_part d (fold_left decr_at q v) q).
  rewrite upd_part_incr_part by exact H. apply fold_incr_decr_cancel.
Qed.

Lemma length_fold_decr_at : forall q v, length (fold_left decr_at q v) = length v.
Proof.
  induction q as [|i q IH]; intros v; cbn [fold_left]; [reflexivity|].
  rewrite IH. revert i. induction v as [|x r IHv]; intros [|i]; cbn [decr_at length]; auto.
Qed.

Lemma find_pos_spec : forall x l t, find_pos x l = Some t -> (t < length l)%nat /\ nthn l t = x.
Proof.
  intros x; induction l as [|y r IH]; intros t H; cbn [find_pos] in H; [discriminate|].
  destruct (Nat.eqb_spec y x).
  - inversion H; subst. split; [cbn [length]; lia | reflexivity].
  - destruct (find_pos x r) as [t'|]; [|discriminate]. cbn [option_map] in H. inversion H; subst.
    destruct (IH t' eq_refl) as [H1 H2]. split; [cbn [length]; lia | exact H2].
Qed.

Lemma firstn_length_app {A} : forall (l1 l2 : list A), firstn (length l1) (l1 ++ l2) = l1.
Proof. intros l1 l2. rewrite firstn_app, Nat.sub_diag, firstn_all. cbn [firstn]. apply app_nil_r. Qed.

Lemma last_firstn_S {A} : forall (l : list A) u dflt, (u < length l)%nat -> last (firstn (S u) l) dflt = nth u l dflt.
Proof.
  induction l as [|x l IH]; intros u dflt Hu; cbn [length] in Hu; [lia|].
  destruct u as [|u].
  - cbn [firstn nth]. destruct l; reflexivity.
  - change (firstn (S (S u)) (x :: l)) with (x :: firstn (S u) l). cbn [nth].
    destruct l as [|y l']; [cbn [length] in Hu; lia|].
    change (firstn (S u) (y :: l')) with (y :: firstn u l').
    change (last (x :: y :: firstn u l') dflt) with (last (y :: firstn u l') dflt).
    change (y :: firstn u l') with (firstn (S u) (y :: l')). apply IH. lia.
Qed.

Lemma length_concat' {A} : forall L : list (list A), length (concat L) = list_sum (map (@length A) L).
Proof. induction L as [|x L IH]; cbn [concat map list_sum]; [reflexivity | rewrite app_length, IH; reflexivity]. Qed.

Lemma list_sum_map_S {A} (f : A -> nat) : forall l, list_sum (map (fun h => S (f h)) l) = (length l + list_sum (map f l))%nat.
Proof.
  induction l as [|x l IH]; [reflexivity|]. cbn [map length].
  change (list_sum (S (f x) :: map (fun h => S (f h)) l)) with (S (f x) + list_sum (map (fun h => S (f h)) l))%nat.
  change (list_sum (f x :: map f l)) with (f x + list_sum (map f l))%nat. rewrite IH. lia.
Qed.

Lemma list_sum_nthn : forall c, list_sum c = list_sum (map (nthn c) (seq 0 (length c))).
Proof. intros c. rewrite map_nthn_seq. reflexivity. Qed.

Lemma nonempty_length {A} : forall l : list A, (0 < length l)%nat -> nonempty l = true.
Proof. intros [|x l] H; [cbn [length] in H; lia | reflexivity]. Qed.

Lemma last_app_ne {A} : forall (l1 l2 : list A) dflt, l2 <> [] -> last (l1 ++ l2) dflt = last l2 dflt.
Proof.
  induction l1 as [|x l1 IH]; intros l2 dflt H; [reflexivity|].
  cbn [app]. destruct (l1 ++ l2) as [|y r] eqn:E.
  - destruct l1; [cbn [app] in E; congruence | discriminate].
  - rewrite <- E. change (last (x :: l1 ++ l2) dflt) with (match l1 ++ l2 with [] => x | _ => last (l1 ++ l2) dflt end).
    rewrite E. rewrite <- E. apply IH. exact H.
Qed.

Lemma split_last_part : forall ps : opart, ps <> [] ->
  ps = firstn (pred (length ps)) ps ++ [nth (pred (length ps)) ps []].
Proof.
  induction ps as [|p r IH]; intros H; [congruence|].
  destruct r as [|q r']; [reflexivity|].
  change (pred (length (p :: q :: r'))) with (S (pred (length (q :: r')))).
  cbn [firstn nth app]. f_equal. apply IH. discriminate.
Qed.

Lemma firstn_S_nth {A} : forall (l : list A) k dflt, (k < length l)%nat -> firstn (S k) l = firstn k l ++ [nth k l dflt].
Proof.
  induction l as [|x l IH]; intros k dflt H; cbn [length] in H; [lia|].
  destruct k as [|k]; [reflexivity|].
  change (firstn (S (S k)) (x :: l)) with (x :: firstn (S k) l). rewrite (IH k dflt) by lia. reflexivity.
Qed.

Lemma perm_refined_prefix : forall (ps : opart) (R : nat -> list part) k, (k <= length ps)%nat ->
  (forall h, (h < k)%nat -> Permutation (concat (R h)) (nth h ps [])) ->
  Permutation (concat (concat (map R (seq 0 k)))) (concat (firstn k ps)).
Proof.
  intros ps R; induction k as [|k IH]; intros Hk HR; [constructor|].
  rewrite seq_S, map_app, concat_app, concat_app. cbn [Nat.add map concat]. rewrite app_nil_r.
  rewrite (firstn_S_nth ps k []) by lia. rewrite concat_app. cbn [concat]. rewrite app_nil_r.
  apply Permutation_app; [apply IH; [lia | intros h Hh; apply HR; lia] | apply HR; lia].
Qed.

Lemma split_at_nth {A} : forall (l : list A) u dflt, (u < length l)%nat ->
  exists a c, l = a ++ nth u l dflt :: c /\ firstn (S u) l = a ++ [nth u l dflt] /\ skipn (S u) l = c.
Proof.
  intros l u dflt H. destruct (nth_split l dflt H) as (a & c & E & Hl). exists a, c. split; [exact E|].
  rewrite E at 1 3. split.
  - rewrite firstn_app, Hl. replace (S u - u)%nat with 1%nat by lia. rewrite firstn_all2 by lia. reflexivity.
  - rewrite skipn_app, Hl. replace (S u - u)%nat with 1%nat by lia. rewrite skipn_all2 by lia. reflexivity.
Qed.

Lemma forallb_concat_in {A} (p : A -> bool) : forall L, (forall l, In l L -> forallb p l = true) -> forallb p (concat L) = true.
Proof.
  induction L as [|l L IH]; intros H; cbn [concat]; [reflexivity|].
  rewrite forallb_app, (H l (or_introl eq_refl)), IH; [reflexivity|]. intros l' Hl'. apply H. right. exact Hl'.
Qed.

Lemma coface_value_sound : forall v ps t c os l,
  canonical (v, ps) ->
  find_pos (length v) (nth (pred (length ps)) ps []) = Some t ->
  length c = S (pred (length ps)) ->
  (forall h, (h <= pred (length ps))%nat -> In (nth h os []) (osp (length (nth h ps [])) (S (nthn c h)))) ->
  list_sum c = (l - pred (length ps))%nat -> (pred (length ps) <= l)%nat ->
  valid_simplex (coface_value (v, ps) t c os) = true /\
  dimension (coface_value (v, ps) t c os) = l /\
  length (fst (coface_value (v, ps) t c os)) = length v /\
  incl (vertex_range (v, ps)) (vertex_range (coface_value (v, ps) t c os)).
Proof.
  intros v ps t c os l Hc Ht Hlc Hos Hsum Hkl.
  pose proof (canonical_valid_simplex _ Hc) as Hv. unfold valid_simplex, valid_opart in Hv. cbn [fst snd] in Hv.
  apply andb_prop in Hv. destruct Hv as [Hv Hsort].
  apply andb_prop in Hv. destruct Hv as [Hv Hlast].
  apply andb_prop in Hv. destruct Hv as [Hparts Hne].
  destruct (list_eq_dec Nat.eq_dec (sort_nat (concat ps)) (seq 0 (S (length v)))) as [Esort|]; [clear Hsort|discriminate].
  assert (Hne' : ps <> []) by (destruct ps; [discriminate | congruence]).
  assert (Hndc : NoDup (concat ps)) by (destruct Hc as (_ & _ & H & _); exact H).
  remember (pred (length ps)) as k eqn:Ek.
  assert (Hklen : (k < length ps)%nat) by (destruct ps; [congruence | cbn [length] in *; lia]).
  remember (nth k ps []) as pk eqn:Epk.
  pose (R := fun h => refine_part (nth h ps []) (nth h os [])).
  assert (HR : forall h, (h <= k)%nat -> length (R h) = S (nthn c h) /\ forallb nonempty (R h) = true /\
                                         Permutation (concat (R h)) (nth h ps [])).
  { intros h Hh. apply refine_part_props. apply Hos. exact Hh. }
  remember (nth k os []) as ok eqn:Eok. remember (nthn c k) as ck eqn:Eck.
  destruct (find_pos_spec _ _ _ Ht) as [Htl Htd].
  pose proof (Hos k (le_n k)) as Hosk. rewrite <- Epk, <- Eok, <- Eck in Hosk.
  destruct (osp_sound _ _ _ Hosk) as (Hokl & _ & Hokp & _).
  assert (Hu0 : exists u0, (u0 <= ck)%nat /\ memn t (nth u0 ok []) = true).
  { assert (Hin : In t (concat ok)) by (apply (Permutation_in _ (Permutation_sym Hokp)), in_seq; lia).
    apply in_concat in Hin. destruct Hin as (b0 & Hb & Htb). destruct (In_nth _ _ [] Hb) as (u0 & Hu0 & E0).
    exists u0. split; [lia | rewrite E0; apply memn_In; exact Htb]. }
  destruct Hu0 as (u0 & Hu0 & Hm0).
  pose proof (find_u_spec t ok ck (S (S ck)) 0 u0 ltac:(lia) Hm0 ltac:(lia)) as Hu. cbv zeta in Hu.
  remember (find_u (S (S ck)) 0 ck t ok) as u eqn:Eu. destruct Hu as [Hu1 Hu2].
  destruct (HR k (le_n k)) as (HRkl & HRkn & HRkp). rewrite <- Eck in HRkl. rewrite <- Epk in HRkp.
  destruct (split_at_nth (R k) u [] ltac:(lia)) as (A & C & ERk & EA & EC).
  remember (nth u (R k) []) as b eqn:Eb.
  pose (mid := concat (map R (seq 0 k))).
  (* ---- the coface in structural form *)
  assert (Eform : coface_value (v, ps) t c os = (fold_left decr_at (concat C) v, map sort_nat (C ++ mid ++ A ++ [b]))).
  { assert (Efront : map (thru pk) (slice ok (S u) (S ck)) = C).
    { rewrite <- EC. unfold R, refine_part. rewrite <- Epk, <- Eok, skipn_map. f_equal.
      unfold slice. apply firstn_all2. rewrite skipn_length. lia. }
    assert (Eback : map (thru pk) (firstn (S u) ok) = A ++ [b]).
    { rewrite <- EA. unfold R, refine_part. rewrite <- Epk, <- Eok, firstn_map. reflexivity. }
    assert (Emid : concat (map (fun h => map (thru (nth h ps [])) (firstn (S (nthn c h)) (nth h os []))) (seq 0 k)) = mid).
    { unfold mid. f_equal. apply map_ext_in. intros h Hh. apply in_seq in Hh. unfold R, refine_part. f_equal.
      apply firstn_all2. destruct (osp_sound _ _ _ (Hos h ltac:(lia))) as (H1 & _). lia. }
    rewrite <- Efront, <- Eback, <- Emid. unfold coface_value. cbv zeta.
    rewrite <- Ek, <- Epk, <- Eok, <- Eck, <- Eu. reflexivity. }
  rewrite Eform. clear Eform.
  (* ---- facts on A, b, C *)
  assert (HndRk : NoDup (concat (R k))).
  { apply (Permutation_NoDup (Permutation_sym HRkp)). apply (NoDup_concat_part ps); [exact Hndc|].
    rewrite Epk. apply nth_In. exact Hklen. }
  rewrite ERk in HRkl, HRkn, HRkp, HndRk.
  rewrite forallb_app in HRkn. cbn [forallb] in HRkn.
  apply andb_prop in HRkn. destruct HRkn as [HAn HbCn]. apply andb_prop in HbCn. destruct HbCn as [Hbn HCn].
  rewrite app_length in HRkl. cbn [length] in HRkl.
  assert (Hdb : In (length v) b).
  { rewrite Eb. unfold R, refine_part. rewrite <- Epk, <- Eok.
    change (@nil nat) with (thru pk []) at 1. rewrite map_nth. rewrite <- Htd. unfold thru. apply in_map.
    apply memn_In. exact Hu2. }
  assert (HdC : forall i, In i (concat C) -> i <> length v).
  { intros i Hi ->. rewrite concat_app in HndRk. cbn [concat] in HndRk. apply NoDup_app_l' in HndRk.
    apply (NoDup_app_disjoint' _ _ (length v) HndRk Hdb Hi). }
  (* ---- lengths *)
  assert (Hmidlen : length mid = (k + list_sum (map (nthn c) (seq 0 k)))%nat).
  { unfold mid. rewrite length_concat', map_map.
    rewrite (map_ext_in _ (fun h => S (nthn c h))).
    - rewrite list_sum_map_S, seq_length. reflexivity.
    - intros h Hh. apply in_seq in Hh. apply (HR h). lia. }
  assert (Hsumc : (list_sum (map (nthn c) (seq 0 k)) + ck = l - k)%nat).
  { rewrite <- Hsum, (list_sum_nthn c), Hlc, seq_S, map_app, list_sum_app. cbn [Nat.add map list_sum].
    rewrite <- Eck. change (list_sum [ck]) with (ck + 0)%nat. lia. }
  assert (HQlen : length (C ++ mid ++ A ++ [b]) = S l).
  { rewrite !app_length, Hmidlen. cbn [length]. lia. }
  assert (HQlen' : length (map sort_nat (C ++ mid ++ A ++ [b])) = S l) by (rewrite map_length; exact HQlen).
  (* ---- permutation of the index set *)
  assert (HQperm : Permutation (concat (C ++ mid ++ A ++ [b])) (concat ps)).
  { rewrite (split_last_part ps Hne') at 1. rewrite <- Ek, <- Epk.
    rewrite !concat_app. cbn [concat]. rewrite !app_nil_r.
    etransitivity; [apply Permutation_app_comm|]. rewrite <- app_assoc.
    apply Permutation_app.
    - apply perm_refined_prefix; [lia | intros h Hh; apply (HR h); lia].
    - etransitivity; [|exact HRkp]. rewrite concat_app. cbn [concat]. rewrite <- app_assoc. reflexivity. }
  split; [|split; [|split]].
  - (* valid *)
    unfold valid_simplex, valid_opart. cbn [fst snd]. rewrite length_fold_decr_at.
    rewrite !andb_true_iff. split; [split; [split|]|].
    + rewrite forallb_map'. rewrite (forallb_ext' (fun x => nonempty (sort_nat x)) (@nonempty nat)) by (intros q; apply nonempty_sort_nat).
      rewrite !forallb_app, HCn, HAn. cbn [forallb]. rewrite Hbn.
      unfold mid. rewrite forallb_concat_in; [reflexivity|].
      intros rl Hrl. apply in_map_iff in Hrl. destruct Hrl as (h & <- & Hh). apply in_seq in Hh. apply (HR h). lia.
    + apply nonempty_length. change (0 < length (map sort_nat (C ++ mid ++ A ++ [b])))%nat. rewrite HQlen'. lia.
    + rewrite !map_app. rewrite !app_assoc. cbn [map]. rewrite last_last.
      apply memn_In. apply (Permutation_in _ (Permutation_sym (sort_nat_perm b))). exact Hdb.
    + rewrite (sort_nat_perm_eq _ (concat ps)).
      * rewrite Esort. destruct (list_eq_dec Nat.eq_dec (seq 0 (S (length v))) (seq 0 (S (length v)))) as [|Hn];
          [reflexivity | exfalso; apply Hn; reflexivity].
      * etransitivity; [apply perm_concat_map_sort | exact HQperm].
  - unfold dimension. cbn [snd]. change (pred (length (map sort_nat (C ++ mid ++ A ++ [b]))) = l). rewrite HQlen'. reflexivity.
  - cbn [fst]. apply length_fold_decr_at.
  - (* the vertices of s are vertices of the coface *)
    unfold vertex_range. cbn [fst snd]. rewrite length_fold_decr_at, !vertices_from_vertex_at.
    intros w Hw. apply in_map_iff in Hw. destruct Hw as (h & <- & Hh). apply in_seq in Hh.
    assert (Hhk : (h <= k)%nat) by lia.
    pose (X := concat (map R (seq 0 h))).
    assert (Esplit : C ++ mid ++ A ++ [b] = (C ++ X) ++ (concat (map R (seq h (k - h))) ++ A ++ [b])).
    { unfold mid, X. replace k with (h + (k - h))%nat at 1 by lia. rewrite seq_app, map_app, concat_app.
      rewrite <- !app_assoc. reflexivity. }
    apply in_map_iff. exists (length (C ++ X)). split.
    + unfold vertex_at. rewrite firstn_map, Esplit, firstn_length_app.
      rewrite (fold_upd_index_perm _ _ _ (perm_concat_map_sort (C ++ X))).
      rewrite concat_app, fold_left_app, fold_upd_decr_cancel by exact HdC.
      apply fold_upd_index_perm. unfold X. apply perm_refined_prefix; [lia | intros h' Hh'; apply (HR h'); lia].
    + apply in_seq. rewrite map_length, Esplit, !app_length. cbn [length]. lia.
Qed.
Print Assumptions coface_value_sound.

Lemma incl_subset_v : forall a b, incl a b -> subset_v a b = true.
Proof.
  intros a b H. unfold subset_v. apply forallb_forall. intros w Hw. apply existsb_exists.
  exists w. split; [apply H; exact Hw | apply veqb_refl].
Qed.

(* what is used of Integer_combination_iterator: the enumerated values have the right length and sum *)
Definition int_combinations_sound (n k : nat) (bnds : list nat) : Prop :=
  forall c, In c (int_combinations n k bnds) -> length c = k /\ list_sum c = n.

Theorem cofaces_sound_if : forall s l c', canonical s -> (dimension s <= l)%nat ->
  int_combinations_sound (l - dimension s) (S (dimension s)) (map (fun p => pred (length p)) (snd s)) ->
  In c' (cofaces l s) ->
  valid_simplex c' = true /\ dimension c' = l /\ length (fst c') = length (fst s) /\
  incl (vertex_range s) (vertex_range c') /\ spec_is_face s c' = true /\ is_face_of s c' = true.
Proof.
  intros [v ps] l c' Hc Hl Hic Hin. unfold dimension in Hl, Hic. cbn [fst snd] in Hl, Hic.
  unfold cofaces in Hin. destruct (Nat.ltb_spec l (pred (length ps))) as [|_]; [lia|].
  destruct (find_pos (length v) (nth (pred (length ps)) ps [])) as [t|] eqn:Et; [|destruct Hin].
  apply in_flat_map in Hin. destruct Hin as (c & Hcin & Hin). apply in_map_iff in Hin.
  destruct Hin as (os & <- & Hos). destruct (Hic c Hcin) as [Hlc Hsum].
  apply in_product in Hos. apply (Forall2_map_seq _ _ []) in Hos. destruct Hos as [_ Hos].
  destruct (coface_value_sound v ps t c os l Hc Et Hlc) as (H1 & H2 & H3 & H4); [|exact Hsum | exact Hl|].
  { intros h Hh. apply (Hos h). lia. }
  split; [exact H1|]. split; [exact H2|]. split; [exact H3|]. split; [exact H4|].
  pose proof (incl_subset_v _ _ H4) as Hspec. split; [exact Hspec|].
  rewrite is_face_of_iff_spec; [exact Hspec | exact Hc | apply valid_simplex_canonical; exact H1].
Qed.
Print Assumptions cofaces_sound_if.

(* ================================================================== Integer_combination_iterator: length and sum of the values *)
Definition psum (l : list nat) (m : nat) : nat := list_sum (firstn m l).

Lemma list_sum_cons : forall x l, list_sum (x :: l) = (x + list_sum l)%nat.
Proof. reflexivity. Qed.

Lemma psum_S : forall l m, psum l (S m) = (psum l m + nthn l m)%nat.
Proof.
  unfold psum, nthn. induction l as [|y r IH]; intros m.
  - rewrite !firstn_nil. destruct m; reflexivity.
  - destruct m as [|m].
    + cbn [firstn nth]. rewrite !list_sum_cons. cbn [list_sum fold_right]. lia.
    + change (firstn (S (S m)) (y :: r)) with (y :: firstn (S m) r).
      change (firstn (S m) (y :: r)) with (y :: firstn m r). cbn [nth]. rewrite !list_sum_cons, IH. lia.
Qed.

Lemma psum_0 : forall l, psum l 0 = 0%nat.
Proof. reflexivity. Qed.

Lemma psum_mono : forall l a b, (a <= b)%nat -> (psum l a <= psum l b)%nat.
Proof. intros l a b H. induction H as [|b H IH]; [lia|]. rewrite psum_S. lia. Qed.

Lemma psum_setn : forall l i x m, (i < length l)%nat -> (i < m)%nat ->
  (psum (setn l i x) m + nthn l i = psum l m + x)%nat.
Proof.
  unfold psum, nthn. induction l as [|y r IH]; intros i x m Hi Hm; cbn [length] in Hi; [lia|].
  destruct m as [|m]; [lia|]. destruct i as [|i]; cbn [setn firstn nth]; rewrite !list_sum_cons.
  - lia.
  - specialize (IH i x m ltac:(lia) ltac:(lia)). lia.
Qed.

Lemma psum_setn_ge : forall l i x m, (m <= i)%nat -> psum (setn l i x) m = psum l m.
Proof.
  unfold psum. induction l as [|y r IH]; intros i x m H; [reflexivity|].
  destruct m as [|m]; [reflexivity|]. destruct i as [|i]; [lia|]. cbn [setn firstn].
  rewrite !list_sum_cons, IH by lia. reflexivity.
Qed.

Lemma ic_fill_spec : forall bounds fuel value i s m, (m <= length value)%nat ->
  (forall j, (i <= j)%nat -> (j < m)%nat -> nthn value j = 0%nat) ->
  (psum bounds i + s < psum bounds m)%nat -> (m - i <= fuel)%nat ->
  let v' := ic_fill fuel bounds value i s in
  length v' = length value /\
  (forall j, (j < i)%nat -> nthn v' j = nthn value j) /\
  (forall j, (i <= j)%nat -> (j < m)%nat -> (nthn v' j <= nthn bounds j)%nat) /\
  (forall M, (m <= M)%nat -> psum v' M = (psum value M + s)%nat) /\
  exists st, (i <= st)%nat /\ (st < m)%nat /\ (forall j, (st < j)%nat -> nthn v' j = nthn value j) /\
             (nthn v' st + psum bounds st = psum bounds i + s)%nat.
Proof.
  intros bounds; induction fuel as [|f IH]; intros value i s m Hm Hz Hlt Hf;
    assert (Him : (i < m)%nat) by (destruct (Nat.lt_ge_cases i m) as [|Hge]; [assumption|];
                                   pose proof (psum_mono bounds m i Hge); lia); [lia|].
  cbn [ic_fill]. destruct (Nat.leb_spec (nthn bounds i) s) as [Hle|Hgt]; cbv zeta.
  - assert (Hsetn : forall j, nthn (setn value i (nthn bounds i)) j = if (j =? i)%nat then nthn bounds i else nthn value j)
      by (intros j; apply nthn_setn; lia).
    destruct (IH (setn value i (nthn bounds i)) (S i) (s - nthn bounds i)%nat m) as (H1 & H2 & H3 & H4 & st & S1 & S2 & S3 & S4).
    + rewrite length_setn. exact Hm.
    + intros j Hj1 Hj2. rewrite Hsetn. destruct (Nat.eqb_spec j i); [lia | apply Hz; lia].
    + rewrite psum_S. lia.
    + lia.
    + rewrite length_setn in H1. split; [exact H1|]. split; [|split; [|split]].
      * intros j Hj. rewrite H2 by lia. rewrite Hsetn. destruct (Nat.eqb_spec j i); [lia | reflexivity].
      * intros j Hj1 Hj2. destruct (Nat.eq_dec j i) as [->|].
        -- rewrite H2 by lia. rewrite Hsetn, Nat.eqb_refl. lia.
        -- apply H3; lia.
      * intros M HM. rewrite H4 by exact HM.
        pose proof (psum_setn value i (nthn bounds i) M ltac:(lia) ltac:(lia)). rewrite (Hz i) in * by lia. lia.
      * exists st. split; [lia|]. split; [exact S2|]. split.
        -- intros j Hj. rewrite S3 by exact Hj. rewrite Hsetn. destruct (Nat.eqb_spec j i); [lia | reflexivity].
        -- rewrite psum_S in S4. lia.
  - assert (Hsetn : forall j, nthn (setn value i s) j = if (j =? i)%nat then s else nthn value j)
      by (intros j; apply nthn_setn; lia).
    split; [apply length_setn|]. split; [|split; [|split]].
    + intros j Hj. rewrite Hsetn. destruct (Nat.eqb_spec j i); [lia | reflexivity].
    + intros j Hj1 Hj2. rewrite Hsetn. destruct (Nat.eqb_spec j i) as [->|]; [lia | rewrite Hz by lia; lia].
    + intros M HM. pose proof (psum_setn value i s M ltac:(lia) ltac:(lia)). rewrite (Hz i) in * by lia. lia.
    + exists i. split; [lia|]. split; [exact Him|]. split.
      * intros j Hj. rewrite Hsetn. destruct (Nat.eqb_spec j i); [lia | reflexivity].
      * rewrite Hsetn, Nat.eqb_refl. lia.
Qed.

Section IntegerCombinations.
Variables (k n : nat) (bounds : list nat).
Hypothesis Hbl : length bounds = S (S k).
Hypothesis Hbk : nthn bounds k = 2%nat.
Hypothesis Hbk1 : nthn bounds (S k) = 1%nat.

Definition ic_inv (value : list nat) : Prop :=
  length value = S (S k) /\ (forall i, (i < k)%nat -> (nthn value i <= nthn bounds i)%nat) /\
  psum value k = n /\ nthn value k = 1%nat /\ nthn value (S k) = 0%nat.

Lemma ic_skip0_spec : forall value fuel j, (forall i, (i < j)%nat -> nthn value i = 0%nat) -> (j <= k)%nat ->
  (k - j < fuel)%nat ->
  let r := ic_skip0 fuel value k j in
  (j <= r <= k)%nat /\ (forall i, (i < r)%nat -> nthn value i = 0%nat) /\ (nthn value r <> 0%nat \/ r = k).
Proof.
  intros value; induction fuel as [|f IH]; intros j Hz Hj Hf; [lia|]. cbn [ic_skip0].
  destruct (Nat.eqb_spec (nthn value j) 0) as [E|NE]; destruct (Nat.ltb_spec j k) as [Hlt|Hge]; cbn [andb]; cbv zeta.
  - destruct (IH (S j)) as (H1 & H2 & H3); [|lia|lia|].
    + intros i Hi. destruct (Nat.eq_dec i j) as [->|]; [exact E | apply Hz; lia].
    + split; [lia|]. split; assumption.
  - split; [lia|]. split; [exact Hz | right; lia].
  - split; [lia|]. split; [exact Hz | left; exact NE].
  - split; [lia|]. split; [exact Hz | left; exact NE].
Qed.

Definition scan_inv (value : list nat) (j1 j2 s : nat) : Prop :=
  length value = S (S k) /\ (j1 < j2)%nat /\ (j2 <= S k)%nat /\
  (forall i, (i < j2)%nat -> i <> j1 -> nthn value i = 0%nat) /\
  (forall i, (i < k)%nat -> (nthn value i <= nthn bounds i)%nat) /\
  (psum value k + s = n)%nat /\ nthn value k = 1%nat /\ nthn value (S k) = 0%nat /\
  nthn value j1 <> 0%nat /\ (s + nthn value j1 <= psum bounds (S j1))%nat.

Lemma ic_scan_spec : forall fuel value j1 j2 s, scan_inv value j1 j2 s -> (S (S k) - j2 <= fuel)%nat ->
  match ic_scan fuel bounds value j1 j2 s with
  | (v', j1', j2', s') => scan_inv v' j1' j2' s' /\ nthn v' j2' <> nthn bounds j2'
  end.
Proof.
  induction fuel as [|f IH]; intros value j1 j2 s HI Hf.
  - destruct HI as (_ & _ & H & _). lia.
  - cbn [ic_scan]. destruct (Nat.eqb_spec (nthn value j2) (nthn bounds j2)) as [E|NE]; [|split; assumption].
    destruct HI as (HL & H12 & H2k & Hz & Hb & Hs & Hvk & Hvk1 & Hnz & Hle).
    assert (Hj2 : (j2 < k)%nat).
    { destruct (Nat.eq_dec j2 k) as [->|]; [lia|]. destruct (Nat.eq_dec j2 (S k)) as [->|]; [lia|]. lia. }
    destruct (Nat.eqb_spec (nthn bounds j2) 0) as [E0|NE0]; cbn [negb]; apply IH; try lia.
    + (* bounds_j2 = 0 *)
      repeat split; try assumption; try lia.
      intros i Hi Hne. destruct (Nat.eq_dec i j2) as [->|]; [lia | apply Hz; lia].
    + (* bounds_j2 <> 0 : value[j1] := 0, j1 := j2 *)
      assert (Hsetn : forall i, nthn (setn value j1 0) i = if (i =? j1)%nat then 0%nat else nthn value i)
        by (intros i; apply nthn_setn; lia).
      repeat split.
      * rewrite length_setn. exact HL.
      * lia.
      * lia.
      * intros i Hi Hne. rewrite Hsetn. destruct (Nat.eqb_spec i j1); [reflexivity | apply Hz; lia].
      * intros i Hi. rewrite Hsetn. destruct (Nat.eqb_spec i j1); [lia | apply Hb; exact Hi].
      * pose proof (psum_setn value j1 0 k ltac:(lia) ltac:(lia)). lia.
      * rewrite Hsetn. destruct (Nat.eqb_spec k j1); [lia | exact Hvk].
      * rewrite Hsetn. destruct (Nat.eqb_spec (S k) j1); [lia | exact Hvk1].
      * rewrite Hsetn. destruct (Nat.eqb_spec j2 j1); [lia|]. lia.
      * rewrite Hsetn. destruct (Nat.eqb_spec j2 j1); [lia|].
        pose proof (psum_mono bounds (S j1) j2 ltac:(lia)). rewrite (psum_S bounds j2). lia.
Qed.

Lemma ic_next_inv : forall value v', ic_inv value -> ic_next k bounds value = Some v' -> ic_inv v'.
Proof.
  intros value v' (HL & Hb & Hs & Hvk & Hvk1) H. unfold ic_next in H.
  pose proof (ic_skip0_spec value (S k) 0 ltac:(intros i Hi; lia) ltac:(lia) ltac:(lia)) as Hsk. cbv zeta in Hsk.
  remember (ic_skip0 (S k) value k 0) as j1 eqn:Ej1. destruct Hsk as (Hj1 & Hz1 & Hnz1).
  assert (HSI : scan_inv value j1 (S j1) 0).
  { repeat split; try assumption; try lia.
    - intros i Hi Hne. apply Hz1. lia.
    - destruct Hnz1 as [Hn | ->]; [exact Hn | lia].
    - rewrite psum_S. destruct (Nat.eq_dec j1 k) as [->|]; [lia|]. pose proof (Hb j1 ltac:(lia)). lia. }
  pose proof (ic_scan_spec (length value) value j1 (S j1) 0 HSI ltac:(lia)) as Hscan.
  destruct (ic_scan (length value) bounds value j1 (S j1) 0) as [[[v1 j1'] j2'] s'].
  destruct Hscan as ((HL1 & H12 & H2k & Hz & Hb1 & Hs1 & Hv1k & Hv1k1 & Hnz & Hle) & NE).
  destruct (Nat.leb_spec k j2') as [|Hj2]; [discriminate|]. inversion H as [Ev']; clear H.
  set (x := nthn v1 j1') in *.
  set (v2 := setn v1 j1' 0) in *.
  assert (Hv2 : forall i, nthn v2 i = if (i =? j1')%nat then 0%nat else nthn v1 i) by (intros i; apply nthn_setn; lia).
  assert (HL2 : length v2 = S (S k)) by (unfold v2; rewrite length_setn; exact HL1).
  set (v3 := setn v2 j2' (S (nthn v2 j2'))) in *.
  assert (Hv3 : forall i, nthn v3 i = if (i =? j2')%nat then S (nthn v2 j2') else nthn v2 i) by (intros i; apply nthn_setn; lia).
  assert (HL3 : length v3 = S (S k)) by (unfold v3; rewrite length_setn; exact HL2).
  assert (Hv2j2 : nthn v2 j2' = nthn v1 j2') by (rewrite Hv2; destruct (Nat.eqb_spec j2' j1'); [lia | reflexivity]).
  destruct (ic_fill_spec bounds (length bounds) v3 0 (s' + x - 1)%nat j2') as (F1 & F2 & F3 & F4 & st & S1 & S2 & S3 & S4).
  - lia.
  - intros j _ Hj. rewrite Hv3. destruct (Nat.eqb_spec j j2'); [lia|]. rewrite Hv2.
    destruct (Nat.eqb_spec j j1'); [reflexivity | apply Hz; lia].
  - rewrite psum_0. pose proof (psum_mono bounds (S j1') j2' ltac:(lia)). fold x in Hle. fold x in Hnz. lia.
  - lia.
  - split; [lia|]. split; [|split; [|split]].
    + intros i Hi. destruct (Nat.lt_ge_cases i j2') as [Hlt|Hge]; [apply F3; lia|].
      rewrite S3 by lia. rewrite Hv3. destruct (Nat.eqb_spec i j2') as [->|].
      * rewrite Hv2j2. pose proof (Hb1 j2' ltac:(lia)). lia.
      * rewrite Hv2. destruct (Nat.eqb_spec i j1'); [lia | apply Hb1; exact Hi].
    + rewrite F4 by lia.
      pose proof (psum_setn v2 j2' (S (nthn v2 j2')) k ltac:(lia) ltac:(lia)) as P3. fold v3 in P3.
      pose proof (psum_setn v1 j1' 0 k ltac:(lia) ltac:(lia)) as P2. fold v2 in P2. fold x in P2. fold x in Hnz. lia.
    + rewrite S3 by lia. rewrite Hv3. destruct (Nat.eqb_spec k j2'); [lia|]. rewrite Hv2.
      destruct (Nat.eqb_spec k j1'); [lia | exact Hv1k].
    + rewrite S3 by lia. rewrite Hv3. destruct (Nat.eqb_spec (S k) j2'); [lia|]. rewrite Hv2.
      destruct (Nat.eqb_spec (S k) j1'); [lia | exact Hv1k1].
Qed.

Lemma ic_iter_sound : forall fuel value, ic_inv value ->
  forall c, In c (ic_iter fuel k bounds value) -> length c = k /\ list_sum c = n.
Proof.
  induction fuel as [|f IH]; intros value HI c Hc; cbn [ic_iter] in Hc; [destruct Hc|].
  destruct Hc as [<- | Hc].
  - destruct HI as (HL & _ & Hs & _). split; [apply firstn_length_le; lia | exact Hs].
  - destruct (ic_next k bounds value) as [v'|] eqn:E; [|destruct Hc].
    apply (IH v'); [apply (ic_next_inv value v' HI E) | exact Hc].
Qed.
End IntegerCombinations.

Lemma nthn_repeat0 : forall m i, nthn (repeat 0%nat m) i = 0%nat.
Proof. induction m as [|m IH]; intros [|i]; cbn [repeat]; try reflexivity. apply IH. Qed.

Lemma psum_repeat0 : forall m M, psum (repeat 0%nat m) M = 0%nat.
Proof.
  intros m M. induction M as [|M IH]; [reflexivity|]. rewrite psum_S, IH, nthn_repeat0. reflexivity.
Qed.

Lemma psum_app_length : forall l r, psum (l ++ r) (length l) = list_sum l.
Proof. intros l r. unfold psum. rewrite firstn_length_app. reflexivity. Qed.

Theorem int_combinations_sound_holds : forall n k bnds, length bnds = k -> (n <= list_sum bnds)%nat ->
  int_combinations_sound n k bnds.
Proof.
  intros n k bnds Hk Hn c Hc. unfold int_combinations, ic_init in Hc.
  destruct (Nat.ltb_spec (list_sum bnds) n) as [|_]; [lia|].
  set (bounds := bnds ++ [2; 1]%nat) in *.
  assert (Hbl : length bounds = S (S k)) by (unfold bounds; rewrite app_length; cbn [length]; lia).
  assert (Hbk : nthn bounds k = 2%nat).
  { unfold bounds, nthn. rewrite app_nth2 by lia. rewrite Hk, Nat.sub_diag. reflexivity. }
  assert (Hbk1 : nthn bounds (S k) = 1%nat).
  { unfold bounds, nthn. rewrite app_nth2 by lia. rewrite Hk. replace (S k - k)%nat with 1%nat by lia. reflexivity. }
  assert (Hpk : psum bounds k = list_sum bnds) by (unfold bounds; rewrite <- Hk; apply psum_app_length).
  refine (ic_iter_sound k n bounds Hbl Hbk Hbk1 _ _ _ c Hc).
  set (value0 := repeat 0%nat (k + 2)) in *.
  destruct (ic_fill_spec bounds (length bounds) value0 0 n (S k)) as (F1 & F2 & F3 & F4 & st & S1 & S2 & S3 & S4).
  - unfold value0. rewrite repeat_length. lia.
  - intros j _ _. apply nthn_repeat0.
  - rewrite psum_0, psum_S, Hpk, Hbk. lia.
  - lia.
  - set (v1 := ic_fill (length bounds) bounds value0 0 n) in *.
    assert (HL1 : length v1 = S (S k)) by (rewrite F1; unfold value0; rewrite repeat_length; lia).
    assert (Hv1k : nthn v1 k = 0%nat).
    { destruct (Nat.eq_dec st k) as [->|].
      - rewrite psum_0, Hpk in S4. lia.
      - rewrite S3 by lia. apply nthn_repeat0. }
    assert (Hs1 : forall i, nthn (setn v1 k 1) i = if (i =? k)%nat then 1%nat else nthn v1 i) by (intros i; apply nthn_setn; lia).
    assert (Hs2 : forall i, nthn (setn (setn v1 k 1) (S k) 0) i = if (i =? S k)%nat then 0%nat else nthn (setn v1 k 1) i)
      by (intros i; apply nthn_setn; rewrite length_setn; lia).
    split; [rewrite !length_setn; exact HL1|]. split; [|split; [|split]].
    + intros i Hi. rewrite Hs2, Hs1. destruct (Nat.eqb_spec i (S k)); [lia|]. destruct (Nat.eqb_spec i k); [lia|].
      apply F3; lia.
    + rewrite !psum_setn_ge by lia. pose proof (F4 (S k) (le_n _)) as P. rewrite psum_S, Hv1k in P.
      unfold value0 in P. rewrite psum_repeat0 in P. lia.
    + rewrite Hs2, Hs1. destruct (Nat.eqb_spec k (S k)); [lia|]. rewrite Nat.eqb_refl. reflexivity.
    + rewrite Hs2, Nat.eqb_refl. reflexivity.
Qed.
Print Assumptions int_combinations_sound_holds.

Lemma sum_pred_lengths : forall ps : opart, forallb nonempty ps = true ->
  (list_sum (map (fun p => pred (length p)) ps) + length ps = length (concat ps))%nat.
Proof.
  induction ps as [|p r IH]; intros H; [reflexivity|].
  cbn [forallb] in H. apply andb_prop in H. destruct H as [Hp Hr]. specialize (IH Hr).
  cbn [map concat length]. rewrite list_sum_cons, app_length. destruct p; [discriminate|]. cbn [length pred]. lia.
Qed.

(* every enumerated coface is a valid l-simplex having s as a face *)
Theorem cofaces_sound : forall s l c', canonical s -> (dimension s <= l <= length (fst s))%nat ->
  In c' (cofaces l s) ->
  valid_simplex c' = true /\ dimension c' = l /\ length (fst c') = length (fst s) /\
  incl (vertex_range s) (vertex_range c') /\ spec_is_face s c' = true /\ is_face_of s c' = true.
Proof.
  intros s l c' Hc Hl. apply cofaces_sound_if; [exact Hc | lia|].
  apply int_combinations_sound_holds.
  - rewrite map_length. unfold dimension. destruct Hc as (Hne & _). destruct (snd s); [congruence | reflexivity].
  - pose proof (canonical_valid_simplex s Hc) as Hv. unfold valid_simplex, valid_opart in Hv.
    apply andb_prop in Hv. destruct Hv as [Hv Hsort].
    apply andb_prop in Hv. destruct Hv as [Hv _]. apply andb_prop in Hv. destruct Hv as [Hparts _].
    destruct (list_eq_dec Nat.eq_dec (sort_nat (concat (snd s))) (seq 0 (S (length (fst s))))) as [E|]; [|discriminate].
    pose proof (sum_pred_lengths (snd s) Hparts) as Hsum.
    pose proof (Permutation_length (sort_nat_perm (concat (snd s)))) as Hlen. rewrite E, seq_length in Hlen.
    unfold dimension in *. destruct Hc as (Hne & _). destruct (snd s) as [|p r]; [congruence|].
    cbn [length pred] in *. lia.
Qed.
Print Assumptions cofaces_sound.

(* ================================================================== every coface lists s among its faces *)
(* the parts of s refined by the ordered set partitions os *)
Definition refined (ps : opart) (os : list (list (list nat))) (h : nat) : list part :=
  refine_part (nth h ps []) (nth h os []).

Lemma coface_value_form : forall v ps t c os,
  canonical (v, ps) ->
  find_pos (length v) (nth (pred (length ps)) ps []) = Some t ->
  (forall h, (h <= pred (length ps))%nat -> In (nth h os []) (osp (length (nth h ps [])) (S (nthn c h)))) ->
  exists (A C : list part) (b : part),
    coface_value (v, ps) t c os =
      (fold_left decr_at (concat C) v,
       map sort_nat (C ++ concat (map (refined ps os) (seq 0 (pred (length ps)))) ++ A ++ [b])) /\
    (forall h, (h <= pred (length ps))%nat ->
       length (refined ps os h) = S (nthn c h) /\ forallb nonempty (refined ps os h) = true /\
       Permutation (concat (refined ps os h)) (nth h ps [])) /\
    refined ps os (pred (length ps)) = A ++ b :: C /\ In (length v) b /\
    (forall i, In i (concat C) -> i <> length v).
Proof.
  intros v ps t c os Hc Ht Hos.
  assert (Hne' : ps <> []) by (destruct Hc as (H & _); exact H).
  assert (Hndc : NoDup (concat ps)) by (destruct Hc as (_ & _ & H & _); exact H).
  remember (pred (length ps)) as k eqn:Ek.
  assert (Hklen : (k < length ps)%nat) by (destruct ps; [congruence | cbn [length] in *; lia]).
  remember (nth k ps []) as pk eqn:Epk.
  pose (R := fun h => refine_part (nth h ps []) (nth h os [])).
  assert (HR : forall h, (h <= k)%nat -> length (R h) = S (nthn c h) /\ forallb nonempty (R h) = true /\
                                         Permutation (concat (R h)) (nth h ps [])).
  { intros h Hh. apply refine_part_props. apply Hos. exact Hh. }
  remember (nth k os []) as ok eqn:Eok. remember (nthn c k) as ck eqn:Eck.
  destruct (find_pos_spec _ _ _ Ht) as [Htl Htd].
  pose proof (Hos k (le_n k)) as Hosk. rewrite <- Epk, <- Eok, <- Eck in Hosk.
  destruct (osp_sound _ _ _ Hosk) as (Hokl & _ & Hokp & _).
  assert (Hu0 : exists u0, (u0 <= ck)%nat /\ memn t (nth u0 ok []) = true).
  { assert (Hin : In t (concat ok)) by (apply (Permutation_in _ (Permutation_sym Hokp)), in_seq; lia).
    apply in_concat in Hin. destruct Hin as (b0 & Hb & Htb). destruct (In_nth _ _ [] Hb) as (u0 & Hu0 & E0).
    exists u0. split; [lia | rewrite E0; apply memn_In; exact Htb]. }
  destruct Hu0 as (u0 & Hu0 & Hm0).
  pose proof (find_u_spec t ok ck (S (S ck)) 0 u0 ltac:(lia) Hm0 ltac:(lia)) as Hu. cbv zeta in Hu.
  remember (find_u (S (S ck)) 0 ck t ok) as u eqn:Eu. destruct Hu as [Hu1 Hu2].
  destruct (HR k (le_n k)) as (HRkl & HRkn & HRkp). rewrite <- Eck in HRkl. rewrite <- Epk in HRkp.
  destruct (split_at_nth (R k) u [] ltac:(lia)) as (A & C & ERk & EA & EC).
  remember (nth u (R k) []) as b eqn:Eb.
  exists A, C, b. change (refined ps os) with R.
  assert (Hdb : In (length v) b).
  { rewrite Eb. unfold R, refine_part. rewrite <- Epk, <- Eok.
    change (@nil nat) with (thru pk []) at 1. rewrite map_nth. rewrite <- Htd. unfold thru. apply in_map.
    apply memn_In. exact Hu2. }
  split; [|split; [exact HR | split; [exact ERk | split; [exact Hdb|]]]].
  - assert (Efront : map (thru pk) (slice ok (S u) (S ck)) = C).
    { rewrite <- EC. unfold R, refine_part. rewrite <- Epk, <- Eok, skipn_map. f_equal.
      unfold slice. apply firstn_all2. rewrite skipn_length. lia. }
    assert (Eback : map (thru pk) (firstn (S u) ok) = A ++ [b]).
    { rewrite <- EA. unfold R, refine_part. rewrite <- Epk, <- Eok, firstn_map. reflexivity. }
    assert (Emid : concat (map (fun h => map (thru (nth h ps [])) (firstn (S (nthn c h)) (nth h os []))) (seq 0 k)) =
                   concat (map R (seq 0 k))).
    { f_equal. apply map_ext_in. intros h Hh. apply in_seq in Hh. unfold R, refine_part. f_equal.
      apply firstn_all2. destruct (osp_sound _ _ _ (Hos h ltac:(lia))) as (H1 & _). lia. }
    rewrite <- Efront, <- Eback, <- Emid. unfold coface_value. cbv zeta.
    rewrite <- Ek, <- Epk, <- Eok, <- Eck, <- Eu. reflexivity.
  - assert (HndRk : NoDup (concat (R k))).
    { apply (Permutation_NoDup (Permutation_sym HRkp)). apply (NoDup_concat_part ps); [exact Hndc|].
      rewrite Epk. apply nth_In. exact Hklen. }
    rewrite ERk in HndRk. intros i Hi ->. rewrite concat_app in HndRk. cbn [concat] in HndRk.
    apply NoDup_app_l' in HndRk. apply (NoDup_app_disjoint' _ _ (length v) HndRk Hdb Hi).
Qed.

Lemma all_combs_complete : forall n l a lo, chain a l n -> (lo <= a)%nat -> In (a :: l) (all_combs n (S (length l)) lo).
Proof.
  intros n; induction l as [|b r IH]; intros a lo Hc Hlo; cbn [length all_combs].
  - cbn [chain] in Hc. apply in_flat_map. exists a. split; [apply in_seq; lia | left; reflexivity].
  - pose proof (chain_len _ _ _ Hc) as Hlen. cbn [length] in Hlen. cbn [chain] in Hc. destruct Hc as [Hab Hc].
    apply in_flat_map. exists a. split; [apply in_seq; lia|]. apply in_map. apply IH; [exact Hc | lia].
Qed.

Lemma chain_map_seq : forall (j : nat -> nat) bound m a,
  (forall h, (a <= h < a + m)%nat -> (j h < j (S h))%nat) -> (j (a + m)%nat < bound)%nat ->
  chain (j a) (map j (seq (S a) m)) bound.
Proof.
  intros j bound; induction m as [|m IH]; intros a Hj Hb; cbn [seq map chain].
  - rewrite Nat.add_0_r in Hb. exact Hb.
  - split; [apply Hj; lia|]. apply IH; [intros h Hh; apply Hj; lia|]. replace (S a + m)%nat with (a + S m)%nat by lia. exact Hb.
Qed.

Lemma last_map_seq : forall (j : nat -> nat) m a, last (map j (seq (S a) m)) (j a) = j (a + m)%nat.
Proof.
  intros j; induction m as [|m IH]; intros a; cbn [seq map].
  - rewrite Nat.add_0_r. reflexivity.
  - rewrite last_cons', IH. f_equal. lia.
Qed.

Lemma pairsG_map_seq {B} (G : nat -> nat -> B) (j : nat -> nat) : forall m a,
  pairsG G (j a) (map j (seq (S a) m)) = map (fun h => G (j h) (j (S h))) (seq a m).
Proof.
  induction m as [|m IH]; intros a; cbn [seq map pairsG]; [reflexivity|]. rewrite IH. reflexivity.
Qed.

Lemma slice_app_mid {A} : forall (P Y Z : list A), slice (P ++ Y ++ Z) (length P) (length P + length Y) = Y.
Proof.
  intros P Y Z. unfold slice. rewrite skipn_app, skipn_all, Nat.sub_diag. cbn [skipn app].
  replace (length P + length Y - length P)%nat with (length Y) by lia. apply firstn_length_app.
Qed.

Lemma map_nth_seq_firstn {A} : forall (l : list A) dflt k, (k <= length l)%nat ->
  map (fun h => nth h l dflt) (seq 0 k) = firstn k l.
Proof.
  intros l dflt; induction k as [|k IH]; intros Hk; [reflexivity|].
  rewrite seq_S, map_app, IH by lia. cbn [Nat.add map]. rewrite (firstn_S_nth l k dflt) by lia. reflexivity.
Qed.

Lemma simplex_eqb_refl : forall s, simplex_eqb s s = true.
Proof.
  intros s. unfold simplex_eqb. rewrite veqb_refl.
  destruct (list_eq_dec (list_eq_dec Nat.eq_dec) (snd s) (snd s)) as [|Hn]; [reflexivity | exfalso; apply Hn; reflexivity].
Qed.

Lemma slice_map {A B} (f : A -> B) : forall l a b, slice (map f l) a b = map f (slice l a b).
Proof. intros l a b. unfold slice. rewrite skipn_map, firstn_map. reflexivity. Qed.

Lemma coface_value_has_face : forall v ps t c os l,
  canonical (v, ps) -> sorted_parts (v, ps) ->
  find_pos (length v) (nth (pred (length ps)) ps []) = Some t ->
  length c = S (pred (length ps)) ->
  (forall h, (h <= pred (length ps))%nat -> In (nth h os []) (osp (length (nth h ps [])) (S (nthn c h)))) ->
  list_sum c = (l - pred (length ps))%nat -> (pred (length ps) <= l)%nat ->
  In (v, ps) (faces (pred (length ps)) (coface_value (v, ps) t c os)).
Proof.
  intros v ps t c os l Hc Hsorted Ht Hlc Hos Hsum Hkl.
  destruct (coface_value_sound v ps t c os l Hc Ht Hlc Hos Hsum Hkl) as (_ & Hdim & _ & _).
  destruct (coface_value_form v ps t c os Hc Ht Hos) as (A & C & b & Eform & HR & ERk & Hdb & HdC).
  set (R := refined ps os) in *.
  assert (Hne' : ps <> []) by (destruct Hc as (H & _); exact H).
  unfold sorted_parts in Hsorted. cbn [snd] in Hsorted. rewrite Forall_forall in Hsorted.
  remember (pred (length ps)) as k eqn:Ek.
  assert (Hklen : (k < length ps)%nat) by (destruct ps; [congruence | cbn [length] in *; lia]).
  rewrite Eform in *. clear Eform.
  pose (j := fun h => length (C ++ concat (map R (seq 0 h)))).
  assert (Hj0 : j 0%nat = length C) by (unfold j; cbn [seq map concat]; rewrite app_nil_r; reflexivity).
  assert (HjS : forall h, (h <= k)%nat -> j (S h) = (j h + length (R h))%nat).
  { intros h Hh. unfold j. rewrite seq_S, map_app, concat_app. cbn [Nat.add map concat].
    rewrite app_nil_r, !app_length. lia. }
  set (mid := concat (map R (seq 0 k))) in *.
  assert (HQlen : length (C ++ mid ++ A ++ [b]) = S l).
  { unfold dimension in Hdim. cbn [snd] in Hdim. rewrite map_length in Hdim.
    rewrite !app_length in *. cbn [length] in *. lia. }
  assert (Hjk : j k = length (C ++ mid)) by reflexivity.
  unfold faces. cbv zeta. rewrite Hdim. destruct (Nat.ltb_spec l k) as [|_]; [lia|].
  apply in_map_iff. exists (j 0%nat :: map j (seq 1 k)). split.
  2: { rewrite combinations_all by lia.
       replace (S k) with (S (length (map j (seq 1 k)))) by (rewrite map_length, seq_length; reflexivity).
       apply all_combs_complete; [|lia]. apply chain_map_seq.
       - intros h Hh. rewrite HjS by lia. destruct (HR h ltac:(lia)) as (HL & _). lia.
       - cbn [Nat.add]. rewrite Hjk. rewrite !app_length in *. cbn [length] in *. lia. }
  rewrite face_from_indices_eq. f_equal.
  - (* the base vertex *)
    rewrite Hj0, length_fold_decr_at. unfold vertex_at.
    rewrite firstn_map, firstn_length_app.
    rewrite (fold_upd_index_perm _ _ _ (perm_concat_map_sort C)).
    apply fold_upd_decr_cancel. exact HdC.
  - (* the partition *)
    transitivity (firstn k ps ++ [nth k ps []]); [|symmetry; rewrite Ek; apply split_last_part; exact Hne'].
    rewrite map_app. cbn [map]. f_equal.
    + unfold pairsC. rewrite (pairsG_map_seq _ j k 0), map_map. rewrite <- (map_nth_seq_firstn ps [] k) by lia.
      apply map_ext_in. intros h Hh. apply in_seq in Hh.
      cbv beta. rewrite slice_map.
      match goal with |- context [concat (map sort_nat ?X)] => assert (Eslice : X = R h) end.
      { rewrite HjS by lia.
        assert (Ek' : seq 0 k = seq 0 h ++ h :: seq (S h) (k - S h)).
        { replace k with (h + S (k - S h))%nat at 1 by lia. rewrite seq_app. reflexivity. }
        unfold mid. rewrite Ek', map_app, concat_app. cbn [map concat]. rewrite <- !app_assoc.
        rewrite (app_assoc C). apply slice_app_mid. }
      rewrite Eslice.
      rewrite (sort_nat_perm_eq _ (nth h ps [])).
      * apply Hsorted. apply nth_In. lia.
      * etransitivity; [apply perm_concat_map_sort | apply (HR h); lia].
    + f_equal. rewrite (last_map_seq j k 0). cbn [Nat.add]. rewrite Hj0, Hjk.
      rewrite slice_to_end, skipn_map, firstn_map.
      rewrite (app_assoc C mid), skipn_app, skipn_all, Nat.sub_diag. cbn [skipn app].
      rewrite <- (app_assoc C mid), firstn_length_app.
      rewrite (sort_nat_perm_eq _ (nth k ps [])).
      * apply Hsorted. apply nth_In. lia.
      * etransitivity; [apply Permutation_app; apply perm_concat_map_sort|].
        rewrite <- concat_app, <- app_assoc. cbn [app]. rewrite <- ERk. apply (HR k). lia.
Qed.
Print Assumptions coface_value_has_face.

(* cofaces_ok without its last conjunct (pairwise different vertex sets) *)
Theorem cofaces_members_ok : forall s l, canonical s -> sorted_parts s ->
  (dimension s <= l <= length (fst s))%nat ->
  forallb (fun c => valid_simplex c && (dimension c =? l)%nat && (length (fst c) =? length (fst s))%nat &&
                    spec_is_face s c && is_face_of s c && mem_simplex s (faces (dimension s) c)) (cofaces l s) = true.
Proof.
  intros s l Hc Hsorted Hl. apply forallb_forall. intros c' Hin.
  destruct (cofaces_sound s l c' Hc Hl Hin) as (H1 & H2 & H3 & _ & H5 & H6).
  rewrite H1, H2, H3, !Nat.eqb_refl, H5, H6. cbn [andb].
  unfold mem_simplex. apply existsb_exists. exists s. split; [|apply simplex_eqb_refl].
  destruct s as [v ps]. unfold dimension in *. cbn [fst snd] in *.
  unfold cofaces in Hin. destruct (Nat.ltb_spec l (pred (length ps))) as [|_]; [lia|].
  destruct (find_pos (length v) (nth (pred (length ps)) ps [])) as [t|] eqn:Et; [|destruct Hin].
  apply in_flat_map in Hin. destruct Hin as (c & Hcin & Hin). apply in_map_iff in Hin.
  destruct Hin as (os & <- & Hos).
  assert (Hic : int_combinations_sound (l - pred (length ps)) (S (pred (length ps))) (map (fun p => pred (length p)) ps)).
  { apply int_combinations_sound_holds.
    - rewrite map_length. destruct Hc as (Hne & _). cbn [snd] in Hne. destruct ps; [congruence | reflexivity].
    - pose proof (canonical_valid_simplex _ Hc) as Hv. unfold valid_simplex, valid_opart in Hv. cbn [fst snd] in Hv.
      apply andb_prop in Hv. destruct Hv as [Hv Hsort].
      apply andb_prop in Hv. destruct Hv as [Hv _]. apply andb_prop in Hv. destruct Hv as [Hparts _].
      destruct (list_eq_dec Nat.eq_dec (sort_nat (concat ps)) (seq 0 (S (length v)))) as [E|]; [|discriminate].
      pose proof (sum_pred_lengths ps Hparts) as Hsum.
      pose proof (Permutation_length (sort_nat_perm (concat ps))) as Hlen. rewrite E, seq_length in Hlen.
      destruct Hc as (Hne & _). cbn [snd] in Hne. destruct ps as [|p r]; [congruence|].
      cbn [length pred] in *. lia. }
  destruct (Hic c Hcin) as [Hlc Hsum].
  apply in_product in Hos. apply (Forall2_map_seq _ _ []) in Hos. destruct Hos as [_ Hos].
  apply (coface_value_has_face v ps t c os l Hc Hsorted Et Hlc); [|exact Hsum | lia].
  intros h Hh. apply (Hos h). lia.
Qed.
Print Assumptions cofaces_members_ok.

(* ================================================================== the representation is unique *)
Lemma ssorted_ext : forall S T, ssorted S -> ssorted T -> incl S T -> incl T S -> S = T.
Proof.
  induction S as [|x S' IH]; intros T HS HT H1 H2.
  - destruct T as [|y T']; [reflexivity|]. destruct (H2 y (or_introl eq_refl)).
  - destruct T as [|y T']; [destruct (H1 x (or_introl eq_refl))|].
    cbn [ssorted] in HS, HT. destruct HS as [HSx HS']. destruct HT as [HTy HT'].
    assert (Exy : x = y).
    { destruct (H1 x (or_introl eq_refl)) as [E | Hx]; [symmetry; exact E|].
      destruct (H2 y (or_introl eq_refl)) as [E | Hy]; [exact E|].
      specialize (HSx y Hy). specialize (HTy x Hx). lia. }
    subst y. f_equal. apply IH; [exact HS' | exact HT' | |].
    + intros z Hz. destruct (H1 z (or_intror Hz)) as [E | Hz']; [|exact Hz'].
      subst z. specialize (HSx x Hz). lia.
    + intros z Hz. destruct (H2 z (or_intror Hz)) as [E | Hz']; [|exact Hz'].
      subst z. specialize (HTy x Hz). lia.
Qed.

Lemma nthz_incr_at : forall v a i, (a < length v)%nat ->
  nthz (incr_at v a) i = nthz v i + (if (i =? a)%nat then 1 else 0).
Proof.
  unfold nthz. induction v as [|x r IH]; intros a i Ha; cbn [length] in Ha; [lia|].
  destruct a as [|a]; destruct i as [|i]; cbn [incr_at nth Nat.eqb]; try lia.
  apply IH. lia.
Qed.

Lemma length_incr_part : forall p v, length (incr_part v p) = length v.
Proof.
  unfold incr_part. induction p as [|a p IH]; intros v; cbn [fold_left]; [reflexivity|].
  rewrite IH. apply length_incr_at.
Qed.

Lemma nthz_incr_part : forall p v i, NoDup p -> (forall j, In j p -> (j < length v)%nat) ->
  nthz (incr_part v p) i = nthz v i + (if memn i p then 1 else 0).
Proof.
  unfold incr_part. induction p as [|a p IH]; intros v i Hnd Hlt; cbn [fold_left]; [cbn; lia|].
  inversion Hnd as [|a' p' Hna Hnd']; subst.
  rewrite IH; [|exact Hnd' | intros j Hj; rewrite length_incr_at; apply Hlt; right; exact Hj].
  rewrite nthz_incr_at by (apply Hlt; left; reflexivity).
  unfold memn. cbn [existsb]. fold (memn i p).
  destruct (Nat.eqb_spec i a) as [->|]; cbn [orb].
  - destruct (memn a p) eqn:E; [apply memn_In in E; contradiction | lia].
  - destruct (memn i p); lia.
Qed.

Lemma incr_part_inj : forall v p p', NoDup p -> NoDup p' ->
  (forall j, In j p -> (j < length v)%nat) -> (forall j, In j p' -> (j < length v)%nat) ->
  sort_nat p = p -> sort_nat p' = p' -> incr_part v p = incr_part v p' -> p = p'.
Proof.
  intros v p p' Hnd Hnd' Hlt Hlt' Hs Hs' E.
  rewrite <- Hs, <- Hs'. apply sort_nat_perm_eq. apply NoDup_Permutation; [exact Hnd | exact Hnd'|].
  intros i. pose proof (nthz_incr_part p v i Hnd Hlt) as H1. pose proof (nthz_incr_part p' v i Hnd' Hlt') as H2.
  rewrite E in H1. rewrite H1 in H2. rewrite <- !memn_In.
  destruct (memn i p), (memn i p'); try lia; split; auto.
Qed.

Lemma length_incr_vertices : forall op v, length (incr_vertices v op) = length op.
Proof. induction op as [|p r IH]; intros v; cbn [incr_vertices length]; [reflexivity | rewrite IH; reflexivity]. Qed.

Definition part_ok (n : nat) (p : part) : Prop :=
  NoDup p /\ (forall j, In j p -> (j < n)%nat) /\ sort_nat p = p.

Lemma incr_vertices_inj : forall ps ps' v, incr_vertices v ps = incr_vertices v ps' ->
  (forall p, In p (removelast ps) -> part_ok (length v) p) ->
  (forall p, In p (removelast ps') -> part_ok (length v) p) ->
  removelast ps = removelast ps'.
Proof.
  induction ps as [|p r IH]; intros ps' v E H H'.
  - destruct ps'; [reflexivity | discriminate].
  - destruct ps' as [|p' r']; [discriminate|].
    cbn [incr_vertices] in E. inversion E as [E']. clear E.
    destruct r as [|q r2]; destruct r' as [|q' r2']; try discriminate; [reflexivity|].
    change (removelast (p :: q :: r2)) with (p :: removelast (q :: r2)) in *.
    change (removelast (p' :: q' :: r2')) with (p' :: removelast (q' :: r2')) in *.
    assert (Ep : p = p').
    { cbn [incr_vertices] in E'. inversion E' as [[E1 E2]].
      destruct (H p (or_introl eq_refl)) as (A1 & A2 & A3). destruct (H' p' (or_introl eq_refl)) as (B1 & B2 & B3).
      apply (incr_part_inj v); assumption. }
    subst p'. f_equal. apply (IH _ (incr_part v p) E').
    + intros p0 Hp0. rewrite length_incr_part. apply H. right. exact Hp0.
    + intros p0 Hp0. rewrite length_incr_part. apply H'. right. exact Hp0.
Qed.

Theorem same_vset_eq : forall s t, canonical s -> canonical t -> sorted_parts s -> sorted_parts t ->
  same_vset s t = true -> s = t.
Proof.
  intros [v ps] [v' ps'] Hc Hc' Hs Hs' H.
  unfold same_vset in H. apply andb_prop in H. destruct H as [H1 H2].
  unfold spec_is_face in H1, H2. apply subset_v_incl in H1. apply subset_v_incl in H2.
  pose proof (canonical_removelast v ps Hc) as Hr. pose proof (canonical_removelast v' ps' Hc') as Hr'.
  assert (ES : vertex_range (v, ps) = incr_vertices v ps).
  { apply vertices_from_incr_vertices. intros p Hp i Hi. destruct (Hr p Hp) as [_ Hl]. specialize (Hl i Hi). cbn [fst]. lia. }
  assert (ET : vertex_range (v', ps') = incr_vertices v' ps').
  { apply vertices_from_incr_vertices. intros p Hp i Hi. destruct (Hr' p Hp) as [_ Hl]. specialize (Hl i Hi). cbn [fst]. lia. }
  assert (SS : ssorted (vertex_range (v, ps))) by (apply (vertices_from_ssorted (length v) ps v eq_refl Hr)).
  assert (ST : ssorted (vertex_range (v', ps'))) by (apply (vertices_from_ssorted (length v') ps' v' eq_refl Hr')).
  pose proof (ssorted_ext _ _ SS ST H1 H2) as E. rewrite ES, ET in E.
  destruct Hc as (Hne & _ & Hnd & Hall & _). destruct Hc' as (Hne' & _ & Hnd' & Hall' & _).
  cbn [fst snd] in *.
  destruct ps as [|p r]; [congruence|]. destruct ps' as [|p' r']; [congruence|].
  assert (Ev : v = v') by (cbn [incr_vertices] in E; inversion E; reflexivity). subst v'.
  unfold sorted_parts in Hs, Hs'. cbn [snd] in Hs, Hs'. rewrite Forall_forall in Hs, Hs'.
  assert (Erl : removelast (p :: r) = removelast (p' :: r')).
  { apply (incr_vertices_inj _ _ v E).
    - intros p0 Hp0. pose proof (in_removelast' _ _ Hp0) as Hin. split; [|split].
      + apply (NoDup_concat_part (p :: r)); assumption.
      + apply (Hr p0 Hp0).
      + apply Hs. exact Hin.
    - intros p0 Hp0. pose proof (in_removelast' _ _ Hp0) as Hin. split; [|split].
      + apply (NoDup_concat_part (p' :: r')); assumption.
      + apply (Hr' p0 Hp0).
      + apply Hs'. exact Hin. }
  f_equal.
  rewrite (app_removelast_last [] Hne), (app_removelast_last [] Hne'). f_equal; [exact Erl|]. f_equal.
  assert (P : Permutation (concat (p :: r)) (concat (p' :: r'))).
  { apply NoDup_Permutation; [exact Hnd | exact Hnd'|]. intros i. rewrite Hall, Hall'. reflexivity. }
  rewrite (app_removelast_last [] Hne), (app_removelast_last [] Hne') in P.
  rewrite !concat_app in P.
  match type of P with Permutation (concat ?a ++ _) (concat ?b ++ _) => assert (Eab : a = b) by exact Erl; rewrite Eab in P end.
 cbn [concat] in P. rewrite !app_nil_r in P. apply Permutation_app_inv_l in P.
  match goal with |- ?a = ?b =>
    assert (Ha : sort_nat a = a) by (apply Hs; apply (last_in_skipn _ 0%nat); cbn [length]; lia);
    assert (Hb : sort_nat b = b) by (apply Hs'; apply (last_in_skipn _ 0%nat); cbn [length]; lia);
    rewrite <- Ha, <- Hb
  end.
  apply sort_nat_perm_eq. exact P.
Qed.
Print Assumptions same_vset_eq.

(* ================================================================== coface_value is injective *)
Lemma nthz_decr_at : forall v a i, (a < length v)%nat ->
  nthz (decr_at v a) i = nthz v i - (if (i =? a)%nat then 1 else 0).
Proof.
  unfold nthz. induction v as [|x r IH]; intros a i Ha; cbn [length] in Ha; [lia|].
  destruct a as [|a]; destruct i as [|i]; cbn [decr_at nth Nat.eqb]; try lia.
  apply IH. lia.
Qed.

Lemma length_decr_at : forall v a, length (decr_at v a) = length v.
Proof. induction v as [|x r IH]; intros [|a]; cbn [decr_at length]; auto. Qed.

Lemma nthz_fold_decr : forall q v i, NoDup q -> (forall j, In j q -> (j < length v)%nat) ->
  nthz (fold_left decr_at q v) i = nthz v i - (if memn i q then 1 else 0).
Proof.
  induction q as [|a q IH]; intros v i Hnd Hlt; cbn [fold_left]; [cbn; lia|].
  inversion Hnd as [|a' q' Hna Hnd']; subst.
  rewrite IH; [|exact Hnd' | intros j Hj; rewrite length_decr_at; apply Hlt; right; exact Hj].
  rewrite nthz_decr_at by (apply Hlt; left; reflexivity).
  unfold memn. cbn [existsb]. fold (memn i q).
  destruct (Nat.eqb_spec i a) as [->|]; cbn [orb].
  - destruct (memn a q) eqn:E; [apply memn_In in E; contradiction | lia].
  - destruct (memn i q); lia.
Qed.

Lemma fold_decr_same_set : forall v q q2, NoDup q -> NoDup q2 ->
  (forall j, In j q -> (j < length v)%nat) -> (forall j, In j q2 -> (j < length v)%nat) ->
  fold_left decr_at q v = fold_left decr_at q2 v -> forall i, In i q <-> In i q2.
Proof.
  intros v q q2 Hnd Hnd2 Hlt Hlt2 E i.
  pose proof (nthz_fold_decr q v i Hnd Hlt) as H1. pose proof (nthz_fold_decr q2 v i Hnd2 Hlt2) as H2.
  rewrite E in H1. rewrite H1 in H2. rewrite <- !memn_In.
  destruct (memn i q), (memn i q2); try lia; split; auto.
Qed.

(* the index of the part of ps containing the first element of q *)
Definition owner (ps : opart) (q : part) : nat := part_index ps (hd O q).

Lemma owner_sorted_block : forall ps h X, NoDup (concat ps) -> (h < length ps)%nat ->
  forallb nonempty X = true -> (forall i, In i (concat X) -> In i (nth h ps [])) ->
  map (owner ps) (map sort_nat X) = repeat h (length X).
Proof.
  intros ps h X Hnd Hh. induction X as [|q X IH]; intros Hne Hsub; [reflexivity|].
  cbn [forallb] in Hne. apply andb_prop in Hne. destruct Hne as [Hq HX].
  cbn [map length repeat]. f_equal.
  - unfold owner. apply part_index_of_nth; [exact Hnd | exact Hh|]. apply Hsub. cbn [concat]. apply in_or_app. left.
    apply (Permutation_in _ (sort_nat_perm q)).
    rewrite <- nonempty_sort_nat in Hq. destruct (sort_nat q); [discriminate | left; reflexivity].
  - apply IH; [exact HX|]. intros i Hi. apply Hsub. cbn [concat]. apply in_or_app. right. exact Hi.
Qed.

Lemma count_occ_repeat' : forall a x h, count_occ Nat.eq_dec (repeat a x) h = if (a =? h)%nat then x else 0%nat.
Proof.
  intros a x h; induction x as [|x IH]; cbn [repeat count_occ]; [destruct (a =? h)%nat; reflexivity|].
  destruct (Nat.eq_dec a h) as [->|Hn].
  - rewrite IH, Nat.eqb_refl. reflexivity.
  - rewrite IH. destruct (Nat.eqb_spec a h); [contradiction | reflexivity].
Qed.

Lemma count_runs : forall (n : nat -> nat) m a h,
  count_occ Nat.eq_dec (concat (map (fun h' => repeat h' (n h')) (seq a m))) h =
  if ((a <=? h) && (h <? a + m))%nat then n h else 0%nat.
Proof.
  intros n; induction m as [|m IH]; intros a h; cbn [seq map concat].
  - cbn [count_occ]. destruct (Nat.leb_spec a h), (Nat.ltb_spec h (a + 0)); try reflexivity; lia.
  - rewrite count_occ_app, count_occ_repeat', IH.
    destruct (Nat.eqb_spec a h) as [Eah|]; destruct (Nat.leb_spec (S a) h), (Nat.ltb_spec h (S a + m)),
      (Nat.leb_spec a h), (Nat.ltb_spec h (a + S m)); cbn [andb]; try lia; subst; lia.
Qed.

Lemma map_inj_in {A B} (f : A -> B) : forall l l2,
  (forall x y, In x l -> In y l2 -> f x = f y -> x = y) -> map f l = map f l2 -> l = l2.
Proof.
  induction l as [|x l IH]; intros l2 Hinj E; destruct l2 as [|y l2]; try discriminate; [reflexivity|].
  cbn [map] in E. inversion E as [[E1 E2]]. f_equal.
  - apply Hinj; [left; reflexivity | left; reflexivity | exact E1].
  - apply IH; [|exact E2]. intros x' y' Hx' Hy'. apply Hinj; right; assumption.
Qed.

Lemma nthn_inj : forall (p : part) x y, NoDup p -> (x < length p)%nat -> (y < length p)%nat ->
  nthn p x = nthn p y -> x = y.
Proof. intros p x y Hnd Hx Hy E. apply (proj1 (NoDup_nth p O) Hnd x y Hx Hy E). Qed.

Lemma thru_sort_inj : forall (p : part) B B2, NoDup p -> NoDup B -> NoDup B2 ->
  (forall x, In x B -> (x < length p)%nat) -> (forall x, In x B2 -> (x < length p)%nat) ->
  sort_nat B = B -> sort_nat B2 = B2 -> sort_nat (thru p B) = sort_nat (thru p B2) -> B = B2.
Proof.
  intros p B B2 Hp HB HB2 Hlt Hlt2 Hs Hs2 E.
  rewrite <- Hs, <- Hs2. apply sort_nat_perm_eq. apply NoDup_Permutation; [exact HB | exact HB2|].
  assert (P : Permutation (thru p B) (thru p B2)).
  { etransitivity; [apply Permutation_sym, sort_nat_perm|]. rewrite E. apply sort_nat_perm. }
  assert (Hside : forall X Y, (forall x, In x X -> (x < length p)%nat) -> (forall x, In x Y -> (x < length p)%nat) ->
            Permutation (thru p X) (thru p Y) -> forall x, In x X -> In x Y).
  { intros X Y HX HY PXY x Hx. assert (Hin : In (nthn p x) (thru p Y)).
    { apply (Permutation_in _ PXY). unfold thru. apply in_map. exact Hx. }
    unfold thru in Hin. apply in_map_iff in Hin. destruct Hin as (y & Ey & Hy).
    assert (y = x) by (apply (nthn_inj p); auto). subst y. exact Hy. }
  intros x. split; [apply (Hside B B2) | apply (Hside B2 B)]; auto. apply Permutation_sym. exact P.
Qed.

Lemma skipn_length_app' {A} : forall l1 l2 : list A, skipn (length l1) (l1 ++ l2) = l2.
Proof. intros l1 l2. rewrite skipn_app, skipn_all, Nat.sub_diag. reflexivity. Qed.

Lemma form_perm : forall (ps : opart) (R : nat -> list part) (A C : list part) (b : part) k,
  ps <> [] -> k = pred (length ps) ->
  (forall h, (h <= k)%nat -> Permutation (concat (R h)) (nth h ps [])) ->
  R k = A ++ b :: C ->
  Permutation (concat (C ++ concat (map R (seq 0 k)) ++ A ++ [b])) (concat ps).
Proof.
  intros ps R A C b k Hne Ek HR ERk.
  assert (Hklen : (k < length ps)%nat) by (destruct ps; [congruence | cbn [length] in *; lia]).
  rewrite (split_last_part ps Hne) at 1. rewrite <- Ek.
  rewrite !concat_app. cbn [concat]. rewrite !app_nil_r.
  etransitivity; [apply Permutation_app_comm|]. rewrite <- app_assoc.
  apply Permutation_app.
  - apply perm_refined_prefix; [lia | intros h Hh; apply HR; lia].
  - etransitivity; [|apply (HR k); lia]. rewrite ERk, concat_app. cbn [concat]. rewrite <- app_assoc. reflexivity.
Qed.

Lemma sub_of_perm : forall (X : list part) (p : part) q, Permutation (concat X) p -> In q X -> forall i, In i q -> In i p.
Proof. intros X p q P Hq i Hi. apply (Permutation_in _ P). apply in_concat. exists q. split; assumption. Qed.

Lemma coface_value_inj : forall v ps t c os c2 os2,
  canonical (v, ps) ->
  find_pos (length v) (nth (pred (length ps)) ps []) = Some t ->
  length c = S (pred (length ps)) -> length c2 = S (pred (length ps)) ->
  length os = S (pred (length ps)) -> length os2 = S (pred (length ps)) ->
  (forall h, (h <= pred (length ps))%nat -> In (nth h os []) (osp (length (nth h ps [])) (S (nthn c h)))) ->
  (forall h, (h <= pred (length ps))%nat -> In (nth h os2 []) (osp (length (nth h ps [])) (S (nthn c2 h)))) ->
  coface_value (v, ps) t c os = coface_value (v, ps) t c2 os2 -> c = c2 /\ os = os2.
Proof.
  intros v ps t c os c2 os2 Hc Ht Hlc Hlc2 Hlo Hlo2 Hos Hos2 E.
  destruct (coface_value_form v ps t c os Hc Ht Hos) as (A & C & b & Ef & HR & ERk & Hdb & HdC).
  destruct (coface_value_form v ps t c2 os2 Hc Ht Hos2) as (A2 & C2 & b2 & Ef2 & HR2 & ERk2 & Hdb2 & HdC2).
  rewrite Ef, Ef2 in E. clear Ef Ef2.
  assert (Hne : ps <> []) by (destruct Hc as (H & _); exact H).
  assert (Hndc : NoDup (concat ps)) by (destruct Hc as (_ & _ & H & _); exact H).
  assert (Hall : forall i, In i (concat ps) <-> (i <= length v)%nat) by (destruct Hc as (_ & _ & _ & H & _); exact H).
  remember (pred (length ps)) as k eqn:Ek.
  assert (Hklen : (k < length ps)%nat) by (destruct ps; [congruence | cbn [length] in *; lia]).
  set (R := refined ps os) in *. set (R2 := refined ps os2) in *.
  set (mid := concat (map R (seq 0 k))) in *. set (mid2 := concat (map R2 (seq 0 k))) in *.
  inversion E as [[Ev EQ]]. clear E.
  pose proof (form_perm ps R A C b k Hne Ek (fun h Hh => proj2 (proj2 (HR h Hh))) ERk) as PQ.
  pose proof (form_perm ps R2 A2 C2 b2 k Hne Ek (fun h Hh => proj2 (proj2 (HR2 h Hh))) ERk2) as PQ2.
  fold mid in PQ. fold mid2 in PQ2.
  assert (NQ : NoDup (concat (C ++ mid ++ A ++ [b]))) by (apply (Permutation_NoDup (Permutation_sym PQ)); exact Hndc).
  assert (NQ2 : NoDup (concat (C2 ++ mid2 ++ A2 ++ [b2]))) by (apply (Permutation_NoDup (Permutation_sym PQ2)); exact Hndc).
  (* elements of C are below d *)
  assert (HCl : forall (C0 mid0 A0 : list part) (b0 : part),
            Permutation (concat (C0 ++ mid0 ++ A0 ++ [b0])) (concat ps) ->
            (forall i, In i (concat C0) -> i <> length v) -> forall i, In i (concat C0) -> (i < length v)%nat).
  { intros C0 mid0 A0 b0 P0 Hd0 i Hi. assert (In i (concat ps)).
    { apply (Permutation_in _ P0). rewrite concat_app. apply in_or_app. left. exact Hi. }
    apply Hall in H. specialize (Hd0 i Hi). lia. }
  assert (HsetC : forall i, In i (concat C) <-> In i (concat C2)).
  { apply (fold_decr_same_set v).
    - rewrite concat_app in NQ. apply NoDup_app_r' in NQ. exact NQ.
    - rewrite concat_app in NQ2. apply NoDup_app_r' in NQ2. exact NQ2.
    - apply (HCl C mid A b PQ HdC).
    - apply (HCl C2 mid2 A2 b2 PQ2 HdC2).
    - exact Ev. }
  (* all parts are non-empty *)
  assert (HneQ : forall (R0 : nat -> list part) (A0 C0 : list part) (b0 : part),
            (forall h, (h <= k)%nat -> forallb nonempty (R0 h) = true) -> R0 k = A0 ++ b0 :: C0 ->
            forallb nonempty (C0 ++ concat (map R0 (seq 0 k)) ++ A0 ++ [b0]) = true).
  { intros R0 A0 C0 b0 H0 E0. pose proof (H0 k (le_n k)) as Hk0. rewrite E0, forallb_app in Hk0. cbn [forallb] in Hk0.
    apply andb_prop in Hk0. destruct Hk0 as [HA0 Hb0]. apply andb_prop in Hb0. destruct Hb0 as [Hb0 HC0].
    rewrite !forallb_app, HC0, HA0. cbn [forallb]. rewrite Hb0.
    rewrite forallb_concat_in; [reflexivity|]. intros rl Hrl. apply in_map_iff in Hrl.
    destruct Hrl as (h & <- & Hh). apply in_seq in Hh. apply H0. lia. }
  pose proof (HneQ R A C b (fun h Hh => proj1 (proj2 (HR h Hh))) ERk) as HneQ1. fold mid in HneQ1.
  pose proof (HneQ R2 A2 C2 b2 (fun h Hh => proj1 (proj2 (HR2 h Hh))) ERk2) as HneQ2. fold mid2 in HneQ2.
  (* |C| = |C2| *)
  assert (Hlen_lt : forall (C0 C1 Y0 Y1 : list part), map sort_nat (C0 ++ Y0) = map sort_nat (C1 ++ Y1) ->
            NoDup (concat (C0 ++ Y0)) -> forallb nonempty (C0 ++ Y0) = true ->
            (forall i, In i (concat C1) -> In i (concat C0)) -> (length C0 < length C1)%nat -> False).
  { intros C0 C1 Y0 Y1 EQ0 ND0 NE0 Hsub Hlt.
    assert (Hq : exists q Y0', Y0 = q :: Y0').
    { destruct Y0 as [|q Y0']; [|exists q, Y0'; reflexivity]. exfalso.
      apply (f_equal (@length _)) in EQ0. rewrite !map_length, !app_length in EQ0. cbn [length] in EQ0. lia. }
    destruct Hq as (q & Y0' & ->).
    assert (Eq : sort_nat q = nth (length C0) (map sort_nat (C1 ++ Y1)) []).
    { rewrite <- EQ0. rewrite map_app. rewrite app_nth2 by (rewrite map_length; lia).
      rewrite map_length, Nat.sub_diag. reflexivity. }
    rewrite map_app, app_nth1 in Eq by (rewrite map_length; exact Hlt).
    change (@nil nat) with (sort_nat []) in Eq. rewrite map_nth in Eq.
    rewrite forallb_app in NE0. apply andb_prop in NE0. destruct NE0 as [_ NE0]. cbn [forallb] in NE0.
    apply andb_prop in NE0. destruct NE0 as [Hqne _].
    destruct q as [|i q']; [discriminate|].
    assert (Hi1 : In i (concat C1)).
    { apply in_concat. exists (nth (length C0) C1 []). split; [apply nth_In; exact Hlt|].
      apply (Permutation_in _ (sort_nat_perm _)). rewrite <- Eq. apply (Permutation_in _ (Permutation_sym (sort_nat_perm _))).
      left. reflexivity. }
    apply Hsub in Hi1. rewrite concat_app in ND0.
    apply (NoDup_app_disjoint' _ _ i ND0 Hi1). cbn [concat]. apply in_or_app. left. left. reflexivity. }
  assert (HlenC : length C = length C2).
  { destruct (Nat.lt_trichotomy (length C) (length C2)) as [Hlt | [Heq | Hgt]]; [exfalso | exact Heq | exfalso].
    - apply (Hlen_lt C C2 (mid ++ A ++ [b]) (mid2 ++ A2 ++ [b2]) EQ NQ HneQ1); [|exact Hlt]. intros i Hi. apply HsetC. exact Hi.
    - apply (Hlen_lt C2 C (mid2 ++ A2 ++ [b2]) (mid ++ A ++ [b]) (eq_sym EQ) NQ2 HneQ2); [|exact Hgt]. intros i Hi. apply HsetC. exact Hi. }
  (* owners: c = c2 *)
  assert (Hown : forall (R0 : nat -> list part) (A0 C0 : list part) (b0 : part) c0,
            (forall h, (h <= k)%nat -> length (R0 h) = S (nthn c0 h) /\ forallb nonempty (R0 h) = true /\
                                        Permutation (concat (R0 h)) (nth h ps [])) ->
            R0 k = A0 ++ b0 :: C0 ->
            forall h, (h <= k)%nat ->
            count_occ Nat.eq_dec (map (owner ps) (map sort_nat (C0 ++ concat (map R0 (seq 0 k)) ++ A0 ++ [b0]))) h = S (nthn c0 h)).
  { intros R0 A0 C0 b0 c0 H0 E0 h Hh.
    destruct (H0 k (le_n k)) as (HLk & HNk & HPk). rewrite E0 in HLk, HNk, HPk.
    rewrite forallb_app in HNk. cbn [forallb] in HNk.
    apply andb_prop in HNk. destruct HNk as [HA0 Hb0]. apply andb_prop in Hb0. destruct Hb0 as [Hb0 HC0].
    assert (HsubC : forall i, In i (concat C0) -> In i (nth k ps [])).
    { intros i Hi. apply (Permutation_in _ HPk). rewrite concat_app. cbn [concat]. apply in_or_app. right.
      apply in_or_app. right. exact Hi. }
    assert (HsubA : forall i, In i (concat (A0 ++ [b0])) -> In i (nth k ps [])).
    { intros i Hi. apply (Permutation_in _ HPk). rewrite concat_app in *. cbn [concat] in *. rewrite app_nil_r in Hi.
      apply in_app_or in Hi. apply in_or_app. destruct Hi as [Hi | Hi]; [left; exact Hi | right; apply in_or_app; left; exact Hi]. }
    rewrite !map_app, !count_occ_app.
    match goal with |- (count_occ _ ?x h + (count_occ _ ?y h + (count_occ _ ?z h + count_occ _ ?w h)))%nat = _ =>
      assert (Ex : x = repeat k (length C0)) by (apply owner_sorted_block; assumption);
      assert (Ez : z = repeat k (length A0))
        by (apply owner_sorted_block; [exact Hndc | exact Hklen | exact HA0 |
            intros i Hi; apply HsubA; rewrite concat_app; apply in_or_app; left; exact Hi]);
      assert (Ew : w = repeat k 1)
        by (apply (owner_sorted_block ps k [b0]); [exact Hndc | exact Hklen | cbn [forallb]; rewrite Hb0; reflexivity |
            intros i Hi; apply HsubA; rewrite concat_app; apply in_or_app; right; exact Hi]);
      assert (Ey : y = concat (map (fun h' => repeat h' (S (nthn c0 h'))) (seq 0 k)))
    end.
    { rewrite !concat_map, !map_map. f_equal. apply map_ext_in. intros h' Hh'. apply in_seq in Hh'.
      destruct (H0 h' ltac:(lia)) as (HL' & HN' & HP'). rewrite <- HL'.
      apply owner_sorted_block; [exact Hndc | apply (Nat.lt_trans _ k); [lia | exact Hklen] | exact HN'|]. intros i Hi. apply (Permutation_in _ HP'). exact Hi. }
    rewrite Ex, Ey, Ez, Ew, count_runs, !count_occ_repeat'.
    rewrite app_length in HLk. cbn [length] in HLk.
    destruct (Nat.eqb_spec k h) as [Ekh|]; destruct (Nat.leb_spec 0 h), (Nat.ltb_spec h (0 + k)); cbn [andb];
      try rewrite <- Ekh; lia. }
  assert (Ec : c = c2).
  { apply (nth_ext _ _ O O); [lia|]. intros h Hh. rewrite Hlc in Hh.
    pose proof (Hown R A C b c HR ERk h ltac:(lia)) as H1. pose proof (Hown R2 A2 C2 b2 c2 HR2 ERk2 h ltac:(lia)) as H2.
    fold mid in H1. fold mid2 in H2. rewrite EQ in H1. rewrite H1 in H2. unfold nthn in H2. lia. }
  subst c2. split; [reflexivity|].
  (* the blocks *)
  pose (j := fun (C0 : list part) (R0 : nat -> list part) h => length (C0 ++ concat (map R0 (seq 0 h)))).
  assert (HjS : forall (C0 : list part) (R0 : nat -> list part) h, j C0 R0 (S h) = (j C0 R0 h + length (R0 h))%nat).
  { intros C0 R0 h. unfold j. rewrite seq_S, map_app, concat_app. cbn [Nat.add map concat].
    rewrite app_nil_r, !app_length. lia. }
  assert (Hjeq : forall h, (h <= S k)%nat -> j C R h = j C2 R2 h).
  { induction h as [|h IHh]; intros Hh.
    - unfold j. cbn [seq map concat]. rewrite !app_nil_r. exact HlenC.
    - rewrite !HjS, IHh by lia. destruct (HR h ltac:(lia)) as (H1 & _). destruct (HR2 h ltac:(lia)) as (H2 & _). lia. }
  assert (Hslice : forall (C0 A0 : list part) (b0 : part) (R0 : nat -> list part) h, (h < k)%nat ->
            slice (C0 ++ concat (map R0 (seq 0 k)) ++ A0 ++ [b0]) (j C0 R0 h) (j C0 R0 (S h)) = R0 h).
  { intros C0 A0 b0 R0 h Hh. rewrite HjS.
    assert (Ek' : seq 0 k = seq 0 h ++ h :: seq (S h) (k - S h)).
    { replace k with (h + S (k - S h))%nat at 1 by lia. rewrite seq_app. reflexivity. }
    rewrite Ek', map_app, concat_app. cbn [map concat]. rewrite <- !app_assoc.
    rewrite (app_assoc C0). apply slice_app_mid. }
  assert (ERh : forall h, (h <= k)%nat -> map sort_nat (R h) = map sort_nat (R2 h)).
  { intros h Hh. destruct (Nat.eq_dec h k) as [->|Hhk].
    - (* the last part: A ++ b :: C *)
      rewrite ERk, ERk2.
      assert (E1 : map sort_nat C = map sort_nat C2).
      { apply (f_equal (firstn (length C))) in EQ. rewrite !firstn_map, firstn_length_app in EQ.
        rewrite HlenC, firstn_length_app in EQ. exact EQ. }
      assert (E2 : map sort_nat (A ++ [b]) = map sort_nat (A2 ++ [b2])).
      { pose proof EQ as EQs. apply (f_equal (skipn (j C R k))) in EQs. rewrite !skipn_map in EQs.
        match type of EQs with map _ ?x = map _ ?y =>
          assert (Sx : x = A ++ [b])
            by (unfold j; fold mid; transitivity (skipn (length (C ++ mid)) ((C ++ mid) ++ A ++ [b]));
                [f_equal; apply app_assoc | apply skipn_length_app']);
          assert (Sy : y = A2 ++ [b2])
            by (rewrite (Hjeq k) by lia; unfold j; fold mid2;
                transitivity (skipn (length (C2 ++ mid2)) ((C2 ++ mid2) ++ A2 ++ [b2]));
                [f_equal; apply app_assoc | apply skipn_length_app']);
          rewrite Sx, Sy in EQs
        end. exact EQs. }
      rewrite !map_app. cbn [map]. rewrite !map_app in E2. cbn [map] in E2.
      change (map sort_nat A ++ sort_nat b :: map sort_nat C) with (map sort_nat A ++ [sort_nat b] ++ map sort_nat C).
      change (map sort_nat A2 ++ sort_nat b2 :: map sort_nat C2) with (map sort_nat A2 ++ [sort_nat b2] ++ map sort_nat C2).
      rewrite !app_assoc. apply f_equal2; [exact E2 | exact E1].
    - rewrite <- (Hslice C A b R h) by lia. rewrite <- (Hslice C2 A2 b2 R2 h) by lia.
      rewrite <- !slice_map. fold mid. fold mid2. rewrite EQ, !Hjeq by lia. reflexivity. }
  apply (nth_ext _ _ [] []); [lia|]. intros h Hh. rewrite Hlo in Hh.
  specialize (ERh h ltac:(lia)). unfold R, R2, refined, refine_part in ERh. rewrite !map_map in ERh.
  destruct (osp_sound _ _ _ (Hos h ltac:(lia))) as (_ & _ & HP1 & HS1).
  destruct (osp_sound _ _ _ (Hos2 h ltac:(lia))) as (_ & _ & HP2 & HS2).
  assert (Hnp : NoDup (nth h ps [])) by (apply (NoDup_concat_part ps); [exact Hndc | apply nth_In; lia]).
  assert (ND1 : NoDup (concat (nth h os []))) by (apply (Permutation_NoDup (Permutation_sym HP1)), seq_NoDup).
  assert (ND2 : NoDup (concat (nth h os2 []))) by (apply (Permutation_NoDup (Permutation_sym HP2)), seq_NoDup).
  rewrite Forall_forall in HS1, HS2.
  apply (map_inj_in (fun B => sort_nat (thru (nth h ps []) B))); [|exact ERh].
  intros B B2 HB HB2 EB. apply (thru_sort_inj (nth h ps [])); try assumption.
  - apply (NoDup_concat_part _ _ ND1 HB).
  - apply (NoDup_concat_part _ _ ND2 HB2).
  - intros x Hx. assert (Hin : In x (seq 0 (length (nth h ps [])))) by (apply (sub_of_perm _ _ B HP1 HB x Hx)).
    apply in_seq in Hin. lia.
  - intros x Hx. assert (Hin : In x (seq 0 (length (nth h ps [])))) by (apply (sub_of_perm _ _ B2 HP2 HB2 x Hx)).
    apply in_seq in Hin. lia.
  - apply HS1. exact HB.
  - apply HS2. exact HB2.
Qed.
Print Assumptions coface_value_inj.

(* ================================================================== the enumerations have no repetition *)
Lemma NoDup_flat_map' {A B} (f : A -> list B) : forall L, NoDup L -> (forall x, In x L -> NoDup (f x)) ->
  (forall x y, In x L -> In y L -> x <> y -> forall z, In z (f x) -> In z (f y) -> False) -> NoDup (flat_map f L).
Proof.
  induction L as [|x L IH]; intros HL Hf Hd; cbn [flat_map]; [constructor|].
  inversion HL as [|x' L' Hx HL']; subst. apply NoDup_app'.
  - apply Hf. left. reflexivity.
  - apply IH; [exact HL' | intros y Hy; apply Hf; right; exact Hy |].
    intros y y' Hy Hy' Hne z Hz Hz'. apply (Hd y y' (or_intror Hy) (or_intror Hy') Hne z Hz Hz').
  - intros z Hz1 Hz2. apply in_flat_map in Hz2. destruct Hz2 as (y & Hy & Hz2).
    apply (Hd x y (or_introl eq_refl) (or_intror Hy)) with (z := z); [intros ->; contradiction | exact Hz1 | exact Hz2].
Qed.

Lemma NoDup_map_inj_in {A B} (f : A -> B) : forall L, NoDup L ->
  (forall x y, In x L -> In y L -> f x = f y -> x = y) -> NoDup (map f L).
Proof.
  induction L as [|x L IH]; intros HL Hinj; cbn [map]; [constructor|].
  inversion HL as [|x' L' Hx HL']; subst. constructor.
  - intros Hin. apply in_map_iff in Hin. destruct Hin as (y & E & Hy).
    apply Hx. rewrite <- (Hinj y x (or_intror Hy) (or_introl eq_refl) E). exact Hy.
  - apply IH; [exact HL'|]. intros y y' Hy Hy'. apply Hinj; right; assumption.
Qed.

Lemma NoDup_labelings : forall k n, NoDup (labelings n k).
Proof.
  intros k; induction n as [|n IH]; cbn [labelings]; [constructor; [intros [] | constructor]|].
  apply NoDup_flat_map'; [exact IH | |].
  - intros l _. apply NoDup_map_inj_in; [apply seq_NoDup|]. intros x y _ _ E. inversion E. reflexivity.
  - intros l l' _ _ Hne z Hz Hz'. apply in_map_iff in Hz. apply in_map_iff in Hz'.
    destruct Hz as (x & <- & _). destruct Hz' as (x' & E & _). inversion E. congruence.
Qed.

Lemma NoDup_product {A} : forall ls : list (list A), (forall l, In l ls -> NoDup l) -> NoDup (product ls).
Proof.
  induction ls as [|l ls IH]; intros H; cbn [product]; [constructor; [intros [] | constructor]|].
  apply NoDup_flat_map'; [apply H; left; reflexivity | |].
  - intros x _. apply NoDup_map_inj_in; [apply IH; intros l' Hl'; apply H; right; exact Hl'|].
    intros y y' _ _ E. inversion E. reflexivity.
  - intros x x' _ _ Hne z Hz Hz'. apply in_map_iff in Hz. apply in_map_iff in Hz'.
    destruct Hz as (y & <- & _). destruct Hz' as (y' & E & _). inversion E. congruence.
Qed.

Lemma NoDup_osp : forall n m, NoDup (osp n m).
Proof.
  intros n m. unfold osp. apply NoDup_filter. apply NoDup_map_inj_in; [apply NoDup_labelings|].
  intros lab lab2 H1 H2 E. apply in_labelings_inv in H1. apply in_labelings_inv in H2.
  destruct H1 as [L1 B1]. destruct H2 as [L2 B2].
  apply (nth_ext _ _ O O); [lia|]. intros i Hi.
  assert (Hj : (nth i lab O < m)%nat) by (apply B1, nth_In; exact Hi).
  assert (Eb : block_of lab (nth i lab O) = block_of lab2 (nth i lab O)).
  { apply (proj1 (@map_ext_in_iff _ _ (block_of lab) (block_of lab2) (seq 0 m)) E). apply in_seq. lia. }
  assert (Hin : In i (block_of lab (nth i lab O))).
  { rewrite block_of_filter. apply filter_In. split; [apply in_seq; lia | apply Nat.eqb_refl]. }
  rewrite Eb, block_of_filter in Hin. apply filter_In in Hin. destruct Hin as [_ Hin].
  apply Nat.eqb_eq in Hin. symmetry. exact Hin.
Qed.

(* ---- Integer_combination_iterator: strictly increasing in colexicographic order *)
Lemma nthn_setn_other : forall l j x i, i <> j -> nthn (setn l j x) i = nthn l i.
Proof.
  unfold nthn. induction l as [|y r IH]; intros j x i H; [reflexivity|].
  destruct j as [|j]; destruct i as [|i]; cbn [setn nth]; try reflexivity; try lia.
  apply IH. lia.
Qed.

Lemma ic_scan_frame : forall bounds fuel value j1 j2 s, (j1 < j2)%nat ->
  match ic_scan fuel bounds value j1 j2 s with
  | (v', j1', j2', s') => (j1' < j2')%nat /\ (j2 <= j2')%nat /\ forall i, (j2' <= i)%nat -> nthn v' i = nthn value i
  end.
Proof.
  intros bounds; induction fuel as [|f IH]; intros value j1 j2 s H; cbn [ic_scan].
  - split; [exact H | split; [lia | reflexivity]].
  - destruct (nthn value j2 =? nthn bounds j2)%nat; [|split; [exact H | split; [lia | reflexivity]]].
    destruct (negb (nthn bounds j2 =? 0)%nat).
    + specialize (IH (setn value j1 0) j2 (S j2) (s + nthn value j1)%nat ltac:(lia)).
      destruct (ic_scan f bounds (setn value j1 0) j2 (S j2) (s + nthn value j1)) as [[[v' j1'] j2'] s'].
      destruct IH as (H1 & H2 & H3). split; [exact H1 | split; [lia|]].
      intros i Hi. rewrite H3 by exact Hi. apply nthn_setn_other. lia.
    + specialize (IH value j1 (S j2) s ltac:(lia)).
      destruct (ic_scan f bounds value j1 (S j2) s) as [[[v' j1'] j2'] s'].
      destruct IH as (H1 & H2 & H3). split; [exact H1 | split; [lia | exact H3]].
Qed.

Lemma ic_next_step : forall k n bounds, length bounds = S (S k) -> nthn bounds k = 2%nat -> nthn bounds (S k) = 1%nat ->
  forall value v', ic_inv k n bounds value -> ic_next k bounds value = Some v' ->
  exists J, (J < k)%nat /\ nthn v' J = S (nthn value J) /\ forall i, (J < i)%nat -> nthn v' i = nthn value i.
Proof.
  intros k n bounds Hbl Hbk Hbk1 value v' HI H.
  pose proof HI as (HL & Hb & Hs & Hvk & Hvk1). unfold ic_next in H.
  pose proof (ic_skip0_spec k bounds Hbl Hbk Hbk1 value (S k) 0 ltac:(intros i Hi; lia) ltac:(lia) ltac:(lia)) as Hsk. cbv zeta in Hsk.
  remember (ic_skip0 (S k) value k 0) as j1 eqn:Ej1. destruct Hsk as (Hj1 & Hz1 & Hnz1).
  assert (HSI : scan_inv k n bounds value j1 (S j1) 0).
  { repeat split; try assumption; try lia.
    - intros i Hi Hne. apply Hz1. lia.
    - destruct Hnz1 as [Hn | ->]; [exact Hn | lia].
    - rewrite psum_S. destruct (Nat.eq_dec j1 k) as [->|]; [lia|]. pose proof (Hb j1 ltac:(lia)). lia. }
  pose proof (ic_scan_spec k n bounds Hbl Hbk Hbk1 (length value) value j1 (S j1) 0 HSI ltac:(lia)) as Hscan.
  pose proof (ic_scan_frame bounds (length value) value j1 (S j1) 0 ltac:(lia)) as Hframe.
  destruct (ic_scan (length value) bounds value j1 (S j1) 0) as [[[v1 j1'] j2'] s'].
  destruct Hscan as ((HL1 & H12 & H2k & Hz & Hb1 & Hs1 & Hv1k & Hv1k1 & Hnz & Hle) & NE).
  destruct Hframe as (_ & _ & Hfr).
  destruct (Nat.leb_spec k j2') as [|Hj2]; [discriminate|]. inversion H as [Ev']; clear H.
  set (x := nthn v1 j1') in *.
  set (v2 := setn v1 j1' 0) in *.
  assert (Hv2 : forall i, nthn v2 i = if (i =? j1')%nat then 0%nat else nthn v1 i) by (intros i; apply nthn_setn; lia).
  assert (HL2 : length v2 = S (S k)) by (unfold v2; rewrite length_setn; exact HL1).
  set (v3 := setn v2 j2' (S (nthn v2 j2'))) in *.
  assert (Hv3 : forall i, nthn v3 i = if (i =? j2')%nat then S (nthn v2 j2') else nthn v2 i) by (intros i; apply nthn_setn; lia).
  assert (HL3 : length v3 = S (S k)) by (unfold v3; rewrite length_setn; exact HL2).
  assert (Hv2j2 : nthn v2 j2' = nthn v1 j2') by (rewrite Hv2; destruct (Nat.eqb_spec j2' j1'); [lia | reflexivity]).
  destruct (ic_fill_spec bounds (length bounds) v3 0 (s' + x - 1)%nat j2') as (F1 & F2 & F3 & F4 & st & S1 & S2 & S3 & S4).
  - lia.
  - intros j _ Hj. rewrite Hv3. destruct (Nat.eqb_spec j j2'); [lia|]. rewrite Hv2.
    destruct (Nat.eqb_spec j j1'); [reflexivity | apply Hz; lia].
  - rewrite psum_0. pose proof (psum_mono bounds (S j1') j2' ltac:(lia)). fold x in Hle. fold x in Hnz. lia.
  - lia.
  - exists j2'. split; [exact Hj2|]. split.
    + rewrite S3 by lia. rewrite Hv3, Nat.eqb_refl, Hv2j2, Hfr by lia. reflexivity.
    + intros i Hi. rewrite S3 by lia. rewrite Hv3. destruct (Nat.eqb_spec i j2'); [lia|]. rewrite Hv2.
      destruct (Nat.eqb_spec i j1'); [lia|]. apply Hfr. lia.
Qed.

Definition colex_lt (k : nat) (c c' : list nat) : Prop :=
  exists J, (J < k)%nat /\ (nthn c J < nthn c' J)%nat /\ forall i, (J < i < k)%nat -> nthn c i = nthn c' i.

Lemma colex_lt_trans : forall k a b c, colex_lt k a b -> colex_lt k b c -> colex_lt k a c.
Proof.
  intros k a b c (J1 & H1 & L1 & E1) (J2 & H2 & L2 & E2).
  destruct (Nat.lt_trichotomy J1 J2) as [Hlt | [-> | Hgt]].
  - exists J2. split; [exact H2|]. split; [rewrite (E1 J2) by lia; exact L2|].
    intros i Hi. rewrite E1 by lia. apply E2. lia.
  - exists J2. split; [exact H2|]. split; [lia|]. intros i Hi. rewrite E1 by lia. apply E2. lia.
  - exists J1. split; [exact H1|]. split; [rewrite <- (E2 J1) by lia; exact L1|].
    intros i Hi. rewrite E1 by lia. apply E2. lia.
Qed.

Lemma colex_lt_irrefl : forall k a, colex_lt k a a -> False.
Proof. intros k a (J & _ & L & _). lia. Qed.

Lemma nthn_firstn : forall l k i, (i < k)%nat -> nthn (firstn k l) i = nthn l i.
Proof. intros l k i H. unfold nthn. apply nth_firstn'. exact H. Qed.

Lemma ic_iter_NoDup : forall k n bounds, length bounds = S (S k) -> nthn bounds k = 2%nat -> nthn bounds (S k) = 1%nat ->
  forall fuel value, ic_inv k n bounds value ->
  (forall c, In c (ic_iter fuel k bounds value) -> c = firstn k value \/ colex_lt k (firstn k value) c) /\
  NoDup (ic_iter fuel k bounds value).
Proof.
  intros k n bounds Hbl Hbk Hbk1; induction fuel as [|f IH]; intros value HI; cbn [ic_iter].
  - split; [intros c [] | constructor].
  - destruct (ic_next k bounds value) as [v'|] eqn:E.
    + pose proof (ic_next_inv k n bounds Hbl Hbk Hbk1 value v' HI E) as HI'.
      destruct (IH v' HI') as [Hall Hnd].
      destruct (ic_next_step k n bounds Hbl Hbk Hbk1 value v' HI E) as (J & HJ & HJ1 & HJ2).
      assert (Hlt : colex_lt k (firstn k value) (firstn k v')).
      { exists J. split; [exact HJ|]. split; [rewrite !nthn_firstn by exact HJ; lia|].
        intros i Hi. rewrite !nthn_firstn by lia. symmetry. apply HJ2. lia. }
      assert (Hall' : forall c, In c (ic_iter f k bounds v') -> colex_lt k (firstn k value) c).
      { intros c Hc. destruct (Hall c Hc) as [-> | Hc']; [exact Hlt | apply (colex_lt_trans k _ _ _ Hlt Hc')]. }
      split.
      * intros c [<- | Hc]; [left; reflexivity | right; apply Hall'; exact Hc].
      * constructor; [|exact Hnd]. intros Hin. apply (colex_lt_irrefl k _ (Hall' _ Hin)).
    + split; [intros c [<- | []]; left; reflexivity | constructor; [intros [] | constructor]].
Qed.

Lemma ic_init_inv : forall n k bnds, length bnds = k -> (n <= list_sum bnds)%nat ->
  ic_init n k bnds = (fst (ic_init n k bnds), bnds ++ [2; 1]%nat) /\
  ic_inv k n (bnds ++ [2; 1]%nat) (fst (ic_init n k bnds)).
Proof.
  intros n k bnds Hk Hn. unfold ic_init.
  destruct (Nat.ltb_spec (list_sum bnds) n) as [|_]; [lia|]. cbn [fst]. split; [reflexivity|].
  set (bounds := bnds ++ [2; 1]%nat) in *.
  assert (Hbl : length bounds = S (S k)) by (unfold bounds; rewrite app_length; cbn [length]; lia).
  assert (Hbk : nthn bounds k = 2%nat).
  { unfold bounds, nthn. rewrite app_nth2 by lia. rewrite Hk, Nat.sub_diag. reflexivity. }
  assert (Hbk1 : nthn bounds (S k) = 1%nat).
  { unfold bounds, nthn. rewrite app_nth2 by lia. rewrite Hk. replace (S k - k)%nat with 1%nat by lia. reflexivity. }
  assert (Hpk : psum bounds k = list_sum bnds) by (unfold bounds; rewrite <- Hk; apply psum_app_length).
  set (value0 := repeat 0%nat (k + 2)) in *.
  destruct (ic_fill_spec bounds (length bounds) value0 0 n (S k)) as (F1 & F2 & F3 & F4 & st & S1 & S2 & S3 & S4).
  - unfold value0. rewrite repeat_length. lia.
  - intros j _ _. apply nthn_repeat0.
  - rewrite psum_0, psum_S, Hpk, Hbk. lia.
  - lia.
  - set (v1 := ic_fill (length bounds) bounds value0 0 n) in *.
    assert (HL1 : length v1 = S (S k)) by (rewrite F1; unfold value0; rewrite repeat_length; lia).
    assert (Hv1k : nthn v1 k = 0%nat).
    { destruct (Nat.eq_dec st k) as [->|].
      - rewrite psum_0, Hpk in S4. lia.
      - rewrite S3 by lia. apply nthn_repeat0. }
    assert (Hs1 : forall i, nthn (setn v1 k 1) i = if (i =? k)%nat then 1%nat else nthn v1 i) by (intros i; apply nthn_setn; lia).
    assert (Hs2 : forall i, nthn (setn (setn v1 k 1) (S k) 0) i = if (i =? S k)%nat then 0%nat else nthn (setn v1 k 1) i)
      by (intros i; apply nthn_setn; rewrite length_setn; lia).
    split; [rewrite !length_setn; exact HL1|]. split; [|split; [|split]].
    + intros i Hi. rewrite Hs2, Hs1. destruct (Nat.eqb_spec i (S k)); [lia|]. destruct (Nat.eqb_spec i k); [lia|].
      apply F3; lia.
    + rewrite !psum_setn_ge by lia. pose proof (F4 (S k) (le_n _)) as P. rewrite psum_S, Hv1k in P.
      unfold value0 in P. rewrite psum_repeat0 in P. lia.
    + rewrite Hs2, Hs1. destruct (Nat.eqb_spec k (S k)); [lia|]. rewrite Nat.eqb_refl. reflexivity.
    + rewrite Hs2, Nat.eqb_refl. reflexivity.
Qed.

Theorem NoDup_int_combinations : forall n k bnds, length bnds = k -> (n <= list_sum bnds)%nat ->
  NoDup (int_combinations n k bnds).
Proof.
  intros n k bnds Hk Hn. destruct (ic_init_inv n k bnds Hk Hn) as [E HI].
  unfold int_combinations. rewrite E.
  assert (Hbl : length (bnds ++ [2; 1]%nat) = S (S k)) by (rewrite app_length; cbn [length]; lia).
  assert (Hbk : nthn (bnds ++ [2; 1]%nat) k = 2%nat).
  { unfold nthn. rewrite app_nth2 by lia. rewrite Hk, Nat.sub_diag. reflexivity. }
  assert (Hbk1 : nthn (bnds ++ [2; 1]%nat) (S k) = 1%nat).
  { unfold nthn. rewrite app_nth2 by lia. rewrite Hk. replace (S k - k)%nat with 1%nat by lia. reflexivity. }
  apply (ic_iter_NoDup k n _ Hbl Hbk Hbk1 _ _ HI).
Qed.
Print Assumptions NoDup_int_combinations.

(* ================================================================== cofaces: pairwise different vertex sets *)
Lemma sort_nat_idem : forall p, sort_nat (sort_nat p) = sort_nat p.
Proof. intros p. apply sort_nat_perm_eq, sort_nat_perm. Qed.

Lemma sorted_parts_coface_value : forall v ps t c os, sorted_parts (coface_value (v, ps) t c os).
Proof.
  intros v ps t c os. unfold sorted_parts, coface_value. cbv zeta. cbn [snd].
  apply Forall_forall. intros p Hp. apply in_map_iff in Hp. destruct Hp as (q & <- & _). apply sort_nat_idem.
Qed.

Lemma nodup_vsets_of_NoDup : forall L, (forall x, In x L -> canonical x /\ sorted_parts x) -> NoDup L ->
  nodup_vsets L = true.
Proof.
  induction L as [|x L IH]; intros H Hnd; [reflexivity|].
  inversion Hnd as [|x' L' Hx Hnd']; subst. cbn [nodup_vsets].
  rewrite IH; [|intros y Hy; apply H; right; exact Hy | exact Hnd']. rewrite andb_true_r. apply negb_true_iff.
  destruct (existsb (same_vset x) L) eqn:E; [|reflexivity]. exfalso.
  apply existsb_exists in E. destruct E as (y & Hy & Hs).
  destruct (H x (or_introl eq_refl)) as [Cx Sx]. destruct (H y (or_intror Hy)) as [Cy Sy].
  rewrite (same_vset_eq x y Cx Cy Sx Sy Hs) in Hx. contradiction.
Qed.

Lemma bnds_sum_ok : forall v ps l, canonical (v, ps) -> (l <= length v)%nat ->
  length (map (fun p : part => pred (length p)) ps) = S (pred (length ps)) /\
  (l - pred (length ps) <= list_sum (map (fun p : part => pred (length p)) ps))%nat.
Proof.
  intros v ps l Hc Hl. split.
  - rewrite map_length. destruct Hc as (Hne & _). cbn [snd] in Hne. destruct ps; [congruence | reflexivity].
  - pose proof (canonical_valid_simplex _ Hc) as Hv. unfold valid_simplex, valid_opart in Hv. cbn [fst snd] in Hv.
    apply andb_prop in Hv. destruct Hv as [Hv Hsort].
    apply andb_prop in Hv. destruct Hv as [Hv _]. apply andb_prop in Hv. destruct Hv as [Hparts _].
    destruct (list_eq_dec Nat.eq_dec (sort_nat (concat ps)) (seq 0 (S (length v)))) as [E|]; [|discriminate].
    pose proof (sum_pred_lengths ps Hparts) as Hsum.
    pose proof (Permutation_length (sort_nat_perm (concat ps))) as Hlen. rewrite E, seq_length in Hlen.
    destruct Hc as (Hne & _). cbn [snd] in Hne. destruct ps as [|p r]; [congruence|].
    cbn [length pred] in *.
    match goal with |- (_ <= ?x)%nat => assert (Hsum' : (x + S (length r) = length (concat (p :: r)))%nat) by exact Hsum end.
    lia.
Qed.

Theorem NoDup_cofaces : forall s l, canonical s -> (dimension s <= l <= length (fst s))%nat -> NoDup (cofaces l s).
Proof.
  intros [v ps] l Hc Hl. unfold dimension in Hl. cbn [fst snd] in Hl.
  destruct (bnds_sum_ok v ps l Hc ltac:(lia)) as [Hbl Hbs].
  unfold cofaces. destruct (Nat.ltb_spec l (pred (length ps))) as [|_]; [constructor|].
  destruct (find_pos (length v) (nth (pred (length ps)) ps [])) as [t|] eqn:Et; [|constructor].
  pose proof (int_combinations_sound_holds _ _ _ Hbl Hbs) as Hic.
  assert (Hprod : forall c os, In os (product (map (fun h => osp (length (nth h ps [])) (S (nthn c h))) (seq 0 (S (pred (length ps)))))) ->
            length os = S (pred (length ps)) /\
            forall h, (h <= pred (length ps))%nat -> In (nth h os []) (osp (length (nth h ps [])) (S (nthn c h)))).
  { intros c os Hos. apply in_product in Hos. apply (Forall2_map_seq _ _ []) in Hos. destruct Hos as [H1 H2].
    split; [exact H1|]. intros h Hh. apply (H2 h). lia. }
  apply NoDup_flat_map'.
  - apply NoDup_int_combinations; assumption.
  - intros c Hcin. destruct (Hic c Hcin) as [Hlc _]. apply NoDup_map_inj_in.
    + apply NoDup_product. intros ll Hll. apply in_map_iff in Hll. destruct Hll as (h & <- & _). apply NoDup_osp.
    + intros os os2 Ho Ho2 E. destruct (Hprod c os Ho) as [L1 O1]. destruct (Hprod c os2 Ho2) as [L2 O2].
      apply (coface_value_inj v ps t c os c os2 Hc Et Hlc Hlc L1 L2 O1 O2 E).
  - intros c c2 Hcin Hcin2 Hne z Hz Hz2. apply in_map_iff in Hz. apply in_map_iff in Hz2.
    destruct Hz as (os & <- & Ho). destruct Hz2 as (os2 & E & Ho2).
    destruct (Hic c Hcin) as [Hlc _]. destruct (Hic c2 Hcin2) as [Hlc2 _].
    destruct (Hprod c os Ho) as [L1 O1]. destruct (Hprod c2 os2 Ho2) as [L2 O2].
    destruct (coface_value_inj v ps t c os c2 os2 Hc Et Hlc Hlc2 L1 L2 O1 O2 (eq_sym E)) as [Ec _]. contradiction.
Qed.
Print Assumptions NoDup_cofaces.

Theorem nodup_vsets_cofaces : forall s l, canonical s -> (dimension s <= l <= length (fst s))%nat ->
  nodup_vsets (cofaces l s) = true.
Proof.
  intros s l Hc Hl. apply nodup_vsets_of_NoDup; [|apply NoDup_cofaces; assumption].
  intros c' Hin. split.
  - destruct (cofaces_sound s l c' Hc Hl Hin) as (H1 & _). apply valid_simplex_canonical. exact H1.
  - destruct s as [v ps]. unfold cofaces in Hin. destruct (l <? pred (length ps))%nat; [destruct Hin|].
    destruct (find_pos (length v) (nth (pred (length ps)) ps [])) as [t|]; [|destruct Hin].
    apply in_flat_map in Hin. destruct Hin as (c & _ & Hin). apply in_map_iff in Hin.
    destruct Hin as (os & <- & _). apply sorted_parts_coface_value.
Qed.

(* ---- cofaces_ok in every dimension *)
Theorem cofaces_ok_every_dim : forall s l, canonical s -> sorted_parts s ->
  (dimension s <= l <= length (fst s))%nat -> cofaces_ok l s = true.
Proof.
  intros s l Hc Hs Hl. unfold cofaces_ok. cbv zeta.
  rewrite (cofaces_members_ok s l Hc Hs Hl), (nodup_vsets_cofaces s l Hc Hl). reflexivity.
Qed.
Print Assumptions cofaces_ok_every_dim.

(* ================================================================== Integer_combination_iterator is complete *)
Lemma psum_agree : forall x y a m, (a <= m)%nat -> (forall i, (a <= i < m)%nat -> nthn x i = nthn y i) ->
  (psum x m + psum y a = psum y m + psum x a)%nat.
Proof.
  intros x y a m H. induction H as [|m H IH]; intros E; [lia|].
  rewrite !psum_S, (E m) by lia. specialize (IH ltac:(intros i Hi; apply E; lia)). lia.
Qed.

Lemma psum_zero : forall x m, (forall i, (i < m)%nat -> nthn x i = 0%nat) -> psum x m = 0%nat.
Proof.
  intros x; induction m as [|m IH]; intros H; [reflexivity|].
  rewrite psum_S, IH, (H m) by (try lia; intros i Hi; apply H; lia). reflexivity.
Qed.

Lemma psum_le : forall x y m, (forall i, (i < m)%nat -> (nthn x i <= nthn y i)%nat) -> (psum x m <= psum y m)%nat.
Proof.
  intros x y; induction m as [|m IH]; intros H; [reflexivity|].
  rewrite !psum_S. specialize (IH ltac:(intros i Hi; apply H; lia)). specialize (H m ltac:(lia)). lia.
Qed.

(* the greedy fill: every position is saturated or followed by zeros only *)
Lemma ic_fill_greedy : forall bounds fuel value i s m, (m <= length value)%nat ->
  (forall j, (i <= j)%nat -> (j < m)%nat -> nthn value j = 0%nat) ->
  (psum bounds i + s < psum bounds m)%nat -> (m - i <= fuel)%nat ->
  forall j, (i <= j)%nat -> (j < m)%nat ->
  nthn (ic_fill fuel bounds value i s) j = nthn bounds j \/
  forall j', (j < j')%nat -> (j' < m)%nat -> nthn (ic_fill fuel bounds value i s) j' = 0%nat.
Proof.
  intros bounds; induction fuel as [|f IH]; intros value i s m Hm Hz Hlt Hf;
    assert (Him : (i < m)%nat) by (destruct (Nat.lt_ge_cases i m) as [|Hge]; [assumption|];
                                   pose proof (psum_mono bounds m i Hge); lia); [lia|].
  intros j Hj1 Hj2. cbn [ic_fill]. destruct (Nat.leb_spec (nthn bounds i) s) as [Hle|Hgt].
  - assert (Hsetn : forall j, nthn (setn value i (nthn bounds i)) j = if (j =? i)%nat then nthn bounds i else nthn value j)
      by (intros j0; apply nthn_setn; lia).
    assert (Hpre : (psum bounds (S i) + (s - nthn bounds i) < psum bounds m)%nat) by (rewrite psum_S; lia).
    assert (Hz' : forall j0, (S i <= j0)%nat -> (j0 < m)%nat -> nthn (setn value i (nthn bounds i)) j0 = 0%nat).
    { intros j0 H1 H2. rewrite Hsetn. destruct (Nat.eqb_spec j0 i); [lia | apply Hz; lia]. }
    destruct (Nat.eq_dec j i) as [->|Hne].
    + left.
      destruct (ic_fill_spec bounds f (setn value i (nthn bounds i)) (S i) (s - nthn bounds i)%nat m) as (_ & H2 & _);
        [rewrite length_setn; exact Hm | exact Hz' | exact Hpre | lia|].
      rewrite H2 by lia. rewrite Hsetn, Nat.eqb_refl. reflexivity.
    + apply (IH (setn value i (nthn bounds i)) (S i) (s - nthn bounds i)%nat m);
        [rewrite length_setn; exact Hm | exact Hz' | exact Hpre | lia | lia | exact Hj2].
  - right. intros j' H1 H2. rewrite nthn_setn by lia. destruct (Nat.eqb_spec j' i); [lia | apply Hz; lia].
Qed.

(* a greedy vector is colexicographically minimal among the bounded vectors with the same sum *)
Lemma greedy_min : forall bounds g y m,
  (forall j, (j < m)%nat -> nthn g j = nthn bounds j \/ forall j', (j < j')%nat -> (j' < m)%nat -> nthn g j' = 0%nat) ->
  (forall j, (j < m)%nat -> (nthn y j <= nthn bounds j)%nat) ->
  psum y m = psum g m ->
  (forall j, (j < m)%nat -> nthn g j = nthn y j) \/
  exists J, (J < m)%nat /\ (nthn g J < nthn y J)%nat /\ forall j, (J < j < m)%nat -> nthn g j = nthn y j.
Proof.
  intros bounds g y; induction m as [|m IH]; intros Hg Hy Hs; [left; intros j Hj; lia|].
  destruct (Nat.lt_trichotomy (nthn g m) (nthn y m)) as [Hlt | [Heq | Hgt]].
  - right. exists m. split; [lia|]. split; [exact Hlt | intros j Hj; lia].
  - rewrite !psum_S, Heq in Hs.
    destruct IH as [Hall | (J & HJ & HJ1 & HJ2)].
    + intros j Hj. destruct (Hg j ltac:(lia)) as [H | H]; [left; exact H | right; intros j' H1 H2; apply H; lia].
    + intros j Hj. apply Hy. lia.
    + lia.
    + left. intros j Hj. destruct (Nat.eq_dec j m) as [->|]; [exact Heq | apply Hall; lia].
    + right. exists J. split; [lia|]. split; [exact HJ1|]. intros j Hj.
      destruct (Nat.eq_dec j m) as [->|]; [exact Heq | apply HJ2; lia].
  - exfalso. rewrite !psum_S in Hs.
    assert (Hsat : forall j, (j < m)%nat -> nthn g j = nthn bounds j).
    { intros j Hj. destruct (Hg j ltac:(lia)) as [H | H]; [exact H|]. specialize (H m Hj ltac:(lia)). lia. }
    assert (psum y m <= psum g m)%nat.
    { apply psum_le. intros j Hj. rewrite Hsat by exact Hj. apply Hy. lia. }
    lia.
Qed.

Lemma ic_scan_sat : forall bounds fuel value j1 j2 s, (j1 < j2)%nat ->
  match ic_scan fuel bounds value j1 j2 s with
  | (v', j1', j2', s') => forall i, (j2 <= i < j2')%nat -> nthn value i = nthn bounds i
  end.
Proof.
  intros bounds; induction fuel as [|f IH]; intros value j1 j2 s H; cbn [ic_scan]; [intros i Hi; lia|].
  destruct (Nat.eqb_spec (nthn value j2) (nthn bounds j2)) as [E|NE]; [|intros i Hi; lia].
  destruct (negb (nthn bounds j2 =? 0)%nat).
  - specialize (IH (setn value j1 0) j2 (S j2) (s + nthn value j1)%nat ltac:(lia)).
    destruct (ic_scan f bounds (setn value j1 0) j2 (S j2) (s + nthn value j1)) as [[[v' j1'] j2'] s'].
    intros i Hi. destruct (Nat.eq_dec i j2) as [->|]; [exact E|].
    rewrite <- IH by lia. symmetry. apply nthn_setn_other. lia.
  - specialize (IH value j1 (S j2) s ltac:(lia)).
    destruct (ic_scan f bounds value j1 (S j2) s) as [[[v' j1'] j2'] s'].
    intros i Hi. destruct (Nat.eq_dec i j2) as [->|]; [exact E | apply IH; lia].
Qed.

Definition ic_valid (k n : nat) (bounds c : list nat) : Prop :=
  length c = k /\ (forall i, (i < k)%nat -> (nthn c i <= nthn bounds i)%nat) /\ psum c k = n.

Lemma ic_next_complete : forall k n bounds, length bounds = S (S k) -> nthn bounds k = 2%nat -> nthn bounds (S k) = 1%nat ->
  forall value c', ic_inv k n bounds value -> ic_valid k n bounds c' -> colex_lt k (firstn k value) c' ->
  exists v', ic_next k bounds value = Some v' /\ (firstn k v' = c' \/ colex_lt k (firstn k v') c').
Proof.
  intros k n bounds Hbl Hbk Hbk1 value c' HI (HcL & Hcb & Hcs) (J & HJ & HJlt & HJeq).
  rewrite nthn_firstn in HJlt by exact HJ.
  assert (HJeq' : forall i, (J < i < k)%nat -> nthn value i = nthn c' i)
    by (intros i Hi; rewrite <- HJeq by exact Hi; rewrite nthn_firstn by lia; reflexivity).
  clear HJeq.
  pose proof HI as (HL & Hb & Hs & Hvk & Hvk1). unfold ic_next.
  pose proof (ic_skip0_spec k bounds Hbl Hbk Hbk1 value (S k) 0 ltac:(intros i Hi; lia) ltac:(lia) ltac:(lia)) as Hsk.
  cbv zeta in Hsk.
  remember (ic_skip0 (S k) value k 0) as j1 eqn:Ej1. destruct Hsk as (Hj1 & Hz1 & Hnz1).
  assert (HSI : scan_inv k n bounds value j1 (S j1) 0).
  { repeat split; try assumption; try lia.
    - intros i Hi Hne. apply Hz1. lia.
    - destruct Hnz1 as [Hn | ->]; [exact Hn | lia].
    - rewrite psum_S. destruct (Nat.eq_dec j1 k) as [->|]; [lia|]. pose proof (Hb j1 ltac:(lia)). lia. }
  pose proof (ic_scan_spec k n bounds Hbl Hbk Hbk1 (length value) value j1 (S j1) 0 HSI ltac:(lia)) as Hscan.
  pose proof (ic_scan_frame bounds (length value) value j1 (S j1) 0 ltac:(lia)) as Hframe.
  pose proof (ic_scan_sat bounds (length value) value j1 (S j1) 0 ltac:(lia)) as Hsat.
  destruct (ic_scan (length value) bounds value j1 (S j1) 0) as [[[v1 j1'] j2'] s'] eqn:Escan.
  destruct Hscan as ((HL1 & H12 & H2k & Hz & Hb1 & Hs1 & Hv1k & Hv1k1 & Hnz & Hle) & NE).
  destruct Hframe as (_ & Hj12 & Hfr).
  (* the position that is incremented is at most J *)
  assert (HA : (j2' <= J)%nat).
  { destruct (Nat.le_gt_cases j2' J) as [|Hgt]; [assumption|]. exfalso.
    destruct (Nat.le_gt_cases (S j1) J) as [Hge|Hlt].
    - pose proof (Hsat J ltac:(lia)). pose proof (Hcb J HJ). lia.
    - assert (P0 : psum value J = 0%nat) by (apply psum_zero; intros i Hi; apply Hz1; lia).
      pose proof (psum_agree value c' (S J) k ltac:(lia) ltac:(intros i Hi; apply HJeq'; lia)) as PA.
      rewrite !psum_S in PA. lia. }
  destruct (Nat.leb_spec k j2') as [|Hj2]; [lia|].
  eexists. split; [reflexivity|].
  set (x := nthn v1 j1') in *.
  set (v2 := setn v1 j1' 0) in *.
  assert (Hv2 : forall i, nthn v2 i = if (i =? j1')%nat then 0%nat else nthn v1 i) by (intros i; apply nthn_setn; lia).
  assert (HL2 : length v2 = S (S k)) by (unfold v2; rewrite length_setn; exact HL1).
  set (v3 := setn v2 j2' (S (nthn v2 j2'))) in *.
  assert (Hv3 : forall i, nthn v3 i = if (i =? j2')%nat then S (nthn v2 j2') else nthn v2 i) by (intros i; apply nthn_setn; lia).
  assert (HL3 : length v3 = S (S k)) by (unfold v3; rewrite length_setn; exact HL2).
  assert (Hv2j2 : nthn v2 j2' = nthn v1 j2') by (rewrite Hv2; destruct (Nat.eqb_spec j2' j1'); [lia | reflexivity]).
  assert (Hz3 : forall j, (0 <= j)%nat -> (j < j2')%nat -> nthn v3 j = 0%nat).
  { intros j _ Hj. rewrite Hv3. destruct (Nat.eqb_spec j j2'); [lia|]. rewrite Hv2.
    destruct (Nat.eqb_spec j j1'); [reflexivity | apply Hz; lia]. }
  assert (Hpre : (psum bounds 0 + (s' + x - 1) < psum bounds j2')%nat).
  { rewrite psum_0. pose proof (psum_mono bounds (S j1') j2' ltac:(lia)). fold x in Hle. fold x in Hnz. lia. }
  destruct (ic_fill_spec bounds (length bounds) v3 0 (s' + x - 1)%nat j2' ltac:(lia) Hz3 Hpre ltac:(lia))
    as (F1 & F2 & F3 & F4 & st & S1 & S2 & S3 & S4).
  pose proof (ic_fill_greedy bounds (length bounds) v3 0 (s' + x - 1)%nat j2' ltac:(lia) Hz3 Hpre ltac:(lia)) as Hgr.
  set (v' := ic_fill (length bounds) bounds v3 0 (s' + x - 1)) in *.
  assert (Enext : ic_next k bounds value = Some v')
    by (unfold ic_next; rewrite <- Ej1, Escan; destruct (Nat.leb_spec k j2'); [lia | reflexivity]).
  pose proof (ic_next_inv k n bounds Hbl Hbk Hbk1 value v' HI Enext) as HI'.
  assert (Hv'j2 : nthn v' j2' = S (nthn value j2')).
  { rewrite S3 by lia. rewrite Hv3, Nat.eqb_refl, Hv2j2, Hfr by lia. reflexivity. }
  assert (Hv'hi : forall i, (j2' < i)%nat -> nthn v' i = nthn value i).
  { intros i Hi. rewrite S3 by lia. rewrite Hv3. destruct (Nat.eqb_spec i j2'); [lia|]. rewrite Hv2.
    destruct (Nat.eqb_spec i j1'); [lia|]. apply Hfr. lia. }
  destruct (Nat.eq_dec j2' J) as [EJ | NJ].
  - subst j2'. destruct (Nat.eq_dec (nthn v' J) (nthn c' J)) as [Eq | Nq].
    + (* equal at J: compare the greedy prefix *)
      assert (Hagree : forall i, (J <= i < k)%nat -> nthn v' i = nthn c' i).
      { intros i Hi. destruct (Nat.eq_dec i J) as [->|]; [exact Eq|]. rewrite Hv'hi by lia. apply HJeq'. lia. }
      assert (Hps : psum c' J = psum v' J).
      { pose proof (psum_agree v' c' J k ltac:(lia) Hagree) as PA. destruct HI' as (_ & _ & Hs' & _). lia. }
      destruct (greedy_min bounds v' c' J) as [Hall | (J' & HJ' & HJ'1 & HJ'2)].
      * intros j Hj. apply Hgr; lia.
      * intros j Hj. apply Hcb. lia.
      * exact Hps.
      * left. apply (nth_ext _ _ O O).
        -- rewrite firstn_length_le by (destruct HI' as (HL' & _); lia). lia.
        -- intros i Hi. rewrite firstn_length_le in Hi by (destruct HI' as (HL' & _); lia).
           change (nthn (firstn k v') i = nthn c' i). rewrite nthn_firstn by exact Hi.
           destruct (Nat.lt_ge_cases i J); [apply Hall; assumption | apply Hagree; lia].
      * right. exists J'. split; [lia|]. split; [rewrite nthn_firstn by lia; exact HJ'1|].
        intros i Hi. rewrite nthn_firstn by lia.
        destruct (Nat.lt_ge_cases i J); [apply HJ'2; lia | apply Hagree; lia].
    + right. exists J. split; [exact HJ|]. split; [rewrite nthn_firstn by exact HJ; lia|].
      intros i Hi. rewrite nthn_firstn by lia. rewrite Hv'hi by lia. apply HJeq'. exact Hi.
  - right. exists J. split; [exact HJ|]. split; [rewrite nthn_firstn by exact HJ; rewrite Hv'hi by lia; exact HJlt|].
    intros i Hi. rewrite nthn_firstn by lia. rewrite Hv'hi by lia. apply HJeq'. exact Hi.
Qed.

(* mixed-radix rank: colexicographic order is the numeric order of the ranks *)
Fixpoint rank (c bnds : list nat) : nat :=
  match c, bnds with
  | x :: r, b :: br => (x + S b * rank r br)%nat
  | _, _ => O
  end.

Lemma rank_lt_prod : forall bnds c, length c = length bnds ->
  (forall i, (i < length bnds)%nat -> (nthn c i <= nthn bnds i)%nat) ->
  (rank c bnds < fold_right Nat.mul 1%nat (map S bnds))%nat.
Proof.
  induction bnds as [|b br IH]; intros c HL Hb; destruct c as [|x r]; try discriminate; cbn [rank map fold_right]; [lia|].
  specialize (IH r ltac:(cbn [length] in HL; lia) ltac:(intros i Hi; apply (Hb (S i)); cbn [length]; lia)).
  pose proof (Hb O ltac:(cbn [length]; lia)) as H0. unfold nthn in H0. cbn [nth] in H0. nia.
Qed.

Lemma colex_rank : forall bnds c c', length c = length bnds -> length c' = length bnds ->
  (forall i, (i < length bnds)%nat -> (nthn c i <= nthn bnds i)%nat) ->
  colex_lt (length bnds) c c' -> (rank c bnds < rank c' bnds)%nat.
Proof.
  induction bnds as [|b br IH]; intros c c' HL HL' Hb (J & HJ & HJ1 & HJ2); cbn [length] in HJ; [lia|].
  destruct c as [|x r]; [discriminate|]. destruct c' as [|y r']; [discriminate|]. cbn [rank].
  cbn [length] in HL, HL'.
  pose proof (Hb O ltac:(cbn [length]; lia)) as H0. unfold nthn in H0. cbn [nth] in H0.
  destruct J as [|J].
  - unfold nthn in HJ1. cbn [nth] in HJ1.
    assert (Er : r = r').
    { apply (nth_ext _ _ O O); [lia|]. intros i Hi. apply (HJ2 (S i)). cbn [length]. lia. }
    subst r'. lia.
  - assert (Hlt : (rank r br < rank r' br)%nat).
    { apply IH; [lia | lia | intros i Hi; apply (Hb (S i)); cbn [length]; lia|].
      exists J. split; [lia|]. split; [exact HJ1|]. intros i Hi. apply (HJ2 (S i)). cbn [length]. lia. }
    nia.
Qed.

Lemma ic_iter_complete : forall k n bnds, length bnds = k ->
  forall fuel value c', ic_inv k n (bnds ++ [2; 1]%nat) value -> ic_valid k n (bnds ++ [2; 1]%nat) c' ->
  firstn k value = c' \/ colex_lt k (firstn k value) c' ->
  (rank c' bnds < rank (firstn k value) bnds + fuel)%nat ->
  In c' (ic_iter fuel k (bnds ++ [2; 1]%nat) value).
Proof.
  intros k n bnds Hk.
  assert (Hbl : length (bnds ++ [2; 1]%nat) = S (S k)) by (rewrite app_length; cbn [length]; lia).
  assert (Hbk : nthn (bnds ++ [2; 1]%nat) k = 2%nat).
  { unfold nthn. rewrite app_nth2 by lia. rewrite Hk, Nat.sub_diag. reflexivity. }
  assert (Hbk1 : nthn (bnds ++ [2; 1]%nat) (S k) = 1%nat).
  { unfold nthn. rewrite app_nth2 by lia. rewrite Hk. replace (S k - k)%nat with 1%nat by lia. reflexivity. }
  assert (Hbn : forall i, (i < k)%nat -> nthn (bnds ++ [2; 1]%nat) i = nthn bnds i).
  { intros i Hi. unfold nthn. apply app_nth1. lia. }
  assert (Hrk : forall value c', ic_inv k n (bnds ++ [2; 1]%nat) value -> length c' = k ->
            colex_lt k (firstn k value) c' -> (rank (firstn k value) bnds < rank c' bnds)%nat).
  { intros value c' (HL & Hb & _) Hc' Hlt. apply colex_rank.
    - rewrite firstn_length_le by lia. lia.
    - lia.
    - intros i Hi. rewrite nthn_firstn by lia. rewrite <- Hbn by lia. apply Hb. lia.
    - rewrite Hk. exact Hlt. }
  induction fuel as [|f IH]; intros value c' HI HV Hor Hr.
  - exfalso. destruct Hor as [<- | Hlt]; [lia|]. pose proof (Hrk value c' HI (proj1 HV) Hlt). lia.
  - cbn [ic_iter]. destruct Hor as [<- | Hlt]; [left; reflexivity|]. right.
    destruct (ic_next_complete k n _ Hbl Hbk Hbk1 value c' HI HV Hlt) as (v' & Enext & Hor').
    rewrite Enext. apply IH; [apply (ic_next_inv k n _ Hbl Hbk Hbk1 value v' HI Enext) | exact HV | exact Hor'|].
    destruct (ic_next_step k n _ Hbl Hbk Hbk1 value v' HI Enext) as (J & HJ & HJ1 & HJ2).
    pose proof (ic_next_inv k n _ Hbl Hbk Hbk1 value v' HI Enext) as HI'.
    assert (Hlt' : colex_lt k (firstn k value) (firstn k v')).
    { exists J. split; [exact HJ|]. split; [rewrite !nthn_firstn by exact HJ; lia|].
      intros i Hi. rewrite !nthn_firstn by lia. symmetry. apply HJ2. lia. }
    pose proof (Hrk value (firstn k v') HI ltac:(destruct HI' as (HL' & _); rewrite firstn_length_le; lia) Hlt'). lia.
Qed.

Theorem int_combinations_complete : forall n k bnds c, length bnds = k -> length c = k ->
  (forall i, (i < k)%nat -> (nthn c i <= nthn bnds i)%nat) -> list_sum c = n -> In c (int_combinations n k bnds).
Proof.
  intros n k bnds c Hk Hc Hb Hs.
  assert (Hbn : forall i, (i < k)%nat -> nthn (bnds ++ [2; 1]%nat) i = nthn bnds i).
  { intros i Hi. unfold nthn. apply app_nth1. lia. }
  assert (Hps : psum c k = n) by (unfold psum; rewrite <- Hc, firstn_all; exact Hs).
  assert (Hn : (n <= list_sum bnds)%nat).
  { rewrite <- Hps. replace (list_sum bnds) with (psum bnds k) by (unfold psum; rewrite <- Hk, firstn_all; reflexivity).
    apply psum_le. exact Hb. }
  destruct (ic_init_inv n k bnds Hk Hn) as [E HI]. unfold int_combinations. rewrite E.
  assert (HV : ic_valid k n (bnds ++ [2; 1]%nat) c).
  { split; [exact Hc|]. split; [|exact Hps]. intros i Hi. rewrite Hbn by exact Hi. apply Hb. exact Hi. }
  apply (ic_iter_complete k n bnds Hk _ _ c HI HV).
  - (* the initial value is the greedy one: colexicographically minimal *)
    set (value0 := fst (ic_init n k bnds)) in *.
    assert (Hgr : forall j, (j < k)%nat -> nthn value0 j = nthn (bnds ++ [2; 1]%nat) j \/
                                           forall j', (j < j')%nat -> (j' < k)%nat -> nthn value0 j' = 0%nat).
    { unfold value0, ic_init. destruct (Nat.ltb_spec (list_sum bnds) n) as [|_]; [lia|]. cbn [fst].
      intros j Hj.
      assert (Hbl : length (bnds ++ [2; 1]%nat) = S (S k)) by (rewrite app_length; cbn [length]; lia).
      assert (Hpre : (psum (bnds ++ [2; 1]%nat) 0 + n < psum (bnds ++ [2; 1]%nat) (S k))%nat).
      { rewrite psum_0, psum_S. replace (psum (bnds ++ [2; 1]%nat) k) with (list_sum bnds)
          by (rewrite <- Hk; symmetry; apply psum_app_length).
        unfold nthn. rewrite app_nth2 by lia. rewrite Hk, Nat.sub_diag. cbn [nth]. lia. }
      pose proof (ic_fill_greedy (bnds ++ [2; 1]%nat) (length (bnds ++ [2; 1]%nat)) (repeat 0%nat (k + 2)) 0 n (S k)
                    ltac:(rewrite repeat_length; lia) ltac:(intros; apply nthn_repeat0) Hpre ltac:(lia) j ltac:(lia) ltac:(lia)) as G.
      rewrite !nthn_setn_other by lia.
      destruct G as [G | G]; [left; exact G | right]. intros j' H1 H2. rewrite !nthn_setn_other by lia. apply G; lia. }
    destruct HI as (HL & _ & Hs0 & _).
    destruct (greedy_min (bnds ++ [2; 1]%nat) value0 c k Hgr (proj1 (proj2 HV)) ltac:(lia)) as [Hall | (J & HJ & HJ1 & HJ2)].
    + left. apply (nth_ext _ _ O O); [rewrite firstn_length_le by lia; lia|].
      intros i Hi. rewrite firstn_length_le in Hi by lia.
      change (nthn (firstn k value0) i = nthn c i). rewrite nthn_firstn by exact Hi. apply Hall. exact Hi.
    + right. exists J. split; [exact HJ|]. split; [rewrite nthn_firstn by exact HJ; exact HJ1|].
      intros i Hi. rewrite nthn_firstn by lia. apply HJ2. exact Hi.
  - pose proof (rank_lt_prod bnds c ltac:(lia) ltac:(intros i Hi; apply Hb; lia)). lia.
Qed.
Print Assumptions int_combinations_complete.

(* ================================================================== every simplex is a coface of each of its faces *)
(* the positions, in the sorted merged part F, of the elements of a block B *)
Definition pos (F B : part) : list nat := filter (fun i => memn (nthn F i) B) (seq 0 (length F)).

Lemma thru_pos : forall F B, thru F (pos F B) = filter (fun x => memn x B) F.
Proof.
  intros F B. unfold thru, pos. rewrite <- (map_nthn_seq F) at 3.
  generalize (seq 0 (length F)) as l. induction l as [|i l IH]; [reflexivity|].
  cbn [filter map]. destruct (memn (nthn F i) B); cbn [map]; rewrite IH; reflexivity.
Qed.

Lemma block_roundtrip : forall F B, NoDup F -> NoDup B -> (forall x, In x B -> In x F) -> sort_nat B = B ->
  sort_nat (thru F (pos F B)) = B.
Proof.
  intros F B HF HB Hsub Hs. rewrite <- Hs at 2. apply sort_nat_perm_eq. rewrite thru_pos.
  apply NoDup_Permutation; [apply NoDup_filter; exact HF | exact HB|].
  intros x. rewrite filter_In, memn_In. split; [intros [_ H]; exact H | intros H; split; [apply Hsub; exact H | exact H]].
Qed.

Lemma nth_map_seq {A} (f : nat -> A) : forall m h dflt, (h < m)%nat -> nth h (map f (seq 0 m)) dflt = f h.
Proof.
  intros m h dflt H. rewrite (nth_indep _ dflt (f O)) by (rewrite map_length, seq_length; exact H).
  rewrite map_nth, seq_nth by exact H. reflexivity.
Qed.

Lemma map_nth_seq_all {A} : forall (l : list A) dflt, map (fun h => nth h l dflt) (seq 0 (length l)) = l.
Proof. intros l dflt. rewrite map_nth_seq_firstn by lia. apply firstn_all. Qed.

Lemma pos_blocks_osp : forall Bs : list part, Bs <> [] -> forallb nonempty Bs = true -> NoDup (concat Bs) ->
  let F := sort_nat (concat Bs) in
  In (map (pos F) Bs) (osp (length F) (length Bs)).
Proof.
  intros Bs Hne Hnn Hnd F.
  assert (PF : Permutation F (concat Bs)) by apply sort_nat_perm.
  assert (HinF : forall i, (i < length F)%nat -> In (nthn F i) (concat Bs))
    by (intros i Hi; apply (Permutation_in _ PF), nth_In; exact Hi).
  rewrite <- (map_length (pos F) Bs). apply osp_complete.
  - rewrite forallb_map'. apply forallb_forall. intros B HB.
    rewrite forallb_forall in Hnn. specialize (Hnn B HB). destruct B as [|x B']; [discriminate|].
    assert (HxF : In x F) by (apply (Permutation_in _ (Permutation_sym PF)), in_concat; exists (x :: B'); split; [exact HB | left; reflexivity]).
    destruct (In_nth _ _ O HxF) as (i & Hi & Ei).
    assert (Hp : In i (pos F (x :: B'))).
    { unfold pos. apply filter_In. split; [apply in_seq; lia|]. apply memn_In. unfold nthn. rewrite Ei. left. reflexivity. }
    destruct (pos F (x :: B')); [destruct Hp | reflexivity].
  - rewrite <- (map_nth_seq_all Bs []) at 1. rewrite map_map.
    rewrite (map_ext_in _ (fun j => filter (fun i => (part_index Bs (nthn F i) =? j)%nat) (seq 0 (length F)))).
    + etransitivity; [apply concat_blocks_perm|]. rewrite filter_all_true; [reflexivity|].
      intros i Hi. apply in_seq in Hi. apply Nat.ltb_lt. apply part_index_lt. apply HinF. lia.
    + intros j Hj. apply in_seq in Hj. unfold pos. apply filter_ext_in. intros i Hi. apply in_seq in Hi.
      destruct (Nat.eqb_spec (part_index Bs (nthn F i)) j) as [E|NE].
      * apply memn_In. rewrite <- E. apply nth_of_part_index. apply HinF. lia.
      * destruct (memn (nthn F i) (nth j Bs [])) eqn:Em; [|reflexivity]. exfalso. apply NE.
        apply part_index_of_nth; [exact Hnd | exact (proj2 Hj) | apply memn_In; exact Em].
  - apply Forall_forall. intros b Hb. apply in_map_iff in Hb. destruct Hb as (B & <- & _). apply sort_nat_filter_seq.
Qed.

(* in a list of pairwise disjoint blocks, an element determines the position of its block *)
Lemma split_unique : forall (A A2 C C2 : list part) (b b2 : part) x,
  A ++ b :: C = A2 ++ b2 :: C2 -> NoDup (concat (A ++ b :: C)) -> In x b -> In x b2 ->
  A = A2 /\ b = b2 /\ C = C2.
Proof.
  induction A as [|y A IH]; intros A2 C C2 b b2 x E Hnd Hx Hx2.
  - destruct A2 as [|y2 A2]; cbn [app] in E.
    + inversion E. auto.
    + exfalso. inversion E as [[E1 E2]]. subst y2. rewrite E2 in Hnd. cbn [app concat] in Hnd.
      apply (NoDup_app_disjoint' _ _ x Hnd Hx). apply in_concat. exists b2. split; [apply in_or_app; right; left; reflexivity | exact Hx2].
  - destruct A2 as [|y2 A2]; cbn [app] in E.
    + exfalso. inversion E as [[E1 E2]]. subst y. cbn [app concat] in Hnd.
      apply (NoDup_app_disjoint' _ _ x Hnd Hx2). apply in_concat. exists b. split; [apply in_or_app; right; left; reflexivity | exact Hx].
    + inversion E as [[E1 E2]]. subst y2. cbn [app concat] in Hnd. apply NoDup_app_l' in Hnd.
      destruct (IH A2 C C2 b b2 x E2 Hnd Hx Hx2) as (H1 & H2 & H3). subst. auto.
Qed.

Lemma decr_at_comm : forall v i j, decr_at (decr_at v i) j = decr_at (decr_at v j) i.
Proof.
  induction v as [|x r IH]; intros [|i] [|j]; cbn [decr_at]; try reflexivity.
  f_equal. apply IH.
Qed.

Lemma fold_decr_perm : forall p q, Permutation p q -> forall v, fold_left decr_at p v = fold_left decr_at q v.
Proof.
  intros p q H. induction H as [| x l l' _ IH | x y l | l l' l'' _ IH1 _ IH2]; intros v; cbn [fold_left].
  - reflexivity.
  - apply IH.
  - rewrite decr_at_comm. reflexivity.
  - rewrite IH1. apply IH2.
Qed.

Lemma decr_incr_at : forall v i, decr_at (incr_at v i) i = v.
Proof.
  induction v as [|x r IH]; intros [|i]; cbn [decr_at incr_at]; try reflexivity.
  - f_equal. lia.
  - f_equal. apply IH.
Qed.

Lemma decr_fold_incr : forall q v i, decr_at (fold_left incr_at q v) i = fold_left incr_at q (decr_at v i).
Proof.
  induction q as [|j q IH]; intros v i; cbn [fold_left]; [reflexivity|].
  rewrite IH, <- incr_decr_comm. reflexivity.
Qed.

Lemma fold_decr_incr_cancel : forall q v, fold_left decr_at q (fold_left incr_at q v) = v.
Proof.
  induction q as [|i q IH]; intros v; cbn [fold_left]; [reflexivity|].
  rewrite decr_fold_incr, decr_incr_at. apply IH.
Qed.

Lemma find_pos_complete : forall x l, In x l -> exists t, find_pos x l = Some t.
Proof.
  intros x; induction l as [|y r IH]; intros H; [destruct H|]. cbn [find_pos].
  destruct (Nat.eqb_spec y x); [exists O; reflexivity|].
  destruct H as [H | H]; [congruence|]. destruct (IH H) as (t & ->). exists (S t). reflexivity.
Qed.

Lemma last_nth_pred {A} : forall (l : list A) dflt, last l dflt = nth (pred (length l)) l dflt.
Proof.
  induction l as [|x l IH]; intros dflt; [reflexivity|].
  destruct l as [|y l']; [reflexivity|]. rewrite last_cons'. rewrite (IH x).
  change (nth (pred (length (x :: y :: l'))) (x :: y :: l') dflt) with (nth (pred (length (y :: l'))) (y :: l') dflt).
  apply nth_indep. cbn [length]. lia.
Qed.

Lemma Forall2_map_map {A B C} (R : B -> C -> Prop) (f : A -> B) (g : A -> C) : forall l,
  (forall x, In x l -> R (f x) (g x)) -> Forall2 R (map f l) (map g l).
Proof.
  induction l as [|x l IH]; intros H; cbn [map]; constructor.
  - apply H. left. reflexivity.
  - apply IH. intros y Hy. apply H. right. exact Hy.
Qed.

Lemma In_firstn' {A} : forall (l : list A) n x, In x (firstn n l) -> In x l.
Proof. intros l n x H. rewrite <- (firstn_skipn n l). apply in_or_app. left. exact H. Qed.
Lemma In_skipn' {A} : forall (l : list A) n x, In x (skipn n l) -> In x l.
Proof. intros l n x H. rewrite <- (firstn_skipn n l). apply in_or_app. right. exact H. Qed.

Lemma pairsG_map {B C} (G : nat -> nat -> B) (f : B -> C) : forall l a,
  pairsG (fun x y => f (G x y)) a l = map f (pairsG G a l).
Proof. induction l as [|b r IH]; intros a; cbn [pairsG map]; [reflexivity | rewrite IH; reflexivity]. Qed.

Lemma concat_pairs_slices {A} (ps : list A) : forall l a n, chain a l n ->
  concat (pairsG (fun x y => slice ps x y) a l) = slice ps a (last l a).
Proof.
  induction l as [|b r IH]; intros a n H; cbn [chain] in H.
  - cbn [pairsG last concat]. rewrite slice_nil. reflexivity.
  - destruct H as [Hab Hc]. cbn [pairsG concat]. rewrite (IH b n Hc), last_cons'.
    apply slice_slice. pose proof (chain_last r b n Hc). lia.
Qed.

Lemma pairs_slices_nonempty {A} (ps : list A) : forall l a, chain a l (length ps) ->
  forall g, In g (pairsG (fun x y => slice ps x y) a l) -> g <> [] /\ forall p, In p g -> In p ps.
Proof.
  induction l as [|b r IH]; intros a H g Hg; cbn [chain] in H; [destruct Hg|].
  destruct H as [Hab Hc]. cbn [pairsG] in Hg. destruct Hg as [<- | Hg]; [|apply (IH b Hc g Hg)].
  pose proof (chain_last r b _ Hc) as Hb. unfold slice. split.
  - destruct (skipn_cons_in ps a ltac:(lia)) as (p & r' & E & _). rewrite E.
    destruct (b - a)%nat eqn:Eba; [lia | discriminate].
  - intros p Hp. apply (In_skipn' ps a). apply (In_firstn' _ (b - a)). exact Hp.
Qed.

Lemma thru_pos_perm : forall F B, NoDup F -> NoDup B -> (forall x, In x B -> In x F) -> Permutation (thru F (pos F B)) B.
Proof.
  intros F B HF HB Hsub. rewrite thru_pos.
  apply NoDup_Permutation; [apply NoDup_filter; exact HF | exact HB|].
  intros x. rewrite filter_In, memn_In. split; [intros [_ H]; exact H | intros H; split; [apply Hsub; exact H | exact H]].
Qed.

Lemma perm_concat_map_in {A} (f : list A -> list A) : forall X, (forall B, In B X -> Permutation (f B) B) ->
  Permutation (concat (map f X)) (concat X).
Proof.
  induction X as [|B X IH]; intros H; cbn [map concat]; [constructor|].
  apply Permutation_app; [apply H; left; reflexivity | apply IH; intros B' HB'; apply H; right; exact HB'].
Qed.

Lemma map_id_in {A} (f : A -> A) : forall X, (forall B, In B X -> f B = B) -> map f X = X.
Proof.
  induction X as [|B X IH]; intros H; cbn [map]; [reflexivity|].
  rewrite (H B (or_introl eq_refl)), IH; [reflexivity|]. intros B' HB'. apply H. right. exact HB'.
Qed.

Lemma last_skipn {A} : forall (l : list A) m dflt, (m < length l)%nat -> last (skipn m l) dflt = last l dflt.
Proof.
  induction l as [|x l IH]; intros m dflt H; cbn [length] in H; [lia|].
  destruct m as [|m]; [reflexivity|]. cbn [skipn]. destruct l as [|y l']; [cbn [length] in H; lia|].
  rewrite last_cons'. rewrite (IH m dflt ltac:(lia)). symmetry.
  rewrite last_cons'. destruct l'; [reflexivity|]. rewrite !last_cons'. reflexivity.
Qed.

Lemma nth_map' {A B} (f : A -> B) : forall l h d d', (h < length l)%nat -> nth h (map f l) d = f (nth h l d').
Proof. intros l h d d' H. rewrite (nth_indep _ d (f d')) by (rewrite map_length; exact H). apply map_nth. Qed.

Lemma sum_pred_lengths_gen {A} : forall Gs : list (list A), (forall g, In g Gs -> g <> []) ->
  (list_sum (map (fun g => pred (length g)) Gs) + length Gs = length (concat Gs))%nat.
Proof.
  induction Gs as [|g r IH]; intros H; [reflexivity|].
  specialize (IH ltac:(intros g' Hg'; apply H; right; exact Hg')).
  pose proof (H g (or_introl eq_refl)) as Hg.
  cbn [map concat length]. rewrite list_sum_cons, app_length. destruct g; [congruence|]. cbn [length pred]. lia.
Qed.

Lemma coface_of_face : forall v ps a L,
  canonical (v, ps) -> sorted_parts (v, ps) -> chain a L (length ps) ->
  In (v, ps) (cofaces (pred (length ps)) (face_from_indices (v, ps) (a :: L))).
Proof.
  intros v ps a L Hc Hsorted Hch.
  pose proof Hc as (Hne & Hparts & Hndc & Hall & Hlast). cbn [fst snd] in Hne, Hparts, Hndc, Hall, Hlast.
  unfold sorted_parts in Hsorted. cbn [snd] in Hsorted. rewrite Forall_forall in Hsorted. rewrite Forall_forall in Hparts.
  pose proof (chain_last L a _ Hch) as Hm. pose proof (chain_len L a _ Hch) as Hlen.
  remember (last L a) as m eqn:Em.
  pose (lead := firstn a ps). pose (tailb := skipn m ps).
  pose (inner := pairsG (fun x y => slice ps x y) a L).
  pose (Gs := inner ++ [tailb ++ lead]).
  pose (sc := fun g : list part => sort_nat (concat g)).
  pose (F := map sc Gs).
  pose (vf := vertex_at (length v) v ps a).
  assert (Ef : face_from_indices (v, ps) (a :: L) = (vf, F)).
  { rewrite face_from_indices_eq. unfold vf, F, Gs, sc, inner, tailb, lead. f_equal.
    unfold pairsC. rewrite (pairsG_map (fun x y => slice ps x y) (@concat nat)).
    rewrite <- Em, !map_app, map_map. cbn [map]. rewrite concat_app, slice_to_end. reflexivity. }
  rewrite Ef.
  (* ---- the groups *)
  assert (Hinner : concat inner = slice ps a m) by (unfold inner; rewrite Em; apply (concat_pairs_slices ps L a _ Hch)).
  assert (Hps : lead ++ concat inner ++ tailb = ps).
  { rewrite Hinner. unfold lead, tailb. rewrite app_assoc, firstn_slice by lia. apply firstn_skipn. }
  assert (HGlen : length Gs = S (length L)).
  { unfold Gs, inner. rewrite app_length, length_pairsG. cbn [length]. lia. }
  assert (Htne : tailb <> []).
  { unfold tailb. destruct (skipn_cons_in ps m ltac:(lia)) as (p & r & E & _). rewrite E. discriminate. }
  assert (HGs : forall g, In g Gs -> g <> [] /\ forall p, In p g -> In p ps).
  { intros g Hg. unfold Gs in Hg. apply in_app_or in Hg. destruct Hg as [Hg | [<- | []]].
    - apply (pairs_slices_nonempty ps L a Hch g Hg).
    - split; [destruct tailb; [congruence | discriminate]|]. intros p Hp. apply in_app_or in Hp.
      destruct Hp as [Hp | Hp]; [apply (In_skipn' ps m); exact Hp | apply (In_firstn' ps a); exact Hp]. }
  assert (PG : Permutation (concat Gs) ps).
  { unfold Gs. rewrite concat_app. cbn [concat]. rewrite app_nil_r. rewrite <- Hps at 1.
    rewrite app_assoc. apply Permutation_app_comm. }
  assert (HndG : forall g, In g Gs -> NoDup (concat g)).
  { intros g Hg. assert (HN : NoDup (concat (concat Gs))).
    { apply (Permutation_NoDup (l := concat ps)); [|exact Hndc]. apply Permutation_sym.
      clear - PG. induction PG; cbn [concat]; try (repeat rewrite ?concat_app; auto).
      - apply Permutation_app_head. exact IHPG.
      - rewrite !app_assoc. apply Permutation_app_tail. apply Permutation_app_comm.
      - etransitivity; eassumption. }
    clear - HN Hg. induction Gs as [|g0 r IH]; [destruct Hg|]. cbn [concat] in HN. rewrite concat_app in HN.
    destruct Hg as [<- | Hg]; [apply (NoDup_app_r' _ _ HN) | apply IH; [exact Hg | apply (NoDup_app_l' _ _ HN)]]. }
  (* ---- c and os *)
  pose (c := map (fun g : list part => pred (length g)) Gs).
  pose (os := map (fun g : list part => map (pos (sc g)) g) Gs).
  assert (HnF : forall h, nth h F [] = sc (nth h Gs [])) by (intros h; unfold F; change (@nil nat) with (sc []) at 1; apply map_nth).
  assert (Hnos : forall h, nth h os [] = map (pos (sc (nth h Gs []))) (nth h Gs []))
    by (intros h; unfold os; change (@nil (list nat)) with ((fun g : list part => map (pos (sc g)) g) []) at 1; rewrite map_nth; reflexivity).
  assert (Hnc : forall h, nthn c h = pred (length (nth h Gs [])))
    by (intros h; unfold c, nthn; change O with ((fun g : list part => pred (length g)) []) at 1; rewrite map_nth; reflexivity).
  assert (HFlen : length F = S (length L)) by (unfold F; rewrite map_length; exact HGlen).
  assert (Hkl : (length L <= pred (length ps))%nat) by lia.
  (* ---- the face is canonical, d is in its last part *)
  assert (Hcf : canonical (vf, F)).
  { rewrite <- Ef. assert (Hin : In (face_from_indices (v, ps) (a :: L)) (faces (length L) (v, ps))).
    { unfold faces. cbv zeta. unfold dimension. cbn [snd]. destruct (Nat.ltb_spec (pred (length ps)) (length L)); [lia|].
      apply in_map. rewrite combinations_all by lia. apply all_combs_complete; [|lia].
      replace (S (pred (length ps))) with (length ps) by lia. exact Hch. }
    destruct (faces_sound _ _ _ Hc Hin) as (Hv & _). apply valid_simplex_canonical. exact Hv. }
  assert (Hvf : length vf = length v) by apply length_vertex_at.
  assert (Hd : In (length v) (nth (length L) F [])).
  { destruct Hcf as (_ & _ & _ & _ & Hl). cbn [fst snd] in Hl. rewrite Hvf, last_nth_pred in Hl.
    replace (length L) with (pred (length F)) by (rewrite HFlen; reflexivity). exact Hl. }
  assert (Hosp : forall h, (h <= length L)%nat -> In (nth h os []) (osp (length (nth h F [])) (S (nthn c h)))).
  { intros h Hh. rewrite Hnos, HnF, Hnc.
    assert (Hg : In (nth h Gs []) Gs) by (apply nth_In; lia).
    destruct (HGs _ Hg) as [Hgne Hgin].
    replace (S (pred (length (nth h Gs [])))) with (length (nth h Gs [])) by (destruct (nth h Gs []); [congruence | reflexivity]).
    apply pos_blocks_osp; [exact Hgne | | apply HndG; exact Hg].
    apply forallb_forall. intros p Hp. specialize (Hparts p (Hgin p Hp)). destruct p; [congruence | reflexivity]. }
  (* ---- membership in the enumeration *)
  unfold cofaces. cbv beta iota zeta. rewrite Hvf.
  match goal with |- context [Init.Nat.pred (@length ?T F)] =>
    assert (HFp : Init.Nat.pred (@length T F) = length L) by (exact (f_equal pred HFlen)); rewrite !HFp end.
  destruct (Nat.ltb_spec (pred (length ps)) (length L)) as [|_]; [lia|].
  match goal with |- context [find_pos ?x ?y] => destruct (find_pos_complete x y) as (t & Et); [exact Hd | rewrite Et] end.
  apply in_flat_map. exists c. split.
  - apply int_combinations_complete.
    + rewrite map_length. exact HFlen.
    + unfold c. rewrite map_length. exact HGlen.
    + intros h Hh. rewrite Hnc. unfold nthn. rewrite (nth_map' _ F h O []) by (rewrite HFlen; exact Hh). rewrite HnF. unfold sc. rewrite (Permutation_length (sort_nat_perm _)).
      assert (Hg : In (nth h Gs []) Gs) by (apply nth_In; lia).
      pose proof (length_concat_nonempty (nth h Gs [])) as Hlc.
      assert (forallb nonempty (nth h Gs []) = true).
      { apply forallb_forall. intros p Hp. specialize (Hparts p (proj2 (HGs _ Hg) p Hp)). destruct p; [congruence | reflexivity]. }
      specialize (Hlc H). lia.
    + pose proof (sum_pred_lengths_gen Gs (fun g Hg => proj1 (HGs g Hg))) as Hs. fold c in Hs.
      rewrite (Permutation_length PG), HGlen in Hs. lia.
  - apply in_map_iff. exists os. split.
    2: { apply in_product. rewrite <- (map_nth_seq_all os []).
         assert (Hol : length os = S (length L)) by (unfold os; rewrite map_length; exact HGlen). rewrite Hol.
         apply Forall2_map_map. intros h Hh. apply in_seq in Hh. apply Hosp. lia. }
    (* ---- the coface built from c and os is s *)
    assert (Et' : find_pos (length vf) (nth (pred (length F)) F []) = Some t).
    { rewrite Hvf. replace (pred (length F)) with (length L) by (rewrite HFlen; reflexivity). exact Et. }
    assert (Hos' : forall h, (h <= pred (length F))%nat -> In (nth h os []) (osp (length (nth h F [])) (S (nthn c h)))).
    { intros h Hh. apply Hosp. rewrite HFlen in Hh. exact Hh. }
    destruct (coface_value_form vf F t c os Hcf Et' Hos') as (A & C & b & Eform & HR & ERk & Hdb & HdC).
    etransitivity; [exact Eform|]. clear Eform.
    assert (EkF : pred (length F) = length L) by (rewrite HFlen; reflexivity).
    match goal with |- context [seq 0 ?x] => replace x with (length L) by (symmetry; exact EkF) end.
    assert (ERk2 : refined F os (length L) = A ++ b :: C) by (rewrite <- EkF; exact ERk).
    assert (HR2 : forall h, (h <= length L)%nat -> length (refined F os h) = S (nthn c h) /\ forallb nonempty (refined F os h) = true /\
                                                Permutation (concat (refined F os h)) (nth h F [])).
    { intros h Hh. apply HR. apply (Nat.le_trans _ (length L)); [exact Hh | apply Nat.eq_le_incl; symmetry; exact EkF]. }
    clear ERk HR. rename ERk2 into ERk. rename HR2 into HR.
    rewrite Hvf in *.
    (* each block, taken through the positions and back, is itself *)
    assert (Hblk : forall h B, (h <= length L)%nat -> In B (nth h Gs []) ->
              NoDup (sc (nth h Gs [])) /\ NoDup B /\ (forall x, In x B -> In x (sc (nth h Gs []))) /\ sort_nat B = B).
    { intros h B Hh HB. assert (Hg : In (nth h Gs []) Gs) by (apply nth_In; lia).
      destruct (HGs _ Hg) as [_ Hgin]. split; [|split; [|split]].
      - unfold sc. apply (Permutation_NoDup (Permutation_sym (sort_nat_perm _))). apply HndG. exact Hg.
      - apply (NoDup_concat_part ps); [exact Hndc | apply Hgin; exact HB].
      - intros x Hx. unfold sc. apply (Permutation_in _ (Permutation_sym (sort_nat_perm _))).
        apply in_concat. exists B. split; assumption.
      - apply Hsorted. apply Hgin. exact HB. }
    assert (Hround : forall h X, (h <= length L)%nat -> (forall B, In B X -> In B (nth h Gs [])) ->
              map sort_nat (map (fun B => thru (sc (nth h Gs [])) (pos (sc (nth h Gs [])) B)) X) = X).
    { intros h X Hh HX. rewrite map_map. apply map_id_in. intros B HB.
      destruct (Hblk h B Hh (HX B HB)) as (H1 & H2 & H3 & H4). apply block_roundtrip; assumption. }
    assert (HRh : forall h, (h <= length L)%nat ->
              refined F os h = map (thru (sc (nth h Gs []))) (map (pos (sc (nth h Gs []))) (nth h Gs []))).
    { intros h Hh. unfold refined, refine_part. rewrite HnF, Hnos. reflexivity. }
    (* the last group *)
    assert (EGk : nth (length L) Gs [] = tailb ++ lead).
    { unfold Gs. rewrite app_nth2 by (unfold inner; rewrite length_pairsG; lia).
      unfold inner. rewrite length_pairsG, Nat.sub_diag. reflexivity. }
    pose (phi := fun B : part => thru (sc (tailb ++ lead)) (pos (sc (tailb ++ lead)) B)).
    assert (ERk' : refined F os (length L) = map phi tailb ++ map phi lead).
    { rewrite HRh by lia. rewrite EGk, !map_app, !map_map. reflexivity. }
    assert (Etl : tailb = removelast tailb ++ [last ps []]).
    { rewrite (app_removelast_last [] Htne) at 1. f_equal. f_equal. unfold tailb. apply last_skipn. apply Hm. }
    assert (Hdphi : In (length v) (phi (last ps []))).
    { unfold phi. rewrite thru_pos. apply filter_In. split; [|apply memn_In; exact Hlast].
      unfold sc. apply (Permutation_in _ (Permutation_sym (sort_nat_perm _))). apply in_concat.
      exists (last ps []). split; [|exact Hlast]. apply in_or_app. left. rewrite Etl. apply in_or_app. right. left. reflexivity. }
    assert (HndRk : NoDup (concat (A ++ b :: C))).
    { rewrite <- ERk. destruct (HR (length L) (le_n _)) as (_ & _ & HP).
      apply (Permutation_NoDup (Permutation_sym HP)). rewrite HnF. apply (Hblk (length L) (last ps [])); [lia|].
      rewrite EGk. apply in_or_app. left. rewrite Etl. apply in_or_app. right. left. reflexivity. }
    assert (Esplit : A = map phi (removelast tailb) /\ b = phi (last ps []) /\ C = map phi lead).
    { apply (split_unique A _ C _ b _ (length v)); [|exact HndRk | exact Hdb | exact Hdphi].
      rewrite <- ERk, ERk'. rewrite Etl at 1. rewrite map_app, <- app_assoc. reflexivity. }
    destruct Esplit as (EA & Eb & EC).
    f_equal.
    + (* the base vertex *)
      assert (Hdl : forall i, In i (concat lead) -> i <> length v).
      { intros i Hi ->. rewrite <- Hps in Hndc. rewrite concat_app in Hndc.
        apply (NoDup_app_disjoint' _ _ (length v) Hndc Hi). rewrite concat_app. apply in_or_app. right.
        apply in_concat. exists (last ps []). split; [|exact Hlast]. rewrite Etl. apply in_or_app. right. left. reflexivity. }
      assert (PC : Permutation (concat C) (concat lead)).
      { rewrite EC. apply perm_concat_map_in. intros B HB. unfold phi.
        destruct (Hblk (length L) B (le_n _)) as (H1 & H2 & H3 & _); [rewrite EGk; apply in_or_app; right; exact HB|].
        rewrite EGk in H1, H3. apply thru_pos_perm; assumption. }
      rewrite (fold_decr_perm _ _ PC). unfold vf, vertex_at. fold lead.
      change (fold_left (upd_index (length v)) (concat lead) v) with (upd_part (length v) v (concat lead)).
      rewrite upd_part_incr_part by exact Hdl. apply fold_decr_incr_cancel.
    + (* the partition *)
      rewrite !map_app.
      assert (E1 : map sort_nat C = lead).
      { rewrite EC. unfold phi. rewrite <- EGk. apply (Hround (length L) lead (le_n _)). intros B HB. rewrite EGk. apply in_or_app. right. exact HB. }
      assert (E3 : map sort_nat A ++ map sort_nat [b] = tailb).
      { rewrite <- map_app, EA, Eb. change [phi (last ps [])] with (map phi [last ps []]). rewrite <- map_app, <- Etl.
        unfold phi. rewrite <- EGk. apply (Hround (length L) tailb (le_n _)). intros B HB. rewrite EGk. apply in_or_app. left. exact HB. }
      assert (E2 : map sort_nat (concat (map (refined F os) (seq 0 (length L)))) = concat inner).
      { rewrite concat_map, map_map.
        rewrite (map_ext_in _ (fun h => nth h Gs [])).
        - rewrite map_nth_seq_firstn by lia. unfold Gs.
          replace (length L) with (length inner) by (unfold inner; apply length_pairsG). rewrite firstn_length_app. reflexivity.
        - intros h Hh. apply in_seq in Hh. rewrite HRh by lia. rewrite (map_map (pos (sc (nth h Gs []))) (thru (sc (nth h Gs [])))). apply Hround; [lia | auto]. }
      rewrite <- Hps. apply f_equal2; [exact E1 | apply f_equal2; [exact E2 | exact E3]].
Qed.
Print Assumptions coface_of_face.

(* ---- faces_cofaces_ok in every dimension *)
Theorem faces_cofaces_ok_every_dim : forall s k, canonical s -> sorted_parts s -> (k <= dimension s)%nat ->
  faces_cofaces_ok k s = true.
Proof.
  intros [v ps] k Hc Hs Hk. unfold faces_cofaces_ok. apply forallb_forall. intros f Hf.
  unfold mem_simplex. apply existsb_exists. exists (v, ps). split; [|apply simplex_eqb_refl].
  assert (Hne : ps <> []) by (destruct Hc as (H & _); exact H).
  assert (Hl : S (dimension (v, ps)) = length ps) by (unfold dimension; cbn [snd]; destruct ps; [congruence | reflexivity]).
  unfold faces in Hf. cbv zeta in Hf. destruct (Nat.ltb_spec (dimension (v, ps)) k) as [|_]; [lia|].
  apply in_map_iff in Hf. destruct Hf as (idx & <- & Hidx).
  apply combinations_good in Hidx; [|lia].
  destruct idx as [|a L]; [destruct Hidx as (HL & _); discriminate|].
  assert (HL : length L = k) by (destruct Hidx as (HL & _); cbn [length] in HL; lia).
  rewrite <- HL in Hidx. apply good_comb_chain in Hidx. rewrite Hl in Hidx.
  unfold dimension. cbn [snd]. apply coface_of_face; assumption.
Qed.
Print Assumptions faces_cofaces_ok_every_dim.

(* ================================================================== unbounded versions of C
   all four are proved just below ( *_full_holds ).  sorted_parts is necessary in cofaces_ok_full and
   faces_cofaces_ok_full: simplices are compared with simplex_eqb there, and faces / cofaces return sorted parts
   (see the Example at the end). *)
Definition faces_ok_full : Prop :=
  forall s k, canonical s -> (k <= dimension s)%nat -> faces_ok k s = true.
Definition cofaces_ok_full : Prop :=
  forall s l, canonical s -> sorted_parts s -> (dimension s <= l <= length (fst s))%nat -> cofaces_ok l s = true.
Definition faces_cofaces_ok_full : Prop :=
  forall s k, canonical s -> sorted_parts s -> (k <= dimension s)%nat -> faces_cofaces_ok k s = true.
Definition is_face_of_iff_spec_full : Prop :=
  forall s t, canonical s -> canonical t -> length (fst s) = length (fst t) -> is_face_of s t = spec_is_face s t.

Theorem faces_ok_full_holds : faces_ok_full.
Proof. exact faces_ok_every_dim. Qed.
Print Assumptions faces_ok_full_holds.

Theorem cofaces_ok_full_holds : cofaces_ok_full.
Proof. exact cofaces_ok_every_dim. Qed.
Print Assumptions cofaces_ok_full_holds.

Theorem faces_cofaces_ok_full_holds : faces_cofaces_ok_full.
Proof. exact faces_cofaces_ok_every_dim. Qed.
Print Assumptions faces_cofaces_ok_full_holds.

Theorem is_face_of_iff_spec_full_holds : is_face_of_iff_spec_full.
Proof. intros s t Hs Ht _. apply is_face_of_iff_spec; assumption. Qed.
Print Assumptions is_face_of_iff_spec_full_holds.

(* without sorted parts cofaces_ok and faces_cofaces_ok are false *)
Example cofaces_ok_needs_sorted_parts :
  canonical ([0], [[1; 0]]%nat) /\ cofaces_ok 1 ([0], [[1; 0]]%nat) = false /\
  faces_cofaces_ok 0 ([0], [[1; 0]]%nat) = false.
Proof.
  split; [apply valid_simplex_canonical; reflexivity | split; vm_compute; reflexivity].
Qed.
