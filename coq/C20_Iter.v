(* C20 — the state-machine transcription of Coface_iterator::increment (C20_Model.v, last section) enumerates the same
   cofaces as the set-level model [cofaces], up to order.
   1. [cofaces_as_choices]: structural, every dimension: [cofaces] is [coface_value] mapped over [coface_choices];
      [cofaces_iter] is by definition the same map over [coface_choices_iter].
   2. [coface_choices_iter_perm_le4]: for ambient dimension d <= 4 (bound in the statement, by computation over all
      ordered partitions of canon_oparts d and all l) the visited choices are a permutation of the set-level choices.
   3. [cofaces_iter_perm_le4]: hence for every vertex v, cofaces_iter l (v, ps) is a permutation of cofaces l (v, ps).
   The versions without the hypothesis l <= d ([..._any_l]) use that the integer-combination iterator does not depend
   on n once n exceeds the sum of the bounds.  [cofaces_iter_perm_valid_le4]: the same for every valid simplex with
   sorted parts; the [..._le5] versions extend the bound to ambient dimension 5 (one more computation, about 10 s). *)
From Coq Require Import ZArith List Lia Permutation Arith Bool.
Import ListNotations.
Require Import C20_Model C20_Combi.
Local Open Scope nat_scope.

(* ------------------------------------------------------------------ a boolean permutation checker, any type with decidable equality *)
Section PermB.
  Variable A : Type.
  Variable eq_dec : forall a b : A, {a = b} + {a <> b}.
  Fixpoint remove_first_g (x : A) (l : list A) : option (list A) :=
    match l with
    | [] => None
    | y :: r => if eq_dec x y then Some r else option_map (cons y) (remove_first_g x r)
    end.
  Fixpoint permb_g (a b : list A) : bool :=
    match a with
    | [] => match b with [] => true | _ => false end
    | x :: a' => match remove_first_g x b with Some b' => permb_g a' b' | None => false end
    end.
  Lemma remove_first_g_perm : forall x l l', remove_first_g x l = Some l' -> Permutation l (x :: l').
  Proof.
    induction l as [|y r IH]; intros l' H; cbn [remove_first_g] in H; [discriminate|].
    destruct (eq_dec x y) as [->|Hne].
    - injection H as <-. apply Permutation_refl.
    - destruct (remove_first_g x r) as [r'|] eqn:E; [|discriminate]. cbn [option_map] in H. injection H as <-.
      eapply Permutation_trans; [apply perm_skip; apply IH; reflexivity|]. apply perm_swap.
  Qed.
  Lemma permb_g_sound : forall a b, permb_g a b = true -> Permutation a b.
  Proof.
    induction a as [|x a IH]; intros b H; cbn [permb_g] in H.
    - destruct b; [apply perm_nil|discriminate].
    - destruct (remove_first_g x b) as [b'|] eqn:E; [|discriminate].
      apply Permutation_sym. eapply Permutation_trans; [apply remove_first_g_perm; exact E|].
      apply perm_skip. apply Permutation_sym. apply IH. exact H.
  Qed.
End PermB.

(* a choice of the coface iterator: an integer combination and one ordered set partition per part *)
Definition choice := (list nat * list (list (list nat)))%type.
Definition choice_eq_dec : forall a b : choice, {a = b} + {a <> b}.
Proof.
  decide equality.
  - apply (list_eq_dec (list_eq_dec (list_eq_dec Nat.eq_dec))).
  - apply (list_eq_dec Nat.eq_dec).
Defined.
Definition choice_permb : list choice -> list choice -> bool := permb_g choice choice_eq_dec.

(* ------------------------------------------------------------------ 1. structural: cofaces = coface_value over coface_choices *)
Lemma map_flat_map_g : forall (A B C : Type) (f : B -> C) (g : A -> list B) (l : list A),
  map f (flat_map g l) = flat_map (fun x => map f (g x)) l.
Proof.
  intros A B C f g l. induction l as [|x r IH]; [reflexivity|].
  cbn [flat_map]. rewrite map_app. rewrite IH. reflexivity.
Qed.

Lemma cofaces_as_choices : forall l v ps,
  cofaces l (v, ps) =
  (let d := length v in let k := pred (length ps) in
   if (l <? k)%nat then [] else
   match find_pos d (nth k ps []) with
   | None => []
   | Some t => map (fun co => coface_value (v, ps) t (fst co) (snd co)) (coface_choices l ps)
   end).
Proof.
  intros l v ps. unfold cofaces, coface_choices. cbv zeta.
  destruct (l <? pred (length ps)); [reflexivity|].
  destruct (find_pos (length v) (nth (pred (length ps)) ps [])) as [t|]; [|reflexivity].
  rewrite map_flat_map_g. apply flat_map_ext. intros c.
  rewrite map_map. apply map_ext. intros os. reflexivity.
Qed.

(* both enumerations take the same branch: it suffices to compare the choices *)
Lemma cofaces_iter_perm_of_choices : forall l v ps,
  Permutation (coface_choices_iter l ps) (coface_choices l ps) ->
  Permutation (cofaces_iter l (v, ps)) (cofaces l (v, ps)).
Proof.
  intros l v ps H. rewrite cofaces_as_choices. unfold cofaces_iter. cbv zeta.
  destruct (l <? pred (length ps)); [apply perm_nil|].
  destruct (find_pos (length v) (nth (pred (length ps)) ps [])) as [t|]; [|apply perm_nil].
  apply Permutation_map. exact H.
Qed.

(* below the dimension of the simplex both are empty *)
Lemma cofaces_iter_below : forall l v ps, l < pred (length ps) -> cofaces_iter l (v, ps) = [] /\ cofaces l (v, ps) = [].
Proof.
  intros l v ps H. apply Nat.ltb_lt in H. unfold cofaces_iter, cofaces. cbv zeta. rewrite H. split; reflexivity.
Qed.

(* ------------------------------------------------------------------ the integer combinations do not depend on n beyond the sum of the bounds *)
Lemma int_combinations_over : forall n k bnds, list_sum bnds < n ->
  int_combinations n k bnds = int_combinations (S (list_sum bnds)) k bnds.
Proof.
  intros n k bnds H. unfold int_combinations, ic_init. cbv zeta.
  assert (H1 : (list_sum bnds <? n) = true) by (apply Nat.ltb_lt; exact H).
  assert (H2 : (list_sum bnds <? S (list_sum bnds)) = true) by (apply Nat.ltb_lt; lia).
  rewrite H1, H2. reflexivity.
Qed.

Definition opart_bnds (ps : list (list nat)) : list nat := map (fun p => pred (length p)) ps.
(* the parts of ps have d + 1 elements in total (non-empty parts) *)
Definition opart_sum_ok (d : nat) (ps : list (list nat)) : bool :=
  (list_sum (opart_bnds ps) + pred (length ps) =? d) && (pred (length ps) <=? d).

Lemma coface_choices_iter_over : forall d ps l, opart_sum_ok d ps = true -> d < l ->
  coface_choices_iter l ps = coface_choices_iter (S d) ps.
Proof.
  intros d ps l Hok Hl. unfold opart_sum_ok in Hok. apply andb_true_iff in Hok. destruct Hok as [Hs Hk].
  apply Nat.eqb_eq in Hs. apply Nat.leb_le in Hk.
  unfold coface_choices_iter. cbv zeta. fold (opart_bnds ps).
  change (@length part ps) with (@length (list nat) ps).
  rewrite (int_combinations_over (l - pred (length ps))) by lia.
  assert (E : S d - pred (length ps) = S (list_sum (opart_bnds ps))) by lia.
  rewrite E. reflexivity.
Qed.
Lemma coface_choices_over : forall d ps l, opart_sum_ok d ps = true -> d < l ->
  coface_choices l ps = coface_choices (S d) ps.
Proof.
  intros d ps l Hok Hl. unfold opart_sum_ok in Hok. apply andb_true_iff in Hok. destruct Hok as [Hs Hk].
  apply Nat.eqb_eq in Hs. apply Nat.leb_le in Hk.
  unfold coface_choices. cbv zeta. fold (opart_bnds ps).
  change (@length part ps) with (@length (list nat) ps).
  rewrite (int_combinations_over (l - pred (length ps))) by lia.
  assert (E : S d - pred (length ps) = S (list_sum (opart_bnds ps))) by lia.
  rewrite E. reflexivity.
Qed.

(* ------------------------------------------------------------------ 2. bounded by computation *)
Definition chk_choices (d : nat) : bool :=
  forallb (fun ps => opart_sum_ok d ps &&
                     forallb (fun l => choice_permb (coface_choices_iter l ps) (coface_choices l ps)) (seq 0 (S (S d))))
          (canon_oparts d).
Lemma chk_choices_1 : chk_choices 1 = true. Proof. vm_compute. reflexivity. Qed.
Lemma chk_choices_2 : chk_choices 2 = true. Proof. vm_compute. reflexivity. Qed.
Lemma chk_choices_3 : chk_choices 3 = true. Proof. vm_compute. reflexivity. Qed.
Lemma chk_choices_4 : chk_choices 4 = true. Proof. vm_compute. reflexivity. Qed.

Lemma chk_choices_lift : forall d, chk_choices d = true -> forall ps l, In ps (canon_oparts d) ->
  Permutation (coface_choices_iter l ps) (coface_choices l ps).
Proof.
  intros d H ps l Hps. unfold chk_choices in H. rewrite forallb_forall in H. specialize (H ps Hps).
  apply andb_true_iff in H. destruct H as [Hok H]. rewrite forallb_forall in H.
  destruct (le_lt_dec l d) as [Hl|Hl].
  - apply permb_g_sound with (eq_dec := choice_eq_dec). apply H. apply in_seq. lia.
  - rewrite (coface_choices_iter_over d ps l Hok Hl), (coface_choices_over d ps l Hok Hl).
    apply permb_g_sound with (eq_dec := choice_eq_dec). apply H. apply in_seq. lia.
Qed.

Theorem coface_choices_iter_perm_le4_any_l : forall d ps l, (1 <= d <= 4)%nat -> In ps (canon_oparts d) ->
  Permutation (coface_choices_iter l ps) (coface_choices l ps).
Proof.
  intros d ps l Hd Hps.
  assert (Hc : chk_choices d = true).
  { destruct Hd as [H1 H4].
    destruct d as [|[|[|[|[|d]]]]]; [lia| exact chk_choices_1 | exact chk_choices_2 | exact chk_choices_3 | exact chk_choices_4 | lia]. }
  exact (chk_choices_lift d Hc ps l Hps).
Qed.

Theorem coface_choices_iter_perm_le4 : forall d ps l, (1 <= d <= 4)%nat -> In ps (canon_oparts d) -> (l <= d)%nat ->
  Permutation (coface_choices_iter l ps) (coface_choices l ps).
Proof. intros d ps l Hd Hps _. exact (coface_choices_iter_perm_le4_any_l d ps l Hd Hps). Qed.
Print Assumptions coface_choices_iter_perm_le4.

(* ------------------------------------------------------------------ 3. every vertex *)
Theorem cofaces_iter_perm_le4_any_l : forall d ps v l, (1 <= d <= 4)%nat -> In ps (canon_oparts d) ->
  Permutation (cofaces_iter l (v, ps)) (cofaces l (v, ps)).
Proof.
  intros d ps v l Hd Hps. apply cofaces_iter_perm_of_choices.
  exact (coface_choices_iter_perm_le4_any_l d ps l Hd Hps).
Qed.

Theorem cofaces_iter_perm_le4 : forall d ps v l, (1 <= d <= 4)%nat -> In ps (canon_oparts d) -> length v = d ->
  (l <= d)%nat -> Permutation (cofaces_iter l (v, ps)) (cofaces l (v, ps)).
Proof. intros d ps v l Hd Hps _ _. exact (cofaces_iter_perm_le4_any_l d ps v l Hd Hps). Qed.
Print Assumptions cofaces_iter_perm_le4.
Print Assumptions cofaces_iter_perm_le4_any_l.

(* ------------------------------------------------------------------ every valid simplex with sorted parts (any vertex, any l) *)
Theorem cofaces_iter_perm_valid_le4 : forall s l, (1 <= length (fst s) <= 4)%nat -> valid_simplex s = true ->
  sorted_parts s -> Permutation (cofaces_iter l s) (cofaces l s).
Proof.
  intros [v ps] l Hd Hv Hs. apply (cofaces_iter_perm_le4_any_l (length v)); [exact Hd|].
  apply canon_oparts_complete; [exact Hv | exact Hs].
Qed.
Print Assumptions cofaces_iter_perm_valid_le4.

(* ------------------------------------------------------------------ ambient dimension 5 as well (1082 ordered partitions, about 10 s) *)
Lemma chk_choices_5 : chk_choices 5 = true. Proof. vm_cast_no_check (eq_refl true). Qed.

Theorem coface_choices_iter_perm_le5 : forall d ps l, (1 <= d <= 5)%nat -> In ps (canon_oparts d) ->
  Permutation (coface_choices_iter l ps) (coface_choices l ps).
Proof.
  intros d ps l Hd Hps.
  destruct (le_lt_dec d 4) as [H4|H4].
  - apply (coface_choices_iter_perm_le4_any_l d); [lia | exact Hps].
  - assert (E : d = 5) by lia. subst d. exact (chk_choices_lift 5 chk_choices_5 ps l Hps).
Qed.
Theorem cofaces_iter_perm_le5 : forall d ps v l, (1 <= d <= 5)%nat -> In ps (canon_oparts d) ->
  Permutation (cofaces_iter l (v, ps)) (cofaces l (v, ps)).
Proof.
  intros d ps v l Hd Hps. apply cofaces_iter_perm_of_choices.
  exact (coface_choices_iter_perm_le5 d ps l Hd Hps).
Qed.
Theorem cofaces_iter_perm_valid_le5 : forall s l, (1 <= length (fst s) <= 5)%nat -> valid_simplex s = true ->
  sorted_parts s -> Permutation (cofaces_iter l s) (cofaces l s).
Proof.
  intros [v ps] l Hd Hv Hs. apply (cofaces_iter_perm_le5 (length v)); [exact Hd|].
  apply canon_oparts_complete; [exact Hv | exact Hs].
Qed.
Print Assumptions cofaces_iter_perm_valid_le5.
