(* C20 — locate_point of the Freudenthal triangulation: proofs for every dimension.
   (1) locate_barycentric : the vertices of the located simplex give the point as a strictly positive
       convex combination (weights are numerators over D and sum to D);
   (2) locate_valid       : the located simplex is a valid permutahedral representation;
   (3) locate_unique      : a point in the relative interior of a simplex determines its vertex and its
       ordered partition (as a chain of sets);
       locate_unique_parts / locate_unique_eq : hence that simplex is locate_z ns D (up to the order inside
       the parts, resp. exactly when the parts are sorted; locate_parts_sorted: those of locate_z are);
       locate_in_rel_interior / in_rel_interior_unique(_eq) : the same for the model's boolean in_rel_interior.
   All statements hold for every dimension (any length of ns).
   Only the Coq standard library is used; every proof is closed. *)
From Coq Require Import ZArith List Bool Arith Lia Permutation.
Import ListNotations.
Require Import C20_Model.
Local Open Scope Z_scope.

Definition group := list (Z * nat).

(* ------------------------------------------------------------------ contributions and counts *)
(* sum of the first components of the pairs tagged with index i *)
Fixpoint contrib (i : nat) (L : group) : Z :=
  match L with
  | [] => 0
  | p :: r => (if Nat.eqb (snd p) i then fst p else 0) + contrib i r
  end.

(* number of occurrences of i in a part *)
Fixpoint cnt (i : nat) (p : list nat) : Z :=
  match p with
  | [] => 0
  | j :: r => (if Nat.eqb j i then 1 else 0) + cnt i r
  end.

Lemma contrib_app : forall i a b, contrib i (a ++ b) = contrib i a + contrib i b.
Proof.
  intros i a b. induction a as [|p a IH]; cbn [contrib app]; [lia | rewrite IH; lia].
Qed.

Lemma contrib_ins : forall i a L, contrib i (ins_desc a L) = contrib i (a :: L).
Proof.
  intros i a L. induction L as [|b r IH]; cbn [ins_desc]; [reflexivity|].
  destruct (fst b <=? fst a); [reflexivity|].
  cbn [contrib] in *. rewrite IH. lia.
Qed.

Lemma contrib_sort : forall i L, contrib i (sort_desc L) = contrib i L.
Proof.
  intros i L. induction L as [|a r IH]; [reflexivity|].
  change (sort_desc (a :: r)) with (ins_desc a (sort_desc r)).
  rewrite contrib_ins. cbn [contrib]. rewrite IH. reflexivity.
Qed.

Lemma contrib_uniform : forall i g t, (forall p, In p g -> fst p = t) ->
  contrib i g = t * cnt i (map snd g).
Proof.
  intros i g t H. induction g as [|a g IH]; cbn [contrib map cnt]; [lia|].
  rewrite IH by (intros p Hp; apply H; right; exact Hp).
  rewrite (H a) by (left; reflexivity).
  destruct (Nat.eqb (snd a) i); ring.
Qed.

(* ------------------------------------------------------------------ sort_desc, runs *)
Lemma perm_ins : forall a L, Permutation (ins_desc a L) (a :: L).
Proof.
  intros a L. induction L as [|b r IH]; cbn [ins_desc]; [apply Permutation_refl|].
  destruct (fst b <=? fst a); [apply Permutation_refl|].
  eapply perm_trans; [apply perm_skip, IH | apply perm_swap].
Qed.

Lemma perm_sort : forall L, Permutation (sort_desc L) L.
Proof.
  induction L as [|a r IH]; [apply Permutation_refl|].
  change (sort_desc (a :: r)) with (ins_desc a (sort_desc r)).
  eapply perm_trans; [apply perm_ins | apply perm_skip, IH].
Qed.

Lemma in_sort : forall p L, In p (sort_desc L) <-> In p L.
Proof.
  intros p L. split; intros H.
  - eapply Permutation_in; [apply perm_sort | exact H].
  - eapply Permutation_in; [apply Permutation_sym, perm_sort | exact H].
Qed.

(* non-increasing first components *)
Fixpoint desc (L : group) : Prop :=
  match L with
  | [] => True
  | a :: r => (forall b, In b r -> fst b <= fst a) /\ desc r
  end.

Lemma desc_ins : forall a L, desc L -> desc (ins_desc a L).
Proof.
  intros a L. induction L as [|b r IH]; intros HL; cbn [ins_desc].
  - cbn [desc]. split; [intros c []| exact I].
  - cbn [desc] in HL. destruct HL as [Hb Hr].
    destruct (Z.leb_spec (fst b) (fst a)) as [Hle|Hlt].
    + cbn [desc]. split; [|split; assumption].
      intros c [<-|Hc]; [exact Hle|]. specialize (Hb c Hc). lia.
    + cbn [desc]. split; [|apply IH; exact Hr].
      intros c Hc. apply (Permutation_in _ (perm_ins a r)) in Hc.
      destruct Hc as [<-|Hc]; [lia | apply Hb; exact Hc].
Qed.

Lemma desc_sort : forall L, desc (sort_desc L).
Proof.
  induction L as [|a r IH]; [exact I|].
  change (sort_desc (a :: r)) with (ins_desc a (sort_desc r)).
  apply desc_ins, IH.
Qed.

Lemma concat_runs : forall L, concat (runs L) = L.
Proof.
  induction L as [|a r IH]; [reflexivity|].
  cbn [runs]. destruct (runs r) as [|[|b g] gs].
  - cbn [concat] in IH. subst r. reflexivity.
  - cbn [concat app] in *. rewrite IH. reflexivity.
  - destruct (fst b <? fst a); cbn [concat app] in *; rewrite IH; reflexivity.
Qed.

Definition uniform (g : group) : Prop := forall p, In p g -> fst p = level_of g.

(* non-empty uniform groups with strictly decreasing levels, all below prev *)
Fixpoint good_groups (prev : Z) (gs : list group) : Prop :=
  match gs with
  | [] => True
  | g :: r => g <> [] /\ uniform g /\ level_of g < prev /\ good_groups (level_of g) r
  end.

Lemma runs_good : forall L, desc L -> forall prev, (forall p, In p L -> fst p < prev) ->
  good_groups prev (runs L).
Proof.
  induction L as [|a r IH]; intros Hd prev Hp; [exact I|].
  cbn [desc] in Hd. destruct Hd as [Ha Hd].
  assert (Hr : forall p, In p r -> fst p < fst a + 1).
  { intros p Hin. specialize (Ha p Hin). lia. }
  specialize (IH Hd (fst a + 1) Hr).
  assert (Hap : fst a < prev) by (apply Hp; left; reflexivity).
  cbn [runs]. destruct (runs r) as [|[|b g] gs].
  - cbn [good_groups level_of]. split; [discriminate|]. split; [|split; [exact Hap|exact I]].
    intros p [<-|[]]. reflexivity.
  - cbn [good_groups] in IH. destruct IH as [Hne _]. exfalso. apply Hne. reflexivity.
  - cbn [good_groups] in IH. destruct IH as (_ & Hu & Hlt & Hg). cbn [level_of] in Hlt, Hg.
    destruct (Z.ltb_spec (fst b) (fst a)) as [Hba|Hba].
    + cbn [good_groups level_of]. split; [discriminate|]. split; [|split; [exact Hap|]].
      * intros p [<-|[]]. reflexivity.
      * split; [discriminate|]. split; [exact Hu|]. split; [exact Hba|exact Hg].
    + assert (Heq : fst b = fst a) by lia.
      cbn [good_groups level_of]. split; [discriminate|]. split; [|split; [exact Hap|]].
      * intros p [<-|Hp']; [reflexivity|]. cbn [level_of]. rewrite <- Heq. apply (Hu p Hp').
      * rewrite <- Heq. exact Hg.
Qed.

(* ------------------------------------------------------------------ groups ready for telescoping *)
Inductive tele_ok (d : nat) : list group -> Prop :=
| tele_last : forall g, uniform g -> level_of g = 0 -> tele_ok d [g]
| tele_cons : forall g g' r, uniform g -> ~ In d (map snd g) -> tele_ok d (g' :: r) ->
              tele_ok d (g :: g' :: r).

Lemma good_nonneg_level : forall prev g r, good_groups prev (g :: r) ->
  (forall p, In p (concat (g :: r)) -> 0 <= fst p) -> 0 <= level_of g.
Proof.
  intros prev g r Hg Hnn. cbn [good_groups] in Hg. destruct Hg as (Hne & Hu & _ & _).
  destruct g as [|a g]; [exfalso; apply Hne; reflexivity|].
  cbn [level_of]. apply Hnn. cbn [concat app]. left. reflexivity.
Qed.

Lemma good_tele : forall d gs prev, good_groups prev gs -> gs <> [] ->
  (forall p, In p (concat gs) -> 0 <= fst p) ->
  (exists p, In p (concat gs) /\ fst p = 0) ->
  (forall p, In p (concat gs) -> snd p = d -> fst p = 0) ->
  tele_ok d gs.
Proof.
  intros d gs. induction gs as [|g r IH]; intros prev Hg Hne Hnn Hex Hd; [exfalso; apply Hne; reflexivity|].
  pose proof Hg as Hg0. cbn [good_groups] in Hg. destruct Hg as (Hgne & Hu & Hlt & Hgr).
  destruct r as [|g' r'].
  - apply tele_last; [exact Hu|].
    destruct Hex as (p & Hp & Hp0). cbn [concat] in Hp. rewrite app_nil_r in Hp.
    rewrite <- (Hu p Hp). exact Hp0.
  - assert (Hrest : forall p, In p (concat (g' :: r')) -> In p (concat (g :: g' :: r'))).
    { intros p Hp. change (concat (g :: g' :: r')) with (g ++ concat (g' :: r')).
      apply in_or_app. right. exact Hp. }
    assert (Hpos' : 0 <= level_of g').
    { apply (good_nonneg_level (level_of g) g' r' Hgr). intros p Hp. apply Hnn, Hrest, Hp. }
    pose proof Hgr as Hgr0. cbn [good_groups] in Hgr. destruct Hgr as (_ & _ & Hlt' & _).
    assert (Hgpos : 0 < level_of g) by lia.
    assert (Hin_g : forall p, In p g -> In p (concat (g :: g' :: r'))).
    { intros p Hp. change (concat (g :: g' :: r')) with (g ++ concat (g' :: r')).
      apply in_or_app. left. exact Hp. }
    apply tele_cons; [exact Hu| |].
    + intros Hin. apply in_map_iff in Hin. destruct Hin as (p & Hsnd & Hp).
      pose proof (Hd p (Hin_g p Hp) Hsnd) as Hz. rewrite (Hu p Hp) in Hz. lia.
    + apply (IH (level_of g) Hgr0); [discriminate| | |].
      * intros p Hp. apply Hnn, Hrest, Hp.
      * destruct Hex as (p & Hp & Hp0).
        change (concat (g :: g' :: r')) with (g ++ concat (g' :: r')) in Hp.
        apply in_app_or in Hp. destruct Hp as [Hp|Hp].
        -- rewrite (Hu p Hp) in Hp0. lia.
        -- exists p. split; assumption.
      * intros p Hp. apply Hd, Hrest, Hp.
Qed.

(* ------------------------------------------------------------------ vertices *)
Lemma length_incr_at : forall v j, length (incr_at v j) = length v.
Proof.
  induction v as [|x v IH]; intros j; [destruct j; reflexivity|].
  destruct j; cbn [incr_at length]; [reflexivity | rewrite IH; reflexivity].
Qed.

Lemma nth_incr_at : forall v j i, (i < length v)%nat ->
  nth i (incr_at v j) 0 = nth i v 0 + (if Nat.eqb j i then 1 else 0).
Proof.
  induction v as [|x v IH]; intros j i Hi; cbn [length] in Hi; [lia|].
  destruct j, i; cbn [incr_at nth Nat.eqb]; try lia.
  apply IH. lia.
Qed.

Lemma length_upd_index : forall d v j, length (upd_index d v j) = length v.
Proof.
  intros d v j. unfold upd_index, decr_all.
  destruct (Nat.eqb j d); [apply map_length | apply length_incr_at].
Qed.

Lemma length_upd_part : forall d p v, length (upd_part d v p) = length v.
Proof.
  intros d p. unfold upd_part. induction p as [|j p IH]; intros v; cbn [fold_left]; [reflexivity|].
  rewrite IH. apply length_upd_index.
Qed.

Lemma nth_upd_part : forall d i p v, ~ In d p -> (i < length v)%nat ->
  nth i (upd_part d v p) 0 = nth i v 0 + cnt i p.
Proof.
  intros d i p. unfold upd_part. induction p as [|j p IH]; intros v Hd Hi; cbn [fold_left cnt]; [lia|].
  rewrite IH.
  - unfold upd_index. destruct (Nat.eqb_spec j d) as [->|Hne].
    + exfalso. apply Hd. left. reflexivity.
    + rewrite nth_incr_at by exact Hi. lia.
  - intros H. apply Hd. right. exact H.
  - rewrite length_upd_index. exact Hi.
Qed.

Lemma length_vertices_from : forall d ps v, length (vertices_from d v ps) = length ps.
Proof.
  intros d ps. induction ps as [|p ps IH]; intros v; cbn [vertices_from length]; [reflexivity|].
  rewrite IH. reflexivity.
Qed.

Lemma length_weights_from : forall l prev, length (weights_from prev l) = length l.
Proof.
  induction l as [|t l IH]; intros prev; cbn [weights_from length]; [reflexivity|].
  rewrite IH. reflexivity.
Qed.

Lemma comb_coord_cons : forall w ws v vs i,
  comb_coord (w :: ws) (v :: vs) i = w * nthz v i + comb_coord ws vs i.
Proof. reflexivity. Qed.

Lemma comb_coord_nil : forall vs i, comb_coord [] vs i = 0.
Proof. reflexivity. Qed.

(* ------------------------------------------------------------------ telescoping *)
Lemma tele_step : forall d i g gs v prev,
  comb_coord (weights_from prev (map level_of (g :: gs)))
             (vertices_from d v (map (map snd) (g :: gs))) i
  = (prev - level_of g) * nthz v i
    + comb_coord (weights_from (level_of g) (map level_of gs))
                 (vertices_from d (upd_part d v (map snd g)) (map (map snd) gs)) i.
Proof. reflexivity. Qed.

Lemma telescope : forall d i gs, tele_ok d gs -> forall v prev, (i < length v)%nat ->
  comb_coord (weights_from prev (map level_of gs)) (vertices_from d v (map (map snd) gs)) i
  = prev * nthz v i + contrib i (concat gs).
Proof.
  intros d i gs H. induction H as [g Hu H0 | g g' r Hu Hd Ht IH]; intros v prev Hi.
  - rewrite tele_step. cbn [map weights_from]. rewrite comb_coord_nil.
    cbn [concat]. rewrite app_nil_r.
    rewrite (contrib_uniform i g (level_of g) Hu). rewrite H0. ring.
  - rewrite tele_step. rewrite IH by (rewrite length_upd_part; exact Hi).
    unfold nthz. rewrite nth_upd_part by assumption.
    change (concat (g :: g' :: r)) with (g ++ concat (g' :: r)).
    rewrite contrib_app. rewrite (contrib_uniform i g (level_of g) Hu). ring.
Qed.

Lemma weights_pos : forall gs prev, good_groups prev gs ->
  Forall (fun w => 0 < w) (weights_from prev (map level_of gs)).
Proof.
  induction gs as [|g gs IH]; intros prev H; cbn [map weights_from]; [constructor|].
  cbn [good_groups] in H. destruct H as (_ & _ & Hlt & Hg).
  constructor; [lia | apply IH; exact Hg].
Qed.

Lemma zsum_weights_step : forall prev g gs,
  zsum (weights_from prev (map level_of (g :: gs)))
  = (prev - level_of g) + zsum (weights_from (level_of g) (map level_of gs)).
Proof. reflexivity. Qed.

Lemma weights_sum : forall d gs, tele_ok d gs -> forall prev,
  zsum (weights_from prev (map level_of gs)) = prev.
Proof.
  intros d gs H. induction H as [g Hu H0 | g g' r Hu Hd Ht IH]; intros prev.
  - rewrite zsum_weights_step. cbn [map weights_from zsum fold_right]. lia.
  - rewrite zsum_weights_step. rewrite IH. lia.
Qed.

(* ------------------------------------------------------------------ the tagged list *)
Definition tagged_from (k : nat) (ns : list Z) (D : Z) : group :=
  combine (fracs ns D) (seq k (S (length ns))).

Lemma tagged_from_0 : forall ns D, tagged ns D = tagged_from 0 ns D.
Proof. reflexivity. Qed.

Lemma tagged_from_cons : forall k n ns D,
  tagged_from k (n :: ns) D = (n mod D, k) :: tagged_from (S k) ns D.
Proof. reflexivity. Qed.

Lemma tagged_from_nil : forall k D, tagged_from k [] D = [(0, k)].
Proof. reflexivity. Qed.

Lemma tagged_props : forall D ns k p, 0 < D -> In p (tagged_from k ns D) ->
  0 <= fst p < D /\ (k <= snd p <= k + length ns)%nat /\
  (snd p = (k + length ns)%nat -> fst p = 0).
Proof.
  intros D ns. induction ns as [|n ns IH]; intros k p HD Hp.
  - rewrite tagged_from_nil in Hp. destruct Hp as [<-|[]]. cbn [fst snd length]. repeat split; lia.
  - rewrite tagged_from_cons in Hp. destruct Hp as [<-|Hp].
    + cbn [fst snd length]. pose proof (Z.mod_pos_bound n D HD). repeat split; lia.
    + destruct (IH (S k) p HD Hp) as (H1 & H2 & H3). cbn [length].
      split; [exact H1|]. split; [lia|]. intros Hs. apply H3. lia.
Qed.

Lemma tagged_has_d : forall D ns k, In (0, (k + length ns)%nat) (tagged_from k ns D).
Proof.
  intros D ns. induction ns as [|n ns IH]; intros k.
  - rewrite tagged_from_nil. cbn [length]. rewrite Nat.add_0_r. left. reflexivity.
  - rewrite tagged_from_cons. right. cbn [length].
    replace (k + S (length ns))%nat with (S k + length ns)%nat by lia. apply IH.
Qed.

Lemma contrib_tagged_lt : forall D ns k j, (j < k)%nat -> contrib j (tagged_from k ns D) = 0.
Proof.
  intros D ns. induction ns as [|n ns IH]; intros k j Hj.
  - rewrite tagged_from_nil. cbn [contrib fst snd]. destruct (Nat.eqb k j); reflexivity.
  - rewrite tagged_from_cons. cbn [contrib fst snd].
    destruct (Nat.eqb_spec k j) as [->|_]; [lia|]. rewrite IH by lia. reflexivity.
Qed.

Lemma contrib_tagged : forall D ns k i, (i < length ns)%nat ->
  contrib (k + i) (tagged_from k ns D) = nthz ns i mod D.
Proof.
  intros D ns. induction ns as [|n ns IH]; intros k i Hi; cbn [length] in Hi; [lia|].
  rewrite tagged_from_cons. cbn [contrib fst snd]. destruct i as [|i].
  - rewrite Nat.add_0_r. rewrite Nat.eqb_refl. rewrite contrib_tagged_lt by lia.
    unfold nthz. cbn [nth]. lia.
  - destruct (Nat.eqb_spec k (k + S i)) as [He|_]; [lia|].
    replace (k + S i)%nat with (S k + i)%nat by lia. rewrite IH by lia.
    unfold nthz. cbn [nth]. lia.
Qed.

(* ------------------------------------------------------------------ the located groups *)
Lemma locate_concat : forall ns D, concat (locate_groups ns D) = sort_desc (tagged ns D).
Proof. intros ns D. unfold locate_groups. apply concat_runs. Qed.

Lemma locate_in : forall ns D p, In p (concat (locate_groups ns D)) <-> In p (tagged_from 0 ns D).
Proof. intros ns D p. rewrite locate_concat. rewrite in_sort. rewrite tagged_from_0. reflexivity. Qed.

Lemma locate_good : forall ns D, 0 < D -> good_groups D (locate_groups ns D).
Proof.
  intros ns D HD. unfold locate_groups. apply runs_good; [apply desc_sort|].
  intros p Hp. apply (proj1 (in_sort p _)) in Hp. rewrite tagged_from_0 in Hp.
  destruct (tagged_props D ns 0%nat p HD Hp) as (H1 & _). lia.
Qed.

Lemma locate_nonempty : forall ns D, locate_groups ns D <> [].
Proof.
  intros ns D He. pose proof (tagged_has_d D ns 0%nat) as Hin.
  apply locate_in in Hin. rewrite He in Hin. exact Hin.
Qed.

Lemma locate_tele : forall ns D, 0 < D -> tele_ok (length ns) (locate_groups ns D).
Proof.
  intros ns D HD. apply (good_tele (length ns) (locate_groups ns D) D).
  - apply locate_good, HD.
  - apply locate_nonempty.
  - intros p Hp. apply locate_in in Hp. destruct (tagged_props D ns 0%nat p HD Hp) as (H1 & _). lia.
  - exists (0, (0 + length ns)%nat). split; [|reflexivity]. apply locate_in. apply tagged_has_d.
  - intros p Hp Hs. apply locate_in in Hp. destruct (tagged_props D ns 0%nat p HD Hp) as (_ & _ & H3).
    apply H3. exact Hs.
Qed.

Lemma nth_map_div : forall D ns i, nth i (map (fun n => n / D) ns) 0 = nth i ns 0 / D.
Proof.
  intros D ns i. change 0 with ((fun n => n / D) 0) at 1. apply map_nth.
Qed.

(* ------------------------------------------------------------------ (1) *)
Theorem locate_barycentric : forall (ns : list Z) (D : Z), 0 < D ->
  let s := locate_z ns D in let ws := locate_weights ns D in let vs := vertex_range s in
  length ws = length vs /\ Forall (fun w => 0 < w) ws /\ zsum ws = D /\
  forall i, (i < length ns)%nat -> nthz ns i = comb_coord ws vs i.
Proof.
  intros ns D HD s ws vs. subst s ws vs.
  unfold vertex_range, locate_z, locate_weights. cbn [fst snd]. rewrite map_length.
  pose proof (locate_tele ns D HD) as Ht.
  split; [|split; [|split]].
  - rewrite length_weights_from, length_vertices_from. rewrite !map_length. reflexivity.
  - apply weights_pos. apply locate_good, HD.
  - apply (weights_sum (length ns)). exact Ht.
  - intros i Hi. rewrite (telescope (length ns) i _ Ht) by (rewrite map_length; exact Hi).
    rewrite locate_concat, contrib_sort, tagged_from_0.
    change i with (0 + i)%nat at 3. rewrite contrib_tagged by exact Hi.
    unfold nthz. rewrite nth_map_div. pose proof (Z.div_mod (nth i ns 0) D). lia.
Qed.

Print Assumptions locate_barycentric.

(* ------------------------------------------------------------------ (2) validity *)
Lemma ins_nat_comm : forall x y l, ins_nat x (ins_nat y l) = ins_nat y (ins_nat x l).
Proof.
  intros x y l. induction l as [|z r IH].
  - cbn [ins_nat]. destruct (Nat.leb_spec x y); destruct (Nat.leb_spec y x);
      try reflexivity; try lia. assert (x = y) by lia. subst. reflexivity.
  - cbn [ins_nat]. destruct (Nat.leb_spec x z); destruct (Nat.leb_spec y z); cbn [ins_nat];
      repeat match goal with |- context [Nat.leb ?a ?b] => destruct (Nat.leb_spec a b) end;
      try lia; try reflexivity.
    + assert (x = y) by lia. subst. reflexivity.
    + rewrite IH. reflexivity.
Qed.

Lemma sort_nat_cons : forall x l, sort_nat (x :: l) = ins_nat x (sort_nat l).
Proof. reflexivity. Qed.

Lemma sort_nat_perm : forall l l', Permutation l l' -> sort_nat l = sort_nat l'.
Proof.
  intros l l' H. induction H as [| x l l' H IH | x y l | l l' l'' H1 IH1 H2 IH2].
  - reflexivity.
  - rewrite !sort_nat_cons, IH. reflexivity.
  - rewrite !sort_nat_cons. apply ins_nat_comm.
  - rewrite IH1. exact IH2.
Qed.

Lemma sort_nat_seq : forall n k, sort_nat (seq k n) = seq k n.
Proof.
  induction n as [|n IH]; intros k; [reflexivity|].
  cbn [seq]. rewrite sort_nat_cons, IH. destruct n as [|n]; [reflexivity|].
  cbn [seq ins_nat]. destruct (Nat.leb_spec k (S k)); [reflexivity | lia].
Qed.

Lemma map_snd_tagged_from : forall D ns k, map snd (tagged_from k ns D) = seq k (S (length ns)).
Proof.
  intros D ns. induction ns as [|n ns IH]; intros k; [reflexivity|].
  rewrite tagged_from_cons. cbn [map snd length]. rewrite IH. reflexivity.
Qed.

Lemma locate_indices_perm : forall ns D,
  Permutation (concat (map (map snd) (locate_groups ns D))) (seq 0 (S (length ns))).
Proof.
  intros ns D. rewrite <- concat_map, locate_concat, tagged_from_0.
  rewrite <- (map_snd_tagged_from D ns 0). apply Permutation_map, perm_sort.
Qed.

Lemma good_parts_nonempty : forall gs prev, good_groups prev gs ->
  forallb nonempty (map (map snd) gs) = true.
Proof.
  induction gs as [|g gs IH]; intros prev H; [reflexivity|].
  cbn [good_groups] in H. destruct H as (Hne & _ & _ & Hg).
  cbn [map forallb]. rewrite (IH _ Hg). destruct g; [exfalso; apply Hne; reflexivity | reflexivity].
Qed.

Lemma tele_last_d : forall d gs, tele_ok d gs -> In d (map snd (concat gs)) ->
  In d (last (map (map snd) gs) []).
Proof.
  intros d gs H. induction H as [g Hu H0 | g g' r Hu Hd Ht IH]; intros Hin.
  - cbn [concat] in Hin. rewrite app_nil_r in Hin. exact Hin.
  - change (last (map (map snd) (g :: g' :: r)) []) with (last (map (map snd) (g' :: r)) []).
    apply IH. change (concat (g :: g' :: r)) with (g ++ concat (g' :: r)) in Hin.
    rewrite map_app in Hin. apply in_app_or in Hin. destruct Hin as [Hin|Hin]; [contradiction|exact Hin].
Qed.

Lemma locate_d_last : forall ns D, 0 < D ->
  In (length ns) (last (map (map snd) (locate_groups ns D)) []).
Proof.
  intros ns D HD. apply tele_last_d; [apply locate_tele, HD|].
  apply in_map_iff. exists (0, (0 + length ns)%nat). split; [reflexivity|].
  apply locate_in, tagged_has_d.
Qed.

Theorem locate_valid : forall ns D, 0 < D -> valid_simplex (locate_z ns D) = true.
Proof.
  intros ns D HD. unfold valid_simplex, locate_z, valid_opart. cbn [fst snd]. rewrite map_length.
  apply andb_true_iff; split; [apply andb_true_iff; split; [apply andb_true_iff; split|]|].
  - apply (good_parts_nonempty _ D (locate_good ns D HD)).
  - pose proof (locate_nonempty ns D) as Hne.
    destruct (locate_groups ns D); [exfalso; apply Hne; reflexivity|reflexivity].
  - unfold memn. apply existsb_exists. exists (length ns).
    split; [apply locate_d_last, HD | apply Nat.eqb_refl].
  - destruct (list_eq_dec Nat.eq_dec _ _) as [_|Hn]; [reflexivity|].
    exfalso. apply Hn. rewrite (sort_nat_perm _ _ (locate_indices_perm ns D)). apply sort_nat_seq.
Qed.

Print Assumptions locate_valid.

(* ------------------------------------------------------------------ (3) uniqueness *)
(* sum over the positions k of  (occurrences of i in part k) * (sum of the weights after k) *)
Fixpoint after (i : nat) (ws : list Z) (ps : opart) : Z :=
  match ws, ps with
  | w :: ws', p :: ps' => cnt i p * zsum ws' + after i ws' ps'
  | _, _ => 0
  end.

Lemma after_cons : forall i w ws p ps, after i (w :: ws) (p :: ps) = cnt i p * zsum ws + after i ws ps.
Proof. reflexivity. Qed.

Lemma zsum_cons : forall w ws, zsum (w :: ws) = w + zsum ws.
Proof. reflexivity. Qed.

(* d occurs in no part but (possibly) the last one *)
Inductive dlast (d : nat) : opart -> Prop :=
| dlast_one : forall p, dlast d [p]
| dlast_cons : forall p p' r, ~ In d p -> dlast d (p' :: r) -> dlast d (p :: p' :: r).

Lemma comb_general : forall d i ps, dlast d ps -> forall ws v, length ws = length ps ->
  (i < length v)%nat ->
  comb_coord ws (vertices_from d v ps) i = zsum ws * nthz v i + after i ws ps.
Proof.
  intros d i ps H. induction H as [p | p p' r Hd Hr IH]; intros ws v Hl Hi.
  - destruct ws as [|w [|w' ws]]; cbn [length] in Hl; try discriminate.
    cbn [vertices_from]. rewrite comb_coord_cons, comb_coord_nil, after_cons, !zsum_cons.
    cbn [zsum fold_right after]. ring.
  - destruct ws as [|w ws]; [discriminate|].
    cbn [length] in Hl. injection Hl as Hl.
    change (vertices_from d v (p :: p' :: r))
      with (v :: vertices_from d (upd_part d v p) (p' :: r)).
    rewrite comb_coord_cons.
    rewrite (IH ws (upd_part d v p)) by (try rewrite length_upd_part; assumption).
    unfold nthz. rewrite nth_upd_part by assumption.
    rewrite after_cons, zsum_cons. ring.
Qed.

Lemma NoDup_app_inv : forall (l1 l2 : list nat), NoDup (l1 ++ l2) ->
  NoDup l1 /\ NoDup l2 /\ (forall x, In x l1 -> In x l2 -> False).
Proof.
  induction l1 as [|a l1 IH]; intros l2 H.
  - split; [constructor|]. split; [exact H|]. intros x [].
  - cbn [app] in H. inversion H as [|a' l' Hna Hnd]; subst.
    destruct (IH l2 Hnd) as (H1 & H2 & H3). split; [|split; [exact H2|]].
    + constructor; [|exact H1]. intros Hin. apply Hna. apply in_or_app. left. exact Hin.
    + intros x [<-|Hx] Hx2.
      * apply Hna. apply in_or_app. right. exact Hx2.
      * apply (H3 x Hx Hx2).
Qed.

Lemma in_nth_concat : forall (ps : opart) q x, In x (nth q ps []) -> In x (concat ps).
Proof.
  induction ps as [|p ps IH]; intros q x H.
  - destruct q; destruct H.
  - cbn [concat]. apply in_or_app. destruct q as [|q]; [left; exact H | right; apply (IH q x H)].
Qed.

Lemma concat_in_nth : forall (ps : opart) x, In x (concat ps) -> exists q, In x (nth q ps []).
Proof.
  induction ps as [|p ps IH]; intros x H; [destruct H|].
  cbn [concat] in H. apply in_app_or in H. destruct H as [H|H].
  - exists 0%nat. exact H.
  - destruct (IH x H) as (q & Hq). exists (S q). exact Hq.
Qed.

Lemma nth_in_lt : forall (ps : opart) q x, In x (nth q ps []) -> (q < length ps)%nat.
Proof.
  intros ps q x H. destruct (Nat.lt_ge_cases q (length ps)) as [Hlt|Hge]; [exact Hlt|].
  rewrite nth_overflow in H by exact Hge. destruct H.
Qed.

Lemma last_nth : forall (ps : opart), last ps [] = nth (pred (length ps)) ps [].
Proof.
  induction ps as [|p ps IH]; [reflexivity|].
  destruct ps as [|p' ps]; [reflexivity|].
  change (last (p :: p' :: ps) []) with (last (p' :: ps) []). rewrite IH. reflexivity.
Qed.

Lemma position_unique : forall (ps : opart), NoDup (concat ps) -> forall a b x,
  In x (nth a ps []) -> In x (nth b ps []) -> a = b.
Proof.
  induction ps as [|p ps IH]; intros Hnd a b x Ha Hb.
  - destruct a; destruct Ha.
  - cbn [concat] in Hnd. destruct (NoDup_app_inv _ _ Hnd) as (_ & Hnd' & Hdis).
    destruct a as [|a], b as [|b]; cbn [nth] in Ha, Hb.
    + reflexivity.
    + exfalso. apply (Hdis x Ha). apply (in_nth_concat ps b x Hb).
    + exfalso. apply (Hdis x Hb). apply (in_nth_concat ps a x Ha).
    + f_equal. apply (IH Hnd' a b x Ha Hb).
Qed.

Lemma dlast_of_nodup : forall d (ps : opart), ps <> [] -> NoDup (concat ps) -> In d (last ps []) ->
  dlast d ps.
Proof.
  intros d ps. induction ps as [|p ps IH]; intros Hne Hnd Hin; [exfalso; apply Hne; reflexivity|].
  destruct ps as [|p' r]; [apply dlast_one|].
  cbn [concat] in Hnd. destruct (NoDup_app_inv _ _ Hnd) as (_ & Hnd' & Hdis).
  change (last (p :: p' :: r) []) with (last (p' :: r) []) in Hin.
  apply dlast_cons.
  - intros Hp. apply (Hdis d Hp). rewrite last_nth in Hin. apply (in_nth_concat _ _ _ Hin).
  - apply IH; [discriminate | exact Hnd' | exact Hin].
Qed.

Lemma cnt_notin : forall i p, ~ In i p -> cnt i p = 0.
Proof.
  intros i p. induction p as [|j p IH]; intros H; cbn [cnt]; [reflexivity|].
  destruct (Nat.eqb_spec j i) as [->|_]; [exfalso; apply H; left; reflexivity|].
  rewrite IH; [reflexivity|]. intros Hin. apply H. right. exact Hin.
Qed.

Lemma cnt_nodup_in : forall i p, NoDup p -> In i p -> cnt i p = 1.
Proof.
  intros i p. induction p as [|j p IH]; intros Hnd Hin; [destruct Hin|].
  inversion Hnd as [|j' p' Hnj Hnd']; subst. cbn [cnt].
  destruct (Nat.eqb_spec j i) as [->|Hne].
  - rewrite cnt_notin by exact Hnj. reflexivity.
  - destruct Hin as [Heq|Hin]; [contradiction|]. rewrite (IH Hnd' Hin). reflexivity.
Qed.

Lemma after_notin : forall i (ps : opart) ws, ~ In i (concat ps) -> after i ws ps = 0.
Proof.
  intros i ps. induction ps as [|p ps IH]; intros ws H; destruct ws as [|w ws]; try reflexivity.
  rewrite after_cons. cbn [concat] in H.
  rewrite cnt_notin by (intros Hin; apply H; apply in_or_app; left; exact Hin).
  rewrite IH by (intros Hin; apply H; apply in_or_app; right; exact Hin). reflexivity.
Qed.

Lemma after_at : forall i (ps : opart), NoDup (concat ps) -> forall ws q, length ws = length ps ->
  In i (nth q ps []) -> after i ws ps = zsum (skipn (S q) ws).
Proof.
  intros i ps. induction ps as [|p ps IH]; intros Hnd ws q Hl Hin.
  - destruct q; destruct Hin.
  - destruct ws as [|w ws]; [discriminate|]. cbn [length] in Hl. injection Hl as Hl.
    cbn [concat] in Hnd. destruct (NoDup_app_inv _ _ Hnd) as (Hndp & Hnd' & Hdis).
    rewrite after_cons. destruct q as [|q]; cbn [nth] in Hin.
    + rewrite (cnt_nodup_in i p Hndp Hin).
      rewrite after_notin by (intros Hc; apply (Hdis i Hin Hc)).
      cbn [skipn]. ring.
    + pose proof (in_nth_concat ps q i Hin) as Hc.
      rewrite cnt_notin by (intros Hp; apply (Hdis i Hp Hc)).
      rewrite (IH Hnd' ws q Hl Hin). cbn [skipn]. ring.
Qed.

(* tail sums of strictly positive weights *)
Lemma skip_step : forall ws, Forall (fun w => 0 < w) ws -> forall m,
  zsum (skipn (S m) ws) <= zsum (skipn m ws) /\
  ((m < length ws)%nat -> zsum (skipn (S m) ws) < zsum (skipn m ws)).
Proof.
  intros ws H. induction H as [|w ws Hw Hws IH]; intros m.
  - rewrite !skipn_nil. cbn [length]. split; [lia|]. intros Hm. lia.
  - destruct m as [|m].
    + cbn [skipn]. rewrite zsum_cons. cbn [length]. split; lia.
    + change (skipn (S (S m)) (w :: ws)) with (skipn (S m) ws).
      change (skipn (S m) (w :: ws)) with (skipn m ws).
      destruct (IH m) as [H1 H2]. cbn [length]. split; [exact H1|]. intros Hm. apply H2. lia.
Qed.

Lemma skip_mono : forall ws, Forall (fun w => 0 < w) ws -> forall a b, (a <= b)%nat ->
  zsum (skipn b ws) <= zsum (skipn a ws).
Proof.
  intros ws H a b Hab. induction Hab as [|b Hab IH]; [lia|].
  destruct (skip_step ws H b) as [H1 _]. lia.
Qed.

Lemma skip_lt : forall ws, Forall (fun w => 0 < w) ws -> forall a b, (a < b)%nat ->
  (a < length ws)%nat -> zsum (skipn b ws) < zsum (skipn a ws).
Proof.
  intros ws H a b Hab Ha. pose proof (skip_mono ws H (S a) b Hab) as H1.
  destruct (skip_step ws H a) as [_ H2]. specialize (H2 Ha). lia.
Qed.

Lemma skip_nonneg : forall ws, Forall (fun w => 0 < w) ws -> forall q, 0 <= zsum (skipn q ws).
Proof.
  intros ws H q. destruct (Nat.le_ge_cases q (length ws)) as [Hq|Hq].
  - pose proof (skip_mono ws H q (length ws) Hq) as H1. rewrite skipn_all in H1. cbn in H1. exact H1.
  - rewrite skipn_all2 by exact Hq. cbn. lia.
Qed.

Lemma nth_map_default : forall (f : Z -> Z) l i, f 0 = 0 -> nth i (map f l) 0 = f (nth i l 0).
Proof.
  intros f l i H. rewrite <- (map_nth f l 0 i). rewrite H. reflexivity.
Qed.

Lemma nth_fracs_lt : forall ns D i, (i < length ns)%nat -> nth i (fracs ns D) 0 = nth i ns 0 mod D.
Proof.
  intros ns D i Hi. unfold fracs. rewrite app_nth1 by (rewrite map_length; exact Hi).
  apply (nth_map_default (fun n => n mod D)). reflexivity.
Qed.

Lemma nth_fracs_d : forall ns D, nth (length ns) (fracs ns D) 0 = 0.
Proof.
  intros ns D. unfold fracs. rewrite app_nth2 by (rewrite map_length; lia).
  rewrite map_length, Nat.sub_diag. reflexivity.
Qed.

Theorem locate_unique : forall (ns : list Z) (D : Z) (v : vertex) (ps : opart) (ws : list Z),
  let d := length ns in
  let s := (v, ps) in
  length v = d -> ps <> [] -> Forall (fun p => p <> []) ps -> NoDup (concat ps) ->
  (forall i, In i (concat ps) <-> (i <= d)%nat) -> In d (last ps []) ->
  length ws = length ps -> Forall (fun w => 0 < w) ws -> zsum ws = D ->
  (forall i, (i < d)%nat -> nthz ns i = comb_coord ws (vertex_range s) i) ->
  v = map (fun n => n / D) ns /\
  forall i j pi pj, (i <= d)%nat -> (j <= d)%nat -> In i (nth pi ps []) -> In j (nth pj ps []) ->
    ((pi <= pj)%nat <-> nth j (fracs ns D) 0 <= nth i (fracs ns D) 0).
Proof.
  intros ns D v ps ws d s Hv Hne _ Hnd Hcov Hdl Hl Hpos Hsum Hbary.
  subst s. unfold vertex_range in Hbary. cbn [fst snd] in Hbary. rewrite Hv in Hbary.
  pose proof (dlast_of_nodup d ps Hne Hnd Hdl) as Hdlast.
  assert (Hlen : (0 < length ws)%nat).
  { rewrite Hl. destruct ps; [exfalso; apply Hne; reflexivity | cbn [length]; lia]. }
  (* tail sums are in [0, D) *)
  assert (HT : forall q, 0 <= zsum (skipn (S q) ws) < D).
  { intros q. split; [apply skip_nonneg, Hpos|].
    rewrite <- Hsum. change ws with (skipn 0 ws) at 2. apply skip_lt; [exact Hpos | lia | exact Hlen]. }
  (* coordinate i < d: n_i = D * v_i + T(position of i) *)
  assert (HF : forall i q, (i < d)%nat -> In i (nth q ps []) ->
               nthz ns i = D * nthz v i + zsum (skipn (S q) ws)).
  { intros i q Hi Hq. rewrite (Hbary i Hi).
    rewrite (comb_general d i ps Hdlast ws v Hl) by (rewrite Hv; exact Hi).
    rewrite (after_at i ps Hnd ws q Hl Hq). rewrite Hsum. reflexivity. }
  (* the fractional parts are the tail sums *)
  assert (HG : forall i q, (i <= d)%nat -> In i (nth q ps []) ->
               nth i (fracs ns D) 0 = zsum (skipn (S q) ws)).
  { intros i q Hi Hq. destruct (Nat.eq_dec i d) as [->|Hne'].
    - unfold d at 1. rewrite nth_fracs_d.
      rewrite last_nth in Hdl. pose proof (position_unique ps Hnd _ _ _ Hq Hdl) as Hqe.
      rewrite Hqe. replace (S (pred (length ps))) with (length ws) by lia.
      rewrite skipn_all. reflexivity.
    - assert (Hi' : (i < d)%nat) by lia.
      rewrite nth_fracs_lt by exact Hi'. pose proof (HF i q Hi' Hq) as HFi. unfold nthz in HFi.
      symmetry. apply (Z.mod_unique_pos _ _ (nth i v 0)); [apply HT | exact HFi]. }
  split.
  - apply (nth_ext _ _ 0 0); [rewrite map_length; exact Hv|].
    intros i Hi. rewrite Hv in Hi. rewrite nth_map_div.
    assert (Hin : In i (concat ps)) by (apply Hcov; lia).
    destruct (concat_in_nth ps i Hin) as (q & Hq).
    pose proof (HF i q Hi Hq) as HFi. unfold nthz in HFi.
    apply (Z.div_unique_pos _ _ _ (zsum (skipn (S q) ws))); [apply HT | exact HFi].
  - intros i j pi pj Hi Hj Hpi Hpj.
    rewrite (HG i pi Hi Hpi), (HG j pj Hj Hpj).
    pose proof (nth_in_lt ps pi i Hpi) as Hpil. pose proof (nth_in_lt ps pj j Hpj) as Hpjl.
    split.
    + intros Hle. apply skip_mono; [exact Hpos | lia].
    + intros Hle. destruct (Nat.le_gt_cases pi pj) as [Hok|Hgt]; [exact Hok|].
      exfalso. assert (Hlt : zsum (skipn (S pi) ws) < zsum (skipn (S pj) ws)).
      { apply skip_lt; [exact Hpos | lia | lia]. }
      lia.
Qed.

Print Assumptions locate_unique.

(* non-vacuity of the hypotheses of (3): the point (5/4, 3/4, -1/4, 3/4) *)
Example locate_unique_nonvacuous :
  let ns := [5; 3; -1; 3] in let D := 4 in
  let v := [1; 0; -1; 0] in let ps := [[1; 2; 3]; [0]; [4]]%nat in let ws := [1; 2; 1] in
  let d := length ns in let s := (v, ps) in
  (length v = d /\ ps <> [] /\ Forall (fun p => p <> []) ps /\ NoDup (concat ps) /\
   (forall i, In i (concat ps) <-> (i <= d)%nat) /\ In d (last ps []) /\
   length ws = length ps /\ Forall (fun w => 0 < w) ws /\ zsum ws = D /\
   (forall i, (i < d)%nat -> nthz ns i = comb_coord ws (vertex_range s) i)) /\
  s = locate_z ns D /\ ws = locate_weights ns D.
Proof.
  cbv zeta. split; [|split; reflexivity].
  split; [reflexivity|]. split; [discriminate|].
  split; [repeat constructor; discriminate|].
  split; [repeat (constructor; [cbn; lia|]); constructor|].
  split; [intros i; cbn; lia|].
  split; [cbn; lia|].
  split; [reflexivity|].
  split; [repeat constructor|].
  split; [reflexivity|].
  intros i Hi. cbn [length] in Hi. destruct i as [|[|[|[|i]]]]; try lia; reflexivity.
Qed.

(* ------------------------------------------------------------------ (3'), the ordered partition itself *)
(* all the hypotheses of locate_unique: ws witnesses that ns/D is in the relative interior of s *)
Definition interior_witness (ns : list Z) (D : Z) (s : simplex) (ws : list Z) : Prop :=
  let d := length ns in
  length (fst s) = d /\ snd s <> [] /\ Forall (fun p => p <> []) (snd s) /\ NoDup (concat (snd s)) /\
  (forall i, In i (concat (snd s)) <-> (i <= d)%nat) /\ In d (last (snd s) []) /\
  length ws = length (snd s) /\ Forall (fun w => 0 < w) ws /\ zsum ws = D /\
  (forall i, (i < d)%nat -> nthz ns i = comb_coord ws (vertex_range s) i).

(* positions in ps are ordered like the values of f, decreasingly *)
Definition ordered (f : nat -> Z) (ps : opart) : Prop :=
  forall i j pi pj, In i (nth pi ps []) -> In j (nth pj ps []) -> ((pi <= pj)%nat <-> f j <= f i).

Lemma ordered_tail : forall f p r, ordered f (p :: r) -> ordered f r.
Proof.
  intros f p r H i j pi pj Hi Hj. destruct (H i j (S pi) (S pj) Hi Hj) as [H1 H2].
  split; intros Hx; [apply H1; lia | specialize (H2 Hx); lia].
Qed.

Lemma first_part_sub : forall f p r p' r',
  ordered f (p :: r) -> ordered f (p' :: r') -> p' <> [] ->
  (forall i, In i (concat (p :: r)) <-> In i (concat (p' :: r'))) ->
  forall i, In i p -> In i p'.
Proof.
  intros f p r p' r' Ho Ho' Hne Heq i Hi.
  destruct p' as [|j p'']; [exfalso; apply Hne; reflexivity|].
  assert (Hj' : In j (nth 0 ((j :: p'') :: r') [])) by (left; reflexivity).
  assert (Hjc : In j (concat (p :: r))).
  { apply Heq. apply (in_nth_concat _ 0%nat _ Hj'). }
  destruct (concat_in_nth _ _ Hjc) as (qj & Hqj).
  assert (Hic : In i (concat ((j :: p'') :: r'))).
  { apply Heq. apply (in_nth_concat (p :: r) 0%nat i Hi). }
  destruct (concat_in_nth _ _ Hic) as (qi & Hqi).
  destruct (Ho i j 0%nat qj Hi Hqj) as [H1 _]. specialize (H1 (Nat.le_0_l qj)).
  destruct (Ho' i j qi 0%nat Hqi Hj') as [_ H2]. specialize (H2 H1).
  assert (Hz : qi = 0%nat) by lia. subst qi. exact Hqi.
Qed.

Lemma chain_unique : forall f (ps ps' : opart),
  Forall (fun p => p <> []) ps -> Forall (fun p => p <> []) ps' ->
  NoDup (concat ps) -> NoDup (concat ps') ->
  (forall i, In i (concat ps) <-> In i (concat ps')) ->
  ordered f ps -> ordered f ps' -> map sort_nat ps = map sort_nat ps'.
Proof.
  intros f ps. induction ps as [|p r IH]; intros ps' Hne Hne' Hnd Hnd' Heq Ho Ho'.
  - destruct ps' as [|p' r']; [reflexivity|]. exfalso.
    inversion Hne' as [|p0 r0 Hp' Hr']; subst. destruct p' as [|x p']; [apply Hp'; reflexivity|].
    assert (Hx : In x (concat [])) by (apply Heq; cbn [concat app]; left; reflexivity).
    destruct Hx.
  - destruct ps' as [|p' r'].
    + exfalso. inversion Hne as [|p0 r0 Hp Hr]; subst. destruct p as [|x p]; [apply Hp; reflexivity|].
      assert (Hx : In x (concat [])) by (apply Heq; cbn [concat app]; left; reflexivity).
      destruct Hx.
    + inversion Hne as [|p0 r0 Hp Hr]; subst. inversion Hne' as [|p0 r0 Hp' Hr']; subst.
      cbn [concat] in Hnd, Hnd'.
      destruct (NoDup_app_inv _ _ Hnd) as (Hndp & Hndr & Hdis).
      destruct (NoDup_app_inv _ _ Hnd') as (Hndp' & Hndr' & Hdis').
      assert (Hpp : forall i, In i p <-> In i p').
      { intros i. split.
        - apply (first_part_sub f p r p' r' Ho Ho' Hp' Heq).
        - apply (first_part_sub f p' r' p r Ho' Ho Hp). intros k. symmetry. apply Heq. }
      cbn [map]. f_equal.
      * apply sort_nat_perm. apply NoDup_Permutation; assumption.
      * apply IH; try assumption.
        -- intros i. split; intros Hi.
           ++ assert (Hc : In i (concat (p' :: r'))).
              { apply Heq. cbn [concat]. apply in_or_app. right. exact Hi. }
              cbn [concat] in Hc. apply in_app_or in Hc. destruct Hc as [Hc|Hc]; [|exact Hc].
              exfalso. apply (Hdis i); [apply Hpp; exact Hc | exact Hi].
           ++ assert (Hc : In i (concat (p :: r))).
              { apply Heq. cbn [concat]. apply in_or_app. right. exact Hi. }
              cbn [concat] in Hc. apply in_app_or in Hc. destruct Hc as [Hc|Hc]; [|exact Hc].
              exfalso. apply (Hdis' i); [apply Hpp; exact Hc | exact Hi].
        -- apply (ordered_tail f p r Ho).
        -- apply (ordered_tail f p' r' Ho').
Qed.

Lemma good_parts_nonempty_prop : forall gs prev, good_groups prev gs ->
  Forall (fun p : part => p <> []) (map (map snd) gs).
Proof.
  induction gs as [|g gs IH]; intros prev H; [constructor|].
  cbn [good_groups] in H. destruct H as (Hne & _ & _ & Hg). cbn [map].
  constructor; [|apply (IH _ Hg)].
  destruct g; [exfalso; apply Hne; reflexivity | discriminate].
Qed.

(* the located simplex with its weights is such a witness *)
Theorem locate_interior_witness : forall ns D, 0 < D ->
  interior_witness ns D (locate_z ns D) (locate_weights ns D).
Proof.
  intros ns D HD. destruct (locate_barycentric ns D HD) as (Hlen & Hpos & Hsum & Hb).
  pose proof (locate_indices_perm ns D) as Hperm.
  unfold interior_witness. cbn zeta. unfold locate_z at 1 2 3 4 5 6. cbn [fst snd].
  split; [apply map_length|].
  split. { intros He. apply map_eq_nil in He. apply (locate_nonempty ns D He). }
  split; [apply (good_parts_nonempty_prop _ D (locate_good ns D HD))|].
  split. { apply (Permutation_NoDup (Permutation_sym Hperm)). apply seq_NoDup. }
  split.
  { intros i. split; intros Hi.
    - apply (Permutation_in _ Hperm) in Hi. apply in_seq in Hi. lia.
    - apply (Permutation_in _ (Permutation_sym Hperm)). apply in_seq. lia. }
  split; [apply locate_d_last, HD|].
  split.
  { rewrite Hlen. unfold vertex_range, locate_z. cbn [fst snd]. apply length_vertices_from. }
  split; [exact Hpos|]. split; [exact Hsum|].
  intros i Hi. apply Hb. exact Hi.
Qed.

Lemma witness_ordered : forall ns D s ws, interior_witness ns D s ws ->
  fst s = map (fun n => n / D) ns /\ ordered (fun i => nth i (fracs ns D) 0) (snd s).
Proof.
  intros ns D [v ps] ws H. unfold interior_witness in H. cbn zeta in H. cbn [fst snd] in H.
  destruct H as (H1 & H2 & H3 & H4 & H5 & H6 & H7 & H8 & H9 & H10).
  destruct (locate_unique ns D v ps ws H1 H2 H3 H4 H5 H6 H7 H8 H9 H10) as [Hv Ho].
  cbn [fst snd]. split; [exact Hv|].
  intros i j pi pj Hi Hj. apply Ho; try assumption.
  - apply H5. apply (in_nth_concat ps pi i Hi).
  - apply H5. apply (in_nth_concat ps pj j Hj).
Qed.

Lemma zsum_nonneg : forall ws, Forall (fun w => 0 < w) ws -> 0 <= zsum ws.
Proof.
  intros ws H. induction H as [|w ws Hw Hws IH]; [cbn; lia|]. rewrite zsum_cons. lia.
Qed.

Lemma witness_D_pos : forall ns D s ws, interior_witness ns D s ws -> 0 < D.
Proof.
  intros ns D s ws H. unfold interior_witness in H. cbn zeta in H.
  destruct H as (_ & H2 & _ & _ & _ & _ & H7 & H8 & H9 & _).
  destruct ws as [|w ws].
  - exfalso. apply H2. destruct (snd s); [reflexivity | discriminate].
  - inversion H8 as [|w0 ws0 Hw Hws]; subst. rewrite zsum_cons.
    pose proof (zsum_nonneg ws Hws). lia.
Qed.

(* every simplex having the point in its relative interior is the located one, up to the order inside the parts *)
Theorem locate_unique_parts : forall ns D s ws, interior_witness ns D s ws ->
  fst s = fst (locate_z ns D) /\ map sort_nat (snd s) = map sort_nat (snd (locate_z ns D)).
Proof.
  intros ns D s ws H. pose proof (witness_D_pos ns D s ws H) as HD.
  pose proof (locate_interior_witness ns D HD) as H'.
  destruct (witness_ordered ns D s ws H) as [Hv Ho].
  destruct (witness_ordered ns D _ _ H') as [_ Ho'].
  split; [exact Hv|].
  unfold interior_witness in H, H'. cbn zeta in H, H'.
  destruct H as (_ & _ & H3 & H4 & H5 & _). destruct H' as (_ & _ & H3' & H4' & H5' & _).
  apply (chain_unique (fun i => nth i (fracs ns D) 0)); try assumption.
  intros i. rewrite H5, H5'. reflexivity.
Qed.

Print Assumptions locate_unique_parts.

(* ------------------------------------------------------------------ the parts of locate_z are sorted
   (the model's sort is stable; std::sort is not, hence the statements above are up to sort_nat) *)
Definition lex_lt (a b : Z * nat) : Prop := fst b < fst a \/ (fst b = fst a /\ (snd a < snd b)%nat).

Fixpoint lexsorted (L : group) : Prop :=
  match L with
  | [] => True
  | a :: r => (forall b, In b r -> lex_lt a b) /\ lexsorted r
  end.

Lemma lexsorted_ins : forall a L, lexsorted L -> (forall b, In b L -> (snd a < snd b)%nat) ->
  lexsorted (ins_desc a L).
Proof.
  intros a L. induction L as [|b r IH]; intros HL Ha; cbn [ins_desc].
  - cbn [lexsorted]. split; [intros c []|exact I].
  - cbn [lexsorted] in HL. destruct HL as [Hb Hr].
    destruct (Z.leb_spec (fst b) (fst a)) as [Hle|Hlt].
    + cbn [lexsorted]. split; [|split; assumption].
      intros c [<-|Hc].
      * pose proof (Ha b (or_introl eq_refl)). unfold lex_lt. lia.
      * pose proof (Ha c (or_intror Hc)). specialize (Hb c Hc). unfold lex_lt in *. lia.
    + cbn [lexsorted]. split.
      * intros c Hc. apply (Permutation_in _ (perm_ins a r)) in Hc.
        destruct Hc as [<-|Hc]; [unfold lex_lt; lia | apply Hb; exact Hc].
      * apply IH; [exact Hr|]. intros c Hc. apply Ha. right. exact Hc.
Qed.

Lemma tagged_idx : forall D ns k p, In p (tagged_from k ns D) -> (k <= snd p)%nat.
Proof.
  intros D ns. induction ns as [|n ns IH]; intros k p Hp.
  - rewrite tagged_from_nil in Hp. destruct Hp as [<-|[]]. cbn [snd]. lia.
  - rewrite tagged_from_cons in Hp. destruct Hp as [<-|Hp]; [cbn [snd]; lia|].
    specialize (IH (S k) p Hp). lia.
Qed.

Lemma lexsorted_sort_tagged : forall D ns k, lexsorted (sort_desc (tagged_from k ns D)).
Proof.
  intros D ns. induction ns as [|n ns IH]; intros k.
  - rewrite tagged_from_nil. cbn. split; [intros c []|exact I].
  - rewrite tagged_from_cons.
    change (sort_desc ((n mod D, k) :: tagged_from (S k) ns D))
      with (ins_desc (n mod D, k) (sort_desc (tagged_from (S k) ns D))).
    apply lexsorted_ins; [apply IH|].
    intros b Hb. apply (proj1 (in_sort b _)) in Hb. apply tagged_idx in Hb. cbn [snd]. lia.
Qed.

Lemma lexsorted_app : forall a b, lexsorted (a ++ b) -> lexsorted a /\ lexsorted b.
Proof.
  induction a as [|x a IH]; intros b H; [split; [exact I|exact H]|].
  cbn [app lexsorted] in H. destruct H as [Hx Hr]. destruct (IH b Hr) as [Ha Hb].
  split; [|exact Hb]. cbn [lexsorted]. split; [|exact Ha].
  intros c Hc. apply Hx. apply in_or_app. left. exact Hc.
Qed.

Lemma lexsorted_concat : forall gs, lexsorted (concat gs) -> Forall lexsorted gs.
Proof.
  induction gs as [|g gs IH]; intros H; [constructor|].
  cbn [concat] in H. destruct (lexsorted_app _ _ H) as [Hg Hr]. constructor; [exact Hg | apply IH, Hr].
Qed.

(* strictly increasing *)
Fixpoint asc (p : list nat) : Prop :=
  match p with
  | [] => True
  | a :: r => (forall b, In b r -> (a < b)%nat) /\ asc r
  end.

Lemma asc_group : forall g t, lexsorted g -> (forall p, In p g -> fst p = t) -> asc (map snd g).
Proof.
  intros g t. induction g as [|a g IH]; intros HL Hu; [exact I|].
  cbn [lexsorted] in HL. destruct HL as [Ha Hr]. cbn [map asc]. split.
  - intros b Hb. apply in_map_iff in Hb. destruct Hb as (c & <- & Hc).
    pose proof (Ha c Hc) as Hlt. pose proof (Hu a (or_introl eq_refl)). pose proof (Hu c (or_intror Hc)).
    unfold lex_lt in Hlt. lia.
  - apply IH; [exact Hr|]. intros p Hp. apply Hu. right. exact Hp.
Qed.

Lemma sort_nat_asc : forall p, asc p -> sort_nat p = p.
Proof.
  induction p as [|a r IH]; intros H; [reflexivity|].
  cbn [asc] in H. destruct H as [Ha Hr]. rewrite sort_nat_cons, (IH Hr).
  destruct r as [|b r]; [reflexivity|]. cbn [ins_nat].
  pose proof (Ha b (or_introl eq_refl)). destruct (Nat.leb_spec a b); [reflexivity|lia].
Qed.

Lemma good_uniform : forall gs prev, good_groups prev gs -> Forall uniform gs.
Proof.
  induction gs as [|g gs IH]; intros prev H; [constructor|].
  cbn [good_groups] in H. destruct H as (_ & Hu & _ & Hg). constructor; [exact Hu | apply (IH _ Hg)].
Qed.

Theorem locate_parts_sorted : forall ns D, 0 < D ->
  Forall (fun p => sort_nat p = p) (snd (locate_z ns D)).
Proof.
  intros ns D HD. unfold locate_z. cbn [snd].
  pose proof (good_uniform _ D (locate_good ns D HD)) as Hu.
  assert (Hl : Forall lexsorted (locate_groups ns D)).
  { apply lexsorted_concat. rewrite locate_concat, tagged_from_0. apply lexsorted_sort_tagged. }
  induction (locate_groups ns D) as [|g gs IH]; [constructor|].
  inversion Hu as [|g0 gs0 Hug Hugs]; subst. inversion Hl as [|g0 gs0 Hlg Hlgs]; subst.
  cbn [map]. constructor; [|apply IH; assumption].
  apply sort_nat_asc. apply (asc_group g (level_of g) Hlg Hug).
Qed.

Lemma map_fix : forall (f : part -> part) l, Forall (fun p => f p = p) l -> map f l = l.
Proof.
  intros f l H. induction H as [|p l Hp Hl IH]; [reflexivity|]. cbn [map]. rewrite Hp, IH. reflexivity.
Qed.

(* with sorted parts (the form produced by every operation of the library's representation) the simplex is unique *)
Theorem locate_unique_eq : forall ns D s ws, interior_witness ns D s ws ->
  Forall (fun p => sort_nat p = p) (snd s) -> s = locate_z ns D.
Proof.
  intros ns D s ws H Hs. pose proof (witness_D_pos ns D s ws H) as HD.
  destruct (locate_unique_parts ns D s ws H) as [Hv Hp].
  pose proof (map_fix sort_nat _ Hs) as E1.
  pose proof (map_fix sort_nat _ (locate_parts_sorted ns D HD)) as E2.
  pose proof (eq_trans (eq_sym E1) (eq_trans Hp E2)) as Hps.
  destruct s as [v ps]. destruct (locate_z ns D) as [v' ps']. cbn [fst snd] in Hv, Hps.
  rewrite Hv, Hps. reflexivity.
Qed.

Print Assumptions locate_unique_eq.

(* ------------------------------------------------------------------ link with the model's boolean specification *)
Lemma tagged_val : forall D ns k p, In p (tagged_from k ns D) ->
  (k <= snd p <= k + length ns)%nat /\ fst p = nth (snd p - k) (fracs ns D) 0.
Proof.
  intros D ns. induction ns as [|n ns IH]; intros k p Hp.
  - rewrite tagged_from_nil in Hp. destruct Hp as [<-|[]]. cbn [fst snd length].
    rewrite Nat.sub_diag. split; [lia | reflexivity].
  - rewrite tagged_from_cons in Hp. destruct Hp as [<-|Hp].
    + cbn [fst snd length]. rewrite Nat.sub_diag. split; [lia | reflexivity].
    + destruct (IH (S k) p Hp) as [Hr Hv]. cbn [length]. split; [lia|].
      replace (snd p - k)%nat with (S (snd p - S k)) by lia.
      change (fracs (n :: ns) D) with (n mod D :: fracs ns D). cbn [nth]. exact Hv.
Qed.

Lemma locate_bary_weights : forall ns D, 0 < D ->
  bary_weights ns D (locate_z ns D) = locate_weights ns D.
Proof.
  intros ns D HD. unfold bary_weights, locate_weights, locate_z. cbn [fst snd].
  rewrite map_length, map_map. f_equal. apply map_ext_in. intros g Hg.
  pose proof (locate_good ns D HD) as Hgood.
  assert (Hne : g <> []).
  { pose proof (good_parts_nonempty_prop _ D Hgood) as Hf. rewrite Forall_forall in Hf.
    intros He. apply (Hf (map snd g)); [apply in_map; exact Hg | rewrite He; reflexivity]. }
  destruct g as [|a g']; [exfalso; apply Hne; reflexivity|].
  cbn [map hd level_of].
  assert (Ha : In a (tagged_from 0 ns D)).
  { apply locate_in. apply in_concat. exists (a :: g'). split; [exact Hg | left; reflexivity]. }
  destruct (tagged_val D ns 0%nat a Ha) as [Hr Hv]. rewrite Nat.sub_0_r in Hv. rewrite Hv.
  destruct (Nat.ltb_spec (snd a) (length ns)) as [Hlt|Hge].
  - rewrite nth_fracs_lt by exact Hlt. unfold nthz. rewrite nth_map_div.
    rewrite Z.mod_eq by lia. reflexivity.
  - assert (He : snd a = length ns) by lia. rewrite He, nth_fracs_d. reflexivity.
Qed.

Theorem locate_in_rel_interior : forall ns D, 0 < D -> in_rel_interior ns D (locate_z ns D) = true.
Proof.
  intros ns D HD. unfold in_rel_interior. rewrite (locate_bary_weights ns D HD).
  destruct (locate_barycentric ns D HD) as (Hlen & Hpos & Hsum & Hb).
  apply andb_true_iff; split; [apply andb_true_iff; split; [apply andb_true_iff; split;
    [apply andb_true_iff; split|]|]|].
  - apply Nat.eqb_eq. unfold locate_z. cbn [fst]. apply map_length.
  - apply locate_valid, HD.
  - apply forallb_forall. intros w Hw. apply Z.ltb_lt. rewrite Forall_forall in Hpos. apply Hpos, Hw.
  - apply Z.eqb_eq. exact Hsum.
  - apply forallb_forall. intros i Hi. apply in_seq in Hi. apply Z.eqb_eq. apply Hb. lia.
Qed.

Print Assumptions locate_in_rel_interior.

Lemma perm_ins_nat : forall x l, Permutation (ins_nat x l) (x :: l).
Proof.
  intros x l. induction l as [|y r IH]; cbn [ins_nat]; [apply Permutation_refl|].
  destruct (Nat.leb x y); [apply Permutation_refl|].
  eapply perm_trans; [apply perm_skip, IH | apply perm_swap].
Qed.

Lemma perm_sort_nat : forall l, Permutation (sort_nat l) l.
Proof.
  induction l as [|x l IH]; [apply Permutation_refl|].
  rewrite sort_nat_cons. eapply perm_trans; [apply perm_ins_nat | apply perm_skip, IH].
Qed.

Lemma in_rel_interior_witness : forall ns D s, in_rel_interior ns D s = true ->
  interior_witness ns D s (bary_weights ns D s).
Proof.
  intros ns D [v ps] H. unfold in_rel_interior in H.
  apply andb_true_iff in H. destruct H as [H H5].
  apply andb_true_iff in H. destruct H as [H H4].
  apply andb_true_iff in H. destruct H as [H H3].
  apply andb_true_iff in H. destruct H as [H1 H2].
  cbn [fst snd] in H1. apply Nat.eqb_eq in H1.
  unfold valid_simplex, valid_opart in H2. cbn [fst snd] in H2. rewrite H1 in H2.
  apply andb_true_iff in H2. destruct H2 as [H2 V4].
  apply andb_true_iff in H2. destruct H2 as [H2 V3].
  apply andb_true_iff in H2. destruct H2 as [V1 V2].
  destruct (list_eq_dec Nat.eq_dec (sort_nat (concat ps)) (seq 0 (S (length ns)))) as [Hs|]; [|discriminate].
  assert (Hperm : Permutation (concat ps) (seq 0 (S (length ns)))).
  { rewrite <- Hs. apply Permutation_sym, perm_sort_nat. }
  unfold interior_witness. cbn zeta. cbn [fst snd].
  split; [exact H1|].
  split. { intros He. rewrite He in V2. discriminate. }
  split.
  { apply Forall_forall. intros p Hp He. rewrite forallb_forall in V1. specialize (V1 p Hp).
    rewrite He in V1. discriminate. }
  split. { apply (Permutation_NoDup (Permutation_sym Hperm)). apply seq_NoDup. }
  split.
  { intros i. split; intros Hi.
    - apply (Permutation_in _ Hperm) in Hi. apply in_seq in Hi. lia.
    - apply (Permutation_in _ (Permutation_sym Hperm)). apply in_seq. lia. }
  split.
  { unfold memn in V3. apply existsb_exists in V3. destruct V3 as (x & Hx & Hxe).
    apply Nat.eqb_eq in Hxe. rewrite Hxe. exact Hx. }
  split. { unfold bary_weights. cbn [fst snd]. rewrite length_weights_from, map_length. reflexivity. }
  split.
  { apply Forall_forall. intros w Hw. rewrite forallb_forall in H3. apply Z.ltb_lt. apply H3, Hw. }
  split; [apply Z.eqb_eq; exact H4|].
  intros i Hi. rewrite forallb_forall in H5. apply Z.eqb_eq. apply H5. apply in_seq. lia.
Qed.

(* the model's own predicate: the point is in the relative interior of exactly one simplex *)
Theorem in_rel_interior_unique : forall ns D s, in_rel_interior ns D s = true ->
  fst s = fst (locate_z ns D) /\ map sort_nat (snd s) = map sort_nat (snd (locate_z ns D)).
Proof.
  intros ns D s H. apply (locate_unique_parts ns D s _ (in_rel_interior_witness ns D s H)).
Qed.

Theorem in_rel_interior_unique_eq : forall ns D s, in_rel_interior ns D s = true ->
  Forall (fun p => sort_nat p = p) (snd s) -> s = locate_z ns D.
Proof.
  intros ns D s H Hs. apply (locate_unique_eq ns D s _ (in_rel_interior_witness ns D s H) Hs).
Qed.

Print Assumptions in_rel_interior_unique_eq.

Print Assumptions locate_interior_witness.
Print Assumptions locate_parts_sorted.
Print Assumptions in_rel_interior_unique.
