(* C20 — Coxeter / Freudenthal-Kuhn triangulations in permutahedral representation.
   Algorithm models (transcribed from src/Coxeter_triangulation/include/gudhi/Permutahedral_representation.h,
   Permutahedral_representation/{Permutahedral_representation_iterators,face_from_indices,Combination_iterator,
   Integer_combination_iterator,Ordered_set_partition_iterator}.h, Freudenthal_triangulation.h) and the
   specification (vertex sets, convex combinations).  No proofs here.

   A simplex is (vertex : list Z, ordered partition : list (list nat)) of {0..d}, d = length vertex; in the
   representation used by the library the last part contains d.
   Points are given with a common denominator: x_i = n_i / D  (ns : list Z, D > 0); every rational point has such
   a form (locate_q below converts), and all of locate_point becomes integer arithmetic. *)
From Coq Require Import ZArith QArith Qabs List Bool Arith.
Import ListNotations.
Local Open Scope Z_scope.

Definition vertex := list Z.
Definition part := list nat.
Definition opart := list part.
Definition simplex := (vertex * opart)%type.

Definition nthn (l : list nat) (i : nat) : nat := nth i l 0%nat.
Fixpoint setn (l : list nat) (i x : nat) : list nat :=
  match l, i with
  | [], _ => []
  | _ :: r, O => x :: r
  | y :: r, S j => y :: setn r j x
  end.

(* ------------------------------------------------------------------ vertices: Vertex_iterator *)
Fixpoint incr_at (v : vertex) (i : nat) : vertex :=          (* value_[i]++ *)
  match v, i with
  | [], _ => []
  | x :: r, O => (x + 1) :: r
  | x :: r, S j => x :: incr_at r j
  end.
Fixpoint decr_at (v : vertex) (i : nat) : vertex :=          (* value_[i]-- *)
  match v, i with
  | [], _ => []
  | x :: r, O => (x - 1) :: r
  | x :: r, S j => x :: decr_at r j
  end.
Definition decr_all (v : vertex) : vertex := map (fun x => x - 1) v.
(* Vertex_iterator::update_value, one index of the part:  if (i != d) value_[i]++; else all value_[j]-- *)
Definition upd_index (d : nat) (v : vertex) (i : nat) : vertex :=
  if Nat.eqb i d then decr_all v else incr_at v i.
Definition upd_part (d : nat) (v : vertex) (p : part) : vertex := fold_left (upd_index d) p v.
(* dereference, then increment = update_value with *o_it_, ++o_it_, end when o_it_ == o_end_ *)
Fixpoint vertices_from (d : nat) (v : vertex) (ps : opart) : list vertex :=
  match ps with
  | [] => []
  | p :: r => v :: vertices_from d (upd_part d v p) r
  end.
Definition vertex_range (s : simplex) : list vertex := vertices_from (length (fst s)) (fst s) (snd s).
Definition dimension (s : simplex) : nat := pred (length (snd s)).

(* std::sort of a part *)
Fixpoint ins_nat (x : nat) (l : list nat) : list nat :=
  match l with
  | [] => [x]
  | y :: r => if Nat.leb x y then x :: l else y :: ins_nat x r
  end.
Definition sort_nat (l : list nat) : list nat := fold_right ins_nat [] l.

(* ------------------------------------------------------------------ Combination_iterator(n, k) *)
(* the loop  for (; j > 0; --j) if (value_[j-1] < n_-k_+j-1) { value_[j-1]++; value_[s] = value_[j-1]+s-(j-1), s=j..k-1; return; } *)
Fixpoint comb_carry (n k : nat) (value : list nat) (j : nat) : list nat :=
  match j with
  | O => value
  | S j' => if (nthn value j' <? n - k + j')%nat
            then firstn j' value ++ map (fun t => (S (nthn value j') + t)%nat) (seq 0 (k - j'))
            else comb_carry n k value j'
  end.
Definition comb_next (n k : nat) (value : list nat) : option (list nat) :=
  if (nthn value 0 =? n - k)%nat then None
  else let j := (k - 1)%nat in
       if (nthn value j <? n - 1)%nat then Some (setn value j (S (nthn value j)))
       else Some (comb_carry n k value j).
Fixpoint comb_iter (fuel n k : nat) (value : list nat) : list (list nat) :=
  match fuel with
  | O => []
  | S f => value :: match comb_next n k value with None => [] | Some v' => comb_iter f n k v' end
  end.
(* fewer than 2^n values exist and the iteration is strictly increasing, so the fuel is never exhausted *)
Definition combinations (n k : nat) : list (list nat) :=
  if (n =? 0)%nat then [] else comb_iter (S (Nat.pow 2 n)) n k (seq 0 k).

(* ------------------------------------------------------------------ face_from_indices / Face_iterator *)
Definition slice {A} (l : list A) (a b : nat) : list A := firstn (b - a) (skipn a l).
Definition face_from_indices (s : simplex) (indices : list nat) : simplex :=
  let '(v, ps) := s in
  let d := length v in
  let k := pred (length indices) in
  let l1 := length ps in                         (* l + 1 *)
  let inner := map (fun h => concat (slice ps (nthn indices (h - 1)) (nthn indices h))) (seq 1 k) in
  let tail := concat (slice ps (nthn indices k) l1) in
  let lead := concat (firstn (nthn indices 0) ps) in
  let v' := fold_left (upd_index d) lead v in
  (v', map sort_nat (inner ++ [tail ++ lead])).
Definition faces (k : nat) (s : simplex) : list simplex :=
  let l := dimension s in
  if (l <? k)%nat then [] else map (face_from_indices s) (combinations (S l) (S k)).
Definition facets (s : simplex) : list simplex := faces (dimension s - 1) s.

(* ------------------------------------------------------------------ Integer_combination_iterator(n, k, bounds) *)
(* while (s >= bounds_[i]) { value_[i] = bounds_[i]; s -= bounds_[i]; i++; }  value_[i++] = s; *)
Fixpoint ic_fill (fuel : nat) (bounds value : list nat) (i s : nat) : list nat :=
  match fuel with
  | O => value
  | S f => if (nthn bounds i <=? s)%nat
           then ic_fill f bounds (setn value i (nthn bounds i)) (S i) (s - nthn bounds i)
           else setn value i s
  end.
Definition ic_init (n k : nat) (bnds : list nat) : list nat * list nat :=   (* value_, bounds_ *)
  let bounds := bnds ++ [2; 1]%nat in
  let value0 := repeat 0%nat (k + 2) in
  if (list_sum bnds <? n)%nat then (value0, bounds)
  else let v1 := ic_fill (length bounds) bounds value0 0 n in
       (setn (setn v1 k 1) (S k) 0, bounds).
Fixpoint ic_skip0 (fuel : nat) (value : list nat) (k j1 : nat) : nat :=     (* while (value_[j1]==0 && j1<k_) j1++ *)
  match fuel with
  | O => j1
  | S f => if (nthn value j1 =? 0)%nat && (j1 <? k)%nat then ic_skip0 f value k (S j1) else j1
  end.
Fixpoint ic_scan (fuel : nat) (bounds value : list nat) (j1 j2 s : nat) : list nat * nat * nat * nat :=
  match fuel with
  | O => (value, j1, j2, s)
  | S f => if (nthn value j2 =? nthn bounds j2)%nat
           then if negb (nthn bounds j2 =? 0)%nat
                then ic_scan f bounds (setn value j1 0) j2 (S j2) (s + nthn value j1)
                else ic_scan f bounds value j1 (S j2) s
           else (value, j1, j2, s)
  end.
Definition ic_next (k : nat) (bounds value : list nat) : option (list nat) :=
  let j1 := ic_skip0 (S k) value k 0 in
  let '(value, j1, j2, s) := ic_scan (length value) bounds value j1 (S j1) 0 in
  if (k <=? j2)%nat then None
  else let s := (s + nthn value j1 - 1)%nat in
       let value := setn value j1 0 in
       let value := setn value j2 (S (nthn value j2)) in
       Some (ic_fill (length bounds) bounds value 0 s).
Fixpoint ic_iter (fuel k : nat) (bounds value : list nat) : list (list nat) :=
  match fuel with
  | O => []
  | S f => firstn k value :: match ic_next k bounds value with None => [] | Some v' => ic_iter f k bounds v' end
  end.
(* all (c_0..c_{k-1}), c_i <= bnds_i, sum = n, in the iterator's order; at most prod (bnds_i+1) values *)
Definition int_combinations (n k : nat) (bnds : list nat) : list (list nat) :=
  let '(value, bounds) := ic_init n k bnds in
  ic_iter (S (fold_right Nat.mul 1%nat (map S bnds))) k bounds value.

(* ------------------------------------------------------------------ Ordered_set_partition_iterator(n, k), set level:
   all ordered partitions of {0..n-1} into k non-empty increasing blocks.  This is the enumeration the set-level
   [cofaces] below (and the inductive theorems) use; the state machines Set_partition_iterator x Permutation_iterator
   and the odometer of Coface_iterator::increment are transcribed at the end of this file ([osp_iter], [cofaces_iter]),
   compared with the C++ in enumeration order, and proved to enumerate the same sets for small sizes (C20_Proofs.v,
   C20_Iter.v). *)
Fixpoint labelings (n k : nat) : list (list nat) :=
  match n with
  | O => [[]]
  | S n' => flat_map (fun l => map (fun x => x :: l) (seq 0 k)) (labelings n' k)
  end.
Definition block_of (lab : list nat) (j : nat) : list nat :=
  map fst (filter (fun p => (snd p =? j)%nat) (combine (seq 0 (length lab)) lab)).
Definition nonempty {A} (l : list A) : bool := match l with [] => false | _ => true end.
Definition osp (n k : nat) : list (list (list nat)) :=
  filter (forallb nonempty) (map (fun lab => map (block_of lab) (seq 0 k)) (labelings n k)).

(* ------------------------------------------------------------------ Coface_iterator *)
Fixpoint find_pos (x : nat) (l : list nat) : option nat :=
  match l with
  | [] => None
  | y :: r => if (y =? x)%nat then Some 0%nat else option_map S (find_pos x r)
  end.
Fixpoint product {A} (ls : list (list A)) : list (list A) :=
  match ls with
  | [] => [[]]
  | l :: r => flat_map (fun x => map (cons x) (product r)) l
  end.
Definition memn (x : nat) (l : list nat) : bool := existsb (Nat.eqb x) l.
(* for (; u_ <= c_k; u_++) if (t_ in o_its_[k_][u_]) break; *)
Fixpoint find_u (fuel u ck t : nat) (ok : list (list nat)) : nat :=
  match fuel with
  | O => u
  | S f => if (u <=? ck)%nat then (if memn t (nth u ok []) then u else find_u f (S u) ck t ok) else u
  end.
Definition thru (p : part) (bs : list nat) : part := map (nthn p) bs.
(* Coface_iterator::update_value for the integer combination c and the ordered set partitions os (one per part) *)
Definition coface_value (s : simplex) (t : nat) (c : list nat) (os : list (list (list nat))) : simplex :=
  let '(v, ps) := s in
  let k := pred (length ps) in
  let pk := nth k ps [] in
  let ok := nth k os [] in
  let ck := nthn c k in
  let u := find_u (S (S ck)) 0 ck t ok in
  let front := map (thru pk) (slice ok (S u) (S ck)) in
  let v' := fold_left decr_at (concat front) v in
  let mid := concat (map (fun h => map (thru (nth h ps [])) (firstn (S (nthn c h)) (nth h os []))) (seq 0 k)) in
  let back := map (thru pk) (firstn (S u) ok) in
  (v', map sort_nat (front ++ mid ++ back)).
Definition cofaces (l : nat) (s : simplex) : list simplex :=
  let '(v, ps) := s in
  let d := length v in
  let k := pred (length ps) in
  if (l <? k)%nat then [] else
  match find_pos d (nth k ps []) with
  | None => []             (* "the argument simplex is not a permutahedral representation" *)
  | Some t =>
    flat_map (fun c => map (coface_value s t c)
                           (product (map (fun h => osp (length (nth h ps [])) (S (nthn c h))) (seq 0 (S k)))))
             (int_combinations (l - k) (S k) (map (fun p => pred (length p)) ps))
  end.
Definition cofacets (s : simplex) : list simplex := cofaces (S (dimension s)) s.

(* ------------------------------------------------------------------ is_face_of *)
Fixpoint veqb (a b : list Z) : bool :=
  match a, b with
  | [], [] => true
  | x :: r, y :: q => Z.eqb x y && veqb r q
  | _, _ => false
  end.
Definition incr_part (v : vertex) (p : part) : vertex := fold_left incr_at p v.   (* for k in part: v[k]++ *)
(* inner while: advances other until its current vertex equals v_self;  None = "return false" *)
Fixpoint ifo_inner (v_self v_other : vertex) (op : opart) : option (vertex * opart) :=
  match op with
  | [] => Some (v_other, [])
  | p :: rest => if veqb v_self v_other then Some (v_other, op)
                 else match rest with
                      | [] => None
                      | _ => ifo_inner v_self (incr_part v_other p) rest
                      end
  end.
Fixpoint ifo_outer (sp : opart) (v_self v_other : vertex) (op : opart) : bool :=
  match sp with
  | [] => true
  | p :: srest =>
    match ifo_inner v_self v_other op with
    | None => false
    | Some (v_other', op') =>
      match op' with
      | [] => false
      | _ => match srest with
             | [] => true
             | _ => ifo_outer srest (incr_part v_self p) v_other' op'
             end
      end
    end
  end.
Definition is_face_of (s t : simplex) : bool :=
  if (dimension t <? dimension s)%nat then false else ifo_outer (snd s) (fst s) (fst t) (snd t).

(* ------------------------------------------------------------------ locate_point (Freudenthal_triangulation.h)
   coordinates n_i / D (already multiplied by the scale, resp. solved through the matrix):
   y_i = floor, z_i = fractional part (numerator n_i mod D), z_d = 0, indices sorted by z descending
   (std::sort, modelled by a stable insertion sort on the pairs (z_i, i)), a new part starts where z strictly
   drops (C++: by more than 1e-9; here: exactly). *)
Fixpoint ins_desc (a : Z * nat) (l : list (Z * nat)) : list (Z * nat) :=
  match l with
  | [] => [a]
  | b :: r => if fst b <=? fst a then a :: l else b :: ins_desc a r
  end.
Definition sort_desc (l : list (Z * nat)) : list (Z * nat) := fold_right ins_desc [] l.
(* the grouping pass; the test is between neighbours only, so it is written from the right *)
Fixpoint runs (l : list (Z * nat)) : list (list (Z * nat)) :=
  match l with
  | [] => []
  | a :: r => match runs r with
              | [] => [[a]]
              | [] :: gs => [a] :: gs
              | (b :: g) :: gs => if fst b <? fst a then [a] :: (b :: g) :: gs else (a :: b :: g) :: gs
              end
  end.
Definition fracs (ns : list Z) (D : Z) : list Z := map (fun n => n mod D) ns ++ [0].
Definition tagged (ns : list Z) (D : Z) : list (Z * nat) := combine (fracs ns D) (seq 0 (S (length ns))).
Definition locate_groups (ns : list Z) (D : Z) : list (list (Z * nat)) := runs (sort_desc (tagged ns D)).
Definition locate_z (ns : list Z) (D : Z) : simplex :=
  (map (fun n => n / D) ns, map (map snd) (locate_groups ns D)).
(* the weights of the returned vertices (numerators over D): D - t_0, t_0 - t_1, ..., t_{k-1} - t_k *)
Fixpoint weights_from (prev : Z) (levels : list Z) : list Z :=
  match levels with
  | [] => []
  | t :: r => (prev - t) :: weights_from t r
  end.
Definition level_of (g : list (Z * nat)) : Z := match g with [] => 0 | a :: _ => fst a end.
Definition locate_weights (ns : list Z) (D : Z) : list Z := weights_from D (map level_of (locate_groups ns D)).

(* ------------------------------------------------------------------ specification *)
Definition zsum (l : list Z) : Z := fold_right Z.add 0 l.
Definition nthz (l : list Z) (i : nat) : Z := nth i l 0.
(* sum_j w_j * (v_j)_i *)
Definition comb_coord (ws : list Z) (vs : list vertex) (i : nat) : Z :=
  zsum (map (fun p => fst p * nthz (snd p) i) (combine ws vs)).
(* the ordered partition is one of {0..d}, every part non-empty, d in the last part *)
Definition valid_opart (d : nat) (ps : opart) : bool :=
  forallb nonempty ps && nonempty ps && memn d (last ps []) &&
  (if list_eq_dec Nat.eq_dec (sort_nat (concat ps)) (seq 0 (S d)) then true else false).
Definition valid_simplex (s : simplex) : bool := valid_opart (length (fst s)) (snd s).
(* x = ns/D lies in the relative interior of s: strictly positive weights (numerators over D) with sum D *)
Definition bary_weights (ns : list Z) (D : Z) (s : simplex) : list Z :=
  let d := length (fst s) in
  let r := fun i => if (i <? d)%nat then nthz ns i - D * nthz (fst s) i else 0 in
  weights_from D (map (fun p => r (hd 0%nat p)) (snd s)).
Definition in_rel_interior (ns : list Z) (D : Z) (s : simplex) : bool :=
  let ws := bary_weights ns D s in
  let vs := vertex_range s in
  (length (fst s) =? length ns)%nat && valid_simplex s &&
  forallb (fun w => 0 <? w) ws && (zsum ws =? D) &&
  forallb (fun i => nthz ns i =? comb_coord ws vs i) (seq 0 (length ns)).
Definition subset_v (a b : list vertex) : bool := forallb (fun v => existsb (veqb v) b) a.
Definition spec_is_face (s t : simplex) : bool := subset_v (vertex_range s) (vertex_range t).
Fixpoint nodup_v (l : list vertex) : bool :=
  match l with [] => true | v :: r => negb (existsb (veqb v) r) && nodup_v r end.
Definition parteqb (a b : part) : bool := if list_eq_dec Nat.eq_dec a b then true else false.
Definition simplex_eqb (s t : simplex) : bool :=
  veqb (fst s) (fst t) && (if list_eq_dec (list_eq_dec Nat.eq_dec) (snd s) (snd t) then true else false).
Definition mem_simplex (s : simplex) (l : list simplex) : bool := existsb (simplex_eqb s) l.
Definition same_vset (s t : simplex) : bool := spec_is_face s t && spec_is_face t s.
Fixpoint nodup_vsets (l : list simplex) : bool :=
  match l with [] => true | s :: r => negb (existsb (same_vset s) r) && nodup_vsets r end.
Fixpoint binom (n k : nat) : nat :=
  match n, k with
  | _, O => 1
  | O, S _ => 0
  | S n', S k' => binom n' k' + binom n' k
  end.
(* the k-faces of s are exactly the (l+1 choose k+1) vertex subsets: the right number of valid k-simplices, pairwise
   different vertex sets, each inside the vertex set of s, each recognised by is_face_of *)
Definition faces_ok (k : nat) (s : simplex) : bool :=
  let fs := faces k s in
  (length fs =? binom (S (dimension s)) (S k))%nat &&
  forallb (fun f => valid_simplex f && (dimension f =? k)%nat && (length (fst f) =? length (fst s))%nat &&
                    nodup_v (vertex_range f) && spec_is_face f s && is_face_of f s) fs &&
  nodup_vsets fs.
(* every enumerated coface is a valid l-simplex containing s, lists s among its faces; no repetition *)
Definition cofaces_ok (l : nat) (s : simplex) : bool :=
  let cs := cofaces l s in
  forallb (fun c => valid_simplex c && (dimension c =? l)%nat && (length (fst c) =? length (fst s))%nat &&
                    spec_is_face s c && is_face_of s c && mem_simplex s (faces (dimension s) c)) cs &&
  nodup_vsets cs.
(* conversely every simplex lists itself among the cofaces of each of its faces *)
Definition faces_cofaces_ok (k : nat) (s : simplex) : bool :=
  forallb (fun f => mem_simplex s (cofaces (dimension s) f)) (faces k s).
(* all simplices whose lexicographically minimal vertex is a given one: the valid ordered partitions *)
Definition canon_oparts (d : nat) : list opart :=
  flat_map (fun k => filter (fun ps => memn d (last ps [])) (osp (S d) k)) (seq 1 (S d)).
(* translation *)
Fixpoint vadd (a v : list Z) : list Z :=
  match v with
  | [] => []
  | x :: r => (x + hd 0 a) :: vadd (tl a) r
  end.
Definition shift (a : list Z) (s : simplex) : simplex := (vadd a (fst s), snd s).

(* ------------------------------------------------------------------ rational layer: scale, affine map *)
Local Open Scope Q_scope.
Definition qden_prod (xs : list Q) : positive := fold_right (fun q acc => Pos.mul (Qden q) acc) 1%positive xs.
Definition locate_q (xs : list Q) : simplex :=
  let D := Zpos (qden_prod xs) in
  locate_z (map (fun q => (Qnum q * (D / Zpos (Qden q)))%Z) xs) D.
Definition in_rel_interior_q (xs : list Q) (s : simplex) : bool :=
  let D := Zpos (qden_prod xs) in
  in_rel_interior (map (fun q => (Qnum q * (D / Zpos (Qden q)))%Z) xs) D s.
(* Freudenthal_triangulation(dimension): x_i = scale * point[i] *)
Definition locate_point_freud (scale : Q) (p : list Q) : simplex := locate_q (map (Qmult scale) p).
Fixpoint qdot (r x : list Q) : Q :=
  match r, x with
  | a :: r', b :: x' => a * b + qdot r' x'
  | _, _ => 0
  end.
Fixpoint qadd (a b : list Q) : list Q :=
  match a, b with
  | x :: a', y :: b' => (x + y) :: qadd a' b'
  | _, _ => []
  end.
(* cartesian_coordinates: matrix_ * (vertex / scale) + offset_ *)
Definition cart (M : list (list Q)) (off : list Q) (scale : Q) (v : vertex) : list Q :=
  let x := map (fun z => inject_Z z / scale) v in
  qadd (map (fun r => qdot r x) M) off.
(* x = scale * solve(M, p - offset): the solution is supplied and checked (M is invertible in every generated case) *)
Definition affine_preimage_ok (M : list (list Q)) (off : list Q) (scale : Q) (p x : list Q) : bool :=
  let y := map (fun xi => xi / scale) x in
  (length p =? length M)%nat && (length x =? length M)%nat &&
  forallb (fun t => Qeq_bool (fst t) (snd t)) (combine (qadd (map (fun r => qdot r y) M) off) p).
Definition qzero (d : nat) : list Q := repeat 0 d.
Definition barycenter (M : list (list Q)) (off : list Q) (scale : Q) (s : simplex) : list Q :=
  let vs := vertex_range s in
  let sum := fold_left (fun acc v => qadd acc (cart M off scale v)) vs (qzero (length (fst s))) in
  map (fun c => (1 / inject_Z (Z.of_nat (length vs))) * c) sum.
Definition qred_list (l : list Q) : list Q := map Qred l.
Fixpoint is_pow2 (fuel : nat) (n : Z) : bool :=
  match fuel with
  | O => false
  | S f => if (n =? 1)%Z then true else if (n mod 2 =? 0)%Z then is_pow2 f (n / 2)%Z else false
  end.
(* observed double vs exact value: equal when the division is by a power of two, else within 2^-50 relative *)
Definition bary_close (k1 : Z) (exact obs : Q) : bool :=
  if is_pow2 64 k1 then Qeq_bool exact obs
  else Qle_bool (Qabs (obs - exact)) (Qabs exact * (1 # 1125899906842624)).

(* tolerant containment (the documented tolerance of locate_point): the point xs lies within tol (in lattice
   coordinates) of the closed simplex s: inside a part the offsets x_i - v_i agree up to tol, and the barycentric
   weights 1 - T_0, T_0 - T_1, ..., T_{k-1} - T_k (T_k ~ 0) are >= -tol.  Used for inputs on which the floating-point
   solve through a matrix may legitimately return a neighbouring simplex. *)
Definition near_simplex (tol : Q) (xs : list Q) (s : simplex) : bool :=
  let d := length (fst s) in
  let r := fun i : nat => if (i <? d)%nat then nth i xs 0 - inject_Z (nthz (fst s) i) else 0 in
  let levels := map (fun p => r (hd 0%nat p)) (snd s) in
  let fix chain (prev : Q) (l : list Q) : bool :=
      match l with
      | [] => true
      | t :: rest => Qle_bool (- tol) (prev - t) && chain t rest
      end in
  (d =? length xs)%nat && valid_simplex s &&
  forallb (fun p => forallb (fun i => Qle_bool (Qabs (r i - r (hd 0%nat p))) tol) p) (snd s) &&
  chain 1 levels && Qle_bool (Qabs (last levels 0)) tol.

(* ------------------------------------------------------------------ Ordered_set_partition_iterator as a state machine
   (Set_partition_iterator: restricted growth strings; Permutation_iterator: mixed-radix counter with the n>=3
   shortcut), transcribed statement by statement.  [osp_iter n k] is the sequence a fresh iterator enumerates; the
   set-level model [osp] above is what Coface_iterator's model uses (order of cofaces is free).  UINT_MAX sentinels
   (max_[0], d_[n-1]) are modelled by excluding the position from the comparison. *)
Local Open Scope nat_scope.
(* Set_partition_iterator state: rgs_, max_ *)
Definition sp_init (n k : nat) : list nat * list nat :=
  let rgs := map (fun i => if n - k <? i then i - (n - k) else 0) (seq 0 n) in
  (rgs, 0 :: map S rgs).                       (* max_[0] = UINT_MAX (never consulted), max_[i] = rgs_[i-1] + 1 *)
Definition sp_value (k : nat) (rgs : list nat) : list (list nat) := map (block_of rgs) (seq 0 k).
(* while (rgs_[i] + 1 > max_[i] || rgs_[i] + 1 >= k_) i--;   (at i = 0 the first test is against UINT_MAX) *)
Fixpoint sp_scan (fuel : nat) (k : nat) (rgs mx : list nat) (i : nat) : nat :=
  match fuel with
  | O => i
  | S f => if ((negb (i =? 0)) && (nthn mx i <? nthn rgs i + 1)) || (k <=? nthn rgs i + 1)
           then sp_scan f k rgs mx (i - 1) else i
  end.
(* while (++i < n_) { rgs_[i] = 0; max_[i + 1] = mm; } *)
Fixpoint sp_zero (fuel : nat) (n mm : nat) (rgs mx : list nat) (i : nat) : list nat * list nat :=
  match fuel with
  | O => (rgs, mx)
  | S f => if i <? n then sp_zero f n mm (setn rgs i 0) (setn mx (S i) mm) (S i) else (rgs, mx)
  end.
(* do { max_[i] = p; --i; --p; rgs_[i] = p; } while (max_[i] < p); *)
Fixpoint sp_tail (fuel : nat) (rgs mx : list nat) (i p : nat) : list nat * list nat :=
  match fuel with
  | O => (rgs, mx)
  | S f => let mx := setn mx i p in
           let i := i - 1 in let p := p - 1 in
           let rgs := setn rgs i p in
           if nthn mx i <? p then sp_tail f rgs mx i p else (rgs, mx)
  end.
Definition sp_next (n k : nat) (st : list nat * list nat) : option (list nat * list nat) :=
  let '(rgs, mx) := st in
  if k <=? 1 then None else
  let i := sp_scan n k rgs mx (n - 1) in
  if i =? 0 then None else
  let rgs := setn rgs i (S (nthn rgs i)) in
  let mm := nthn mx i in
  let mm := if mm <=? nthn rgs i then S mm else mm in
  let mx := setn mx (S i) mm in
  let '(rgs, mx) := sp_zero n n mm rgs mx (S i) in
  if mm <? k then Some (sp_tail n rgs mx n k) else Some (rgs, mx).

(* Permutation_iterator state: value_, d_, ct_ *)
Definition swap_idx (l : list nat) (i j : nat) : list nat :=
  let a := nthn l i in let b := nthn l j in setn (setn l i b) j a.
Definition pm_init (n : nat) : list nat * list nat * nat := (seq 0 n, repeat 0 n, 5).
(* while (d_[j] == j + 1) { d_[j] = 0; ++j; }    (d_[n-1] is the sentinel UINT_MAX) *)
Fixpoint pm_carry (fuel n : nat) (d : list nat) (j : nat) : list nat * nat :=
  match fuel with
  | O => (d, j)
  | S f => if (negb (j =? n - 1)) && (nthn d j =? j + 1) then pm_carry f n (setn d j 0) (S j) else (d, j)
  end.
Definition pm_elementary (n : nat) (value d : list nat) (j0 : nat) : option (list nat * list nat) * list nat :=
  let '(d, j) := pm_carry n n d j0 in
  if j =? n - 1 then (None, d)
  else let k := j + 1 in
       let x := if Nat.odd k then nthn d j else 0 in
       (Some (swap_idx value k x, setn d j (S (nthn d j))), d).
(* returns None at the end; the state after the end (value_ kept, d_ reset, ct_ = 5) is what reinitialize() resumes *)
Definition pm_next (n : nat) (st : list nat * list nat * nat) : option (list nat * list nat * nat) * (list nat * list nat * nat) :=
  let '(value, d, ct) := st in
  if 3 <=? n then
    if negb (ct =? 0) then let ct := ct - 1 in
                           let st' := (swap_idx value (1 + Nat.modulo ct 2) 0, d, ct) in (Some st', st')
    else match pm_elementary n value d 2 with
         | (None, d') => (None, (value, d', 5))
         | (Some (v', d'), _) => (Some (v', d', 5), (v', d', 5))
         end
  else match pm_elementary n value d 0 with
       | (None, d') => (None, (value, d', ct))
       | (Some (v', d'), _) => (Some (v', d', ct), (v', d', ct))
       end.
(* Ordered_set_partition::operator[](i) = s_it_ value at index (p_it_ value at i) *)
Definition osp_value (k : nat) (rgs perm : list nat) : list (list nat) :=
  let blocks := sp_value k rgs in map (fun i => nth (nthn perm i) blocks []) (seq 0 k).
Fixpoint osp_run (fuel n k : nat) (sp : list nat * list nat) (pm : list nat * list nat * nat) : list (list (list nat)) :=
  match fuel with
  | O => []
  | S f =>
    osp_value k (fst sp) (fst (fst pm)) ::
    match pm_next k pm with
    | (Some pm', _) => osp_run f n k sp pm'
    | (None, pm_end) => match sp_next n k sp with
                        | None => []
                        | Some sp' => osp_run f n k sp' pm_end      (* p_it_.reinitialize(): only the flag is reset *)
                        end
    end
  end.
Definition osp_iter (n k : nat) : list (list (list nat)) :=
  if n =? 0 then [] else osp_run (S (Nat.pow k n)) n k (sp_init n k) (pm_init k).

(* ------------------------------------------------------------------ Coface_iterator::increment as a state machine
   (the odometer over o_its_ with reinitialize(), then the next integer combination), giving the cofaces in the
   order of enumeration.  An Ordered_set_partition_iterator state is (rgs_, max_) x (value_, d_, ct_).
   [coface_choices_iter] lists the successive (integer combination, ordered set partitions) the iterator visits;
   [coface_choices] is the set-level enumeration behind [cofaces]. *)
Definition osp_state := ((list nat * list nat) * (list nat * list nat * nat))%type.
Definition osp_fresh (n k : nat) : osp_state := (sp_init n k, pm_init k).
Definition osp_cur (k : nat) (st : osp_state) : list (list nat) := osp_value k (fst (fst st)) (fst (fst (snd st))).
(* ++it : Some = new state; None = reached the end, with the state reinitialize() would resume from *)
Definition osp_incr (n k : nat) (st : osp_state) : option osp_state * osp_state :=
  let '(sp, pm) := st in
  match pm_next k pm with
  | (Some pm', _) => (Some (sp, pm'), (sp, pm'))
  | (None, pm_end) => match sp_next n k sp with
                      | None => (None, (sp_init n k, pm_end))      (* reinitialize(): s_it_ reset, p_it_ flag only *)
                      | Some sp' => (Some (sp', pm_end), (sp', pm_end))
                      end
  end.
(* for (i = 0; i < k_+1; i++) if (++(o_its_[i]) != o_end_) break;   then  o_its_[j].reinitialize() for j < i *)
Fixpoint odometer (sizes ks : list nat) (sts : list osp_state) : option (list osp_state) :=
  match sizes, ks, sts with
  | n :: sizes', k :: ks', st :: sts' =>
    match osp_incr n k st with
    | (Some st', _) => Some (st' :: sts')
    | (None, st_re) => option_map (cons st_re) (odometer sizes' ks' sts')
    end
  | _, _, _ => None
  end.
Fixpoint coface_run_inner (fuel : nat) (sizes ks : list nat) (sts : list osp_state) : list (list (list (list nat))) :=
  match fuel with
  | O => []
  | S f => map (fun p => osp_cur (fst p) (snd p)) (combine ks sts) ::
           match odometer sizes ks sts with
           | None => []
           | Some sts' => coface_run_inner f sizes ks sts'
           end
  end.
Definition coface_choices_iter (l : nat) (ps : opart) : list (list nat * list (list (list nat))) :=
  let k := pred (length ps) in
  let sizes := map (@length nat) ps in
  flat_map (fun c => let ks := map S c in
                     map (pair c) (coface_run_inner (S (fold_right Nat.mul 1 (map (fun nk => Nat.pow (snd nk) (fst nk)) (combine sizes ks))))
                                                    sizes ks (map (fun nk => osp_fresh (fst nk) (snd nk)) (combine sizes ks))))
           (int_combinations (l - k) (S k) (map (fun p => pred (length p)) ps)).
Definition coface_choices (l : nat) (ps : opart) : list (list nat * list (list (list nat))) :=
  let k := pred (length ps) in
  flat_map (fun c => map (pair c) (product (map (fun h => osp (length (nth h ps [])) (S (nthn c h))) (seq 0 (S k)))))
           (int_combinations (l - k) (S k) (map (fun p => pred (length p)) ps)).
Definition cofaces_iter (l : nat) (s : simplex) : list simplex :=
  let '(v, ps) := s in
  let d := length v in
  let k := pred (length ps) in
  if l <? k then [] else
  match find_pos d (nth k ps []) with
  | None => []
  | Some t => map (fun co => coface_value s t (fst co) (snd co)) (coface_choices_iter l ps)
  end.
