(* C20 — small facts about the rational layer of C20_Model.v (the common-denominator encoding used by locate_q). *)
From Coq Require Import ZArith QArith List Lia.
Import ListNotations.
Require Import C20_Model C20_Locate C20_Combi.
Local Open Scope Z_scope.

(* ------------------------------------------------------------------ non-vacuity of the hypotheses used in Properties_C20.v *)
Example canonical_example :
  canonical ([0; 0; 0], [[1]; [0; 2]; [3]]%nat) /\ sorted_parts ([0; 0; 0], [[1]; [0; 2]; [3]]%nat).
Proof. split; [apply valid_simplex_canonical; reflexivity | repeat constructor]. Qed.

Example interior_witness_example :
  interior_witness [5; 3; -1; 3] 4 ([1; 0; -1; 0], [[1; 2; 3]; [0]; [4]]%nat) [1; 2; 1].
Proof. exact (locate_interior_witness [5; 3; -1; 3] 4 eq_refl). Qed.

Example in_rel_interior_example :
  in_rel_interior [5; 3; -1; 3] 4 ([1; 0; -1; 0], [[1; 2; 3]; [0]; [4]]%nat) = true.
Proof. reflexivity. Qed.

Lemma qden_prod_divides : forall (xs : list Q) (q : Q), In q xs -> (Zpos (Qden q) | Zpos (qden_prod xs)).
Proof.
  induction xs as [|a xs IH]; intros q Hin; [destruct Hin|].
  cbn [qden_prod fold_right]. fold (qden_prod xs). rewrite Pos2Z.inj_mul.
  destruct Hin as [->|Hin].
  - apply Z.divide_factor_l.
  - apply Z.divide_mul_r. apply IH. exact Hin.
Qed.

(* the numerators handed to locate_z by locate_q represent the rational coordinates exactly *)
Theorem locate_q_encoding : forall (xs : list Q) (q : Q), In q xs ->
  (Qnum q * (Zpos (qden_prod xs) / Zpos (Qden q)) # qden_prod xs == q)%Q.
Proof.
  intros xs q Hin. destruct (qden_prod_divides xs q Hin) as [m Hm].
  unfold Qeq. cbn [Qnum Qden]. rewrite Hm.
  rewrite Z.div_mul by (pose proof (Pos2Z.is_pos (Qden q)); lia).
  rewrite <- Hm. rewrite Hm. ring.
Qed.

(* ------------------------------------------------------------------ the state-machine transcription of
   Ordered_set_partition_iterator enumerates exactly the set-level model [osp], for n <= 5 (by computation; the run compares n <= 6) *)
From Coq Require Import Permutation Arith Bool.
Local Open Scope nat_scope.
Definition osp_eq_dec : forall a b : list (list nat), {a = b} + {a <> b} := list_eq_dec (list_eq_dec Nat.eq_dec).
Fixpoint remove_first (x : list (list nat)) (l : list (list (list nat))) : option (list (list (list nat))) :=
  match l with
  | [] => None
  | y :: r => if osp_eq_dec x y then Some r else option_map (cons y) (remove_first x r)
  end.
Fixpoint permb (a b : list (list (list nat))) : bool :=
  match a with
  | [] => match b with [] => true | _ => false end
  | x :: a' => match remove_first x b with Some b' => permb a' b' | None => false end
  end.
Lemma remove_first_perm : forall x l l', remove_first x l = Some l' -> Permutation l (x :: l').
Proof.
  induction l as [|y r IH]; intros l' H; cbn [remove_first] in H; [discriminate|].
  destruct (osp_eq_dec x y) as [->|Hne].
  - injection H as <-. apply Permutation_refl.
  - destruct (remove_first x r) as [r'|] eqn:E; [|discriminate]. cbn [option_map] in H. injection H as <-.
    eapply Permutation_trans; [apply perm_skip; apply IH; reflexivity|]. apply perm_swap.
Qed.
Lemma permb_sound : forall a b, permb a b = true -> Permutation a b.
Proof.
  induction a as [|x a IH]; intros b H; cbn [permb] in H.
  - destruct b; [apply perm_nil|discriminate].
  - destruct (remove_first x b) as [b'|] eqn:E; [|discriminate].
    apply Permutation_sym. eapply Permutation_trans; [apply remove_first_perm; exact E|].
    apply perm_skip. apply Permutation_sym. apply IH. exact H.
Qed.
Definition osp_iter_checks : bool :=
  forallb (fun n => forallb (fun k => permb (osp_iter n k) (osp n k)) (seq 1 n)) (seq 1 5).
Lemma osp_iter_checks_true : osp_iter_checks = true.
Proof. vm_compute. reflexivity. Qed.
Theorem osp_iter_enumerates_osp_le5 : forall n k, 1 <= k <= n -> n <= 5 -> Permutation (osp_iter n k) (osp n k).
Proof.
  intros n k Hk Hn. apply permb_sound.
  pose proof osp_iter_checks_true as H. unfold osp_iter_checks in H.
  rewrite forallb_forall in H. specialize (H n). rewrite in_seq in H.
  assert (Hn' : 1 <= n < 1 + 5) by lia. specialize (H Hn').
  rewrite forallb_forall in H. apply H. apply in_seq. lia.
Qed.
