(* C20 — small facts about the rational layer of C20_Model.v (the common-denominator encoding used by locate_q). *)
From Coq Require Import ZArith QArith List Lia.
Import ListNotations.
Require Import C20_Model.
Local Open Scope Z_scope.

Lemma qden_prod_divides : forall (xs : list Q) (q : Q), In q xs -> (Zpos (Qden q) | Zpos (qden_prod xs)).
Proof.
  induction xs as [|a xs IH]; intros q Hin; [destruct Hin|].
  cbn [qden_prod fold_right]. fold (qden_prod xs). rewrite Pos2Z.inj_mul.
  destruct Hin as [->|Hin].
  - apply Z.divide_factor_l.
  - apply Z.divide_mul_r. apply IH. exact Hin.
Qed.

(* the numerators handed to locate_z by locate_q represent the rational coordinates exactly *)
Theorem locate_q_encoding : forall (xs : list Q) (q : Q), In q xs ->
  (Qnum q * (Zpos (qden_prod xs) / Zpos (Qden q)) # qden_prod xs == q)%Q.
Proof.
  intros xs q Hin. destruct (qden_prod_divides xs q Hin) as [m Hm].
  unfold Qeq. cbn [Qnum Qden]. rewrite Hm.
  rewrite Z.div_mul by (pose proof (Pos2Z.is_pos (Qden q)); lia).
  rewrite <- Hm. rewrite Hm. ring.
Qed.
