From Coq Require Import ZArith List Extraction ExtrOcamlBasic.
Require Import Simplex Trie C01_Model.
Extraction "extracted/c01_model.ml"
  Z.add Z.mul Z.sub Z.div Z.modulo Z.compare Z.opp Z.of_nat Z.to_nat Z.eqb Z.ltb Z.leb Z.max Z.min
  norm seqb subseq faces sdim lookup cmem keys star cofaces boundary cdim count_dim closedb monob good
  find find_val abs enum_t skel_t size_t height_t wfb_t get
  cofaces_unlinked cofaces_linked boundary_t step run spec_step spec_run pre_op ok_history
  ret_insert ret_modified eq_rebuilt eq_empty dimension count_by_dim empty_state exact_dim is_empty has_coface
  tree dim_ub dirty.
