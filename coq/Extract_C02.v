From Coq Require Import ZArith List Extraction ExtrOcamlBasic.
Require Import C10_Model Reduce ReduceExec C02_Model.
Extraction "extracted/c02_model.ml"
  Z.add Z.mul Z.sub Z.div Z.modulo Z.compare Z.opp Z.of_nat Z.to_nat
  cells_of complex_dim dim_max_of dim_of val_of oracle_pairs keep_pair value_bar barcode_keys barcode mf_group
  zp_ops mf_ops pcoh pcoh_gen dd_zero valid_b run essential primes_between product is_prime
  betti_number betti_numbers persistent_betti_number persistent_betti_numbers intervals_in_dimension diagram_lines value_view.
