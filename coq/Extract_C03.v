From Coq Require Import ZArith QArith List Extraction ExtrOcamlBasic.
Require Import C03_Model.
Extraction "extracted/c03_model.ml"
  Z.add Z.mul Z.sub Z.div Z.modulo Z.compare Z.opp Z.of_nat Z.to_nat Z.pow
  simplex_eqb lex_dec revlex dfs_lt facets prefixes nonempty_subs msort isort
  qlt q_inf q_range q_init q_init_isort q_mfnd q_prune q_insert q_set q_lookup q_is_before q_red
  extend_filtration op_extend decode_extended_filtration clear_filtration traversal
  Qplus Qminus Qmult Qle_bool Qeq_bool Qopp Qred.
