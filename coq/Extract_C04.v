From Coq Require Import ZArith List Extraction ExtrOcamlBasic.
Require Import Simplex Trie C04_Model.
Extraction "extracted/c04_model.ml"
  Z.add Z.mul Z.sub Z.div Z.modulo Z.compare Z.opp Z.of_nat Z.to_nat Z.max Z.min
  abs wfb_t cdim height_t
  mkG gverts gedges vval eval flag fval fval_all flag_cplx cplx_of lexsubs vlabels graph_okb graph_monob cliqueb
  bflag bflag_cplx blocks vhash prox_graph rips_spec dist_pts dist_mat zrange
  empty_state ins_graph expansion exp_blockers insert_edge_as_flag mfnd rips
  g_add_vertex g_add_edge eops_okb nondecr.
