From Coq Require Import ZArith List Extraction ExtrOcamlBasic.
Require Import C07_Model.
Extraction "extracted/c07_model.ml"
  Z.add Z.mul Z.sub Z.div Z.modulo Z.compare Z.opp Z.of_nat Z.to_nat
  normalize valid barcode betti alive_count dims present rtab
  streamed_at open_after closed_by arrow_values value_at fv_from_index changes
  S_index_diagram S_diagram F_streamed F_open dim_kept
  insertion_only ordinary_bars mult_nonneg keyed_ok skip_high rank restrict echelon of_idx.
