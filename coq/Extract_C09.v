From Coq Require Import ZArith List Extraction ExtrOcamlBasic.
Require Import C09_Model.
Extraction "extracted/c09_model.ml"
  Z.add Z.mul Z.sub Z.div Z.modulo Z.compare Z.opp Z.of_nat Z.to_nat
  d_empty d_ncols d_col d_insert d_insert_at d_remove_col d_remove_last d_add d_mta d_msa d_zero_entry d_zero_col
  d_swap_rows d_swap_cols d_is_zero_entry d_is_zero_col d_row dk_insert dk_axpy dk_row dis_zero dget
  all_fixed Build_flags a_empty a_ncols a_col a_order a_insert a_insert_at a_remove_col a_remove_last a_add a_mta a_msa
  a_zero_entry a_zero_col a_swap_rows a_swap_cols a_content a_is_zero_entry a_is_zero_col a_row a_abs
  k_empty k_insert k_col k_upd k_row c_add c_mta c_msa c_scale first_same c_is_empty c_nonzero k_find lget.
