From Coq Require Import ZArith List Extraction ExtrOcamlBasic.
Require Import C10_Model.
Extraction "extracted/c10_model.ml"
  Z.add Z.mul Z.sub Z.div Z.modulo Z.compare Z.opp Z.of_nat Z.to_nat
  spec_val spec_add spec_sub spec_mul spec_mad spec_aam spec_is_inverse is_prime primes_between product
  spec_T spec_pinv_ok spec_pmid_ok
  zp_add zp_sub zp_mul mfs_mul zp_get_value_u zp_get_value_s zp_get_value_s_unrepaired zp_mad zp_aam mfs_mad mfs_aam
  zp_inverse_entry zp_set_characteristic egcd_inverse fz_plus_times_equal fz_times_minus fz_init
  mfs_pmid mfs_pinv mfs_pinv_unrepaired mf_pmid mf_pinv mf_times_minus mf_times_minus_unrepaired mf_plus_times_equal
  W32 W64 to_signed mod_inverse.
