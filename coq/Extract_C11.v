From Coq Require Import ZArith List Extraction ExtrOcamlBasic.
Require Import Reduce ReduceExec C11_Model.
Extraction "extracted/c11_model.ml"
  Z.add Z.mul Z.sub Z.div Z.modulo Z.compare Z.opp Z.of_nat Z.to_nat
  barcode num_simplices enclosing_radius filtration simplices
  cm_index lower_off upper_off log2up bf_enc bf_get_max binom binom_tab cns_ctor_ok cns_enc get_max cns_get_max
  enc enc_get_max simplex_index decode pack unpack_index unpack_coeff
  dispatch bitfield_size clamp_dim width encoding_of extra_bits.
