From Coq Require Import ZArith List Extraction ExtrOcamlBasic.
Require Import Reduce ReduceExec C12_Model.
Extraction "extracted/c12_model.ml"
  Z.add Z.mul Z.sub Z.div Z.modulo Z.compare Z.opp Z.of_nat Z.to_nat
  process_edges flag_complex_collapse_edges sort_desc out_ok out_edge_ok nodup_keys key
  flag_barcode simplices s_sort boundary num_vertices
  read_edges common_neighbors is_dominated_by nb_get.
