From Coq Require Import ZArith List Extraction ExtrOcamlBasic.
Require Import ReduceExec C13_Model.
Extraction "extracted/c13_model.ml"
  Z.add Z.mul Z.sub Z.div Z.modulo Z.compare Z.opp Z.of_nat Z.to_nat
  a_build a_size a_multipliers a_counter a_dim a_bd a_cobd a_inc a_filtration a_pairs a_bmatrix a_top_cells
  a_vertices_per a_vertices_base norm_dir getd zrange
  hshape s_total s_index s_counter s_validb s_dim s_bd s_sbd s_cobd s_inc s_value_top s_value_vert s_star s_verts
  s_sbd_chain coef certified_lows dense_of_sparse pairs_of_lows.
