From Coq Require Import ZArith List Extraction ExtrOcamlBasic.
Require Import Reduce ReduceExec C14_Model.
Extraction "extracted/c14_model.ml"
  Z.add Z.mul Z.sub Z.div Z.modulo Z.compare Z.opp Z.of_nat Z.to_nat Z.ltb
  line line_canon line_oracle rect_oracle_idx rect_oracle_val rect_columns rect_pairs_of rect_order
  rect_cells sq_lt filtration_order boundary_columns pairs_of barcode
  certified_lows pairs_of_lows dense_of_sparse.
