From Coq Require Import ZArith List Extraction ExtrOcamlBasic.
Require Import Simplex Trie C01_Model C15_Model.
Extraction "extracted/c15_model.ml"
  Z.add Z.mul Z.sub Z.div Z.modulo Z.compare Z.opp Z.of_nat Z.to_nat Z.eqb Z.ltb Z.leb Z.max Z.min
  norm seqb subseq sdim lookup cmem keys star cofaces cdim
  find find_val abs enum_t size_t height_t wfb_t get
  step dimension empty_state exact_dim is_empty tree dim_ub dirty mk
  copy_construct copy_assign move_construct move_assign swap_std exact_or_ub
  enc32 dec32 ser_t serialize ser_size deserialize text_out text_in filtration_order enc64 dec64.
