From Coq Require Import ZArith List Extraction ExtrOcamlBasic.
Require Import C16_Model.
Extraction "extracted/c16_model.ml"
  Z.add Z.mul Z.sub Z.div Z.modulo Z.compare Z.opp Z.of_nat Z.to_nat
  memv subsetb seqb membership maximality maximal_cofaces num_vertices num_maximal vertices
  insert_simplex remove_simplex remove_simplex_as_found remove_vertex contraction step step_gen
  spec_empty spec_step spec_is_max spec_insert spec_remove spec_remove_vertex spec_contract
  l_insert l_erase l_membership l_remove_gen l_contract l_survivor_ok l_clean l_step.
