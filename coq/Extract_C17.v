From Coq Require Import ZArith List Extraction ExtrOcamlBasic.
Require Import ReduceExec C17_Model.
Extraction "extracted/c17_model.ml"
  Z.add Z.mul Z.sub Z.div Z.modulo Z.compare Z.opp Z.of_nat Z.to_nat
  empty_cplx add_vertex add_edge add_edge_without_blockers add_simplex add_blocker remove_star_vertex remove_star_edge
  remove_star_simplex contract_edge contains link_condition num_connected_components has_edge contains_vertex
  remove_edge blk act edg slots mkC sort_set
  spec_empty spec_add_vertex spec_add_edge spec_add_edge_fill spec_add_simplex spec_remove_star spec_contract
  spec_link build_link link_contains spec_vertices spec_blockers spec_link_condition spec_closed kmem betti euler dim.
