From Coq Require Import ZArith QArith Qreduction List Extraction ExtrOcamlBasic.
Require Import C18_Model.
Extraction "extracted/c18_model.ml"
  Z.add Z.mul Z.sub Z.div Z.modulo Z.compare Z.opp Z.of_nat Z.to_nat
  Qred Qplus Qminus Qmult Qdiv Qopp Qle_bool Qeq_bool Qlt_bool qabs qmax qmin
  tent lambda interp cands spec_xs
  spec_dist1 spec_dist2sq spec_distsup spec_inner spec_integral spec_integral_level
  construct value_at land_add land_sub land_scale land_abs land_integral integral_level land_integral_pow
  alg_dist_pow alg_distsup alg_inner land_average
  grid_setup grid_value aligned.
