From Coq Require Import ZArith QArith List Extraction ExtrOcamlBasic.
Require Import Reduce ReduceExec C19_Model.
Extraction "extracted/c19_model.ml"
  Z.add Z.mul Z.sub Z.div Z.modulo Z.compare Z.opp Z.of_nat Z.to_nat Z.gcd Z.abs Z.pow
  Qred Qplus Qmult Qminus Qdiv Qle_bool inject_Z
  lambdas greedyb greedy_from nkeep edge_val sparse_complex sparse_complex_trie order_ok next_radius kept
  in_ripsb sub_neverb rips_complex rips_val validb sort_cplx boundary_matrix bars bars_below
  bar_match bar_small check_matching near certified_lows pairs_of_lows.
