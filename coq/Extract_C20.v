From Coq Require Import ZArith QArith List Extraction ExtrOcamlBasic.
Require Import C20_Model.
Extraction "extracted/c20_model.ml"
  Z.add Z.mul Z.sub Z.div Z.modulo Z.compare Z.opp Z.of_nat Z.to_nat
  vertex_range dimension faces facets cofaces cofacets cofaces_iter is_face_of spec_is_face simplex_eqb
  combinations int_combinations osp osp_iter canon_oparts valid_simplex nodup_v
  faces_ok cofaces_ok faces_cofaces_ok
  locate_z locate_q locate_point_freud in_rel_interior in_rel_interior_q locate_weights
  cart barycenter affine_preimage_ok bary_close near_simplex Qred sort_nat shift.
