From Coq Require Import ZArith List Extraction ExtrOcamlBasic.
Require Import Reduce ReduceExec RepCycle.
Extraction "extracted/pm_model.ml"
  Z.add Z.mul Z.sub Z.div Z.modulo Z.compare Z.opp Z.of_nat Z.to_nat
  certified_lows check_any check_RU check_upper check_reduced check_diag check_product lows pairs_of_lows
  mat_mul transpose dense_of_sparse dense_col mget reduce inv_mod
  check_rep check_cycle check_chain_complex check_dims check_support rep_witness.
