(* Positive / negative cells (C05, C08): in a chain complex (D.D = 0) the cells split, independently of the reduction
   chosen, into negative cells (non-zero reduced column: they kill a class), and positive cells (zero reduced column:
   they create a class), and a cell that some column has as its low is positive.  Hence every cell occurs in at most
   one bar and the barcode is a partition of the cells into pairs (birth, death) and unpaired births.
   Built on Reduce.v and RepCycle.v (vectors nat -> Z, "zero" = divisible by the prime p). *)
From Coq Require Import ZArith Lia Znumtheory Arith List.
Require Import Reduce ReduceExec RepCycle.
Local Open Scope Z_scope.

Section PosNeg.
Variable p : Z.
Hypothesis Hp : prime p.
Variable n : nat.

Notation zm := (zm p).
Notation is_low := (is_low p n).
Notation is_zero := (is_zero p n).
Notation veq := (veq p n).
Notation reduced := (reduced p n).
Notation tri := (tri p n).
Notation cycle := (cycle p n).
Notation bnd := (bnd p n).

Let zm_0 := zm_0 p Hp.
Let zm_add := zm_add p Hp.
Let zm_sub := zm_sub p Hp.
Let zm_opp := zm_opp p Hp.
Let zm_mul_r := zm_mul_r p Hp.
Let zm_mul_l := zm_mul_l p Hp.
Let veq_refl := veq_refl p Hp n.
Let veq_sym := veq_sym p Hp n.
Let veq_trans := veq_trans p Hp n.
Let veq_is_low := veq_is_low p Hp n.
Let veq_is_zero := veq_is_zero p Hp n.
Let zero_not_low := zero_not_low p n.
Let comb_low := comb_low p Hp n.
Let comb_through := comb_through p Hp n.
Let comb_ext := comb_ext p Hp n.
Let tri_weak := tri_weak p n.
Let tri_sym := tri_sym p Hp n.
Let inv_exists := inv_exists p Hp.
Let nzm_1 := nzm_1 p Hp.

(* a vector whose entries beyond b vanish: D.z only involves the first b+1 columns *)
Lemma comb_trunc (D : mat) (z : vec) (b : nat) : (b < n)%nat -> (forall i, (b < i < n)%nat -> zm (z i)) ->
  veq (comb D z n) (comb D z (S b)).
Proof.
  intros Hb Hz.
  set (z' := fun k => if le_dec k b then z k else 0).
  apply veq_trans with (comb D z' n).
  - apply comb_ext. intros k Hk. unfold z'. destruct (le_dec k b) as [Hle|Hgt].
    + rewrite Z.sub_diag. apply zm_0.
    + rewrite Z.sub_0_r. apply Hz. lia.
  - intros i Hi. rewrite (comb_cut D z' (S b) n i); [|lia|].
    + apply (comb_ext D z' z (S b)); [|exact Hi]. intros k Hk. unfold z'.
      destruct (le_dec k b) as [Hle|Hgt]; [rewrite Z.sub_diag; apply zm_0|lia].
    + intros k Hk. unfold z'. destruct (le_dec k b) as [Hle|Hgt]; [lia|reflexivity].
Qed.

(* the youngest cell of a cycle has its boundary in the span of the boundaries of the older cells *)
Lemma low_of_cycle_dependent (D : mat) (z : vec) (b : nat) :
  cycle D z -> is_low z b -> bnd D b (D b).
Proof.
  intros Hc (Hb & Hnz & Hz).
  destruct (inv_exists (z b) Hnz) as [u Hu].
  exists (fun k => - u * z k). intros i Hi.
  rewrite <- (comb_scale D z (- u) b i).
  (* comb D z (S b) i = comb D z b i + z b * D b i  is zero mod p *)
  assert (H0 : zm (comb D z (S b) i)).
  { apply (veq_zm p Hp n (comb D z n) (comb D z (S b)) i (comb_trunc D z b Hb Hz) Hi). apply Hc. exact Hi. }
  cbn [comb] in H0.
  replace (D b i - - u * comb D z b i) with (u * (comb D z b i + z b * D b i) - (u * z b - 1) * D b i) by ring.
  apply zm_sub; [apply zm_mul_r; exact H0|apply zm_mul_l; exact Hu].
Qed.

(* a column of R is, like the column of D it comes from, a combination of the first columns of D: if the boundary of
   cell b is in the span of the older boundaries, so is R_b *)
Lemma dependent_column_in_older_span (D R : mat) (b : nat) :
  tri D R -> (b < n)%nat -> bnd D b (D b) -> bnd D b (R b).
Proof.
  intros Ht Hb [g Hg].
  destruct (Ht b Hb) as [c [_ Hc]].
  exists (fun k => c k + c b * g k). intros i Hi.
  rewrite <- (comb_add D c (fun k => c b * g k) b i).
  rewrite <- (comb_scale D g (c b) b i).
  pose proof (Hc i Hi) as H1. cbn [comb] in H1.
  replace (R b i - (comb D c b i + c b * comb D g b i))
    with ((R b i - (comb D c b i + c b * D b i)) + c b * (D b i - comb D g b i)) by ring.
  apply zm_add; [exact H1|apply zm_mul_r; apply Hg; exact Hi].
Qed.

(* in a reduced matrix a column that is a combination of the earlier columns of D is zero *)
Lemma reduced_dependent_zero (D R : mat) (b : nat) :
  tri D R -> reduced R -> (b < n)%nat -> bnd D b (R b) -> is_zero (R b).
Proof.
  intros Ht Hr Hb [e He].
  pose proof (tri_sym D R Ht) as Hs.
  destruct (comb_through R D b ltac:(lia) (fun k Hk => tri_weak R D Hs k ltac:(lia)) e) as [e' He'].
  (* R_b = comb R e' b: the combination with coefficient -1 on column b vanishes *)
  set (f := fun k => if Nat.eq_dec k b then -1 else e' k).
  assert (Hzero : is_zero (comb R f (S b))).
  { intros i Hi. cbn [comb]. unfold f at 2. destruct (Nat.eq_dec b b) as [_|]; [|tauto].
    assert (E : veq (comb R f b) (comb R e' b)).
    { apply comb_ext. intros k Hk. unfold f. destruct (Nat.eq_dec k b); [lia|]. rewrite Z.sub_diag. apply zm_0. }
    replace (comb R f b i + -1 * R b i)
      with ((comb R f b i - comb R e' b i) - (R b i - comb D e b i) - (comb D e b i - comb R e' b i)) by ring.
    apply zm_sub; [apply zm_sub|].
    - apply E. exact Hi.
    - apply He. exact Hi.
    - apply He'. exact Hi. }
  destruct (comb_low R f Hr (S b) ltac:(lia)) as [[_ Hn]|(ks & ms & _ & _ & _ & Hlc & _)].
  - destruct (low_or_zero p n (R b)) as [Hz|[m Hm]]; [exact Hz|].
    exfalso. apply (Hn b ltac:(lia)). split.
    + unfold f. destruct (Nat.eq_dec b b) as [_|]; [|tauto]. intro H. apply nzm_1.
      replace 1 with (- (-1)) by ring. apply zm_opp. exact H.
    + intro Hz. eapply zero_not_low; eassumption.
  - exfalso. eapply zero_not_low; eassumption.
Qed.

(* conversely a zero column of R exhibits the dependence *)
Lemma zero_column_dependent (D R : mat) (b : nat) :
  tri D R -> (b < n)%nat -> is_zero (R b) -> bnd D b (D b).
Proof.
  intros Ht Hb Hz.
  destruct (Ht b Hb) as [c [Hcb Hc]].
  destruct (inv_exists (c b) Hcb) as [u Hu].
  exists (fun k => - u * c k). intros i Hi.
  rewrite <- (comb_scale D c (- u) b i).
  pose proof (Hc i Hi) as H1. cbn [comb] in H1.
  replace (D b i - - u * comb D c b i)
    with (u * R b i - u * (R b i - (comb D c b i + c b * D b i)) - (u * c b - 1) * D b i) by ring.
  apply zm_sub; [apply zm_sub|].
  - apply zm_mul_r. apply Hz. exact Hi.
  - apply zm_mul_r. exact H1.
  - apply zm_mul_l. exact Hu.
Qed.

(* ---- "positive" is intrinsic: the column b of ANY reduced decomposition is zero exactly when the boundary of cell b
        is a combination of the boundaries of the older cells *)
Theorem positive_iff_dependent (D R : mat) (b : nat) :
  tri D R -> reduced R -> (b < n)%nat -> (is_zero (R b) <-> bnd D b (D b)).
Proof.
  intros Ht Hr Hb. split.
  - apply zero_column_dependent; assumption.
  - intro H. apply (reduced_dependent_zero D R b Ht Hr Hb). apply dependent_column_in_older_span; assumption.
Qed.

(* ---- in a chain complex a cell that is the low of some column is positive: its own column is zero.  So no cell is
        both the birth of one bar and the death of another. *)
Theorem birth_column_is_zero (D R : mat) (j b : nat) :
  (forall k, (k < n)%nat -> cycle D (D k)) ->
  tri D R -> reduced R -> (j < n)%nat -> is_low (R j) b -> is_zero (R b).
Proof.
  intros HDD Ht Hr Hj Hl.
  assert (Hb : (b < n)%nat) by (destruct Hl; assumption).
  destruct (Ht j Hj) as [c [_ Hc]].
  (* z := the exact combination congruent to R_j; it is a cycle with low b *)
  assert (Hlz : is_low (comb D c (S j)) b) by (apply (veq_is_low _ _ b Hc); exact Hl).
  assert (Hcz : cycle D (comb D c (S j))).
  { intros i Hi. apply (comb_of_comb p Hp n). intros k Hk. apply (HDD k ltac:(lia)). exact Hi. }
  apply (reduced_dependent_zero D R b Ht Hr Hb).
  apply dependent_column_in_older_span; [exact Ht|exact Hb|].
  exact (low_of_cycle_dependent D (comb D c (S j)) b Hcz Hlz).
Qed.

(* ---- the partition: a cell is the low of at most one column, and if it is, it has no low of its own *)
Theorem barcode_partition (D R : mat) :
  (forall k, (k < n)%nat -> cycle D (D k)) -> tri D R -> reduced R ->
  forall b, (b < n)%nat ->
    (forall j1 j2, (j1 < n)%nat -> (j2 < n)%nat -> is_low (R j1) b -> is_low (R j2) b -> j1 = j2) /\
    (forall j m, (j < n)%nat -> is_low (R j) b -> ~ is_low (R b) m).
Proof.
  intros HDD Ht Hr b Hb. split.
  - intros j1 j2 H1 H2 L1 L2. destruct (Nat.eq_dec j1 j2) as [E|NE]; [exact E|].
    exfalso. exact (Hr j1 j2 b H1 H2 NE L1 L2).
  - intros j m Hj Hl Hm. eapply zero_not_low; [|exact Hm].
    exact (birth_column_is_zero D R j b HDD Ht Hr Hj Hl).
Qed.

(* ---- the youngest cell of ANY cycle is positive: a representative with youngest cell b can only represent a bar
        born at b, and such a bar exists in every reduced decomposition *)
Theorem cycle_low_is_positive (D R : mat) (z : vec) (b : nat) :
  tri D R -> reduced R -> cycle D z -> is_low z b -> is_zero (R b).
Proof.
  intros Ht Hr Hc Hl.
  assert (Hb : (b < n)%nat) by (destruct Hl; assumption).
  apply (reduced_dependent_zero D R b Ht Hr Hb).
  apply dependent_column_in_older_span; [exact Ht|exact Hb|].
  exact (low_of_cycle_dependent D z b Hc Hl).
Qed.

End PosNeg.

(* ------------------------------------------------------------------ the executable oracle
   The list returned by certified_lows (the oracle of every persistence property: C02, C05-C08, C11-C14, C19) describes
   a partition: when the input passes the verified chain-complex test, an entry Some b at index j (cell j kills the bar
   born at b) forces the entry at index b to be None (cell b is positive), and no other index holds Some b. *)
Section Oracle.
Variable p : Z.
Hypothesis Hp : prime p.

Lemma nth_lows n (M : dmat) j : (j < n)%nat ->
  nth j (lows p n M) None = low_of p n (to_mat M j).
Proof.
  intros Hj. unfold lows.
  rewrite (nth_indep _ None (low_of p n (to_mat M 0%nat))) by (rewrite map_length, seq_length; exact Hj).
  rewrite (map_nth (fun j0 => low_of p n (to_mat M j0)) (seq 0 n) 0%nat j).
  rewrite seq_nth by exact Hj. reflexivity.
Qed.

Theorem certified_pairs_disjoint (D : dmat) (l : list (option nat)) :
  check_chain_complex p (length D) D = true -> certified_lows p D = Some l ->
  forall j b, (j < length D)%nat -> nth j l None = Some b ->
    (b < length D)%nat /\ nth b l None = None /\
    forall j', (j' < length D)%nat -> nth j' l None = Some b -> j' = j.
Proof.
  intros Hcc Hl j b Hj Hn.
  unfold certified_lows in Hl.
  destruct (reduce p (length D) D) as [R V] eqn:E.
  destruct (check_RU p (length D) D R V) eqn:E0; [|discriminate].
  inversion Hl; subst l; clear Hl.
  set (n := length D) in *.
  destruct (check_RU_sound p n D R V E0) as [Ht Hr].
  pose proof (check_chain_complex_sound p n D Hcc) as HDD.
  rewrite nth_lows in Hn by exact Hj.
  apply (low_of_some p n) in Hn.
  assert (Hb : (b < n)%nat) by (destruct Hn; assumption).
  split; [exact Hb|]. split.
  - rewrite nth_lows by exact Hb. apply (low_of_none p n).
    exact (birth_column_is_zero p Hp n (to_mat D) (to_mat R) j b HDD Ht Hr Hj Hn).
  - intros j' Hj' Hn'. rewrite nth_lows in Hn' by exact Hj'. apply (low_of_some p n) in Hn'.
    destruct (Nat.eq_dec j' j) as [Eq|NE]; [exact Eq|].
    exfalso. exact (Hr j' j b Hj' Hj NE Hn' Hn).
Qed.
End Oracle.
