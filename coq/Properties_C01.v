(* C01 - the simplex tree equals the abstract complex defined by its operation history.
   Property theorems only: each is closed by [exact <lemma of C01_Proofs>] and followed by Print Assumptions.
   Algorithm model: Trie.v (prefix tree, find, enumeration) and C01_Model.v (function-by-function transcription of
   Simplex_tree.h: ins_raw = insert_simplex_raw, ins_sub = rec_insert_simplex_and_subfaces_sorted, ins_batch,
   rm_max = remove_maximal_simplex, prune_f = rec_prune_above_filtration, trunc = rec_prune_above_dimension,
   the state {tree; dim_ub = dimension_; dirty = dimension_to_be_lowered_}, step/run over operation histories).
   Specification model: Simplex.v (finite map simplex -> value, spec_insert, spec_insert_closure, ...) and
   C01_Model.spec_run.  [find_val t l] is the value stored for the sorted word t, [lookup K t] the map's. *)
From Coq Require Import ZArith List Bool.
Import ListNotations.
Require Import Simplex Trie C01_Model C01_Proofs C01_Cofaces C01_Closure C01_Counts.
Local Open Scope Z_scope.

(* ---- well-formedness (siblings strictly sorted, recursively) is kept by every mutating routine ---- *)
Theorem C01_wf_insert_simplex : forall s v l, wf l -> wf (ins_raw s v l).
Proof. exact wf_ins_raw. Qed.
Print Assumptions C01_wf_insert_simplex.

Theorem C01_wf_insert_simplex_and_subfaces : forall s v l, wf l -> wf (fst (ins_sub s v l)).
Proof. exact wf_ins_sub. Qed.
Print Assumptions C01_wf_insert_simplex_and_subfaces.

Theorem C01_wf_insert_batch_vertices : forall vs v l, wf l -> wf (ins_batch vs v l).
Proof. exact wf_ins_batch. Qed.
Print Assumptions C01_wf_insert_batch_vertices.

Theorem C01_wf_remove_maximal_simplex : forall s l a, wf l -> wf (fst (rm_max s l a)).
Proof. exact wf_rm_max. Qed.
Print Assumptions C01_wf_remove_maximal_simplex.

Theorem C01_wf_prune_above_filtration : forall f l, wf l -> wf (prune_sibs f l).
Proof. exact wf_prune. Qed.
Print Assumptions C01_wf_prune_above_filtration.

Theorem C01_wf_prune_above_dimension : forall l, wf l -> forall k, wf (trunc_sibs l k).
Proof. exact wf_trunc. Qed.
Print Assumptions C01_wf_prune_above_dimension.

(* ---- find = lookup in the abstraction (the words of the tree with their values) ---- *)
Theorem C01_find_is_lookup : forall l, wf l -> forall t, lookup (abs l) t = find_val t l.
Proof. exact find_abs. Qed.
Print Assumptions C01_find_is_lookup.

(* ---- insert_simplex: the word gets the value (min on re-insertion); missing prefixes are created with the
        same value (this is why the operation alone does not keep the set closed); nothing else changes ---- *)
Theorem C01_insert_simplex_effect : forall s v l t, s <> [] -> t <> [] ->
  find_val t (ins_raw s v l) =
  if seqb t s then Some (min_opt (find_val t l) v)
  else if prefixb t s && negb (is_some (find_val t l)) then Some v
  else find_val t l.
Proof. exact find_ins_raw. Qed.
Print Assumptions C01_insert_simplex_effect.

(* ---- insert_simplex_and_subfaces (the double recursion with the early exit): exactly the non-empty faces of s
        are added with v or lowered to min(old, v), everything else is unchanged, and the returned handle is null
        exactly when s was present with a value <= v.  Hypothesis [exit_ok]: among the faces of s, being present
        with a value <= v is inherited by faces - true in every closed complex with a monotone filtration. ---- *)
Theorem C01_insert_simplex_and_subfaces_effect : forall s v l, ssorted s -> s <> [] -> exit_ok l s v ->
  (snd (ins_sub s v l) = false <-> le_present l s v) /\
  (forall t, t <> [] ->
     find_val t (fst (ins_sub s v l)) = if subseq t s then Some (min_opt (find_val t l) v) else find_val t l).
Proof. exact find_ins_sub. Qed.
Print Assumptions C01_insert_simplex_and_subfaces_effect.

Theorem C01_closed_monotone_gives_exit_ok : forall K l s v, good K = true -> agree l K -> exit_ok l s v.
Proof. exact good_exit_ok. Qed.
Print Assumptions C01_closed_monotone_gives_exit_ok.

(* ---- remove_maximal_simplex: the node of s disappears with everything below it, nothing else changes ---- *)
Theorem C01_remove_maximal_simplex_effect : forall s l a t, wf l -> s <> [] -> t <> [] -> find_val s l <> None ->
  find_val t (fst (rm_max s l a)) = if prefixb s t then None else find_val t l.
Proof. exact find_rm_max. Qed.
Print Assumptions C01_remove_maximal_simplex_effect.

(* ---- prune_above_filtration: a word survives iff every node on its path has a value <= f ---- *)
Theorem C01_prune_above_filtration_effect : forall f t l, wf l -> t <> [] ->
  find_val t (prune_sibs f l) = if path_le f t l then find_val t l else None.
Proof. exact find_prune. Qed.
Print Assumptions C01_prune_above_filtration_effect.

(* ---- prune_above_dimension ---- *)
Theorem C01_prune_above_dimension_effect : forall t l k, t <> [] ->
  find_val t (trunc_sibs l k) = if (length t <=? S k)%nat then find_val t l else None.
Proof. exact find_trunc. Qed.
Print Assumptions C01_prune_above_dimension_effect.

(* ---- the height of the tree bounds the dimension of every stored simplex (dimension() recomputes it) ---- *)
Theorem C01_height_bounds_dimension : forall t l, find_val t l <> None -> sdim t <= height_t (Node l).
Proof. exact find_height. Qed.
Print Assumptions C01_height_bounds_dimension.

(* ---- history refinement: for ALL histories made of insert_simplex, insert_simplex_and_subfaces,
        insert_batch_vertices, insert_graph (on an empty tree), remove_maximal_simplex, prune_above_filtration, prune_above_dimension, clear and
        calls of dimension() and num_simplices_by_dimension() (both may rewrite the cached dimension), that meet the documented preconditions and keep the complex closed and monotone
        ([ok_history]): the tree is well formed, holds exactly the finite map of the specification run, and the
        cached dimension_ is an upper bound of the dimension of every simplex of the complex.  Holds for the
        repaired (fx = true) and the original (fx = false) dimension bookkeeping alike. ---- *)
Theorem C01_history_refines : forall fx ops,
  forallb refined_op ops = true -> ok_history ops = true ->
  wf (tree (run fx ops)) /\
  (forall t, t <> [] -> find_val t (tree (run fx ops)) = lookup (spec_run ops) t) /\
  (forall t, t <> [] -> lookup (spec_run ops) t <> None -> sdim t <= dim_ub (run fx ops)).
Proof. exact history_refines. Qed.
Print Assumptions C01_history_refines.

(* same statement through the abstraction function *)
Theorem C01_history_refines_abs : forall fx ops,
  forallb proved_op ops = true -> ok_history ops = true ->
  forall t, t <> [] -> lookup (abs (tree (run fx ops))) t = lookup (spec_run ops) t.
Proof. exact history_refines_abs. Qed.
Print Assumptions C01_history_refines_abs.

(* non-vacuity: a concrete 5-vertex history of 16 operations (every refined kind) satisfies the hypotheses *)
Theorem C01_history_hypotheses_nonvacuous :
  forallb refined_op example_history = true /\ ok_history example_history = true /\
  length (spec_run (firstn 14 example_history)) = 17%nat.
Proof. exact example_history_ok. Qed.
Print Assumptions C01_history_hypotheses_nonvacuous.

(* ---- the unrepaired code violates the property: witnesses of findings F1, F2, F3 (model with fx = false) ---- *)
Theorem C01_star_top_dim_refuted :
  exists ops s, ok_history ops = true /\ cmem (spec_run ops) s = true /\
                cofaces_unlinked false (run false ops) s 0 = [] /\ In s (star (spec_run ops) s) /\
                cofaces_linked (run false ops) s 0 = [s].
Proof. exact star_top_dim_refuted_lemma. Qed.
Print Assumptions C01_star_top_dim_refuted.

Theorem C01_dimension_after_emptying_refuted :
  exists ops, ok_history ops = true /\ spec_run ops = [] /\
              snd (dimension (run false ops)) <> cdim (spec_run ops) /\ eq_empty (run false ops) = false.
Proof. exact dimension_after_emptying_refuted_lemma. Qed.
Print Assumptions C01_dimension_after_emptying_refuted.

Theorem C01_expansion_empty_dimension_refuted :
  exists ops, ok_history ops = true /\ spec_run ops = [] /\ snd (dimension (run false ops)) = 0 /\ cdim (spec_run ops) = -1.
Proof. exact expansion_empty_dimension_refuted_lemma. Qed.
Print Assumptions C01_expansion_empty_dimension_refuted.

Theorem C01_repaired_on_the_witnesses :
  cofaces_unlinked true (run true [OInsertSub [0] 3]) [0] 0 = [[0]] /\
  snd (dimension (run true [OInsertSub [0] 3; ORemove [0]])) = -1 /\
  snd (dimension (run true [OExpand 3])) = -1.
Proof. exact repaired_on_witnesses. Qed.
Print Assumptions C01_repaired_on_the_witnesses.

(* ---- complex_simplex_range (children first, then the node): every stored simplex exactly once, with its value ---- *)
Theorem C01_enumeration_is_keys : forall l, wf l ->
  NoDup (map fst (enum_t (Node l))) /\
  forall t v, In (t, v) (enum_t (Node l)) <-> (t <> [] /\ find_val t l = Some v).
Proof. exact enumeration_is_keys. Qed.
Print Assumptions C01_enumeration_is_keys.

(* ---- exact dimension, for ALL refined histories (repaired bookkeeping): dimension() returns the dimension of the
        abstract complex (-1 when it is empty), and the cached dimension_ is already exact whenever
        dimension_to_be_lowered_ is false.  The same statement for fx = false is refuted above (F2). ---- *)
Theorem C01_dimension_exact : forall ops,
  forallb refined_op ops = true -> ok_history ops = true ->
  snd (dimension (run true ops)) = cdim (spec_run ops) /\
  (dirty (run true ops) = false -> dim_ub (run true ops) = cdim (spec_run ops)).
Proof. exact dimension_exact. Qed.
Print Assumptions C01_dimension_exact.

(* recomputation: lower_upper_bound_dimension attains the height of the tree *)
Theorem C01_height_is_attained : forall l, wf l -> l <> [] ->
  exists t, t <> [] /\ find_val t l <> None /\ sdim t = height_t (Node l).
Proof. exact height_witness. Qed.
Print Assumptions C01_height_is_attained.

(* ---- star and cofaces.  [keys_sorted l]: every stored word is strictly increasing (an invariant of histories, see
        C01_cofaces_over_histories).  The walk rec_coface behind cofaces_simplex_range of the option sets without label
        links (with the repaired early exit, fx = true) returns exactly the stored cofaces of the requested
        codimension (all of them for codimension 0 = star_simplex_range) ---- *)
Theorem C01_cofaces_walk_is_set_definition : forall st s c,
  wf (tree st) -> keys_sorted (tree st) -> ub_valid st -> ssorted s -> s <> [] -> 0 <= c ->
  forall t, In t (cofaces_unlinked true st s c) <->
            (find_val t (tree st) <> None /\ subseq s t = true /\ (c = 0 \/ sdim t = sdim s + c)).
Proof. exact cofaces_unlinked_correct. Qed.
Print Assumptions C01_cofaces_walk_is_set_definition.

(* the label-list search of Simplex_tree_star_simplex_iterators.h (nodes labelled max(s) whose path contains s, and
   everything below them) filtered by Fast_cofaces_predicate returns the same set *)
Theorem C01_cofaces_label_search_is_set_definition : forall st s c,
  wf (tree st) -> keys_sorted (tree st) -> ssorted s -> s <> [] -> 0 <= c ->
  forall t, In t (cofaces_linked st s c) <->
            (find_val t (tree st) <> None /\ subseq s t = true /\ (c = 0 \/ sdim t = sdim s + c)).
Proof. exact cofaces_linked_correct. Qed.
Print Assumptions C01_cofaces_label_search_is_set_definition.

Theorem C01_linked_equals_unlinked : forall st s c,
  wf (tree st) -> keys_sorted (tree st) -> ub_valid st -> ssorted s -> s <> [] -> 0 <= c ->
  forall t, In t (cofaces_unlinked true st s c) <-> In t (cofaces_linked st s c).
Proof. exact linked_equals_unlinked. Qed.
Print Assumptions C01_linked_equals_unlinked.

(* lifted to ALL refined histories: both searches report the star / the cofaces of the abstract complex *)
Theorem C01_cofaces_over_histories : forall ops s c,
  forallb refined_op ops = true -> ok_history ops = true -> s <> [] -> cmem (spec_run ops) s = true -> 0 <= c ->
  forall t, In t (cofaces_unlinked true (run true ops) s c) <->
            In t (if c =? 0 then star (spec_run ops) s else cofaces (spec_run ops) s c).
Proof. exact cofaces_history. Qed.
Print Assumptions C01_cofaces_over_histories.

Theorem C01_cofaces_over_histories_linked : forall ops s c,
  forallb refined_op ops = true -> ok_history ops = true -> s <> [] -> cmem (spec_run ops) s = true -> 0 <= c ->
  forall t, In t (cofaces_linked (run true ops) s c) <->
            In t (if c =? 0 then star (spec_run ops) s else cofaces (spec_run ops) s c).
Proof. exact cofaces_history_linked. Qed.
Print Assumptions C01_cofaces_over_histories_linked.

(* ---- boundary_simplex_range and boundary_opposite_vertex_simplex_range of a simplex s whose faces are stored:
        exactly |s| facets (none for a vertex), each obtained by dropping one vertex o (the opposite vertex),
        each found in the tree with its value ---- *)
Theorem C01_boundary : forall l s,
  (forall t, In t (faces s) -> find_val t l <> None) ->
  length (boundary_t l s) = (if (length s =? 1)%nat then 0 else length s)%nat /\
  forall f o v, In (f, o, v) (boundary_t l s) <->
                ((2 <= length s)%nat /\ v = find_val f l /\ v <> None /\ exists a b, s = a ++ o :: b /\ f = a ++ b).
Proof. exact boundary_correct. Qed.
Print Assumptions C01_boundary.

(* ---- skeleton_simplex_range(k): exactly the stored simplices of dimension <= k, with their values ---- *)
Theorem C01_skeleton : forall l, wf l -> forall k t v,
  In (t, v) (skel_t (Node l) k) <-> (t <> [] /\ (length t <= S k)%nat /\ find_val t l = Some v).
Proof. exact skeleton_correct. Qed.
Print Assumptions C01_skeleton.

(* ---- operator== : a tree rebuilt from the enumeration compares equal after every refined history (repaired
        bookkeeping; refuted for the original one by C01_dimension_after_emptying_refuted), and the tree equals an
        empty tree exactly when the abstract complex is empty ---- *)
Theorem C01_equality_over_histories : forall ops,
  forallb refined_op ops = true -> ok_history ops = true ->
  eq_rebuilt (run true ops) = true /\
  (eq_empty (run true ops) = true <-> forall t, t <> [] -> lookup (spec_run ops) t = None).
Proof. exact equality_over_histories. Qed.
Print Assumptions C01_equality_over_histories.

(* ---- num_simplices = cardinal of the abstract complex of the tree ---- *)
Theorem C01_num_simplices : forall l, wf l -> size_t (Node l) = Z.of_nat (length (keys (abs l))) /\ NoDup (keys (abs l)).
Proof. exact num_simplices_is_cardinal. Qed.
Print Assumptions C01_num_simplices.

(* ---- num_simplices_by_dimension with a pending recomputation: the vector it returns after dropping trailing zeros
        has length (dimension of the complex + 1), which is what it writes back into dimension_ ---- *)
Theorem C01_counts_writeback : forall st res,
  wf (tree st) -> tree st <> [] ->
  counts_t (Node (tree st)) 0 (repeat 0 (Z.to_nat (Z.min (dim_ub st + 1) 41))) = Some res ->
  let res' := rev (strip_zeros (rev res)) in
  (forall t, t <> [] -> find_val t (tree st) <> None -> sdim t <= Z.of_nat (length res') - 1) /\
  (exists t, t <> [] /\ find_val t (tree st) <> None /\ sdim t = Z.of_nat (length res') - 1).
Proof. exact count_by_dim_dirty. Qed.
Print Assumptions C01_counts_writeback.

(* ---- insert_graph on an empty tree: vertices 0..n-1 with their values, then the edges (first occurrence wins) ---- *)
Theorem C01_insert_graph_effect : forall vw es,
  forallb (edge_ok (Z.of_nat (length vw))) es = true ->
  agree (ins_graph vw es) (spec_graph vw es) /\
  (forall x, 0 <= x < Z.of_nat (length vw) -> find_val [x] (ins_graph vw es) <> None) /\
  (forall u0 v0 w es', es = (u0, v0, w) :: es' -> find_val [Z.min u0 v0; Z.max u0 v0] (ins_graph vw es) <> None).
Proof. exact graph_agree. Qed.
Print Assumptions C01_insert_graph_effect.

(* ---- closure: insertion with subfaces, batch vertices, removal of a maximal simplex (no coface), both prunings,
        clear keep the abstract complex closed under faces and the filtration monotone ([good]); hence the hypothesis
        [ok_history] of the history theorems follows from the documented preconditions alone ([pre_history]:
        goodness after the step is asked only of lone insert_simplex and insert_graph, which do not ensure it) ---- *)
Theorem C01_closed_step : forall K o,
  good K = true -> NoDup (keys K) -> pre_op K o = true -> closure_op o = true -> good (spec_step K o) = true.
Proof. exact closed_step. Qed.
Print Assumptions C01_closed_step.

(* lone insert_simplex: closed and monotone are kept when the proper faces are present with values <= v *)
Theorem C01_closed_step_insert_simplex : forall K s v,
  good K = true -> NoDup (keys K) -> norm s <> [] ->
  (forall t', t' <> [] -> t' <> norm s -> subseq t' (norm s) = true -> exists w', lookup K t' = Some w' /\ w' <= v) ->
  good (spec_step K (OInsert s v)) = true.
Proof. exact closed_step_insert. Qed.
Print Assumptions C01_closed_step_insert_simplex.

Theorem C01_preconditions_suffice : forall ops,
  forallb refined_op ops = true -> pre_history ops = true -> ok_history ops = true.
Proof. exact pre_history_ok. Qed.
Print Assumptions C01_preconditions_suffice.

(* ---- num_simplices_by_dimension: when the cached dimension is a valid bound (below the 41 the code allows) the call
        succeeds, entry i of the returned vector is the number of simplices of dimension i of the abstract complex
        of the tree, and there is no simplex of a dimension beyond the vector ---- *)
Theorem C01_counts : forall st,
  wf (tree st) -> ub_valid st -> dim_ub st < 41 ->
  exists r, snd (count_by_dim st) = Some r /\
            (forall i, (i < length r)%nat -> nth i r 0 = count_dim (abs (tree st)) (Z.of_nat i)) /\
            (forall i, (length r <= i)%nat -> count_dim (abs (tree st)) (Z.of_nat i) = 0).
Proof. exact count_by_dim_correct. Qed.
Print Assumptions C01_counts.

(* ---- complex_vertex_range (labels of the root Siblings): exactly the vertices, ascending, each once ---- *)
Theorem C01_vertex_range : forall l, wf l ->
  (forall x, In x (map label l) <-> find_val [x] l <> None) /\ Sorted.StronglySorted Z.lt (map label l).
Proof. exact vertex_range_correct. Qed.
Print Assumptions C01_vertex_range.

(* ---- the abstraction (DFS pre-order) lists the words in strictly increasing lexicographic order, prefixes first ---- *)
Theorem C01_abstraction_sorted : forall l, wf l -> Sorted.StronglySorted lex_lt (keys (abs l)).
Proof. exact abs_sorted. Qed.
Print Assumptions C01_abstraction_sorted.

(* ---- stated, not proved in Coq (compared per input by the correspondence run instead) ---- *)
(* histories that also contain expansion - an operation the property text does not list; its algorithm
   (siblings_expansion) is the subject of C04; here it is modelled at specification level (spec_expand) with the
   exact dimension_ arithmetic of expansion(), and compared with the C++ per input *)
Definition C01_history_refines_full : Prop :=
  forall ops, ok_history ops = true ->
    (forall t, t <> [] -> find_val t (tree (run true ops)) = lookup (spec_run ops) t) /\
    snd (dimension (run true ops)) = cdim (spec_run ops).
(* the iteration ORDER of complex_simplex_range / skeleton_simplex_range (post-order DFS) and of the boundary
   (drop the last vertex first) is part of the algorithm model and compared verbatim with the C++; only the
   set / multiset content is a theorem *)
