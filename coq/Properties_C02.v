(* C02 — persistent cohomology returns the true persistence pairs for every field.
   Property theorems only (proofs in Reduce.v / ReduceExec.v / C02_Proofs.v; models in C02_Model.v).
   Reading guide:
     [cells]            the filtered complex in the filtration order the implementation exposes: per simplex its dimension,
                        the keys (positions) of its facets in the order of boundary_simplex_range, its filtration value;
     [valid cells]      facets come earlier and have one dimension less, an edge has two facets;
     [pcoh_gen sw F cells flag m]   the algorithm model of compute_persistent_cohomology(m) with persistence_dim_max = flag
                        (sw = false on a Simplex_tree, [pcoh]; sw = true on a Hasse / cubical complex, whose endpoints() come in
                        the other order) over the coefficient structure F ([zp_ops p] = Field_Zp, [mf_ops primes] = Multi_field): the content of
                        persistent_pairs_ as (birth key, death key | None, characteristic);
     [barcode p cells dim_max m]   the specification: pivots of the certified reduction of the boundary matrix over Z_p,
                        as (dimension, birth value, death value | None), minus the intervals with death - birth <= m and the
                        dimensions >= dim_max.
   What is NOT a theorem here: [C02_pcoh_full] and [C02_multifield_full] (the algorithm's pairs ARE the oracle's).  They are
   evaluated on every generated input by the correspondence check, for the extracted model and for the C++. *)
From Coq Require Import ZArith List Bool Znumtheory Permutation.
Require Import C10_Model Reduce ReduceExec C02_Model C02_Proofs.
Import ListNotations.
Local Open Scope Z_scope.

(* ------------------------------------------------------------------ (a) the reference diagram is well defined *)
(* any two reduced matrices obtained from the boundary matrix D by left-to-right column operations have the same pivots *)
Theorem C02_oracle_pairing_unique : forall p, prime p -> forall n D R1 R2,
  tri p n D R1 -> tri p n D R2 -> reduced p n R1 -> reduced p n R2 ->
  forall j, (j < n)%nat ->
    (forall m, is_low p n (R1 j) m <-> is_low p n (R2 j) m) /\ (is_zero p n (R1 j) <-> is_zero p n (R2 j)).
Proof. exact lows_unique. Qed.
Print Assumptions C02_oracle_pairing_unique.

(* whenever the oracle answers, its pairs are those of ANY decomposition of the boundary matrix accepted by the verified checker *)
Theorem C02_oracle_canonical : forall p cells l R Fm, prime p -> oracle_pairs p cells = Some l ->
  check_any p (length (bmatrix cells)) (bmatrix cells) R Fm = true ->
  pairs_of_lows (lows p (length (bmatrix cells)) R) = l.
Proof. exact oracle_pairs_canonical. Qed.
Print Assumptions C02_oracle_canonical.

(* ------------------------------------------------------------------ (b) invariants of the algorithm, every complex, every prime *)
(* each simplex occurs at most once in the pair list (as a birth or as a death) *)
Theorem C02_paired_at_most_once : forall p, prime p -> p < 65536 -> forall cells, valid cells -> forall flag m sw,
  NoDup (pair_keys (pcoh_gen sw (zp_ops p) cells flag m)).
Proof. exact pcoh_paired_once. Qed.
Print Assumptions C02_paired_at_most_once.

(* ... and exactly once when the minimal length discards nothing (e.g. m < 0 on a monotone filtration): every simplex of
   dimension below dim_max = dimension() + persistence_dim_max occurs in the pair list (as a death, a birth, or an infinite interval) *)
Theorem C02_paired_exactly_once_without_filter : forall p, prime p -> p < 65536 -> forall cells, valid cells -> forall flag m sw,
  (forall b d, (b < d)%nat -> length_ok cells m b d = true) ->
  forall k, (k < length cells)%nat -> Z.of_nat (dim_of cells k) < dim_max_of cells flag ->
  In k (pair_keys (pcoh_gen sw (zp_ops p) cells flag m)).
Proof. exact pcoh_complete. Qed.
Print Assumptions C02_paired_exactly_once_without_filter.

(* hence Euler's formula for the unpaired simplices: when nothing is filtered and no dimension is cut (persistence_dim_max), the
   alternating count of the infinite intervals is the Euler characteristic of the complex, over every prime field *)
Theorem C02_euler_formula : forall p, prime p -> p < 65536 -> forall cells, valid cells -> forall flag m sw,
  (forall b d, (b < d)%nat -> length_ok cells m b d = true) ->
  (forall k, (k < length cells)%nat -> Z.of_nat (dim_of cells k) < dim_max_of cells flag) ->
  euler_inf cells (pcoh_gen sw (zp_ops p) cells flag m) = euler cells.
Proof. exact pcoh_euler. Qed.
Print Assumptions C02_euler_formula.

(* birth precedes death in the filtration, the death simplex has one dimension more, the pair carries the characteristic *)
Theorem C02_birth_before_death : forall p, prime p -> p < 65536 -> forall cells, valid cells -> forall flag m sw b d ch,
  In (b, Some d, ch) (pcoh_gen sw (zp_ops p) cells flag m) ->
  (b < d)%nat /\ (d < length cells)%nat /\ dim_of cells d = S (dim_of cells b) /\ ch = p.
Proof. exact pcoh_order. Qed.
Print Assumptions C02_birth_before_death.

Theorem C02_essential_pairs : forall p, prime p -> p < 65536 -> forall cells, valid cells -> forall flag m sw b ch,
  In (b, None, ch) (pcoh_gen sw (zp_ops p) cells flag m) -> (b < length cells)%nat /\ ch = p.
Proof. exact pcoh_essential. Qed.
Print Assumptions C02_essential_pairs.

(* after every prefix of the filtration every coordinate of the annotation matrix is a cocycle of the current complex:
   the (signed) annotation of the boundary of every simplex inserted so far is the null vector *)
Theorem C02_annotations_are_cocycles : forall p, prime p -> p < 65536 -> forall cells, valid cells ->
  forall m sw pre suf dim_max, cells = pre ++ suf ->
  let s := run sw (zp_ops p) cells dim_max m pre in
  forall t j, (t < length pre)%nat ->
    vget (bann (zp_ops p) (s_ann s) (dim_of cells t) (c_faces (nth t cells (mkcell 0 [] 0))) 0 []) j = 0.
Proof. exact pcoh_cocycles. Qed.
Print Assumptions C02_annotations_are_cocycles.

(* a non-zero coefficient of an annotation vector sits at a live class (a row of transverse_idx_) of the dimension of
   the annotated simplex, and is a canonical residue: killed classes have left every column *)
Theorem C02_annotations_supported_on_live_classes : forall p, prime p -> p < 65536 -> forall cells, valid cells ->
  forall m sw pre suf dim_max, cells = pre ++ suf ->
  let s := run sw (zp_ops p) cells dim_max m pre in
  forall t j, vget (nth t (s_ann s) []) j <> 0 ->
    In j (map fst (s_rows s)) /\ dim_of cells j = dim_of cells t /\ 0 < vget (nth t (s_ann s) []) j < p.
Proof. exact pcoh_support. Qed.
Print Assumptions C02_annotations_supported_on_live_classes.

(* the live cocycles are non-trivial and linearly independent: coordinate j vanishes on the simplices inserted before sigma_j
   and is 1 on sigma_j as long as the class j is alive (triangular shape) *)
Theorem C02_live_cocycles_independent : forall p, prime p -> p < 65536 -> forall cells, valid cells ->
  forall m sw pre suf dim_max, cells = pre ++ suf ->
  let s := run sw (zp_ops p) cells dim_max m pre in
  (forall t j, vget (nth t (s_ann s) []) j <> 0 -> (j <= t)%nat) /\
  (forall j, In j (map fst (s_rows s)) -> vget (nth j (s_ann s) []) j = 1).
Proof. exact pcoh_live_independent. Qed.
Print Assumptions C02_live_cocycles_independent.

(* the column update of destroy_cocycle kills the pivot coefficient (inverse table of Field_Zp, p prime) *)
Theorem C02_pivot_coefficient_killed : forall p, prime p -> p < 65536 -> forall a dk x c,
  0 < x < p -> vget a dk = x -> 0 <= vget c dk < p -> vget (upd p a dk (inv_of p x) c) dk = 0.
Proof. exact upd_kill. Qed.
Print Assumptions C02_pivot_coefficient_killed.

(* the part that does not depend on the arithmetic holds for every coefficient structure, Multi_field included (there a
   simplex may close several intervals, one per group of characteristics): births precede deaths, one dimension apart *)
Theorem C02_birth_before_death_any_coefficients : forall FO cells flag m sw,
  (forall w, f_pte FO 0 0 w = 0) -> (forall x, f_tm FO x 0 = 0) -> valid cells ->
  forall b d ch, In (b, Some d, ch) (pcoh_gen sw FO cells flag m) ->
  (b < d)%nat /\ (d < length cells)%nat /\ dim_of cells d = S (dim_of cells b).
Proof. exact pcoh_gen_order_any_field. Qed.
Print Assumptions C02_birth_before_death_any_coefficients.

Theorem C02_birth_before_death_multifield : forall primes cells flag m sw, valid cells ->
  forall b d ch, In (b, Some d, ch) (pcoh_gen sw (mf_ops primes) cells flag m) ->
  (b < d)%nat /\ (d < length cells)%nat /\ dim_of cells d = S (dim_of cells b).
Proof. exact pcoh_multifield_order. Qed.
Print Assumptions C02_birth_before_death_multifield.

(* ------------------------------------------------------------------ (c) the read-outs are the stated functions of the pair list *)
(* they depend on the multiset of pairs only (the engine lists the infinite H0 intervals in unordered_map order) *)
Theorem C02_betti_numbers_of_multiset : forall cells dim_max ps ps', Permutation ps ps' ->
  betti_numbers cells dim_max ps = betti_numbers cells dim_max ps'.
Proof. exact betti_numbers_perm. Qed.
Print Assumptions C02_betti_numbers_of_multiset.

Theorem C02_persistent_betti_numbers_of_multiset : forall cells dim_max ps ps' from to, Permutation ps ps' ->
  persistent_betti_numbers cells dim_max ps from to = persistent_betti_numbers cells dim_max ps' from to.
Proof. exact persistent_betti_numbers_perm. Qed.
Print Assumptions C02_persistent_betti_numbers_of_multiset.

Theorem C02_betti_numbers_entries : forall cells dim_max ps d, Z.of_nat d < dim_max ->
  nth d (betti_numbers cells dim_max ps) 0 = betti_number cells ps d.
Proof. exact betti_numbers_nth. Qed.
Print Assumptions C02_betti_numbers_entries.

Theorem C02_persistent_betti_numbers_entries : forall cells dim_max ps from to d, Z.of_nat d < dim_max ->
  nth d (persistent_betti_numbers cells dim_max ps from to) 0 = persistent_betti_number cells ps d from to.
Proof. exact persistent_betti_numbers_nth. Qed.
Print Assumptions C02_persistent_betti_numbers_entries.

(* intervals_in_dimension d lists exactly the (birth value, death value) of the pairs whose birth simplex has dimension d *)
Theorem C02_intervals_in_dimension_from_pairs : forall cells ps d b e,
  In (b, e) (intervals_in_dimension cells ps d) <->
  exists x, In x ps /\ dim_of cells (p_birth x) = d /\ b = val_of cells (p_birth x) /\ e = option_map (val_of cells) (p_death x).
Proof. exact intervals_in_dimension_spec. Qed.
Print Assumptions C02_intervals_in_dimension_from_pairs.

(* Betti number of dimension d = number of intervals of dimension d that never die *)
Theorem C02_betti_from_pairs : forall cells ps d,
  betti_number cells ps d =
  Z.of_nat (length (filter (fun iv => match snd iv with None => true | Some _ => false end) (intervals_in_dimension cells ps d))).
Proof. exact betti_from_intervals. Qed.
Print Assumptions C02_betti_from_pairs.

(* persistent Betti number (from, to) = number of intervals born at or before [from] and dying after [to] (or never) *)
Theorem C02_persistent_betti_from_pairs : forall cells ps d from to,
  persistent_betti_number cells ps d from to =
  Z.of_nat (length (filter (fun iv => (fst iv <=? from) && match snd iv with None => true | Some e => to <? e end)
                           (intervals_in_dimension cells ps d))).
Proof. exact persistent_betti_from_intervals. Qed.
Print Assumptions C02_persistent_betti_from_pairs.

Theorem C02_persistent_betti_at_infinity : forall cells ps d from to,
  (forall x, In x ps -> val_of cells (p_birth x) <= from) ->
  (forall x e, In x ps -> p_death x = Some e -> val_of cells e <= to) ->
  persistent_betti_number cells ps d from to = betti_number cells ps d.
Proof. exact persistent_betti_at_infinity. Qed.
Print Assumptions C02_persistent_betti_at_infinity.

(* ------------------------------------------------------------------ the clause that is measured, not proved *)
(* For a simplicial complex given in a valid filtration order, the (dimension, birth, death) multiset of the pairs of the
   annotation algorithm over Z_p equals the diagram of the boundary-matrix reduction over Z_p (after the same length filter and
   dimension cut).  This is the duality between persistent cohomology and persistent homology (de Silva, Morozov,
   Vejdemo-Johansson 2011) together with the elder-rule treatment of H0; missing for a proof: the construction, from the
   annotation matrix, of a reduced R = D.V whose pivots are the emitted pairs.  Instances: rp2_duality in C02_Proofs.v. *)
Definition C02_pcoh_full : Prop :=
  forall p order cells flag m, prime p -> p <= 46337 ->
    (forall s, In s (map fst order) -> increasing s = true) -> NoDup (map fst order) ->
    cells_of order = Some cells -> valid cells ->
    exists bc, barcode p cells (dim_max_of cells flag) m = Some bc /\
               msame (value_view cells 1 (pcoh (zp_ops p) cells flag m)) bc = true.

(* Multi-field version: for every prime q of the range, the intervals whose attached product q divides form the diagram over Z_q. *)
Definition C02_multifield_full : Prop :=
  forall lo hi order cells flag m q,
    In q (primes_between lo hi) ->
    (forall s, In s (map fst order) -> increasing s = true) -> NoDup (map fst order) ->
    cells_of order = Some cells -> valid cells ->
    exists bc, barcode q cells (dim_max_of cells flag) m = Some bc /\
               msame (value_view cells q (pcoh (mf_ops (primes_between lo hi)) cells flag m)) bc = true.
