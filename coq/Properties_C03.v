(* C03 - Filtration order and filtration-value maintenance are valid and deterministic.
   Property theorems only: each is closed by [exact <lemma>] and followed by Print Assumptions.

   Vocabulary (coq/C03_Model.v, coq/C03_Defs.v):
     simplex = increasing vertex list; cplx V = association list simplex -> value (the abstraction of the simplex tree);
     vlt = operator< of Filtration_value, a strict weak order (StrictWeak); is_before = the comparator
     is_before_in_totally_ordered_filtration (value first, then reverse_lexicographic_order); fle a b = not (is_before b a);
     sorts f = "f returns a sorted permutation of its input" (the contract of std::stable_sort / tbb::parallel_sort,
     whatever the schedule); initialize_filtration_with sort ign K = the cache computed by initialize_filtration;
     traversal K = visiting order of rec_for_each_simplex; make_filtration_non_decreasing, prune_above_filtration,
     extend_filtration, decode_extended_filtration = transcriptions of the C++ members on the abstraction;
     subseq t s = t is a face of s; wf = distinct non-empty increasing keys; closed = simplicial complex;
     monotone = faces never have larger values; is_sup K0 s v = v is the maximum of the K0-values of the faces of s. *)
From Coq Require Import ZArith QArith List Bool Sorted Permutation.
Require Import C03_Model C03_Defs C03_Proofs C03_Ext.
Import ListNotations.

(* ---------------------------------------------------------------- 1. the comparator is a strict total order on distinct simplices *)
Theorem C03_comparator_irreflexive : forall (V : Type) (vlt : V -> V -> bool), StrictWeak vlt ->
  forall a : simplex * V, is_before vlt a a = false.
Proof. exact is_before_irrefl. Qed.
Print Assumptions C03_comparator_irreflexive.

Theorem C03_comparator_transitive : forall (V : Type) (vlt : V -> V -> bool), StrictWeak vlt ->
  forall a b c : simplex * V, is_before vlt a b = true -> is_before vlt b c = true -> is_before vlt a c = true.
Proof. exact is_before_trans. Qed.
Print Assumptions C03_comparator_transitive.

Theorem C03_comparator_asymmetric : forall (V : Type) (vlt : V -> V -> bool), StrictWeak vlt ->
  forall a b : simplex * V, is_before vlt a b = true -> is_before vlt b a = false.
Proof. exact is_before_asym. Qed.
Print Assumptions C03_comparator_asymmetric.

Theorem C03_comparator_total_on_distinct_simplices : forall (V : Type) (vlt : V -> V -> bool) (a b : simplex * V),
  fst a <> fst b -> is_before vlt a b = true \/ is_before vlt b a = true.
Proof. exact is_before_total. Qed.
Print Assumptions C03_comparator_total_on_distinct_simplices.

(* it is a strict weak ordering, which is what the two sorting routines require of their comparator *)
Theorem C03_comparator_strict_weak_ordering : forall (V : Type) (vlt : V -> V -> bool), StrictWeak vlt ->
  forall a b c : simplex * V, is_before vlt a b = false -> is_before vlt b c = false -> is_before vlt a c = false.
Proof. exact is_before_negtrans. Qed.
Print Assumptions C03_comparator_strict_weak_ordering.

(* the tie-break puts a proper face before its cofaces *)
Theorem C03_tie_break_faces_first : forall t s : simplex, incr s -> subseq t s -> t <> s -> revlex t s = true.
Proof. exact face_revlex. Qed.
Print Assumptions C03_tie_break_faces_first.

(* ---------------------------------------------------------------- 2. determinism: sorted permutations are unique *)
Theorem C03_sorted_permutation_unique : forall (A : Type) (le : A -> A -> bool) (l1 l2 : list A),
  (forall a b : A, In a l1 -> In b l1 -> le a b = true -> le b a = true -> a = b) ->
  sorted le l1 -> sorted le l2 -> Permutation l1 l2 -> l1 = l2.
Proof. exact sorted_perm_unique. Qed.
Print Assumptions C03_sorted_permutation_unique.

(* the merge sort of the model and an insertion sort are sorting routines (non-vacuity of [sorts]) *)
Theorem C03_merge_sort_sorts : forall (V : Type) (vlt : V -> V -> bool), StrictWeak vlt -> sorts V vlt (msort (fle vlt)).
Proof. exact msort_sorts. Qed.
Print Assumptions C03_merge_sort_sorts.

Theorem C03_insertion_sort_sorts : forall (V : Type) (vlt : V -> V -> bool), StrictWeak vlt -> sorts V vlt (isort (fle vlt)).
Proof. exact isort_sorts. Qed.
Print Assumptions C03_insertion_sort_sorts.

(* THE DETERMINISM THEOREM.  The filtration range is a function of the (simplex -> value) map alone: the same pairs stored in
   any order (insertion history, storage options: K1 and K2 are permutations of each other), sorted by any two routines that
   sort (sequential, parallel, any thread schedule), with the same ignore flag, give the same list. *)
Theorem C03_range_deterministic : forall (V : Type) (vlt : V -> V -> bool) (vinf : V)
  (sort1 sort2 : list (simplex * V) -> list (simplex * V)) (ign : bool) (K1 K2 : cplx V),
  sorts V vlt sort1 -> sorts V vlt sort2 -> NoDup (map fst K1) -> Permutation K1 K2 ->
  initialize_filtration_with vlt vinf sort1 ign K1 = initialize_filtration_with vlt vinf sort2 ign K2.
Proof. exact range_deterministic. Qed.
Print Assumptions C03_range_deterministic.

(* ---------------------------------------------------------------- 3. the range is a valid filtration order *)
(* every non-ignored simplex exactly once *)
Theorem C03_range_lists_each_once : forall (V : Type) (vlt : V -> V -> bool) (vinf : V)
  (sort : list (simplex * V) -> list (simplex * V)) (ign : bool) (K : cplx V),
  sorts V vlt sort -> NoDup (map fst K) ->
  Permutation (initialize_filtration_with vlt vinf sort ign K) (map fst (kept V vlt vinf ign K)) /\
  NoDup (initialize_filtration_with vlt vinf sort ign K).
Proof. exact range_lists_each_once. Qed.
Print Assumptions C03_range_lists_each_once.

Theorem C03_nothing_ignored_by_default : forall (V : Type) (vlt : V -> V -> bool) (vinf : V) (K : cplx V), kept V vlt vinf false K = K.
Proof. exact kept_all. Qed.
Print Assumptions C03_nothing_ignored_by_default.

(* values never decrease along the range *)
Theorem C03_range_non_decreasing : forall (V : Type) (vlt : V -> V -> bool) (sort : list (simplex * V) -> list (simplex * V)) (l : cplx V),
  sorts V vlt sort -> StronglySorted (fun a b : simplex * V => vlt (snd b) (snd a) = false) (sort l).
Proof. exact range_non_decreasing. Qed.
Print Assumptions C03_range_non_decreasing.

(* for a monotone filtration no simplex comes before one of its proper faces *)
Theorem C03_range_faces_first : forall (V : Type) (vlt : V -> V -> bool) (sort : list (simplex * V) -> list (simplex * V)) (K : cplx V),
  sorts V vlt sort -> wf K -> monotone vlt K ->
  forall (l1 : list (simplex * V)) (a : simplex * V) (l2 : list (simplex * V)) (b : simplex * V),
  sort K = l1 ++ a :: l2 -> In b l2 -> ~ (subseq (fst b) (fst a) /\ fst b <> fst a).
Proof. exact range_faces_first. Qed.
Print Assumptions C03_range_faces_first.

(* NOT true of the code as it stands: "after initialize_filtration(ignore_infinite_values = true) the range lists exactly the
   simplices whose value is not +infinity".  filtration_vect_ being empty means "not computed", so when every simplex is ignored
   the next filtration_simplex_range() recomputes the cache without ignoring anything. *)
Definition C03_range_lists_only_non_ignored_full : Prop :=
  forall (V : Type) (vlt : V -> V -> bool) (vinf : V) (K : cplx V), NoDup (map fst K) ->
  Permutation (map fst (snd (filtration_simplex_range vlt vinf (op_initialize_filtration vlt vinf true (K, [])))))
              (map fst (kept V vlt vinf true K)).
Theorem C03_all_ignored_range_refuted : exists (K : cplx Z), K <> [] /\ (forall p, In p K -> snd p = 1000%Z) /\
  snd (op_initialize_filtration Z.ltb 1000%Z true (K, [])) = [] /\
  snd (filtration_simplex_range Z.ltb 1000%Z (op_initialize_filtration Z.ltb 1000%Z true (K, []))) = [([0%Z], Some 1000%Z)].
Proof. exact all_ignored_range_refuted. Qed.
Print Assumptions C03_all_ignored_range_refuted.

(* the cache: after clear_filtration the next filtration_simplex_range is recomputed from the current complex; the mutators
   drop the cache whenever they report a change; when make_filtration_non_decreasing reports no change the complex is
   literally unchanged (so the kept cache is still the right answer) *)
Theorem C03_range_recomputed_after_clear : forall (V : Type) (vlt : V -> V -> bool) (vinf : V) (st : state V),
  snd (filtration_simplex_range vlt vinf (clear_filtration st)) = with_values (fst st) (initialize_filtration vlt vinf false (fst st)).
Proof. exact range_after_clear. Qed.
Print Assumptions C03_range_recomputed_after_clear.

Theorem C03_mfnd_drops_cache : forall (V : Type) (vlt : V -> V -> bool) (st : state V),
  snd (op_mfnd vlt st) = true -> snd (fst (op_mfnd vlt st)) = [].
Proof. exact mfnd_drops_cache. Qed.
Print Assumptions C03_mfnd_drops_cache.

Theorem C03_prune_drops_cache : forall (V : Type) (vlt : V -> V -> bool) (vinf : V) (f : V) (st : state V),
  snd (op_prune vlt vinf f st) = true -> snd (fst (op_prune vlt vinf f st)) = [].
Proof. exact prune_drops_cache. Qed.
Print Assumptions C03_prune_drops_cache.

Theorem C03_mfnd_unchanged_when_false : forall (V : Type) (vlt : V -> V -> bool) (K0 : cplx V),
  snd (make_filtration_non_decreasing vlt K0) = false -> fst (make_filtration_non_decreasing vlt K0) = K0.
Proof. exact mfnd_unchanged_when_false. Qed.
Print Assumptions C03_mfnd_unchanged_when_false.

(* ---------------------------------------------------------------- 4. make_filtration_non_decreasing *)
(* rec_for_each_simplex visits every simplex once and every facet before the simplex (dfs_rtl_faces_first) *)
Theorem C03_traversal_lists_each_once : forall (V : Type) (K0 : cplx V), Permutation (traversal K0) (map fst K0).
Proof. exact traversal_perm. Qed.
Print Assumptions C03_traversal_lists_each_once.

Theorem C03_traversal_facets_first : forall (V : Type) (K0 : cplx V), wf K0 -> closed K0 ->
  forall (l1 : list simplex) (s : simplex) (l2 : list simplex),
  traversal K0 = l1 ++ s :: l2 -> forall b : simplex, In b (facets s) -> b <> [] -> In b l1.
Proof. exact traversal_facets_first. Qed.
Print Assumptions C03_traversal_facets_first.

(* the transcribed algorithm keeps the simplices and gives each the maximum of the input values of its faces *)
Theorem C03_mfnd_spec : forall (V : Type) (vlt : V -> V -> bool), StrictWeak vlt ->
  forall K0 : cplx V, wf K0 -> closed K0 ->
    map fst (fst (make_filtration_non_decreasing vlt K0)) = map fst K0 /\
    (forall s, In s (map fst K0) ->
       exists v, lookup (fst (make_filtration_non_decreasing vlt K0)) s = Some v /\ is_sup vlt K0 s v).
Proof. exact mfnd_spec. Qed.
Print Assumptions C03_mfnd_spec.

(* ... which is the least monotone function above the input: above, monotone, least *)
Theorem C03_mfnd_above_input : forall (V : Type) (vlt : V -> V -> bool), StrictWeak vlt ->
  forall K0 : cplx V, wf K0 -> closed K0 ->
  forall (s : simplex) (v0 v : V), lookup K0 s = Some v0 ->
  lookup (fst (make_filtration_non_decreasing vlt K0)) s = Some v -> vlt v v0 = false.
Proof. exact mfnd_above_input. Qed.
Print Assumptions C03_mfnd_above_input.

Theorem C03_mfnd_monotone : forall (V : Type) (vlt : V -> V -> bool), StrictWeak vlt ->
  forall K0 : cplx V, wf K0 -> closed K0 -> monotone vlt (fst (make_filtration_non_decreasing vlt K0)).
Proof. exact mfnd_monotone. Qed.
Print Assumptions C03_mfnd_monotone.

Theorem C03_mfnd_least : forall (V : Type) (vlt : V -> V -> bool), StrictWeak vlt ->
  forall K0 : cplx V, wf K0 -> closed K0 ->
  forall G : cplx V, monotone vlt G ->
  (forall (s : simplex) (v0 : V), lookup K0 s = Some v0 -> exists g : V, lookup G s = Some g /\ vlt g v0 = false) ->
  forall (s : simplex) (v g : V), lookup (fst (make_filtration_non_decreasing vlt K0)) s = Some v ->
  lookup G s = Some g -> vlt g v = false.
Proof. exact mfnd_least. Qed.
Print Assumptions C03_mfnd_least.

(* the returned boolean is true exactly when some value changed (values only grow) *)
Theorem C03_mfnd_returns_true_iff_changed : forall (V : Type) (vlt : V -> V -> bool), StrictWeak vlt ->
  forall K0 : cplx V, wf K0 -> closed K0 ->
  snd (make_filtration_non_decreasing vlt K0) = true <->
  (exists (s : simplex) (v0 v : V), lookup K0 s = Some v0 /\
     lookup (fst (make_filtration_non_decreasing vlt K0)) s = Some v /\ vlt v0 v = true).
Proof. exact mfnd_flag. Qed.
Print Assumptions C03_mfnd_returns_true_iff_changed.

Theorem C03_mfnd_returns_false_on_monotone : forall (V : Type) (vlt : V -> V -> bool), StrictWeak vlt ->
  forall K0 : cplx V, wf K0 -> closed K0 -> monotone vlt K0 -> snd (make_filtration_non_decreasing vlt K0) = false.
Proof. exact mfnd_flag_false_on_monotone. Qed.
Print Assumptions C03_mfnd_returns_false_on_monotone.

(* ---------------------------------------------------------------- 5. prune_above_filtration keeps exactly the sublevel complex *)
Theorem C03_prune_sublevel : forall (V : Type) (vlt : V -> V -> bool) (vinf : V), StrictWeak vlt ->
  forall (K : cplx V) (f : V), wf K -> closed K -> monotone vlt K ->
  (forall s v, In (s, v) K -> vlt vinf v = false) ->
  forall (s : simplex) (v : V),
  In (s, v) (fst (prune_above_filtration vlt vinf K f)) <-> In (s, v) K /\ vlt f v = false.
Proof. exact prune_sublevel. Qed.
Print Assumptions C03_prune_sublevel.

Theorem C03_prune_returns_false_iff_unchanged : forall (V : Type) (vlt : V -> V -> bool) (vinf : V) (K : cplx V) (f : V),
  snd (prune_above_filtration vlt vinf K f) = false <-> fst (prune_above_filtration vlt vinf K f) = K.
Proof. exact prune_flag. Qed.
Print Assumptions C03_prune_returns_false_iff_unchanged.

Theorem C03_prune_returns_true_iff_removed : forall (V : Type) (vlt : V -> V -> bool) (vinf : V), StrictWeak vlt ->
  forall (K : cplx V) (f : V), wf K -> closed K -> monotone vlt K ->
  (forall s v, In (s, v) K -> vlt vinf v = false) ->
  snd (prune_above_filtration vlt vinf K f) = true <-> (exists (s : simplex) (v : V), In (s, v) K /\ vlt f v = true).
Proof. exact prune_flag_sublevel. Qed.
Print Assumptions C03_prune_returns_true_iff_removed.

(* ---------------------------------------------------------------- 6. extended filtration (exact, over Q) *)
Theorem C03_rational_order_strict_weak : StrictWeak qlt.
Proof. exact qlt_strict_weak. Qed.
Print Assumptions C03_rational_order_strict_weak.

(* the cone filtration of the vertex function: ascending lower-star on the original simplices (value of the largest vertex,
   rescaled to [-2,-1]), descending upper-star on the coned ones (value of the smallest vertex, rescaled to [1,2]), cone point -3 *)
Theorem C03_extended_is_cone_filtration : forall vmin (K : qcplx), wf K -> closed K -> finite_vertices K ->
  let R := fst (extend_filtration vmin K) in
  let c := ext_cone_point vmin K in
  (exists w, lookup R [c] = Some w /\ w == -(3#1)) /\
  (forall s, In s (map fst K) ->
     (exists w x vx, lookup R s = Some w /\ In x s /\ lookup K [x] = Some vx /\ w == enc_up K vx /\
                     (forall y vy, In y s -> lookup K [y] = Some vy -> vy <= vx)) /\
     (exists w x vx, lookup R (s ++ [c]) = Some w /\ In x s /\ lookup K [x] = Some vx /\ w == enc_down K vx /\
                     (forall y vy, In y s -> lookup K [y] = Some vy -> vx <= vy))).
Proof. exact (extended_is_cone_filtration mfnd_spec). Qed.
Print Assumptions C03_extended_is_cone_filtration.

(* its simplices: the cone point, the simplices of K and their cones *)
Theorem C03_extended_simplices : forall vmin (K : qcplx), wf K -> closed K ->
  forall k, In k (map fst (fst (extend_filtration vmin K))) <->
            k = [ext_cone_point vmin K] \/
            exists s, In s (map fst K) /\ (k = s \/ k = s ++ [ext_cone_point vmin K]).
Proof. exact (extended_keys mfnd_spec). Qed.
Print Assumptions C03_extended_simplices.

(* the cone point is a legal fresh vertex: above every vertex of K and not the reserved null_vertex() *)
Theorem C03_cone_point_above_vertices : forall vmin (K : qcplx) x v, lookup K [x] = Some v -> (x < ext_cone_point vmin K)%Z.
Proof. exact cone_point_gt_vertex. Qed.
Print Assumptions C03_cone_point_above_vertices.

Theorem C03_cone_point_not_null_vertex : forall vmin (K : qcplx), ext_cone_point vmin K <> null_vertex.
Proof. exact cone_point_not_null. Qed.
Print Assumptions C03_cone_point_not_null_vertex.

(* the code as it stood before the repair in /repo (cone point = largest vertex + 1 unconditionally) is refuted:
   with the single vertex -2 the cone point is null_vertex() = -1 *)
Theorem C03_cone_point_unrepaired_refuted : exists (K : qcplx) (vmin : Z), wf K /\ closed K /\
  cone_point_unrepaired (ext_maxvert vmin (vertex_values K)) = null_vertex /\
  In [null_vertex] (map fst (fst (extend_filtration_unrepaired vmin K))).
Proof. exact cone_point_unrepaired_refuted. Qed.
Print Assumptions C03_cone_point_unrepaired_refuted.

(* decode o encode = id on [minval, maxval], with the part (0 = UP, 1 = DOWN, 2 = EXTRA), the degenerate case maxval = minval included *)
Theorem C03_decode_encode_up : forall mn mx v : Q, mn <= v -> v <= mx ->
  let f := -(2#1) + (v - mn) * ext_scale mn mx in
  exists w : Q, decode_extended_filtration f mn mx = (Some w, 0%Z) /\ w == v.
Proof. exact decode_encode_up. Qed.
Print Assumptions C03_decode_encode_up.

Theorem C03_decode_encode_down : forall mn mx v : Q, mn <= v -> v <= mx ->
  let f := (2#1) - (v - mn) * ext_scale mn mx in
  exists w : Q, decode_extended_filtration f mn mx = (Some w, 1%Z) /\ w == v.
Proof. exact decode_encode_down. Qed.
Print Assumptions C03_decode_encode_down.

Theorem C03_decode_cone_point : forall mn mx : Q, decode_extended_filtration (-(3#1)) mn mx = (None, 2%Z).
Proof. exact decode_extra. Qed.
Print Assumptions C03_decode_cone_point.

(* end to end: decoding the value stored by extend_filtration with the (minval, maxval) it returned gives back the vertex
   value and the part the simplex belongs to *)
Theorem C03_extended_decodes : forall vmin (K : qcplx), wf K -> closed K -> finite_vertices K ->
  let R := fst (extend_filtration vmin K) in
  let mn := fst (snd (extend_filtration vmin K)) in
  let mx := snd (snd (extend_filtration vmin K)) in
  let c := ext_cone_point vmin K in
  (exists w, lookup R [c] = Some w /\ decode_extended_filtration w mn mx = (None, 2%Z)) /\
  (forall s, In s (map fst K) ->
     (exists w d x vx, lookup R s = Some w /\ decode_extended_filtration w mn mx = (Some d, 0%Z) /\ d == vx /\
                       In x s /\ lookup K [x] = Some vx /\
                       (forall y vy, In y s -> lookup K [y] = Some vy -> vy <= vx)) /\
     (exists w d x vx, lookup R (s ++ [c]) = Some w /\ decode_extended_filtration w mn mx = (Some d, 1%Z) /\ d == vx /\
                       In x s /\ lookup K [x] = Some vx /\
                       (forall y vy, In y s -> lookup K [y] = Some vy -> vx <= vy))).
Proof. exact (extended_decodes mfnd_spec). Qed.
Print Assumptions C03_extended_decodes.

(* ---------------------------------------------------------------- non-vacuity: concrete instances of the hypotheses *)
(* the full triangle {0,1,2} with a non-monotone assignment over Z *)
Definition ex_K : cplx Z :=
  [([0], 3); ([1], 0); ([2], 1); ([0;1], 1); ([0;2], 0); ([1;2], 5); ([0;1;2], 2)]%Z.
Example ex_strict_weak : StrictWeak Z.ltb.
Proof. exact zltb_strict_weak. Qed.
Example ex_K_wf : wf ex_K.
Proof. apply wfb_wf. vm_compute. reflexivity. Qed.
Example ex_K_closed : closed ex_K.
Proof. apply closedb_closed. vm_compute. reflexivity. Qed.
Example ex_K_not_monotone : monotoneb Z.ltb ex_K = false.
Proof. vm_compute. reflexivity. Qed.
Example ex_K_mfnd : make_filtration_non_decreasing Z.ltb ex_K =
  ([([0], 3); ([1], 0); ([2], 1); ([0;1], 3); ([0;2], 3); ([1;2], 5); ([0;1;2], 5)]%Z, true).
Proof. vm_compute. reflexivity. Qed.
Example ex_K_mfnd_monotone : monotone Z.ltb (fst (make_filtration_non_decreasing Z.ltb ex_K)).
Proof. apply monotoneb_monotone; [apply wfb_wf; vm_compute; reflexivity | vm_compute; reflexivity]. Qed.
(* the range of the monotone result: faces first, ties broken by the reverse lexicographic order *)
Example ex_K_range : initialize_filtration Z.ltb 1000%Z false (fst (make_filtration_non_decreasing Z.ltb ex_K)) =
  [[1]; [2]; [0]; [0;1]; [0;2]; [1;2]; [0;1;2]]%Z.
Proof. vm_compute. reflexivity. Qed.
Example ex_K_values_below_inf : forall s v, In (s, v) (fst (make_filtration_non_decreasing Z.ltb ex_K)) -> Z.ltb 1000 v = false.
Proof. vm_compute. intros s v H. repeat (destruct H as [H|H]; [inversion H; reflexivity|]). destruct H. Qed.
Example ex_K_prune : prune_above_filtration Z.ltb 1000%Z (fst (make_filtration_non_decreasing Z.ltb ex_K)) 3%Z =
  ([([0], 3); ([1], 0); ([2], 1); ([0;1], 3); ([0;2], 3)]%Z, true).
Proof. vm_compute. reflexivity. Qed.
(* a path 0-1-2 with vertex values 0, 1, 1/2 over Q: the extended filtration *)
Definition ex_Q : qcplx := [([0%Z], 0#1); ([1%Z], 1#1); ([2%Z], 1#2); ([0;1]%Z, 7#1); ([1;2]%Z, 7#1)].
Example ex_Q_wf : wf ex_Q.
Proof. apply wfb_wf. vm_compute. reflexivity. Qed.
Example ex_Q_closed : closed ex_Q.
Proof. apply closedb_closed. vm_compute. reflexivity. Qed.
Example ex_Q_extended : map (fun p => (fst p, Qred (snd p))) (fst (extend_filtration (-2147483648) ex_Q)) =
  [([3%Z], -3#1); ([0%Z], -2#1); ([0;3]%Z, 2#1); ([1%Z], -1#1); ([1;3]%Z, 1#1); ([2%Z], -3#2); ([2;3]%Z, 3#2);
   ([0;1]%Z, -1#1); ([0;1;3]%Z, 2#1); ([1;2]%Z, -1#1); ([1;2;3]%Z, 3#2)].
Proof. vm_compute. reflexivity. Qed.
