(* C04 - Flag (clique) expansions build exactly the clique complex, by every route.
   Specification (C04_Model.v): weighted graphs [graph], [flag G d] = the cliques with at most d+1 vertices, a vertex with
   its value, an edge with its value, a larger clique with the largest value of its edges ([fval]; [fval_all] also takes the
   vertices into the maximum), [bflag] = the rule "kept iff not blocked and all facets kept", [rips_spec].
   Algorithm models (C04_Model.v, on the tries of Trie.v): [ins_graph] (insert_graph), [inter] (intersection), [expansion]
   (expansion / siblings_expansion / create_expansion<false> with the dimension_ bookkeeping), [exp_blockers]
   (expansion_with_blockers), [insert_edge_as_flag] (compute_punctual_expansion / create_local_expansion /
   create_expansion<true>), [rips] (Rips_complex).  Proofs: C04_Proofs.v.
   [lookup (abs t) s] reads the value of simplex s in the abstract complex of the trie t; with [wf t] the keys of [abs t] are
   pairwise different sorted words, so "lookup = flag for every s" says the complex is exactly the flag complex. *)
From Coq Require Import ZArith List Bool.
Require Import Simplex Trie C04_Model C04_Proofs C04_Blockers.
Import ListNotations.
Open Scope Z_scope.

(* the intersection lemma: Simplex_tree::intersection of two sorted ranges keeps the common labels with the largest of the
   two values and the parent's value *)
Theorem C04_intersection_spec : forall (fil : V) (z : Z) (l1 l2 : lv), lsorted l1 -> lsorted l2 ->
  lsorted (inter false l1 l2 fil) /\
  vlookup z (inter false l1 l2 fil) =
  match vlookup z l1, vlookup z l2 with Some a, Some b => Some (Z.max (Z.max a b) fil) | _, _ => None end.
Proof. intros fil z l1 l2 S1 S2. split; [apply inter_sorted; auto | apply inter_lookup; auto]. Qed.
Print Assumptions C04_intersection_spec.

(* the subtree below one sibling set, expanded k further levels, is the flag complex of the graph induced on the sibling
   labels, each simplex with the largest value among its vertices (sibling values) and edges *)
Theorem C04_siblings_expansion_spec : forall (nb : Z -> lv), (forall x, lsorted (nb x)) ->
  forall (k : nat) (l : lv), lsorted l ->
  wf (expand nb k l) /\ forall s, find_val s (expand nb k l) = fspec nb k l s.
Proof. intros nb Hnb k l Sl. split; [apply expand_wf; auto | apply expand_spec; auto]. Qed.
Print Assumptions C04_siblings_expansion_spec.

(* A1 + A2: insert_graph followed by expansion(d), d >= 2: exactly the cliques with at most d+1 vertices, with the values
   of [flag]; dimension() is the height of the tree (the largest dimension of a simplex) *)
Theorem C04_expansion_is_flag : forall (G : graph) (st : state) (d : Z),
  edges_okb G = true -> ins_graph G = Some st -> 2 <= d ->
  wf (tree (expansion st d)) /\
  (forall s, lookup (abs (tree (expansion st d))) s = flag G d s) /\
  dimn (expansion st d) = height_t (Node (tree (expansion st d))).
Proof. exact expansion_flag. Qed.
Print Assumptions C04_expansion_is_flag.

(* d <= 1: expansion does nothing and the tree of the graph is the flag complex of dimension 1 *)
Theorem C04_expansion_max_dim_1 : forall (G : graph) (st : state),
  edges_okb G = true -> ins_graph G = Some st ->
  wf (tree st) /\ (forall s, lookup (abs (tree st)) s = flag G 1 s) /\ (forall d, d <= 1 -> expansion st d = st).
Proof. exact graph_flag1. Qed.
Print Assumptions C04_expansion_max_dim_1.

(* insert_graph accepts every graph whose edges join two different vertices of the graph *)
Theorem C04_insert_graph_total : forall G, edges_okb G = true -> exists st, ins_graph G = Some st.
Proof. exact ins_graph_total. Qed.
Print Assumptions C04_insert_graph_total.

(* the value is the largest among vertices AND edges as soon as no edge is below its end points *)
Theorem C04_value_max_of_vertices_and_edges : forall (G : graph) (s : simplex),
  graph_monob G = true -> cliqueb G s = true -> s <> [] -> fval G s = fval_all G s.
Proof. exact fval_with_vertices. Qed.
Print Assumptions C04_value_max_of_vertices_and_edges.

(* [fval] of a clique with at least two vertices is the least upper bound (= the maximum) of the values of its edges *)
Theorem C04_value_is_largest_edge_value : forall (G : graph) (m : V) (s : simplex), ssortedb s = true -> (2 <= length s)%nat ->
  (fval G s <= m <-> forall a b, In a s -> In b s -> a < b -> ew G a b <= m).
Proof. exact fval_le_iff. Qed.
Print Assumptions C04_value_is_largest_edge_value.

(* A4: Rips_complex (points or distance matrix, through [dist]) = flag complex of the graph of the pairs within the
   threshold = vertex sets of diameter <= thr with the diameter as value *)
Theorem C04_threshold_graph_flag : forall n dist thr d s, flag (prox_graph n dist thr) d s = rips_spec n dist thr d s.
Proof. exact rips_spec_flag. Qed.
Print Assumptions C04_threshold_graph_flag.
Theorem C04_rips_is_flag_of_threshold_graph : forall (n : nat) (dist : Z -> Z -> V) (thr : V) (d : Z), 2 <= d ->
  exists st, rips n dist thr d = Some st /\ wf (tree st) /\
             (forall s, lookup (abs (tree st)) s = rips_spec n dist thr d s) /\ dimn st = height_t (Node (tree st)).
Proof. exact rips_is_flag. Qed.
Print Assumptions C04_rips_is_flag_of_threshold_graph.
Theorem C04_rips_low_dim : forall (n : nat) (dist : Z -> Z -> V) (thr : V) (d : Z), d <= 1 ->
  exists st, rips n dist thr d = Some st /\ wf (tree st) /\ (forall s, lookup (abs (tree st)) s = rips_spec n dist thr 1 s).
Proof. exact rips_low_dim. Qed.
Print Assumptions C04_rips_low_dim.

(* max_dim <= 0 (recorded finding): the one-shot routes leave the edges of the graph in place *)
Theorem C04_expansion_dim0_keeps_edges_refuted :
  exists G st, graph_okb G = true /\ ins_graph G = Some st /\
               lookup (abs (tree (expansion st 0))) [0; 1] = Some 2 /\ flag G 0 [0; 1] = None /\ dimn (expansion st 0) = 1.
Proof. exact expansion_dim0_keeps_edges_refuted_lemma. Qed.
Print Assumptions C04_expansion_dim0_keeps_edges_refuted.
(* the unrepaired expansion_with_blockers ([fx = false]) with max_dim = 0 expands without bound (repaired: fix commit) *)
Theorem C04_blockers_dim0_unbounded_refuted :
  exists G st, graph_okb G = true /\ ins_graph G = Some st /\
               let r := fst (exp_blockers (fun _ _ => false) false st 0) in
               lookup (abs (tree r)) [0; 1; 2; 3] = Some 0 /\ flag G 0 [0; 1; 2; 3] = None /\ dimn r = 3.
Proof. exact blockers_dim0_unbounded_refuted_lemma. Qed.
Print Assumptions C04_blockers_dim0_unbounded_refuted.
Theorem C04_blockers_low_dim_repaired : forall P st d, d <= 1 -> exp_blockers P true st d = (st, []).
Proof. exact blockers_low_dim. Qed.
Print Assumptions C04_blockers_low_dim_repaired.

(* non-vacuity: a concrete graph (non-contiguous and negative labels, ties, an isolated vertex, an edge given backwards)
   satisfies the hypotheses, and its expansion has a tetrahedron *)
Definition C04_example_graph : graph :=
  mkG [(7, 1); (-3, 0); (2, 0); (100, 0); (5, 4)] [(7, -3, 2); (2, 7, 2); (-3, 2, 5); (100, 2, 1); (100, 7, 1); (-3, 100, 4)].
Example C04_example_hypotheses :
  graph_okb C04_example_graph = true /\ edges_okb C04_example_graph = true /\
  exists st, ins_graph C04_example_graph = Some st /\
             lookup (abs (tree (expansion st 3))) [-3; 2; 7; 100] = Some 5 /\ dimn (expansion st 3) = 3.
Proof. split; [reflexivity | split; [reflexivity|]]. eexists. split; [reflexivity|]. split; vm_compute; reflexivity. Qed.

(* A3 + B1: expansion_with_blockers (repaired: no-op for max_dim <= 1).  The algorithm model looks the facets of a candidate
   up in the tree under construction (reverse loops); whatever function B of the simplices obeys the rule
   "B(sigma+y) = the maximum of B(sigma) and the B(tau+y), tau facet of sigma, if all of these exist, the dimension allows it
   and the blocker lets it pass", is closed under prefixes, lives on sorted words and agrees with the tree of the graph on
   vertices and edges, IS the result *)
Theorem C04_blockers_compute_the_rule : forall (P : simplex -> V -> bool) (d : Z) (B : simplex -> option V),
  (forall sigma w y, B sigma = Some w -> (2 <= length sigma)%nat ->
     B (sigma ++ [y]) = if lenZ sigma + 1 <=? d + 1
                        then match candB B sigma w y with
                             | Some f => if P (sigma ++ [y]) f then None else Some f
                             | None => None end
                        else None) ->
  (forall sigma q, sigma <> [] -> B sigma = None -> B (sigma ++ q) = None) ->
  (forall rho, B rho <> None -> ssortedb rho = true) ->
  forall st, wf (tree st) -> 2 <= d ->
  (forall rho, (length rho <= 2)%nat -> find_val rho (tree st) = B rho) ->
  (forall rho, (3 <= length rho)%nat -> find_val rho (tree st) = None) ->
  let r := fst (exp_blockers P true st d) in
  wf (tree r) /\ forall rho, find_val rho (tree r) = B rho.
Proof. exact blockers_rule. Qed.
Print Assumptions C04_blockers_compute_the_rule.

(* with a deterministic blocker predicate the result is [bflag G d P] ... *)
Theorem C04_blockers_maximal : forall (G : graph) (st : state) (d : Z) (P : simplex -> V -> bool),
  edges_okb G = true -> ins_graph G = Some st -> 2 <= d ->
  let r := fst (exp_blockers P true st d) in
  wf (tree r) /\ forall s, lookup (abs (tree r)) s = bflag G d P s.
Proof. exact blockers_maximal. Qed.
Print Assumptions C04_blockers_maximal.
(* ... which is a subcomplex of flag G d without blocked simplex of dimension >= 2 ... *)
Theorem C04_bflag_is_subcomplex : forall G d P s, bflag G d P s <> None ->
  flag G d s <> None /\ (forall phi, In phi (facets s) -> phi <> [] -> bflag G d P phi <> None) /\
  (3 <= lenZ s -> P s (fval G s) = false).
Proof. exact bflag_is_subcomplex. Qed.
Print Assumptions C04_bflag_is_subcomplex.
(* ... and contains every such subcomplex: the largest one *)
Theorem C04_bflag_largest : forall G d P (K : simplex -> bool),
  (forall s, K s = true -> flag G d s <> None) ->
  (forall s phi, K s = true -> In phi (facets s) -> phi <> [] -> K phi = true) ->
  (forall s, K s = true -> 3 <= lenZ s -> P s (fval G s) = false) ->
  forall s, K s = true -> bflag G d P s <> None.
Proof. exact bflag_largest. Qed.
Print Assumptions C04_bflag_largest.
(* A3: blockers that never block give the expansion *)
Theorem C04_blockers_never_block_eq_expansion : forall (G : graph) (st : state) (d : Z),
  edges_okb G = true -> ins_graph G = Some st -> 2 <= d ->
  let r := fst (exp_blockers (fun _ _ => false) true st d) in
  wf (tree r) /\ (forall s, lookup (abs (tree r)) s = flag G d s) /\
  (forall s, lookup (abs (tree r)) s = lookup (abs (tree (expansion st d))) s).
Proof. exact blockers_never_block. Qed.
Print Assumptions C04_blockers_never_block_eq_expansion.
(* non-vacuity of the blocker theorems: on the example graph, blocking by hash keeps one triangle out and with it the tetrahedron *)
Example C04_example_blockers :
  exists st, ins_graph C04_example_graph = Some st /\
             lookup (abs (tree (fst (exp_blockers (blocks (BDimGe 3)) true st 3)))) [-3; 2; 7] = Some 5 /\
             lookup (abs (tree (fst (exp_blockers (blocks (BDimGe 3)) true st 3)))) [-3; 2; 7; 100] = None /\
             bflag C04_example_graph 3 (blocks (BDimGe 3)) [-3; 2; 7; 100] = None.
Proof. eexists. split; [reflexivity|]. repeat split; vm_compute; reflexivity. Qed.

(* ---- statements compared on every run but not proved (B) ---- *)
(* dimension() after expansion_with_blockers is the exact dimension (the tree is proved, the dimension_ counter is compared) *)
Definition C04_blockers_dimension_full : Prop :=
  forall (G : graph) (st : state) (d : Z) (P : simplex -> V -> bool), edges_okb G = true -> ins_graph G = Some st -> 2 <= d ->
  let r := fst (exp_blockers P true st d) in dimn r = height_t (Node (tree r)).
(* edge-by-edge: in filtration order the tree is the flag complex of the edges inserted so far; in any admissible order it
   is so after make_filtration_non_decreasing (missing: the invariant of compute_punctual_expansion over all nodes labelled u) *)
Definition C04_flag_all (G : graph) (d : Z) (s : simplex) : option V :=
  match flag G d s with Some _ => Some (fval_all G s) | None => None end.
Definition C04_edge_by_edge_full : Prop :=
  forall (ops : list eop) (dmax : Z), 0 <= dmax -> eops_okb (mkG [] []) ops = true ->
  let st := fold_left (run_eop dmax) ops empty_state in
  let G := fold_left graph_eop ops (mkG [] []) in
  ((exists lo, nondecr lo ops = true) -> forall s, lookup (abs (tree st)) s = C04_flag_all G dmax s) /\
  (forall s, lookup (abs (tree (mfnd st))) s = C04_flag_all G dmax s) /\
  dimn st = height_t (Node (tree st)).
