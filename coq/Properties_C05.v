(* C05 — every persistence-matrix flavour computes the same, correct barcode.
   Property theorems only (proofs in Reduce.v / ReduceExec.v). *)
From Coq Require Import ZArith List Znumtheory.
Require Import Reduce ReduceExec ReduceAlg RepCycle PosNeg.
Local Open Scope Z_scope.

(* The pairing of a boundary matrix D over Z_p is well defined: any two reduced matrices obtained from D by
   upper-triangular column transformations with invertible diagonal have, column by column, the same lowest
   non-zero entry (and the same zero columns).  This is what "the barcode an independent reduction computes" means. *)
Theorem C05_pairing_unique : forall p, prime p -> forall n D R1 R2,
  tri p n D R1 -> tri p n D R2 -> reduced p n R1 -> reduced p n R2 ->
  forall j, (j < n)%nat ->
    (forall m, is_low p n (R1 j) m <-> is_low p n (R2 j) m) /\ (is_zero p n (R1 j) <-> is_zero p n (R2 j)).
Proof. exact lows_unique. Qed.
Print Assumptions C05_pairing_unique.

(* Verified checker for the R/U flavour (either convention R = D.V or D = R.U): what it accepts is a reduced matrix
   reachable from D, so its lows are the canonical pairing. *)
Theorem C05_check_RU_sound : forall p, prime p -> forall n D R F,
  check_any p n D R F = true -> tri p n (to_mat D) (to_mat R) /\ reduced p n (to_mat R).
Proof. exact check_any_sound. Qed.
Print Assumptions C05_check_RU_sound.

Theorem C05_checked_decompositions_agree : forall p, prime p -> forall n D R1 F1 R2 F2,
  check_any p n D R1 F1 = true -> check_any p n D R2 F2 = true -> lows p n R1 = lows p n R2.
Proof. exact check_any_lows_unique. Qed.
Print Assumptions C05_checked_decompositions_agree.

(* The oracle's barcode is the canonical one: whatever decomposition of D an implementation exposes, if the checker
   accepts it, its lows equal the certified lows the oracle computed.  (The chain flavour is checked through
   R := D.C with V := C, the chain basis ordered by leading cell.) *)
Theorem C05_certified_lows_canonical : forall p D R F l, prime p ->
  certified_lows p D = Some l -> check_any p (length D) D R F = true -> lows p (length D) R = l.
Proof. exact certified_lows_canonical_any. Qed.
Print Assumptions C05_certified_lows_canonical.

(* the crux lemma: a combination of columns of a reduced matrix has the largest low of the columns taking part *)
Theorem C05_low_of_combination : forall p, prime p -> forall n M c j m,
  reduced p n M -> (j < n)%nat -> ~ zm p (c j) -> is_low p n (M j) m ->
  exists m', (m <= m')%nat /\ is_low p n (comb M c (S j)) m'.
Proof. exact low_mono. Qed.
Print Assumptions C05_low_of_combination.

(* ALGORITHM MODEL of the insertion of a boundary (RU_matrix::_reduce_column, Boundary_matrix + Base_pairing::_reduce,
   ReduceExec.reduce): the new column is reduced by repeatedly adding a multiple of the EARLIER column with the same
   lowest entry.  For every matrix and prime, from any state whose first j columns are reduced the loop terminates, keeps
   "R is obtained from D by an upper-triangular transformation with invertible diagonal", leaves the earlier columns
   untouched, and ends with the first j+1 columns reduced.  (The exposed R of the implementation is compared EXACTLY with
   this model's R on every generated history without swaps, see ocaml/pm_oracle.ml.) *)
Theorem C05_ru_insert_inv : forall p, prime p -> forall n D R j, (j < n)%nat -> tri p n D R -> reduced_upto p n R j ->
  exists R', reduces p n j R R' /\ tri p n D R' /\ reduced_upto p n R' (S j) /\ forall j', j' <> j -> R' j' = R j'.
Proof. exact ru_insert_inv. Qed.
Print Assumptions C05_ru_insert_inv.

(* one step of the loop: the decomposition is kept and the low of the column strictly decreases (termination measure) *)
Theorem C05_reduction_step_keeps_decomposition : forall p, prime p -> forall n D R j k c,
  tri p n D R -> (k < j)%nat -> (j < n)%nat -> tri p n D (col_add R j k c).
Proof. exact tri_col_add. Qed.
Print Assumptions C05_reduction_step_keeps_decomposition.

Theorem C05_reduction_step_lowers : forall p, prime p -> forall n R j k c m,
  is_low p n (R j) m -> is_low p n (R k) m -> zm p (R j m + c * R k m) ->
  is_zero p n (col_add R j k c j) \/ exists m', (m' < m)%nat /\ is_low p n (col_add R j k c j) m'.
Proof. exact col_add_lowers. Qed.
Print Assumptions C05_reduction_step_lowers.

(* hence a reduced decomposition exists for every D: the pairing of C05_pairing_unique is defined for every input *)
Theorem C05_standard_reduction_exists : forall p, prime p -> forall n D, exists R, tri p n D R /\ reduced p n R.
Proof. exact standard_reduction_exists. Qed.
Print Assumptions C05_standard_reduction_exists.

(* ---- the barcode is a partition of the cells (coq/PosNeg.v).  "Positive" (zero reduced column) is a property of D
   alone - the boundary of the cell is a combination of the boundaries of the older cells - whatever reduced
   decomposition is looked at; in a chain complex (D.D = 0: every column of D is a cycle) a cell that is the low of a
   column is positive.  So each cell is the low of at most one column and, if it is, has no low of its own: a cell is in
   at most one bar, either as its birth or as its death, never both. *)
Theorem C05_positive_is_intrinsic : forall p, prime p -> forall n D R b,
  tri p n D R -> reduced p n R -> (b < n)%nat -> (is_zero p n (R b) <-> bnd p n D b (D b)).
Proof. exact positive_iff_dependent. Qed.
Print Assumptions C05_positive_is_intrinsic.

Theorem C05_birth_column_is_zero : forall p, prime p -> forall n D R j b,
  (forall k, (k < n)%nat -> cycle p n D (D k)) ->
  tri p n D R -> reduced p n R -> (j < n)%nat -> is_low p n (R j) b -> is_zero p n (R b).
Proof. exact birth_column_is_zero. Qed.
Print Assumptions C05_birth_column_is_zero.

Theorem C05_barcode_is_a_partition : forall p, prime p -> forall n D R,
  (forall k, (k < n)%nat -> cycle p n D (D k)) -> tri p n D R -> reduced p n R ->
  forall b, (b < n)%nat ->
    (forall j1 j2, (j1 < n)%nat -> (j2 < n)%nat -> is_low p n (R j1) b -> is_low p n (R j2) b -> j1 = j2) /\
    (forall j m, (j < n)%nat -> is_low p n (R j) b -> ~ is_low p n (R b) m).
Proof. exact barcode_partition. Qed.
Print Assumptions C05_barcode_is_a_partition.

(* the same for the executable oracle shared by every persistence property (certified_lows): on an input that passes the
   verified chain-complex test, an entry Some b at index j forces None at index b, and no other index holds Some b *)
Theorem C05_certified_pairs_disjoint : forall p, prime p -> forall D l,
  check_chain_complex p (length D) D = true -> certified_lows p D = Some l ->
  forall j b, (j < length D)%nat -> nth j l None = Some b ->
    (b < length D)%nat /\ nth b l None = None /\
    forall j', (j' < length D)%nat -> nth j' l None = Some b -> j' = j.
Proof. exact certified_pairs_disjoint. Qed.
Print Assumptions C05_certified_pairs_disjoint.

(* non-vacuity: the boundary matrix of a filled triangle over Z_3 is a chain complex, and its certified pairing pairs
   the cells 1, 2, 5 (births) with 3, 4, 6 (deaths): no cell on both sides, cell 0 essential *)
Definition C05_triangle : dmat :=
  (nil :: nil :: nil :: (-1 :: 1 :: nil) :: (-1 :: 0 :: 1 :: nil) :: (0 :: -1 :: 1 :: nil) :: (0 :: 0 :: 0 :: 1 :: -1 :: 1 :: nil) :: nil).
Example C05_triangle_is_a_chain_complex :
  check_chain_complex 3 7 C05_triangle = true /\
  certified_lows 3 C05_triangle = Some (None :: None :: None :: Some 1%nat :: Some 2%nat :: None :: Some 5%nat :: nil).
Proof. vm_compute. split; reflexivity. Qed.

(* Full statement not proved: the executable reduction always produces a certificate (it is re-checked at run time
   for every input instead: certified_lows returns None otherwise and the check reports an oracle failure). *)
Definition C05_reduce_total_full : Prop :=
  forall p D, prime p -> (forall c, In c D -> length c = length D) -> certified_lows p D <> None.
