(* C06 — vineyard swaps and cell removals leave the matrix as if rebuilt from scratch.
   Property theorems only (proofs in Reduce.v / ReduceExec.v): "as if rebuilt" = after every step the exposed state is a
   decomposition accepted by the verified checker of the boundary matrix of the CURRENT order, whose pairing is unique. *)
From Coq Require Import ZArith List Znumtheory Lia.
Require Import Reduce ReduceExec.
Local Open Scope Z_scope.

(* The pairing of a boundary matrix D over Z_p is well defined: any two reduced matrices obtained from D by
   upper-triangular column transformations with invertible diagonal have, column by column, the same lowest
   non-zero entry (and the same zero columns).  This is what "the barcode an independent reduction computes" means. *)
Theorem C06_pairing_unique : forall p, prime p -> forall n D R1 R2,
  tri p n D R1 -> tri p n D R2 -> reduced p n R1 -> reduced p n R2 ->
  forall j, (j < n)%nat ->
    (forall m, is_low p n (R1 j) m <-> is_low p n (R2 j) m) /\ (is_zero p n (R1 j) <-> is_zero p n (R2 j)).
Proof. exact lows_unique. Qed.
Print Assumptions C06_pairing_unique.

(* Verified checker for the R/U flavour (either convention R = D.V or D = R.U): what it accepts is a reduced matrix
   reachable from D, so its lows are the canonical pairing. *)
Theorem C06_check_RU_sound : forall p, prime p -> forall n D R F,
  check_any p n D R F = true -> tri p n (to_mat D) (to_mat R) /\ reduced p n (to_mat R).
Proof. exact check_any_sound. Qed.
Print Assumptions C06_check_RU_sound.

Theorem C06_checked_decompositions_agree : forall p, prime p -> forall n D R1 F1 R2 F2,
  check_any p n D R1 F1 = true -> check_any p n D R2 F2 = true -> lows p n R1 = lows p n R2.
Proof. exact check_any_lows_unique. Qed.
Print Assumptions C06_checked_decompositions_agree.

(* The oracle's barcode is the canonical one: whatever decomposition of D an implementation exposes, if the checker
   accepts it, its lows equal the certified lows the oracle computed.  (The chain flavour is checked through
   R := D.C with V := C, the chain basis ordered by leading cell.) *)
Theorem C06_certified_lows_canonical : forall p D R F l, prime p ->
  certified_lows p D = Some l -> check_any p (length D) D R F = true -> lows p (length D) R = l.
Proof. exact certified_lows_canonical_any. Qed.
Print Assumptions C06_certified_lows_canonical.

(* the crux lemma: a combination of columns of a reduced matrix has the largest low of the columns taking part *)
Theorem C06_low_of_combination : forall p, prime p -> forall n M c j m,
  reduced p n M -> (j < n)%nat -> ~ zm p (c j) -> is_low p n (M j) m ->
  exists m', (m <= m')%nat /\ is_low p n (comb M c (S j)) m'.
Proof. exact low_mono. Qed.
Print Assumptions C06_low_of_combination.

(* Full statement not proved: the executable reduction always produces a certificate (it is re-checked at run time
   for every input instead: certified_lows returns None otherwise and the check reports an oracle failure). *)
Definition C06_reduce_total_full : Prop :=
  forall p D, prime p -> (forall c, In c D -> length c = length D) -> certified_lows p D <> None.

(* ---------------------------------------------------------------------------------------------------------------------
   The transposition of two consecutive cells i, i+1 (VineSwap.v).  [pmat i M] = M with rows i,i+1 and columns i,i+1
   exchanged, so [pmat i D] is the boundary matrix of the new order. *)
Require Import ReduceAlg VineSwap.

(* if column i+1 of R does not use column i of D (V[i][i+1] = 0), the conjugated R is again D'.V' with V' upper triangular *)
Theorem C06_vine_swap_keeps_decomposition : forall p, prime p -> forall n i, (S i < n)%nat -> forall D R,
  tri p n D R ->
  (exists c, zm p (c i) /\ ~ zm p (c (S i)) /\ veq p n (R (S i)) (comb D c (S (S i)))) ->
  tri p n (pmat i D) (pmat i R).
Proof. exact vine_swap_tri. Qed.
Print Assumptions C06_vine_swap_keeps_decomposition.

(* ... and one addition of column i to column i+1 makes V[i][i+1] zero without leaving the decompositions of D *)
Theorem C06_vine_swap_preparation : forall p, prime p -> forall n i, (S i < n)%nat -> forall D R,
  tri p n D R ->
  exists c0, tri p n D (col_add R (S i) i c0) /\
    exists c, zm p (c i) /\ ~ zm p (c (S i)) /\ veq p n (col_add R (S i) i c0 (S i)) (comb D c (S (S i))).
Proof. exact kill_coefficient. Qed.
Print Assumptions C06_vine_swap_preparation.

(* the conjugated R stays reduced except in ONE configuration: a column with low i+1 and a non-zero entry in row i together
   with a column with low i *)
Theorem C06_vine_swap_keeps_reduced : forall p n i, (S i < n)%nat -> forall R,
  reduced p n R -> ~ interacting p n i R -> reduced p n (pmat i R).
Proof. exact swap_keeps_reduced. Qed.
Print Assumptions C06_vine_swap_keeps_reduced.

(* so, outside that configuration, the swapped state is exactly what any rebuild from scratch of the new order finds *)
Theorem C06_vine_swap_as_if_rebuilt_partial : forall p, prime p -> forall n i, (S i < n)%nat -> forall D R R',
  tri p n D R -> reduced p n R ->
  (exists c, zm p (c i) /\ ~ zm p (c (S i)) /\ veq p n (R (S i)) (comb D c (S (S i)))) ->
  ~ interacting p n i R ->
  tri p n (pmat i D) R' -> reduced p n R' ->
  forall j, (j < n)%nat ->
    (forall m, is_low p n (pmat i R j) m <-> is_low p n (R' j) m) /\ (is_zero p n (pmat i R j) <-> is_zero p n (R' j)).
Proof. exact vine_swap_as_if_rebuilt. Qed.
Print Assumptions C06_vine_swap_as_if_rebuilt_partial.

(* where every low goes (the relabelling of the pairing) *)
Theorem C06_vine_swap_relabels : forall p n i, (S i < n)%nat -> forall v m,
  is_low p n v m -> exists m', moved p i v m m' /\ is_low p n (pvec i v) m'.
Proof. exact low_after_swap. Qed.
Print Assumptions C06_vine_swap_relabels.

(* the interacting configuration (still with V[i][i+1] = 0): after the exchange the two columns have the same low i+1; adding a
   multiple of the left one to the right one gives a reduced decomposition of the new order in which the right one has low i:
   the two bars exchange their deaths (or birth and death), as in the vineyard paper *)
Theorem C06_vine_swap_interacting : forall p, prime p -> forall n i, (S i < n)%nat -> forall D R a b,
  tri p n D R -> reduced p n R ->
  (exists c, zm p (c i) /\ ~ zm p (c (S i)) /\ veq p n (R (S i)) (comb D c (S (S i)))) ->
  (a < n)%nat -> (b < n)%nat -> is_low p n (R a) (S i) -> ~ zm p (R a i) -> is_low p n (R b) i ->
  exists x y c1, (x < y)%nat /\ (y < n)%nat /\
    ((x = tr i b /\ y = tr i a) \/ (x = tr i a /\ y = tr i b)) /\
    tri p n (pmat i D) (col_add (pmat i R) y x c1) /\ reduced p n (col_add (pmat i R) y x c1) /\
    is_low p n (col_add (pmat i R) y x c1 y) i /\ is_low p n (col_add (pmat i R) y x c1 x) (S i).
Proof. exact vine_swap_interacting. Qed.
Print Assumptions C06_vine_swap_interacting.

(* When the preparing addition is really needed (V[i][i+1] <> 0), two sub-cases.  (1) Column i is zero or has the smaller low: the
   prepared matrix is still reduced, so the theorems above apply to it. *)
Theorem C06_vine_swap_preparation_keeps_reduced : forall p, prime p -> forall n i, (S i < n)%nat -> forall R c0,
  reduced p n R ->
  (is_zero p n (R i) \/ exists li ls, is_low p n (R i) li /\ is_low p n (R (S i)) ls /\ (li < ls)%nat) ->
  reduced p n (col_add R (S i) i c0).
Proof. exact prep_keeps_reduced. Qed.
Print Assumptions C06_vine_swap_preparation_keeps_reduced.

(* (2) Column i has the larger low: after preparation and exchange the two columns have the same low; one addition between them gives,
   up to an invertible scalar (C06_vine_swap_recombination_is_one_addition), the conjugate of [recomb R c0] (column i+1 := R_{i+1} +
   c0.R_i, column i := R_{i+1}), which is a decomposition of the new order, and [recomb R c0] is reduced with the two lows exchanged. *)
Theorem C06_vine_swap_recombination_decomposes : forall p, prime p -> forall n i, (S i < n)%nat -> forall D R c0,
  tri p n D R ->
  (exists c, ~ zm p (c i) /\ veq p n (R (S i)) (comb D c (S (S i)))) ->
  (exists c, zm p (c i) /\ ~ zm p (c (S i)) /\ veq p n (col_add R (S i) i c0 (S i)) (comb D c (S (S i)))) ->
  tri p n (pmat i D) (pmat i (recomb i R c0)).
Proof. exact recomb_tri. Qed.
Print Assumptions C06_vine_swap_recombination_decomposes.

Theorem C06_vine_swap_recombination_reduced : forall p, prime p -> forall n i, (S i < n)%nat -> forall R c0 li,
  reduced p n R -> ~ zm p c0 -> is_low p n (R i) li ->
  (is_zero p n (R (S i)) \/ exists ls, (ls < li)%nat /\ is_low p n (R (S i)) ls) ->
  reduced p n (recomb i R c0) /\ is_low p n (recomb i R c0 (S i)) li.
Proof. exact recomb_reduced. Qed.
Print Assumptions C06_vine_swap_recombination_reduced.

Theorem C06_vine_swap_recombination_is_one_addition : forall p, prime p -> forall n i, (S i < n)%nat -> forall R c0, ~ zm p c0 ->
  exists c2, ~ zm p c2 /\
    (forall j r, j <> S i -> col_add (pmat i (col_add R (S i) i c0)) (S i) i c2 j r = pmat i (recomb i R c0) j r) /\
    (forall r, zm p (col_add (pmat i (col_add R (S i) i c0)) (S i) i c2 (S i) r - c2 * pmat i (recomb i R c0) (S i) r)).
Proof. exact recomb_as_addition. Qed.
Print Assumptions C06_vine_swap_recombination_is_one_addition.

(* All configurations together: whatever the reduced decomposition R of D, one preparing addition (possibly with coefficient 0), the
   exchange, and at most two more additions (the one folded into [recomb], and one between the two interacting columns) end in a
   reduced decomposition of the boundary matrix of the new order - whose pairing is, by C06_pairing_unique, the one any rebuild from
   scratch finds.  This is the case analysis of RU_vine_swap::vine_swap at the level of R; the bookkeeping of U/V as matrices, of the
   stored barcode and of the lazily swapped rows is not modelled: every state the implementation reaches is certified by check_any
   (C06_check_RU_sound). *)
Theorem C06_vine_swap_complete : forall p, prime p -> forall n i, (S i < n)%nat -> forall D R,
  tri p n D R -> reduced p n R ->
  exists c0 R', (R' = col_add R (S i) i c0 \/ R' = recomb i R c0) /\
    reduced p n R' /\ tri p n (pmat i D) (pmat i R') /\
    (reduced p n (pmat i R') \/
     exists x y c1, (x < y)%nat /\ (y < n)%nat /\
       tri p n (pmat i D) (col_add (pmat i R') y x c1) /\ reduced p n (col_add (pmat i R') y x c1)).
Proof. exact vine_swap_complete. Qed.
Print Assumptions C06_vine_swap_complete.

(* non-vacuity: two vertices and the edge joining them over Z_2, the two vertices exchanged *)
Example C06_vine_swap_hypotheses_satisfiable :
  let D : mat := fun j r => if Nat.eqb j 2 then (if Nat.ltb r 2 then 1 else 0) else 0 in
  tri 2 3 D D /\ reduced 2 3 D /\
  (exists c, zm 2 (c O) /\ ~ zm 2 (c 1%nat) /\ veq 2 3 (D 1%nat) (comb D c 2)) /\ ~ interacting 2 3 0 D.
Proof.
  cbv zeta. split; [apply tri_refl; exact prime_2|]. split; [|split].
  - intros j1 j2 m Hj1 Hj2 Hne [Hm [H1 _]] [_ [H2 _]].
    assert (j1 = 2%nat) by (destruct j1 as [|[|[|]]]; try lia; exfalso; apply H1; reflexivity).
    assert (j2 = 2%nat) by (destruct j2 as [|[|[|]]]; try lia; exfalso; apply H2; reflexivity). lia.
  - exists (fun k => if Nat.eqb k 1 then 1 else 0). split; [reflexivity|]. split; [intros H; discriminate H|].
    intros r Hr. reflexivity.
  - intros [a [b [Ha [Hb [_ [_ [_ [Hnz Hz]]]]]]]].
    destruct b as [|[|[|]]]; try lia; try (apply Hnz; reflexivity).
    specialize (Hz 1%nat ltac:(lia)). discriminate Hz.
Qed.
