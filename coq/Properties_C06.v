(* C06 — vineyard swaps and cell removals leave the matrix as if rebuilt from scratch.
   Property theorems only (proofs in Reduce.v / ReduceExec.v): "as if rebuilt" = after every step the exposed state is a
   decomposition accepted by the verified checker of the boundary matrix of the CURRENT order, whose pairing is unique. *)
From Coq Require Import ZArith List Znumtheory.
Require Import Reduce ReduceExec.
Local Open Scope Z_scope.

(* The pairing of a boundary matrix D over Z_p is well defined: any two reduced matrices obtained from D by
   upper-triangular column transformations with invertible diagonal have, column by column, the same lowest
   non-zero entry (and the same zero columns).  This is what "the barcode an independent reduction computes" means. *)
Theorem C06_pairing_unique : forall p, prime p -> forall n D R1 R2,
  tri p n D R1 -> tri p n D R2 -> reduced p n R1 -> reduced p n R2 ->
  forall j, (j < n)%nat ->
    (forall m, is_low p n (R1 j) m <-> is_low p n (R2 j) m) /\ (is_zero p n (R1 j) <-> is_zero p n (R2 j)).
Proof. exact lows_unique. Qed.
Print Assumptions C06_pairing_unique.

(* Verified checker for the R/U flavour (either convention R = D.V or D = R.U): what it accepts is a reduced matrix
   reachable from D, so its lows are the canonical pairing. *)
Theorem C06_check_RU_sound : forall p, prime p -> forall n D R F,
  check_any p n D R F = true -> tri p n (to_mat D) (to_mat R) /\ reduced p n (to_mat R).
Proof. exact check_any_sound. Qed.
Print Assumptions C06_check_RU_sound.

Theorem C06_checked_decompositions_agree : forall p, prime p -> forall n D R1 F1 R2 F2,
  check_any p n D R1 F1 = true -> check_any p n D R2 F2 = true -> lows p n R1 = lows p n R2.
Proof. exact check_any_lows_unique. Qed.
Print Assumptions C06_checked_decompositions_agree.

(* The oracle's barcode is the canonical one: whatever decomposition of D an implementation exposes, if the checker
   accepts it, its lows equal the certified lows the oracle computed.  (The chain flavour is checked through
   R := D.C with V := C, the chain basis ordered by leading cell.) *)
Theorem C06_certified_lows_canonical : forall p D R F l, prime p ->
  certified_lows p D = Some l -> check_any p (length D) D R F = true -> lows p (length D) R = l.
Proof. exact certified_lows_canonical_any. Qed.
Print Assumptions C06_certified_lows_canonical.

(* the crux lemma: a combination of columns of a reduced matrix has the largest low of the columns taking part *)
Theorem C06_low_of_combination : forall p, prime p -> forall n M c j m,
  reduced p n M -> (j < n)%nat -> ~ zm p (c j) -> is_low p n (M j) m ->
  exists m', (m <= m')%nat /\ is_low p n (comb M c (S j)) m'.
Proof. exact low_mono. Qed.
Print Assumptions C06_low_of_combination.

(* Full statement not proved: the executable reduction always produces a certificate (it is re-checked at run time
   for every input instead: certified_lows returns None otherwise and the check reports an oracle failure). *)
Definition C06_reduce_total_full : Prop :=
  forall p D, prime p -> (forall c, In c D -> length c = length D) -> certified_lows p D <> None.
