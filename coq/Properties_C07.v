(* C07 - Zigzag persistence outputs the interval decomposition of the zigzag module.   LEVEL: other (partial proof +
   differential exploration).

   What is proved here (all unbounded) concerns the executable SPECIFICATION of coq/C07_Model.v and the models of the
   filtered front-ends; the reflection-diamond / transposition algorithm of zigzag_persistence.h is NOT modelled and no
   theorem speaks about it: the C++ is compared with the specification per input (props/c07.py).
   Trusted, un-formalised mathematics: a zigzag module is a direct sum of interval modules, and the number of summands
   whose support contains [b,e] is  r(b,e) = dim dom - dim ker  of the relation V_b ~> V_e composed from the arrows
   (Gabriel; Carlsson - de Silva 2010; = generalised rank of Kim - Memoli / Dey - Kim - Memoli).
   Vectors over Z_2 are [list bool] read with [get] (a missing tail is zero), so equality is [veq] (pointwise). *)
From Coq Require Import ZArith List Bool Arith Sorting.Permutation.
Require Import C07_Model C07_Gauss C07_Proofs C07_Skip C07_Ident.
Require C07_Betti C07_InsOnly C07_ELZdefs C07_ELZ C07_Bridge C07_Final C07_Rel ReduceExec.
Import ListNotations.
Open Scope Z_scope.

(* ---- A1. Gaussian elimination of the specification is sound ---- *)
(* the echelon basis spans exactly the space spanned by the input *)
Theorem C07_echelon_spans_same_space : forall M v, span M v <-> span (evecs (echelon M)) v.
Proof. exact echelon_span. Qed.
Print Assumptions C07_echelon_spans_same_space.

(* it is in echelon form: every pivot is the first one of its vector, later vectors vanish at earlier pivots *)
Theorem C07_echelon_form : forall M, let E := echelon M in
  (forall j p w, nth_error E j = Some (p, w) -> first_one w = Some p) /\
  (forall i j p w q w', (i < j)%nat -> nth_error E i = Some (p, w) -> nth_error E j = Some (q, w') -> get w' p = false).
Proof. exact echelon_form. Qed.
Print Assumptions C07_echelon_form.

Theorem C07_echelon_pivots_distinct : forall M, NoDup (map fst (echelon M)).
Proof. exact echelon_pivots_nodup. Qed.
Print Assumptions C07_echelon_pivots_distinct.

(* it is linearly independent: rank = number of pivots = size of a basis of the span *)
Theorem C07_echelon_independent : forall M, independent (evecs (echelon M)).
Proof. exact echelon_independent. Qed.
Print Assumptions C07_echelon_independent.

(* the rank is the dimension: no independent family inside the span is longer, the rank depends on the span only,
   and an independent family has full rank *)
Theorem C07_rank_bounds_independent_families : forall M L,
  (forall v, In v L -> span M v) -> independent L -> Z.of_nat (length L) <= rank M.
Proof. exact span_independent_le. Qed.
Print Assumptions C07_rank_bounds_independent_families.

Theorem C07_rank_depends_on_span_only : forall M1 M2, (forall v, span M1 v <-> span M2 v) -> rank M1 = rank M2.
Proof. exact rank_span_invariant. Qed.
Print Assumptions C07_rank_depends_on_span_only.

Theorem C07_rank_of_independent_family : forall M, independent M -> rank M = Z.of_nat (length M).
Proof. exact rank_independent. Qed.
Print Assumptions C07_rank_of_independent_family.

Theorem C07_rank_range : forall M, 0 <= rank M <= Z.of_nat (length M).
Proof. exact rank_range. Qed.
Print Assumptions C07_rank_range.

(* the step "keep the pairs whose y-part vanishes on the removed cell" computes exactly that subspace *)
Theorem C07_restrict_is_the_subspace : forall c M v, span (restrict c M) v <-> (span M v /\ get v c = false).
Proof. exact restrict_span. Qed.
Print Assumptions C07_restrict_is_the_subspace.

(* ---- A1'. what the relation sweep of the specification computes (semantic reading of init_rel / step_rel) ---- *)
(* start: (combinations of the (c, c, bd c), c a k-cell of K_b, whose boundary part vanishes, i.e. pairs (z, z) with z a
   k-cycle of K_b) + (bd t, 0) for the (k+1)-cells t of K_b *)
Theorem C07_sweep_start : forall s k b v,
  span (init_rel s k b) v <->
  exists z, span (init_gens s k b) z /\ (forall u, (u < length s)%nat -> get z (2 * length s + u)%nat = false) /\
            span (init_bnds s k b) (vxor v z).
Proof. exact init_rel_spec. Qed.
Print Assumptions C07_sweep_start.

(* removal of a k-cell u: exactly the pairs whose y-part does not use u survive *)
Theorem C07_sweep_removal : forall s k R u v, dim_of s u = k ->
  (span (step_rel s k R (NRem u)) v <-> span R v /\ get v (length s + u)%nat = false).
Proof. exact step_rel_removal. Qed.
Print Assumptions C07_sweep_removal.

(* insertion of a (k+1)-cell: the pair (0, boundary) joins the relation *)
Theorem C07_sweep_insertion : forall s k R bd v,
  (span (step_rel s k R (NIns (k + 1) bd)) v <-> span R v \/ span R (vxor v (of_idx (shift (length s) bd)))).
Proof. exact step_rel_insertion. Qed.
Print Assumptions C07_sweep_insertion.

(* identity arrows and cells of other dimensions leave it alone *)
Theorem C07_sweep_other_arrows : forall s k R o,
  match o with NIns d _ => d <> k + 1 | NRem u => dim_of s u <> k | NId => True end -> step_rel s k R o = R.
Proof. exact step_rel_other. Qed.
Print Assumptions C07_sweep_other_arrows.

(* ---- A1''. the sweep computes THE composed relation, described with representatives ---- *)
(* [C07_Rel.related s k b e x y]: x a k-cycle of K_b, y a k-cycle of K_e, and there is a family of k-cycles z_b, ..., z_e
   (z_t in K_t, consecutive ones differing by a boundary of the larger of K_t, K_(t+1)) with x ~ z_b in K_b and z_e ~ y in K_e -
   i.e. the classes [x], [y] are related by the composition of the inclusion-induced maps and their converses.
   For every valid sequence the span of the sweep state is exactly the set of these pairs ... *)
Theorem C07_sweep_is_the_composed_relation : forall s k b e v, valid s = true -> 0 <= k -> (b <= e)%nat -> (e < length s)%nat ->
  (span (C07_Rel.sweep_state s k b e) v <->
   exists x y, C07_Rel.related s k b e x y /\ C07_Rel.is_pair (length s) v x y).
Proof. exact C07_Rel.sweep_is_relation. Qed.
Print Assumptions C07_sweep_is_the_composed_relation.

(* ... the number r_k(b,e) of the specification is dim dom - dim ker read off that state ... *)
Theorem C07_rank_is_read_off_the_sweep_state : forall s k b e, (b <= e)%nat -> (e < length s)%nat ->
  rfun (length s) (rtab s k) (Z.of_nat b) (Z.of_nat e) = rel_rank (length s) (C07_Rel.sweep_state s k b e).
Proof. exact C07_Rel.rfun_is_sweep_state. Qed.
Print Assumptions C07_rank_is_read_off_the_sweep_state.

(* ... and does not depend on the presentation: ANY spanning list of the composed relation gives the same number *)
Theorem C07_rank_of_the_composed_relation : forall s k b e R, valid s = true -> (b <= e)%nat -> (e < length s)%nat ->
  (forall v, span R v <-> exists x y, C07_Rel.related s k b e x y /\ C07_Rel.is_pair (length s) v x y) ->
  rfun (length s) (rtab s k) (Z.of_nat b) (Z.of_nat e) = rel_rank (length s) R.
Proof. exact C07_Rel.rfun_is_relation_rank. Qed.
Print Assumptions C07_rank_of_the_composed_relation.

(* ---- A3. bars alive at arrow i, dimension k  =  r_k(i,i) (inclusion-exclusion telescopes) ---- *)
Theorem C07_alive_count_is_rank_at_i : forall s k i, (i < length s)%nat ->
  (forall b e, (b <= e < length s)%nat -> 0 <= mult (rfun (length s) (rtab s k)) (Z.of_nat b) (Z.of_nat e)) ->
  alive_count (bars_of_dim s k) k i = rfun (length s) (rtab s k) (Z.of_nat i) (Z.of_nat i).
Proof. exact alive_count_is_rii. Qed.
Print Assumptions C07_alive_count_is_rank_at_i.

(* the same with the decidable hypothesis the oracle evaluates on every case (flag mnn) *)
Theorem C07_alive_count_is_rank_at_i_checked : forall s k i, (i < length s)%nat -> mult_nonneg s k = true ->
  alive_count (bars_of_dim s k) k i = rfun (length s) (rtab s k) (Z.of_nat i) (Z.of_nat i).
Proof. exact alive_count_is_rii_checked. Qed.
Print Assumptions C07_alive_count_is_rank_at_i_checked.

(* r_k(i,i) IS the Betti number of K_i (rank-nullity for the relation the sweep starts from), for every valid sequence *)
Theorem C07_rank_at_i_is_betti : forall s k i, valid s = true -> (i < length s)%nat ->
  rfun (length s) (rtab s k) (Z.of_nat i) (Z.of_nat i) = betti s k i.
Proof. exact C07_Betti.rii_is_betti. Qed.
Print Assumptions C07_rank_at_i_is_betti.

(* hence: the number of bars alive at arrow i in dimension k equals the Betti number beta_k(K_i) *)
Theorem C07_alive_count_is_betti : forall s k i, valid s = true -> (i < length s)%nat -> mult_nonneg s k = true ->
  alive_count (bars_of_dim s k) k i = betti s k i.
Proof. exact C07_Betti.alive_count_is_betti. Qed.
Print Assumptions C07_alive_count_is_betti.

(* ---- A2. insertion-only sequences: the ranks of the specification are the persistent Betti numbers of ordinary persistence ---- *)
(* [C07_InsOnly.cycles s k b] spans exactly the k-cycles of K_b ... *)
Theorem C07_cycles_are_the_cycles : forall s k b v, valid s = true -> (b < length s)%nat ->
  (span (C07_InsOnly.cycles s k b) v <->
   exists cs, (forall c, In c cs -> In c (cells_of_dim s k (present s b))) /\ veq v (of_idx cs) /\
              (forall j, get (of_idx (flat_map (bd_of s) cs)) j = false)).
Proof. exact C07_InsOnly.cycles_are_the_cycles. Qed.
Print Assumptions C07_cycles_are_the_cycles.

(* ... and for every valid insertion-only sequence r_k(b,e) = dim (Z_k(K_b) + B_k(K_e)) - dim B_k(K_e)
   = rank of H_k(K_b) -> H_k(K_e), the persistent Betti number ([pbetti]): on filtrations the zigzag specification IS
   ordinary persistence in its rank formulation *)
Theorem C07_insertion_only_ranks_are_persistent_betti_numbers : forall s k b e, valid s = true -> insertion_only s = true ->
  (b <= e)%nat -> (e < length s)%nat ->
  rfun (length s) (rtab s k) (Z.of_nat b) (Z.of_nat e) = C07_InsOnly.pbetti s k b e.
Proof. exact C07_InsOnly.insertion_only_ranks. Qed.
Print Assumptions C07_insertion_only_ranks_are_persistent_betti_numbers.

(* the pairing theorem (Edelsbrunner - Letscher - Zomorodian) for the specification: given ANY homogeneous reduced decomposition
   R = dV of the boundary operator of a valid insertion-only sequence (V unit upper triangular, dimension-homogeneous, the lows
   of the non-zero columns of R distinct), the bars read off its lows are the barcode of the specification *)
Theorem C07_pairing_theorem : forall s Vm Rm, valid s = true -> insertion_only s = true -> C07_ELZdefs.hred s Vm Rm ->
  Permutation (C07_ELZ.bars_of_lows s (map C07_ELZdefs.last_one Rm)) (barcode s).
Proof. exact C07_ELZ.elz_pairing. Qed.
Print Assumptions C07_pairing_theorem.

(* the certified reduction of coq/ReduceExec.v (integer matrices mod 2) has the lows of such a decomposition *)
Theorem C07_certified_lows_come_from_a_reduced_decomposition : forall s l, valid s = true -> insertion_only s = true ->
  ReduceExec.certified_lows 2 (boundary_matrix s) = Some l ->
  exists Vm Rm, C07_ELZdefs.hred s Vm Rm /\ map C07_ELZdefs.last_one Rm = l.
Proof. exact C07_Bridge.certified_gives_hred. Qed.
Print Assumptions C07_certified_lows_come_from_a_reduced_decomposition.

(* A2, end to end: an insertion-only sequence reproduces ordinary persistence - the barcode of the zigzag specification is
   (a permutation of) pairs_of_lows (certified_lows 2 D), the oracle of properties C05/C06/C08 *)
Theorem C07_insertion_only_is_ordinary_persistence : forall s l, valid s = true -> insertion_only s = true ->
  ordinary_bars s = Some l -> Permutation l (barcode s).
Proof. exact C07_Final.insertion_only_is_ordinary_persistence. Qed.
Print Assumptions C07_insertion_only_is_ordinary_persistence.

(* non-vacuity: a triangle filtration satisfies the hypotheses *)
Theorem C07_insertion_only_example : valid C07_Final.triangle_filtration = true /\ insertion_only C07_Final.triangle_filtration = true /\
  ordinary_bars C07_Final.triangle_filtration =
    Some [(0, 1%nat, Some 2%nat); (0, 3%nat, Some 4%nat); (1, 5%nat, Some 6%nat); (0, 0%nat, None)].
Proof. exact C07_Final.triangle_filtration_ok. Qed.
Print Assumptions C07_insertion_only_example.

(* identity arrows are transparent: no bar is born or dies at an identity arrow *)
Theorem C07_no_death_at_identity : forall s k b e, (b <= e)%nat -> nth_error s (S e) = Some NId ->
  mult (rfun (length s) (rtab s k)) (Z.of_nat b) (Z.of_nat e) = 0.
Proof. exact no_death_at_identity. Qed.
Print Assumptions C07_no_death_at_identity.

Theorem C07_no_birth_at_identity : forall s k b e, (b <= e)%nat -> nth_error s b = Some NId ->
  mult (rfun (length s) (rtab s k)) (Z.of_nat b) (Z.of_nat e) = 0.
Proof. exact no_birth_at_identity. Qed.
Print Assumptions C07_no_birth_at_identity.

Theorem C07_bars_avoid_identity_arrows : forall s k x, In x (bars_of_dim s k) ->
  nth_error s (snd (fst x)) <> Some NId /\ (forall d, snd x = Some d -> nth_error s d <> Some NId).
Proof. exact bars_avoid_identity_arrows. Qed.
Print Assumptions C07_bars_avoid_identity_arrows.

(* non-vacuity: the documentation's sequence satisfies the hypotheses, and its barcode is the documented one *)
Theorem C07_example_sequence : valid doc_sequence = true /\ mult_nonneg doc_sequence 0 = true /\ mult_nonneg doc_sequence 1 = true /\
  barcode doc_sequence = [(0, 0%nat, None); (0, 1%nat, Some 2%nat); (0, 3%nat, Some 4%nat); (0, 7%nat, None); (1, 5%nat, Some 6%nat)].
Proof. exact doc_sequence_ok. Qed.
Print Assumptions C07_example_sequence.

(* ---- A4. the filtered front-ends are the stated functions of the index barcode ---- *)
(* with_storage: the compressed (arrow, value) table + lower_bound search returns the value supplied with the last
   non-identity arrow at or before the index *)
Theorem C07_index_to_value_translation : forall vals idx, fv_from_index vals idx = value_at vals idx.
Proof. exact fv_from_index_spec. Qed.
Print Assumptions C07_index_to_value_translation.

(* at an arrow that inserted or removed a cell (births and deaths only happen there) it is the value given with it *)
Theorem C07_index_to_value_exact : forall vals idx f, nth_error vals idx = Some (Some f) -> fv_from_index vals idx = Some f.
Proof. exact fv_from_index_exact. Qed.
Print Assumptions C07_index_to_value_exact.

(* the search never steps before the table once one value is stored *)
Theorem C07_index_to_value_defined : forall vals i idx f, nth_error vals i = Some (Some f) -> (i <= idx)%nat ->
  fv_from_index vals idx <> None.
Proof. exact fv_from_index_defined. Qed.
Print Assumptions C07_index_to_value_defined.

(* the value diagram: each closed index bar translated, ordered (min, max), kept iff longer than the threshold *)
Theorem C07_value_diagram : forall vals sh l x,
  In x (S_finite vals sh l) <->
  exists k b d, In (k, b, Some d) l /\
    let fb := zval (fv_from_index vals b) in let fd := zval (fv_from_index vals d) in
    sh < Z.abs (fb - fd) /\ x = (k, Z.min fb fd, Some (Z.max fb fd)).
Proof. exact S_finite_spec. Qed.
Print Assumptions C07_value_diagram.

(* default threshold 0: exactly the zero-length bars are omitted *)
Theorem C07_only_zero_length_omitted : forall vals l x,
  In x (S_finite vals 0 l) <->
  exists k b d, In (k, b, Some d) l /\
    let fb := zval (fv_from_index vals b) in let fd := zval (fv_from_index vals d) in
    fb <> fd /\ x = (k, Z.min fb fd, Some (Z.max fb fd)).
Proof. exact S_finite_zero_length. Qed.
Print Assumptions C07_only_zero_length_omitted.

(* ignore_cycles_above_dim: the index diagram holds the closed bars of dimension < dimmax (all when dimmax = -1) *)
Theorem C07_ignored_dimensions_filter : forall dimmax bs i x,
  In x (S_index_diagram dimmax bs i) <->
  (In x bs /\ (exists d, snd x = Some d /\ (d <= i)%nat) /\ (dimmax = -1 \/ fst (fst x) < dimmax)).
Proof. exact S_index_diagram_spec. Qed.
Print Assumptions C07_ignored_dimensions_filter.

(* ignore_cycles_above_dim, the cells: the run that skips the cells of dimension > dimmax (and, as identities, the removals
   of their unknown keys) is the full run with those arrows replaced by identity arrows - for every well-formed keyed
   sequence (a key is not inserted while bound; boundary keys name present cells of dimension d-1) ... *)
Theorem C07_skipping_is_replacing_by_identities : forall dimmax ops, 0 <= dimmax -> keyed_ok ops = true ->
  normalize dimmax ops = skip_high dimmax (normalize (-1) ops).
Proof. exact normalize_is_skip_high. Qed.
Print Assumptions C07_skipping_is_replacing_by_identities.

(* ... replacing them does not change the bars of dimension < dimmax of the specification (any normalised sequence) ... *)
Theorem C07_high_cells_do_not_matter : forall dimmax s k, 0 <= k < dimmax ->
  bars_of_dim (skip_high dimmax s) k = bars_of_dim s k.
Proof. exact skip_high_bars. Qed.
Print Assumptions C07_high_cells_do_not_matter.

(* ... hence what with_storage computes in the dimensions it reports is the restriction of the barcode of the FULL sequence *)
Theorem C07_ignored_dimensions : forall dimmax ops k, 0 <= k < dimmax -> keyed_ok ops = true ->
  bars_of_dim (normalize dimmax ops) k = bars_of_dim (normalize (-1) ops) k.
Proof. exact ignored_dimensions. Qed.
Print Assumptions C07_ignored_dimensions.

(* skipped cells keep the arrow numbering aligned *)
Theorem C07_arrow_numbering_aligned : forall dimmax ops, length (normalize dimmax ops) = length ops.
Proof. exact normalize_length. Qed.
Print Assumptions C07_arrow_numbering_aligned.

(* ---- stated, NOT proved (evaluated by the oracle on every generated case: flag mnn; the flags po, betti, fullres re-check proved statements) ---- *)
(* multiplicities are never negative (true because r counts summands: the literature theorem; proved for insertion-only
   sequences inside C07_ELZ.v: they are 0 or 1) *)
Definition C07_mult_nonneg_full : Prop := forall s k, valid s = true -> mult_nonneg s k = true.
