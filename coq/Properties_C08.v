(* C08 — representative cycles really represent their bars.
   Property theorems only (proofs in Reduce.v / ReduceExec.v / RepCycle.v).
   Reading: D = boundary matrix of the filtered complex in filtration order (column j = boundary of cell j), over Z_p;
   (R, F) = any decomposition accepted by the verified matrix checker, so "low of R_k = b" <=> "cell k kills the bar
   born at b" in the canonical pairing (C05_pairing_unique); [bnd D J v] = v is a boundary of the complex K_J made of
   the first J cells; [below w b] = the chain w only involves cells older than b. *)
From Coq Require Import ZArith List Znumtheory.
Require Import Reduce ReduceExec RepCycle PosNeg.
Local Open Scope Z_scope.

(* what the run-time checker applied to every returned representative establishes *)
Theorem C08_check_rep_sound : forall p n D z b,
  check_rep p n D z b = true -> is_low p n (zvec z) b /\ cycle p n (to_mat D) (zvec z).
Proof. exact check_rep_sound. Qed.
Print Assumptions C08_check_rep_sound.

(* (i) while the bar is alive — no cell among the first J kills b — the representative is not homologous in K_J to
   any chain of older cells: it is not (chain of cells older than b) + (boundary of K_J).  In particular it is
   non-bounding and independent of all classes born before b, from K_{b+1} up to the cell before the death. *)
Theorem C08_rep_alive : forall p, prime p -> forall n D R F z b J,
  check_any p n D R F = true -> check_rep p n D z b = true -> (J <= n)%nat ->
  (forall k, (k < J)%nat -> low_of p n (to_mat R k) <> Some b) ->
  forall w, below p n w b -> ~ bnd p n (to_mat D) J (fun i => zvec z i - w i).
Proof. exact rep_alive. Qed.
Print Assumptions C08_rep_alive.

(* (ii) from the death on — cell d kills b — the representative is homologous in K_{d+1} to a CYCLE made of cells
   older than b: its class has merged into the older ones (it is a boundary modulo older cycles). *)
Theorem C08_rep_dies : forall p, prime p -> forall n D R F z b d,
  check_chain_complex p n D = true -> check_any p n D R F = true -> check_rep p n D z b = true ->
  (d < n)%nat -> low_of p n (to_mat R d) = Some b ->
  exists w, below p n w b /\ cycle p n (to_mat D) w /\ bnd p n (to_mat D) (S d) (fun i => zvec z i - w i).
Proof. exact rep_dies. Qed.
Print Assumptions C08_rep_dies.

(* (iii) the representatives of the bars alive in K_J (pairwise distinct birth cells) are linearly independent
   modulo the boundaries of K_J: no non-trivial combination of them is a boundary. *)
Theorem C08_alive_reps_independent : forall p, prime p -> forall n D R F (Zs : list (list Z)) (bs : list nat) J a,
  check_any p n D R F = true -> (J <= n)%nat -> (length bs <= n)%nat -> NoDup bs ->
  (forall t, (t < length bs)%nat -> check_rep p n D (nth t Zs nil) (nth t bs O) = true) ->
  (forall t j, (t < length bs)%nat -> (j < J)%nat -> low_of p n (to_mat R j) <> Some (nth t bs O)) ->
  (exists t, (t < length bs)%nat /\ a t mod p <> 0) ->
  ~ bnd p n (to_mat D) J (comb (to_mat Zs) a (length bs)).
Proof. exact reps_independent. Qed.
Print Assumptions C08_alive_reps_independent.

(* the same three statements on arbitrary vectors, without the executable checkers *)
Theorem C08_not_boundary_while_alive : forall p, prime p -> forall n D R z b J,
  tri p n D R -> reduced p n R -> (J <= n)%nat -> is_low p n z b ->
  (forall k, (k < J)%nat -> ~ is_low p n (R k) b) ->
  forall w, below p n w b -> ~ bnd p n D J (fun i => z i - w i).
Proof. exact not_boundary_while_alive. Qed.
Print Assumptions C08_not_boundary_while_alive.

Theorem C08_boundary_from_death : forall p, prime p -> forall n D R z b d,
  tri p n D R -> (d < n)%nat -> is_low p n z b -> is_low p n (R d) b ->
  exists w, below p n w b /\ bnd p n D (S d) (fun i => z i - w i).
Proof. exact boundary_from_death. Qed.
Print Assumptions C08_boundary_from_death.

(* the youngest cell of a representative is a BIRTH cell: whatever reduced decomposition is looked at, the column of the
   youngest cell of a cycle is zero (coq/PosNeg.v) - a chain accepted by check_rep for the cell b can only stand for a
   bar born at b, and that bar exists in the canonical pairing *)
Theorem C08_rep_birth_is_positive : forall p, prime p -> forall n D R F z b,
  check_rep p n D z b = true -> check_any p n D R F = true -> is_zero p n (to_mat R b).
Proof.
  intros p Hp n D R F z b Hz Hc.
  destruct (check_rep_sound p n D z b Hz) as [Hl Hcy].
  destruct (check_any_sound p Hp n D R F Hc) as [Ht Hr].
  exact (cycle_low_is_positive p Hp n (to_mat D) (to_mat R) (zvec z) b Ht Hr Hcy Hl).
Qed.
Print Assumptions C08_rep_birth_is_positive.

(* and in a chain complex the death cell of a bar is never the birth cell of another one *)
Theorem C08_birth_column_is_zero : forall p, prime p -> forall n D R j b,
  (forall k, (k < n)%nat -> cycle p n D (D k)) ->
  tri p n D R -> reduced p n R -> (j < n)%nat -> is_low p n (R j) b -> is_zero p n (R b).
Proof. exact birth_column_is_zero. Qed.
Print Assumptions C08_birth_column_is_zero.

(* the pairing the bars refer to is well defined (shared with C05) *)
Theorem C08_pairing_unique : forall p, prime p -> forall n D R1 R2,
  tri p n D R1 -> tri p n D R2 -> reduced p n R1 -> reduced p n R2 ->
  forall j, (j < n)%nat ->
    (forall m, is_low p n (R1 j) m <-> is_low p n (R2 j) m) /\ (is_zero p n (R1 j) <-> is_zero p n (R2 j)).
Proof. exact lows_unique. Qed.
Print Assumptions C08_pairing_unique.

(* Not proved (kept visible): the representatives of the bars alive in K_J SPAN the homology of K_J (needs
   rank-nullity).  The check compares instead, on every run, the set of represented birth cells with the set of bars
   of the certified pairing, which together with (iii) is the counting half of this statement. *)
Definition C08_alive_reps_span_full : Prop :=
  forall p, prime p -> forall n D R F (Zs : list (list Z)) (bs : list nat) J,
  check_chain_complex p n D = true -> check_any p n D R F = true -> (J <= n)%nat -> NoDup bs ->
  (forall b, In b bs <-> ((b < J)%nat /\ low_of p n (to_mat R b) = None /\
                          forall k, (k < J)%nat -> low_of p n (to_mat R k) <> Some b)) ->
  (forall t, (t < length bs)%nat -> check_rep p n D (nth t Zs nil) (nth t bs O) = true) ->
  forall z, cycle p n (to_mat D) z -> (forall i, (J <= i < n)%nat -> z i mod p = 0) ->
  exists a : nat -> Z, bnd p n (to_mat D) J (fun i => z i - comb (to_mat Zs) a (length bs) i).
