(* Property C09: general matrices behave as dense matrices, whatever the column representation.
   Only statements; proofs are in C09_Proofs.v, models in C09_Model.v.
   Content of a column at row r: sget (ordered sparse), hsum (heap: sum of the duplicates), lz_get (lazy vector). *)
From Coq Require Import ZArith List Znumtheory.
Require Import C09_Model C09_Proofs.
Import ListNotations.
Open Scope Z_scope.

(* ---- ordered sparse columns: _generic_add_to_column and its three specialisations = dense axpy, entry by entry *)
Theorem C09_sparse_add_dense : forall p t s r, 0 < p -> sorted t -> sorted s -> reduced p t -> reduced p s ->
  sget (sp_add p t s) r = (sget t r + sget s r) mod p.
Proof. exact sp_add_dense. Qed.
Print Assumptions C09_sparse_add_dense.

Theorem C09_sparse_mul_target_dense : forall p val t s r, 0 < p -> 0 <= val < p -> sorted t -> sorted s -> reduced p t -> reduced p s ->
  sget (sp_mta p val t s) r = (val * sget t r + sget s r) mod p.
Proof. exact sp_mta_dense. Qed.
Print Assumptions C09_sparse_mul_target_dense.

Theorem C09_sparse_mul_source_dense : forall p val t s r, 0 < p -> 0 <= val < p -> sorted t -> sorted s -> reduced p t -> reduced p s ->
  sget (sp_msa p val t s) r = (sget t r + val * sget s r) mod p.
Proof. exact sp_msa_dense. Qed.
Print Assumptions C09_sparse_mul_source_dense.

Theorem C09_sparse_ops_sorted : forall p val t s, sorted t -> sorted s ->
  sorted (sp_add p t s) /\ sorted (sp_mta p val t s) /\ sorted (sp_msa p val t s).
Proof. exact sp_ops_sorted. Qed.
Print Assumptions C09_sparse_ops_sorted.

Theorem C09_sparse_ops_zero_free : forall p val t s, prime p -> 0 <= val < p -> reduced p t -> reduced p s -> nonzero t -> nonzero s ->
  nonzero (sp_add p t s) /\ nonzero (sp_mta p val t s) /\ nonzero (sp_msa p val t s).
Proof. exact sp_ops_nonzero. Qed.
Print Assumptions C09_sparse_ops_zero_free.

(* is_non_zero reads the structure: for a zero-free column it answers the content *)
Theorem C09_sparse_stored_iff_nonzero : forall s r, nonzero s -> (shas s r = true <-> sget s r <> 0).
Proof. exact shas_iff_nonzero. Qed.
Print Assumptions C09_sparse_stored_iff_nonzero.

(* ---- heap column: a multiset with duplicates whose content is the sum of the duplicates *)
Theorem C09_heap_content_add : forall p c s r, 0 < p ->
  hsum p (fst (hp_add p c s)) r = (hsum p (fst c) r + hsum p s r) mod p.
Proof. exact heap_content_add. Qed.
Print Assumptions C09_heap_content_add.

Theorem C09_heap_content_mul_target : forall p val c s r, 0 < p -> 0 <= val < p ->
  hsum p (fst (hp_mta p val c s)) r = (val * hsum p (fst c) r + hsum p s r) mod p.
Proof. exact heap_content_mul_target. Qed.
Print Assumptions C09_heap_content_mul_target.

Theorem C09_heap_content_mul_source : forall p val c s r, 0 < p -> 0 <= val < p ->
  hsum p (fst (hp_msa true p val c s)) r = (hsum p (fst c) r + val * hsum p s r) mod p.
Proof. exact heap_content_mul_source. Qed.
Print Assumptions C09_heap_content_mul_source.

Theorem C09_heap_prune_content : forall p c r, 0 < p -> hsum p (fst (hp_prune p c)) r = hsum p (fst c) r.
Proof. exact heap_prune_content. Qed.
Print Assumptions C09_heap_prune_content.

Theorem C09_heap_is_empty_iff : forall p c, 0 < p -> (hp_is_empty p c = true <-> forall r, hsum p (fst c) r = 0).
Proof. exact heap_is_empty_iff. Qed.
Print Assumptions C09_heap_is_empty_iff.

Theorem C09_heap_clear_row_content : forall p c r r', 0 < p ->
  hsum p (fst (hp_clear_row p c r)) r' = if r' =? r then 0 else hsum p (fst c) r'.
Proof. exact heap_clear_row_content. Qed.
Print Assumptions C09_heap_clear_row_content.

(* the code as found (before /repo commit 9d12171ad): multiply_source_and_add into an empty heap column dropped the coefficient *)
Theorem C09_heap_mul_source_empty_refuted :
  exists p val c s r, 0 < p /\ 0 <= val < p /\
    hsum p (fst (hp_msa false p val c s)) r <> (hsum p (fst c) r + val * hsum p s r) mod p.
Proof. exact heap_mul_source_empty_refuted. Qed.
Print Assumptions C09_heap_mul_source_empty_refuted.

(* ---- lazy vector column: sorted entries + set of erased rows *)
Theorem C09_lazyvec_content_is_live_content : forall c r, lz_get c r = sget (lz_live c) r.
Proof. exact lz_get_live. Qed.
Print Assumptions C09_lazyvec_content_is_live_content.

Theorem C09_lazyvec_clear_absent : forall c r, shas (fst c) r = false -> lz_clear_row true false c r = c.
Proof. exact lazyvec_clear_absent. Qed.
Print Assumptions C09_lazyvec_clear_absent.

Theorem C09_lazyvec_clear_content : forall fixed c r r',
  lz_get (lz_clear_row fixed false c r) r' = if r' =? r then 0 else lz_get c r'.
Proof. exact lazyvec_clear_content. Qed.
Print Assumptions C09_lazyvec_clear_content.

Theorem C09_lazyvec_clear_keeps_invariant : forall c r, lz_wf c -> lz_wf (lz_clear_row true false c r).
Proof. exact lazyvec_clear_wf. Qed.
Print Assumptions C09_lazyvec_clear_keeps_invariant.

Theorem C09_lazyvec_is_empty_iff : forall c, lz_wf c -> (lz_is_empty c = true <-> forall r, lz_get c r = 0).
Proof. exact lazyvec_is_empty_iff. Qed.
Print Assumptions C09_lazyvec_is_empty_iff.

(* the code as found (before /repo commit 1589a1a02): zeroing an absent entry made a non-zero column claim to be empty *)
Theorem C09_lazyvec_clear_absent_refuted :
  exists c r, lz_wf c /\ shas (fst c) r = false /\
    lz_is_empty (lz_clear_row false false c r) = true /\ lz_get (lz_clear_row false false c r) 1 = 2.
Proof. exact lazyvec_clear_absent_refuted. Qed.
Print Assumptions C09_lazyvec_clear_absent_refuted.

Theorem C09_lazyvec_content_add : forall p c s r, 0 < p -> sorted (fst c) -> sorted (fst s) -> reduced p (fst c) -> reduced p (fst s) ->
  lz_get (lz_add p c s) r = (lz_get c r + lz_get s r) mod p.
Proof. exact lazyvec_content_add. Qed.
Print Assumptions C09_lazyvec_content_add.

Theorem C09_lazyvec_content_mul_target : forall p val c s r, 0 < p -> 0 <= val < p ->
  sorted (fst c) -> sorted (fst s) -> reduced p (fst c) -> reduced p (fst s) ->
  lz_get (lz_mta p val c s) r = (val * lz_get c r + lz_get s r) mod p.
Proof. exact lazyvec_content_mul_target. Qed.
Print Assumptions C09_lazyvec_content_mul_target.

Theorem C09_lazyvec_content_mul_source : forall p val c s r, 0 < p -> 0 <= val < p ->
  sorted (fst c) -> sorted (fst s) -> reduced p (fst c) -> reduced p (fst s) ->
  lz_get (lz_msa p val c s) r = (lz_get c r + val * lz_get s r) mod p.
Proof. exact lazyvec_content_mul_source. Qed.
Print Assumptions C09_lazyvec_content_mul_source.

(* ---- representation independence at column level: the three fused operations act on the contents as on dense vectors *)
Theorem C09_column_add_content : forall p t s r, 0 < p -> c_wf p t -> c_wf p s -> same_kind t s ->
  c_get p (c_add p t s) r = (c_get p t r + c_get p s r) mod p.
Proof. exact column_add_content. Qed.
Print Assumptions C09_column_add_content.

Theorem C09_column_mul_target_content : forall p val t s r, 0 < p -> 0 <= val < p -> c_wf p t -> c_wf p s -> same_kind t s ->
  c_get p (c_mta p val t s) r = (val * c_get p t r + c_get p s r) mod p.
Proof. exact column_mul_target_content. Qed.
Print Assumptions C09_column_mul_target_content.

Theorem C09_column_mul_source_content : forall p val t s r, 0 < p -> 0 <= val < p -> c_wf p t -> c_wf p s -> same_kind t s ->
  c_get p (c_msa (all_fixed false) p val t s) r = (c_get p t r + val * c_get p s r) mod p.
Proof. exact column_mul_source_content. Qed.
Print Assumptions C09_column_mul_source_content.

(* ---- lazy row swaps (Base_swap): swapping two dictionary entries = swapping the two rows of the dense matrix read through it *)
Theorem C09_swap_rows_lazy_eq_eager : forall p nr m r1 r2,
  length (a_i2r m) = nr -> 0 <= r1 < Z.of_nat nr -> 0 <= r2 < Z.of_nat nr ->
  a_abs p nr (a_swap_rows m r1 r2) = d_swap_rows (a_abs p nr m) r1 r2.
Proof. exact swap_rows_lazy_eq_eager. Qed.
Print Assumptions C09_swap_rows_lazy_eq_eager.

(* the code as found (before /repo commit 6b7166ead): _orderRows reset the dictionaries only below the number of columns *)
Theorem C09_order_rows_as_found_refuted :
  exists p nr m, let fl := {| f_heap_fix := true; f_lazy_fix := true; f_order_fix := false; f_ra := false |} in
    a_abs p nr (a_order fl false p m) <> a_abs p nr m.
Proof. exact order_rows_as_found_refuted. Qed.
Print Assumptions C09_order_rows_as_found_refuted.

(* ---- the deferred reordering (repaired _orderRows) does not change what is read: relabelled, re-sorted sparse columns, rebuilt
   heaps, compacted lazy columns read at row k what they read at the physical row of k before *)
Theorem C09_order_rows_invisible : forall p nr mapc ra m, 0 < p ->
  length (a_i2r m) = nr -> length (a_r2i m) = nr ->
  (forall r, 0 <= r < Z.of_nat nr -> 0 <= pget (a_i2r m) r < Z.of_nat nr /\ pget (a_r2i m) (pget (a_i2r m) r) = r) ->
  (forall q, 0 <= q < Z.of_nat nr -> 0 <= pget (a_r2i m) q < Z.of_nat nr /\ pget (a_i2r m) (pget (a_r2i m) q) = q) ->
  (forall c, In (Some c) (a_cols m) -> c_ok nr c) ->
  a_abs p nr (a_order (all_fixed ra) mapc p m) = a_abs p nr m.
Proof. exact order_rows_invisible. Qed.
Print Assumptions C09_order_rows_invisible.

(* ---- row access: with the rows ordered, each row lists exactly the non-zero entries of that row of the dense matrix *)
Theorem C09_rows_are_transpose : forall p nr m r, a_i2r m = idperm nr -> 0 <= r < Z.of_nat nr ->
  (forall c, In (Some c) (a_cols m) -> c_rowview_ok c) -> a_row m r = d_row (a_abs p nr m) r.
Proof. exact rows_are_transpose. Qed.
Print Assumptions C09_rows_are_transpose.

(* ---- matrix level (Base_matrix, any column representation, any pending row permutation): one add_to /
   multiply_target_and_add_to / multiply_source_and_add_to on the algorithm model is the dense operation on the dense
   matrix read through the row dictionary; and the column invariant it needs is kept *)
Theorem C09_matrix_add_refines : forall p nr m s t ct cs, 0 < p -> s <> t -> 0 <= t ->
  a_col m t = Some ct -> a_col m s = Some cs -> c_wf p ct -> c_wf p cs -> same_kind ct cs ->
  match a_add p m s t with Some m' => Some (a_abs p nr m') = d_add p (a_abs p nr m) s t | None => False end.
Proof. exact matrix_add_refines. Qed.
Print Assumptions C09_matrix_add_refines.

Theorem C09_matrix_mul_target_refines : forall p nr m s c t ct cs, 0 < p -> s <> t -> 0 <= t ->
  a_col m t = Some ct -> a_col m s = Some cs -> c_wf p ct -> c_wf p cs -> same_kind ct cs ->
  match a_mta p m s c t with Some m' => Some (a_abs p nr m') = d_mta p (a_abs p nr m) s c t | None => False end.
Proof. exact matrix_mul_target_refines. Qed.
Print Assumptions C09_matrix_mul_target_refines.

Theorem C09_matrix_mul_source_refines : forall p nr m c s t ct cs, 0 < p -> s <> t -> 0 <= t ->
  a_col m t = Some ct -> a_col m s = Some cs -> c_wf p ct -> c_wf p cs -> same_kind ct cs ->
  match a_msa (all_fixed false) p m c s t with Some m' => Some (a_abs p nr m') = d_msa p (a_abs p nr m) c s t | None => False end.
Proof. exact matrix_mul_source_refines. Qed.
Print Assumptions C09_matrix_mul_source_refines.

Theorem C09_column_ops_keep_invariant : forall p val t s, 0 < p -> c_wf p t -> c_wf p s -> same_kind t s ->
  c_wf p (c_add p t s) /\ c_wf p (c_mta p val t s) /\ c_wf p (c_msa (all_fixed false) p val t s).
Proof. exact column_ops_keep_wf. Qed.
Print Assumptions C09_column_ops_keep_invariant.

(* source index = target index (repaired Base_matrix): the column is scaled, which is the dense self-operation *)
Theorem C09_matrix_self_add_refines : forall p nr m t ct, 0 < p -> 0 <= t -> a_col m t = Some ct ->
  match a_add p m t t with Some m' => Some (a_abs p nr m') = d_add p (a_abs p nr m) t t | None => False end.
Proof. exact matrix_self_add_refines. Qed.
Print Assumptions C09_matrix_self_add_refines.

Theorem C09_matrix_self_mul_target_refines : forall p nr m c t ct, 0 < p -> 0 <= t -> a_col m t = Some ct ->
  match a_mta p m t c t with Some m' => Some (a_abs p nr m') = d_mta p (a_abs p nr m) t c t | None => False end.
Proof. exact matrix_self_mul_target_refines. Qed.
Print Assumptions C09_matrix_self_mul_target_refines.

Theorem C09_matrix_self_mul_source_refines : forall fl p nr m c t ct, 0 < p -> 0 <= t -> a_col m t = Some ct ->
  match a_msa fl p m c t t with Some m' => Some (a_abs p nr m') = d_msa p (a_abs p nr m) c t t | None => False end.
Proof. exact matrix_self_mul_source_refines. Qed.
Print Assumptions C09_matrix_self_mul_source_refines.

(* zero_entry goes through the row dictionary; with or without row access, repaired or not, present or absent entry *)
Theorem C09_matrix_zero_entry_refines : forall fl p nr m c r x, 0 < p -> 0 <= c -> a_col m c = Some x ->
  0 <= r < Z.of_nat nr ->
  (forall k, 0 <= k < Z.of_nat nr -> pget (a_r2i m) (pget (a_i2r m) k) = k) ->
  match a_zero_entry fl p m c r with Some m' => Some (a_abs p nr m') = d_zero_entry (a_abs p nr m) c r | None => False end.
Proof. exact matrix_zero_entry_refines. Qed.
Print Assumptions C09_matrix_zero_entry_refines.

Theorem C09_matrix_zero_column_refines : forall p nr m c x, 0 <= c -> a_col m c = Some x ->
  match a_zero_col m c with Some m' => Some (a_abs p nr m') = d_zero_col nr (a_abs p nr m) c | None => False end.
Proof. exact matrix_zero_column_refines. Qed.
Print Assumptions C09_matrix_zero_column_refines.

(* column container operations *)
Theorem C09_matrix_swap_columns_refines : forall ra p nr m c1 c2 x1 x2, 0 <= c1 -> 0 <= c2 ->
  a_col m c1 = Some x1 -> a_col m c2 = Some x2 ->
  match a_swap_cols ra m c1 c2 with Some m' => Some (a_abs p nr m') = d_swap_cols (a_abs p nr m) c1 c2 | None => False end.
Proof. exact matrix_swap_columns_refines. Qed.
Print Assumptions C09_matrix_swap_columns_refines.

Theorem C09_matrix_remove_refines : forall p nr m idx,
  a_abs p nr (a_remove_col m idx) = d_remove_col (a_abs p nr m) idx /\
  a_abs p nr (a_remove_last m) = d_remove_last (a_abs p nr m).
Proof. exact matrix_remove_refines. Qed.
Print Assumptions C09_matrix_remove_refines.

(* insert_column at the end (the rows are ordered first; stated for the ordered matrix), every column kind *)
Theorem C09_matrix_insert_refines : forall mapc kind p nr m es, 0 < p -> 0 <= a_next m ->
  a_sw m = false -> a_i2r m = idperm nr -> sorted es -> rows_in nr es ->
  a_abs p nr (a_insert (all_fixed false) mapc kind p m es) = d_insert mapc p nr (a_abs p nr m) es.
Proof. exact matrix_insert_refines. Qed.
Print Assumptions C09_matrix_insert_refines.

(* ---- whole histories of a plain Base_matrix (any of the three column representations, with or without row access, map or
   vector column container): the matrix invariant m_inv (sorted reduced columns in range, the two row dictionaries inverse
   permutations, identity when no swap is pending) holds for the empty matrix, is kept by every operation, and what is read
   through the row dictionary after any sequence of insert_column, remove_column, remove_last, add_to,
   multiply_target_and_add_to, multiply_source_and_add_to (source = target included), zero_entry, zero_column, swap_rows,
   swap_columns and deferred reorderings is the dense matrix obtained by the same sequence of dense operations *)
Theorem C09_empty_matrix_invariant : forall p nr kind, 0 < p -> m_inv p nr kind (a_empty nr).
Proof. exact m_inv_empty. Qed.
Print Assumptions C09_empty_matrix_invariant.

Theorem C09_step_refines : forall mapc ra kind p nr, kind = 0 \/ kind = 1 \/ kind = 2 ->
  forall m o, m_inv p nr kind m -> op_ok nr o ->
  m_inv p nr kind (a_step mapc ra kind p m o) /\ a_abs p nr (a_step mapc ra kind p m o) = d_step mapc p nr (a_abs p nr m) o.
Proof. exact step_refines. Qed.
Print Assumptions C09_step_refines.

Theorem C09_history_refines : forall mapc ra kind p nr, kind = 0 \/ kind = 1 \/ kind = 2 ->
  forall ops m, m_inv p nr kind m -> Forall (op_ok nr) ops ->
  m_inv p nr kind (fold_left (a_step mapc ra kind p) ops m) /\
  a_abs p nr (fold_left (a_step mapc ra kind p) ops m) = fold_left (d_step mapc p nr) ops (a_abs p nr m).
Proof. exact history_refines. Qed.
Print Assumptions C09_history_refines.

(* ---- the whole property for a plain Base_matrix, prime characteristic: after ANY history starting from the empty matrix,
   contents, zero-entry tests and zero-column tests of the algorithm model (sparse, heap or lazy-vector columns; lazy swaps;
   map or vector container; with or without row access) are those of the dense matrix of the same history; inserted values
   are not multiples of p (op_ok2) *)
Theorem C09_step_keeps_zero_free : forall mapc ra kind p nr m o, prime p -> m_inv p nr kind m -> m_zf m -> op_ok nr o -> op_ok2 p o ->
  m_zf (a_step mapc ra kind p m o).
Proof. exact step_keeps_zero_free. Qed.
Print Assumptions C09_step_keeps_zero_free.

Theorem C09_tests_read_dense : forall p nr kind m c r, prime p -> m_inv p nr kind m -> m_zf m -> 0 <= r < Z.of_nat nr ->
  a_is_zero_entry p m c r = d_is_zero_entry (a_abs p nr m) c r /\ a_is_zero_col p m c = d_is_zero_col (a_abs p nr m) c.
Proof. exact tests_read_dense. Qed.
Print Assumptions C09_tests_read_dense.

Theorem C09_history_observations_read_dense : forall mapc ra kind p nr ops, kind = 0 \/ kind = 1 \/ kind = 2 -> prime p ->
  Forall (op_ok nr) ops -> Forall (op_ok2 p) ops ->
  forall c r, 0 <= r < Z.of_nat nr ->
  let m := fold_left (a_step mapc ra kind p) ops (a_empty nr) in
  let d := fold_left (d_step mapc p nr) ops (a_abs p nr (a_empty nr)) in
  d_col (a_abs p nr m) c = d_col d c /\ a_is_zero_entry p m c r = d_is_zero_entry d c r /\ a_is_zero_col p m c = d_is_zero_col d c.
Proof. exact history_tests_read_dense. Qed.
Print Assumptions C09_history_observations_read_dense.

(* rows, ordered sparse representations: once the pending permutation is applied (get_row does it), every row lists exactly the
   non-zero entries of that row of the dense matrix of the history *)
Theorem C09_history_rows_read_dense : forall mapc ra p nr ops, prime p ->
  Forall (op_ok nr) ops -> Forall (op_ok2 p) ops ->
  forall r, 0 <= r < Z.of_nat nr ->
  let m := a_order (all_fixed ra) mapc p (fold_left (a_step mapc ra 0 p) ops (a_empty nr)) in
  let d := fold_left (d_step mapc p nr) ops (a_abs p nr (a_empty nr)) in
  a_row m r = d_row d r.
Proof. exact history_rows_read_dense. Qed.
Print Assumptions C09_history_rows_read_dense.

(* ---- not proved; compared on every generated history by the correspondence check ---- *)
(* missing: insert_column(column, index) with holes in the vector container; rows of the lazy vector column with row access
   (needs "no erased row" as invariant of the row-access mode) *)
Definition C09_matrix_insert_at_full : Prop :=
  forall p nr kind m es idx, prime p -> m_inv p nr kind m -> a_col m idx = None -> sorted es -> rows_in nr es -> 0 <= idx ->
    a_abs p nr (a_insert_at (all_fixed false) false kind p m idx es) = d_insert_at false p nr (a_abs p nr m) idx es.
(* missing: the union-find model k_* against the class specification dk_* *)
Definition C09_compression_eq_plain_full : Prop :=
  forall kind p nr es (k : kmat) (d : dmat),
    (forall j, 0 <= j < k_next k -> Some (a_content p nr (k_col kind k j)) = d_col d j) ->
    forall j, 0 <= j <= k_next k ->
      Some (a_content p nr (k_col kind (k_insert kind p nr k es) j)) = d_col (dk_insert p nr d es) j.
